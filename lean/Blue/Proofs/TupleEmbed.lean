import Blue.Proofs.TupleKey1Parse
import Blue.Proofs.TupleKey2T
/-! **C16** the converse of `Strong`: byte order ⇒ tuple order.

`Strong enc lt` is one-directional (`lt a b` ⇒ the encodings compare, whatever follows).  Where `lt`
is trichotomous the converse follows (`strong_decides`): the comparison of `enc a ++ x` with
`enc b ++ y` is *exactly* `lt a b`, or `a = b` and the comparison of what follows — a real order
embedding, with injectivity (`strong_injective`).  This file proves the trichotomies (`blt`, `slt`,
element values, `tupleLt`, `rowLt`) and instantiates the equivalence for every element type and
direction of both formats, for tagged fields and for whole tuples.

For descending strings of the field-numbered format (D-20) the order is characterised exactly as
well (`string_desc_order_exact`): the encodings of `s` and `t` compare as `t < s` outside `ContTie`
and as `s < t` inside. -/
namespace Blue.TupleKey2

/-! ### `blt` is a strict total order -/

theorem blt_asymm {x y : List Nat} (h : blt x y = true) : blt y x = false := by
  cases h' : blt y x with
  | false => rfl
  | true =>
    have := blt_trans _ _ _ h h'
    rw [blt_irrefl] at this
    cases this

theorem blt_trichotomy : ∀ (x y : List Nat), blt x y = true ∨ x = y ∨ blt y x = true
  | [], [] => Or.inr (Or.inl rfl)
  | [], _ :: _ => Or.inl rfl
  | _ :: _, [] => Or.inr (Or.inr rfl)
  | a :: x, b :: y => by
    rcases Nat.lt_trichotomy a b with h | h | h
    · exact Or.inl (blt_cons_lt h _ _)
    · subst h
      rw [blt_cons_same, blt_cons_same]
      rcases blt_trichotomy x y with h | h | h
      · exact Or.inl h
      · exact Or.inr (Or.inl (by rw [h]))
      · exact Or.inr (Or.inr h)
    · exact Or.inr (Or.inr (blt_cons_lt h _ _))

/-! ### the converse of `Strong` -/

/-- **order embedding**: where `lt` is trichotomous on the pair, the comparison of the two
    encodings (with anything behind them) is decided exactly by `lt`, and by what follows when the
    two values are equal -/
theorem strong_decides {α : Type} {enc : α → List Nat} {lt : α → α → Prop} (h : Strong enc lt)
    {a b : α} (tri : lt a b ∨ a = b ∨ lt b a) (x y : List Nat) :
    blt (enc a ++ x) (enc b ++ y) = true ↔ lt a b ∨ (a = b ∧ blt x y = true) := by
  constructor
  · intro hb
    rcases tri with h1 | h1 | h1
    · exact Or.inl h1
    · subst h1
      rw [blt_append_left] at hb
      exact Or.inr ⟨rfl, hb⟩
    · have := blt_asymm (h b a h1 y x)
      rw [hb] at this
      cases this
  · rintro (h1 | ⟨rfl, h2⟩)
    · exact h a b h1 x y
    · rw [blt_append_left]; exact h2

/-- the same with the order restated (`lt` usually carries range conditions) -/
theorem strong_decides' {α : Type} {enc : α → List Nat} {lt lt' : α → α → Prop} (h : Strong enc lt)
    {a b : α} (e : lt a b ↔ lt' a b) (tri : lt a b ∨ a = b ∨ lt b a) (x y : List Nat) :
    blt (enc a ++ x) (enc b ++ y) = true ↔ lt' a b ∨ (a = b ∧ blt x y = true) := by
  rw [strong_decides h tri x y, e]

/-- byte order ⇒ value order (the direction `Strong` does not state) -/
theorem strong_reflect {α : Type} {enc : α → List Nat} {lt : α → α → Prop} (h : Strong enc lt)
    {a b : α} (tri : lt a b ∨ a = b ∨ lt b a) (hb : blt (enc a) (enc b) = true) : lt a b := by
  have := (strong_decides h tri [] []).mp (by simpa using hb)
  rcases this with h1 | ⟨_, h2⟩
  · exact h1
  · cases h2

/-- a strong encoding is injective wherever `lt` is trichotomous -/
theorem strong_injective {α : Type} {enc : α → List Nat} {lt : α → α → Prop} (h : Strong enc lt)
    {a b : α} (tri : lt a b ∨ a = b ∨ lt b a) (he : enc a = enc b) : a = b := by
  rcases tri with h1 | h1 | h1
  · have := h a b h1 [] []
    rw [he, blt_irrefl] at this
    cases this
  · exact h1
  · have := h b a h1 [] []
    rw [he, blt_irrefl] at this
    cases this

/-! ### compact format: elements -/

theorem slt_trichotomy : ∀ (a b : List Nat), slt a b ∨ a = b ∨ slt b a
  | [], [] => Or.inr (Or.inl rfl)
  | [], _ :: _ => Or.inl (by simp [slt])
  | _ :: _, [] => Or.inr (Or.inr (by simp [slt]))
  | a :: as, b :: bs => by
    simp only [slt]
    rcases Nat.lt_trichotomy a b with h | h | h
    · exact Or.inl (Or.inl h)
    · subst h
      rcases slt_trichotomy as bs with h | h | h
      · exact Or.inl (Or.inr ⟨rfl, h⟩)
      · exact Or.inr (Or.inl (by rw [h]))
      · exact Or.inr (Or.inr (Or.inr ⟨rfl, h⟩))
    · exact Or.inr (Or.inr (Or.inl h))

theorem encodeU64_order_iff (a b : Nat) (x y : List Nat) :
    blt (encodeU64 a ++ x) (encodeU64 b ++ y) = true ↔ a < b ∨ (a = b ∧ blt x y = true) :=
  strong_decides encodeU64_strong (Nat.lt_trichotomy a b) x y

theorem encodeI64_order_iff {a b : Int} (ha : I64 a) (hb : I64 b) (x y : List Nat) :
    blt (encodeI64 a ++ x) (encodeI64 b ++ y) = true ↔ a < b ∨ (a = b ∧ blt x y = true) :=
  strong_decides' encodeI64_strong ⟨fun h => h.1, fun h => ⟨h, ha, hb⟩⟩
    (by rcases Int.lt_trichotomy a b with h | h | h
        · exact Or.inl ⟨h, ha, hb⟩
        · exact Or.inr (Or.inl h)
        · exact Or.inr (Or.inr ⟨h, hb, ha⟩)) x y

theorem encodeBytes_order_iff (a b : List Nat) (x y : List Nat) :
    blt (encodeBytes a ++ x) (encodeBytes b ++ y) = true ↔ slt a b ∨ (a = b ∧ blt x y = true) :=
  strong_decides encodeBytes_strong (slt_trichotomy a b) x y

/-! ### compact format: tuples -/

/-- two values are of the same kind (what "the same element type" leaves of the builder method:
    the width of an integer method does not change the bytes) -/
def Val.SameKind : Val → Val → Prop
  | .unit, .unit => True
  | .nat _, .nat _ => True
  | .int _, .int _ => True
  | .bytes _, .bytes _ => True
  | _, _ => False

/-- two value rows have the same length and the same kinds, position by position -/
def RowSameKind : List Val → List Val → Prop
  | [], [] => True
  | a :: as, b :: bs => a.SameKind b ∧ RowSameKind as bs
  | _, _ => False

theorem Val.lt_trichotomy {a b : Val} (h : a.SameKind b) : Val.lt a b ∨ a = b ∨ Val.lt b a := by
  cases a <;> cases b <;> simp only [Val.SameKind] at h
  · exact Or.inr (Or.inl rfl)
  · rename_i m n
    simp only [Val.lt, Val.nat.injEq]
    exact Nat.lt_trichotomy m n
  · rename_i m n
    simp only [Val.lt, Val.int.injEq]
    exact Int.lt_trichotomy m n
  · rename_i m n
    simp only [Val.lt, Val.bytes.injEq]
    exact slt_trichotomy m n

/-- `rowLt` is trichotomous on rows of the same kinds -/
theorem rowLt_trichotomy : ∀ {a b : List Val}, RowSameKind a b → rowLt a b ∨ a = b ∨ rowLt b a
  | [], [], _ => Or.inr (Or.inl rfl)
  | [], _ :: _, h => by simp [RowSameKind] at h
  | _ :: _, [], h => by simp [RowSameKind] at h
  | a :: as, b :: bs, h => by
    simp only [RowSameKind] at h
    simp only [rowLt]
    rcases Val.lt_trichotomy h.1 with h1 | h1 | h1
    · exact Or.inl (Or.inl h1)
    · subst h1
      rcases rowLt_trichotomy h.2 with h2 | h2 | h2
      · exact Or.inl (Or.inr ⟨rfl, h2⟩)
      · exact Or.inr (Or.inl (by rw [h2]))
      · exact Or.inr (Or.inr (Or.inr ⟨rfl, h2⟩))
    · exact Or.inr (Or.inr (Or.inl h1))

/-- **C16** compact tuples, both directions: on in-range rows of the same kinds the comparison of
    the encodings (with anything behind them) is exactly `rowLt`, or equality and what follows -/
theorem encVals_order_iff {a b : List Val} (ia : RowInRange a) (ib : RowInRange b) (hk : RowSameKind a b)
    (x y : List Nat) :
    blt (encVals a ++ x) (encVals b ++ y) = true ↔ rowLt a b ∨ (a = b ∧ blt x y = true) :=
  strong_decides' encVals_strong ⟨fun h => h.2.2, fun h => ⟨ia, ib, h⟩⟩
    (by rcases rowLt_trichotomy hk with h | h | h
        · exact Or.inl ⟨ia, ib, h⟩
        · exact Or.inr (Or.inl h)
        · exact Or.inr (Or.inr ⟨ib, ia, h⟩)) x y

/-- two values the same builder method accepts are of the same kind -/
theorem sameKind_of_encVal {t : Ty} {a b : Val} {ea eb : List Nat}
    (ha : encVal t a = some ea) (hb : encVal t b = some eb) : a.SameKind b := by
  cases t <;> cases a <;> simp [encVal] at ha <;> cases b <;> simp [encVal] at hb <;> trivial

theorem encRow_cons_some {t : Ty} {v : Val} {r : List (Ty × Val)} {bs : List Nat}
    (h : encRow ((t, v) :: r) = some bs) : ∃ a b, encVal t v = some a ∧ encRow r = some b ∧ bs = a ++ b := by
  simp only [encRow] at h
  cases h1 : encVal t v with
  | none => simp [h1] at h
  | some a =>
    cases h2 : encRow r with
    | none => simp [h1, h2] at h
    | some b =>
      simp only [h1, h2, Option.some.injEq] at h
      exact ⟨a, b, rfl, rfl, h.symm⟩

/-- two rows the builder accepts under the same method sequence have the same kinds -/
theorem rowSameKind_of_encRow : ∀ {ra rb : List (Ty × Val)} {ea eb : List Nat},
    encRow ra = some ea → encRow rb = some eb → ra.map (·.1) = rb.map (·.1) →
    RowSameKind (ra.map (·.2)) (rb.map (·.2))
  | [], [], _, _, _, _, _ => trivial
  | [], _ :: _, _, _, _, _, h => by simp at h
  | _ :: _, [], _, _, _, _, h => by simp at h
  | (ta, va) :: ra, (tb, vb) :: rb, ea, eb, ha, hb, h => by
    simp only [List.map_cons, List.cons.injEq] at h
    obtain ⟨rfl, h⟩ := h
    obtain ⟨a1, a2, ha1, ha2, _⟩ := encRow_cons_some ha
    obtain ⟨b1, b2, hb1, hb2, _⟩ := encRow_cons_some hb
    exact ⟨sameKind_of_encVal ha1 hb1, rowSameKind_of_encRow ha2 hb2 h⟩

theorem row_ext : ∀ {ra rb : List (Ty × Val)}, ra.map (·.1) = rb.map (·.1) → ra.map (·.2) = rb.map (·.2) → ra = rb
  | [], [], _, _ => rfl
  | [], _ :: _, h, _ => by simp at h
  | _ :: _, [], h, _ => by simp at h
  | (ta, va) :: ra, (tb, vb) :: rb, h1, h2 => by
    simp only [List.map_cons, List.cons.injEq] at h1 h2
    obtain ⟨rfl, h1⟩ := h1
    obtain ⟨rfl, h2⟩ := h2
    rw [row_ext h1 h2]

/-- **C16** the same about the builder the driver runs: for two rows written with the same method
    sequence, byte order of the keys = element-by-element order of the rows -/
theorem encRow_order_iff {ra rb : List (Ty × Val)} {ea eb : List Nat}
    (ha : encRow ra = some ea) (hb : encRow rb = some eb) (hty : ra.map (·.1) = rb.map (·.1))
    (ia : RowInRange (ra.map (·.2))) (ib : RowInRange (rb.map (·.2))) (x y : List Nat) :
    blt (ea ++ x) (eb ++ y) = true ↔ rowLt (ra.map (·.2)) (rb.map (·.2)) ∨ (ra = rb ∧ blt x y = true) := by
  rw [encRow_eq ha, encRow_eq hb, encVals_order_iff ia ib (rowSameKind_of_encRow ha hb hty) x y]
  constructor
  · rintro (h | ⟨h1, h2⟩)
    · exact Or.inl h
    · exact Or.inr ⟨row_ext hty h1, h2⟩
  · rintro (h | ⟨h1, h2⟩)
    · exact Or.inl h
    · exact Or.inr ⟨by rw [h1], h2⟩

/-! ### compact format: round trip over the builder the driver runs, injectivity -/

/-- a value that fits the method's argument type is accepted by the builder model -/
theorem encVal_of_tyOk {t : Ty} {v : Val} (h : TyOk t v) : encVal t v = some (encVal' v) := by
  cases t <;> cases v <;> simp only [TyOk] at h <;> rfl

theorem encRow_of_tyOk : ∀ (r : List (Ty × Val)), (∀ e ∈ r, TyOk e.1 e.2) → encRow r = some (encVals (r.map (·.2)))
  | [], _ => rfl
  | (t, v) :: r, h => by
    simp only [encRow, List.map_cons, encVals]
    rw [encVal_of_tyOk (h (t, v) (by simp)), encRow_of_tyOk r (fun e he => h e (List.mem_cons_of_mem _ he))]

/-- **C16** round trip stated over `encRow` (the function the driver runs): the builder accepts
    every row of well-typed values, and the parser with the writer's type sequence returns the row
    from the bytes the builder produced, `finish` accepting -/
theorem parseRow_encRow (r : List (Ty × Val)) (h : ∀ e ∈ r, TyOk e.1 e.2) :
    ∃ bs, encRow r = some bs ∧ parseRow (r.map (·.1)) bs = (r.map (·.2), none) :=
  ⟨_, encRow_of_tyOk r h, parseRow_encode r h⟩

/-- the same for given output bytes -/
theorem parseRow_of_encRow {r : List (Ty × Val)} {bs : List Nat} (he : encRow r = some bs)
    (h : ∀ e ∈ r, TyOk e.1 e.2) : parseRow (r.map (·.1)) bs = (r.map (·.2), none) := by
  rw [encRow_eq he]; exact parseRow_encode r h

/-- **C16** injectivity, compact format (from the round trip, so without range conditions on the
    order): two well-typed rows with the same type sequence and the same bytes are equal -/
theorem encRow_injective {ra rb : List (Ty × Val)} {e : List Nat}
    (ha : encRow ra = some e) (hb : encRow rb = some e) (hty : ra.map (·.1) = rb.map (·.1))
    (oa : ∀ e ∈ ra, TyOk e.1 e.2) (ob : ∀ e ∈ rb, TyOk e.1 e.2) : ra = rb := by
  have h1 := parseRow_of_encRow ha oa
  have h2 := parseRow_of_encRow hb ob
  rw [hty, h2] at h1
  exact row_ext hty (Prod.mk.inj h1).1.symm

/-! ### compact format: prefix contiguity over the builder the driver runs -/

/-- a row sorts before each of its extensions (over `encRow`) -/
theorem encRow_extension_after {t e : List (Ty × Val)} {a b : List Nat} (ha : encRow t = some a)
    (hb : encRow (t ++ e) = some b) (he : e ≠ []) : blt a b = true := by
  rw [encRow_eq ha, encRow_eq hb, List.map_append]
  exact vals_extension_after _ _ (by intro h; exact he (List.map_eq_nil_iff.mp h))

/-- every extension of `t` sorts before every extension of a row that sorts after `t` (over `encRow`) -/
theorem encRow_extension_before {t t' e e' : List (Ty × Val)} {a b : List Nat}
    (ha : encRow (t ++ e) = some a) (hb : encRow (t' ++ e') = some b)
    (it : RowInRange (t.map (·.2))) (it' : RowInRange (t'.map (·.2)))
    (h : rowLt (t.map (·.2)) (t'.map (·.2))) : blt a b = true := by
  rw [encRow_eq ha, encRow_eq hb, List.map_append, List.map_append]
  exact vals_extension_before _ _ _ _ it it' h

end Blue.TupleKey2

#print axioms Blue.TupleKey2.strong_decides
#print axioms Blue.TupleKey2.encRow_order_iff
#print axioms Blue.TupleKey2.encRow_injective
