import Blue.Proofs.Huffman
/-! The `BinaryHeap` model of `Blue/Model/Huffman.lean` IS a min-heap: `push` and `pop` keep the heap
    order, `pop` returns a minimal node.  Hence the tree `heapTree` builds is an `Outcome` of the
    nondeterministic construction (it merges two minimal nodes at every step), and the Fibonacci
    theorem holds for the construction with the heap's own tie-breaking. -/
namespace Blue.Huffman

def par (i : Nat) : Nat := (i - 1) / 2

def wt (d : List WTree) (i : Nat) : Nat :=
  match d[i]? with
  | some a => a.1
  | none => 0

def IsHeap (d : List WTree) : Prop := ∀ i, 0 < i → i < d.length → wt d (par i) ≤ wt d i

/-- heap order everywhere but around `pos`; across `pos` the order holds (grandparent ≤ grandchild) -/
structure HE (d : List WTree) (pos : Nat) : Prop where
  rel : ∀ i, 0 < i → i < d.length → i ≠ pos → par i ≠ pos → wt d (par i) ≤ wt d i
  gp : ∀ i, 0 < i → i < d.length → par i = pos → 0 < pos → wt d (par pos) ≤ wt d i

theorem swapL_length (d : List WTree) (i j : Nat) : (swapL d i j).length = d.length := by
  unfold swapL; split <;> simp

theorem swapL_getElem? (d : List WTree) (i j k : Nat) (hi : i < d.length) (hj : j < d.length) :
    (swapL d i j)[k]? = if k = j then d[i]? else if k = i then d[j]? else d[k]? := by
  unfold swapL
  rw [dif_pos ⟨hi, hj⟩]
  by_cases h1 : k = j
  · subst h1; simp [hi, hj]
  · by_cases h2 : k = i
    · subst h2; simp [h1, hj, hi, Ne.symm h1]
    · simp [h1, h2, Ne.symm h1, Ne.symm h2]

theorem wt_swap (d : List WTree) (i j k : Nat) (hi : i < d.length) (hj : j < d.length) :
    wt (swapL d i j) k = if k = j then wt d i else if k = i then wt d j else wt d k := by
  unfold wt; rw [swapL_getElem? d i j k hi hj]
  by_cases h1 : k = j
  · rw [if_pos h1, if_pos h1]
  · rw [if_neg h1, if_neg h1]
    by_cases h2 : k = i
    · rw [if_pos h2, if_pos h2]
    · rw [if_neg h2, if_neg h2]

theorem wt_swap_j (d : List WTree) (i j : Nat) (hi : i < d.length) (hj : j < d.length) :
    wt (swapL d i j) j = wt d i := by rw [wt_swap d i j j hi hj, if_pos rfl]

theorem wt_swap_i (d : List WTree) (i j : Nat) (hi : i < d.length) (hj : j < d.length) (hij : i ≠ j) :
    wt (swapL d i j) i = wt d j := by rw [wt_swap d i j i hi hj, if_neg hij, if_pos rfl]

theorem wt_swap_ne (d : List WTree) (i j k : Nat) (hi : i < d.length) (hj : j < d.length) (h1 : k ≠ i) (h2 : k ≠ j) :
    wt (swapL d i j) k = wt d k := by rw [wt_swap d i j k hi hj, if_neg h2, if_neg h1]

theorem wt_of_get (d : List WTree) (i : Nat) (a : WTree) (h : d[i]? = some a) : wt d i = a.1 := by
  unfold wt; rw [h]

/-- one step down: the hole at `pos` is swapped with its minimal child `c` -/
theorem HE_down (d : List WTree) (pos c : Nat) (hpos : pos < d.length) (hc : c < d.length) (hc0 : 0 < c)
    (hpc : par c = pos) (hmin : ∀ i, 0 < i → i < d.length → par i = pos → wt d c ≤ wt d i)
    (h : HE d pos) : HE (swapL d pos c) c := by
  have hlt : pos < c := by unfold par at hpc; omega
  constructor
  · intro i hi0 hil hic hpic
    rw [swapL_length] at hil
    by_cases hip : i = pos
    · subst hip
      have hp0 : par i ≠ i := by unfold par; omega
      have hpl : par i < i := by unfold par; omega
      rw [wt_swap_i d i c hpos hc (by omega), wt_swap_ne d i c (par i) hpos hc hp0 hpic]
      exact h.gp c hc0 hc hpc hi0
    · rw [wt_swap_ne d pos c i hpos hc hip hic]
      by_cases hpp : par i = pos
      · rw [hpp, wt_swap_i d pos c hpos hc (by omega)]
        exact hmin i hi0 hil hpp
      · rw [wt_swap_ne d pos c (par i) hpos hc hpp hpic]
        exact h.rel i hi0 hil hip hpp
  · intro i hi0 hil hpi _
    rw [swapL_length] at hil
    have hic : c < i := by unfold par at hpi; omega
    rw [hpc, wt_swap_i d pos c hpos hc (by omega), wt_swap_ne d pos c i hpos hc (by omega) (by omega)]
    have := h.rel i hi0 hil (by omega) (by rw [hpi]; omega)
    rwa [hpi] at this

/-- one step up -/
theorem HE_up (d : List WTree) (pos : Nat) (hpos : pos < d.length) (h0 : 0 < pos) (h : HE d pos)
    (hex : ∀ i, 0 < i → i < d.length → par i = pos → wt d pos ≤ wt d i)
    (hlt : wt d pos < wt d (par pos)) :
    HE (swapL d pos (par pos)) (par pos)
    ∧ ∀ i, 0 < i → i < (swapL d pos (par pos)).length → par i = par pos →
        wt (swapL d pos (par pos)) (par pos) ≤ wt (swapL d pos (par pos)) i := by
  have hp : par pos < pos := by unfold par; omega
  have hpl : par pos < d.length := by omega
  refine ⟨⟨?_, ?_⟩, ?_⟩
  · intro i hi0 hil hip hpip
    rw [swapL_length] at hil
    have hipos : i ≠ pos := by intro e; subst e; exact hpip rfl
    rw [wt_swap_ne d pos (par pos) i hpos hpl hipos hip]
    by_cases hpp : par i = pos
    · rw [hpp, wt_swap_i d pos (par pos) hpos hpl (by omega)]
      exact h.gp i hi0 hil hpp h0
    · rw [wt_swap_ne d pos (par pos) (par i) hpos hpl hpp hpip]
      exact h.rel i hi0 hil hipos hpp
  · intro i hi0 hil hpi hp0
    rw [swapL_length] at hil
    have hpp : par (par pos) < par pos := by unfold par at hp0 ⊢; omega
    rw [wt_swap_ne d pos (par pos) (par (par pos)) hpos hpl (by omega) (by omega)]
    have r1 := h.rel (par pos) hp0 hpl (by omega) (by omega)
    by_cases hipos : i = pos
    · subst hipos
      rw [wt_swap_i d i (par i) hpos hpl (by omega)]
      exact r1
    · have hip : i ≠ par pos := by intro e; rw [e] at hpi; omega
      rw [wt_swap_ne d pos (par pos) i hpos hpl hipos hip]
      have r2 := h.rel i hi0 hil hipos (by rw [hpi]; omega)
      rw [hpi] at r2
      omega
  · intro i hi0 hil hpi
    rw [swapL_length] at hil
    rw [wt_swap_j d pos (par pos) hpos hpl]
    by_cases hipos : i = pos
    · subst hipos
      rw [wt_swap_i d i (par i) hpos hpl (by omega)]
      omega
    · have hip : i ≠ par pos := by intro e; unfold par at hpi hp e; omega
      rw [wt_swap_ne d pos (par pos) i hpos hpl hipos hip]
      have r2 := h.rel i hi0 hil hipos (by rw [hpi]; omega)
      rw [hpi] at r2
      omega

theorem heap_of_HE (d : List WTree) (pos : Nat) (h : HE d pos)
    (hex : ∀ i, 0 < i → i < d.length → par i = pos → wt d pos ≤ wt d i)
    (hor : pos = 0 ∨ wt d (par pos) ≤ wt d pos) : IsHeap d := by
  intro i hi0 hil
  by_cases hip : i = pos
  · subst hip; rcases hor with h0 | h0
    · omega
    · exact h0
  · by_cases hpp : par i = pos
    · rw [hpp]; exact hex i hi0 hil hpp
    · exact h.rel i hi0 hil hip hpp

theorem siftUp_heap (f : Nat) (d : List WTree) (pos : Nat) (hpos : pos < d.length) (hf : pos ≤ f)
    (h : HE d pos) (hex : ∀ i, 0 < i → i < d.length → par i = pos → wt d pos ≤ wt d i) :
    IsHeap (siftUp f d 0 pos) := by
  induction f generalizing d pos with
  | zero => exact heap_of_HE d pos h hex (Or.inl (by omega))
  | succ f ih =>
    simp only [siftUp]
    by_cases h0 : 0 < pos
    · rw [if_pos h0]
      have hp : par pos < pos := by unfold par; omega
      have hpl : par pos < d.length := by omega
      have e1 : d[pos]? = some d[pos] := List.getElem?_eq_getElem hpos
      have e2 : d[(pos - 1) / 2]? = some (d[par pos]'hpl) := List.getElem?_eq_getElem hpl
      rw [e1, e2]
      simp only
      have w1 : wt d pos = d[pos].1 := wt_of_get d pos _ e1
      have w2 : wt d (par pos) = (d[par pos]'hpl).1 := wt_of_get d (par pos) _ e2
      by_cases hle : (d[par pos]'hpl).1 ≤ d[pos].1
      · rw [if_pos hle]; exact heap_of_HE d pos h hex (Or.inr (by omega))
      · rw [if_neg hle]
        obtain ⟨hh, hx⟩ := HE_up d pos hpos h0 h hex (by omega)
        exact ih (swapL d pos (par pos)) (par pos) (by rw [swapL_length]; exact hpl) (by omega) hh hx
    · rw [if_neg h0]; exact heap_of_HE d pos h hex (Or.inl (by omega))

theorem siftUp_length (f : Nat) (d : List WTree) (s pos : Nat) : (siftUp f d s pos).length = d.length :=
  (siftUp_perm f d s pos).length_eq

theorem siftDownBottom_spec (f : Nat) (d : List WTree) (pos : Nat) (hpos : pos < d.length)
    (hf : d.length ≤ f + pos + 1) (h : HE d pos) :
    HE (siftDownBottom f d pos).1 (siftDownBottom f d pos).2
    ∧ (siftDownBottom f d pos).2 < d.length
    ∧ d.length ≤ 2 * (siftDownBottom f d pos).2 + 1 := by
  induction f generalizing d pos with
  | zero => simp only [siftDownBottom]; exact ⟨h, hpos, by omega⟩
  | succ f ih =>
    simp only [siftDownBottom]
    by_cases h2 : 2 * pos + 1 + 2 ≤ d.length
    · rw [if_pos h2]
      have hl : 2 * pos + 1 < d.length := by omega
      have hr : 2 * pos + 2 < d.length := by omega
      have e1 : d[2 * pos + 1]? = some d[2 * pos + 1] := List.getElem?_eq_getElem hl
      have e2 : d[2 * pos + 2]? = some d[2 * pos + 2] := List.getElem?_eq_getElem hr
      rw [e1, e2]
      simp only
      have w1 := wt_of_get d _ _ e1
      have w2 := wt_of_get d _ _ e2
      have kids : ∀ i, 0 < i → par i = pos → i = 2 * pos + 1 ∨ i = 2 * pos + 2 := by
        intro i hi hp; unfold par at hp; omega
      by_cases hle : d[2 * pos + 2].1 ≤ d[2 * pos + 1].1
      · rw [if_pos hle]
        have hh := HE_down d pos (2 * pos + 2) hpos hr (by omega) (by unfold par; omega)
          (fun i hi0 _ hp => by rcases kids i hi0 hp with e | e <;> subst e <;> omega) h
        have := ih (swapL d pos (2 * pos + 2)) (2 * pos + 2) (by rw [swapL_length]; exact hr)
          (by rw [swapL_length]; omega) hh
        rw [swapL_length] at this; exact this
      · rw [if_neg hle]
        have hh := HE_down d pos (2 * pos + 1) hpos hl (by omega) (by unfold par; omega)
          (fun i hi0 _ hp => by rcases kids i hi0 hp with e | e <;> subst e <;> omega) h
        have := ih (swapL d pos (2 * pos + 1)) (2 * pos + 1) (by rw [swapL_length]; exact hl)
          (by rw [swapL_length]; omega) hh
        rw [swapL_length] at this; exact this
    · rw [if_neg h2]
      by_cases h1 : 2 * pos + 1 + 1 = d.length
      · rw [if_pos h1]
        have hl : 2 * pos + 1 < d.length := by omega
        have hh := HE_down d pos (2 * pos + 1) hpos hl (by omega) (by unfold par; omega)
          (fun i hi0 hil hp => by
            have : i = 2 * pos + 1 := by unfold par at hp; omega
            subst this; exact Nat.le_refl _) h
        exact ⟨hh, hl, by omega⟩
      · rw [if_neg h1]; exact ⟨h, hpos, by omega⟩

theorem siftDownBottom_length (f : Nat) (d : List WTree) (pos : Nat) :
    (siftDownBottom f d pos).1.length = d.length := (siftDownBottom_perm f d pos).length_eq

/-- the root of a heap is minimal -/
theorem heap_root_min (d : List WTree) (h : IsHeap d) : ∀ i, i < d.length → wt d 0 ≤ wt d i := by
  intro i
  induction i using Nat.strongRecOn with
  | _ i ih =>
    intro hil
    rcases Nat.eq_zero_or_pos i with h0 | h0
    · subst h0; exact Nat.le_refl _
    · have hp : par i < i := by unfold par; omega
      exact Nat.le_trans (ih (par i) hp (by omega)) (h i h0 hil)

theorem wt_mem (d : List WTree) (c : WTree) (hc : c ∈ d) : ∃ i, i < d.length ∧ wt d i = c.1 := by
  obtain ⟨i, hi, e⟩ := List.getElem_of_mem hc
  exact ⟨i, hi, by rw [wt_of_get d i c (by rw [List.getElem?_eq_getElem hi, e])]⟩

theorem heapPush_heap (d : List WTree) (x : WTree) (h : IsHeap d) : IsHeap (heapPush d x) := by
  unfold heapPush
  have hw : ∀ i, i < d.length → wt (d ++ [x]) i = wt d i := by
    intro i hi; unfold wt; rw [List.getElem?_append_left hi]
  refine siftUp_heap _ _ _ (by simp) (by omega) ⟨?_, ?_⟩ ?_
  · intro i hi0 hil hne hpne
    simp only [List.length_append, List.length_singleton] at hil
    have hp : par i < i := by unfold par; omega
    rw [hw i (by omega), hw (par i) (by omega)]
    exact h i hi0 (by omega)
  · intro i hi0 hil hpi _
    simp only [List.length_append, List.length_singleton] at hil
    unfold par at hpi; omega
  · intro i hi0 hil hpi
    simp only [List.length_append, List.length_singleton] at hil
    unfold par at hpi; omega

theorem heapPop_heap (d : List WTree) (h : IsHeap d) (a : WTree) (d' : List WTree)
    (hp : heapPop d = some (a, d')) : IsHeap d' ∧ ∀ c ∈ d, a.1 ≤ c.1 := by
  unfold heapPop at hp
  cases hl : d.getLast? with
  | none => rw [hl] at hp; simp at hp
  | some item =>
    rw [hl] at hp
    obtain ⟨ys, rfl⟩ := List.getLast?_eq_some_iff.1 hl
    rw [List.dropLast_concat] at hp
    cases ys with
    | nil =>
      simp only [Option.some.injEq, Prod.mk.injEq] at hp
      obtain ⟨rfl, rfl⟩ := hp
      refine ⟨fun i _ hil => by simp at hil, fun c hc => ?_⟩
      simp at hc; subst hc; exact Nat.le_refl _
    | cons top tl =>
      simp only [Option.some.injEq, Prod.mk.injEq] at hp
      obtain ⟨rfl, rfl⟩ := hp
      constructor
      · -- the new array `item :: tl` with the hole at 0
        have hw : ∀ i, 0 < i → i < tl.length + 1 → wt (item :: tl) i = wt (top :: tl ++ [item]) i := by
          intro i hi0 hil
          unfold wt
          obtain ⟨j, rfl⟩ : ∃ j, i = j + 1 := ⟨i - 1, by omega⟩
          simp only [List.cons_append, List.getElem?_cons_succ]
          rw [List.getElem?_append_left (by omega)]
        have hHE : HE (item :: tl) 0 := by
          constructor
          · intro i hi0 hil hne hpne
            simp only [List.length_cons] at hil
            have hpi : par i < i := by unfold par; omega
            rw [hw i hi0 hil, hw (par i) (by omega) (by omega)]
            exact h i hi0 (by simp; omega)
          · intro i _ _ _ h0; omega
        obtain ⟨h1, h2, h3⟩ := siftDownBottom_spec (tl.length + 1) (item :: tl) 0 (by simp) (by simp) hHE
        refine siftUp_heap _ _ _ (by rw [siftDownBottom_length]; exact h2)
          (by simp only [List.length_cons] at h2; omega) h1 ?_
        intro i hi0 hil hpi
        rw [siftDownBottom_length] at hil
        unfold par at hpi; omega
      · intro c hc
        obtain ⟨i, hi, e⟩ := wt_mem _ c hc
        have := heap_root_min _ h i hi
        rw [e] at this
        have e0 : wt (top :: tl ++ [item]) 0 = top.1 := by simp [wt]
        omega

theorem isHeap_nil : IsHeap [] := fun i _ hil => by simp at hil

theorem foldl_heapPush_heap (l acc : List WTree) (h : IsHeap acc) : IsHeap (l.foldl heapPush acc) := by
  induction l generalizing acc with
  | nil => exact h
  | cons x xs ih => exact ih _ (heapPush_heap acc x h)

/-- the loop over the heap merges two minimal nodes at every step -/
theorem heapLoop_outcome (f : Nat) (q : List WTree) (hq : IsHeap q) (t : HTree)
    (h : heapLoop f q = some t) : Outcome q t := by
  induction f generalizing q with
  | zero =>
    match q, h with
    | [a], h => simp [heapLoop] at h; subst h; exact Outcome.done a
  | succ f ih =>
    match q, hq, h with
    | [a], _, h => simp [heapLoop] at h; subst h; exact Outcome.done a
    | x :: y :: rest, hq, h =>
      simp only [heapLoop] at h
      cases h1 : heapPop (x :: y :: rest) with
      | none => rw [h1] at h; simp at h
      | some r1 =>
        obtain ⟨a, d1⟩ := r1
        rw [h1] at h
        simp only at h
        cases h2 : heapPop d1 with
        | none => rw [h2] at h; simp at h
        | some r2 =>
          obtain ⟨b, d2⟩ := r2
          rw [h2] at h
          simp only at h
          obtain ⟨hh1, hm1⟩ := heapPop_heap _ hq a d1 h1
          obtain ⟨hh2, hm2⟩ := heapPop_heap _ hh1 b d2 h2
          have p1 := heapPop_perm _ _ _ h1
          have p2 := heapPop_perm _ _ _ h2
          exact Outcome.merge _ d2 _ a b t (p1.trans (List.Perm.cons _ p2)) hm1
            (fun c hc => hm2 c (p2.symm.subset (List.mem_cons_of_mem _ hc)))
            (heapPush_perm d2 _) (ih _ (heapPush_heap _ _ hh2) h)

theorem heapTree_outcome (freqs : List (Nat × Nat)) (t : HTree) (h : heapTree freqs = some t) :
    Outcome (initial freqs) t := by
  have hp : ((initial freqs).foldl heapPush []).Perm (initial freqs) := by
    simpa using foldl_heapPush_perm (initial freqs) []
  exact outcome_of_perm (heapLoop_outcome _ _ (foldl_heapPush_heap _ _ isHeap_nil) t h) hp.symm

/-- the Fibonacci depth with the `BinaryHeap`'s own tie-breaking -/
theorem huffmanHeap_fibonacci_depth (n : Nat) (hn : 2 ≤ n) :
    ∃ en ∈ huffmanHeap (fibTable n), en.2.2 = n - 1 := by
  have hne : fibTable n ≠ [] := by
    intro h; have := fibPairs_length n 0 1 1; unfold fibTable at h; rw [h] at this; simp at this; omega
  obtain ⟨t, ht, _⟩ := heapTree_spec (fibTable n) hne
  have : huffmanHeap (fibTable n) = codeBook t := by simp [huffmanHeap, ht]
  rw [this]
  exact outcome_fibonacci_depth n hn t (heapTree_outcome _ t ht)

end Blue.Huffman
