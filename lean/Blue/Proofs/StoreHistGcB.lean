import Blue.Model.StoreHistGcB
import Blue.Proofs.StoreHistGc
/-! Soundness of the Boolean obligations the C01 driver evaluates on real collecting compactions. -/
namespace Blue.StoreHistGcB
open Blue.Spec Blue.StoreHist

theorem newestKeptB_eq (pay : Nat → Nat → Option Payload) (ins outs : List (Ver Nat)) :
    newestKeptB pay ins outs = Blue.StoreHistGc.newestKeptB pay ins outs := rfl

/-- the flag `newest=1` of the driver is `NewestKept`, the hypothesis `hnewest` of `GcCompactionOk` -/
theorem newestKeptB_sound (pay : Nat → Nat → Option Payload) (ins outs : List (Ver Nat))
    (h : newestKeptB pay ins outs = true) : Blue.StoreHistGc.NewestKept pay ins outs :=
  Blue.StoreHistGc.newestKeptB_sound pay ins outs (by rw [← newestKeptB_eq]; exact h)

/-- the flag `sub=1` of the driver is `hsub` of `GcCompactionOk` -/
theorem subB_sound (ins outs : List (Ver Nat)) (h : subB ins outs = true) : ∀ e ∈ outs, e ∈ ins := by
  intro e he
  unfold subB at h
  rw [List.all_eq_true] at h
  have := h e he
  simpa using this

end Blue.StoreHistGcB
