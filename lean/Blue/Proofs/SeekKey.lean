import Blue.Proofs.ScanSpec
import Blue.Proofs.ConcatMain
import Blue.Proofs.BoundsMain
/-! **C11** the seek-predicate hypotheses of the five refinement theorems (`Mono`, `PredMono`,
    `MonoAlong`, `SeekPred`) discharged for the predicate `seek(key)` really issues —
    `geKey klt k = fun e => ¬ key e < k` — on key-sorted tables; and the state `BoundsCursor::new`
    leaves (`new` performs a `seek_to_first`) is related to position 0. -/
namespace Blue.Spec
open Blue.Cursor Blue.Cursor.Filtered
variable {K : Type} [DecidableEq K]

/-- merging: `seek(key)` is upward closed in the entry order (hypothesis `Mono` of `merging_refines*`) -/
theorem geKey_mono {klt : K → K → Bool} (st : StrictTotal klt) (k : K) : Mono (vlt klt) (geKey klt k) :=
  adm_mono st (Or.inl ⟨k, rfl⟩)

/-- bounds: `seek(key)` switches once along any table whose keys never decrease (`MonoAlong`) -/
theorem geKey_monoAlong {klt : K → K → Bool} (st : StrictTotal klt) (k : K) (xs : List (Ver K))
    (hm : KeysMono klt xs) : MonoAlong xs (geKey klt k) :=
  adm_along st (Or.inl ⟨k, rfl⟩) xs hm

/-- concat: `seek(key)` switches once along the concatenation of children in key order (`PredMono`) -/
theorem geKey_predMono {klt : K → K → Bool} (st : StrictTotal klt) (k : K) (L : List (List (Ver K)))
    (hm : KeysMono klt L.flatten) : PredMono L (geKey klt k) :=
  adm_along st (Or.inl ⟨k, rfl⟩) L.flatten hm

/-- pruning: `seek(key)` depends on the key only and switches once (`SeekPred`) -/
theorem geKey_seekPred {klt : K → K → Bool} (st : StrictTotal klt) (k : K) (t : Nat) (tomb : Ver K → Bool)
    (xs : List (Ver K)) (hm : KeysMono klt xs) : SeekPred (pcfg t tomb) xs (geKey klt k) :=
  adm_seekPred st (Or.inl ⟨k, rfl⟩) t tomb xs hm

end Blue.Spec

namespace Blue.Cursor
variable {E : Type} (cfg : BoundsCfg E) (xs : List E)

/-- the state `BoundsCursor::new` leaves (it performs a `seek_to_first`) is related to position 0 -/
theorem brel_new {lo hi : Nat} (ok : BoundsOk cfg xs lo hi) :
    BRel xs lo hi (Bounds.new cfg ⟨xs, 0⟩) 0 :=
  brel_first cfg xs ok (BRel.before (lo := lo) (hi := hi) 0 (by simp) (by omega))

/-- `bounds_refines` started from `BoundsCursor::new` -/
theorem bounds_refines_new {lo hi : Nat} (ok : BoundsOk cfg xs lo hi) (n : Nat) (hn : xs.length + 2 ≤ n)
    (ops : List (Op E)) (hops : ∀ pred, Op.seek pred ∈ ops → MonoAlong xs pred) :
    Bounds.run cfg n (Bounds.new cfg ⟨xs, 0⟩) ops = Ref.run ⟨window xs lo hi, 0⟩ ops :=
  bounds_refines cfg xs ok n hn ops _ 0 (brel_new cfg xs ok) hops

end Blue.Cursor

#print axioms Blue.Spec.geKey_mono
#print axioms Blue.Spec.geKey_predMono
#print axioms Blue.Cursor.bounds_refines_new
