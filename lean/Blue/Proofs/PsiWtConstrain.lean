import Blue.Proofs.PsiWtLookup
/-! `WaveletTreePsi::constrain` on a symbol's column equals `ReferencePsi::constrain`: the cell search
    of `lower_bound` / `upper_bound` lands on the right cell, and the `rank_q` / `lookup` arithmetic
    in that cell's row counts the ψ values below the bound. -/
namespace Blue.PsiWt
open Blue.BitVec Blue.Sampled Blue.WaveletRef Outcome

/-- `(r0, r1)` (closed) is the column of symbol `σ`: the ranks whose first symbol is `σ` -/
structure IsColumn (syms : List Nat) (σ r0 r1 : Nat) : Prop where
  le : r0 ≤ r1
  lt : r1 < syms.length
  mem : ∀ i, i < syms.length → ((r0 ≤ i ∧ i ≤ r1) ↔ syms.getD i 0 = σ)

/-! ### the binary search -/

theorem partitionBy_zero (p : Nat → Bool) (l r : Nat) : partitionBy p 0 l r = l := rfl

theorem partitionBy_succ (p : Nat → Bool) (f l r : Nat) :
    partitionBy p (f + 1) l r
      = if l < r then
          (if p (l + (r - l) / 2) then partitionBy p f (l + (r - l) / 2 + 1) r
           else partitionBy p f l (l + (r - l) / 2))
        else l := rfl

theorem partitionByO_zero (pred : Nat → Outcome Bool) (l r : Nat) : partitionByO pred 0 l r = ok l := rfl

theorem partitionByO_succ (pred : Nat → Outcome Bool) (f l r : Nat) :
    partitionByO pred (f + 1) l r
      = if l < r then
          (match pred (l + (r - l) / 2) with
           | .ok true => partitionByO pred f (l + (r - l) / 2 + 1) r
           | .ok false => partitionByO pred f l (l + (r - l) / 2)
           | .err => .err
           | .panic => .panic)
        else ok l := rfl

/-- a closure that does not fail on the searched range is a plain predicate -/
theorem partitionByO_eq (pred : Nat → Outcome Bool) (p : Nat → Bool) : ∀ (f l r : Nat),
    (∀ i, l ≤ i → i < r → pred i = ok (p i)) → partitionByO pred f l r = ok (partitionBy p f l r)
  | 0, l, r, _ => rfl
  | f + 1, l, r, h => by
    rw [partitionByO_succ, partitionBy_succ]
    by_cases hlr : l < r
    · rw [if_pos hlr, if_pos hlr, h (l + (r - l) / 2) (by omega) (by omega)]
      cases hp : p (l + (r - l) / 2) with
      | true =>
        simp only [if_true]
        exact partitionByO_eq pred p f _ r (fun i h1 h2 => h i (by omega) h2)
      | false =>
        simp only [Bool.false_eq_true, if_false]
        exact partitionByO_eq pred p f l _ (fun i h1 h2 => h i h1 (by omega))
    · rw [if_neg hlr, if_neg hlr]

/-- where the search with its one-step correction lands among `m` cells whose row starts `S`
    ascend: on the last cell whose row starts at or before `point` (the first cell if there is none) -/
theorem choose_cell (S : Nat → Nat) (m k0 point : Nat) (hm : 1 ≤ m)
    (hS : ∀ t t', t < t' → t' < m → S t < S t') :
    ∃ c cell, partitionBy (fun cell => decide (S (cell - k0) < point)) (k0 + (m - 1) - k0 + 1) k0 (k0 + (m - 1)) = c
      ∧ cell = (if c > k0 then (if S (c - k0) > point then c - 1 else c) else c)
      ∧ k0 ≤ c ∧ c < k0 + m
      ∧ k0 ≤ cell ∧ cell < k0 + m ∧ (k0 < cell → S (cell - k0) ≤ point)
      ∧ (cell + 1 < k0 + m → point < S (cell + 1 - k0)) := by
  obtain ⟨h1, h2, h3, h4⟩ := partitionBy_spec (fun cell => decide (S (cell - k0) < point))
    (k0 + (m - 1) - k0 + 1) k0 (k0 + (m - 1)) (by omega) (by omega)
    (by
      intro i j hi hij hj hpj
      simp only [decide_eq_true_eq] at hpj ⊢
      rcases Nat.eq_or_lt_of_le hij with e | hlt
      · rw [e]; exact hpj
      · have := hS (i - k0) (j - k0) (by omega) (by omega); omega)
  refine ⟨_, _, rfl, rfl, h1, by omega, ?_⟩
  generalize partitionBy (fun cell => decide (S (cell - k0) < point)) (k0 + (m - 1) - k0 + 1) k0 (k0 + (m - 1)) = c
    at h1 h2 h3 h4
  by_cases hc : c > k0
  · rw [if_pos hc]
    by_cases hs : S (c - k0) > point
    · rw [if_pos hs]
      refine ⟨by omega, by omega, ?_, ?_⟩
      · intro _
        have := h3 (c - 1) (by omega) (by omega)
        simp only [decide_eq_true_eq] at this
        omega
      · intro _
        have e : c - 1 + 1 - k0 = c - k0 := by omega
        rw [e]; exact hs
    · rw [if_neg hs]
      refine ⟨by omega, by omega, fun _ => by omega, ?_⟩
      intro hlt
      have := h4 c (Nat.le_refl _) (by omega)
      simp only [decide_eq_false_iff_not] at this
      have := hS (c - k0) (c + 1 - k0) (by omega) (by omega)
      omega
  · rw [if_neg hc]
    have e : c = k0 := by omega
    refine ⟨by omega, by omega, fun h => by omega, ?_⟩
    intro hlt
    have := h4 c (Nat.le_refl _) (by omega)
    simp only [decide_eq_false_iff_not] at this
    have := hS (c - k0) (c + 1 - k0) (by omega) (by omega)
    omega

/-! ### a column and its cells -/

section
variable {syms psi ipsi : List Nat} {table : List Ctx}

/-- the column starts after the ranks of the smaller symbols -/
theorem Built.col_start (b : Built syms psi ipsi table) {σ r0 r1 : Nat} (hc : IsColumn syms σ r0 r1) :
    (bwt syms ipsi).countP (fun x => decide (x < σ)) = r0 := by
  rw [b.countP_bwt]
  have hσ : syms.getD r0 0 = σ := (hc.mem r0 (by have := hc.lt; have := hc.le; omega)).mp ⟨Nat.le_refl _, hc.le⟩
  have h1 := mono_split syms b.good.mono r0 (by have := hc.lt; have := hc.le; omega)
  rw [hσ] at h1
  have h2 : (syms.take r0).count σ = 0 := by
    rw [List.count_eq_zero]
    intro hm
    obtain ⟨k, hk, hk2⟩ := List.getElem_of_mem hm
    rw [List.getElem_take] at hk2
    rw [List.length_take] at hk
    have hk3 : syms.getD k 0 = σ := by
      rw [List.getD_eq_getElem?_getD, List.getElem?_eq_getElem (by omega)]; exact hk2
    have := (hc.mem k (by omega)).mpr hk3
    omega
  omega

/-- the column has as many ranks as the symbol has occurrences -/
theorem Built.col_total (b : Built syms psi ipsi table) {σ r0 r1 : Nat} (hc : IsColumn syms σ r0 r1) :
    (bwt syms ipsi).count σ = r1 + 1 - r0 := by
  rw [List.count_eq_countP, b.countP_bwt, ← List.count_eq_countP]
  have hσ : syms.getD r1 0 = σ := (hc.mem r1 hc.lt).mp ⟨hc.le, Nat.le_refl _⟩
  have h0 := b.col_start hc
  rw [b.countP_bwt] at h0
  have h1 := mono_split syms b.good.mono r1 hc.lt
  rw [hσ, h0] at h1
  have h2 : (syms.take (r1 + 1)).count σ = (syms.take r1).count σ + 1 := by
    apply count_take_succ_of
    rw [List.getD_eq_getElem?_getD, List.getElem?_eq_getElem hc.lt] at hσ
    rw [List.getElem?_eq_getElem hc.lt]
    exact congrArg some hσ
  have h3 : (syms.drop (r1 + 1)).count σ = 0 := by
    rw [List.count_eq_zero]
    intro hm
    obtain ⟨k, hk, hk2⟩ := List.getElem_of_mem hm
    rw [List.getElem_drop] at hk2
    rw [List.length_drop] at hk
    have hk3 : syms.getD (r1 + 1 + k) 0 = σ := by
      rw [List.getD_eq_getElem?_getD, List.getElem?_eq_getElem (by omega)]; exact hk2
    have := (hc.mem (r1 + 1 + k) (by omega)).mpr hk3
    omega
  have h4 : syms.count σ = (syms.take (r1 + 1)).count σ + (syms.drop (r1 + 1)).count σ := by
    rw [← List.count_append, List.take_append_drop]
  omega

/-- `Psi::len` of the built structure -/
theorem Built.len_eq (b : Built syms psi ipsi table) (hne : table ≠ []) :
    len (ofTable (kOf syms) table) = psi.length := by
  unfold len
  rw [ofTable_table, List.getLast?_eq_getElem?]
  have hl : table.length - 1 < table.length := by
    have : 0 < table.length := List.length_pos_iff.mpr hne
    omega
  rw [List.getElem?_eq_getElem hl]
  simp only
  have h1 := b.start_eq (table.length - 1) _ (List.getElem?_eq_getElem hl)
  have h2 := pre_succ (table.map (·.tree)) (table.length - 1) (by simpa using hl)
  have h3 := pre_all (table.map (·.tree)) (table.length - 1 + 1) (by simp; omega)
  rw [b.trees_length] at h3
  have h4 : (table.map (·.tree))[table.length - 1]'(by simpa using hl) = table[table.length - 1].tree := by simp
  rw [h4] at h2
  omega

/-- everything about cell `t` of symbol `σ`: its context `c`, its count, the ranks before it, how the
    occurrences of `σ` below a ψ value inside its row are counted -/
theorem Built.col_cell (b : Built syms psi ipsi table) (σ : Nat) (hσ : σ < kOf syms) (t : Nat)
    (ht : t < (rowCellsFrom σ 0 table).length) :
    ∃ c, cellCtx (ofTable (kOf syms) table) (pre (cellsSpec (kOf syms) table) σ + t) = ok c
      ∧ table[(rowCellsFrom σ 0 table)[t].1]? = some c
      ∧ (rowCellsFrom σ 0 table)[t].2 = c.tree.count σ ∧ 0 < c.tree.count σ
      ∧ c.start = pre (table.map (·.tree)) (rowCellsFrom σ 0 table)[t].1
      ∧ sumTake (rowCellsFrom σ 0 table) t = ((bwt syms ipsi).take c.start).count σ
      ∧ (∀ x, x ≤ c.tree.length → ((bwt syms ipsi).take (c.start + x)).count σ
            = ((bwt syms ipsi).take c.start).count σ + (c.tree.take x).count σ) := by
  obtain ⟨c, _, h2, h3, h4⟩ := rowCellsFrom_getElem σ table 0 t ht
  simp only [Nat.sub_zero] at h2 h4
  have hstart := b.start_eq _ c h2
  have hj : (rowCellsFrom σ 0 table)[t].1 < table.length := by
    rcases Nat.lt_or_ge (rowCellsFrom σ 0 table)[t].1 table.length with h | h
    · exact h
    · rw [List.getElem?_eq_none h] at h2; cases h2
  have hcj : table[(rowCellsFrom σ 0 table)[t].1] = c := by
    rw [List.getElem?_eq_getElem hj] at h2; exact Option.some.inj h2
  obtain ⟨_, _, hs3⟩ := cells_of_symbol (kOf syms) table σ hσ t (by omega)
  refine ⟨c, ?_, h2, h3, ?_, hstart, ?_, ?_⟩
  · unfold cellCtx
    rw [ofTable_yvalue, List.getElem?_map, hs3 ht]
    simp only [Option.map_some, Outcome.orPanic, Bind.bind, Outcome.bind, ofTable_table, h2]
  · rw [← h3]; exact rowCellsFrom_pos σ table 0 _ (List.getElem_mem ht)
  · rw [h4, List.map_take, ← take_pre, b.flat, hstart]
  · intro x hx
    have := count_take_pre_add (table.map (·.tree)) σ (rowCellsFrom σ 0 table)[t].1 x (by simpa using hj)
      (by simp only [List.getElem_map]; rw [hcj]; exact hx)
    simp only [List.getElem_map] at this
    rw [hcj, b.flat, ← hstart] at this
    exact this

/-- the rows of a symbol's cells do not overlap and ascend -/
theorem Built.col_cell_lt (b : Built syms psi ipsi table) (σ : Nat) (t t' : Nat) (htt : t < t')
    (ht' : t' < (rowCellsFrom σ 0 table).length) (c c' : Ctx)
    (hc : table[((rowCellsFrom σ 0 table)[t]'(by omega)).1]? = some c)
    (hc' : table[(rowCellsFrom σ 0 table)[t'].1]? = some c') :
    c.start + c.tree.length ≤ c'.start := by
  have hrows := (rowCellsFrom_rows σ table 0).1
  rw [List.pairwise_iff_getElem] at hrows
  have hlt := hrows t t' (by simp; omega) (by simpa using ht') htt
  simp only [List.getElem_map] at hlt
  have hs := b.start_eq _ c hc
  have hs' := b.start_eq _ c' hc'
  have hj : ((rowCellsFrom σ 0 table)[t]'(by omega)).1 < table.length := by
    rcases Nat.lt_or_ge ((rowCellsFrom σ 0 table)[t]'(by omega)).1 table.length with h | h
    · exact h
    · rw [List.getElem?_eq_none h] at hc; cases hc
  have hcj : table[((rowCellsFrom σ 0 table)[t]'(by omega)).1] = c := by
    rw [List.getElem?_eq_getElem hj] at hc; exact Option.some.inj hc
  have h1 := pre_succ (table.map (·.tree)) _ (show ((rowCellsFrom σ 0 table)[t]'(by omega)).1 < (table.map (·.tree)).length by simpa using hj)
  simp only [List.getElem_map] at h1
  rw [hcj] at h1
  have h2 := pre_mono (table.map (·.tree)) (((rowCellsFrom σ 0 table)[t]'(by omega)).1 + 1)
    (rowCellsFrom σ 0 table)[t'].1 (by omega)
  omega

/-- the start of the row of cell `t` of a symbol's cells `F` -/
def cellStart (table : List Ctx) (F : List (Nat × Nat)) (t : Nat) : Nat :=
  ((table[(F[t]?.getD (0, 0)).1]?).getD ⟨0, []⟩).start

theorem cellStart_eq (table : List Ctx) (F : List (Nat × Nat)) (t : Nat) (ht : t < F.length) (c : Ctx)
    (hc : table[F[t].1]? = some c) : cellStart table F t = c.start := by
  unfold cellStart
  rw [List.getElem?_eq_getElem ht, Option.getD_some, hc, Option.getD_some]

/-- what `lower_bound` and `upper_bound` find for a bound `point` on the column of `σ`: a cell of `σ`
    with context `c`, first rank `cs`, such that the occurrences of `σ` among the ψ values below any
    `y ≤ point + 1` are those before the row plus (at most) those in the row -/
theorem Built.boundCell_spec (b : Built syms psi ipsi table) (hne : table ≠ []) {σ r0 r1 : Nat}
    (hc : IsColumn syms σ r0 r1) (h0 : 1 ≤ r0) (point : Nat) :
    ∃ c cs, boundCell syms (ofTable (kOf syms) table) point (r0, r1)
        = ok (.inr (c, cs, cs + c.tree.count σ - 1, σ))
      ∧ 0 < c.tree.count σ
      ∧ cs = r0 + ((bwt syms ipsi).take c.start).count σ
      ∧ (∀ x, x ≤ c.tree.length → ((bwt syms ipsi).take (c.start + x)).count σ
            = ((bwt syms ipsi).take c.start).count σ + (c.tree.take x).count σ)
      ∧ (point < c.start → ((bwt syms ipsi).take c.start).count σ = 0)
      ∧ (∀ y, y ≤ point + 1 → ((bwt syms ipsi).take y).count σ
            ≤ ((bwt syms ipsi).take c.start).count σ + c.tree.count σ) := by
  have hr0 : r0 < syms.length := by have := hc.lt; have := hc.le; omega
  have hσr0 : syms.getD r0 0 = σ := (hc.mem r0 hr0).mp ⟨Nat.le_refl _, hc.le⟩
  have hσ : σ < kOf syms := by rw [← hσr0]; exact getD_lt_kOf syms r0
  have hp := cellsSpec_pos (kOf syms) table
  have hpF := rowCellsFrom_pos σ table 0
  -- the cells of `σ` cover the column
  have htotF : sumTake (rowCellsFrom σ 0 table) (rowCellsFrom σ 0 table).length = r1 + 1 - r0 := by
    rw [sumTake_all _ _ (Nat.le_refl _), rowCellsFrom_sum, b.flat, b.col_total hc]
  have hm : 1 ≤ (rowCellsFrom σ 0 table).length := by
    rcases Nat.eq_zero_or_pos (rowCellsFrom σ 0 table).length with h | h
    · rw [h, sumTake_zero] at htotF; have := hc.le; omega
    · exact h
  have hflat : ∀ t, t ≤ (rowCellsFrom σ 0 table).length →
      sumTake (cellsSpec (kOf syms) table).flatten (pre (cellsSpec (kOf syms) table) σ + t)
        = r0 + sumTake (rowCellsFrom σ 0 table) t := by
    intro t ht
    rw [(cells_of_symbol (kOf syms) table σ hσ t ht).2.1, b.flat, b.col_start hc]
  have hk0 := (cells_of_symbol (kOf syms) table σ hσ 0 (Nat.zero_le _)).1
  -- row starts ascend
  have hS : ∀ t t', t < t' → t' < (rowCellsFrom σ 0 table).length →
      cellStart table (rowCellsFrom σ 0 table) t < cellStart table (rowCellsFrom σ 0 table) t' := by
    intro t t' htt ht'
    obtain ⟨c, _, hc2, _, hc4, _⟩ := b.col_cell σ hσ t (by omega)
    obtain ⟨c', _, hc'2, _⟩ := b.col_cell σ hσ t' ht'
    rw [cellStart_eq table _ t (by omega) c hc2, cellStart_eq table _ t' ht' c' hc'2]
    have := b.col_cell_lt σ t t' htt ht' c c' hc2 hc'2
    have : 0 < c.tree.length := by
      have : c.tree.count σ ≤ c.tree.length := List.count_le_length
      omega
    omega
  obtain ⟨cp, cell, hcp, hcelldef, hcp1, hcp2, hc1, hc2, hc3, hc4⟩ :=
    choose_cell (cellStart table (rowCellsFrom σ 0 table))
      (rowCellsFrom σ 0 table).length (pre (cellsSpec (kOf syms) table) σ) point hm hS
  obtain ⟨t, ht⟩ : ∃ t, cell = pre (cellsSpec (kOf syms) table) σ + t := ⟨cell - pre (cellsSpec (kOf syms) table) σ, by omega⟩
  subst ht
  have htm : t < (rowCellsFrom σ 0 table).length := by omega
  obtain ⟨c, hctx, htab, hcnt, hpos, hstart, hsum, hrow⟩ := b.col_cell σ hσ t htm
  have hsucc := sumTake_succ (rowCellsFrom σ 0 table) t htm
  rw [hcnt] at hsucc
  -- the cell search
  have hsearch : searchCell (ofTable (kOf syms) table) point (pre (cellsSpec (kOf syms) table) σ)
      (pre (cellsSpec (kOf syms) table) σ + ((rowCellsFrom σ 0 table).length - 1))
      = ok (pre (cellsSpec (kOf syms) table) σ + t) := by
    unfold searchCell
    rw [partitionByO_eq _ (fun cell => decide (cellStart table (rowCellsFrom σ 0 table)
        (cell - pre (cellsSpec (kOf syms) table) σ) < point)) _ _ _ (by
      intro i hi1 hi2
      obtain ⟨ci, hci1, hci2, _⟩ := b.col_cell σ hσ (i - pre (cellsSpec (kOf syms) table) σ) (by omega)
      have e : pre (cellsSpec (kOf syms) table) σ + (i - pre (cellsSpec (kOf syms) table) σ) = i := by omega
      rw [e] at hci1
      simp only [hci1, Bind.bind, Outcome.bind]
      rw [cellStart_eq table _ _ (by omega) ci hci2]), hcp]
    simp only [Bind.bind, Outcome.bind]
    by_cases hgt : cp > pre (cellsSpec (kOf syms) table) σ
    · rw [if_pos hgt]
      obtain ⟨cc, hcc1, hcc2, _⟩ := b.col_cell σ hσ (cp - pre (cellsSpec (kOf syms) table) σ) (by omega)
      have e : pre (cellsSpec (kOf syms) table) σ + (cp - pre (cellsSpec (kOf syms) table) σ) = cp := by omega
      rw [e] at hcc1
      rw [hcc1]
      simp only
      rw [hcelldef, if_pos hgt, cellStart_eq table _ _ (by omega) cc hcc2]
    · rw [if_neg hgt, hcelldef, if_neg hgt]
  -- the cells of the two ends of the column
  have hrank0 : rank (ofTable (kOf syms) table).ykey r0 = some (pre (cellsSpec (kOf syms) table) σ) := by
    rw [b.ykey_eq]
    have h00 := hflat 0 (Nat.zero_le _)
    rw [Nat.add_zero, sumTake_zero] at h00
    have h01 := hflat 1 hm
    have h02 := sumTake_succ (rowCellsFrom σ 0 table) 0 (by omega)
    rw [sumTake_zero, Nat.zero_add, Nat.zero_add] at h02
    have h03 := hpF _ (List.getElem_mem (show 0 < (rowCellsFrom σ 0 table).length by omega))
    exact rank_ykey _ hp _ r0 (by omega) (by omega) (by omega)
  have hrank1 : rank (ofTable (kOf syms) table).ykey r1
      = some (pre (cellsSpec (kOf syms) table) σ + ((rowCellsFrom σ 0 table).length - 1)) := by
    rw [b.ykey_eq]
    have h10 := hflat ((rowCellsFrom σ 0 table).length - 1) (by omega)
    have h11 := hflat (rowCellsFrom σ 0 table).length (Nat.le_refl _)
    have h12 := sumTake_succ (rowCellsFrom σ 0 table) ((rowCellsFrom σ 0 table).length - 1) (by omega)
    have e : (rowCellsFrom σ 0 table).length - 1 + 1 = (rowCellsFrom σ 0 table).length := by omega
    rw [e] at h12
    have h13 := hpF _ (List.getElem_mem (show (rowCellsFrom σ 0 table).length - 1 < (rowCellsFrom σ 0 table).length by omega))
    have e2 : pre (cellsSpec (kOf syms) table) σ + ((rowCellsFrom σ 0 table).length - 1) + 1
        = pre (cellsSpec (kOf syms) table) σ + (rowCellsFrom σ 0 table).length := by omega
    have hle := hc.le
    exact rank_ykey _ hp _ r1 (by omega) (by omega) (by rw [e2]; omega)
  -- the chosen cell's ranks
  have hsel0 : select (ofTable (kOf syms) table).ykey (pre (cellsSpec (kOf syms) table) σ + t)
      = some (r0 + ((bwt syms ipsi).take c.start).count σ) := by
    rw [b.ykey_eq, select_ykey _ hp _ (by omega), hflat t (by omega), hsum]
  have hsel1 : select (ofTable (kOf syms) table).ykey (pre (cellsSpec (kOf syms) table) σ + t + 1)
      = some (r0 + ((bwt syms ipsi).take c.start).count σ + c.tree.count σ) := by
    rw [b.ykey_eq, select_ykey _ hp _ (by omega), Nat.add_assoc, hflat (t + 1) (by omega), hsucc, hsum,
      Nat.add_assoc]
  have hmono := sumTake_mono (rowCellsFrom σ 0 table) (t + 1) (rowCellsFrom σ 0 table).length (by omega)
  have hcol : syms[r0 + ((bwt syms ipsi).take c.start).count σ]? = some σ := by
    have hle := hc.le
    have hlt := hc.lt
    have hin : r0 + ((bwt syms ipsi).take c.start).count σ < syms.length := by omega
    have := (hc.mem _ hin).mp ⟨by omega, by omega⟩
    rw [List.getD_eq_getElem?_getD, List.getElem?_eq_getElem hin] at this
    rw [List.getElem?_eq_getElem hin]
    exact congrArg some this
  refine ⟨c, r0 + ((bwt syms ipsi).take c.start).count σ, ?_, hpos, rfl, hrow, ?_, ?_⟩
  · unfold boundCell
    simp only [Bind.bind, Outcome.bind, hrank0, hrank1, Outcome.orErr, hsearch, hsel0, hsel1, hcol, hctx]
    have hle := hc.le
    have hlen := b.len_eq hne
    have hlt := hc.lt
    have hsl := b.good.len
    rw [if_neg (by rw [ofTable_table, List.isEmpty_iff]; exact hne), if_neg (by omega), if_neg (by omega),
      if_neg (by omega), if_neg (by omega), if_neg (by omega)]
  · intro hpt
    rw [← hsum]
    rcases Nat.eq_zero_or_pos t with h | h
    · rw [h, sumTake_zero]
    · exfalso
      have := hc3 (by omega)
      rw [Nat.add_sub_cancel_left, cellStart_eq table _ t htm c htab] at this
      omega
  · intro y hy
    rw [← hsum, ← hsucc]
    by_cases hlast : t + 1 < (rowCellsFrom σ 0 table).length
    · obtain ⟨c', _, hc'2, _, _, _, hc'6, _⟩ := b.col_cell σ hσ (t + 1) hlast
      have := hc4 (by omega)
      have e : pre (cellsSpec (kOf syms) table) σ + t + 1 - pre (cellsSpec (kOf syms) table) σ = t + 1 := by omega
      rw [e, cellStart_eq table _ (t + 1) hlast c' hc'2] at this
      rw [hc'6]
      exact count_take_mono _ σ (by omega)
    · have e : t + 1 = (rowCellsFrom σ 0 table).length := by omega
      rw [e, htotF, ← b.col_total hc]
      exact count_take_le _ σ y

/-- `ReferencePsi`'s binary search lands on the number of occurrences of `σ` among the ψ values
    below the bound -/
theorem Built.ref_count (b : Built syms psi ipsi table) {σ r0 r1 : Nat} (hc : IsColumn syms σ r0 r1)
    (x : Nat) : countLt psi r0 r1 x = ((bwt syms ipsi).take x).count σ := by
  rw [b.count_bwt_take]
  unfold countLt
  rw [← List.countP_eq_length_filter]
  have hlt := hc.lt
  have hle := hc.le
  have hsl := b.good.len
  have h1 := countP_interval (fun i => decide (psi.getD i 0 < x)) r0 (r1 + 1) psi.length
  have e1 : min (r1 + 1) psi.length - min r0 psi.length = r1 + 1 - r0 := by omega
  rw [e1] at h1
  rw [← h1]
  apply List.countP_congr
  intro i hi
  have hin := List.mem_range.mp hi
  have := hc.mem i (by omega)
  simp only [Bool.and_eq_true, decide_eq_true_eq]
  constructor
  · rintro ⟨⟨h2, h3⟩, h4⟩
    exact ⟨this.mp ⟨h2, by omega⟩, h4⟩
  · rintro ⟨h2, h4⟩
    have := this.mpr h2
    exact ⟨⟨this.1, by omega⟩, h4⟩

end

/-! ### the arithmetic in the chosen cell's row -/

/-- `Context::lookup(σ, rank)` finds the `σ` at offset `x` when `rank` is the number of `σ` before it -/
theorem ctxLookup_hit (c : Ctx) (σ x : Nat) (h : c.tree[x]? = some σ) :
    ctxLookup c σ ((c.tree.take x).count σ) = some (c.start + x) := by
  have hx : x < c.tree.length := by
    rcases Nat.lt_or_ge x c.tree.length with h' | h'
    · exact h'
    · rw [List.getElem?_eq_none h'] at h; cases h
  unfold ctxLookup
  rw [if_neg (by
    have : (c.tree.take x).count σ ≤ (c.tree.take x).length := List.count_le_length
    rw [List.length_take] at this
    omega), selectQ_of_pos c.tree σ _ x h rfl]
  rfl

/-- … and otherwise a later one, or nothing -/
theorem ctxLookup_miss (c : Ctx) (σ x v : Nat) (h : c.tree[x]? ≠ some σ)
    (hv : ctxLookup c σ ((c.tree.take x).count σ) = some v) : c.start + x < v := by
  unfold ctxLookup at hv
  by_cases h1 : (c.tree.take x).count σ ≥ c.tree.length
  · rw [if_pos h1] at hv; cases hv
  · rw [if_neg h1] at hv
    cases hs : selectQ c.tree σ ((c.tree.take x).count σ + 1) with
    | none => rw [hs] at hv; cases hv
    | some s =>
      rw [hs] at hv
      obtain ⟨p, hp1, hp2, hp3, hp4⟩ := selectQ_some c.tree σ _ s hs
      have hv' : v = c.start + (s - 1) := (Option.some.inj hv).symm
      have hne : p ≠ x := by
        intro e; rw [e] at hp3; exact h hp3
      have hge : x ≤ p := by
        rcases Nat.lt_or_ge p x with hlt | hge
        · exfalso
          have h5 := count_take_succ_of c.tree σ p hp3
          have h6 := count_take_mono c.tree σ (show p + 1 ≤ x by omega)
          omega
        · exact hge
      omega

section
variable {syms psi ipsi : List Nat} {table : List Ctx}

/-- **C19** `lower_bound(a, column)`: the first rank of the column whose ψ is `≥ a` -/
theorem Built.lowerBound_eq (b : Built syms psi ipsi table) (hne : table ≠ []) {σ r0 r1 : Nat}
    (hc : IsColumn syms σ r0 r1) (h0 : 1 ≤ r0) (a : Nat) :
    lowerBound syms (ofTable (kOf syms) table) a (r0, r1) = ok (r0 + countLt psi r0 r1 a) := by
  obtain ⟨c, cs, hb, hpos, hcs, hrow, hbefore, hafter⟩ := b.boundCell_spec hne hc h0 a
  rw [b.ref_count hc]
  unfold lowerBound
  rw [hb]
  simp only [Bind.bind, Outcome.bind]
  by_cases hge : a ≥ c.start
  · rw [if_pos hge, if_neg (by omega)]
    congr 1
    by_cases hin : a - c.start ≤ c.tree.length
    · rw [rankQ_le _ _ _ hin, Option.getD_some]
      have := hrow (a - c.start) hin
      have e : c.start + (a - c.start) = a := by omega
      rw [e] at this
      omega
    · rw [rankQ_gt _ _ _ (by omega), Option.getD_none]
      have h1 := hrow c.tree.length (Nat.le_refl _)
      rw [List.take_of_length_le (Nat.le_refl _)] at h1
      have h2 := count_take_mono (bwt syms ipsi) σ (show c.start + c.tree.length ≤ a by omega)
      have h3 := hafter a (by omega)
      omega
  · rw [if_neg hge]
    congr 1
    have h1 := hbefore (by omega)
    have h2 := count_take_mono (bwt syms ipsi) σ (show a ≤ c.start by omega)
    omega

/-- **C19** `upper_bound(bb, column)`: the last rank of the column whose ψ is `≤ bb` (one before the
    column's first rank if there is none) -/
theorem Built.upperBound_eq (b : Built syms psi ipsi table) (hne : table ≠ []) {σ r0 r1 : Nat}
    (hc : IsColumn syms σ r0 r1) (h0 : 1 ≤ r0) (bb : Nat) :
    upperBound syms (ofTable (kOf syms) table) bb (r0, r1) = ok (r0 + countLt psi r0 r1 (bb + 1) - 1) := by
  obtain ⟨c, cs, hb, hpos, hcs, hrow, hbefore, hafter⟩ := b.boundCell_spec hne hc h0 bb
  rw [b.ref_count hc]
  unfold upperBound
  rw [hb]
  simp only [Bind.bind, Outcome.bind]
  by_cases hge : bb ≥ c.start
  · rw [if_pos hge]
    by_cases hin : bb - c.start ≤ c.tree.length
    · rw [rankQ_le _ _ _ hin]
      simp only
      have hg := hrow (bb - c.start) hin
      have e : c.start + (bb - c.start) = bb := by omega
      rw [e] at hg
      by_cases hsym : c.tree[bb - c.start]? = some σ
      · -- ψ value `bb` itself belongs to the column
        have hx : bb - c.start < c.tree.length := by
          rcases Nat.lt_or_ge (bb - c.start) c.tree.length with h' | h'
          · exact h'
          · rw [List.getElem?_eq_none h'] at hsym; cases hsym
        rw [ctxLookup_hit c σ _ hsym, Option.getD_some, e, if_neg (by omega)]
        congr 1
        have h1 := hrow (bb - c.start + 1) (by omega)
        have e2 : c.start + (bb - c.start + 1) = bb + 1 := by omega
        rw [e2, count_take_succ_of c.tree σ _ hsym] at h1
        omega
      · have hgt : (ctxLookup c σ ((c.tree.take (bb - c.start)).count σ)).getD (bb + 1) > bb := by
          cases hl : ctxLookup c σ ((c.tree.take (bb - c.start)).count σ) with
          | none => rw [Option.getD_none]; omega
          | some v =>
            rw [Option.getD_some]
            have := ctxLookup_miss c σ _ v hsym hl
            omega
        rw [if_pos hgt, if_neg (by omega)]
        congr 1
        -- no `σ` at ψ value `bb`
        have hsame : ((bwt syms ipsi).take (bb + 1)).count σ = ((bwt syms ipsi).take bb).count σ := by
          by_cases hx : bb - c.start < c.tree.length
          · have h1 := hrow (bb - c.start + 1) (by omega)
            have e2 : c.start + (bb - c.start + 1) = bb + 1 := by omega
            rw [e2, count_take_succ_ne c.tree σ _ hsym] at h1
            omega
          · have h1 := hrow c.tree.length (Nat.le_refl _)
            rw [List.take_of_length_le (Nat.le_refl _)] at h1
            have e3 : bb - c.start = c.tree.length := by omega
            rw [e3, List.take_of_length_le (Nat.le_refl _)] at hg
            have h2 := count_take_mono (bwt syms ipsi) σ (show bb ≤ bb + 1 by omega)
            have h3 := hafter (bb + 1) (Nat.le_refl _)
            omega
        omega
    · rw [rankQ_gt _ _ _ (by omega)]
      simp only
      congr 1
      have h1 := hrow c.tree.length (Nat.le_refl _)
      rw [List.take_of_length_le (Nat.le_refl _)] at h1
      have h2 := count_take_mono (bwt syms ipsi) σ (show c.start + c.tree.length ≤ bb + 1 by omega)
      have h3 := hafter (bb + 1) (Nat.le_refl _)
      omega
  · rw [if_neg hge, if_neg (by omega)]
    congr 1
    have h1 := hbefore (by omega)
    have h2 := count_take_mono (bwt syms ipsi) σ (show bb + 1 ≤ c.start by omega)
    omega

/-- **C19** `constrain(column, into)` is `ReferencePsi::constrain(column, into)` -/
theorem Built.constrain_eq (b : Built syms psi ipsi table) (hne : table ≠ []) {σ r0 r1 : Nat}
    (hc : IsColumn syms σ r0 r1) (h0 : 1 ≤ r0) (a bb : Nat) (hab : a ≤ bb) :
    constrain syms (ofTable (kOf syms) table) (r0, r1) (a, bb) = ok (refConstrain psi (r0, r1) (a, bb)) := by
  unfold constrain
  have hle := hc.le
  simp only
  rw [if_neg (by omega), if_neg (by omega), if_neg (by rw [ofTable_table, List.isEmpty_iff]; exact hne),
    if_neg (by omega), b.lowerBound_eq hne hc h0 a, b.upperBound_eq hne hc h0 bb]
  rfl

end

end Blue.PsiWt
