import Blue.Model.Pruning
import Blue.Proofs.Filtered
namespace Blue.Cursor
open Blue.Cursor.Filtered

variable {E K : Type} [DecidableEq K] (cfg : PruneCfg E K) (xs : List E)

/-- the child list is grouped by key, and inside a key `tsOk` only switches from false to true
    (timestamps descend) -/
structure Grouped : Prop where
  contiguous : ∀ (i j l : Nat) (ei ej el : E), i ≤ j → j ≤ l → xs[i]? = some ei → xs[j]? = some ej → xs[l]? = some el →
      cfg.key ei = cfg.key el → cfg.key ej = cfg.key ei
  mono : ∀ (i j : Nat) (ei ej : E), i ≤ j → xs[i]? = some ei → xs[j]? = some ej → cfg.key ei = cfg.key ej →
      cfg.tsOk ei = true → cfg.tsOk ej = true

/-- first entry of its key that is not newer than the read timestamp (local characterisation) -/
def isCand (i : Nat) : Bool :=
  match xs[i]? with
  | none => false
  | some e =>
    cfg.tsOk e &&
    (if i = 0 then true else
       match xs[i-1]? with
       | none => true
       | some e' => (cfg.key e' != cfg.key e) || !cfg.tsOk e')

theorem isCand_zero {e : E} (he : xs[0]? = some e) : isCand cfg xs 0 = cfg.tsOk e := by
  unfold isCand; rw [he]; simp

theorem isCand_succ {i : Nat} {e e' : E} (he : xs[i+1]? = some e) (he' : xs[i]? = some e') :
    isCand cfg xs (i+1) = (cfg.tsOk e && ((cfg.key e' != cfg.key e) || !cfg.tsOk e')) := by
  unfold isCand; rw [he]; simp [he']

/-- shown by the pruning cursor: a candidate that is not a tombstone -/
def shownP (i : Nat) : Bool :=
  isCand cfg xs i && (match xs[i]? with | some e => !cfg.tomb e | none => false)

/-- key of the last entry before `i` that is not newer than the read timestamp -/
def lastOk : Nat → Option K
  | 0 => none
  | i+1 => match xs[i]? with
    | some e => if cfg.tsOk e then some (cfg.key e) else lastOk i
    | none => lastOk i

theorem lastOk_some {i : Nat} {k : K} (h : lastOk cfg xs i = some k) :
    ∃ (j : Nat) (e : E), j < i ∧ xs[j]? = some e ∧ cfg.tsOk e = true ∧ cfg.key e = k := by
  induction i with
  | zero => simp [lastOk] at h
  | succ i ih =>
    unfold lastOk at h
    split at h
    · rename_i e he
      split at h
      · rename_i hts
        cases h
        exact ⟨i, e, by omega, he, hts, rfl⟩
      · obtain ⟨j, e', hj, h1, h2, h3⟩ := ih h
        exact ⟨j, e', by omega, h1, h2, h3⟩
    · obtain ⟨j, e', hj, h1, h2, h3⟩ := ih h
      exact ⟨j, e', by omega, h1, h2, h3⟩

theorem lastOk_succ_ok {i : Nat} {e : E} (he : xs[i]? = some e) (hts : cfg.tsOk e = true) :
    lastOk cfg xs (i+1) = some (cfg.key e) := by
  show (match xs[i]? with | some e => if cfg.tsOk e then some (cfg.key e) else lastOk cfg xs i | none => lastOk cfg xs i) = _
  rw [he]; simp [hts]

theorem lastOk_succ_not_ok {i : Nat} {e : E} (he : xs[i]? = some e) (hts : cfg.tsOk e = false) :
    lastOk cfg xs (i+1) = lastOk cfg xs i := by
  show (match xs[i]? with | some e => if cfg.tsOk e then some (cfg.key e) else lastOk cfg xs i | none => lastOk cfg xs i) = _
  rw [he]; simp [hts]

/-- the skip key tells the truth about every key still ahead -/
def Agree (i : Nat) (s : Option K) : Prop :=
  ∀ (j : Nat) (e : E), i ≤ j → xs[j]? = some e → (s = some (cfg.key e) ↔ lastOk cfg xs i = some (cfg.key e))

theorem agree_of_eq {i : Nat} {s : Option K} (h : s = lastOk cfg xs i) : Agree cfg xs i s := by
  intro j e _ _; rw [h]

end Blue.Cursor

namespace Blue.Cursor
open Blue.Cursor.Filtered

variable {E K : Type} [DecidableEq K] (cfg : PruneCfg E K) (xs : List E)

theorem ref_kv_at (i : Nat) : (Ref.mk xs (i+1)).kv = xs[i]? := by simp [Ref.kv]

theorem ref_next_at (i : Nat) (hi : i < xs.length) : (Ref.mk xs (i+1)).next = ⟨xs, i+2⟩ := by
  unfold Ref.next; simp; omega

theorem isCand_of_not_last {i : Nat} {e : E} (he : xs[i]? = some e)
    (hts : cfg.tsOk e = true) (hl : lastOk cfg xs i ≠ some (cfg.key e)) : isCand cfg xs i = true := by
  cases i with
  | zero => rw [isCand_zero cfg xs he, hts]
  | succ i' =>
    have hi'len : i' < xs.length := by
      have := (List.getElem?_eq_some_iff.mp he).1; omega
    have he' : xs[i']? = some xs[i'] := by simp [hi'len]
    rw [isCand_succ cfg xs he he', hts]
    by_cases hk : cfg.key xs[i'] = cfg.key e
    · cases hts' : cfg.tsOk xs[i'] with
      | false => simp
      | true =>
        exfalso; apply hl
        rw [lastOk_succ_ok cfg xs he' hts', hk]
    · simp [hk]

theorem not_isCand_of_last (g : Grouped cfg xs) {i : Nat} {e : E} (he : xs[i]? = some e)
    (hl : lastOk cfg xs i = some (cfg.key e)) : isCand cfg xs i = false := by
  obtain ⟨j, ej, hj, hej, htsj, hkj⟩ := lastOk_some cfg xs hl
  cases i with
  | zero => omega
  | succ i' =>
    have hi'len : i' < xs.length := by
      have := (List.getElem?_eq_some_iff.mp he).1; omega
    have he' : xs[i']? = some xs[i'] := by simp [hi'len]
    rw [isCand_succ cfg xs he he']
    -- previous entry has the same key (contiguity) and is not too new (monotonicity)
    have hk' : cfg.key xs[i'] = cfg.key ej :=
      g.contiguous j i' (i'+1) ej xs[i'] e (by omega) (by omega) hej he' he hkj
    have hts' : cfg.tsOk xs[i'] = true := g.mono j i' ej xs[i'] (by omega) hej he' hk'.symm htsj
    simp [hk', hkj, hts']

/-- The forward scan stops on the first shown index at or after where it starts. -/
theorem scanFwd_spec (g : Grouped cfg xs) :
    ∀ (fuel i : Nat) (s : Option K), i ≤ xs.length → xs.length + 1 ≤ i + fuel → Agree cfg xs i s →
      (Pruning.scanFwd cfg fuel ⟨xs, i+1⟩ s).1
        = ⟨xs, match nextShown xs.length (shownP cfg xs) i with | some j => j+1 | none => xs.length+1⟩
      ∧ (∀ j, nextShown xs.length (shownP cfg xs) i = some j →
           ∃ e, xs[j]? = some e ∧ (Pruning.scanFwd cfg fuel ⟨xs, i+1⟩ s).2 = some (cfg.key e)) := by
  intro fuel
  induction fuel with
  | zero => intro i s h1 h2; omega
  | succ f ih =>
    intro i s hi hfuel hag
    unfold Pruning.scanFwd
    rw [ref_kv_at]
    cases he : xs[i]? with
    | none =>
      have hin : xs.length ≤ i := by simpa [List.getElem?_eq_none_iff] using he
      have hn := nextShown_ge_n xs.length (shownP cfg xs) hin
      simp only [hn]
      refine ⟨?_, fun j hj => by cases hj⟩
      have : i = xs.length := by omega
      rw [this]
    | some e =>
      have hilt : i < xs.length := (List.getElem?_eq_some_iff.mp he).1
      simp only
      by_cases h1 : (cfg.tsOk e && cfg.tomb e) = true
      · -- tombstone that decides its key: not shown, skip it
        rw [if_pos h1]
        have hts : cfg.tsOk e = true := by simp at h1; exact h1.1
        have htomb : cfg.tomb e = true := by simp at h1; exact h1.2
        have hns : shownP cfg xs i = false := by
          unfold shownP; rw [he]; simp [htomb]
        rw [nextShown_skip _ _ hns, ref_next_at xs i hilt]
        apply ih (i+1) _ (by omega) (by omega)
        apply agree_of_eq
        rw [lastOk_succ_ok cfg xs he hts]
      · rw [if_neg h1]
        by_cases h2 : (cfg.tsOk e && (s != some (cfg.key e))) = true
        · rw [if_pos h2]
          have hts : cfg.tsOk e = true := by simp at h2; exact h2.1
          have hsne : s ≠ some (cfg.key e) := by simp at h2; exact h2.2
          have htomb : cfg.tomb e = false := by
            cases ht : cfg.tomb e with
            | false => rfl
            | true => simp [hts, ht] at h1
          have hl : lastOk cfg xs i ≠ some (cfg.key e) := by
            intro hl; exact hsne ((hag i e (Nat.le_refl _) he).mpr hl)
          have hc := isCand_of_not_last cfg xs he hts hl
          have hs : shownP cfg xs i = true := by
            unfold shownP; rw [he]; simp [hc, htomb]
          have hn := nextShown_of_shown xs.length (shownP cfg xs) hilt hs
          rw [hn]
          refine ⟨rfl, ?_⟩
          intro j hj; cases hj
          exact ⟨e, he, rfl⟩
        · rw [if_neg h2]
          -- either too new, or an older version of an already decided key
          have hns : shownP cfg xs i = false := by
            cases hts : cfg.tsOk e with
            | false => unfold shownP isCand; rw [he]; simp [hts]
            | true =>
              have hse : s = some (cfg.key e) := by
                simp [hts] at h2; exact h2
              have hl := (hag i e (Nat.le_refl _) he).mp hse
              have := not_isCand_of_last cfg xs g he hl
              unfold shownP; simp [this]
          rw [nextShown_skip _ _ hns, ref_next_at xs i hilt]
          apply ih (i+1) _ (by omega) (by omega)
          cases hts : cfg.tsOk e with
          | false =>
            -- lastOk unchanged
            intro j ej hj hej
            have := hag j ej (by omega) hej
            rw [this, lastOk_succ_not_ok cfg xs he hts]
          | true =>
            have hse : s = some (cfg.key e) := by
              simp [hts] at h2; exact h2
            apply agree_of_eq
            rw [lastOk_succ_ok cfg xs he hts, hse]

end Blue.Cursor
