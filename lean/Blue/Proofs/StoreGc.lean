import Blue.Proofs.StoreCrash
import Blue.Model.StoreFault
/-! A compaction whose outputs are ANY files — in particular a garbage-collecting compaction into
    the last level, whose outputs hold only a part of the inputs' entries — is all-or-nothing at
    every crash point: the reopen sees the file set of the manifest before the transaction or the
    one after it, whole files either way, plus the log.  (Which entries a GC compaction may drop is
    property C05; that the history-level theorem `crash_recover` does not cover GC compactions is
    because its invariant counts batches: the reopened set is "a permutation of `0 … k-1`".) -/
namespace Blue.StoreCrash
open Blue.StoreFault (compactOps)

/-- the block of a well-formed merge compaction is this list -/
theorem block_compact_eq (kv : Kv) (p : Name → Bool) (outs : List Name) (hv : validCompact kv p outs) :
    block kv (.compact p outs) = compactOps (kv.files.filter p) outs :=
  compact_split kv p outs hv

theorem any_compact_block {fs : Fs} {kv : Kv} (h : Inv fs kv) (ins outs : List Name)
    (hins : ∀ x ∈ ins, x ∈ kv.files) (houts : ∀ o ∈ outs, o ∉ kv.files) (hc : kv.content ∉ outs)
    (n : Nat) :
    (recoverB (run fs ((compactOps ins outs).take n)) = some (kv.files.flatten ++ kv.content)
      ∨ recoverB (run fs ((compactOps ins outs).take n))
          = some ((applyTx kv.files ⟨outs, ins⟩).flatten ++ kv.content))
    ∧ (recoverA (run fs ((compactOps ins outs).take n)) = some (kv.files.flatten ++ kv.content)
      ∨ recoverA (run fs ((compactOps ins outs).take n))
          = some ((applyTx kv.files ⟨outs, ins⟩).flatten ++ kv.content)) := by
  let tx : Tx := ⟨outs, ins⟩
  let pre0 := outs.flatMap (fun o => [Op.tmpCreate o o, Op.tmpSync o]) ++ outs.map Op.link
  let pre := pre0 ++ outs.map Op.tmpUnlink
  let post := ins.map Op.sstTrash
  obtain ⟨⟨c1, c2, c3, c4⟩, ctmp⟩ := create_phase outs fs [] (by intro g hg; cases hg)
  obtain ⟨l1, l2, l3, l4, l5⟩ := link_phase outs
    (run fs (outs.flatMap (fun o => [Op.tmpCreate o o, Op.tmpSync o]))) []
    (fun o ho => ctmp o (by simpa using ho)) (by intro g hg; cases hg)
  have hrunpre0 : run fs pre0 = run (run fs (outs.flatMap (fun o => [Op.tmpCreate o o, Op.tmpSync o])))
      (outs.map Op.link) := run_append _ _ _
  obtain ⟨u1, u2, u3, u4⟩ := post_phase [] (outs.map Op.tmpUnlink) (run fs pre0)
    (by intro op hop; simp only [List.mem_map] at hop; obtain ⟨o, _, rfl⟩ := hop; trivial)
  have hrunpre : run fs pre = run (run fs pre0) (outs.map Op.tmpUnlink) := run_append _ _ _
  have hlogs1 : (run fs pre).logs = [(kv.cur, ⟨kv.content, kv.content⟩)] := by
    rw [hrunpre, u1, hrunpre0, l1, c2, h.logs]
  have hwhole : ∀ nm ∈ applyTx kv.files tx, find (run fs pre).sst nm = some ⟨nm, nm⟩ := by
    intro nm hnm
    rw [hrunpre, u4 nm (by simp), hrunpre0]
    simp only [applyTx, List.mem_append, List.mem_filter, tx] at hnm
    rcases hnm with ⟨hf, _⟩ | ho
    · rw [l5 nm (fun ho => houts nm ho hf), c1]; exact h.sst nm hf
    · exact l4 nm (by simpa using ho)
  have hcontent : kv.content = [] ∨ kv.content ∉ applyTx kv.files tx := by
    by_cases hne : kv.content = []
    · exact Or.inl hne
    · refine Or.inr ?_
      intro hin
      simp only [applyTx, List.mem_append, List.mem_filter, tx] at hin
      rcases hin with ⟨hf, _⟩ | ho
      · exact notin_files h.all hne hf
      · exact hc ho
  have key := tx_block h pre post tx ((applyTx kv.files tx).flatten ++ kv.content)
    (by
      intro op hop
      simp only [pre, pre0, List.mem_append, List.mem_flatMap, List.mem_map] at hop
      rcases hop with (⟨o, _, ho⟩ | ⟨o, ho, rfl⟩) | ⟨o, _, rfl⟩
      · simp only [List.mem_cons, List.not_mem_nil, or_false] at ho
        rcases ho with rfl | rfl <;> trivial
      · exact houts o ho
      · trivial)
    hwhole
    (by rw [hlogs1]; intro l hl; simp only [List.mem_singleton] at hl; subst hl; rfl)
    (by rw [hlogs1]; simp only [List.map_cons, List.map_nil]; rw [logPart_single hcontent])
    (by
      intro op hop
      simp only [post, List.mem_map] at hop
      obtain ⟨x, hx, rfl⟩ := hop
      intro hin
      simp only [applyTx, List.mem_append, List.mem_filter, tx] at hin
      rcases hin with ⟨_, hnot⟩ | ho
      · exact of_decide_eq_true hnot hx
      · exact houts x ho (hins x hx))
    n
  exact key

/-- non-vacuity: a file holding the batches 0 and 1 and a file holding batch 2 are compacted into
    ONE output that holds the batches 1 and 2 only (batch 0 is garbage collected); a crash right
    before the manifest transaction is synced reopens to all three, a crash right after it to the
    two that were kept -/
example :
    let pre := opsOf [.put, .put, .flush, .put, .flush] kv0
    let gc := compactOps [[0, 1], [2]] [[1, 2]]
    recoverB (run fs0 (pre ++ gc.take 5)) = some [0, 1, 2]
    ∧ recoverB (run fs0 (pre ++ gc.take 6)) = some [1, 2] := by decide

end Blue.StoreCrash

#print axioms Blue.StoreCrash.any_compact_block
