import Blue.Model.Rrr
/-! `calc_p_r_width`: the only facts the layout needs: it is defined, at least 8, and every number up to
    `bits` fits. -/
namespace Blue.Rrr

theorem npotAux_zero (p n : Nat) : npotAux 0 p n = p := rfl
theorem npotAux_succ (f p n : Nat) : npotAux (f + 1) p n = if n ≤ p then p else npotAux f (2 * p) n := rfl

theorem npotAux_ge : ∀ (f p n : Nat), n ≤ p * 2 ^ f → n ≤ npotAux f p n := by
  intro f
  induction f with
  | zero => intro p n h; rw [npotAux_zero]; simpa using h
  | succ f ih =>
    intro p n h
    rw [npotAux_succ]
    by_cases hp : n ≤ p
    · rw [if_pos hp]; exact hp
    · rw [if_neg hp]
      apply ih
      rw [Nat.pow_succ] at h
      rw [Nat.mul_comm 2 p, Nat.mul_assoc, Nat.mul_comm 2 (2 ^ f)]
      exact h

theorem nextPowerOfTwo_ge (n : Nat) : n ≤ nextPowerOfTwo n := by
  unfold nextPowerOfTwo
  apply npotAux_ge
  rw [Nat.one_mul]
  exact Nat.le_of_lt Nat.lt_two_pow_self

theorem ilog2Aux_zero (n : Nat) : ilog2Aux 0 n = 0 := rfl
theorem ilog2Aux_succ (f n : Nat) : ilog2Aux (f + 1) n = if n < 2 then 0 else ilog2Aux f (n / 2) + 1 := rfl

theorem lt_pow_ilog2Aux : ∀ (f m : Nat), m ≤ f → m < 2 ^ (ilog2Aux f m + 1) := by
  intro f
  induction f with
  | zero => intro m h; rw [ilog2Aux_zero]; omega
  | succ f ih =>
    intro m h
    rw [ilog2Aux_succ]
    by_cases h2 : m < 2
    · rw [if_pos h2]; omega
    · rw [if_neg h2]
      have := ih (m / 2) (by omega)
      rw [Nat.pow_succ]
      generalize 2 ^ (ilog2Aux f (m / 2) + 1) = P at *
      omega

theorem lt_pow_ilog2 (m : Nat) : m < 2 ^ (ilog2 m + 1) := lt_pow_ilog2Aux m m (Nat.le_refl m)

/-- the width `calc_p_r_width` computes -/
def widthOf (bits : Nat) : Nat := max (ilog2 (nextPowerOfTwo (bits + 1)) + 1) 8

theorem calcWidth_eq (bits : Nat) : calcWidth bits = some (widthOf bits) := by
  unfold calcWidth widthOf
  have := nextPowerOfTwo_ge (bits + 1)
  simp only
  rw [if_pos (by omega)]

theorem widthOf_ge (bits : Nat) : 8 ≤ widthOf bits := Nat.le_max_right _ _

theorem lt_pow_widthOf (bits : Nat) : bits < 2 ^ widthOf bits := by
  have h1 := nextPowerOfTwo_ge (bits + 1)
  have h2 := lt_pow_ilog2 (nextPowerOfTwo (bits + 1))
  have h3 : 2 ^ (ilog2 (nextPowerOfTwo (bits + 1)) + 1) ≤ 2 ^ widthOf bits :=
    Nat.pow_le_pow_right (by omega) (Nat.le_max_left _ _)
  omega

end Blue.Rrr
