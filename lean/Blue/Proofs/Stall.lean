import Blue.Model.Stall
namespace Blue.Stall

structure Inv (s : St) : Prop where
  notif : s.ingestNotifies = true
  /-- a failed compaction is released, so no entry of `ongoing` is without a compaction in flight -/
  rel : s.abortReleases = true
  nostale : s.stale = 0
  ne : s.compactors ≠ []
  /-- a sleeping ingester's condition still holds: every change of level 0 by a compaction wakes it -/
  ing : ∀ t ∈ s.ingesters, t = .waiting → stalled s = true
  /-- if every compaction thread sleeps, the selector has said "nothing" on the present tree with
      nothing in flight -/
  cmp : (∀ t ∈ s.compactors, t = .waiting) → s.quiet = true
  /-- … and it says so only when ingest is not stalled (`Sel`) -/
  sel : s.quiet = true → stalled s = false

theorem mem_wakeAll {l : List TState} {t : TState} (h : t ∈ wakeAll l) : t ≠ .waiting := by
  unfold wakeAll at h
  obtain ⟨u, _, rfl⟩ := List.mem_map.mp h
  split <;> simp_all

theorem wakeAll_ne {l : List TState} (h : l ≠ []) : wakeAll l ≠ [] := by
  unfold wakeAll; intro hh; exact h (List.map_eq_nil_iff.mp hh)

theorem setAt_ne {l : List TState} {i : Nat} {x : TState} (h : l ≠ []) : setAt l i x ≠ [] := by
  unfold setAt; intro hh; exact h (by simpa using congrArg List.length hh)

theorem mem_setAt {l : List TState} {i : Nat} {x t : TState} (h : t ∈ setAt l i x) : t = x ∨ t ∈ l := by
  unfold setAt at h
  rcases List.mem_or_eq_of_mem_set h with h | h
  · exact Or.inr h
  · exact Or.inl h

theorem setAt_mem {l : List TState} {i : Nat} {x : TState} (hi : i < l.length) : x ∈ setAt l i x := by
  unfold setAt; exact List.mem_set hi x

theorem setAt_other {l : List TState} {i : Nat} {x t : TState} (ht : t ∈ l) (hne : l[i]? ≠ some t) :
    t ∈ setAt l i x := by
  unfold setAt
  obtain ⟨j, hj, rfl⟩ := List.getElem_of_mem ht
  have hij : i ≠ j := by
    intro h; subst h; apply hne; simp [hj]
  have : (l.set i x)[j]? = some l[j] := by
    rw [List.getElem?_set_ne hij]; simp [hj]
  exact List.mem_of_getElem? this

theorem lt_of_getElem?_some {l : List TState} {i : Nat} {x : TState} (h : l[i]? = some x) : i < l.length := by
  cases hh : l[i]? with
  | none => rw [hh] at h; cases h
  | some _ => exact (List.getElem?_eq_some_iff.mp hh).1

/-- all compaction threads asleep, one of them being the one that just parked, leaves nothing in
    flight -/
theorem idle_of_all_waiting {s : St} {i : Nat} (hst : s.stale = 0) (hrun : s.compactors[i]? = some .running)
    (hall : ∀ t ∈ setAt s.compactors i .waiting, t = .waiting) : idle s = true := by
  unfold idle
  simp only [hst, beq_self_eq_true, Bool.and_true, List.all_eq_true, bne_iff_ne, ne_eq]
  intro t ht hinf
  subst hinf
  have := hall _ (setAt_other (i := i) (x := .waiting) ht (by rw [hrun]; simp))
  cases this

theorem inv_step {s : St} (h : Inv s) (ev : Ev) (hok : selOK s ev = true) : Inv (step s ev) := by
  cases ev with
  | ingest i b =>
    simp only [step]
    split
    · split
      · rename_i hst
        refine ⟨h.notif, h.rel, h.nostale, h.ne, ?_, h.cmp, h.sel⟩
        intro t ht hw
        rcases mem_setAt ht with _ | ht
        · exact hst
        · exact h.ing t ht hw
      · rename_i hst
        refine ⟨h.notif, h.rel, h.nostale, ?_, ?_, ?_, ?_⟩
        · simp only [h.notif, if_true]; exact wakeAll_ne h.ne
        · intro t ht hw
          exact absurd (h.ing t ht hw) hst
        · simp only [h.notif, if_true]
          intro hall
          exfalso
          obtain ⟨t, ht⟩ := List.exists_mem_of_ne_nil _ (wakeAll_ne h.ne)
          exact mem_wakeAll ht (hall t ht)
        · intro hq; cases hq
    · exact h
  | select i a =>
    simp only [step]
    split
    · rename_i hrun
      have hi := lt_of_getElem?_some hrun
      split
      · refine ⟨h.notif, h.rel, h.nostale, setAt_ne h.ne, h.ing, ?_, h.sel⟩
        intro hall
        have := hall _ (setAt_mem (x := .inflight) hi)
        cases this
      · rename_i ha
        have ha' : a = false := by cases a <;> simp_all
        subst ha'
        have hsel : (stalled s && idle s) = false := by
          cases hx : (stalled s && idle s) with
          | false => rfl
          | true => simp [selOK, hx] at hok
        refine ⟨h.notif, h.rel, h.nostale, setAt_ne h.ne, h.ing, ?_, ?_⟩
        · intro hall
          have := idle_of_all_waiting h.nostale hrun hall
          simp [this]
        · intro hq
          have hq' : s.quiet = true ∨ idle s = true := by
            simpa [Bool.or_eq_true] using hq
          show stalled s = false
          rcases hq' with hq' | hq'
          · exact h.sel hq'
          · cases hst : stalled s with
            | false => rfl
            | true => rw [hst, hq'] at hsel; cases hsel
    · exact h
  | finish i c b =>
    simp only [step]
    split
    · rename_i hrun
      have hi := lt_of_getElem?_some hrun
      refine ⟨h.notif, h.rel, h.nostale, setAt_ne h.ne, ?_, ?_, ?_⟩
      · intro t ht hw
        exact absurd hw (mem_wakeAll ht)
      · intro hall
        have := hall _ (setAt_mem (x := .running) hi)
        cases this
      · intro hq; cases hq
    · exact h
  | abort i =>
    simp only [step]
    split
    · rename_i hin
      have hi := lt_of_getElem?_some hin
      refine ⟨h.notif, h.rel, ?_, setAt_ne h.ne, h.ing, ?_, h.sel⟩
      · simp only [h.rel, if_true]; exact h.nostale
      · intro hall
        have := hall _ (setAt_mem (x := .running) hi)
        cases this
    · exact h
  | spurI i =>
    simp only [step]
    split
    · refine ⟨h.notif, h.rel, h.nostale, h.ne, ?_, h.cmp, h.sel⟩
      intro t ht hw
      rcases mem_setAt ht with ht | ht
      · rw [ht] at hw; cases hw
      · exact h.ing t ht hw
    · exact h
  | spurC i =>
    simp only [step]
    split
    · rename_i hw
      have hi := lt_of_getElem?_some hw
      refine ⟨h.notif, h.rel, h.nostale, setAt_ne h.ne, h.ing, ?_, h.sel⟩
      intro hall
      have := hall _ (setAt_mem (x := .running) hi)
      cases this
    · exact h

theorem inv_run {s : St} (h : Inv s) (evs : List Ev) (hok : runSel s evs = true) :
    Inv (evs.foldl step s) := by
  induction evs generalizing s with
  | nil => exact h
  | cons ev t ih =>
    simp only [runSel, Bool.and_eq_true] at hok
    exact ih (inv_step h ev hok.1) hok.2

theorem inv_not_deadlocked {s : St} (h : Inv s) : deadlocked s = false := by
  unfold deadlocked
  cases hd : (s.ingesters.all (· == .waiting) && s.compactors.all (· == .waiting) && !s.ingesters.isEmpty) with
  | false => rfl
  | true =>
    exfalso
    simp only [Bool.and_eq_true, List.all_eq_true, beq_iff_eq, Bool.not_eq_true', List.isEmpty_eq_false_iff] at hd
    obtain ⟨⟨hi, hc⟩, hne⟩ := hd
    obtain ⟨ti, hti⟩ := List.exists_mem_of_ne_nil _ hne
    have h1 := h.ing ti hti (hi ti hti)
    have h2 := h.sel (h.cmp hc)
    rw [h1] at h2; cases h2

/-- **C20** (model level): along every run on which the selector obeys `Sel` — it offers a
    compaction whenever ingest is stalled and nothing is in flight — the store never reaches a
    state in which every ingester and every compaction thread is asleep: for every schedule, every
    number of threads, every size of compaction, every answer of the selector in the states `Sel`
    does not speak about.  Holds although a finishing compaction does not notify `compact`: the
    finisher itself re-selects. -/
theorem no_deadlock (s0 : St) (h0 : Inv s0) (evs : List Ev) (hsel : runSel s0 evs = true) :
    deadlocked (evs.foldl step s0) = false :=
  inv_not_deadlocked (inv_run h0 evs hsel)

/-- enabledness half of "eventually": while some ingester is parked, some compaction thread is
    awake (selecting or in flight) -/
theorem stalled_has_runner {s : St} (h : Inv s) (hst : ∃ t ∈ s.ingesters, t = .waiting) :
    ∃ t ∈ s.compactors, t ≠ .waiting := by
  obtain ⟨t, ht, hw⟩ := hst
  have h1 := h.ing t ht hw
  false_or_by_contra
  rename_i hno
  have hall : ∀ u ∈ s.compactors, u = .waiting := by
    intro u hu
    false_or_by_contra
    rename_i hne
    exact hno ⟨u, hu, hne⟩
  have h2 := h.sel (h.cmp hall)
  rw [h1] at h2; cases h2

/-- … and when it selects with nothing in flight, `Sel` makes it take a compaction: from a state
    with a parked ingester no thread can go to sleep on an idle store -/
theorem stalled_select_takes {s : St} (h : Inv s) (hst : ∃ t ∈ s.ingesters, t = .waiting)
    {i : Nat} {a : Bool} (hidle : idle s = true) (hok : selOK s (.select i a) = true) : a = true := by
  obtain ⟨t, ht, hw⟩ := hst
  have h1 := h.ing t ht hw
  cases a with
  | true => rfl
  | false => simp [selOK, h1, hidle] at hok

/-- measure half: a `finish` that takes files out of a non-empty level 0 strictly shrinks it (and
    wakes every parked ingester: `finish_wakes`) -/
theorem finish_shrinks {s : St} {i c b : Nat} (hin : s.compactors[i]? = some .inflight) (hc : 0 < c)
    (hpos : 0 < s.l0) : (step s (.finish i c b)).l0 < s.l0 := by
  simp only [step, hin]
  omega

theorem finish_wakes {s : St} {i c b : Nat} (hin : s.compactors[i]? = some .inflight) :
    ∀ t ∈ (step s (.finish i c b)).ingesters, t ≠ .waiting := by
  simp only [step, hin]
  intro t ht
  exact mem_wakeAll ht

/-- the event that creates work wakes every sleeping compaction thread -/
theorem ingest_wakes {s : St} {i b : Nat} (hn : s.ingestNotifies = true)
    (hrun : s.ingesters[i]? = some .running) (hst : stalled s = false) :
    ∀ t ∈ (step s (.ingest i b)).compactors, t ≠ .waiting := by
  simp only [step, hrun, hst, hn]
  intro t ht
  exact mem_wakeAll ht

/-- a fresh store satisfies the invariant, whatever the thresholds -/
theorem inv_init (stallAt stallBytes ni nc : Nat) :
    Inv ⟨stallAt, stallBytes, 0, 0, List.replicate ni .running, List.replicate (nc + 1) .running, false, true, 0, true⟩ := by
  refine ⟨rfl, rfl, rfl, by simp [List.replicate_succ], ?_, ?_, ?_⟩
  · intro t ht hw
    rw [List.eq_of_mem_replicate ht] at hw; cases hw
  · intro hall
    have := hall .running (by simp [List.replicate_succ])
    cases this
  · intro hq; cases hq

theorem invB_of_inv {s : St} (h : Inv s) : invB s = true := by
  unfold invB
  have h1 : (!s.compactors.isEmpty) = true := by
    have := h.ne
    cases hc : s.compactors with
    | nil => exact absurd hc this
    | cons _ _ => rfl
  have h2 : (s.ingesters.all (· != .waiting) || stalled s) = true := by
    cases hst : stalled s with
    | true => simp
    | false =>
      simp only [Bool.or_false, List.all_eq_true, bne_iff_ne, ne_eq]
      intro t ht hw
      have := h.ing t ht hw
      rw [hst] at this; cases this
  have h3 : (s.compactors.any (· != .waiting) || s.quiet) = true := by
    cases hq : s.quiet with
    | true => simp
    | false =>
      simp only [Bool.or_false, List.any_eq_true, bne_iff_ne, ne_eq]
      false_or_by_contra
      rename_i hno
      have hall : ∀ u ∈ s.compactors, u = .waiting := by
        intro u hu
        false_or_by_contra
        rename_i hne
        exact hno ⟨u, hu, hne⟩
      have := h.cmp hall
      rw [hq] at this; cases this
  have h4 : (!s.quiet || !stalled s) = true := by
    cases hq : s.quiet with
    | false => rfl
    | true => simp [h.sel hq]
  simp [h.notif, h.rel, h.nostale, h1, h2, h3, h4]

/-- a failed compaction releases its inputs: after `abort` the thread is back at selection, the
    `ongoing` list is shorter by the failed compaction, and if no other compaction is in flight it
    is empty — level 0 and the sleepers are as before -/
theorem abort_releases {s : St} {i : Nat} (h : Inv s) (hin : s.compactors[i]? = some .inflight) :
    (step s (.abort i)).compactors[i]? = some .running
      ∧ ongoing (step s (.abort i)) + 1 = ongoing s
      ∧ ((∀ j, j ≠ i → s.compactors[j]? ≠ some .inflight) → idle (step s (.abort i)) = true)
      ∧ (step s (.abort i)).l0 = s.l0 ∧ (step s (.abort i)).ingesters = s.ingesters := by
  have hi := lt_of_getElem?_some hin
  have hget : s.compactors[i] = .inflight := by
    have := List.getElem?_eq_getElem hi
    rw [this] at hin; exact Option.some.inj hin
  have hstep : step s (.abort i) = { s with compactors := setAt s.compactors i .running, stale := s.stale } := by
    simp only [step, hin, h.rel, if_true]
  rw [hstep]
  refine ⟨?_, ?_, ?_, rfl, rfl⟩
  · unfold setAt; simp [hi]
  · unfold ongoing setAt
    simp only [h.nostale, Nat.add_zero]
    have hcount : ∀ (l : List TState) (k : Nat) (hk : k < l.length), l[k] = .inflight →
        ((l.set k .running).filter (· == .inflight)).length + 1 = (l.filter (· == .inflight)).length := by
      intro l
      induction l with
      | nil => intro k hk; cases hk
      | cons a t ih =>
        intro k hk hget
        cases k with
        | zero =>
          simp only [List.getElem_cons_zero] at hget
          subst hget
          simp [List.filter]
        | succ k =>
          simp only [List.getElem_cons_succ] at hget
          have := ih k (by simpa using hk) hget
          simp only [List.set_cons_succ, List.filter_cons]
          split <;> simp_all <;> omega
    exact hcount s.compactors i hi hget
  · intro hother
    unfold idle
    simp only [h.nostale, beq_self_eq_true, Bool.and_true, List.all_eq_true, bne_iff_ne, ne_eq]
    intro t ht hinf
    subst hinf
    rcases mem_setAt ht with h1 | h1
    · cases h1
    · obtain ⟨j, hj, hjt⟩ := List.getElem_of_mem h1
      by_cases hji : j = i
      · -- the only in-flight entry at `i` was overwritten: `t` comes from the set list
        subst hji
        unfold setAt at ht
        obtain ⟨k, hk, hkt⟩ := List.getElem_of_mem ht
        by_cases hki : k = j
        · subst hki
          simp at hkt
        · have hk' : k < s.compactors.length := by simpa using hk
          rw [List.getElem_set_ne (by omega)] at hkt
          exact hother k hki (by rw [List.getElem?_eq_getElem hk', hkt])
      · exact hother j hji (by rw [List.getElem?_eq_getElem hj, hjt])

/-- mutant: the error path does not release the failed compaction.  Its entry stays on the
    `ongoing` list, so the store is never idle again and `Sel` never obliges the selector; after
    one failed compaction of level 0 the selector answers "nothing" (every candidate conflicts
    with the entry), the ingester and the fresh compaction thread put each other to sleep — and
    the run obeys `Sel` throughout -/
theorem deadlock_when_abort_keeps_entry :
    let s0 : St := ⟨1, 1000, 0, 0, [.running], [.running], false, true, 0, false⟩
    let evs := [Ev.ingest 0 10, .select 0 true, .abort 0, .select 0 false, .ingest 0 10]
    deadlocked (evs.foldl step s0) = true ∧ runSel s0 evs = true ∧ ongoing (evs.foldl step s0) = 1
      ∧ (let s1 : St := ⟨1, 1000, 0, 0, [.running], [.running], false, true, 0, true⟩
         runSel s1 evs = false ∧ ongoing ((evs.take 3).foldl step s1) = 0) := by
  decide

/-- **D-15 at model level**: when the selector answers "nothing" on a stalled tree with nothing in
    flight (`Sel` broken at the second event), one ingester and one compactor put each other to
    sleep -/
theorem deadlock_when_selector_starves :
    let s0 : St := ⟨1, 1000, 0, 0, [.running], [.running], false, true, 0, true⟩
    let evs := [Ev.ingest 0 10, .select 0 false, .ingest 0 10]
    deadlocked (evs.foldl step s0) = true ∧ runSel s0 evs = false
      ∧ runSel s0 (evs.take 1) = true ∧ selOK (evs.take 1 |>.foldl step s0) (.select 0 false) = false := by
  decide

/-- mutant: ingest no longer notifies `compact` → the compactor that went to sleep on an empty
    tree is never woken, although the selector obeys `Sel` throughout -/
theorem deadlock_without_ingest_notify :
    let s0 : St := ⟨1, 1000, 0, 0, [.running], [.running], false, false, 0, true⟩
    let evs := [Ev.select 0 false, .ingest 0 10, .ingest 0 10]
    deadlocked (evs.foldl step s0) = true ∧ runSel s0 evs = true := by
  decide

/-- as-is observation: a compaction thread can sleep although a compaction is selectable (the
    finisher does not notify `compact`): thread 1 found its candidate in conflict with the one in
    flight and parked; thread 0 finishes, selects again and is served, thread 1 sleeps on.
    Parallelism is lost until the next ingest, progress is not. -/
theorem sleeper_with_work :
    let s0 : St := ⟨5, 1000, 0, 0, [.running], [.running, .running], false, true, 0, true⟩
    let evs := [Ev.ingest 0 10, .ingest 0 10, .ingest 0 10, .select 0 true, .select 1 false, .finish 0 1 10]
    let s := evs.foldl step s0
    s.compactors = [.running, .waiting] ∧ s.quiet = false ∧ runSel s0 (evs ++ [.select 0 true]) = true
      ∧ (step s (.select 0 true)).compactors = [.inflight, .waiting] := by
  decide

end Blue.Stall
