import Blue.Model.Stall
namespace Blue.Stall

structure Inv (s : St) : Prop where
  notif : s.ingestNotifies = true
  sel : s.workAt ≤ s.stallAt
  pos : 0 < s.stallAt
  ne : s.compactors ≠ []
  /-- a sleeping ingester's condition still holds: every decrease of level 0 wakes it -/
  ing : ∀ t ∈ s.ingesters, t = .waiting → s.l0 ≥ s.stallAt
  /-- if every compaction thread sleeps there is nothing to select -/
  cmp : (∀ t ∈ s.compactors, t = .waiting) → ¬ (s.l0 ≥ s.workAt ∧ 0 < s.l0)

theorem mem_wakeAll {l : List TState} {t : TState} (h : t ∈ wakeAll l) : t ≠ .waiting := by
  unfold wakeAll at h
  obtain ⟨u, _, rfl⟩ := List.mem_map.mp h
  split <;> simp_all

theorem wakeAll_ne {l : List TState} (h : l ≠ []) : wakeAll l ≠ [] := by
  unfold wakeAll; intro hh; exact h (List.map_eq_nil_iff.mp hh)

theorem setAt_ne {l : List TState} {i : Nat} {x : TState} (h : l ≠ []) : setAt l i x ≠ [] := by
  unfold setAt; intro hh; exact h (by simpa using congrArg List.length hh)

theorem mem_setAt {l : List TState} {i : Nat} {x t : TState} (h : t ∈ setAt l i x) : t = x ∨ t ∈ l := by
  unfold setAt at h
  rcases List.mem_or_eq_of_mem_set h with h | h
  · exact Or.inr h
  · exact Or.inl h

theorem setAt_mem {l : List TState} {i : Nat} {x : TState} (hi : i < l.length) : x ∈ setAt l i x := by
  unfold setAt; exact List.mem_set hi x

theorem setAt_other {l : List TState} {i : Nat} {x t : TState} (ht : t ∈ l) (hne : l[i]? ≠ some t) :
    t ∈ setAt l i x := by
  unfold setAt
  obtain ⟨j, hj, rfl⟩ := List.getElem_of_mem ht
  have hij : i ≠ j := by
    intro h; subst h; apply hne; simp [hj]
  have : (l.set i x)[j]? = some l[j] := by
    rw [List.getElem?_set_ne hij]; simp [hj]
  exact List.mem_of_getElem? this

theorem inv_step {s : St} (h : Inv s) (ev : Ev) : Inv (step s ev) := by
  cases ev with
  | ingest i =>
    simp only [step]
    split
    · split
      · rename_i hst
        refine ⟨h.notif, h.sel, h.pos, h.ne, ?_, h.cmp⟩
        intro t ht hw
        rcases mem_setAt ht with _ | ht
        · exact hst
        · exact h.ing t ht hw
      · refine ⟨h.notif, h.sel, h.pos, ?_, ?_, ?_⟩
        · simp only [h.notif, if_true]; exact wakeAll_ne h.ne
        · intro t ht hw
          have := h.ing t ht hw
          dsimp only; omega
        · simp only [h.notif, if_true]
          intro hall
          exfalso
          obtain ⟨t, ht⟩ := List.exists_mem_of_ne_nil _ (wakeAll_ne h.ne)
          exact mem_wakeAll ht (hall t ht)
    · exact h
  | select i =>
    simp only [step]
    split
    · rename_i hrun
      have hi : i < s.compactors.length := by
        cases hh : s.compactors[i]? with
        | none => rw [hh] at hrun; cases hrun
        | some _ => exact (List.getElem?_eq_some_iff.mp hh).1
      split
      · refine ⟨h.notif, h.sel, h.pos, setAt_ne h.ne, h.ing, ?_⟩
        intro hall
        have := hall _ (setAt_mem (x := .inflight) hi)
        cases this
      · rename_i hnw
        refine ⟨h.notif, h.sel, h.pos, setAt_ne h.ne, h.ing, ?_⟩
        intro hall hw
        apply hnw
        unfold work
        simp only [Bool.and_eq_true, decide_eq_true_eq, List.all_eq_true, bne_iff_ne, ne_eq]
        refine ⟨hw, ?_⟩
        intro t ht hinf
        subst hinf
        have := hall _ (setAt_other (i := i) (x := .waiting) ht (by rw [hrun]; simp))
        cases this
    · exact h
  | finish i c =>
    simp only [step]
    split
    · rename_i hrun
      have hi : i < s.compactors.length := by
        cases hh : s.compactors[i]? with
        | none => rw [hh] at hrun; cases hrun
        | some _ => exact (List.getElem?_eq_some_iff.mp hh).1
      refine ⟨h.notif, h.sel, h.pos, setAt_ne h.ne, ?_, ?_⟩
      · intro t ht hw
        exact absurd hw (mem_wakeAll ht)
      · intro hall
        have := hall _ (setAt_mem (x := .running) hi)
        cases this
    · exact h

theorem inv_run {s : St} (h : Inv s) (evs : List Ev) : Inv (evs.foldl step s) := by
  induction evs generalizing s with
  | nil => exact h
  | cons ev t ih => exact ih (inv_step h ev)

theorem inv_not_deadlocked {s : St} (h : Inv s) : deadlocked s = false := by
  unfold deadlocked
  cases hd : (s.ingesters.all (· == .waiting) && s.compactors.all (· == .waiting) && !s.ingesters.isEmpty) with
  | false => rfl
  | true =>
    exfalso
    simp only [Bool.and_eq_true, List.all_eq_true, beq_iff_eq, Bool.not_eq_true', List.isEmpty_eq_false_iff] at hd
    obtain ⟨⟨hi, hc⟩, hne⟩ := hd
    obtain ⟨ti, hti⟩ := List.exists_mem_of_ne_nil _ hne
    have h1 := h.ing ti hti (hi ti hti)
    have h2 := h.cmp hc
    have := h.sel; have := h.pos
    apply h2; omega

/-- **C20** (model level): if the selector offers a compaction whenever ingest is stalled and
    nothing is in flight (`workAt ≤ stallAt`), the store never reaches a state in which every
    ingester and every compaction thread is asleep — for every schedule, every number of threads
    and every compaction size.  Holds although a finishing compaction does not notify `compact`:
    the finisher itself re-selects. -/
theorem no_deadlock (s0 : St) (h0 : Inv s0) (evs : List Ev) :
    deadlocked (evs.foldl step s0) = false :=
  inv_not_deadlocked (inv_run h0 evs)

/-- enabledness half of "eventually": while some ingester is parked, some compaction thread is
    awake (selecting or in flight), so a step that leads to a `finish` — which strictly shrinks
    level 0 and wakes the ingesters — is always enabled -/
theorem stalled_has_runner {s : St} (h : Inv s) (hst : ∃ t ∈ s.ingesters, t = .waiting) :
    ∃ t ∈ s.compactors, t ≠ .waiting := by
  obtain ⟨t, ht, hw⟩ := hst
  have h1 := h.ing t ht hw
  have := h.sel; have := h.pos
  false_or_by_contra
  rename_i hno
  apply h.cmp
  · intro u hu
    false_or_by_contra
    rename_i hne
    exact hno ⟨u, hu, hne⟩
  · omega

/-- a `finish` strictly shrinks a non-empty level 0 -/
theorem finish_shrinks {s : St} {i c : Nat} (hin : s.compactors[i]? = some .inflight) (hpos : 0 < s.l0) :
    (step s (.finish i c)).l0 < s.l0 := by
  simp only [step, hin]
  omega

/-- a fresh store satisfies the invariant -/
theorem inv_init (stallAt workAt ni nc : Nat) (h : workAt ≤ stallAt) (hp : 0 < stallAt) :
    Inv ⟨stallAt, workAt, 0, List.replicate ni .running, List.replicate (nc + 1) .running, true⟩ := by
  refine ⟨rfl, h, hp, by simp [List.replicate_succ], ?_, ?_⟩
  · intro t ht hw
    rw [List.eq_of_mem_replicate ht] at hw; cases hw
  · intro _ hh; dsimp only at hh; omega

/-- **D-15 at model level**: when the selector only offers a compaction above the stall threshold
    (`workAt > stallAt`), one ingester and one compactor put each other to sleep -/
theorem deadlock_when_selector_starves :
    deadlocked ([Ev.ingest 0, .select 0, .ingest 0].foldl step
      ⟨1, 2, 0, [.running], [.running], true⟩) = true := by
  decide

/-- mutant: ingest no longer notifies `compact` → the compactor that went to sleep on an empty
    tree is never woken -/
theorem deadlock_without_ingest_notify :
    deadlocked ([Ev.select 0, .ingest 0, .ingest 0].foldl step
      ⟨1, 1, 0, [.running], [.running], false⟩) = true := by
  decide

/-- as-is observation: a compaction thread can sleep although a compaction is selectable (the
    finisher does not notify `compact`); parallelism is lost until the next ingest, progress is
    not -/
theorem sleeper_with_work :
    let s := [Ev.ingest 0, .ingest 0, .ingest 0, .select 0, .select 1, .finish 0 1].foldl step
      ⟨5, 1, 0, [.running], [.running, .running], true⟩
    s.compactors = [.running, .waiting] ∧ work s = true := by
  decide

end Blue.Stall

#print axioms Blue.Stall.no_deadlock
#print axioms Blue.Stall.sleeper_with_work
