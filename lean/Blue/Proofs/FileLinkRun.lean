import Blue.Proofs.FileLink
/-! `pinned_output_stays` for ARBITRARY runs: the repaired link (`pin = true`) keeps "every
    referenced file is in `sst/`" through any interleaving of links, references and releases of any
    files (`pinned_run_inv`; a `ref` only of a file that is referenced already, which is how
    `install_version` uses it: its outputs by the link's pin, the files it keeps by the current
    version), and the reference the link took on `x` outlives every run in which `x` is released
    at most as often as it had holders before the link (`pinned_output_stays_any_run`). -/
namespace Blue.FileLink
variable {F : Type} [DecidableEq F]

/-- side condition of a run: a `ref` finds the file referenced already -/
def RefGuard (pin : Bool) : St F → List (Ev F) → Prop
  | _, [] => True
  | s, e :: es => (match e with | .ref y => s.refs y > 0 | _ => True) ∧ RefGuard pin (step pin s e) es

theorem run_cons (pin : Bool) (s : St F) (e : Ev F) (es : List (Ev F)) :
    run pin s (e :: es) = run pin (step pin s e) es := rfl

/-- as repaired, the invariant holds along every guarded run -/
theorem pinned_run_inv : ∀ (evs : List (Ev F)) (s : St F), Inv s → RefGuard true s evs → Inv (run true s evs)
  | [], _, h, _ => h
  | e :: es, s, h, hg => by
    rw [run_cons]
    refine pinned_run_inv es _ ?_ hg.2
    cases e with
    | link x => exact inv_link_pin s x h
    | ref x => exact inv_ref true s x h hg.1
    | unref x => exact inv_unref true s x h

/-- number of releases of `x` in a run -/
def unrefs (x : F) (evs : List (Ev F)) : Nat :=
  (evs.filter (fun e => match e with | .unref y => decide (y = x) | _ => false)).length

theorem step_refs_ge (pin : Bool) (s : St F) (x : F) (e : Ev F) :
    s.refs x ≤ (step pin s e).refs x + unrefs x [e] := by
  cases e with
  | link y =>
    show s.refs x ≤ (if pin then bump s.refs y else s.refs) x + _
    cases pin
    · simp
    · simp only [if_true, bump]; split <;> omega
  | ref y =>
    show s.refs x ≤ bump s.refs y x + _
    unfold bump; split <;> omega
  | unref y =>
    by_cases hyx : y = x
    · subst hyx
      have hu : unrefs y [Ev.unref y] = 1 := by simp [unrefs]
      rw [hu]
      by_cases h0 : s.refs y = 0
      · rw [step_unref_zero pin s y h0]; omega
      · by_cases h1 : s.refs y = 1
        · rw [step_unref_one pin s y h1]; show s.refs y ≤ drop1 s.refs y y + 1; unfold drop1; rw [if_pos rfl]; omega
        · rw [step_unref_many pin s y h0 h1]; show s.refs y ≤ drop1 s.refs y y + 1; unfold drop1; rw [if_pos rfl]; omega
    · have hu : unrefs x [Ev.unref y] = 0 := by simp [unrefs, hyx]
      rw [hu]
      have hxy : ¬ x = y := fun h => hyx h.symm
      by_cases h0 : s.refs y = 0
      · rw [step_unref_zero pin s y h0]; omega
      · by_cases h1 : s.refs y = 1
        · rw [step_unref_one pin s y h1]; show s.refs x ≤ drop1 s.refs y x + 0; unfold drop1; rw [if_neg hxy]; omega
        · rw [step_unref_many pin s y h0 h1]; show s.refs x ≤ drop1 s.refs y x + 0; unfold drop1; rw [if_neg hxy]; omega

theorem unrefs_cons (x : F) (e : Ev F) (es : List (Ev F)) : unrefs x (e :: es) = unrefs x [e] + unrefs x es := by
  unfold unrefs
  rw [show e :: es = [e] ++ es from rfl, List.filter_append, List.length_append]

/-- only a release of `x` lowers the count of `x`, by one -/
theorem run_refs_ge (pin : Bool) (x : F) : ∀ (evs : List (Ev F)) (s : St F),
    s.refs x ≤ (run pin s evs).refs x + unrefs x evs
  | [], _ => by simp [run, unrefs]
  | e :: es, s => by
    rw [run_cons, unrefs_cons]
    have h1 := step_refs_ge pin s x e
    have h2 := run_refs_ge pin x es (step pin s e)
    omega

/-- **as repaired, any run**: a compaction links an output named `x` (taking a reference), then
    ANYTHING happens — other compactions link their outputs, versions take references to referenced
    files, holders of any files let go — with `x` released at most as often as it had holders
    before the link: every referenced file is in `sst/`, and `x` is still referenced and in `sst/` -/
theorem pinned_output_stays_any_run (s : St F) (x : F) (h : Inv s) (evs : List (Ev F))
    (hg : RefGuard true (step true s (.link x)) evs) (hk : unrefs x evs ≤ s.refs x) :
    let s' := run true (step true s (.link x)) evs
    Inv s' ∧ s'.refs x ≥ 1 ∧ x ∈ s'.sst := by
  intro s'
  have hi : Inv s' := pinned_run_inv evs _ (inv_link_pin s x h) hg
  have hr : (step true s (.link x)).refs x = s.refs x + 1 := by
    show bump s.refs x x = _; unfold bump; rw [if_pos rfl]
  have hge := run_refs_ge true x evs (step true s (.link x))
  have h1 : s'.refs x ≥ 1 := by
    show (run true (step true s (.link x)) evs).refs x ≥ 1
    omega
  exact ⟨hi, h1, hi x h1⟩

end Blue.FileLink

#print axioms Blue.FileLink.pinned_run_inv
#print axioms Blue.FileLink.pinned_output_stays_any_run
