import Blue.Model.ManiDir
import Blue.Proofs.ManiReopen
import Blue.Proofs.ManiChain
import Blue.Proofs.ManiTorn
import Blue.Proofs.ManiApi
/-! The manifest theorems taken through BYTES and closed under incarnations.

* `readEdits_fuel`: the reader's fuel does not matter once it exceeds the number of bytes — so
  `openBytes` (fuel `|bytes| + 2`), `replay_roundtrip` (fuel from the line count) and
  `torn_manifest` (fuel from the line count of the UNCUT file) speak about the same function;
* `openBytes_fileBytes`, `open_torn`: `Manifest::open` on the bytes of a file holding `es`, whole
  or cut at any byte;
* `open_after_history`: the crashed directory of any history, read from its bytes;
* `Cls` and `chain_incarnations`: the fragment chain across any number of incarnations. -/
set_option linter.unusedSimpArgs false
set_option linter.unusedVariables false
namespace Blue.Mani
open Blue.ManiCrash
variable (crc : List Nat → Nat)

/-! ### fuel -/

theorem splitLine_rest_le : ∀ (bs : List Nat), ((splitLine bs).2.getD []).length ≤ bs.length - 1
  | [] => by simp [splitLine]
  | b :: t => by
    by_cases hb : b = 10
    · subst hb; simp [splitLine]
    · have ih := splitLine_rest_le t
      have : ∀ r, splitLine t = r → splitLine (b :: t) = (b :: r.1, r.2) := by
        intro r hr
        unfold splitLine
        split
        · rename_i h; cases h
        · rename_i h; injection h with h1 h2; exact absurd h1 hb
        · rename_i h1 h2 h; injection h with h3 h4; subst h3 h4; simp only [hr]
      have := this _ rfl
      rw [this]
      simp only [List.length_cons, Nat.add_sub_cancel]
      omega

/-- **fuel independence**: with more fuel than bytes the reader's answer does not depend on the fuel -/
theorem readEdits_fuel : ∀ (f f' : Nat) (bs : List Nat) (cur : Edit), bs.length < f → bs.length < f' →
    readEdits crc f bs cur = readEdits crc f' bs cur
  | 0, _, _, _, h, _ => absurd h (Nat.not_lt_zero _)
  | _ + 1, 0, _, _, _, h => absurd h (Nat.not_lt_zero _)
  | f + 1, f' + 1, bs, cur, h, h' => by
    by_cases hne : bs = []
    · subst hne; rfl
    · rw [readEdits_unfold crc f bs cur hne, readEdits_unfold crc f' bs cur hne]
      have hr := splitLine_rest_le bs
      have hpos : 0 < bs.length := List.length_pos_iff.mpr hne
      have h1 : ((splitLine bs).2.getD []).length < f := by omega
      have h2 : ((splitLine bs).2.getD []).length < f' := by omega
      cases parseLine crc (stripCr (splitLine bs).1) with
      | corrupt => rfl
      | sep => simp only; rw [readEdits_fuel f f' _ _ h1 h2]
      | rm s => exact readEdits_fuel f f' _ _ h1 h2
      | add s => exact readEdits_fuel f f' _ _ h1 h2
      | info k s => exact readEdits_fuel f f' _ _ h1 h2

theorem lineCount_le_bytes (e : Edit) : lineCount e ≤ (encodeEdit crc e).length := by
  rw [encodeEdit_items]
  unfold lineCount
  simp only [List.length_append, SEP, List.length_cons, List.length_nil]
  have : ∀ (its : List Item), its.length ≤ (its.flatMap (Item.line crc)).length := by
    intro its
    induction its with
    | nil => simp
    | cons i t ih =>
      simp only [List.flatMap_cons, List.length_append, List.length_cons]
      have : 1 ≤ (i.line crc).length := by
        cases i <;> simp [Item.line, crcLine] <;> omega
      omega
  have := this (items e)
  omega

theorem sum_lineCount_le (es : List Edit) : (es.map lineCount).sum ≤ (es.flatMap (encodeEdit crc)).length := by
  induction es with
  | nil => simp
  | cons e t ih =>
    simp only [List.map_cons, List.sum_cons, List.flatMap_cons, List.length_append]
    have := lineCount_le_bytes crc e
    omega

/-! ### `Manifest::open` on bytes -/

/-- **open ∘ write = replay**: `Manifest::open`'s read of the bytes of a file that holds the edits
    `es` (what `_apply` / `rollover` wrote for them) succeeds with the state `es` replays to -/
theorem openBytes_fileBytes (hcrc : CrcOk crc) (es : List Edit) (hok : ∀ e ∈ es, e.Ok) :
    openBytes crc (fileBytes crc es) = some (replay maniAlgebra es) := by
  unfold openBytes fileBytes
  have h := replay_roundtrip crc hcrc es (es.flatMap (encodeEdit crc)).length hok
  have hs := sum_lineCount_le crc es
  rw [readEdits_fuel crc ((es.flatMap (encodeEdit crc)).length + 2)
    ((es.flatMap (encodeEdit crc)).length + 1 + (es.map lineCount).sum) _ _ (by omega) (by omega), h]
  rfl

/-- **open on a torn file**: `Manifest::open` on the first `m` bytes of a file that holds `es` fails
    with a corruption error or yields the state after `es.take c` — whole edits only -/
theorem open_torn (hcrc : CrcOk crc) (es : List Edit) (hok : ∀ e ∈ es, e.Ok)
    (hnc : ∀ l ∈ linesOf es, l.NoCollision crc) (m : Nat) :
    openBytes crc ((fileBytes crc es).take m) = none
    ∨ ∃ c, openBytes crc ((fileBytes crc es).take m) = some (replay maniAlgebra (es.take c)) := by
  unfold openBytes fileBytes
  have h := torn_manifest crc hcrc es hok hnc m ((es.flatMap (encodeEdit crc)).take m).length
  rw [readEdits_fuel crc (((es.flatMap (encodeEdit crc)).take m).length + 2)
    (((es.flatMap (encodeEdit crc)).take m).length + 2 + (linesOf es).length) _ _ (by omega) (by omega)]
  rcases h with h | ⟨c, h⟩
  · left; simp only [h, if_true]
  · right; exact ⟨c, by rw [h]; rfl⟩

/-! ### every edit a history puts into the directory is readable -/

def FileOk (f : FileSt Edit) : Prop := ∀ e ∈ f.durable ++ f.pending, e.Ok

structure DirOk (fs : Fs Edit) : Prop where
  mani : FileOk fs.mani
  tmp : ∀ f, fs.tmp = some f → FileOk f

def OpOk : Op Edit → Prop
  | .append e => e.Ok
  | .tmpWrite e => e.Ok
  | _ => True

theorem dirOk_step {fs : Fs Edit} {op : Op Edit} (h : DirOk fs) (ho : OpOk op) : DirOk (step fs op) := by
  obtain ⟨hm, ht⟩ := h
  cases op with
  | append e =>
    refine ⟨?_, ht⟩
    intro x hx
    simp only [step, List.mem_append, List.mem_singleton] at hx
    rcases hx with hx | hx | hx
    · exact hm x (List.mem_append_left _ hx)
    · exact hm x (List.mem_append_right _ hx)
    · subst hx; exact ho
  | sync =>
    refine ⟨?_, ht⟩
    intro x hx
    simp only [step, List.append_nil] at hx
    exact hm x hx
  | ack => exact ⟨hm, ht⟩
  | linkBackup => exact ⟨hm, ht⟩
  | tmpClear => exact ⟨hm, fun f hf => by simp [step] at hf⟩
  | tmpWrite e =>
    refine ⟨?_, ?_⟩
    · simp only [step]; split <;> exact hm
    · intro f hf
      simp only [step] at hf
      split at hf
      · simp only [Option.some.injEq] at hf; subst hf
        intro x hx
        simp only [List.nil_append, List.mem_singleton] at hx
        subst hx; exact ho
      · rename_i g hg
        simp only [Option.some.injEq] at hf; subst hf
        intro x hx
        simp only [List.mem_append, List.mem_singleton] at hx
        rcases hx with hx | hx | hx
        · exact ht g hg x (List.mem_append_left _ hx)
        · exact ht g hg x (List.mem_append_right _ hx)
        · subst hx; exact ho
  | tmpSync =>
    refine ⟨hm, ?_⟩
    intro f hf
    simp only [step] at hf
    cases hg : fs.tmp with
    | none => rw [hg] at hf; cases hf
    | some g =>
      rw [hg] at hf
      simp only [Option.map_some, Option.some.injEq] at hf; subst hf
      intro x hx
      simp only [List.append_nil] at hx
      exact ht g hg x hx
  | rename =>
    cases hg : fs.tmp with
    | none => simp only [step, hg]; exact ⟨hm, fun f hf => ht f hf⟩
    | some g =>
      simp only [step, hg]
      exact ⟨ht g hg, fun f hf => by cases hf⟩

theorem dirOk_run : ∀ (ops : List (Op Edit)) (fs : Fs Edit), DirOk fs → (∀ op ∈ ops, OpOk op) → DirOk (run fs ops)
  | [], _, h, _ => h
  | op :: ops, fs, h, ho => by
    show DirOk (run (step fs op) ops)
    exact dirOk_run ops _ (dirOk_step h (ho op List.mem_cons_self)) (fun o hoo => ho o (List.mem_cons_of_mem _ hoo))

theorem block_ok (sofar : List Edit) (hs : ∀ e ∈ sofar, e.Ok) (c : Client Edit)
    (hc : ∀ e ∈ editsOf [c], e.Ok) : ∀ op ∈ block maniAlgebra sofar c, OpOk op := by
  intro op hop
  cases c with
  | edit e =>
    simp only [block, List.mem_cons, List.not_mem_nil, or_false] at hop
    rcases hop with rfl | rfl | rfl
    · exact hc e (by simp [editsOf])
    · trivial
    · trivial
  | rollover =>
    simp only [block, List.mem_cons, List.not_mem_nil, or_false] at hop
    rcases hop with rfl | rfl | rfl | rfl | rfl
    · trivial
    · trivial
    · exact rollup_ok sofar hs
    · trivial
    · trivial
  | editRoll e =>
    have he : e.Ok := hc e (by simp [editsOf])
    simp only [block, List.mem_cons, List.not_mem_nil, or_false] at hop
    rcases hop with rfl | rfl | rfl | rfl | rfl | rfl | rfl | rfl
    · exact he
    · trivial
    · trivial
    · trivial
    · refine rollup_ok (sofar ++ [e]) ?_
      intro x hx
      simp only [List.mem_append, List.mem_singleton] at hx
      rcases hx with hx | hx
      · exact hs x hx
      · subst hx; exact he
    · trivial
    · trivial
    · trivial

theorem editsOf_cons (c : Client Edit) (cs : List (Client Edit)) : editsOf (c :: cs) = editsOf [c] ++ editsOf cs := by
  cases c <;> simp [editsOf]

theorem opsOf_ok : ∀ (h : List (Client Edit)) (sofar : List Edit), (∀ e ∈ sofar, e.Ok) → (∀ e ∈ editsOf h, e.Ok) →
    ∀ op ∈ opsOf maniAlgebra h sofar, OpOk op
  | [], _, _, _ => by intro op hop; simp [opsOf] at hop
  | c :: cs, sofar, hs, hh => by
    intro op hop
    rw [editsOf_cons] at hh
    simp only [opsOf, List.mem_append] at hop
    rcases hop with hop | hop
    · exact block_ok sofar hs c (fun e he => hh e (List.mem_append_left _ he)) op hop
    · refine opsOf_ok cs (sofarAfter sofar c) ?_ (fun e he => hh e (List.mem_append_right _ he)) op hop
      intro e he
      cases c with
      | edit x =>
        simp only [sofarAfter, List.mem_append, List.mem_singleton] at he
        rcases he with he | he
        · exact hs e he
        · subst he; exact hh e (by simp [editsOf])
      | rollover => exact hs e he
      | editRoll x =>
        simp only [sofarAfter, List.mem_append, List.mem_singleton] at he
        rcases he with he | he
        · exact hs e he
        · subst he; exact hh e (by simp [editsOf])

theorem dirOk_empty : DirOk emptyFs :=
  ⟨fun _ h => by simp [emptyFs] at h, fun _ h => by simp [emptyFs] at h⟩

/-- **through the bytes**: for every history of edits the API can build (any rollovers), cut at any
    system call: `Manifest::open` READING THE BYTES of the MANIFEST the crash leaves — under either
    persistence model — succeeds and yields the state the edit-list theorem `mani_crash_recover`
    speaks about (`recoverB` / `recoverA`), hence the replay of a prefix of the edits that contains
    every acknowledged one -/
theorem open_after_history (hcrc : CrcOk crc) (h : List (Client Edit)) (hok : ∀ e ∈ editsOf h, e.Ok) (n : Nat) :
    let fs := run emptyFs ((opsOf maniAlgebra h []).take n)
    openBytes crc (fileBytes crc (crashB fs).mani.durable) = some (recoverB maniAlgebra fs)
    ∧ openBytes crc (fileBytes crc (crashA fs).mani.durable) = some (recoverA maniAlgebra fs)
    ∧ (∃ k, acked ((opsOf maniAlgebra h []).take n) ≤ k ∧ k ≤ appended ((opsOf maniAlgebra h []).take n)
        ∧ openBytes crc (fileBytes crc (crashB fs).mani.durable) = some (replay maniAlgebra ((editsOf h).take k)))
    ∧ (∃ k, acked ((opsOf maniAlgebra h []).take n) ≤ k ∧ k ≤ appended ((opsOf maniAlgebra h []).take n)
        ∧ openBytes crc (fileBytes crc (crashA fs).mani.durable) = some (replay maniAlgebra ((editsOf h).take k))) := by
  intro fs
  have hd : DirOk fs := dirOk_run _ _ dirOk_empty (fun op hop =>
    opsOf_ok h [] (fun _ he => nomatch he) hok op (List.mem_of_mem_take hop))
  have hB : openBytes crc (fileBytes crc (crashB fs).mani.durable) = some (recoverB maniAlgebra fs) :=
    openBytes_fileBytes crc hcrc _ (fun e he => hd.mani e (List.mem_append_left _ he))
  have hA : openBytes crc (fileBytes crc (crashA fs).mani.durable) = some (recoverA maniAlgebra fs) :=
    openBytes_fileBytes crc hcrc _ (fun e he => hd.mani e he)
  obtain ⟨⟨kB, b1, b2, b3⟩, ⟨kA, a1, a2, a3⟩⟩ := mani_crash_recover h emptyFs [] ⟨rfl, rfl⟩ n
  simp only [List.nil_append, List.length_nil, Nat.zero_add] at b1 b2 b3 a1 a2 a3
  exact ⟨hB, hA, ⟨kB, b1, b2, by rw [hB]; exact congrArg some b3⟩, ⟨kA, a1, a2, by rw [hA]; exact congrArg some a3⟩⟩

/-! ### … and after any number of incarnations -/

theorem dirOk_crash (b : Bool) {fs : Fs Edit} (h : DirOk fs) : DirOk (crash b fs) := by
  obtain ⟨hm, ht⟩ := h
  cases b
  · refine ⟨fun e he => hm e (by simpa [crash, crashA] using he), ?_⟩
    intro f hf
    simp only [crash, crashA, Bool.false_eq_true, if_false] at hf
    cases hg : fs.tmp with
    | none => rw [hg] at hf; cases hf
    | some g =>
      rw [hg] at hf
      simp only [Option.map_some, Option.some.injEq] at hf; subst hf
      intro x hx
      simp only [List.append_nil] at hx
      exact ht g hg x hx
  · refine ⟨fun e he => hm e (by
      simp only [crash, crashB, if_true, List.append_nil] at he
      exact List.mem_append_left _ he), ?_⟩
    intro f hf
    simp only [crash, crashB, if_true] at hf
    cases hg : fs.tmp with
    | none => rw [hg] at hf; cases hf
    | some g =>
      rw [hg] at hf
      simp only [Option.map_some, Option.some.injEq] at hf; subst hf
      intro x hx
      simp only [List.append_nil] at hx
      exact ht g hg x (List.mem_append_left _ hx)

theorem reopenOps_ok {g : Fs Edit} (h : DirOk g) : ∀ op ∈ reopenOps maniAlgebra g, OpOk op := by
  intro op hop
  unfold reopenOps at hop
  simp only [List.mem_append, List.mem_cons, List.not_mem_nil, or_false] at hop
  rcases hop with hop | rfl | rfl | rfl | rfl
  · split at hop
    · cases hop
    · simp only [List.mem_singleton] at hop; subst hop; trivial
  · trivial
  · exact rollup_ok _ h.mani
  · trivial
  · trivial

theorem dirOk_next {g : Fs Edit} (h : DirOk g) (i : Inc Edit) (hi : ∀ e ∈ editsOf i.h, e.Ok) :
    DirOk (nextFs maniAlgebra g i) := by
  unfold nextFs incOps
  apply dirOk_crash
  apply dirOk_run _ _ h
  intro op hop
  have hop := List.mem_of_mem_take hop
  rw [List.mem_append] at hop
  rcases hop with hop | hop
  · exact reopenOps_ok h op hop
  · exact opsOf_ok i.h _ (fun e he => h.mani e (List.mem_append_left _ he)) hi op hop

theorem dirOk_incs : ∀ (is : List (Inc Edit)) (g : Fs Edit), DirOk g → (∀ i ∈ is, ∀ e ∈ editsOf i.h, e.Ok) →
    DirOk (runIncs maniAlgebra g is)
  | [], _, h, _ => h
  | i :: is, g, h, hi =>
    dirOk_incs is _ (dirOk_next h i (hi i List.mem_cons_self)) (fun j hj => hi j (List.mem_cons_of_mem _ hj))

/-- the crash image of a first incarnation (no MANIFEST yet: `Manifest::open` does not roll over;
    a history from the empty directory, cut anywhere) holds readable edits only -/
theorem dirOk_first (h : List (Client Edit)) (hok : ∀ e ∈ editsOf h, e.Ok) (n : Nat) (b : Bool) :
    DirOk (crash b (run emptyFs ((opsOf maniAlgebra h []).take n))) :=
  dirOk_crash b (dirOk_run _ _ dirOk_empty (fun op hop =>
    opsOf_ok h [] (fun _ he => nomatch he) hok op (List.mem_of_mem_take hop)))

/-- **through the bytes, any number of incarnations**: start from any directory `g0` a crash left
    (nothing pending, readable edits — e.g. `dirOk_first`); the MANIFEST left by any sequence of
    further incarnations (each: open with its rollover, a history of API-built edits, a crash at
    any system call under either model), read from its BYTES, opens without error to the replay of
    the edits it holds — the state `incarnations_ok` characterises incarnation by incarnation -/
theorem open_after_incarnations (hcrc : CrcOk crc) (g0 : Fs Edit) (hp : g0.mani.pending = []) (hd0 : DirOk g0)
    (is : List (Inc Edit)) (hok : ∀ i ∈ is, ∀ e ∈ editsOf i.h, e.Ok) :
    let g := runIncs maniAlgebra g0 is
    g.mani.pending = []
    ∧ openBytes crc (fileBytes crc g.mani.durable) = some (replay maniAlgebra g.mani.durable)
    ∧ IncsOk maniAlgebra g0 is := by
  intro g
  have hd : DirOk g := dirOk_incs is g0 hd0 hok
  obtain ⟨h1, h2⟩ := incarnations_ok maniAlgebra maniAlgebra_lawful is g0 hp
  exact ⟨h2, openBytes_fileBytes crc hcrc _ (fun e he => hd.mani e (List.mem_append_left _ he)), h1⟩

/-! ### the fragment chain across incarnations -/

/-- the directories a crash can leave: MANIFEST fully on disk and either its own file with the
    fragments chained (`U`), or still the same file as the newest backup — the crash fell between
    the `link` and the `rename` of a rollover — with the fragments chained up to it (`L`) -/
inductive Cls : Fs Edit → Prop
  | U (m : List Edit) (tmp : Option (FileSt Edit)) (bs : List (List Edit))
      (hc : chainOk (bs ++ [m]) = true) : Cls ⟨⟨m, []⟩, tmp, bs, false⟩
  | L (m : List Edit) (tmp : Option (FileSt Edit)) (bs : List (List Edit))
      (hc : chainOk (bs ++ [m]) = true) : Cls ⟨⟨m, []⟩, tmp, bs ++ [m], true⟩

theorem Cls.pending {g : Fs Edit} (h : Cls g) : g.mani.pending = [] := by cases h <;> rfl

theorem Cls.good {g : Fs Edit} (h : Cls g) : Good g := by
  cases h with
  | U m tmp bs hc => exact good_U m tmp bs hc
  | L m tmp bs hc => exact good_L m tmp bs hc

theorem cls_empty : Cls emptyFs := Cls.U [] none [] rfl

/-- a completed reopen of a directory of the class re-establishes the chain invariant -/
theorem Cls.reopen_cinv {g : Fs Edit} (h : Cls g) : CInv (run g (reopenOps maniAlgebra g)) g.mani.durable := by
  cases h with
  | U m tmp bs hc =>
    have hr : run (⟨⟨m, []⟩, tmp, bs, false⟩ : Fs Edit) (reopenOps maniAlgebra ⟨⟨m, []⟩, tmp, bs, false⟩)
        = ⟨⟨[rollupOf m], []⟩, none, bs ++ [m], false⟩ := by
      simp [reopenOps, run, step, rollupOf]
    rw [hr]
    refine ⟨rfl, replay_rollup m, ?_, Or.inr (by simp), rfl⟩
    simp only [List.append_assoc, List.cons_append, List.nil_append]
    exact chainOk_snoc_link bs m [rollupOf m] hc rfl
  | L m tmp bs hc =>
    have hr : run (⟨⟨m, []⟩, tmp, bs ++ [m], true⟩ : Fs Edit) (reopenOps maniAlgebra ⟨⟨m, []⟩, tmp, bs ++ [m], true⟩)
        = ⟨⟨[rollupOf m], []⟩, none, bs ++ [m], false⟩ := by
      simp [reopenOps, run, step, rollupOf]
    rw [hr]
    refine ⟨rfl, replay_rollup m, ?_, Or.inr (by simp), rfl⟩
    simp only [List.append_assoc, List.cons_append, List.nil_append]
    exact chainOk_snoc_link bs m [rollupOf m] hc rfl

/-- a crash during the reopen of a directory of the class leaves a directory of the class -/
theorem Cls.reopen_prefix {g : Fs Edit} (h : Cls g) (k : Nat) :
    Cls (crashA (run g ((reopenOps maniAlgebra g).take k))) ∧ Cls (crashB (run g ((reopenOps maniAlgebra g).take k))) := by
  cases h with
  | U m tmp bs hc =>
    have hcr : chainOk ((bs ++ [m]) ++ [[rollupOf m]]) = true := by
      simp only [List.append_assoc, List.cons_append, List.nil_append]
      exact chainOk_snoc_link bs m [rollupOf m] hc rfl
    rcases k with _ | _ | _ | _ | _ | k
    · simp only [List.take_zero, run, List.foldl_nil, crashA, crashB, List.append_nil]
      exact ⟨Cls.U m _ bs hc, Cls.U m _ bs hc⟩
    · simp only [reopenOps, Bool.false_eq_true, if_false, List.cons_append, List.nil_append, List.take, run,
        List.foldl_cons, List.foldl_nil, step, crashA, crashB, List.append_nil]
      exact ⟨Cls.L m _ bs hc, Cls.L m _ bs hc⟩
    · simp only [reopenOps, Bool.false_eq_true, if_false, List.cons_append, List.nil_append, List.take, run,
        List.foldl_cons, List.foldl_nil, step, crashA, crashB, List.append_nil]
      exact ⟨Cls.L m _ bs hc, Cls.L m _ bs hc⟩
    · simp only [reopenOps, Bool.false_eq_true, if_false, List.cons_append, List.nil_append, List.take, run,
        List.foldl_cons, List.foldl_nil, step, crashA, crashB, List.append_nil, Option.map_some]
      exact ⟨Cls.L m _ bs hc, Cls.L m _ bs hc⟩
    · simp only [reopenOps, Bool.false_eq_true, if_false, List.cons_append, List.nil_append, List.take, run,
        List.foldl_cons, List.foldl_nil, step, crashA, crashB, List.append_nil, Option.map_some]
      exact ⟨Cls.L m _ bs hc, Cls.L m _ bs hc⟩
    · simp only [reopenOps, Bool.false_eq_true, if_false, List.cons_append, List.nil_append, List.take, run,
        List.foldl_cons, List.foldl_nil, step, crashA, crashB, List.append_nil, Option.map_some, Option.map_none,
        List.take_nil]
      exact ⟨Cls.U [rollupOf m] _ (bs ++ [m]) hcr, Cls.U [rollupOf m] _ (bs ++ [m]) hcr⟩
  | L m tmp bs hc =>
    have hcr : chainOk ((bs ++ [m]) ++ [[rollupOf m]]) = true := by
      simp only [List.append_assoc, List.cons_append, List.nil_append]
      exact chainOk_snoc_link bs m [rollupOf m] hc rfl
    rcases k with _ | _ | _ | _ | k
    · simp only [List.take_zero, run, List.foldl_nil, crashA, crashB, List.append_nil]
      exact ⟨Cls.L m _ bs hc, Cls.L m _ bs hc⟩
    · simp only [reopenOps, if_true, List.nil_append, List.take, run,
        List.foldl_cons, List.foldl_nil, step, crashA, crashB, List.append_nil, Option.map_none]
      exact ⟨Cls.L m _ bs hc, Cls.L m _ bs hc⟩
    · simp only [reopenOps, if_true, List.nil_append, List.take, run,
        List.foldl_cons, List.foldl_nil, step, crashA, crashB, List.append_nil, Option.map_some]
      exact ⟨Cls.L m _ bs hc, Cls.L m _ bs hc⟩
    · simp only [reopenOps, if_true, List.nil_append, List.take, run,
        List.foldl_cons, List.foldl_nil, step, crashA, crashB, List.append_nil, Option.map_some]
      exact ⟨Cls.L m _ bs hc, Cls.L m _ bs hc⟩
    · simp only [reopenOps, if_true, List.nil_append, List.take, run,
        List.foldl_cons, List.foldl_nil, step, crashA, crashB, List.append_nil, Option.map_some, Option.map_none,
        List.take_nil]
      exact ⟨Cls.U [rollupOf m] _ (bs ++ [m]) hcr, Cls.U [rollupOf m] _ (bs ++ [m]) hcr⟩

/-- a crash anywhere in a history that starts at a block boundary leaves a directory of the class
    (`chain_crash_aux` with the class in place of its consequence `Good`) -/
theorem cls_crash_aux : ∀ (h : List (Client Edit)) (fs : Fs Edit) (sofar : List Edit), CInv fs sofar → ∀ n,
    Cls (crashA (run fs ((opsOf maniAlgebra h sofar).take n)))
    ∧ Cls (crashB (run fs ((opsOf maniAlgebra h sofar).take n))) := by
  intro h
  induction h with
  | nil =>
    intro fs sofar hi n
    obtain ⟨⟨d, p⟩, tmp, bs, linked⟩ := fs
    obtain ⟨hp, _, hc, _, hl⟩ := hi
    simp only at hp hc hl
    subst hp; subst hl
    simp only [opsOf, List.take_nil, run, List.foldl_nil, crashA, crashB, List.append_nil]
    exact ⟨Cls.U d _ bs hc, Cls.U d _ bs hc⟩
  | cons c cs ih =>
    intro fs sofar hi n
    simp only [opsOf]
    rw [List.take_append]
    rcases Nat.lt_or_ge n (block maniAlgebra sofar c).length with hn | hn
    · have h0 : n - (block maniAlgebra sofar c).length = 0 := by omega
      rw [h0, List.take_zero, List.append_nil]
      obtain ⟨⟨d, p⟩, tmp, bs, linked⟩ := fs
      obtain ⟨hp, hs, hc, hne, hl⟩ := hi
      simp only at hp hs hc hne hl
      subst hp; subst hl
      cases c with
      | edit e =>
        have hlen : (block maniAlgebra sofar (Client.edit e)).length = 3 := rfl
        rw [hlen] at hn
        have hce := chainOk_snoc_extend bs d [e] hc hne
        rcases n with _ | _ | _ | n
        · simp only [List.take_zero, run, List.foldl_nil, crashA, crashB, List.append_nil]
          exact ⟨Cls.U d _ bs hc, Cls.U d _ bs hc⟩
        · simp only [block, List.take, run, List.foldl_cons, List.foldl_nil, step, crashA, crashB,
            List.nil_append, List.append_nil]
          exact ⟨Cls.U (d ++ [e]) _ bs hce, Cls.U d _ bs hc⟩
        · simp only [block, List.take, run, List.foldl_cons, List.foldl_nil, step, crashA, crashB,
            List.nil_append, List.append_nil]
          exact ⟨Cls.U (d ++ [e]) _ bs hce, Cls.U (d ++ [e]) _ bs hce⟩
        · omega
      | rollover =>
        have hlen : (block maniAlgebra sofar Client.rollover).length = 5 := rfl
        rw [hlen] at hn
        rcases n with _ | _ | _ | _ | _ | n
        · simp only [List.take_zero, run, List.foldl_nil, crashA, crashB, List.append_nil]
          exact ⟨Cls.U d _ bs hc, Cls.U d _ bs hc⟩
        · simp only [block, List.take, run, List.foldl_cons, List.foldl_nil, step, crashA, crashB,
            List.nil_append, List.append_nil]
          exact ⟨Cls.L d _ bs hc, Cls.L d _ bs hc⟩
        · simp only [block, List.take, run, List.foldl_cons, List.foldl_nil, step, crashA, crashB,
            List.nil_append, List.append_nil]
          exact ⟨Cls.L d _ bs hc, Cls.L d _ bs hc⟩
        · simp only [block, List.take, run, List.foldl_cons, List.foldl_nil, step, crashA, crashB,
            List.nil_append, List.append_nil]
          exact ⟨Cls.L d _ bs hc, Cls.L d _ bs hc⟩
        · simp only [block, List.take, run, List.foldl_cons, List.foldl_nil, step, crashA, crashB,
            List.nil_append, List.append_nil]
          exact ⟨Cls.L d _ bs hc, Cls.L d _ bs hc⟩
        · omega
      | editRoll e =>
        have hlen : (block maniAlgebra sofar (Client.editRoll e)).length = 8 := rfl
        rw [hlen] at hn
        have hce := chainOk_snoc_extend bs d [e] hc hne
        have hse : replay maniAlgebra (d ++ [e]) = replay maniAlgebra (sofar ++ [e]) := by
          simp only [replay_snoc, hs]
        have hcr : chainOk ((bs ++ [d ++ [e]]) ++ [[rollupOf (sofar ++ [e])]]) = true := by
          simp only [List.append_assoc, List.cons_append, List.nil_append]
          apply chainOk_snoc_link bs (d ++ [e]) _ hce
          simp only [List.head?_cons, rollupOf, hse]
        rcases n with _ | _ | _ | _ | _ | _ | _ | _ | n
        · simp only [List.take_zero, run, List.foldl_nil, crashA, crashB, List.append_nil]
          exact ⟨Cls.U d _ bs hc, Cls.U d _ bs hc⟩
        · simp only [block, List.take, run, List.foldl_cons, List.foldl_nil, step, crashA, crashB,
            List.nil_append, List.append_nil]
          exact ⟨Cls.U (d ++ [e]) _ bs hce, Cls.U d _ bs hc⟩
        · simp only [block, List.take, run, List.foldl_cons, List.foldl_nil, step, crashA, crashB,
            List.nil_append, List.append_nil]
          exact ⟨Cls.U (d ++ [e]) _ bs hce, Cls.U (d ++ [e]) _ bs hce⟩
        · simp only [block, List.take, run, List.foldl_cons, List.foldl_nil, step, crashA, crashB,
            List.nil_append, List.append_nil, Option.map_some]
          exact ⟨Cls.L (d ++ [e]) _ bs hce, Cls.L (d ++ [e]) _ bs hce⟩
        · simp only [block, List.take, run, List.foldl_cons, List.foldl_nil, step, crashA, crashB,
            List.nil_append, List.append_nil, Option.map_some]
          exact ⟨Cls.L (d ++ [e]) _ bs hce, Cls.L (d ++ [e]) _ bs hce⟩
        · simp only [block, List.take, run, List.foldl_cons, List.foldl_nil, step, crashA, crashB,
            List.nil_append, List.append_nil, Option.map_some]
          exact ⟨Cls.L (d ++ [e]) _ bs hce, Cls.L (d ++ [e]) _ bs hce⟩
        · simp only [block, List.take, run, List.foldl_cons, List.foldl_nil, step, crashA, crashB,
            List.nil_append, List.append_nil, Option.map_some]
          exact ⟨Cls.L (d ++ [e]) _ bs hce, Cls.L (d ++ [e]) _ bs hce⟩
        · simp only [block, List.take, run, List.foldl_cons, List.foldl_nil, step, crashA, crashB,
            List.nil_append, List.append_nil, Option.map_some]
          exact ⟨Cls.U [rollupOf (sofar ++ [e])] _ (bs ++ [d ++ [e]]) hcr, Cls.U [rollupOf (sofar ++ [e])] _ (bs ++ [d ++ [e]]) hcr⟩
        · omega
    · have htake : (block maniAlgebra sofar c).take n = block maniAlgebra sofar c :=
        List.take_of_length_le hn
      rw [htake, run_append]
      exact ih _ _ (cinv_block fs sofar c hi) (n - (block maniAlgebra sofar c).length)

/-- one incarnation keeps the class: open (rollover) on a directory of the class, any history, cut
    anywhere — inside the open too — under either persistence model -/
theorem Cls.next {g : Fs Edit} (h : Cls g) (i : Inc Edit) : Cls (nextFs maniAlgebra g i) := by
  unfold nextFs incOps
  rw [List.take_append]
  rcases Nat.lt_or_ge i.n (reopenOps maniAlgebra g).length with hn | hn
  · have h0 : i.n - (reopenOps maniAlgebra g).length = 0 := by omega
    rw [h0, List.take_zero, List.append_nil]
    have := h.reopen_prefix i.n
    unfold crash; cases i.b
    · exact this.1
    · exact this.2
  · rw [List.take_of_length_le hn, run_append]
    have := cls_crash_aux i.h _ _ h.reopen_cinv (i.n - (reopenOps maniAlgebra g).length)
    unfold crash; cases i.b
    · exact this.1
    · exact this.2

/-- **chain, any number of incarnations**: whatever sequence of incarnations (each: open, a history,
    a crash at any system call — of the open's own rollover too — under either persistence model)
    the directory went through, it is of the class; hence after the next completed reopen the
    fragments chain (`Manifest::verify` reports nothing) -/
theorem chain_incarnations : ∀ (is : List (Inc Edit)) (g : Fs Edit), Cls g → Cls (runIncs maniAlgebra g is)
  | [], _, h => h
  | i :: is, g, h => chain_incarnations is _ (h.next i)

/-- the crash image of a first incarnation (no MANIFEST yet, no rollover at open) is of the class -/
theorem cls_first (h : List (Client Edit)) (n : Nat) (b : Bool) :
    Cls (crash b (run emptyFs ((opsOf maniAlgebra h []).take n))) := by
  have := cls_crash_aux h emptyFs [] cinv_empty n
  unfold crash; cases b
  · exact this.1
  · exact this.2

theorem chain_after_incarnations (g0 : Fs Edit) (h0 : Cls g0) (is : List (Inc Edit)) :
    let g := runIncs maniAlgebra g0 is
    chainOk (fragments (run g (reopenOps maniAlgebra g))) = true :=
  (chain_incarnations is g0 h0).good

/-- … and it keeps chaining through the crash-free history that follows that reopen -/
theorem chain_after_incarnations_and_history (g0 : Fs Edit) (h0 : Cls g0) (is : List (Inc Edit))
    (h : List (Client Edit)) :
    let g := runIncs maniAlgebra g0 is
    chainOk (fragments (run g (reopenOps maniAlgebra g ++ opsOf maniAlgebra h g.mani.durable))) = true := by
  intro g
  have hc : Cls g := chain_incarnations is g0 h0
  have hi := cinv_run h _ _ hc.reopen_cinv
  rw [run_append]
  unfold fragments
  rw [hi.pend, List.append_nil]
  exact hi.chain

end Blue.Mani

#print axioms Blue.Mani.readEdits_fuel
#print axioms Blue.Mani.openBytes_fileBytes
#print axioms Blue.Mani.open_torn
#print axioms Blue.Mani.open_after_history
#print axioms Blue.Mani.open_after_incarnations
#print axioms Blue.Mani.chain_incarnations
#print axioms Blue.Mani.chain_after_incarnations_and_history
