import Blue.Proofs.VerifyJoin
/-! **C04** rejection of COMPENSATING alterations of recorded digests: two digests of one
    transaction changed together so that they cancel (`D' = D + x`, `O' = O − x`: the record still
    satisfies `I = O' + D'`; for a garbage collection `D' = 0`, `O' = I`).  The names — and with
    them the verifier's accumulator — are untouched, so the chain check of the NEXT record passes
    too, and the recorded `O'` of a record that is not the last of its fragment is compared with
    nothing.  What catches the pair is the check `discard != computed_discard` of `verify_one`,
    which is made for EVERY record after the first — ingest or not, discard zero or not — before
    and outside the block that runs `verify_gc`: the recorded discard must be Σ removed − Σ added
    recomputed from the names, whatever `O` says (`finishEdit`).

    `finishEditGuarded` is the same function with that comparison moved inside the block
    (`discard != 0 && removes files`): it accepts the pairs (`guarded_check_accepts_pair`). -/
namespace Blue.VerifyOne
open Blue.Books
open Blue.Mani (Edit)
open Blue.Verifier (Name getInfo)
open Blue.Compact (Entry)

variable {G : Type} [DecidableEq G]

/-- `e'` is `e` with other recorded `O` and `D`: same names, same `I`, same `L` -/
structure SameButOD (env : Env G) (e e' : Edit) : Prop where
  add : e'.add = e.add
  rm : e'.rm = e.rm
  inp : info env e' 73 = info env e 73
  log : getInfo e' 76 = getInfo e 76

/-- an accepted record records the discard its names give: `D = Σ removed − Σ added` -/
theorem accepted_discard_is_computed (env : Env G) (acc : G) (e : Edit) (r : G × G)
    (hok : verifyEdit env false acc e = .ok r) :
    ∃ adds rms, scan env false e.add = .ok adds ∧ scan env false e.rm = .ok rms
      ∧ info env e 68 = .ok (computed env.ops adds rms) ∧ info env e 73 = .ok acc ∧ logOk e = true := by
  obtain ⟨a', o⟩ := r
  obtain ⟨D, adds, rms, h1, _, h3, _, h5, h6, h7⟩ := (verifyEdit_ok env acc e a' o).mp hok
  obtain ⟨hl, hd, _, _⟩ := (finishEdit_ok env e acc D a' adds rms).mp h7
  exact ⟨adds, rms, h5, h6, by rw [h3, hd], h1, hl⟩

/-- **C04** `compensating_pair_rejected`, one record: `e` is accepted from the accumulator `acc`;
    `e'` names the same files, records the same `I` and `L`, and records digests `O'`, `D'` that
    BALANCE (`I = O' + D'`) with `D'` other than the discard `e` records — the verifier stops at
    "manifest has bad discard", whatever `O'` is -/
theorem compensating_pair_rejected_edit (env : Env G) (acc : G) (e e' : Edit) (r : G × G)
    (hok : verifyEdit env false acc e = .ok r) (hs : SameButOD env e e')
    (D O' D' : G) (hD : info env e 68 = .ok D) (hO' : info env e' 79 = .ok O') (hD' : info env e' 68 = .ok D')
    (hbal : acc = env.ops.add O' D') (hne : D' ≠ D) :
    verifyEdit env false acc e' = .error .discard := by
  obtain ⟨adds, rms, ha, hr, hd, hI, hl⟩ := accepted_discard_is_computed env acc e r hok
  have hDc : D = computed env.ops adds rms := by
    rw [hD] at hd; injection hd
  have hl' : logOk e' = true := by
    unfold logOk at hl ⊢; rw [hs.log]; exact hl
  unfold verifyEdit
  rw [hs.inp, hI, hO', hD']
  simp only [Bool.false_and, Bool.false_eq_true, if_false, Bool.not_false, Bool.true_and, decide_eq_true_eq,
    ne_eq, not_true_eq_false]
  rw [if_neg (fun hh => hh hbal), hs.add, hs.rm, ha, hr]
  simp only
  unfold finishEdit
  rw [hl']
  simp only [Bool.not_true, Bool.false_eq_true, if_false]
  rw [if_pos (fun h => hne (h.trans hDc.symm))]

theorem verifyEdits_append (env : Env G) : ∀ (a b : List Edit) (acc : G) (last : Option G),
    verifyEdits env false acc last (a ++ b) =
      match verifyEdits env false acc last a with
      | .error f => .error f
      | .ok r => verifyEdits env false r.1 r.2 b
  | [], _, _, _ => rfl
  | e :: t, b, acc, last => by
    simp only [List.cons_append, verifyEdits]
    cases hv : verifyEdit env false acc e with
    | error f => rfl
    | ok r1 => exact verifyEdits_append env t b r1.1 (some r1.2)

/-- **C04** `compensating_pair_rejected`: in a fragment the verifier accepts, replace one record
    other than the first (`e`, anywhere after the first: the second, a middle one, the last) by a
    record that differs in its recorded `O` and `D` only, still balances, and records another
    discard: the fragment is rejected with "manifest has bad discard" — by the check on THAT
    record, not by a later one -/
theorem compensating_pair_rejected (env : Env G) (acc : G) (e0 : Edit) (a b : List Edit) (e e' : Edit) (acc' : G)
    (hok : verifyFragment env acc (e0 :: (a ++ e :: b)) = .ok acc') (hs : SameButOD env e e')
    (I D O' D' : G) (hI : info env e 73 = .ok I) (hD : info env e 68 = .ok D)
    (hO' : info env e' 79 = .ok O') (hD' : info env e' 68 = .ok D')
    (hbal : I = env.ops.add O' D') (hne : D' ≠ D) :
    verifyFragment env acc (e0 :: (a ++ e' :: b)) = .error .discard := by
  unfold verifyFragment at hok ⊢
  simp only [verifyEdits] at hok ⊢
  cases hv : verifyEdit env true acc e0 with
  | error f => rw [hv] at hok; cases hok
  | ok r1 =>
    rw [hv] at hok
    simp only at hok ⊢
    rw [verifyEdits_append] at hok ⊢
    cases ha : verifyEdits env false r1.1 (some r1.2) a with
    | error f => rw [ha] at hok; cases hok
    | ok ra =>
      rw [ha] at hok
      simp only [verifyEdits] at hok ⊢
      cases he : verifyEdit env false ra.1 e with
      | error f => rw [he] at hok; cases hok
      | ok re =>
        obtain ⟨_, _, _, _, _, hI', _⟩ := accepted_discard_is_computed env ra.1 e re he
        have hacc : I = ra.1 := by rw [hI] at hI'; injection hI'
        rw [compensating_pair_rejected_edit env ra.1 e e' re he hs D O' D' hD hO' hD' (hacc ▸ hbal) hne]

/-- **C04** `gc_discard_erased_rejected`: the record of a garbage collection (or any record with
    `D ≠ 0`) rewritten to `D' = 0`, `O' = I` — "this transaction discarded nothing" — balances in
    any group and is rejected on its discard: it does not pass as an ordinary compaction -/
theorem gc_discard_erased_rejected (g : Grp G) (env : Env G) (he : env.ops = opsOf g) (acc : G) (e0 : Edit)
    (a b : List Edit) (e e' : Edit) (acc' : G)
    (hok : verifyFragment env acc (e0 :: (a ++ e :: b)) = .ok acc') (hs : SameButOD env e e')
    (I D : G) (hI : info env e 73 = .ok I) (hD : info env e 68 = .ok D) (hD0 : D ≠ env.ops.zero)
    (hO' : info env e' 79 = .ok I) (hD' : info env e' 68 = .ok env.ops.zero) :
    verifyFragment env acc (e0 :: (a ++ e' :: b)) = .error .discard := by
  refine compensating_pair_rejected env acc e0 a b e e' acc' hok hs I D I env.ops.zero hI hD hO' hD' ?_
    (fun h => hD0 h.symm)
  rw [he]
  exact (g.add_zero I).symm

/-! ### the check moved inside the garbage-collection block -/

/-- `finishEdit` with `discard != computed_discard` inside the block guarded by
    `discard != 0 && edit.rmed().count() > 0` (next to `verify_gc`) -/
def finishEditGuarded (env : Env G) (e : Edit) (acc D : G) (adds rms : List G) : Except Fail G :=
  if !logOk e then .error .badL
  else
    match (if D ≠ env.ops.zero ∧ rms ≠ [] then
        (if D ≠ computed env.ops adds rms then .error .discard else verifyGc env rms adds D) else .ok ()) with
    | .error f => .error f
    | .ok _ => .ok (env.ops.sub acc (computed env.ops adds rms))

/-- … a record with `D = 0` passes it whatever its names say -/
theorem guarded_check_skips_zero_discard (env : Env G) (e : Edit) (acc : G) (adds rms : List G) (hl : logOk e = true) :
    finishEditGuarded env e acc env.ops.zero adds rms = .ok (env.ops.sub acc (computed env.ops adds rms)) := by
  unfold finishEditGuarded
  rw [hl]
  simp

/-- … and so does every ingest (no removed file) -/
theorem guarded_check_skips_ingests (env : Env G) (e : Edit) (acc D : G) (adds : List G) (hl : logOk e = true) :
    finishEditGuarded env e acc D adds [] = .ok (env.ops.sub acc (computed env.ops adds [])) := by
  unfold finishEditGuarded
  rw [hl]
  simp


/-- `verify_one`'s loop body with the final checks of a record as a parameter -/
def verifyEditWith (fin : Env G → Edit → G → G → List G → List G → Except Fail G)
    (env : Env G) (first : Bool) (acc : G) (e : Edit) : Except Fail (G × G) :=
  match info env e 73 with
  | .error f => .error f
  | .ok I =>
    match info env e 79 with
    | .error f => .error f
    | .ok O =>
      match info env e 68 with
      | .error f => .error f
      | .ok D =>
        if first && decide (O ≠ acc) then .error .chain
        else if !first && decide (I ≠ acc) then .error .chain
        else if !first && decide (I ≠ env.ops.add O D) then .error .balance
        else
          match scan env first e.add with
          | .error f => .error f
          | .ok adds =>
            match scan env first e.rm with
            | .error f => .error f
            | .ok rms =>
              if first then .ok (acc, O)
              else
                match fin env e acc D adds rms with
                | .error f => .error f
                | .ok acc' => .ok (acc', O)

def verifyEditsWith (fin : Env G → Edit → G → G → List G → List G → Except Fail G) (env : Env G) :
    Bool → G → Option G → List Edit → Except Fail (G × Option G)
  | _, acc, last, [] => .ok (acc, last)
  | first, acc, _, e :: t =>
    match verifyEditWith fin env first acc e with
    | .error f => .error f
    | .ok r => verifyEditsWith fin env false r.1 (some r.2) t

def verifyFragmentWith (fin : Env G → Edit → G → G → List G → List G → Except Fail G) (env : Env G)
    (acc : G) (es : List Edit) : Except Fail G :=
  match verifyEditsWith fin env true acc none es with
  | .error f => .error f
  | .ok r => if r.2 = some r.1 then .ok r.1 else .error .output

/-- with the checks of the code it is `verify_one` -/
theorem verifyEditWith_finishEdit (env : Env G) (first : Bool) (acc : G) (e : Edit) :
    verifyEditWith finishEdit env first acc e = verifyEdit env first acc e := rfl

theorem verifyFragmentWith_finishEdit (env : Env G) (acc : G) (es : List Edit) :
    verifyFragmentWith finishEdit env acc es = verifyFragment env acc es := by
  have h : ∀ (es : List Edit) (first : Bool) (acc : G) (last : Option G),
      verifyEditsWith finishEdit env first acc last es = verifyEdits env first acc last es := by
    intro es
    induction es with
    | nil => intros; rfl
    | cons e t ih =>
      intro first acc last
      simp only [verifyEditsWith, verifyEdits, verifyEditWith_finishEdit]
      cases verifyEdit env first acc e with
      | error f => rfl
      | ok r => exact ih false r.1 (some r.2)
  unfold verifyFragmentWith verifyFragment
  rw [h]
  cases verifyEdits env true acc none es <;> rfl

/-- the fragment of the examples (`exFrag`: the empty state, the ingest of `X`, the collection
    `X → Y`) followed by the ingest of `Z`, with the collection's record given: `I, O, D` -/
def exFragThen (X Y Z : File) (O D : Int) : List Edit :=
  let sx := setsumOf (opsOf intGrp) exH X
  let sy := setsumOf (opsOf intGrp) exH Y
  let sz := setsumOf (opsOf intGrp) exH Z
  [ Blue.VerifyOne.mkEdit exName 0 0 0 [] [],
    Blue.VerifyOne.mkEdit exName 0 sx (-sx) [] [sx],
    Blue.VerifyOne.mkEdit exName sx O D [sx] [sy],
    Blue.VerifyOne.mkEdit exName sy (sy + sz) (-sz) [] [sz] ]

/-- non-vacuity of `compensating_pair_rejected` / `gc_discard_erased_rejected`, over the integers:
    the honest collection `{a@5, a@2, b@3, c@1} → {a@5, b@3, c@1}` followed by an ingest verifies;
    with the collection's `D` and `O` shifted by `+1 / −1`, and with `D := 0`, `O := I`, it is
    rejected on the discard -/
theorem ex_pairs_rejected :
    let X := [a5, a2, b3, c1]
    let Y := [a5, b3, c1]
    let sx := setsumOf (opsOf intGrp) exH X
    let sy := setsumOf (opsOf intGrp) exH Y
    (verifyFragment (exEnv [X, Y, [b1]] false) 0 (exFragThen X Y [b1] sy (sx - sy))).toOption
        = some (sy + setsumOf (opsOf intGrp) exH [b1])
    ∧ verifyFragment (exEnv [X, Y, [b1]] false) 0 (exFragThen X Y [b1] (sy - 1) (sx - sy + 1)) = .error .discard
    ∧ verifyFragment (exEnv [X, Y, [b1]] false) 0 (exFragThen X Y [b1] sx 0) = .error .discard := by
  decide

/-- **the check moved inside the block** accepts them: the collection with `D := 0`, `O := I` passes
    as an ordinary compaction (`verify_gc` is not run for it), the ingest with `D, O` shifted by
    `+1 / −1` passes because it removes nothing; the accumulator comes from the names, so the next
    record chains, and the fragment is accepted with the same accumulator as the honest one -/
theorem guarded_check_accepts_pair :
    let X := [a5, a2, b3, c1]
    let Y := [a5, b3, c1]
    let sx := setsumOf (opsOf intGrp) exH X
    let sy := setsumOf (opsOf intGrp) exH Y
    (verifyFragmentWith finishEditGuarded (exEnv [X, Y, [b1]] false) 0 (exFragThen X Y [b1] sx 0)).toOption
        = some (sy + setsumOf (opsOf intGrp) exH [b1])
    ∧ (verifyFragmentWith finishEditGuarded (exEnv [X, Y, [b1]] false) 0
        [ Blue.VerifyOne.mkEdit exName 0 0 0 [] [],
          Blue.VerifyOne.mkEdit exName 0 (sx - 1) (-sx + 1) [] [sx],
          Blue.VerifyOne.mkEdit exName sx sy (sx - sy) [sx] [sy] ]).toOption = some sy
    ∧ verifyFragment (exEnv [X, Y, [b1]] false) 0
        [ Blue.VerifyOne.mkEdit exName 0 0 0 [] [],
          Blue.VerifyOne.mkEdit exName 0 (sx - 1) (-sx + 1) [] [sx],
          Blue.VerifyOne.mkEdit exName sx sy (sx - sy) [sx] [sy] ] = .error .discard := by
  decide

end Blue.VerifyOne
