import Blue.Proofs.KvsConcReads
/-! Writes that fail (`Ev.wFail`): `KeyValueStore::write` returns an error after it has taken its
    sequence number and its place in the wait list — the log refuses the batch (empty, an entry
    too long, too large) before anything is appended.  The number is never published and nothing
    carries it.

    * `failed_write_invisible` — no entry of any table, and so no lookup of any snapshot, carries
      the number of a failed write; `failed_never_published`, `failed_number_not_reused`.
    * `wFail_changes_nothing_readable` — the step itself moves neither `visible` nor the timestamp a
      reader would take nor any table nor any snapshot's view.
    * `gap_is_covered_by_successor` — the published sequence has gaps: the next write to leave
      publishes its own number, and every write at or below it has left (`fin_vis`, kept by
      `inv_wFail`), which is all `batch_atomic` / `no_stale_read` / `snapshot_stable` need.
    * `failed_write_publishes_tears_batch` — the seeded restructuring (a failed write does not wait
      for its turn and publishes `max visible seq`): a reader sees half of a batch. -/
namespace Blue.KvsConc
open Blue.KvsWrite (Entry)

/-- what is known of the numbers of the writes that failed -/
structure FInv (s : St) : Prop where
  fbound : ∀ q ∈ s.failed, q ≤ s.seqNo
  /-- no writer carries a failed number (the failed writer is forgotten, the number never reused) -/
  fgone : ∀ q ∈ s.failed, ∀ w ∈ s.writers, w.seq ≠ q
  /-- a failed number is never the published one -/
  fnotvis : ∀ q ∈ s.failed, s.visible ≠ q
  /-- … and is not in the wait list any more -/
  fnotq : ∀ q ∈ s.failed, Ticket.w q ∉ s.queue

theorem finv_init (c : Bool) (seq mem : Nat) : FInv (init c seq mem) := by
  refine ⟨?_, ?_, ?_, ?_⟩ <;> simp [init]

theorem finv_step {s s' : St} (hi : Inv s) (h : FInv s) (ev : Ev) (hs : step s ev = some s') : FInv s' := by
  cases ev with
  | wBegin seq tbl batch =>
    simp only [step] at hs
    split at hs
    · rename_i hc
      cases hs
      refine ⟨?_, ?_, h.fnotvis, ?_⟩
      · intro q hq; have := h.fbound q hq; show q ≤ seq; omega
      · intro q hq w hw
        rcases List.mem_append.mp hw with hw | hw
        · exact h.fgone q hq w hw
        · simp only [List.mem_singleton] at hw; subst hw
          have := h.fbound q hq
          show seq ≠ q; omega
      · intro q hq hin
        rcases List.mem_append.mp hin with hin | hin
        · exact h.fnotq q hq hin
        · simp only [List.mem_singleton, Ticket.w.injEq] at hin
          have := h.fbound q hq
          omega
    · cases hs
  | wLog seq =>
    simp only [step] at hs
    split at hs
    · split at hs
      · cases hs; exact ⟨h.fbound, h.fgone, h.fnotvis, h.fnotq⟩
      · cases hs
    · cases hs
  | wIns seq idx =>
    simp only [step] at hs
    split at hs
    · split at hs
      · split at hs
        · cases hs
          refine ⟨h.fbound, ?_, h.fnotvis, h.fnotq⟩
          intro q hq x hx
          obtain ⟨w, hw, rfl⟩ := mem_updWriter hx
          have := h.fgone q hq w hw
          split <;> exact this
        · cases hs
      · cases hs
    · cases hs
  | wFin seq =>
    simp only [step] at hs
    split at hs
    · rename_i w0 hfind
      obtain ⟨hw0, hseq0⟩ := findWriter_some hfind
      split at hs
      · cases hs
        refine ⟨h.fbound, ?_, ?_, ?_⟩
        · intro q hq x hx
          obtain ⟨w, hw, rfl⟩ := mem_updWriter hx
          have := h.fgone q hq w hw
          split <;> exact this
        · intro q hq
          show seq ≠ q
          have := h.fgone q hq w0 hw0
          rw [hseq0] at this; exact this
        · intro q hq hin
          exact h.fnotq q hq (mem_of_mem_tail' hin)
      · cases hs
    · cases hs
  | fRotate n o =>
    simp only [step] at hs
    split at hs
    · cases hs
      refine ⟨?_, h.fgone, h.fnotvis, ?_⟩
      · intro q hq; have := h.fbound q hq; show q ≤ s.seqNo + 1; omega
      · intro q hq hin
        rcases List.mem_append.mp hin with hin | hin
        · exact h.fnotq q hq hin
        · simp at hin
    · cases hs
  | fHead m =>
    simp only [step] at hs
    split at hs
    · cases hs
      exact ⟨h.fbound, h.fgone, h.fnotvis, fun q hq hin => h.fnotq q hq (mem_of_mem_tail' hin)⟩
    · cases hs
  | fInstall o vid =>
    simp only [step] at hs
    split at hs
    · cases hs; exact ⟨h.fbound, h.fgone, h.fnotvis, h.fnotq⟩
    · cases hs
  | fClear o =>
    simp only [step] at hs
    split at hs
    · cases hs; exact ⟨h.fbound, h.fgone, h.fnotvis, h.fnotq⟩
    · cases hs
  | tInstall vid =>
    simp only [step] at hs
    split at hs
    · cases hs; exact ⟨h.fbound, h.fgone, h.fnotvis, h.fnotq⟩
    · cases hs
  | rTree rid vid =>
    simp only [step] at hs
    split at hs
    · cases hs; exact ⟨h.fbound, h.fgone, h.fnotvis, h.fnotq⟩
    · cases hs
  | rSnap rid ts mem imm =>
    simp only [step] at hs
    split at hs
    · split at hs
      · cases hs; exact ⟨h.fbound, h.fgone, h.fnotvis, h.fnotq⟩
      · cases hs
    · cases hs
  | wFail seq =>
    simp only [step] at hs
    split at hs
    · rename_i w0 hfind
      obtain ⟨hw0, hseq0⟩ := findWriter_some hfind
      split at hs
      · rename_i hc
        cases hs
        refine ⟨?_, ?_, ?_, ?_⟩
        · intro q hq
          rcases List.mem_cons.mp hq with rfl | hq
          · have := hi.wbound w0 hw0; rw [hseq0] at this; exact this
          · exact h.fbound q hq
        · intro q hq w hw
          obtain ⟨hw1, hne⟩ := List.mem_filter.mp hw
          rcases List.mem_cons.mp hq with rfl | hq
          · simpa using hne
          · exact h.fgone q hq w hw1
        · intro q hq
          rcases List.mem_cons.mp hq with rfl | hq
          · -- the failing writer has not left the list: its number is beyond `visible`
            intro hv
            have := (hi.fin_vis w0 hw0).mpr (by rw [hseq0, hv]; exact Nat.le_refl _)
            rw [hc.1] at this; cases this
          · exact h.fnotvis q hq
        · intro q hq hin
          obtain ⟨hin1, hne⟩ := List.mem_filter.mp hin
          rcases List.mem_cons.mp hq with rfl | hq
          · simp at hne
          · exact h.fnotq q hq hin1
      · cases hs
    · cases hs

theorem finv_run : ∀ (evs : List Ev) {s s' : St}, Inv s → FInv s → run s evs = some s' → FInv s'
  | [], s, s', _, h, hr => by simp only [run] at hr; cases hr; exact h
  | e :: es, s, s', hi, h, hr => by
    rw [run_cons] at hr
    split at hr
    · rename_i s1 hs1
      exact finv_run es (inv_step hi e hs1) (finv_step hi h e hs1) hr
    · cases hr

/-- **a failed write has no effect on any read**: in every reachable state no entry of any table
    carries the number of a write that failed, so no lookup through any snapshot — whatever its
    timestamp and tables — returns one -/
theorem failed_write_invisible {c : Bool} {seq0 mem0 : Nat} {evs : List Ev} {s : St}
    (hrun : run (init c seq0 mem0) evs = some s) (q : Nat) (hq : q ∈ s.failed) :
    (∀ te ∈ s.ents, te.2.seq ≠ q) ∧ ∀ (sn : Snap) (k : Nat) (e : Entry), lookup s sn k = some e → e.seq ≠ q := by
  have hi := inv_run evs (inv_init c seq0 mem0) hrun
  have hf := finv_run evs (inv_init c seq0 mem0) (finv_init c seq0 mem0) hrun
  have hents : ∀ te ∈ s.ents, te.2.seq ≠ q := by
    intro te hte heq
    obtain ⟨w, hw, hseq, _, _⟩ := hi.from_batch te hte
    exact hf.fgone q hq w hw (by rw [hseq, heq])
  refine ⟨hents, ?_⟩
  intro sn k e hl
  obtain ⟨hv, _⟩ := lookup_mem hl
  obtain ⟨t, h1, _, _⟩ := mem_view.mp hv
  exact hents (t, e) h1

/-- the number of a failed write is never the published one, is not in the wait list, and no
    writer — past, present — carries it: sequence numbers are not reused -/
theorem failed_never_published {c : Bool} {seq0 mem0 : Nat} {evs : List Ev} {s : St}
    (hrun : run (init c seq0 mem0) evs = some s) (q : Nat) (hq : q ∈ s.failed) :
    s.visible ≠ q ∧ Ticket.w q ∉ s.queue ∧ q ≤ s.seqNo ∧ ∀ w ∈ s.writers, w.seq ≠ q := by
  have hf := finv_run evs (inv_init c seq0 mem0) (finv_init c seq0 mem0) hrun
  exact ⟨hf.fnotvis q hq, hf.fnotq q hq, hf.fbound q hq, hf.fgone q hq⟩

/-- a write that begins after a failure gets a number beyond the failed one -/
theorem failed_number_not_reused {c : Bool} {seq0 mem0 : Nat} {evs : List Ev} {s s' : St}
    (hrun : run (init c seq0 mem0) evs = some s) (q t : Nat) (b : List (Nat × Option Nat))
    (hs : step s (.wBegin q t b) = some s') : ∀ f ∈ s.failed, f < q := by
  have hf := finv_run evs (inv_init c seq0 mem0) (finv_init c seq0 mem0) hrun
  intro f hfm
  simp only [step] at hs
  split at hs
  · rename_i hc
    have := hf.fbound f hfm
    omega
  · cases hs

/-- **the failing step moves nothing a reader can see**: not `visible`, not the timestamp a reader
    would take now, no table, no snapshot and no snapshot's view; it records the number as failed,
    takes the ticket out of the wait list and forgets the writer -/
theorem wFail_changes_nothing_readable {s s' : St} {q : Nat} (hs : step s (.wFail q) = some s') :
    s'.visible = s.visible ∧ s'.seqNo = s.seqNo ∧ readTs s' = readTs s ∧ s'.ents = s.ents
      ∧ s'.readers = s.readers ∧ (∀ sn, view s' sn = view s sn)
      ∧ s'.failed = q :: s.failed ∧ Ticket.w q ∉ s'.queue ∧ ∀ w ∈ s'.writers, w.seq ≠ q := by
  simp only [step] at hs
  split at hs
  · split at hs
    · cases hs
      refine ⟨rfl, rfl, rfl, rfl, rfl, fun _ => rfl, rfl, ?_, ?_⟩
      · intro hin
        have := (List.mem_filter.mp hin).2
        simp at this
      · intro w hw
        have := (List.mem_filter.mp hw).2
        simpa using this
    · cases hs
  · cases hs

/-- what a failing step needs: the write has begun, has not left, has inserted nothing and its log
    append has not returned (`MemTable::write` cannot fail, so there is no failure after it) -/
theorem wFail_enabled_iff {s : St} {q : Nat} :
    (∃ s', step s (.wFail q) = some s') ↔
      ∃ w, findWriter s q = some w ∧ w.finished = false ∧ w.todo = w.batch ∧ q ∉ s.logged := by
  simp only [step]
  constructor
  · rintro ⟨s', hs⟩
    split at hs
    · rename_i w hf
      split at hs
      · rename_i hc; exact ⟨w, hf, hc⟩
      · cases hs
    · cases hs
  · rintro ⟨w, hf, hc⟩
    rw [hf]
    simp only [hc, and_self, not_false_eq_true, if_true]
    exact ⟨_, rfl⟩

/-- **the gap is covered by the successor**: write 3 is inserting its two-key batch, write 4 (the
    empty batch) fails behind it and leaves; a reader that comes now reads at 2 and sees nothing
    of the batch; write 3 leaves and publishes 3; write 5 publishes 5 — number 4 was never
    published, and a reader at 5 sees batch 3 whole and write 5 -/
theorem gap_is_covered_by_successor :
    (run (init true 2 1) [.wBegin 3 1 [(1, some 7), (2, some 7)], .wLog 3, .wIns 3 0, .wBegin 4 1 [], .wFail 4,
        .rTree 0 0, .rSnap 0 2 1 false, .wIns 3 1, .wBegin 5 1 [(1, some 9)], .wLog 5, .wIns 5 0, .wFin 3,
        .rTree 1 0, .rSnap 1 3 1 false, .wFin 5, .rTree 2 0, .rSnap 2 5 1 false]).map
      (fun s => (s.failed, s.visible, s.queue.length)) = some ([4], 5, 0) ∧
    (run (init true 2 1) [.wBegin 3 1 [(1, some 7), (2, some 7)], .wLog 3, .wIns 3 0, .wBegin 4 1 [], .wFail 4,
        .rTree 0 0, .rSnap 0 2 1 false, .wIns 3 1, .wBegin 5 1 [(1, some 9)], .wLog 5, .wIns 5 0, .wFin 3,
        .rTree 1 0, .rSnap 1 3 1 false, .wFin 5, .rTree 2 0, .rSnap 2 5 1 false]).map
      (fun s => s.readers.map (fun r => (r.2.ts, value s r.2 1, value s r.2 2)))
      = some [(5, some 9, some 7), (3, some 7, some 7), (2, none, none)] := by
  decide

/-- a failed write at the HEAD of the list with successors behind it: the successor leaves next
    and publishes its own number (that the successor is *woken* is `Blue.KvsWake`) -/
theorem failed_head_hands_on :
    (run (init true 2 1) [.wBegin 3 1 [], .wBegin 4 1 [(1, some 7)], .wLog 4, .wIns 4 0, .wFail 3, .wFin 4,
        .rTree 0 0, .rSnap 0 4 1 false]).map
      (fun s => (s.failed, s.visible, s.queue.length, s.readers.map (fun r => (r.2.ts, value s r.2 1))))
      = some ([3], 4, 0, [(4, some 7)]) := by
  decide

/-! ### the seeded restructuring -/

/-- `step`, except that a write that fails publishes `max visible seq` on its way out (and, as in
    `step`, does not wait for its turn): the error path of `write` sent through the common exit
    "one step too far" -/
def stepMut (s : St) : Ev → Option St
  | .wFail seq => (step s (.wFail seq)).map (fun s' => { s' with visible := max s.visible seq })
  | e => step s e

def runMut (s : St) : List Ev → Option St
  | [] => some s
  | e :: es =>
    match stepMut s e with
    | some s' => runMut s' es
    | none => none

/-- **`failed_write_publishes_tears_batch`**: write 3 has inserted the first key of its two-key
    batch; write 4 (the empty batch) fails behind it and, as restructured, publishes 4; a reader
    that comes now reads at 4, finds key 1 of batch 3 and not key 2 -/
theorem failed_write_publishes_tears_batch :
    (runMut (init true 2 1) [.wBegin 3 1 [(1, some 7), (2, some 7)], .wLog 3, .wIns 3 0, .wBegin 4 1 [],
        .wFail 4, .rTree 0 0, .rSnap 0 4 1 false]).map
      (fun s => s.readers.map (fun r => (r.2.ts, value s r.2 1, value s r.2 2))) = some [(4, some 7, none)] := by
  decide

/-- … the same events in the model of the code: `rSnap … ts = 4` is not enabled (the timestamp is
    2), and at 2 the reader sees nothing of the batch -/
theorem same_schedule_failed_write_publishes_nothing :
    run (init true 2 1) [.wBegin 3 1 [(1, some 7), (2, some 7)], .wLog 3, .wIns 3 0, .wBegin 4 1 [],
        .wFail 4, .rTree 0 0, .rSnap 0 4 1 false] = none ∧
    (run (init true 2 1) [.wBegin 3 1 [(1, some 7), (2, some 7)], .wLog 3, .wIns 3 0, .wBegin 4 1 [],
        .wFail 4, .rTree 0 0, .rSnap 0 2 1 false]).map
      (fun s => s.readers.map (fun r => (r.2.ts, value s r.2 1, value s r.2 2))) = some [(2, none, none)] := by
  decide

end Blue.KvsConc
