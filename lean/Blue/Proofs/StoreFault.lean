import Blue.Proofs.StoreFaultWf
/-! Recovery is itself crash safe, incarnation after incarnation, and a failed system call is a cut
    of the operation list: `recover_block` (every prefix of what `open` does to a crash image leaves
    a directory that reopens to the same batches; the whole of it re-establishes the block-boundary
    invariant), `epoch_ok`, `epochs_ok` (any number of incarnations, each cut anywhere — inside its
    recovery too — under either persistence model), `fault_surfaces`. -/
namespace Blue.StoreFault
open Blue.StoreCrash

/-! ### what a successful reopen says about the directory -/

theorem recover_inv {view : File → List Nat} {txs : List Tx} {fs : Fs} {l : List Nat}
    (h : recover view txs fs = some l) :
    (∀ nm ∈ live txs, (find fs.sst nm).map view = some nm)
    ∧ l = (live txs).flatten ++ logPart (live txs) (fs.logs.map (fun l => view l.2)) := by
  unfold recover at h
  split at h
  · rename_i hc
    refine ⟨hc, ?_⟩
    cases h; rfl
  · cases h

theorem recover_view_congr {v1 v2 : File → List Nat} {txs : List Tx} {fs : Fs}
    (hs : ∀ nm f, find fs.sst nm = some f → v1 f = v2 f) (hl : ∀ l ∈ fs.logs, v1 l.2 = v2 l.2) :
    recover v1 txs fs = recover v2 txs fs := by
  unfold recover
  have hm : fs.logs.map (fun l => v1 l.2) = fs.logs.map (fun l => v2 l.2) :=
    List.map_congr_left (fun l hl' => hl l hl')
  have hiff : (∀ nm ∈ live txs, (find fs.sst nm).map v1 = some nm)
      ↔ (∀ nm ∈ live txs, (find fs.sst nm).map v2 = some nm) := by
    constructor
    · intro h nm hnm
      have := h nm hnm
      cases hf : find fs.sst nm with
      | none => rw [hf] at this; cases this
      | some f => rw [hf] at this; simp only [Option.map_some] at this ⊢; rw [← hs nm f hf]; exact this
    · intro h nm hnm
      have := h nm hnm
      cases hf : find fs.sst nm with
      | none => rw [hf] at this; cases this
      | some f => rw [hf] at this; simp only [Option.map_some] at this ⊢; rw [hs nm f hf]; exact this
  by_cases hc : ∀ nm ∈ live txs, (find fs.sst nm).map v2 = some nm
  · rw [if_pos hc, if_pos (hiff.mpr hc), hm]
  · rw [if_neg hc, if_neg (fun h => hc (hiff.mp h))]

/-- a directory as a new process finds it, reopening to the batches `0 … k-1` -/
structure Img (fs : Fs) (k : Nat) : Prop where
  wf : Wf fs
  mp : fs.maniPending = []
  logs : ∀ l ∈ fs.logs, l.2.durable = l.2.data
  reco : ∃ l, recoverA fs = some l ∧ l.Perm (List.range k)

/-- every crash point so far reopens to the batches `0 … k-1`, under both models -/
def RecOk (fs : Fs) (k : Nat) : Prop :=
  ∃ lB lA, recoverB fs = some lB ∧ lB.Perm (List.range k) ∧ recoverA fs = some lA ∧ lA.Perm (List.range k)

theorem Img.recA_eq {fs : Fs} {k : Nat} (h : Img fs k) :
    recoverA fs = recover (·.data) fs.maniDurable fs := by
  unfold recoverA; rw [h.mp, List.append_nil]

theorem Img.recB_eq {fs : Fs} {k : Nat} (h : Img fs k) : recoverB fs = recoverA fs := by
  rw [h.recA_eq]
  unfold recoverB
  apply recover_view_congr
  · intro nm f hf
    rw [h.wf.sst nm f hf]
  · intro l hl
    exact h.logs l hl

theorem Img.list {fs : Fs} {k : Nat} (h : Img fs k) :
    recoverA fs = some ((live fs.maniDurable).flatten
      ++ logPart (live fs.maniDurable) (fs.logs.map (fun l => l.2.data)))
    ∧ ((live fs.maniDurable).flatten
      ++ logPart (live fs.maniDurable) (fs.logs.map (fun l => l.2.data))).Perm (List.range k)
    ∧ ∀ nm ∈ live fs.maniDurable, find fs.sst nm = some ⟨nm, nm⟩ := by
  obtain ⟨l, hl, hp⟩ := h.reco
  have hl' := hl
  rw [h.recA_eq] at hl
  obtain ⟨hc, he⟩ := recover_inv hl
  refine ⟨by rw [hl', he], he ▸ hp, ?_⟩
  intro nm hnm
  have := hc nm hnm
  cases hf : find fs.sst nm with
  | none => rw [hf] at this; cases this
  | some f => rw [h.wf.sst nm f hf]

theorem Img.recOk {fs : Fs} {k : Nat} (h : Img fs k) : RecOk fs k := by
  obtain ⟨h1, h2, _⟩ := h.list
  exact ⟨_, _, by rw [h.recB_eq]; exact h1, h2, h1, h2⟩

/-! ### `tx_block` from any directory whose manifest has nothing pending -/

theorem tx_block_gen {fs : Fs} (hmp : fs.maniPending = []) (pre post : List Op) (tx : Tx) (R : List Nat)
    (hpre : ∀ op ∈ pre, FrameOp (live fs.maniDurable) op)
    (hwhole : ∀ nm ∈ applyTx (live fs.maniDurable) tx, find (run fs pre).sst nm = some ⟨nm, nm⟩)
    (hlogs : ∀ l ∈ (run fs pre).logs, l.2.data = l.2.durable)
    (hR : (applyTx (live fs.maniDurable) tx).flatten
        ++ logPart (applyTx (live fs.maniDurable) tx) ((run fs pre).logs.map (fun l => l.2.durable)) = R)
    (hpost : ∀ op ∈ post, FrameOp (applyTx (live fs.maniDurable) tx) op) (n : Nat) :
    let fsn := run fs ((pre ++ [Op.maniAppend tx, Op.maniSync] ++ post).take n)
    (recoverB fsn = recoverB fs ∨ recoverB fsn = some R)
    ∧ (recoverA fsn = recoverA fs ∨ recoverA fsn = some R) := by
  intro fsn
  have hpreB : ∀ op ∈ pre, FrameOp (live fs.maniDurable) op := hpre
  have hpreA : ∀ op ∈ pre, FrameOp (live (fs.maniDurable ++ fs.maniPending)) op := by
    rw [hmp, List.append_nil]; exact hpre
  obtain ⟨_, hd1, hp1⟩ := frame_run (view := (·.durable)) rfl (txs := fs.maniDurable) pre fs hpreB
  rw [hmp] at hp1
  have hlogsEq : (run fs pre).logs.map (fun l => l.2.data) = (run fs pre).logs.map (fun l => l.2.durable) :=
    List.map_congr_left (fun l hl => hlogs l hl)
  have hlive' : live (fs.maniDurable ++ [tx]) = applyTx (live fs.maniDurable) tx := by rw [live_append]
  rcases Nat.lt_or_ge n (pre.length + 1) with hn | hn
  · have htake : (pre ++ [Op.maniAppend tx, Op.maniSync] ++ post).take n = pre.take n := by
      rw [List.append_assoc, List.take_append_of_le_length (by omega)]
    have e : fsn = run fs (pre.take n) := by simp only [fsn, htake]
    rw [e]
    constructor
    · left; exact frameB (fun op ho => hpreB op (mem_take ho))
    · left; exact frameA (fun op ho => hpreA op (mem_take ho))
  · rcases Nat.lt_or_ge n (pre.length + 2) with hn2 | hn2
    · have hn1 : n = pre.length + 1 := by omega
      have htake : (pre ++ [Op.maniAppend tx, Op.maniSync] ++ post).take n = pre ++ [Op.maniAppend tx] := by
        rw [List.append_assoc, List.take_append, List.take_of_length_le (by omega)]
        have : n - pre.length = 1 := by omega
        rw [this]; rfl
      have e : fsn = step (run fs pre) (Op.maniAppend tx) := by
        simp only [fsn, htake, run_append]; rfl
      rw [e]
      constructor
      · left
        have : recoverB (step (run fs pre) (Op.maniAppend tx)) = recoverB (run fs pre) := rfl
        rw [this]; exact frameB hpreB
      · right
        have hmd : (step (run fs pre) (Op.maniAppend tx)).maniDurable = fs.maniDurable := hd1
        have hmp' : (step (run fs pre) (Op.maniAppend tx)).maniPending = [tx] := by
          show (run fs pre).maniPending ++ [tx] = [tx]
          rw [hp1]; rfl
        have hl : (step (run fs pre) (Op.maniAppend tx)).logs = (run fs pre).logs := rfl
        have := recover_whole (view := (·.data)) (fun _ => rfl)
          (fs := step (run fs pre) (Op.maniAppend tx)) hlive' hwhole
        unfold recoverA
        rw [hmd, hmp', this, hl, hlogsEq, hR]
    · have htake : (pre ++ [Op.maniAppend tx, Op.maniSync] ++ post).take n
          = pre ++ [Op.maniAppend tx, Op.maniSync] ++ post.take (n - (pre.length + 2)) := by
        rw [List.take_append, List.take_of_length_le (by simp; omega)]
        simp
      let fs2 := step (step (run fs pre) (Op.maniAppend tx)) Op.maniSync
      have e : fsn = run fs2 (post.take (n - (pre.length + 2))) := by
        simp only [fsn, htake, run_append]; rfl
      have h2d : fs2.maniDurable = fs.maniDurable ++ [tx] := by
        simp only [fs2, step]; rw [hd1, hp1, List.nil_append]
      have h2p : fs2.maniPending = [] := rfl
      have hB2 : recoverB fs2 = some R := by
        unfold recoverB
        rw [h2d]
        have := recover_whole (view := (·.durable)) (fun _ => rfl) (fs := fs2) hlive' hwhole
        rw [this]; exact congrArg some hR
      have hA2 : recoverA fs2 = some R := by
        unfold recoverA
        rw [h2d, h2p, List.append_nil]
        have := recover_whole (view := (·.data)) (fun _ => rfl) (fs := fs2) hlive' hwhole
        rw [this]
        have hl2 : fs2.logs = (run fs pre).logs := rfl
        rw [hl2, hlogsEq]; exact congrArg some hR
      rw [e]
      constructor
      · right
        rw [frameB (by rw [h2d, hlive']; exact fun op ho => hpost op (mem_take ho))]; exact hB2
      · right
        rw [frameA (by rw [h2d, h2p, List.append_nil, hlive']; exact fun op ho => hpost op (mem_take ho))]
        exact hA2

/-! ### `recover_one` -/

theorem filter_head {n : Nat} {f : File} {ls : List (Nat × File)}
    (hnd : (((n, f) :: ls).map (·.1)).Nodup) :
    ((n, f) :: ls).filter (fun l => l.1 ≠ n) = ls := by
  rw [List.filter_cons]
  simp only [ne_eq, not_true_eq_false, decide_false, Bool.false_eq_true, if_false]
  rw [List.filter_eq_self]
  intro l hl
  simp only [List.map_cons, List.nodup_cons, List.mem_map] at hnd
  simp only [decide_eq_true_eq]
  intro he; exact hnd.1 ⟨l, hl, he⟩

/-- moving a log to the trash that is empty or already an SST of the manifest changes nothing -/
theorem trash_step {view : File → List Nat} {txs : List Tx} {fs : Fs} {n : Nat} {f : File}
    {ls : List (Nat × File)} (hl : fs.logs = (n, f) :: ls) (hnd : LogsNodup fs)
    (hv : view f = [] ∨ view f ∈ live txs) :
    recover view txs (step fs (Op.logTrash n)) = recover view txs fs := by
  refine recover_congr (fs := fs) (fs' := step fs (Op.logTrash n)) (fun _ _ => rfl) ?_
  show logPart (live txs) ((fs.logs.filter (fun l => l.1 ≠ n)).map (fun l => view l.2)) = _
  have hnd' : (((n, f) :: ls).map (·.1)).Nodup := by rw [← hl]; exact hnd
  rw [hl, filter_head hnd']
  simp only [List.map_cons]
  rcases hv with hv | hv
  · rw [hv, logPart_cons_empty]
  · rw [logPart_cons_in _ hv]

theorem trash_stepB {fs : Fs} {n : Nat} {f : File} {ls : List (Nat × File)}
    (hl : fs.logs = (n, f) :: ls) (hnd : LogsNodup fs)
    (hv : f.durable = [] ∨ f.durable ∈ live fs.maniDurable) :
    recoverB (step fs (Op.logTrash n)) = recoverB fs :=
  trash_step (view := (·.durable)) hl hnd hv

theorem trash_stepA {fs : Fs} {n : Nat} {f : File} {ls : List (Nat × File)}
    (hl : fs.logs = (n, f) :: ls) (hnd : LogsNodup fs)
    (hv : f.data = [] ∨ f.data ∈ live (fs.maniDurable ++ fs.maniPending)) :
    recoverA (step fs (Op.logTrash n)) = recoverA fs :=
  trash_step (view := (·.data)) hl hnd hv

/-- the part of `recover_one` before the manifest: build and sync the temporary, link it unless a
    file of that content is there already -/
def prePart (fs : Fs) (d : List Nat) : List Op :=
  [Op.tmpCreate d d, Op.tmpSync d] ++ (if (find fs.sst d).isSome then [] else [Op.link d])

theorem pre_facts {fs : Fs} (hwf : Wf fs) (d : List Nat) :
    (run fs (prePart fs d)).logs = fs.logs
    ∧ (run fs (prePart fs d)).maniDurable = fs.maniDurable
    ∧ (run fs (prePart fs d)).maniPending = fs.maniPending
    ∧ find (run fs (prePart fs d)).sst d = some ⟨d, d⟩
    ∧ (∀ nm, nm ≠ d → find (run fs (prePart fs d)).sst nm = find fs.sst nm)
    ∧ Guarded fs (prePart fs d) := by
  unfold prePart
  cases hf : find fs.sst d with
  | some f =>
    have hw := hwf.sst d f hf
    subst hw
    simp only [Option.isSome_some, if_true, List.append_nil]
    exact ⟨rfl, rfl, rfl, hf, fun _ _ => rfl, ⟨trivial, trivial, trivial⟩⟩
  | none =>
    simp only [Option.isSome_none, Bool.false_eq_true, if_false, List.cons_append, List.nil_append]
    let fs2 := step (step fs (Op.tmpCreate d d)) (Op.tmpSync d)
    have ht : find fs2.tmp d = some ⟨d, d⟩ := by simp [fs2, step, find]
    have hrun : run fs [Op.tmpCreate d d, Op.tmpSync d, Op.link d]
        = { fs2 with sst := (d, ⟨d, d⟩) :: fs2.sst } := by
      show step fs2 (Op.link d) = _
      simp only [step, ht]
    rw [hrun]
    refine ⟨rfl, rfl, rfl, find_cons_eq, ?_, ?_⟩
    · intro nm hnm
      exact find_cons_ne (Ne.symm hnm)
    · refine ⟨trivial, trivial, ?_, trivial⟩
      intro f hf'
      have : find fs2.tmp d = some f := hf'
      rw [ht] at this
      cases this; rfl

theorem frame_pre {fs : Fs} {L : List Name} {d : List Nat}
    (h : d ∉ L ∨ (find fs.sst d).isSome) : ∀ op ∈ prePart fs d, FrameOp L op := by
  intro op hop
  unfold prePart at hop
  simp only [List.mem_append, List.mem_cons, List.not_mem_nil, or_false] at hop
  rcases hop with (rfl | rfl) | hop
  · trivial
  · trivial
  · split at hop
    · cases hop
    · rename_i hs
      simp only [List.mem_singleton] at hop
      subst hop
      rcases h with h | h
      · exact h
      · exact absurd h hs

theorem logPart_add {L : List Name} {d : List Nat} {ds : List (List Nat)} (h : d ∉ ds) :
    logPart (L ++ [d]) ds = logPart L ds := by
  unfold logPart
  congr 1
  apply List.filter_congr
  intro r hr
  have : r ≠ d := fun he => h (he ▸ hr)
  simp [this]

theorem mem_logPart {L : List Name} {d : List Nat} {ds : List (List Nat)} {x : Nat}
    (hd : d ∈ ds) (hL : d ∉ L) (hx : x ∈ d) : x ∈ logPart L ds := by
  unfold logPart
  rw [List.mem_flatten]
  exact ⟨d, List.mem_filter.mpr ⟨hd, by simp [hL]⟩, hx⟩

theorem quiet_recOne (fs : Fs) (n : Nat) (d : List Nat) : ∀ op ∈ recOne fs n d, Quiet op := by
  intro op hop
  unfold recOne at hop
  split at hop
  · simp only [List.mem_singleton] at hop; subst hop; trivial
  · simp only [List.mem_append, List.mem_cons, List.not_mem_nil, or_false] at hop
    rcases hop with (((rfl | rfl) | hop) | hop) | rfl | rfl
    · trivial
    · trivial
    · split at hop
      · cases hop
      · simp only [List.mem_singleton] at hop; subst hop; trivial
    · split at hop
      · cases hop
      · simp only [List.mem_cons, List.not_mem_nil, or_false] at hop
        rcases hop with rfl | rfl <;> trivial
    · trivial
    · trivial

theorem recOne_block {fs : Fs} {k : Nat} (h : Img fs k) {n : Nat} {f : File} {ls : List (Nat × File)}
    (hl : fs.logs = (n, f) :: ls) :
    (∀ m, recoverB (run fs ((recOne fs n f.data).take m)) = recoverB fs
        ∧ recoverA (run fs ((recOne fs n f.data).take m)) = recoverA fs)
    ∧ Wf (run fs (recOne fs n f.data))
    ∧ (run fs (recOne fs n f.data)).maniPending = []
    ∧ (run fs (recOne fs n f.data)).logs = ls
    ∧ Guarded fs (recOne fs n f.data) := by
  have hfd : f.durable = f.data := h.logs (n, f) (by rw [hl]; exact List.mem_cons_self)
  obtain ⟨hrecA, hperm, hwhole⟩ := h.list
  have hndl : (((n, f) :: ls).map (·.1)).Nodup := by rw [← hl]; exact h.wf.logs
  by_cases hd : f.data = []
  · -- an empty log
    have hops : recOne fs n f.data = [Op.logTrash n] := by simp [recOne, hd]
    rw [hops]
    have hB : recoverB (step fs (Op.logTrash n)) = recoverB fs :=
      trash_stepB hl h.wf.logs (Or.inl (by rw [hfd]; exact hd))
    have hA : recoverA (step fs (Op.logTrash n)) = recoverA fs := trash_stepA hl h.wf.logs (Or.inl hd)
    refine ⟨?_, wf_run _ _ h.wf ⟨trivial, trivial⟩, h.mp, ?_, ⟨trivial, trivial⟩⟩
    · intro m
      rcases m with _ | m
      · exact ⟨rfl, rfl⟩
      · rw [List.take_succ_cons, List.take_nil]
        exact ⟨hB, hA⟩
    · show fs.logs.filter (fun l => l.1 ≠ n) = ls
      rw [hl]; exact filter_head hndl
  · by_cases hin : f.data ∈ live fs.maniDurable
    · -- the manifest lists the log's SST already
      have hsome : (find fs.sst f.data).isSome := by rw [hwhole _ hin]; rfl
      have hops : recOne fs n f.data
          = [Op.tmpCreate f.data f.data, Op.tmpSync f.data, Op.tmpUnlink f.data] ++ [Op.logTrash n] := by
        simp [recOne, hd, hsome, h.mp, hin]
      rw [hops]
      have hframeB : ∀ op ∈ [Op.tmpCreate f.data f.data, Op.tmpSync f.data, Op.tmpUnlink f.data],
          FrameOp (live fs.maniDurable) op := by
        intro op hop
        simp only [List.mem_cons, List.not_mem_nil, or_false] at hop
        rcases hop with rfl | rfl | rfl <;> trivial
      have hframeA : ∀ op ∈ [Op.tmpCreate f.data f.data, Op.tmpSync f.data, Op.tmpUnlink f.data],
          FrameOp (live (fs.maniDurable ++ fs.maniPending)) op := by
        rw [h.mp, List.append_nil]; exact hframeB
      let fs3 := run fs [Op.tmpCreate f.data f.data, Op.tmpSync f.data, Op.tmpUnlink f.data]
      have h3l : fs3.logs = (n, f) :: ls := hl
      have h3wf : Wf fs3 := wf_run _ _ h.wf ⟨trivial, trivial, trivial, trivial⟩
      have hB : recoverB (step fs3 (Op.logTrash n)) = recoverB fs := by
        rw [trash_stepB h3l h3wf.logs (Or.inr (by rw [hfd]; exact hin))]
        exact frameB hframeB
      have hA : recoverA (step fs3 (Op.logTrash n)) = recoverA fs := by
        rw [trash_stepA h3l h3wf.logs (Or.inr (by
          show f.data ∈ live (fs.maniDurable ++ fs.maniPending)
          rw [h.mp, List.append_nil]; exact hin))]
        exact frameA hframeA
      refine ⟨?_, ?_, h.mp, ?_, ⟨trivial, trivial, trivial, trivial, trivial⟩⟩
      · intro m
        rcases Nat.lt_or_ge m 4 with hm | hm
        · rw [List.take_append_of_le_length (by simp; omega)]
          exact ⟨frameB (fun op ho => hframeB op (mem_take ho)),
                 frameA (fun op ho => hframeA op (mem_take ho))⟩
        · rw [List.take_of_length_le (by simp; omega), run_append]
          exact ⟨hB, hA⟩
      · rw [run_append]; exact wf_step (op := Op.logTrash n) h3wf trivial
      · rw [run_append]
        show fs3.logs.filter (fun l => l.1 ≠ n) = ls
        rw [h3l]; exact filter_head hndl
    · -- the log becomes an SST of the manifest
      let d := f.data
      let L := live fs.maniDurable
      let tx : Tx := ⟨[d], []⟩
      have hops : recOne fs n f.data
          = (prePart fs d ++ [Op.maniAppend tx, Op.maniSync] ++ [Op.tmpUnlink d]) ++ [Op.logTrash n] := by
        simp [recOne, hd, h.mp, hin, prePart, d, tx]
      obtain ⟨p1, p2, p3, p4, p5, p6⟩ := pre_facts h.wf d
      -- no other log holds the same batches
      have hrest : d ∉ ls.map (fun l => l.2.data) := by
        intro hmem
        have hnd : ((live fs.maniDurable).flatten
            ++ logPart (live fs.maniDurable) (fs.logs.map (fun l => l.2.data))).Nodup :=
          hperm.nodup_iff.mpr List.nodup_range
        rw [hl, List.map_cons, logPart_cons_notin _ hin, List.nodup_append] at hnd
        have hnd2 := hnd.2.1
        rw [List.nodup_append] at hnd2
        obtain ⟨x, hx⟩ := List.exists_mem_of_ne_nil d hd
        exact hnd2.2.2 x hx x (mem_logPart hmem hin hx) rfl
      have hLd : applyTx L tx = L ++ [d] := applyTx_add L [d]
      have hwholeX : ∀ nm ∈ applyTx L tx, find (run fs (prePart fs d)).sst nm = some ⟨nm, nm⟩ := by
        intro nm hnm
        rw [hLd, List.mem_append] at hnm
        rcases hnm with hnm | hnm
        · rw [p5 nm (by intro he; subst he; exact hin hnm)]; exact hwhole nm hnm
        · simp only [List.mem_singleton] at hnm; subst hnm; exact p4
      have hR : (applyTx L tx).flatten
          ++ logPart (applyTx L tx) ((run fs (prePart fs d)).logs.map (fun l => l.2.durable))
          = L.flatten ++ logPart L (fs.logs.map (fun l => l.2.data)) := by
        have hmapeq : fs.logs.map (fun l => l.2.durable) = fs.logs.map (fun l => l.2.data) :=
          List.map_congr_left (fun l hl' => h.logs l hl')
        rw [p1, hmapeq, hLd, hl, List.map_cons, logPart_cons_in _ (by simp : d ∈ L ++ [d]),
          logPart_cons_notin _ hin, logPart_add hrest, List.flatten_append]
        simp
        rfl
      have key := tx_block_gen h.mp (prePart fs d) [Op.tmpUnlink d] tx _
        (frame_pre (Or.inl hin)) hwholeX
        (by rw [p1]; intro l hl'; exact (h.logs l hl').symm) hR
        (by intro op hop; simp only [List.mem_singleton] at hop; subst hop; trivial)
      have hrecB : recoverB fs = some (L.flatten ++ logPart L (fs.logs.map (fun l => l.2.data))) := by
        rw [h.recB_eq]; exact hrecA
      have keyB : ∀ m, recoverB (run fs ((prePart fs d ++ [Op.maniAppend tx, Op.maniSync]
          ++ [Op.tmpUnlink d]).take m)) = recoverB fs := by
        intro m
        rcases (key m).1 with e | e
        · exact e
        · rw [e, hrecB]
      have keyA : ∀ m, recoverA (run fs ((prePart fs d ++ [Op.maniAppend tx, Op.maniSync]
          ++ [Op.tmpUnlink d]).take m)) = recoverA fs := by
        intro m
        rcases (key m).2 with e | e
        · exact e
        · rw [e, hrecA]
      -- the state before the log goes to the trash
      let X := prePart fs d ++ [Op.maniAppend tx, Op.maniSync] ++ [Op.tmpUnlink d]
      have hXrun : run fs X = step (step (step (run fs (prePart fs d)) (Op.maniAppend tx)) Op.maniSync)
          (Op.tmpUnlink d) := by
        simp only [X, run_append]; rfl
      have hXl : (run fs X).logs = (n, f) :: ls := by rw [hXrun]; show (run fs (prePart fs d)).logs = _; rw [p1, hl]
      have hXd : (run fs X).maniDurable = fs.maniDurable ++ [tx] := by
        rw [hXrun]
        show (run fs (prePart fs d)).maniDurable ++ ((run fs (prePart fs d)).maniPending ++ [tx]) = _
        rw [p2, p3, h.mp]; rfl
      have hXp : (run fs X).maniPending = [] := by rw [hXrun]; rfl
      have hXg : Guarded fs X := by
        simp only [X]
        rw [guarded_append, guarded_append]
        exact ⟨⟨p6, trivial, trivial, trivial⟩, trivial, trivial⟩
      have hXwf : Wf (run fs X) := wf_run _ _ h.wf hXg
      have hdin : d ∈ live (fs.maniDurable ++ [tx]) := by
        rw [live_append]; show d ∈ applyTx L tx; rw [hLd]; simp
      have hXfull := keyB X.length
      have hXfullA := keyA X.length
      rw [List.take_length] at hXfull hXfullA
      have hB : recoverB (step (run fs X) (Op.logTrash n)) = recoverB fs := by
        rw [trash_stepB hXl hXwf.logs (Or.inr (by rw [hXd, hfd]; exact hdin))]
        exact hXfull
      have hA : recoverA (step (run fs X) (Op.logTrash n)) = recoverA fs := by
        rw [trash_stepA hXl hXwf.logs (Or.inr (by rw [hXd, hXp, List.append_nil]; exact hdin))]
        exact hXfullA
      rw [hops]
      refine ⟨?_, ?_, ?_, ?_, ?_⟩
      · intro m
        rcases Nat.lt_or_ge m (X.length + 1) with hm | hm
        · rw [List.take_append_of_le_length (by simp only [X] at hm ⊢; omega)]
          exact ⟨keyB m, keyA m⟩
        · rw [List.take_of_length_le (by simp only [X, List.length_append] at hm ⊢; simp; omega), run_append]
          exact ⟨hB, hA⟩
      · rw [run_append]; exact wf_step (op := Op.logTrash n) hXwf trivial
      · rw [run_append]; exact hXp
      · rw [run_append]
        show (run fs X).logs.filter (fun l => l.1 ≠ n) = ls
        rw [hXl]; exact filter_head hndl
      · rw [guarded_append]; exact ⟨hXg, trivial, trivial⟩

/-! ### `recover`: all logs -/

theorem Img.of_eq {fs fs' : Fs} {k : Nat} (h : Img fs k) (hwf : Wf fs') (hmp : fs'.maniPending = [])
    (hlogs : ∀ l ∈ fs'.logs, l ∈ fs.logs) (hrec : recoverA fs' = recoverA fs) : Img fs' k :=
  ⟨hwf, hmp, fun l hl => h.logs l (hlogs l hl), by rw [hrec]; exact h.reco⟩

theorem recLogs_block : ∀ (ls : List (Nat × File)) (fs : Fs) (k : Nat), Img fs k → fs.logs = ls →
    (∀ m, recoverB (run fs ((recLogs ls fs).take m)) = recoverB fs
        ∧ recoverA (run fs ((recLogs ls fs).take m)) = recoverA fs)
    ∧ Wf (run fs (recLogs ls fs))
    ∧ (run fs (recLogs ls fs)).maniPending = []
    ∧ (run fs (recLogs ls fs)).logs = []
    ∧ Guarded fs (recLogs ls fs)
    ∧ (∀ op ∈ recLogs ls fs, Quiet op)
  | [], fs, k, h, hl => by
    have e : ∀ m, (recLogs [] fs).take m = [] := fun m => List.take_nil
    exact ⟨fun m => by rw [e m]; exact ⟨rfl, rfl⟩, h.wf, h.mp, hl, trivial, fun _ ho => by cases ho⟩
  | (n, f) :: ls, fs, k, h, hl => by
    obtain ⟨r1, r2, r3, r4, r5⟩ := recOne_block h hl
    have hfull := r1 (recOne fs n f.data).length
    rw [List.take_length] at hfull
    have himg1 : Img (run fs (recOne fs n f.data)) k :=
      h.of_eq r2 r3 (by intro l hl'; rw [r4] at hl'; rw [hl]; exact List.mem_cons_of_mem _ hl') hfull.2
    obtain ⟨i1, i2, i3, i4, i5, i6⟩ := recLogs_block ls (run fs (recOne fs n f.data)) k himg1 r4
    show (∀ m, recoverB (run fs ((recOne fs n f.data ++ recLogs ls (run fs (recOne fs n f.data))).take m)) = _
        ∧ recoverA (run fs ((recOne fs n f.data ++ recLogs ls (run fs (recOne fs n f.data))).take m)) = _)
      ∧ Wf (run fs (recOne fs n f.data ++ recLogs ls (run fs (recOne fs n f.data))))
      ∧ (run fs (recOne fs n f.data ++ recLogs ls (run fs (recOne fs n f.data)))).maniPending = []
      ∧ (run fs (recOne fs n f.data ++ recLogs ls (run fs (recOne fs n f.data)))).logs = []
      ∧ Guarded fs (recOne fs n f.data ++ recLogs ls (run fs (recOne fs n f.data)))
      ∧ (∀ op ∈ recOne fs n f.data ++ recLogs ls (run fs (recOne fs n f.data)), Quiet op)
    refine ⟨?_, ?_, ?_, ?_, ?_, ?_⟩
    · intro m
      rcases Nat.lt_or_ge m (recOne fs n f.data).length with hm | hm
      · rw [List.take_append_of_le_length (by omega)]
        exact r1 m
      · rw [List.take_append, List.take_of_length_le hm, run_append]
        obtain ⟨a, b⟩ := i1 (m - (recOne fs n f.data).length)
        exact ⟨a.trans hfull.1, b.trans hfull.2⟩
    · rw [run_append]; exact i2
    · rw [run_append]; exact i3
    · rw [run_append]; exact i4
    · rw [guarded_append]; exact ⟨r5, i5⟩
    · intro op hop
      rw [List.mem_append] at hop
      rcases hop with hop | hop
      · exact quiet_recOne fs n f.data op hop
      · exact i6 op hop

/-! ### `KeyValueStore::open` on a crash image -/

theorem mem_orphans {fs : Fs} {x : Name} (h : x ∈ orphans fs) :
    x ∉ live (fs.maniDurable ++ fs.maniPending) := by
  unfold orphans at h
  have := (List.mem_filter.mp h).2
  simp only [Bool.and_eq_true, decide_eq_true_eq] at this
  exact this.1

/-- **recovery is crash safe**: every prefix of what `open` does to a crash image leaves a
    directory that reopens (both persistence models) to exactly what the image reopened to; the
    whole of it establishes the block-boundary invariant of `StoreCrash` for the client state
    `kvAfter`, whose next sequence number is the number of recovered batches -/
theorem recover_block {fs : Fs} {k : Nat} (h : Img fs k) :
    (∀ m, recoverB (run fs ((recoverOps fs).take m)) = recoverB fs
        ∧ recoverA (run fs ((recoverOps fs).take m)) = recoverA fs)
    ∧ Inv (run fs (recoverOps fs)) (kvAfter fs)
    ∧ (kvAfter fs).next = k
    ∧ Guarded fs (recoverOps fs)
    ∧ (∀ op ∈ recoverOps fs, Quiet op) := by
  obtain ⟨i1, i2, i3, i4, i5, i6⟩ := recLogs_block fs.logs fs k h rfl
  let A := recLogs fs.logs fs
  let fs1 := run fs A
  let O := (orphans fs1).map Op.sstTrash
  let T := O ++ [Op.logCreate (nextLog fs)]
  have hops : recoverOps fs = A ++ T := by
    simp only [recoverOps, A, T, O, fs1, List.append_assoc]
  have hfull := i1 A.length
  rw [List.take_length] at hfull
  have himg1 : Img fs1 k := h.of_eq i2 i3 (by intro l hl; rw [i4] at hl; cases hl) hfull.2
  obtain ⟨_, hperm1, hwhole1⟩ := himg1.list
  have hTframe : ∀ op ∈ T, FrameOp (live fs1.maniDurable) op := by
    intro op hop
    simp only [T, O, List.mem_append, List.mem_map, List.mem_singleton] at hop
    rcases hop with ⟨x, hx, rfl⟩ | rfl
    · have := mem_orphans hx
      rw [i3, List.append_nil] at this
      exact this
    · trivial
  have hTframeA : ∀ op ∈ T, FrameOp (live (fs1.maniDurable ++ fs1.maniPending)) op := by
    rw [i3, List.append_nil]; exact hTframe
  -- the state at the end
  obtain ⟨q1, q2, q3, q4⟩ := post_phase (orphans fs1) O fs1
    (by intro op hop; simp only [O, List.mem_map] at hop; obtain ⟨x, hx, rfl⟩ := hop; exact hx)
  have hrun : run fs (recoverOps fs) = step (run fs1 O) (Op.logCreate (nextLog fs)) := by
    rw [hops, run_append]
    show run fs1 (O ++ [Op.logCreate (nextLog fs)]) = _
    rw [run_append]; rfl
  have hmdEnd : (run fs (recoverOps fs)).maniDurable = fs1.maniDurable := by rw [hrun]; exact q2
  have hkv : kvAfter fs = ⟨nextLog fs, [], (live fs1.maniDurable).flatten.length, live fs1.maniDurable⟩ := by
    simp only [kvAfter, hmdEnd]
  have hlen : (live fs1.maniDurable).flatten.length = k := by
    rw [i4] at hperm1
    simp only [List.map_nil, logPart_nil, List.append_nil] at hperm1
    rw [hperm1.length_eq, List.length_range]
  refine ⟨?_, ?_, ?_, ?_, ?_⟩
  · intro m
    rw [hops]
    rcases Nat.lt_or_ge m A.length with hm | hm
    · rw [List.take_append_of_le_length (by omega)]
      exact i1 m
    · rw [List.take_append, List.take_of_length_le hm, run_append]
      exact ⟨(frameB (fun op ho => hTframe op (mem_take ho))).trans hfull.1,
             (frameA (fun op ho => hTframeA op (mem_take ho))).trans hfull.2⟩
  · rw [hkv, hrun]
    refine ⟨?_, ?_, ?_, ?_, ?_⟩
    · intro c hc
      show find (run fs1 O).sst c = _
      rw [q4 c (by
        intro hco
        have := mem_orphans hco
        rw [i3, List.append_nil] at this
        exact this hc)]
      exact hwhole1 c hc
    · show live (run fs1 O).maniDurable = _
      rw [q2]
    · show (run fs1 O).maniPending = []
      rw [q3]; exact i3
    · show (run fs1 O).logs ++ [(nextLog fs, (⟨[], []⟩ : File))] = _
      rw [q1, i4]; rfl
    · show ((live fs1.maniDurable).flatten ++ []).Perm (List.range (live fs1.maniDurable).flatten.length)
      rw [hlen]
      rw [i4] at hperm1
      simp only [List.map_nil, logPart_nil, List.append_nil] at hperm1
      simpa using hperm1
  · rw [hkv]; exact hlen
  · rw [hops, guarded_append]
    refine ⟨i5, ?_⟩
    show Guarded fs1 (O ++ [Op.logCreate (nextLog fs)])
    rw [guarded_append]
    refine ⟨guarded_plain _ _ (by
      intro op hop
      simp only [O, List.mem_map] at hop
      obtain ⟨x, _, rfl⟩ := hop; trivial), ?_, trivial⟩
    show nextLog fs ∉ (run fs1 O).logs.map (·.1)
    rw [q1, i4]; simp
  · intro op hop
    rw [hops, List.mem_append] at hop
    rcases hop with hop | hop
    · exact i6 op hop
    · simp only [T, O, List.mem_append, List.mem_map, List.mem_singleton] at hop
      rcases hop with ⟨x, _, rfl⟩ | rfl <;> trivial

/-! ### one incarnation, cut anywhere -/

theorem epoch_ok {fs : Fs} {k : Nat} (h : Img fs k) (hist : List Client) (n : Nat) :
    Ok (recoverB (run fs ((recoverOps fs ++ opsOf hist (kvAfter fs)).take n)))
      (k + acked ((recoverOps fs ++ opsOf hist (kvAfter fs)).take n))
      (k + appended ((recoverOps fs ++ opsOf hist (kvAfter fs)).take n))
    ∧ Ok (recoverA (run fs ((recoverOps fs ++ opsOf hist (kvAfter fs)).take n)))
      (k + acked ((recoverOps fs ++ opsOf hist (kvAfter fs)).take n))
      (k + appended ((recoverOps fs ++ opsOf hist (kvAfter fs)).take n))
    ∧ Wf (run fs ((recoverOps fs ++ opsOf hist (kvAfter fs)).take n)) := by
  obtain ⟨r1, r2, r3, r4, r5⟩ := recover_block h
  obtain ⟨lB, lA, hB, pB, hA, pA⟩ := h.recOk
  have hwf : Wf (run fs ((recoverOps fs ++ opsOf hist (kvAfter fs)).take n)) :=
    wf_run _ _ h.wf (guarded_take _ _ _ ((guarded_append _ _ _).mpr ⟨r4, guarded_opsOf hist _ _ r2⟩))
  refine ⟨?_, ?_, hwf⟩
  all_goals
    rcases Nat.lt_or_ge n (recoverOps fs).length with hn | hn
    · rw [List.take_append_of_le_length (by omega)]
      obtain ⟨c1, c2⟩ := counts_quiet (fun op ho => r5 op (mem_take ho) :
        ∀ op ∈ (recoverOps fs).take n, Quiet op)
      rw [c1, c2]
      first
        | exact ⟨lB, k, (r1 n).1.trans hB, pB, by omega, by omega⟩
        | exact ⟨lA, k, (r1 n).2.trans hA, pA, by omega, by omega⟩
    · rw [List.take_append, List.take_of_length_le hn, run_append, acked_append, appended_append]
      obtain ⟨c1, c2⟩ := counts_quiet r5
      rw [c1, c2]
      obtain ⟨⟨l1, k1, a1, a2, a3, a4⟩, ⟨l2, k2, b1, b2, b3, b4⟩⟩ :=
        crash_recover hist (run fs (recoverOps fs)) (kvAfter fs) r2 (n - (recoverOps fs).length)
      rw [r3] at a3 a4 b3 b4
      first
        | exact ⟨l1, k1, a1, a2, by omega, by omega⟩
        | exact ⟨l2, k2, b1, b2, by omega, by omega⟩

/-! ### the directory the next process finds -/

theorem find_map_snd (g : File → File) : ∀ (t : List (Name × File)) (nm : Name),
    find (t.map (fun e => (e.1, g e.2))) nm = (find t nm).map g
  | [], _ => rfl
  | (k, f) :: t, nm => by
    simp only [List.map_cons, find]
    split
    · rfl
    · exact find_map_snd g t nm

/-- what persistence model `b` shows of a file -/
def viewOf (b : Bool) : File → List Nat := fun f => if b then f.durable else f.data

theorem settle_data (b : Bool) (f : File) : (settle b f).data = viewOf b f := by
  cases b <;> rfl

theorem settle_durable (b : Bool) (f : File) : (settle b f).durable = viewOf b f := by
  cases b <;> rfl

theorem recover_image (b : Bool) (txs : List Tx) (fs : Fs) :
    recover (·.data) txs (image b fs) = recover (viewOf b) txs fs := by
  unfold recover
  have hl : (image b fs).logs.map (fun l => l.2.data) = fs.logs.map (fun l => viewOf b l.2) := by
    show (fs.logs.map (fun l => (l.1, settle b l.2))).map (fun l => l.2.data) = _
    rw [List.map_map]
    apply List.map_congr_left
    intro l _
    exact settle_data b l.2
  have hs : ∀ nm, (find (image b fs).sst nm).map (·.data) = (find fs.sst nm).map (viewOf b) := by
    intro nm
    show (find (fs.sst.map (fun e => (e.1, settle b e.2))) nm).map (·.data) = _
    rw [find_map_snd, Option.map_map]
    congr 1
    funext f
    exact settle_data b f
  simp only [hl, hs]

theorem recoverA_image (b : Bool) (fs : Fs) :
    recoverA (image b fs) = if b then recoverB fs else recoverA fs := by
  unfold recoverA
  show recover (·.data) ((image b fs).maniDurable ++ []) (image b fs) = _
  rw [List.append_nil, recover_image]
  cases b
  · rfl
  · rfl

theorem wf_image (b : Bool) {fs : Fs} (h : Wf fs) : Wf (image b fs) := by
  refine ⟨?_, ?_⟩
  · intro nm f hf
    have hf' : find (fs.sst.map (fun e => (e.1, settle b e.2))) nm = some f := hf
    rw [find_map_snd] at hf'
    cases hg : find fs.sst nm with
    | none => rw [hg] at hf'; cases hf'
    | some g =>
      rw [hg] at hf'
      simp only [Option.map_some] at hf'
      cases hf'
      rw [h.sst nm g hg]
      cases b <;> rfl
  · show ((fs.logs.map (fun l => (l.1, settle b l.2))).map (·.1)).Nodup
    rw [List.map_map]
    exact h.logs

theorem img_image {fs : Fs} {lo hi : Nat} (b : Bool) (hwf : Wf fs)
    (hB : Ok (recoverB fs) lo hi) (hA : Ok (recoverA fs) lo hi) :
    ∃ k, lo ≤ k ∧ k ≤ hi ∧ Img (image b fs) k := by
  have hlogs : ∀ l ∈ (image b fs).logs, l.2.durable = l.2.data := by
    intro l hl
    have hl' : l ∈ fs.logs.map (fun l => (l.1, settle b l.2)) := hl
    rw [List.mem_map] at hl'
    obtain ⟨l0, _, rfl⟩ := hl'
    rw [settle_durable, settle_data]
  cases b with
  | true =>
    obtain ⟨l, k, h1, h2, h3, h4⟩ := hB
    exact ⟨k, h3, h4, wf_image true hwf, rfl, hlogs, l, by rw [recoverA_image]; exact h1, h2⟩
  | false =>
    obtain ⟨l, k, h1, h2, h3, h4⟩ := hA
    exact ⟨k, h3, h4, wf_image false hwf, rfl, hlogs, l, by rw [recoverA_image]; exact h1, h2⟩

/-! ### any number of incarnations -/

/-- **C02, incarnation after incarnation**: each incarnation runs `open` on whatever directory the
    previous one left, then any history, and is cut at any point of its system-call sequence —
    inside the recovery too — by a crash under either persistence model (or by a failed call, which
    leaves the same directory).  What the last directory reopens to is a permutation of the batches
    `0 … k'-1` where `k'` lies between what the client was acknowledged and what was appended. -/
theorem epochs_ok : ∀ (es : List Epoch) (fs : Fs) (k : Nat), Img fs k →
    ∃ k', Img (runEpochs fs es) k' ∧ k + ackedEpochs fs es ≤ k' ∧ k' ≤ k + appendedEpochs fs es
  | [], fs, k, h => ⟨k, h, by simp [ackedEpochs], by simp [appendedEpochs]⟩
  | e :: es, fs, k, h => by
    have hB : Ok (recoverB (run fs (epochOps fs e))) (k + acked (epochOps fs e))
        (k + appended (epochOps fs e)) := (epoch_ok h e.h e.n).1
    have hA : Ok (recoverA (run fs (epochOps fs e))) (k + acked (epochOps fs e))
        (k + appended (epochOps fs e)) := (epoch_ok h e.h e.n).2.1
    have hwf : Wf (run fs (epochOps fs e)) := (epoch_ok h e.h e.n).2.2
    obtain ⟨k1, g1, g2, himg⟩ := img_image e.b hwf hB hA
    obtain ⟨k', i1, i2, i3⟩ := epochs_ok es _ k1 himg
    refine ⟨k', i1, ?_, ?_⟩
    · show k + (acked (epochOps fs e) + ackedEpochs (image e.b (run fs (epochOps fs e))) es) ≤ k'
      omega
    · show k' ≤ k + (appended (epochOps fs e) + appendedEpochs (image e.b (run fs (epochOps fs e))) es)
      omega

theorem img0 : Img fs0 0 where
  wf := { sst := by intro nm f hf; cases hf
          logs := by show ([(0, (⟨[], []⟩ : File))].map (·.1)).Nodup; simp }
  mp := rfl
  logs := by intro l hl; simp only [fs0, List.mem_singleton] at hl; subst hl; rfl
  reco := ⟨[], by decide, List.Perm.refl _⟩

/-! ### a failed system call is a cut -/

theorem take_succ_get {ops : List Op} {i : Nat} {op : Op} (h : ops[i]? = some op) :
    ops.take (i + 1) = ops.take i ++ [op] := by
  rw [List.take_succ, h]; rfl

theorem faultOps_cut {ops : List Op} {i : Nat} {op : Op} (h : ops[i]? = some op)
    (hs : absorbed op = false) (e : Bool) :
    faultOps ops i e = ops.take (if e then i + 1 else i) := by
  unfold faultOps
  rw [h]
  simp only [hs, Bool.false_eq_true, if_false]
  cases e
  · simp
  · simp only [if_true]; rw [take_succ_get h]

theorem acked_call {op : Op} (hc : isCall op = true) : acked [op] = 0 := by
  cases op <;> first | rfl | (simp [isCall] at hc)

theorem faultAcked_cut {ops : List Op} {i : Nat} {op : Op} (h : ops[i]? = some op)
    (hc : isCall op = true) (hs : absorbed op = false) (e : Bool) :
    faultAcked ops i = acked (ops.take (if e then i + 1 else i)) := by
  unfold faultAcked
  rw [h]
  simp only [hs, Bool.false_eq_true, if_false]
  cases e
  · rfl
  · simp only [if_true]; rw [take_succ_get h, acked_append, acked_call hc]; rfl

theorem appended_cut_le {ops : List Op} {i : Nat} {op : Op} (h : ops[i]? = some op) (e : Bool) :
    appended (ops.take (if e then i + 1 else i)) ≤ appended (ops.take (i + 1)) := by
  cases e
  · simp only [Bool.false_eq_true, if_false]; rw [take_succ_get h, appended_append]; omega
  · simp

/-- **C02** `fault_surfaces` (first incarnation): whatever history, whichever of its system calls
    fails (`op`, number `i`; every call but the renames into trash/ whose failure the code ignores),
    with or without the failed call having taken effect: the client gets the error
    (`surfaced`), it has been acknowledged exactly the writes acknowledged before the failed call
    (`faultAcked`: the write in progress is NOT acknowledged), and the directory that is left
    reopens — after the process exits (model a) and also after a power loss on top of it
    (model b) — to a permutation of the batches `0 … k-1`, `acknowledged ≤ k ≤ appended`. -/
theorem fault_surfaces (h : List Client) (i : Nat) (e : Bool) (op : Op)
    (hi : (opsOf h kv0)[i]? = some op) (hc : isCall op = true) (hs : absorbed op = false) :
    surfaced (opsOf h kv0) i = true
    ∧ faultAcked (opsOf h kv0) i = acked ((opsOf h kv0).take i)
    ∧ Ok (recoverB (run fs0 (faultOps (opsOf h kv0) i e))) (faultAcked (opsOf h kv0) i)
        (appended ((opsOf h kv0).take (i + 1)))
    ∧ Ok (recoverA (run fs0 (faultOps (opsOf h kv0) i e))) (faultAcked (opsOf h kv0) i)
        (appended ((opsOf h kv0).take (i + 1))) := by
  refine ⟨by simp [surfaced, hi, hs], faultAcked_cut hi hc hs false, ?_, ?_⟩
  all_goals
    rw [faultOps_cut hi hs e, faultAcked_cut hi hc hs e]
    obtain ⟨⟨l1, k1, a1, a2, a3, a4⟩, ⟨l2, k2, b1, b2, b3, b4⟩⟩ :=
      crash_recover_init h (if e then i + 1 else i)
    have := appended_cut_le hi e
    first
      | exact ⟨l1, k1, a1, a2, a3, by omega⟩
      | exact ⟨l2, k2, b1, b2, b3, by omega⟩

/-- an incarnation that `open`s a crash image and ends by a surfaced fault at any call — of the
    recovery or of the history — then the process exits (`b = false`) or the power fails on top of
    it (`b = true`): the next process finds a directory of the same kind, holding every
    acknowledged batch.  Iterated by `epochs_ok`: a failed call leaves the directory of a cut. -/
theorem fault_epoch {fs : Fs} {k : Nat} (h : Img fs k) (hist : List Client) (i : Nat) (e b : Bool) (op : Op)
    (hi : (recoverOps fs ++ opsOf hist (kvAfter fs))[i]? = some op)
    (hc : isCall op = true) (hs : absorbed op = false) :
    faultOps (recoverOps fs ++ opsOf hist (kvAfter fs)) i e
      = epochOps fs ⟨hist, if e then i + 1 else i, b⟩
    ∧ ∃ k', Img (image b (run fs (faultOps (recoverOps fs ++ opsOf hist (kvAfter fs)) i e))) k'
      ∧ k + faultAcked (recoverOps fs ++ opsOf hist (kvAfter fs)) i ≤ k'
      ∧ k' ≤ k + appended ((recoverOps fs ++ opsOf hist (kvAfter fs)).take (i + 1)) := by
  refine ⟨faultOps_cut hi hs e, ?_⟩
  rw [faultOps_cut hi hs e, faultAcked_cut hi hc hs e]
  obtain ⟨hB, hA, hwf⟩ := epoch_ok h hist (if e then i + 1 else i)
  obtain ⟨k', g1, g2, himg⟩ := img_image b hwf hB hA
  have := appended_cut_le hi e
  exact ⟨k', himg, g1, by omega⟩

/-! ### an absorbed failure: a rename into trash/ that did not happen -/

/-- `ops'` is `ops` without some of its renames of SSTs into trash/ -/
inductive Skips : List Op → List Op → Prop
  | nil : Skips [] []
  | keep (op : Op) {a b : List Op} : Skips a b → Skips (op :: a) (op :: b)
  | skip (x : Name) {a b : List Op} : Skips a b → Skips a (Op.sstTrash x :: b)

/-- the directory with the left-over files has everything the other one has -/
structure More (fs' fs : Fs) : Prop where
  tmp : fs'.tmp = fs.tmp
  md : fs'.maniDurable = fs.maniDurable
  mp : fs'.maniPending = fs.maniPending
  logs : fs'.logs = fs.logs
  sst : ∀ nm f, find fs.sst nm = some f → find fs'.sst nm = some f

theorem More.refl (fs : Fs) : More fs fs := ⟨rfl, rfl, rfl, rfl, fun _ _ h => h⟩

theorem more_step {fs' fs : Fs} (h : More fs' fs) (op : Op) : More (step fs' op) (step fs op) := by
  obtain ⟨h1, h2, h3, h4, h5⟩ := h
  cases op with
  | logCreate n => exact ⟨h1, h2, h3, by show fs'.logs ++ _ = fs.logs ++ _; rw [h4], h5⟩
  | logAppend n b => exact ⟨h1, h2, h3, by show fs'.logs.map _ = fs.logs.map _; rw [h4], h5⟩
  | logSync n => exact ⟨h1, h2, h3, by show fs'.logs.map _ = fs.logs.map _; rw [h4], h5⟩
  | ack _ => exact ⟨h1, h2, h3, h4, h5⟩
  | tmpCreate nm d => exact ⟨by show _ :: fs'.tmp = _ :: fs.tmp; rw [h1], h2, h3, h4, h5⟩
  | tmpSync nm => exact ⟨by show fs'.tmp.map _ = fs.tmp.map _; rw [h1], h2, h3, h4, h5⟩
  | link nm =>
    simp only [step, h1]
    cases ht : find fs.tmp nm with
    | none => exact ⟨h1, h2, h3, h4, h5⟩
    | some t =>
      refine ⟨rfl, h2, h3, h4, ?_⟩
      intro x f hx
      simp only at hx ⊢
      by_cases hnx : nm = x
      · subst hnx
        rw [show find ((nm, t) :: fs.sst) nm = some t from find_cons_eq] at hx
        rw [show find ((nm, t) :: fs'.sst) nm = some t from find_cons_eq]; exact hx
      · rw [show find ((nm, t) :: fs.sst) x = find fs.sst x from find_cons_ne hnx] at hx
        rw [show find ((nm, t) :: fs'.sst) x = find fs'.sst x from find_cons_ne hnx]; exact h5 x f hx
  | maniAppend tx => exact ⟨h1, h2, by show fs'.maniPending ++ _ = fs.maniPending ++ _; rw [h3], h4, h5⟩
  | maniSync =>
    exact ⟨h1, by show fs'.maniDurable ++ fs'.maniPending = fs.maniDurable ++ fs.maniPending; rw [h2, h3],
      rfl, h4, h5⟩
  | tmpUnlink nm => exact ⟨by show fs'.tmp.filter _ = fs.tmp.filter _; rw [h1], h2, h3, h4, h5⟩
  | logTrash n => exact ⟨h1, h2, h3, by show fs'.logs.filter _ = fs.logs.filter _; rw [h4], h5⟩
  | sstTrash x =>
    refine ⟨h1, h2, h3, h4, ?_⟩
    intro nm f hnm
    have hnm' : find (fs.sst.filter (fun e => e.1 ≠ x)) nm = some f := hnm
    show find (fs'.sst.filter (fun e => e.1 ≠ x)) nm = some f
    by_cases hx : nm = x
    · subst hx; rw [find_filter_self] at hnm'; cases hnm'
    · rw [find_filter_ne hx] at hnm' ⊢; exact h5 nm f hnm'

theorem more_skip {fs' fs : Fs} (h : More fs' fs) (x : Name) : More fs' (step fs (Op.sstTrash x)) := by
  obtain ⟨h1, h2, h3, h4, h5⟩ := h
  refine ⟨h1, h2, h3, h4, ?_⟩
  intro nm f hnm
  have hnm' : find (fs.sst.filter (fun e => e.1 ≠ x)) nm = some f := hnm
  by_cases hx : nm = x
  · subst hx; rw [find_filter_self] at hnm'; cases hnm'
  · rw [find_filter_ne hx] at hnm'; exact h5 nm f hnm'

theorem more_run : ∀ {a b : List Op}, Skips a b → ∀ {fs' fs : Fs}, More fs' fs → More (run fs' a) (run fs b)
  | _, _, .nil, _, _, h => h
  | _, _, .keep op s, _, _, h => by rw [run_cons, run_cons]; exact more_run s (more_step h op)
  | _, _, .skip x s, _, _, h => by rw [run_cons]; exact more_run s (more_skip h x)

theorem more_recover {view : File → List Nat} {txs : List Tx} {fs' fs : Fs} (h : More fs' fs)
    {l : List Nat} (hr : recover view txs fs = some l) : recover view txs fs' = some l := by
  obtain ⟨hc, he⟩ := recover_inv hr
  rw [recover_some (by
    intro nm hnm
    have := hc nm hnm
    cases hf : find fs.sst nm with
    | none => rw [hf] at this; cases this
    | some f => rw [hf] at this; rw [h.sst nm f hf]; exact this), h.logs, he]

theorem more_ok {fs' fs : Fs} (h : More fs' fs) {lo hi : Nat} :
    (Ok (recoverB fs) lo hi → Ok (recoverB fs') lo hi) ∧ (Ok (recoverA fs) lo hi → Ok (recoverA fs') lo hi) := by
  constructor
  · rintro ⟨l, k, h1, h2, h3, h4⟩
    refine ⟨l, k, ?_, h2, h3, h4⟩
    unfold recoverB at h1 ⊢
    rw [h.md]; exact more_recover h h1
  · rintro ⟨l, k, h1, h2, h3, h4⟩
    refine ⟨l, k, ?_, h2, h3, h4⟩
    unfold recoverA at h1 ⊢
    rw [h.md, h.mp]; exact more_recover h h1

/-- every prefix of the run with skipped renames is the skipped version of a prefix of the full run
    with the same acknowledgements and appends -/
theorem skips_take : ∀ {a b : List Op}, Skips a b → ∀ (n : Nat),
    ∃ m, Skips (a.take n) (b.take m) ∧ acked (a.take n) = acked (b.take m)
      ∧ appended (a.take n) = appended (b.take m)
  | _, _, .nil, n => ⟨0, by simpa using Skips.nil, by simp, by simp⟩
  | _, _, .keep op s, 0 => ⟨0, by simpa using Skips.nil, rfl, rfl⟩
  | _, _, .keep op (a := a) (b := b) s, n + 1 => by
    obtain ⟨m, h1, h2, h3⟩ := skips_take s n
    refine ⟨m + 1, ?_, ?_, ?_⟩
    · rw [List.take_succ_cons, List.take_succ_cons]; exact Skips.keep op h1
    · rw [List.take_succ_cons, List.take_succ_cons]
      show acked ([op] ++ a.take n) = acked ([op] ++ b.take m)
      rw [acked_append, acked_append, h2]
    · rw [List.take_succ_cons, List.take_succ_cons]
      show appended ([op] ++ a.take n) = appended ([op] ++ b.take m)
      rw [appended_append, appended_append, h3]
  | _, _, .skip x (a := a) (b := b) s, n => by
    obtain ⟨m, h1, h2, h3⟩ := skips_take s n
    refine ⟨m + 1, ?_, ?_, ?_⟩
    · rw [List.take_succ_cons]; exact Skips.skip x h1
    · rw [List.take_succ_cons]
      show _ = acked ([Op.sstTrash x] ++ b.take m)
      rw [acked_append, h2]
      show _ = 0 + _
      omega
    · rw [List.take_succ_cons]
      show _ = appended ([Op.sstTrash x] ++ b.take m)
      rw [appended_append, h3]
      show _ = 0 + _
      omega

/-- **absorbed faults**: a history in which any number of renames of SSTs into trash/ fail (the
    code ignores the error and goes on, the files stay in sst/), crashed anywhere: the reopen
    yields what `crash_recover` promises -/
theorem absorbed_faults (h : List Client) {ops' : List Op} (hs : Skips ops' (opsOf h kv0)) (n : Nat) :
    Ok (recoverB (run fs0 (ops'.take n))) (acked (ops'.take n)) (appended (ops'.take n))
    ∧ Ok (recoverA (run fs0 (ops'.take n))) (acked (ops'.take n)) (appended (ops'.take n)) := by
  obtain ⟨m, h1, h2, h3⟩ := skips_take hs n
  have hm := more_run h1 (More.refl fs0)
  obtain ⟨cB, cA⟩ := crash_recover_init h m
  rw [h2, h3]
  exact ⟨(more_ok hm).1 cB, (more_ok hm).2 cA⟩

/-- one absorbed fault in the terms of `faultOps` -/
theorem skips_refl : ∀ (l : List Op), Skips l l
  | [] => .nil
  | op :: l => .keep op (skips_refl l)

theorem skips_fault {ops : List Op} {i : Nat} {x : Name} (h : ops[i]? = some (Op.sstTrash x)) :
    Skips (faultOps ops i false) ops := by
  unfold faultOps
  rw [h]
  simp only [absorbed, if_true, Bool.false_eq_true, if_false, List.append_nil]
  induction ops generalizing i with
  | nil => cases h
  | cons op ops ih =>
    cases i with
    | zero =>
      simp only [List.getElem?_cons_zero, Option.some.injEq] at h
      subst h
      simpa using Skips.skip x (skips_refl ops)
    | succ i =>
      simp only [List.getElem?_cons_succ] at h
      simpa using Skips.keep op (ih h)

/-! ### an absorbed failure, then the rest of the history on the directory as it is -/

theorem inv_more {fs' fs : Fs} {kv : Kv} (h : Inv fs kv) (m : More fs' fs) : Inv fs' kv :=
  ⟨fun c hc => m.sst c _ (h.sst c hc), by rw [m.md]; exact h.md, by rw [m.mp]; exact h.mp,
    by rw [m.logs]; exact h.logs, h.all⟩

theorem g_more {fs' fs : Fs} (m : More fs' fs) {op : Op} (g : G fs op) : G fs' op := by
  cases op with
  | logCreate n => show n ∉ fs'.logs.map (·.1); rw [m.logs]; exact g
  | link nm => show ∀ f, find fs'.tmp nm = some f → f = ⟨nm, nm⟩; rw [m.tmp]; exact g
  | logAppend _ _ => trivial
  | logSync _ => trivial
  | ack _ => trivial
  | tmpCreate _ _ => trivial
  | tmpSync _ => trivial
  | maniAppend _ => trivial
  | maniSync => trivial
  | tmpUnlink _ => trivial
  | logTrash _ => trivial
  | sstTrash _ => trivial

theorem guarded_more : ∀ {a b : List Op}, Skips a b → ∀ {fs' fs : Fs}, More fs' fs → Guarded fs b → Guarded fs' a
  | _, _, .nil, _, _, _, _ => trivial
  | _, _, .keep op s, _, _, m, g => ⟨g_more m g.1, guarded_more s (more_step m op) g.2⟩
  | _, _, .skip x s, _, _, m, g => guarded_more s (more_skip m x) g.2

theorem skips_counts : ∀ {a b : List Op}, Skips a b → acked a = acked b ∧ appended a = appended b
  | _, _, .nil => ⟨rfl, rfl⟩
  | _, _, .keep op (a := a) (b := b) s => by
    obtain ⟨h1, h2⟩ := skips_counts s
    constructor
    · show acked ([op] ++ a) = acked ([op] ++ b); rw [acked_append, acked_append, h1]
    · show appended ([op] ++ a) = appended ([op] ++ b); rw [appended_append, appended_append, h2]
  | _, _, .skip x (a := a) (b := b) s => by
    obtain ⟨h1, h2⟩ := skips_counts s
    constructor
    · show acked a = acked ([Op.sstTrash x] ++ b); rw [acked_append, h1]; show _ = 0 + _; omega
    · show appended a = appended ([Op.sstTrash x] ++ b); rw [appended_append, h2]; show _ = 0 + _; omega

theorem skips_erase : ∀ (b : List Op) (i : Nat), ((b[i]?.map absorbed).getD false) = true →
    Skips (b.eraseIdx i) b
  | [], _, h => by simp at h
  | op :: b, 0, h => by
    simp only [List.getElem?_cons_zero, Option.map_some, Option.getD_some] at h
    cases op with
    | sstTrash x => exact Skips.skip x (skips_refl b)
    | _ => simp [absorbed] at h
  | op :: b, i + 1, h => by
    simp only [List.getElem?_cons_succ] at h
    exact Skips.keep op (skips_erase b i h)

theorem img_of_inv {fs : Fs} {kv : Kv} (h : Inv fs kv) (hwf : Wf fs) : Img fs kv.next :=
  ⟨hwf, h.mp, by rw [h.logs]; intro l hl; simp only [List.mem_singleton] at hl; subst hl; rfl,
    _, boundaryA h, h.all⟩

/-- what the history-level induction needs of one block -/
structure BlockOk (fs : Fs) (kv : Kv) (b : List Op) (kv' : Kv) : Prop where
  cuts : ∀ n, Ok (recoverB (run fs (b.take n))) (kv.next + acked (b.take n)) (kv.next + appended (b.take n))
    ∧ Ok (recoverA (run fs (b.take n))) (kv.next + acked (b.take n)) (kv.next + appended (b.take n))
  inv : Inv (run fs b) kv'
  wf : Wf (run fs b)
  next : kv'.next = kv.next + acked b
  cnt : acked b = appended b

theorem next_block (kv : Kv) (c : Client) :
    (after kv c).next = kv.next + acked (block kv c) ∧ acked (block kv c) = appended (block kv c) := by
  cases c with
  | put => exact ⟨by simp [after, block, acked], by simp [block, acked, appended]⟩
  | flush =>
    obtain ⟨q1, q2⟩ := counts_quiet (quiet_flush kv)
    rw [q1, q2]
    refine ⟨?_, rfl⟩
    simp only [after]; split <;> rfl
  | compact p outs =>
    obtain ⟨q1, q2⟩ := counts_quiet (quiet_compact kv p outs)
    rw [q1, q2]
    refine ⟨?_, rfl⟩
    simp only [after]; split <;> rfl
  | reopen =>
    obtain ⟨q1, q2⟩ := counts_quiet (quiet_reopen kv)
    rw [q1, q2]
    refine ⟨?_, rfl⟩
    simp only [after]; split <;> rfl

theorem blockF_ok {fs : Fs} {kv : Kv} (h : Inv fs kv) (hwf : Wf fs) (c : Client) :
    BlockOk fs kv (blockF fs kv c) (afterF fs kv c) := by
  have plain : ∀ c', blockF fs kv c' = block kv c' → afterF fs kv c' = after kv c' →
      BlockOk fs kv (block kv c') (after kv c') := by
    intro c' _ _
    refine ⟨?_, inv_block h c', wf_run _ _ hwf (guarded_block h c'), (next_block kv c').1, (next_block kv c').2⟩
    intro n
    have := crash_recover [c'] fs kv h n
    simpa [opsOf] using this
  cases c with
  | put => exact plain .put rfl rfl
  | flush => exact plain .flush rfl rfl
  | compact p outs => exact plain (.compact p outs) rfl rfl
  | reopen =>
    obtain ⟨r1, r2, r3, r4, r5⟩ := recover_block (img_of_inv h hwf)
    obtain ⟨q1, q2⟩ := counts_quiet r5
    show BlockOk fs kv (recoverOps fs) (kvAfter fs)
    refine ⟨?_, r2, wf_run _ _ hwf r4, by rw [r3, q1]; rfl, by rw [q1, q2]⟩
    intro n
    obtain ⟨c1, c2⟩ := counts_quiet (fun op ho => r5 op (mem_take ho) :
      ∀ op ∈ (recoverOps fs).take n, Quiet op)
    rw [c1, c2, (r1 n).1, (r1 n).2]
    exact ⟨⟨_, kv.next, boundaryB h, h.all, by omega, by omega⟩, ⟨_, kv.next, boundaryA h, h.all, by omega, by omega⟩⟩

theorem blockOk_skip {fs : Fs} {kv kv' : Kv} {b b' : List Op} (hb : BlockOk fs kv b kv')
    (hg : Guarded fs b) (hwf : Wf fs) (s : Skips b' b) : BlockOk fs kv b' kv' := by
  obtain ⟨e1, e2⟩ := skips_counts s
  refine ⟨?_, inv_more hb.inv (more_run s (More.refl fs)),
    wf_run _ _ hwf (guarded_more s (More.refl fs) hg), by rw [e1]; exact hb.next, by rw [e1, e2]; exact hb.cnt⟩
  intro n
  obtain ⟨m, h1, h2, h3⟩ := skips_take s n
  have hm := more_run h1 (More.refl fs)
  obtain ⟨cB, cA⟩ := hb.cuts m
  rw [h2, h3]
  exact ⟨(more_ok hm).1 cB, (more_ok hm).2 cA⟩

theorem guarded_blockF {fs : Fs} {kv : Kv} (h : Inv fs kv) (hwf : Wf fs) (c : Client) :
    Guarded fs (blockF fs kv c) := by
  cases c with
  | put => exact guarded_block h .put
  | flush => exact guarded_block h .flush
  | compact p outs => exact guarded_block h (.compact p outs)
  | reopen => exact (recover_block (img_of_inv h hwf)).2.2.2.1

/-- a whole block, then the rest -/
theorem after_block {fs : Fs} {kv kv' : Kv} {b rest : List Op} (hb : BlockOk fs kv b kv') (n : Nat)
    (ih : ∀ m, Ok (recoverB (run (run fs b) (rest.take m))) (kv'.next + acked (rest.take m))
          (kv'.next + appended (rest.take m))
        ∧ Ok (recoverA (run (run fs b) (rest.take m))) (kv'.next + acked (rest.take m))
          (kv'.next + appended (rest.take m))) :
    Ok (recoverB (run fs ((b ++ rest).take n))) (kv.next + acked ((b ++ rest).take n))
      (kv.next + appended ((b ++ rest).take n))
    ∧ Ok (recoverA (run fs ((b ++ rest).take n))) (kv.next + acked ((b ++ rest).take n))
      (kv.next + appended ((b ++ rest).take n)) := by
  rcases Nat.lt_or_ge n b.length with hn | hn
  · rw [List.take_append_of_le_length (by omega)]
    exact hb.cuts n
  · rw [List.take_append, List.take_of_length_le hn, run_append, acked_append, appended_append]
    obtain ⟨⟨l1, k1, a1, a2, a3, a4⟩, ⟨l2, k2, b1, b2, b3, b4⟩⟩ := ih (n - b.length)
    have h1 := hb.next
    have h2 := hb.cnt
    exact ⟨⟨l1, k1, a1, a2, by omega, by omega⟩, ⟨l2, k2, b1, b2, by omega, by omega⟩⟩

/-- **an absorbed failure anywhere in a history** (`skip = some i`: call `i` is a rename into
    trash/ that fails; `none`: no failure), the history going on on the directory as it is — a
    later reopen runs `cleanup_orphans` on the left-over file —, crashed anywhere: the reopen yields
    a permutation of the batches `0 … k-1` with `acknowledged ≤ k ≤ appended` -/
theorem crash_recover_A : ∀ (h : List Client) (fs : Fs) (kv : Kv) (skip : Option Nat), Inv fs kv → Wf fs →
    ∀ n, Ok (recoverB (run fs ((opsOfA h fs kv skip).take n)))
        (kv.next + acked ((opsOfA h fs kv skip).take n)) (kv.next + appended ((opsOfA h fs kv skip).take n))
      ∧ Ok (recoverA (run fs ((opsOfA h fs kv skip).take n)))
        (kv.next + acked ((opsOfA h fs kv skip).take n)) (kv.next + appended ((opsOfA h fs kv skip).take n))
  | [], fs, kv, skip, hinv, _, n => by
    have e : opsOfA [] fs kv skip = [] := by cases skip <;> rfl
    rw [e]
    simp only [List.take_nil, run, List.foldl_nil]
    exact ⟨⟨_, kv.next, boundaryB hinv, hinv.all, by simp [acked], by simp⟩,
           ⟨_, kv.next, boundaryA hinv, hinv.all, by simp [acked], by simp⟩⟩
  | c :: cs, fs, kv, none, hinv, hwf, n => by
    have hb := blockF_ok hinv hwf c
    show Ok (recoverB (run fs ((blockF fs kv c ++ opsOfA cs (run fs (blockF fs kv c)) (afterF fs kv c) none).take n))) _ _
      ∧ Ok (recoverA (run fs ((blockF fs kv c ++ opsOfA cs (run fs (blockF fs kv c)) (afterF fs kv c) none).take n))) _ _
    exact after_block hb n (crash_recover_A cs _ _ none hb.inv hb.wf)
  | c :: cs, fs, kv, some i, hinv, hwf, n => by
    have hb := blockF_ok hinv hwf c
    have hg := guarded_blockF hinv hwf c
    by_cases hi : i < (blockF fs kv c).length
    · by_cases ha : (((blockF fs kv c)[i]?.map absorbed).getD false) = true
      · have e : opsOfA (c :: cs) fs kv (some i) = (blockF fs kv c).eraseIdx i
            ++ opsOfA cs (run fs ((blockF fs kv c).eraseIdx i)) (afterF fs kv c) none := by
          simp only [opsOfA, if_pos hi, ha, if_true]
        rw [e]
        have hb' := blockOk_skip hb hg hwf (skips_erase _ i ha)
        exact after_block hb' n (crash_recover_A cs _ _ none hb'.inv hb'.wf)
      · have e : opsOfA (c :: cs) fs kv (some i) = blockF fs kv c
            ++ opsOfA cs (run fs (blockF fs kv c)) (afterF fs kv c) none := by
          simp only [opsOfA, if_pos hi, ha, Bool.false_eq_true, if_false]
        rw [e]
        exact after_block hb n (crash_recover_A cs _ _ none hb.inv hb.wf)
    · have e : opsOfA (c :: cs) fs kv (some i) = blockF fs kv c
          ++ opsOfA cs (run fs (blockF fs kv c)) (afterF fs kv c) (some (i - (blockF fs kv c).length)) := by
        simp only [opsOfA, if_neg hi]
      rw [e]
      exact after_block hb n (crash_recover_A cs _ _ _ hb.inv hb.wf)

/-- from the empty store -/
theorem crash_recover_A_init (h : List Client) (skip : Option Nat) (n : Nat) :
    Ok (recoverB (run fs0 ((opsOfA h fs0 kv0 skip).take n)))
        (acked ((opsOfA h fs0 kv0 skip).take n)) (appended ((opsOfA h fs0 kv0 skip).take n))
    ∧ Ok (recoverA (run fs0 ((opsOfA h fs0 kv0 skip).take n)))
        (acked ((opsOfA h fs0 kv0 skip).take n)) (appended ((opsOfA h fs0 kv0 skip).take n)) := by
  have := crash_recover_A h fs0 kv0 skip inv0 img0.wf n
  simpa [kv0] using this

/-- every crash point of every history leaves a directory of the class `Img` -/
theorem crash_image_img (h : List Client) (n : Nat) (b : Bool) :
    ∃ k, acked ((opsOf h kv0).take n) ≤ k ∧ k ≤ appended ((opsOf h kv0).take n)
      ∧ Img (image b (run fs0 ((opsOf h kv0).take n))) k := by
  obtain ⟨hB, hA⟩ := crash_recover_init h n
  exact img_image b (wf_run _ _ img0.wf (guarded_take _ _ _ (guarded_opsOf h _ _ inv0))) hB hA

end Blue.StoreFault

#print axioms Blue.StoreFault.recover_block
#print axioms Blue.StoreFault.epochs_ok
#print axioms Blue.StoreFault.fault_surfaces
#print axioms Blue.StoreFault.fault_epoch
#print axioms Blue.StoreFault.absorbed_faults
#print axioms Blue.StoreFault.crash_recover_A
