import Blue.Proofs.LoadVisible
/-! **C01** step preservation at the level of search-ordered components: ingesting a newer
    component and replacing a *closed* set of components by their merged (and possibly
    garbage-collected) output both preserve "newer above"; when nothing is dropped every point read
    is unchanged. -/
namespace Blue.Spec
open Blue.Cursor
variable {K : Type} [DecidableEq K]

/-- the pairwise form of "newer above" -/
def Newer (c d : List (Ver K)) : Prop := ∀ a ∈ c, ∀ b ∈ d, a.1 = b.1 → b.2 < a.2

theorem newerAbove_iff_pairwise : ∀ (cs : List (List (Ver K))), NewerAbove cs ↔ cs.Pairwise Newer
  | [] => by simp [NewerAbove]
  | c :: cs => by
    simp only [NewerAbove, List.pairwise_cons, newerAbove_iff_pairwise cs]
    constructor
    · rintro ⟨h1, h2⟩; exact ⟨fun d hd a ha b hb => h1 a ha d hd b hb, h2⟩
    · rintro ⟨h1, h2⟩; exact ⟨fun a ha d hd b hb => h1 d hd a ha b hb, h2⟩

/-- flush / ingest: a component all of whose versions are newer than the stored versions of the
    same keys goes on top -/
theorem ingest_preserves (c : List (Ver K)) (cs : List (List (Ver K))) (h : NewerAbove cs)
    (hnew : ∀ a ∈ c, ∀ b ∈ cs.flatten, a.1 = b.1 → b.2 < a.2) : NewerAbove (c :: cs) := by
  refine ⟨?_, h⟩
  intro a ha d hd b hb
  exact hnew a ha b (List.mem_flatten.mpr ⟨d, hd, hb⟩)

/-- components tagged "is an input of the compaction" -/
abbrev Tagged (K : Type) := List (Bool × List (Ver K))

def inputs (pre : Tagged K) : List (List (Ver K)) := (pre.filter (fun x => x.1)).map (·.2)
def kept (pre : Tagged K) : List (List (Ver K)) := (pre.filter (fun x => !x.1)).map (·.2)

def SharesKey (c d : List (Ver K)) : Prop := ∃ a ∈ c, ∃ b ∈ d, a.1 = b.1

/-- *closed*: no component that stays in place lies, in search order, below an input it shares a
    key with (and above the place where the output goes) -/
def Closed (pre : Tagged K) : Prop :=
  pre.Pairwise (fun x y => x.1 = true → y.1 = false → ¬ SharesKey x.2 y.2)

theorem kept_newer_inputs : ∀ (pre : Tagged K), (pre.map (·.2)).Pairwise Newer → Closed pre →
    ∀ d ∈ kept pre, ∀ c ∈ inputs pre, Newer d c := by
  intro pre
  induction pre with
  | nil => intro _ _ d hd; simp [kept] at hd
  | cons x pre ih =>
    intro hp hc d hd c hc'
    simp only [List.map_cons, List.pairwise_cons] at hp
    obtain ⟨hx, hp'⟩ := hp
    unfold Closed at hc
    rw [List.pairwise_cons] at hc
    obtain ⟨hcx, hc''⟩ := hc
    obtain ⟨tag, comp⟩ := x
    cases tag with
    | true =>
      have hd' : d ∈ kept pre := by simpa [kept] using hd
      have hcc : c = comp ∨ c ∈ inputs pre := by simpa [inputs] using hc'
      rcases hcc with rfl | hcc
      · -- the input is above `d`: closedness says they share no key
        intro a ha b hb hk
        exfalso
        obtain ⟨y, hy, hyk⟩ : ∃ y ∈ pre, y.1 = false ∧ y.2 = d := by
          simp only [kept, List.mem_map, List.mem_filter, Bool.not_eq_true'] at hd'
          obtain ⟨y, ⟨hy1, hy2⟩, hy3⟩ := hd'
          exact ⟨y, hy1, hy2, hy3⟩
        exact hcx y hy rfl hyk.1 ⟨b, hb, a, by rw [hyk.2]; exact ha, hk.symm⟩
      · exact ih hp' hc'' d hd' c hcc
    | false =>
      have hcc : c ∈ inputs pre := by simpa [inputs] using hc'
      have hd' : d = comp ∨ d ∈ kept pre := by simpa [kept] using hd
      rcases hd' with rfl | hd'
      · apply hx
        simp only [inputs, List.mem_map, List.mem_filter] at hcc
        obtain ⟨y, ⟨hy1, _⟩, hy3⟩ := hcc
        exact List.mem_map.mpr ⟨y, hy1, hy3⟩
      · exact ih hp' hc'' d hd' c hcc

theorem kept_sublist (pre : Tagged K) : (kept pre).Sublist (pre.map (·.2)) := by
  unfold kept
  exact List.Sublist.map _ List.filter_sublist

theorem inputs_sublist (pre : Tagged K) : (inputs pre).Sublist (pre.map (·.2)) := by
  unfold inputs
  exact List.Sublist.map _ List.filter_sublist

/-- **C01** `compaction_preserves`: components `pre ++ post` in search order; the components of
    `pre` tagged `true` are the inputs; the output `outs` (any number of files, any cut points)
    contains only input versions (garbage collection may drop some) and is itself "newer above"
    (true of the pieces of one sorted run, `pieces_newer`); it is placed below everything of `pre`
    that stays.  If the selection is closed, "newer above" is preserved. -/
theorem compaction_preserves (pre : Tagged K) (post outs : List (List (Ver K)))
    (h : NewerAbove (pre.map (·.2) ++ post)) (hclosed : Closed pre)
    (hsub : ∀ e ∈ outs.flatten, e ∈ (inputs pre).flatten) (houts : NewerAbove outs) :
    NewerAbove (kept pre ++ outs ++ post) := by
  rw [newerAbove_iff_pairwise] at h houts ⊢
  rw [List.pairwise_append] at h
  obtain ⟨hpre, hpost, hcross⟩ := h
  have hin : ∀ o ∈ outs, ∀ b ∈ o, ∃ c ∈ inputs pre, b ∈ c := by
    intro o ho b hb
    have := hsub b (List.mem_flatten.mpr ⟨o, ho, hb⟩)
    obtain ⟨c, hc, hbc⟩ := List.mem_flatten.mp this
    exact ⟨c, hc, hbc⟩
  rw [List.append_assoc, List.pairwise_append]
  refine ⟨hpre.sublist (kept_sublist pre), ?_, ?_⟩
  · rw [List.pairwise_append]
    refine ⟨houts, hpost, ?_⟩
    intro o ho x hx a ha b hb hk
    obtain ⟨c, hc, hac⟩ := hin o ho a ha
    exact hcross c ((inputs_sublist pre).subset hc) x hx a hac b hb hk
  · intro d hd x hx
    rw [List.mem_append] at hx
    rcases hx with hx | hx
    · intro a ha b hb hk
      obtain ⟨c, hc, hbc⟩ := hin x hx b hb
      exact kept_newer_inputs pre hpre hclosed d hd c hc a ha b hbc hk
    · exact hcross d ((kept_sublist pre).subset hd) x hx

/-- the output files of a compaction are consecutive pieces of one run sorted by (key ascending,
    timestamp descending): whatever the cut points, they are "newer above" among themselves — also
    when the versions of one key straddle two files -/
theorem pieces_newer {klt : K → K → Bool} (st : StrictTotal klt) (outs : List (List (Ver K)))
    (hs : outs.flatten.Pairwise (fun a b => vlt klt a b = true)) : NewerAbove outs := by
  rw [newerAbove_iff_pairwise]
  rw [List.pairwise_flatten] at hs
  refine hs.2.imp ?_
  intro c d hcd a ha b hb hk
  have := hcd a ha b hb
  unfold vlt at this
  rw [hk, st.irrefl] at this
  simpa using this

/-- the flattened content of the store after the step -/
theorem compaction_content (pre : Tagged K) (post outs : List (List (Ver K)))
    (hsame : ∀ e, e ∈ outs.flatten ↔ e ∈ (inputs pre).flatten) (e : Ver K) :
    e ∈ (kept pre ++ outs ++ post).flatten ↔ e ∈ (pre.map (·.2) ++ post).flatten := by
  have hsplit : ∀ (pre : Tagged K), e ∈ (pre.map (·.2)).flatten ↔
      (e ∈ (kept pre).flatten ∨ e ∈ (inputs pre).flatten) := by
    intro pre
    induction pre with
    | nil => simp [kept, inputs]
    | cons x pre ih =>
      obtain ⟨tag, comp⟩ := x
      cases tag <;> simp [kept, inputs] at ih ⊢ <;> rw [ih] <;> grind
  simp only [List.flatten_append, List.mem_append, hsame, hsplit]

theorem visible_unique {E : List (Ver K)} {k : K} {t : Nat} {a b : Ver K}
    (ha : IsVisible E k t a) (hb : IsVisible E k t b) : a = b := by
  obtain ⟨a1, a2, a3, a4⟩ := ha
  obtain ⟨b1, b2, b3, b4⟩ := hb
  have h1 := a4 b b1 b2 b3
  have h2 := b4 a a1 a2 a3
  apply Prod.ext
  · rw [a2, b2]
  · omega

/-- a store's answer depends only on its set of versions, once "newer above" holds -/
theorem load_congr (cs ds : List (List (Ver K))) (hc : NewerAbove cs) (hd : NewerAbove ds)
    (hsame : ∀ e, e ∈ cs.flatten ↔ e ∈ ds.flatten) (k : K) (t : Nat) : load cs k t = load ds k t := by
  have h1 := load_visible cs k t hc
  have h2 := load_visible ds k t hd
  have tr : ∀ {b}, IsVisible cs.flatten k t b → IsVisible ds.flatten k t b := by
    intro b ⟨m, hk, ht, hmax⟩
    exact ⟨(hsame b).mp m, hk, ht, fun e' he' => hmax e' ((hsame e').mpr he')⟩
  cases hl : load cs k t with
  | none =>
    rw [hl] at h1
    cases hr : load ds k t with
    | none => rfl
    | some b =>
      rw [hr] at h2
      simp only at h1 h2
      exact absurd h2.2.2.1 (h1 b ((hsame b).mpr h2.1) h2.2.1)
  | some a =>
    rw [hl] at h1
    cases hr : load ds k t with
    | none =>
      rw [hr] at h2
      simp only at h1 h2
      exact absurd h1.2.2.1 (h2 a ((hsame a).mp h1.1) h1.2.1)
    | some b =>
      rw [hr] at h2
      simp only at h1 h2
      rw [visible_unique (tr h1) h2]

/-- **C01** `compaction_reads_unchanged`: a closed compaction that drops nothing changes no point
    read, at any timestamp -/
theorem compaction_reads_unchanged (pre : Tagged K) (post outs : List (List (Ver K)))
    (h : NewerAbove (pre.map (·.2) ++ post)) (hclosed : Closed pre)
    (hsame : ∀ e, e ∈ outs.flatten ↔ e ∈ (inputs pre).flatten) (houts : NewerAbove outs)
    (k : K) (t : Nat) :
    load (kept pre ++ outs ++ post) k t = load (pre.map (·.2) ++ post) k t :=
  load_congr _ _ (compaction_preserves pre post outs h hclosed (fun e he => (hsame e).mp he) houts) h
    (compaction_content pre post outs hsame) k t

/-- no key in common -/
def Disjoint (c d : List (Ver K)) : Prop := ∀ a ∈ c, ∀ b ∈ d, a.1 ≠ b.1

theorem Disjoint.symm {c d : List (Ver K)} (h : Disjoint c d) : Disjoint d c :=
  fun b hb a ha e => h a ha b hb e.symm

theorem Disjoint.newer {c d : List (Ver K)} (h : Disjoint c d) : Newer c d :=
  fun a ha b hb e => absurd e (h a ha b hb)

/-- **C01** a level below level 0 is a set: its files are pairwise key-disjoint (I1), so the order
    in which they are searched — and hence where within the level a compaction's outputs are
    inserted — does not matter for "newer above" -/
theorem level_reorder (above level level' below : List (List (Ver K)))
    (h : NewerAbove (above ++ level ++ below)) (hdis : level.Pairwise Disjoint)
    (hperm : level.Perm level') : NewerAbove (above ++ level' ++ below) := by
  rw [newerAbove_iff_pairwise] at h ⊢
  rw [List.append_assoc, List.pairwise_append] at h ⊢
  obtain ⟨ha, hlb, hcross⟩ := h
  rw [List.pairwise_append] at hlb
  obtain ⟨_, hb, hlcross⟩ := hlb
  refine ⟨ha, ?_, ?_⟩
  · rw [List.pairwise_append]
    refine ⟨?_, hb, ?_⟩
    · exact (hperm.pairwise hdis (fun h => h.symm)).imp (fun h => h.newer)
    · intro c hc d hd
      exact hlcross c (hperm.mem_iff.mpr hc) d hd
  · intro c hc d hd
    apply hcross c hc d
    rw [List.mem_append] at hd ⊢
    rcases hd with hd | hd
    · exact Or.inl (hperm.mem_iff.mpr hd)
    · exact Or.inr hd

/-- … nor for any point read -/
theorem level_reorder_reads (above level level' below : List (List (Ver K)))
    (h : NewerAbove (above ++ level ++ below)) (hdis : level.Pairwise Disjoint)
    (hperm : level.Perm level') (k : K) (t : Nat) :
    load (above ++ level' ++ below) k t = load (above ++ level ++ below) k t := by
  apply load_congr _ _ (level_reorder above level level' below h hdis hperm) h
  intro e
  have hp : (above ++ level' ++ below).Perm (above ++ level ++ below) :=
    List.Perm.append_right _ (List.Perm.append_left _ hperm.symm)
  exact hp.flatten.mem_iff

/-- two adjacent blocks of components that share no key may change places; this is how the outputs
    of a compaction, placed after the kept files of the output level by `compaction_preserves`,
    reach their place in key order (the kept files to their right are outside the compacted
    range), while files that *do* share a key — two pieces of one run touching at a key — keep
    their order -/
theorem swap_disjoint_blocks (a x y b : List (List (Ver K)))
    (h : NewerAbove (a ++ x ++ y ++ b)) (hd : ∀ c ∈ x, ∀ d ∈ y, Disjoint c d) :
    NewerAbove (a ++ y ++ x ++ b) := by
  rw [newerAbove_iff_pairwise] at h ⊢
  simp only [List.append_assoc, List.pairwise_append, List.mem_append] at h ⊢
  obtain ⟨ha, ⟨hx, ⟨hy, hb, hyb⟩, hxyb⟩, haxyb⟩ := h
  refine ⟨ha, ⟨hy, ⟨hx, hb, ?_⟩, ?_⟩, ?_⟩
  · intro c hc d hd'; exact hxyb c hc d (Or.inr hd')
  · intro c hc d hd'
    rcases hd' with hd' | hd'
    · exact (hd d hd' c hc).symm.newer
    · exact hyb c hc d hd'
  · intro c hc d hd'
    apply haxyb c hc d
    rcases hd' with hd' | hd' | hd'
    · exact Or.inr (Or.inl hd')
    · exact Or.inl hd'
    · exact Or.inr (Or.inr hd')

/-- level 0 as `Version::load` searches it — by descending newest timestamp — is "newer above"
    whenever the files' timestamp ranges do not overlap, which is the case for files the store
    itself flushed (consecutive sequence-number ranges) -/
theorem l0_newer (files : List (Nat × Nat × List (Ver K)))
    (hrange : ∀ f ∈ files, ∀ v ∈ f.2.2, f.1 ≤ v.2 ∧ v.2 ≤ f.2.1)
    (hdesc : files.Pairwise (fun a b => b.2.1 < a.1)) :
    NewerAbove (files.map (·.2.2)) := by
  rw [newerAbove_iff_pairwise, List.pairwise_map]
  refine hdesc.imp_of_mem ?_
  intro a b ha hb hab x hx y hy _
  have h1 := (hrange a ha x hx).1
  have h2 := (hrange b hb y hy).2
  omega

/-- why closedness is needed (D-8's shape): inputs are the first and third component, the second
    stays and shares key 1 with the first; the merged output lands below it and the read goes
    stale -/
theorem open_compaction_stale_read :
    let pre : Tagged Nat := [(true, [(1, 9)]), (false, [(1, 5)]), (true, [(1, 2)])]
    NewerAbove (pre.map (·.2)) ∧
    load (pre.map (·.2)) 1 10 = some (1, 9) ∧
    load (kept pre ++ [[(1, 9), (1, 2)]]) 1 10 = some (1, 5) := by
  decide

end Blue.Spec

#print axioms Blue.Spec.compaction_preserves
#print axioms Blue.Spec.compaction_reads_unchanged
#print axioms Blue.Spec.pieces_newer
