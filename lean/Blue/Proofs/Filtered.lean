import Blue.Model.Cursor
/-! A cursor that only ever rests on "shown" indices of a child list behaves as a reference
    cursor over the filtered list.  Used for the pruning and bounds cursors. -/
namespace Blue.Cursor.Filtered

/-- strictly increasing list of naturals -/
def Inc (l : List Nat) : Prop := l.Pairwise (· < ·)

theorem inc_range_filter (n : Nat) (shown : Nat → Bool) : Inc ((List.range n).filter shown) := by
  unfold Inc
  apply List.Pairwise.filter
  exact List.pairwise_lt_range

theorem split_lt_ge (l : List Nat) (h : Inc l) (i : Nat) :
    l = l.filter (fun j => decide (j < i)) ++ l.filter (fun j => decide (i ≤ j)) := by
  induction l with
  | nil => rfl
  | cons a t ih =>
    have ht : Inc t := (List.pairwise_cons.mp h).2
    have ha := (List.pairwise_cons.mp h).1
    by_cases hai : a < i
    · have h1 : decide (a < i) = true := by simpa using hai
      have h2 : decide (i ≤ a) = false := by simp; omega
      simp only [List.filter_cons, h1, h2, if_true, List.cons_append]
      congr 1
      exact ih ht
    · have h1 : decide (a < i) = false := by simpa using hai
      have h2 : decide (i ≤ a) = true := by simp; omega
      -- everything in t is ≥ a ≥ i
      have hall : ∀ x ∈ t, ¬ x < i := by intro x hx; have := ha x hx; omega
      have e1 : t.filter (fun j => decide (j < i)) = [] := by
        rw [List.filter_eq_nil_iff]; intro x hx; simpa using hall x hx
      have e2 : t.filter (fun j => decide (i ≤ j)) = t := by
        rw [List.filter_eq_self]; intro x hx; have := hall x hx; simp; omega
      simp [List.filter_cons, h1, h2, e1, e2]

variable (n : Nat) (shown : Nat → Bool)

/-- the shown indices, increasing -/
def S : List Nat := (List.range n).filter shown

theorem mem_S {j : Nat} : j ∈ S n shown ↔ j < n ∧ shown j = true := by
  simp [S, List.mem_filter]

/-- number of shown indices below `i` -/
def rank (i : Nat) : Nat := ((S n shown).filter (fun j => decide (j < i))).length

/-- least shown index at or after `i` -/
def nextShown (i : Nat) : Option Nat := ((S n shown).filter (fun j => decide (i ≤ j))).head?

/-- greatest shown index below `i` -/
def prevShown (i : Nat) : Option Nat := ((S n shown).filter (fun j => decide (j < i))).getLast?

theorem S_split (i : Nat) :
    S n shown = (S n shown).filter (fun j => decide (j < i)) ++ (S n shown).filter (fun j => decide (i ≤ j)) :=
  split_lt_ge _ (inc_range_filter n shown) i

theorem rank_le : rank n shown i ≤ (S n shown).length := by
  unfold rank; exact List.length_filter_le _ _

/-- the shown index of rank `r` -/
theorem S_get_rank (i : Nat) : (S n shown)[rank n shown i]? = nextShown n shown i := by
  unfold rank nextShown
  conv => lhs; arg 1; rw [S_split n shown i]
  rw [List.getElem?_append_right (Nat.le_refl _)]
  simp [List.head?_eq_getElem?]

theorem nextShown_some {i j : Nat} (h : nextShown n shown i = some j) :
    i ≤ j ∧ j < n ∧ shown j = true ∧ rank n shown j = rank n shown i
    ∧ ∀ j', i ≤ j' → j' < j → shown j' = false := by
  unfold nextShown at h
  rw [List.head?_eq_some_iff] at h
  obtain ⟨t, ht⟩ := h
  have hjm : j ∈ (S n shown).filter (fun j => decide (i ≤ j)) := by rw [ht]; simp
  rw [List.mem_filter] at hjm
  have hij : i ≤ j := by simpa using hjm.2
  have hjS := (mem_S n shown).mp hjm.1
  -- nothing shown in [i, j)
  have hinc := inc_range_filter n shown
  have hnone : ∀ j', i ≤ j' → j' < j → shown j' = false := by
    intro j' h1 h2
    cases hs : shown j' with
    | false => rfl
    | true =>
      exfalso
      have hj'S : j' ∈ S n shown := (mem_S n shown).mpr ⟨by omega, hs⟩
      have hj'f : j' ∈ (S n shown).filter (fun j => decide (i ≤ j)) := by
        rw [List.mem_filter]; exact ⟨hj'S, by simpa using h1⟩
      rw [ht] at hj'f
      have hpw : ((S n shown).filter (fun j => decide (i ≤ j))).Pairwise (· < ·) :=
        List.Pairwise.filter _ hinc
      rw [ht] at hpw
      rcases List.mem_cons.mp hj'f with h | h
      · omega
      · have := (List.pairwise_cons.mp hpw).1 j' h; omega
  refine ⟨hij, hjS.1, hjS.2, ?_, hnone⟩
  -- rank j = rank i : shown indices below j are exactly those below i
  unfold rank
  congr 1
  apply List.filter_congr
  intro x hx
  have hxS := (mem_S n shown).mp hx
  by_cases hxi : x < i
  · simp [hxi]; omega
  · have : ¬ x < j := by
      intro hxj
      have := hnone x (by omega) hxj
      rw [hxS.2] at this; cases this
    simp [hxi, this]

theorem nextShown_none {i : Nat} (h : nextShown n shown i = none) :
    rank n shown i = (S n shown).length ∧ ∀ j', i ≤ j' → j' < n → shown j' = false := by
  unfold nextShown at h
  rw [List.head?_eq_none_iff] at h
  constructor
  · have := congrArg List.length (S_split n shown i)
    rw [h] at this
    unfold rank
    simp at this
    omega
  · intro j' h1 h2
    cases hs : shown j' with
    | false => rfl
    | true =>
      exfalso
      have : j' ∈ (S n shown).filter (fun j => decide (i ≤ j)) := by
        rw [List.mem_filter]; exact ⟨(mem_S n shown).mpr ⟨h2, hs⟩, by simpa using h1⟩
      rw [h] at this; cases this

theorem rank_succ_of_shown {i : Nat} (hi : i < n) (hs : shown i = true) :
    rank n shown (i+1) = rank n shown i + 1 := by
  -- S.filter (< i+1) = S.filter (< i) ++ [i]
  have hsplit := S_split n shown i
  have hnext : nextShown n shown i = some i := by
    unfold nextShown
    have hmem : i ∈ (S n shown).filter (fun j => decide (i ≤ j)) := by
      rw [List.mem_filter]; exact ⟨(mem_S n shown).mpr ⟨hi, hs⟩, by simp⟩
    have hpw : ((S n shown).filter (fun j => decide (i ≤ j))).Pairwise (· < ·) :=
      List.Pairwise.filter _ (inc_range_filter n shown)
    cases hl : (S n shown).filter (fun j => decide (i ≤ j)) with
    | nil => rw [hl] at hmem; cases hmem
    | cons a t =>
      rw [hl] at hmem hpw
      have ha : a ∈ (S n shown).filter (fun j => decide (i ≤ j)) := by rw [hl]; simp
      have hia : i ≤ a := by simpa using (List.mem_filter.mp ha).2
      rcases List.mem_cons.mp hmem with h | h
      · simp [h]
      · have := (List.pairwise_cons.mp hpw).1 i h; omega
  unfold rank
  have e : (S n shown).filter (fun j => decide (j < i+1))
      = (S n shown).filter (fun j => decide (j < i)) ++ [i] := by
    -- split S at i, then the ≥ part starts with i
    unfold nextShown at hnext
    rw [List.head?_eq_some_iff] at hnext
    obtain ⟨t, ht⟩ := hnext
    have hpw : ((S n shown).filter (fun j => decide (i ≤ j))).Pairwise (· < ·) :=
      List.Pairwise.filter _ (inc_range_filter n shown)
    rw [ht] at hpw
    conv => lhs; arg 2; rw [hsplit, ht]
    rw [List.filter_append]
    have e1 : ((S n shown).filter (fun j => decide (j < i))).filter (fun j => decide (j < i+1))
        = (S n shown).filter (fun j => decide (j < i)) := by
      rw [List.filter_eq_self]; intro x hx
      have := (List.mem_filter.mp hx).2
      simp at this ⊢; omega
    have e2 : (i :: t).filter (fun j => decide (j < i+1)) = [i] := by
      have ht' : t.filter (fun j => decide (j < i+1)) = [] := by
        rw [List.filter_eq_nil_iff]; intro x hx
        have := (List.pairwise_cons.mp hpw).1 x hx
        simp; omega
      simp [List.filter_cons, ht']
    rw [e1, e2]
  rw [e]; simp

theorem rank_eq_of_no_shown {a b : Nat} (hab : a ≤ b)
    (h : ∀ x, a ≤ x → x < b → x < n → shown x = false) : rank n shown b = rank n shown a := by
  unfold rank
  congr 1
  apply List.filter_congr
  intro x hx
  have hxS := (mem_S n shown).mp hx
  by_cases hxa : x < a
  · simp [hxa]; omega
  · have : ¬ x < b := by
      intro hxb
      have := h x (by omega) hxb hxS.1
      rw [hxS.2] at this; cases this
    simp [hxa, this]

theorem rank_n : rank n shown n = (S n shown).length := by
  unfold rank
  congr 1
  rw [List.filter_eq_self]
  intro x hx
  have := (mem_S n shown).mp hx
  simpa using this.1

theorem rank_zero : rank n shown 0 = 0 := by
  unfold rank
  simp

theorem prevShown_some {i j : Nat} (h : prevShown n shown i = some j) :
    j < i ∧ j < n ∧ shown j = true ∧ rank n shown j + 1 = rank n shown i
    ∧ ∀ j', j < j' → j' < i → j' < n → shown j' = false := by
  unfold prevShown at h
  have hjm : j ∈ (S n shown).filter (fun j => decide (j < i)) := List.mem_of_getLast? h
  rw [List.mem_filter] at hjm
  have hji : j < i := by simpa using hjm.2
  have hjS := (mem_S n shown).mp hjm.1
  have hpw : ((S n shown).filter (fun j => decide (j < i))).Pairwise (· < ·) :=
    List.Pairwise.filter _ (inc_range_filter n shown)
  have hnone : ∀ j', j < j' → j' < i → j' < n → shown j' = false := by
    intro j' h1 h2 h3
    cases hs : shown j' with
    | false => rfl
    | true =>
      exfalso
      have hj'f : j' ∈ (S n shown).filter (fun j => decide (j < i)) := by
        rw [List.mem_filter]; exact ⟨(mem_S n shown).mpr ⟨h3, hs⟩, by simpa using h2⟩
      -- j is the last element of a strictly increasing list containing j' > j
      rw [List.getLast?_eq_some_iff] at h
      obtain ⟨ys, hys⟩ := h
      rw [hys] at hj'f hpw
      rw [List.mem_append] at hj'f
      rcases hj'f with hm | hm
      · have := (List.pairwise_append.mp hpw).2.2 j' hm j (by simp); omega
      · simp at hm; omega
  refine ⟨hji, hjS.1, hjS.2, ?_, hnone⟩
  rw [← rank_succ_of_shown n shown hjS.1 hjS.2]
  exact (rank_eq_of_no_shown n shown (by omega) (fun x h1 h2 h3 => hnone x (by omega) h2 h3)).symm

theorem prevShown_none {i : Nat} (h : prevShown n shown i = none) :
    rank n shown i = 0 ∧ ∀ j', j' < i → j' < n → shown j' = false := by
  unfold prevShown at h
  rw [List.getLast?_eq_none_iff] at h
  constructor
  · unfold rank; rw [h]; rfl
  · intro j' h1 h2
    cases hs : shown j' with
    | false => rfl
    | true =>
      exfalso
      have : j' ∈ (S n shown).filter (fun j => decide (j < i)) := by
        rw [List.mem_filter]; exact ⟨(mem_S n shown).mpr ⟨h2, hs⟩, by simpa using h1⟩
      rw [h] at this; cases this

/-- child position `q` (0..n+1) ↔ position `p` in the filtered view -/
inductive Pos : Nat → Nat → Prop
  | start : Pos 0 0
  | at (i : Nat) (hi : i < n) (hs : shown i = true) : Pos (i+1) (rank n shown i + 1)
  | fin : Pos (n+1) ((S n shown).length + 1)

theorem rank_lt_of_shown {i : Nat} (hi : i < n) (hs : shown i = true) :
    rank n shown i < (S n shown).length := by
  have h1 := rank_succ_of_shown n shown hi hs
  have h2 : rank n shown (i+1) ≤ (S n shown).length := rank_le n shown
  omega

/-- moving to the next shown index is `next` in the filtered view -/
theorem pos_next {q p : Nat} (h : Pos n shown q p) :
    Pos n shown (match nextShown n shown q with | some j => j+1 | none => n+1)
      (if p ≤ (S n shown).length then p+1 else p) := by
  cases h with
  | start =>
    cases hn : nextShown n shown 0 with
    | none =>
      have := (nextShown_none n shown hn).1
      rw [rank_zero] at this
      simp only [Nat.zero_le, if_true]
      have hf := Pos.fin (n := n) (shown := shown)
      rw [← this] at hf; exact hf
    | some j =>
      obtain ⟨_, hj, hs, hr, _⟩ := nextShown_some n shown hn
      rw [rank_zero] at hr
      simp only [Nat.zero_le, if_true]
      have := Pos.at (n := n) (shown := shown) j hj hs
      rw [hr] at this; exact this
  | «at» i hi hs =>
    have hlt := rank_lt_of_shown n shown hi hs
    have hsucc := rank_succ_of_shown n shown hi hs
    cases hn : nextShown n shown (i+1) with
    | none =>
      have := (nextShown_none n shown hn).1
      rw [if_pos (by omega)]
      have e : rank n shown i + 1 + 1 = (S n shown).length + 1 := by omega
      rw [e]; exact Pos.fin
    | some j =>
      obtain ⟨_, hj, hsj, hr, _⟩ := nextShown_some n shown hn
      rw [if_pos (by omega)]
      have := Pos.at (n := n) (shown := shown) j hj hsj
      rw [hr, hsucc] at this; exact this
  | fin =>
    have hn : nextShown n shown (n+1) = none := by
      unfold nextShown
      rw [List.head?_eq_none_iff, List.filter_eq_nil_iff]
      intro x hx
      have := (mem_S n shown).mp hx
      simp; omega
    rw [hn]
    rw [if_neg (by omega)]
    exact Pos.fin

/-- moving to the previous shown index is `prev` in the filtered view -/
theorem pos_prev {q p : Nat} (h : Pos n shown q p) :
    Pos n shown (match prevShown n shown (q - 1) with | some j => j+1 | none => 0)
      (if 0 < p then p-1 else p) := by
  cases h with
  | start =>
    have hn : prevShown n shown (0 - 1) = none := by
      unfold prevShown
      rw [List.getLast?_eq_none_iff, List.filter_eq_nil_iff]
      intro x _; simp
    rw [hn]; exact Pos.start
  | «at» i hi hs =>
    simp only [Nat.add_sub_cancel, Nat.zero_lt_succ, if_true]
    cases hn : prevShown n shown i with
    | none =>
      have := (prevShown_none n shown hn).1
      rw [this]; exact Pos.start
    | some j =>
      obtain ⟨_, hj, hsj, hr, _⟩ := prevShown_some n shown hn
      have := Pos.at (n := n) (shown := shown) j hj hsj
      rw [hr] at this; exact this
  | fin =>
    simp only [Nat.add_sub_cancel, Nat.zero_lt_succ, if_true]
    cases hn : prevShown n shown n with
    | none =>
      have := (prevShown_none n shown hn).1
      rw [rank_n] at this
      rw [this]; exact Pos.start
    | some j =>
      obtain ⟨_, hj, hsj, hr, _⟩ := prevShown_some n shown hn
      have := Pos.at (n := n) (shown := shown) j hj hsj
      rw [hr, rank_n] at this; exact this

theorem nextShown_of_shown {i : Nat} (hi : i < n) (hs : shown i = true) : nextShown n shown i = some i := by
  cases hn : nextShown n shown i with
  | none =>
    have := (nextShown_none n shown hn).2 i (Nat.le_refl _) hi
    rw [hs] at this; cases this
  | some j =>
    obtain ⟨hij, _, _, _, hnone⟩ := nextShown_some n shown hn
    by_cases hji : j = i
    · rw [hji]
    · have := hnone i (Nat.le_refl _) (by omega)
      rw [hs] at this; cases this

theorem nextShown_skip {i : Nat} (hs : shown i = false) : nextShown n shown i = nextShown n shown (i+1) := by
  unfold nextShown
  congr 1
  apply List.filter_congr
  intro x hx
  have hxS := (mem_S n shown).mp hx
  have : x ≠ i := by intro h; subst h; rw [hs] at hxS; cases hxS.2
  simp; omega

theorem nextShown_ge_n {i : Nat} (hi : n ≤ i) : nextShown n shown i = none := by
  unfold nextShown
  rw [List.head?_eq_none_iff, List.filter_eq_nil_iff]
  intro x hx
  have := (mem_S n shown).mp hx
  simp; omega

/-- landing on the first shown index at or after `i` -/
theorem pos_at_next (i : Nat) :
    Pos n shown (match nextShown n shown i with | some j => j+1 | none => n+1) (rank n shown i + 1) := by
  cases hn : nextShown n shown i with
  | none =>
    have := (nextShown_none n shown hn).1
    rw [this]; exact Pos.fin
  | some j =>
    obtain ⟨_, hj, hs, hr, _⟩ := nextShown_some n shown hn
    have := Pos.at (n := n) (shown := shown) j hj hs
    rw [hr] at this; exact this

/-! The filtered list itself. -/

theorem filterMap_get {α β : Type} (f : α → Option β) :
    ∀ (l : List α) (r : Nat), (∀ a ∈ l, (f a).isSome = true) → (l.filterMap f)[r]? = l[r]?.bind f := by
  intro l
  induction l with
  | nil => intro r _; simp
  | cons a t ih =>
    intro r h
    have ha := h a (by simp)
    obtain ⟨b, hb⟩ := Option.isSome_iff_exists.mp ha
    rw [List.filterMap_cons, hb]
    cases r with
    | zero => simp [hb]
    | succ r =>
      simp only [List.getElem?_cons_succ]
      exact ih r (fun x hx => h x (List.mem_cons_of_mem _ hx))

theorem filterMap_length {α β : Type} (f : α → Option β) :
    ∀ (l : List α), (∀ a ∈ l, (f a).isSome = true) → (l.filterMap f).length = l.length := by
  intro l
  induction l with
  | nil => intro _; rfl
  | cons a t ih =>
    intro h
    obtain ⟨b, hb⟩ := Option.isSome_iff_exists.mp (h a (by simp))
    rw [List.filterMap_cons, hb]
    simp [ih (fun x hx => h x (List.mem_cons_of_mem _ hx))]

variable {E : Type} (xs : List E)

/-- the entries at the shown indices, in order (here `n = xs.length`) -/
def P (shown : Nat → Bool) : List E := (S xs.length shown).filterMap (fun i => xs[i]?)

theorem P_get (shown : Nat → Bool) (r : Nat) :
    (P xs shown)[r]? = (S xs.length shown)[r]?.bind (fun i => xs[i]?) := by
  unfold P
  apply filterMap_get
  intro a ha
  have := (mem_S xs.length shown).mp ha
  simp [this.1]

/-- observations agree under `Pos` -/
theorem pos_kv (shown : Nat → Bool) {q p : Nat} (h : Pos xs.length shown q p) :
    (Ref.mk xs q).kv = (Ref.mk (P xs shown) p).kv := by
  cases h with
  | start => simp [Ref.kv]
  | «at» i hi hs =>
    simp only [Ref.kv, Nat.add_sub_cancel, Nat.succ_ne_zero, if_false]
    rw [P_get, S_get_rank, nextShown_of_shown _ _ hi hs]
    simp
  | fin =>
    simp only [Ref.kv, Nat.add_sub_cancel, Nat.succ_ne_zero, if_false]
    rw [P_get]
    simp

/-- `seek` in the filtered view: the predicate is false on shown entries before `f`, true from `f` on -/
theorem findIdx_P (shown : Nat → Bool) (pred : E → Bool) (f : Nat)
    (hlo : ∀ i e, i < f → xs[i]? = some e → pred e = false)
    (hhi : ∀ i e, f ≤ i → xs[i]? = some e → pred e = true) :
    (P xs shown).findIdx pred = rank xs.length shown f := by
  unfold P rank
  conv => lhs; arg 2; arg 2; rw [S_split xs.length shown f]
  rw [List.filterMap_append, List.findIdx_append]
  have hlen : (((S xs.length shown).filter (fun j => decide (j < f))).filterMap (fun i => xs[i]?)).length
      = ((S xs.length shown).filter (fun j => decide (j < f))).length := by
    apply filterMap_length
    intro a ha
    have := (mem_S xs.length shown).mp (List.mem_filter.mp ha).1
    simp [this.1]
  have h1 : (((S xs.length shown).filter (fun j => decide (j < f))).filterMap (fun i => xs[i]?)).findIdx pred
      = (((S xs.length shown).filter (fun j => decide (j < f))).filterMap (fun i => xs[i]?)).length := by
    apply List.findIdx_eq_length_of_false
    intro x hx
    rw [List.mem_filterMap] at hx
    obtain ⟨i, hi, hxi⟩ := hx
    have : i < f := by simpa using (List.mem_filter.mp hi).2
    exact hlo i x this hxi
  have h2 : (((S xs.length shown).filter (fun j => decide (f ≤ j))).filterMap (fun i => xs[i]?)).findIdx pred = 0 := by
    cases hl : ((S xs.length shown).filter (fun j => decide (f ≤ j))).filterMap (fun i => xs[i]?) with
    | nil => rfl
    | cons a t =>
      have ha : a ∈ ((S xs.length shown).filter (fun j => decide (f ≤ j))).filterMap (fun i => xs[i]?) := by
        rw [hl]; simp
      rw [List.mem_filterMap] at ha
      obtain ⟨i, hi, hxi⟩ := ha
      have : f ≤ i := by simpa using (List.mem_filter.mp hi).2
      simp [List.findIdx_cons, hhi i a this hxi]
  rw [h1, h2, hlen]
  simp

end Blue.Cursor.Filtered
