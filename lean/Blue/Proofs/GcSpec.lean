import Blue.Model.GcSpec
import Blue.Proofs.GcPolicy
/-! `gcP` (the collector loop over the determiner tree) = the declarative semantics of
    `Blue.Model.GcSpec`, exactly. -/
namespace Blue.Gc
variable {K : Type} [DecidableEq K]

/-! ### the pointwise core: a decision from (count, timestamp) -/
mutual
def keepsC : Policy → Nat → Nat → Nat → Bool
  | .versions n, _, c, _ => decide (c ≤ n)
  | .expires micros, now, _, ts => decide (now - micros ≤ ts)
  | .any ps, now, c, ts => keepsCAny ps now c ts
  | .all ps, now, c, ts => keepsCAll ps now c ts
def keepsCAny : List Policy → Nat → Nat → Nat → Bool
  | [], _, _, _ => false
  | p :: ps, now, c, ts => keepsC p now c ts || keepsCAny ps now c ts
def keepsCAll : List Policy → Nat → Nat → Nat → Bool
  | [], _, _, _ => true
  | p :: ps, now, c, ts => keepsC p now c ts && keepsCAll ps now c ts
end

mutual
theorem keeps_eq_core (now : Nat) (h : List (Ent K)) (i : Nat) : ∀ p : Policy,
    keeps p now h i = keepsC p now (vcount h i) (tsAt h i)
  | .versions n => rfl
  | .expires m => rfl
  | .any ps => by simp only [keeps, keepsC]; exact keepsAny_eq_core now h i ps
  | .all ps => by simp only [keeps, keepsC]; exact keepsAll_eq_core now h i ps
theorem keepsAny_eq_core (now : Nat) (h : List (Ent K)) (i : Nat) : ∀ ps : List Policy,
    keepsAny ps now h i = keepsCAny ps now (vcount h i) (tsAt h i)
  | [] => rfl
  | p :: ps => by
    simp only [keepsAny, keepsCAny]; rw [keeps_eq_core now h i p, keepsAny_eq_core now h i ps]
theorem keepsAll_eq_core (now : Nat) (h : List (Ent K)) (i : Nat) : ∀ ps : List Policy,
    keepsAll ps now h i = keepsCAll ps now (vcount h i) (tsAt h i)
  | [] => rfl
  | p :: ps => by
    simp only [keepsAll, keepsCAll]; rw [keeps_eq_core now h i p, keepsAll_eq_core now h i ps]
end

/-! ### the determiner tree of `p` while it counts key `k`, having counted `c` -/
mutual
def detAt (now : Nat) (k : K) (c : Nat) : Policy → Det K
  | .versions n => .versions n ⟨some k, c⟩
  | .expires micros => .expires (now - micros)
  | .any ps => .any (detsAt now k c ps)
  | .all ps => .all (detsAt now k c ps)
def detsAt (now : Nat) (k : K) (c : Nat) : List Policy → List (Det K)
  | [] => []
  | p :: ps => detAt now k c p :: detsAt now k c ps
end

mutual
theorem det_view_none (now : Nat) (k : K) : ∀ p : Policy,
    (p.det now (none : Option K)).view k = detAt now k 0 p
  | .versions n => by simp [Policy.det, Det.view, viewS, detAt]
  | .expires m => rfl
  | .any ps => by simp only [Policy.det, Det.view, detAt]; rw [dets_view_none now k ps]
  | .all ps => by simp only [Policy.det, Det.view, detAt]; rw [dets_view_none now k ps]
theorem dets_view_none (now : Nat) (k : K) : ∀ ps : List Policy,
    Det.viewL k (Policy.dets now (none : Option K) ps) = detsAt now k 0 ps
  | [] => rfl
  | p :: ps => by
    simp only [Policy.dets, Det.viewL, detsAt]; rw [det_view_none now k p, dets_view_none now k ps]
end

/-- the count after a call -/
def bump (c : Nat) (tombs : List Nat) : Nat := if tombs.isEmpty then c + 1 else c + 2

mutual
theorem retain_detAt (now : Nat) (k : K) (c : Nat) (tombs : List Nat) (ts : Nat) : ∀ p : Policy,
    (detAt now k c p).retain k tombs ts
      = (keepsC p now (bump c tombs) ts, detAt now k (bump c tombs) p)
  | .versions n => by
    simp only [detAt, Det.retain, vRetain, keepsC, bump, ne_eq, not_true_eq_false, if_false]
    rfl
  | .expires m => by simp only [detAt, Det.retain, keepsC]
  | .any ps => by
    simp only [detAt, Det.retain, keepsC]
    rw [(retainAll_detsAt now k c tombs ts ps).1, (retainAll_detsAt now k c tombs ts ps).2.1,
      (retainAll_detsAt now k c tombs ts ps).2.2.1]
  | .all ps => by
    simp only [detAt, Det.retain, keepsC]
    rw [(retainAll_detsAt now k c tombs ts ps).1, (retainAll_detsAt now k c tombs ts ps).2.1,
      (retainAll_detsAt now k c tombs ts ps).2.2.2]
theorem retainAll_detsAt (now : Nat) (k : K) (c : Nat) (tombs : List Nat) (ts : Nat) :
    ∀ ps : List Policy,
      (Det.retainAll (detsAt now k c ps) k tombs ts).2 = detsAt now k (bump c tombs) ps
      ∧ (Det.retainAll (detsAt now k c ps) k tombs ts).1
          = (Det.retainAll (detsAt now k c ps) k tombs ts).1
      ∧ (Det.retainAll (detsAt now k c ps) k tombs ts).1.any id
          = keepsCAny ps now (bump c tombs) ts
      ∧ (Det.retainAll (detsAt now k c ps) k tombs ts).1.all id
          = keepsCAll ps now (bump c tombs) ts
  | [] => ⟨rfl, rfl, rfl, rfl⟩
  | p :: ps => by
    have hp := retain_detAt now k c tombs ts p
    obtain ⟨h1, _, h3, h4⟩ := retainAll_detsAt now k c tombs ts ps
    simp only [detsAt, Det.retainAll, hp, h1, List.any_cons, List.all_cons, id, h3, h4,
      keepsCAny, keepsCAll, and_self]
end

/-! ### step A: the loop with the determiner tree = a walk with (count, last tombstone) -/

def pendOut (k : K) : Option Nat → List (K × Nat)
  | some t => [(k, t)]
  | none => []

def walk (p : Policy) (now : Nat) (k : K) : List (Ent K) → Nat → Option Nat → List (K × Nat)
  | [], _, _ => []
  | e :: rest, c, lt =>
    if e.tomb then walk p now k rest c (some e.ts)
    else
      if keepsC p now (if lt.isSome then c + 2 else c + 1) e.ts then
        pendOut k lt ++ (k, e.ts) :: walk p now k rest (if lt.isSome then c + 2 else c + 1) none
      else walk p now k rest (if lt.isSome then c + 2 else c + 1) none

theorem emit_eq (k : K) (tombs : List Nat) (ts : Nat) :
    emit k tombs ts = pendOut k tombs.getLast? ++ [(k, ts)] := by
  unfold emit
  cases tombs.getLast? <;> rfl

theorem bump_eq (c : Nat) (tombs : List Nat) :
    bump c tombs = if tombs.getLast?.isSome then c + 2 else c + 1 := by
  unfold bump
  cases tombs with
  | nil => rfl
  | cons a t => simp [List.getLast?_cons]

theorem gcLoopD_walk (p : Policy) (now : Nat) (k : K) : ∀ (g : List (Ent K)), AllKey k g →
    ∀ (tombs : List Nat) (c : Nat),
      gcLoopD g k tombs (detAt now k c p) = walk p now k g c tombs.getLast? := by
  intro g
  induction g with
  | nil => intros; rfl
  | cons e g ih =>
    intro hall tombs c
    have hek : e.key = k := hall e (List.mem_cons_self ..)
    have hall' : AllKey k g := fun x hx => hall x (List.mem_cons_of_mem _ hx)
    simp only [gcLoopD, walk, hek, if_true]
    cases e.tomb with
    | true =>
      simp only [if_true]
      rw [ih hall' (tombs ++ [e.ts]) c]
      simp
    | false =>
      simp only [Bool.false_eq_true, if_false, retain_detAt, emit_eq, bump_eq]
      rw [ih hall' [] _]
      simp

/-! ### step B: the walk = the positions the declarative semantics keeps -/

def keptFrom (p : Policy) (now : Nat) (h suf : List (Ent K)) (n : Nat) : List (K × Nat) :=
  ((suf.zipIdx n).filter (fun x => specKeeps p now h x.2)).map (fun x => (x.1.key, x.1.ts))

theorem kept_eq_keptFrom (p : Policy) (now : Nat) (h : List (Ent K)) :
    kept p now h = keptFrom p now h h 0 := rfl

theorem drop_cons_inv {α : Type} (h : List α) (n : Nat) (e : α) (rest : List α)
    (hd : h.drop n = e :: rest) : h[n]? = some e ∧ h.drop (n + 1) = rest := by
  constructor
  · have := List.getElem?_drop (xs := h) (i := n) (j := 0)
    rw [hd] at this
    simpa using this.symm
  · have : h.drop (n + 1) = (h.drop n).drop 1 := by rw [List.drop_drop]
    rw [this, hd]; rfl

theorem vcountBelow_succ (h : List (Ent K)) (n : Nat) :
    vcountBelow h (n + 1) = vcountBelow h n + weight h n := by
  simp [vcountBelow, List.range_succ]

/-- the tombstone pending above the head of the suffix, returned iff the head is a retained value -/
def pend (p : Policy) (now : Nat) (k : K) (c : Nat) : Option Nat → List (Ent K) → List (K × Nat)
  | some t, e :: _ => if !e.tomb && keepsC p now (c + 2) e.ts then [(k, t)] else []
  | _, _ => []

theorem walk_spec (p : Policy) (now : Nat) (k : K) (h : List (Ent K)) (hall : AllKey k h) :
    ∀ (suf : List (Ent K)) (n : Nat) (c : Nat) (lt : Option Nat),
      h.drop n = suf → c = vcountBelow h n → lt = prevTomb h n →
      walk p now k suf c lt = pend p now k c lt suf ++ keptFrom p now h suf n := by
  intro suf
  induction suf with
  | nil =>
    intro n c lt _ _ _
    cases lt <;> rfl
  | cons e rest ih =>
    intro n c lt hd hc hlt
    obtain ⟨hn, hd'⟩ := drop_cons_inv h n e rest hd
    have hek : e.key = k := hall e (List.mem_of_getElem? hn)
    have hkf : keptFrom p now h (e :: rest) n
        = (if specKeeps p now h n then [(k, e.ts)] else []) ++ keptFrom p now h rest (n + 1) := by
      simp only [keptFrom, List.zipIdx_cons, List.filter_cons]
      cases specKeeps p now h n <;> simp [hek]
    have hprev : prevTomb h (n + 1) = if e.tomb then some e.ts else none := by
      simp only [prevTomb, hn]
    rw [hkf]
    cases het : e.tomb with
    | true =>
      have hw : weight h n = 0 := by simp [weight, hn, het]
      have hc' : c = vcountBelow h (n + 1) := by rw [vcountBelow_succ, hw, hc]; rfl
      have hlt' : some e.ts = prevTomb h (n + 1) := by rw [hprev, het]; rfl
      have hih := ih (n + 1) c (some e.ts) hd' hc' hlt'
      simp only [walk, het, if_true]
      rw [hih]
      have hp0 : pend p now k c lt (e :: rest) = [] := by
        cases lt <;> simp [pend, het]
      rw [hp0, List.nil_append]
      congr 1
      -- the pending tombstone is returned iff `tombKept`
      simp only [specKeeps, hn, het, if_true, tombKept]
      cases rest with
      | nil =>
        have : h[n + 1]? = none := by
          have := List.getElem?_drop (xs := h) (i := n + 1) (j := 0)
          rw [hd'] at this; simpa using this.symm
        simp [this, pend]
      | cons e' rest' =>
        obtain ⟨hn', _⟩ := drop_cons_inv h (n + 1) e' rest' hd'
        simp only [hn', pend]
        cases het' : e'.tomb with
        | true => simp
        | false =>
          have hw' : weight h (n + 1) = 2 := by simp [weight, hn', het', hprev, het]
          have hv : vcount h (n + 1) = c + 2 := by
            unfold vcount; rw [vcountBelow_succ, hw', ← hc']
          have hts : tsAt h (n + 1) = e'.ts := by simp [tsAt, hn']
          rw [keeps_eq_core, hv, hts]
    | false =>
      have hw : weight h n = if lt.isSome then 2 else 1 := by
        simp [weight, hn, het, hlt]
      have hcc : (if lt.isSome then c + 2 else c + 1) = vcountBelow h (n + 1) := by
        rw [vcountBelow_succ, hw, hc]; cases lt.isSome <;> rfl
      have hlt' : (none : Option Nat) = prevTomb h (n + 1) := by rw [hprev, het]; rfl
      have hih := ih (n + 1) _ none hd' hcc hlt'
      have hpn : ∀ c', pend p now k c' none rest = [] := by intro c'; rfl
      rw [hpn, List.nil_append] at hih
      have hts : tsAt h n = e.ts := by simp [tsAt, hn]
      have hsk : specKeeps p now h n = keepsC p now (if lt.isSome then c + 2 else c + 1) e.ts := by
        simp only [specKeeps, hn, het, Bool.false_eq_true, if_false]
        rw [keeps_eq_core, hts]; unfold vcount; rw [← hcc]
      simp only [walk, het, Bool.false_eq_true, if_false]
      rw [hih, hsk]
      cases lt with
      | none =>
        simp only [pend, Option.isSome_none, Bool.false_eq_true, if_false, pendOut,
          List.nil_append]
        cases keepsC p now (c + 1) e.ts <;> simp
      | some t =>
        simp only [pend, het, Option.isSome_some, if_true, pendOut, Bool.not_false,
          Bool.true_and]
        cases keepsC p now (c + 2) e.ts <;> simp

/-- one key: the collector with a fresh determiner keeps exactly what the semantics keeps -/
theorem gcLoopD_eq_kept (p : Policy) (hp : p.WF) (now : Nat) (k : K) (h : List (Ent K))
    (hall : AllKey k h) :
    gcLoopD h k [] (p.det now none) = kept p now h := by
  rw [gcLoopD_view k h hall [] _ (det_wf now none p hp), det_view_none, gcLoopD_walk p now k h hall]
  show walk p now k h 0 none = _
  rw [walk_spec p now k h hall h 0 0 none rfl rfl rfl, kept_eq_keptFrom]
  rfl

/-- **C05** the collector's output is EXACTLY what the declarative semantics keeps, key by key -/
theorem gcP_eq_spec (p : Policy) (hp : p.WF) (now : Nat) (k0 : Option K)
    (gs : List (K × List (Ent K))) (hr : Runs gs) :
    gcP p now k0 (flat gs) = gs.flatMap (fun g => kept p now g.2) := by
  rw [gcP_runs p hp now k0 gs hr]
  have : ∀ (l : List (K × List (Ent K))), (∀ g ∈ l, AllKey g.1 g.2) →
      l.flatMap (fun g => gcLoopD g.2 g.1 [] (p.det now none))
        = l.flatMap (fun g => kept p now g.2) := by
    intro l
    induction l with
    | nil => intro _; rfl
    | cons g l ih =>
      intro hl
      simp only [List.flatMap_cons]
      rw [gcLoopD_eq_kept p hp now g.1 g.2 (hl g (List.mem_cons_self ..)),
        ih (fun x hx => hl x (List.mem_cons_of_mem _ hx))]
  exact this gs hr.allKey

/-! ### consequences of the specification -/

mutual
theorem keepsC_mono (now c c' ts ts' : Nat) (hc : c ≤ c') (ht : ts' ≤ ts) : ∀ p : Policy,
    keepsC p now c' ts' = true → keepsC p now c ts = true
  | .versions n => by simp only [keepsC, decide_eq_true_eq]; omega
  | .expires m => by simp only [keepsC, decide_eq_true_eq]; omega
  | .any ps => by simp only [keepsC]; exact keepsCAny_mono now c c' ts ts' hc ht ps
  | .all ps => by simp only [keepsC]; exact keepsCAll_mono now c c' ts ts' hc ht ps
theorem keepsCAny_mono (now c c' ts ts' : Nat) (hc : c ≤ c') (ht : ts' ≤ ts) : ∀ ps : List Policy,
    keepsCAny ps now c' ts' = true → keepsCAny ps now c ts = true
  | [] => by simp [keepsCAny]
  | p :: ps => by
    simp only [keepsCAny, Bool.or_eq_true]
    rintro (h | h)
    · exact Or.inl (keepsC_mono now c c' ts ts' hc ht p h)
    · exact Or.inr (keepsCAny_mono now c c' ts ts' hc ht ps h)
theorem keepsCAll_mono (now c c' ts ts' : Nat) (hc : c ≤ c') (ht : ts' ≤ ts) : ∀ ps : List Policy,
    keepsCAll ps now c' ts' = true → keepsCAll ps now c ts = true
  | [] => by simp [keepsCAll]
  | p :: ps => by
    simp only [keepsCAll, Bool.and_eq_true]
    rintro ⟨h1, h2⟩
    exact ⟨keepsC_mono now c c' ts ts' hc ht p h1, keepsCAll_mono now c c' ts ts' hc ht ps h2⟩
end

theorem vcountBelow_mono (h : List (Ent K)) {a b : Nat} (hab : a ≤ b) :
    vcountBelow h a ≤ vcountBelow h b := by
  induction hab with
  | refl => exact Nat.le_refl _
  | step _ ih => rw [vcountBelow_succ]; omega

theorem tsAt_of_lt (h : List (Ent K)) (i : Nat) (hi : i < h.length) : tsAt h i = h[i].ts := by
  simp [tsAt, List.getElem?_eq_getElem hi]

/-- **C05** the retained VALUES of a key form a prefix of its history - not because the loop stops
    at the first refusal (it does not: every value is offered), but because each clause of the
    language is monotone in (count, timestamp) and timestamps decrease -/
theorem spec_is_prefix_closed (p : Policy) (now : Nat) (h : List (Ent K))
    (hts : h.Pairwise (fun a b => b.ts < a.ts)) (i j : Nat) (hij : i ≤ j) (hj : j < h.length)
    (hk : keeps p now h j = true) : keeps p now h i = true := by
  rw [keeps_eq_core] at hk ⊢
  refine keepsC_mono now _ _ _ _ (vcountBelow_mono h (by omega)) ?_ p hk
  rw [tsAt_of_lt h j hj, tsAt_of_lt h i (by omega)]
  by_cases he : i = j
  · subst he; exact Nat.le_refl _
  · have := (List.pairwise_iff_getElem.mp hts) i j (by omega) hj (by omega)
    omega

theorem mem_kept (p : Policy) (now : Nat) (h : List (Ent K)) (x : K × Nat) :
    x ∈ kept p now h ↔ ∃ (j : Nat) (hj : j < h.length),
      specKeeps p now h j = true ∧ x = (h[j].key, h[j].ts) := by
  unfold kept
  simp only [List.mem_map, List.mem_filter, List.mem_zipIdx_iff_getElem?]
  constructor
  · rintro ⟨⟨e, j⟩, ⟨hm, hs⟩, rfl⟩
    simp only at hm hs
    obtain ⟨hj, he⟩ := List.getElem?_eq_some_iff.mp hm
    exact ⟨j, hj, hs, by rw [he]⟩
  · rintro ⟨j, hj, hs, rfl⟩
    exact ⟨(h[j], j), ⟨by simp, hs⟩, rfl⟩

theorem runs_key_inj : ∀ (gs : List (K × List (Ent K))), (gs.map (·.1)).Nodup →
    ∀ g ∈ gs, ∀ g' ∈ gs, g.1 = g'.1 → g = g' := by
  intro gs
  induction gs with
  | nil => intro _ g hg; cases hg
  | cons a l ih =>
    intro hnd g hg g' hg' hk
    simp only [List.map_cons, List.nodup_cons] at hnd
    rcases List.mem_cons.mp hg with h1 | h1
    · rcases List.mem_cons.mp hg' with h2 | h2
      · rw [h1, h2]
      · exact absurd (h1 ▸ hk ▸ List.mem_map_of_mem (f := (·.1)) h2) hnd.1
    · rcases List.mem_cons.mp hg' with h2 | h2
      · exact absurd (h2 ▸ hk.symm ▸ List.mem_map_of_mem (f := (·.1)) h1) hnd.1
      · exact ih hnd.2 g h1 g' h2 hk

/-- **C05** membership form: version `i` of the key of run `g` is in the output iff the
    declarative semantics keeps it -/
theorem mem_gcP_iff (p : Policy) (hp : p.WF) (now : Nat) (k0 : Option K)
    (gs : List (K × List (Ent K))) (hr : Runs gs)
    (hts : ∀ g ∈ gs, g.2.Pairwise (fun a b => b.ts < a.ts))
    (g : K × List (Ent K)) (hg : g ∈ gs) (i : Nat) (hi : i < g.2.length) :
    (g.1, g.2[i].ts) ∈ gcP p now k0 (flat gs) ↔ specKeeps p now g.2 i = true := by
  rw [gcP_eq_spec p hp now k0 gs hr, List.mem_flatMap]
  constructor
  · rintro ⟨g', hg', hm⟩
    obtain ⟨j, hj, hs, hx⟩ := (mem_kept p now g'.2 _).mp hm
    have hk : g'.2[j].key = g'.1 := hr.allKey g' hg' _ (List.getElem_mem hj)
    have h1 : g.1 = g'.1 := by rw [← hk]; exact congrArg Prod.fst hx
    have hgg : g = g' := runs_key_inj gs hr.distinct g hg g' hg' h1
    subst hgg
    have h2 : g.2[i].ts = g.2[j].ts := congrArg Prod.snd hx
    have hpw := List.pairwise_iff_getElem.mp (hts g hg)
    have hij : i = j := by
      rcases Nat.lt_trichotomy i j with hlt | heq | hgt
      · have := hpw i j hi hj hlt; omega
      · exact heq
      · have := hpw j i hj hi hgt; omega
    rw [hij]; exact hs
  · intro hs
    refine ⟨g, hg, (mem_kept p now g.2 _).mpr ⟨i, hi, hs, ?_⟩⟩
    rw [hr.allKey g hg _ (List.getElem_mem hi)]

/-- **C05** an entry is dropped iff the declarative semantics does not keep it -/
theorem gc_discards_only_what_policy_permits (p : Policy) (hp : p.WF) (now : Nat) (k0 : Option K)
    (gs : List (K × List (Ent K))) (hr : Runs gs)
    (hts : ∀ g ∈ gs, g.2.Pairwise (fun a b => b.ts < a.ts))
    (g : K × List (Ent K)) (hg : g ∈ gs) (i : Nat) (hi : i < g.2.length) :
    (g.1, g.2[i].ts) ∉ gcP p now k0 (flat gs) ↔ specKeeps p now g.2 i = false := by
  rw [mem_gcP_iff p hp now k0 gs hr hts g hg i hi]
  cases specKeeps p now g.2 i <;> simp

/-- the policy retains a value that is the newest version of its key and has timestamp `ts`:
    `versions = n`: `1 ≤ n`; `ttl_micros = m`: `now - m ≤ ts`; `any`: some member; `all`: every
    member -/
def keepsNewestAt (p : Policy) (now ts : Nat) : Bool := keepsC p now 1 ts

theorem keepsNewestAt_versions (n now ts : Nat) :
    keepsNewestAt (.versions n) now ts = decide (1 ≤ n) := rfl
theorem keepsNewestAt_expires (m now ts : Nat) :
    keepsNewestAt (.expires m) now ts = decide (now - m ≤ ts) := rfl
theorem keepsNewestAt_any_cons (p : Policy) (ps : List Policy) (now ts : Nat) :
    keepsNewestAt (.any (p :: ps)) now ts
      = (keepsNewestAt p now ts || keepsNewestAt (.any ps) now ts) := rfl
theorem keepsNewestAt_any_nil (now ts : Nat) : keepsNewestAt (.any []) now ts = false := rfl
theorem keepsNewestAt_all_cons (p : Policy) (ps : List Policy) (now ts : Nat) :
    keepsNewestAt (.all (p :: ps)) now ts
      = (keepsNewestAt p now ts && keepsNewestAt (.all ps) now ts) := rfl
theorem keepsNewestAt_all_nil (now ts : Nat) : keepsNewestAt (.all []) now ts = true := rfl

theorem specKeeps_head_value (p : Policy) (now : Nat) (v : Ent K) (rest : List (Ent K))
    (hv : v.tomb = false) : specKeeps p now (v :: rest) 0 = keepsNewestAt p now v.ts := by
  have hw : vcount (v :: rest) 0 = 1 := by
    simp [vcount, vcountBelow, weight, hv, prevTomb, List.range_succ]
  simp only [specKeeps, List.getElem?_cons_zero, hv, Bool.false_eq_true, if_false]
  rw [keeps_eq_core, hw]
  rfl

/-- **C05** the current value of a key (its newest version, a value) is kept IFF the policy
    retains a newest value of that timestamp -/
theorem gc_keeps_current_value_iff (p : Policy) (hp : p.WF) (now : Nat) (k0 : Option K)
    (gs : List (K × List (Ent K))) (hr : Runs gs)
    (hts : ∀ g ∈ gs, g.2.Pairwise (fun a b => b.ts < a.ts))
    (g : K × List (Ent K)) (hg : g ∈ gs) (v : Ent K) (rest : List (Ent K))
    (hgv : g.2 = v :: rest) (hv : v.tomb = false) :
    (g.1, v.ts) ∈ gcP p now k0 (flat gs) ↔ keepsNewestAt p now v.ts = true := by
  have hi : 0 < g.2.length := by rw [hgv]; simp
  have h0 : g.2[0].ts = v.ts := by simp [hgv]
  have := mem_gcP_iff p hp now k0 gs hr hts g hg 0 hi
  rw [h0] at this
  rw [this, hgv, specKeeps_head_value p now v rest hv]

mutual
theorem selectsNewest_keepsNewestAt (now ts : Nat) : ∀ p : Policy, p.WF →
    p.selectsNewest now = true → keepsC p now 1 ts = true
  | .versions n, _, h => by simpa [Policy.selectsNewest, keepsC] using h
  | .expires m, _, h => by
    simp only [Policy.selectsNewest, decide_eq_true_eq] at h
    simp only [keepsC, decide_eq_true_eq]; omega
  | .any ps, hw, h => by
    simp only [Policy.selectsNewest, Policy.WF] at h hw
    simp only [keepsC]; exact selectsNewestAny_keeps now ts ps hw h
  | .all ps, hw, h => by
    simp only [Policy.selectsNewest, Policy.WF] at h hw
    simp only [keepsC]; exact selectsNewestAll_keeps now ts ps hw h
theorem selectsNewestAny_keeps (now ts : Nat) : ∀ ps : List Policy, Policy.WFL ps →
    Policy.selectsNewestAny now ps = true → keepsCAny ps now 1 ts = true
  | [], _, h => by simp [Policy.selectsNewestAny] at h
  | p :: ps, hw, h => by
    simp only [Policy.selectsNewestAny, Bool.or_eq_true, Policy.WFL] at h hw
    simp only [keepsCAny, Bool.or_eq_true]
    rcases h with h | h
    · exact Or.inl (selectsNewest_keepsNewestAt now ts p hw.1 h)
    · exact Or.inr (selectsNewestAny_keeps now ts ps hw.2 h)
theorem selectsNewestAll_keeps (now ts : Nat) : ∀ ps : List Policy, Policy.WFL ps →
    Policy.selectsNewestAll now ps = true → keepsCAll ps now 1 ts = true
  | [], _, _ => rfl
  | p :: ps, hw, h => by
    simp only [Policy.selectsNewestAll, Bool.and_eq_true, Policy.WFL] at h hw
    simp only [keepsCAll, Bool.and_eq_true]
    exact ⟨selectsNewest_keepsNewestAt now ts p hw.1 h.1, selectsNewestAll_keeps now ts ps hw.2 h.2⟩
end

/-- **C05** `versions = n`: a value is kept iff the versions counted down to it (a value under
    tombstones counts two) are at most `n`; a tombstone iff it stands directly above such a value -/
theorem versions_n_keeps_exactly (n now : Nat) (h : List (Ent K)) (i : Nat) :
    specKeeps (.versions n) now h i
      = (match h[i]? with
        | some e =>
          if e.tomb then
            (match h[i + 1]? with
             | some e' => !e'.tomb && decide (vcount h (i + 1) ≤ n)
             | none => false)
          else decide (vcount h i ≤ n)
        | none => false) := rfl

/-- **C05** `ttl_micros = m`: a value is kept iff `now - m ≤` its timestamp (saturating); a
    tombstone iff it stands directly above such a value -/
theorem ttl_keeps_exactly (m now : Nat) (h : List (Ent K)) (i : Nat) :
    specKeeps (.expires m) now h i
      = (match h[i]? with
        | some e =>
          if e.tomb then
            (match h[i + 1]? with
             | some e' => !e'.tomb && decide (now - m ≤ e'.ts)
             | none => false)
          else decide (now - m ≤ e.ts)
        | none => false) := by
  unfold specKeeps tombKept
  cases hi : h[i]? with
  | none => rfl
  | some e =>
    cases hi' : h[i + 1]? with
    | none => simp [keeps, tsAt, hi]
    | some e' => simp [keeps, tsAt, hi, hi']

/-! ### the entry-level form: `gcP … run = ents (run.filter (specKeepsE … run))` -/

theorem rank_eq (h : List (Ent K)) (hts : h.Pairwise (fun a b => b.ts < a.ts)) :
    ∀ (i : Nat) (hi : i < h.length), (h.filter (fun x => decide (h[i].ts < x.ts))).length = i := by
  induction h with
  | nil => intro i hi; cases hi
  | cons a t ih =>
    intro i hi
    rw [List.pairwise_cons] at hts
    cases i with
    | zero =>
      have : (a :: t).filter (fun x => decide (a.ts < x.ts)) = [] := by
        rw [List.filter_eq_nil_iff]
        intro x hx
        rcases List.mem_cons.mp hx with rfl | hx
        · simp
        · have := hts.1 x hx; simp; omega
      simp [this]
    | succ j =>
      have hj : j < t.length := by simpa using hi
      have ha : t[j].ts < a.ts := hts.1 _ (List.getElem_mem hj)
      simp only [List.getElem_cons_succ, List.filter_cons, ha, decide_true, if_true,
        List.length_cons]
      rw [ih hts.2 j hj]

theorem zipIdx_filter_rank {β : Type} (l : List (Ent K)) (f : Ent K → β) (P : Nat → Bool)
    (r : Ent K → Nat) (hr : ∀ (i : Nat) (hi : i < l.length), r l[i] = i) :
    (l.zipIdx.filter (fun x => P x.2)).map (fun x => f x.1) = (l.filter (fun e => P (r e))).map f := by
  have h1 : l.zipIdx.filter (fun x => P x.2) = l.zipIdx.filter (fun x => P (r x.1)) := by
    apply List.filter_congr
    intro x hx
    have := List.mem_zipIdx_iff_getElem?.mp hx
    obtain ⟨hj, he⟩ := List.getElem?_eq_some_iff.mp this
    rw [← he, hr x.2 hj]
  rw [h1]
  have h2 : (l.filter (fun e => P (r e))) = ((l.zipIdx.map Prod.fst).filter (fun e => P (r e))) := by
    rw [List.zipIdx_map_fst]
  rw [h2, List.filter_map, List.map_map]
  rfl

theorem kept_eq_filter (p : Policy) (now : Nat) (h : List (Ent K))
    (hts : h.Pairwise (fun a b => b.ts < a.ts)) :
    kept p now h
      = ents (h.filter (fun e => specKeeps p now h (h.filter (fun x => decide (e.ts < x.ts))).length)) := by
  unfold kept ents
  exact zipIdx_filter_rank h (fun e => (e.key, e.ts)) (fun i => specKeeps p now h i)
    (fun e => (h.filter (fun x => decide (e.ts < x.ts))).length) (rank_eq h hts)

theorem flat_cons (a : K × List (Ent K)) (l : List (K × List (Ent K))) :
    flat (a :: l) = a.2 ++ flat l := by simp [flat]

theorem filter_other_key (k : K) (q : Ent K → Bool) (l : List (Ent K))
    (hl : ∀ e ∈ l, e.key ≠ k) : l.filter (fun x => decide (x.key = k) && q x) = [] := by
  rw [List.filter_eq_nil_iff]
  intro x hx
  simp [hl x hx]

theorem filter_own_key (k : K) (q : Ent K → Bool) (l : List (Ent K))
    (hl : AllKey k l) : l.filter (fun x => decide (x.key = k) && q x) = l.filter q := by
  apply List.filter_congr
  intro x hx
  simp [hl x hx]

theorem flat_filter_key (q : Ent K → Bool) : ∀ (gs : List (K × List (Ent K))), Runs gs →
    ∀ g ∈ gs, (flat gs).filter (fun x => decide (x.key = g.1) && q x) = g.2.filter q := by
  intro gs
  induction gs with
  | nil => intro _ g hg; cases hg
  | cons a l ih =>
    intro hr g hg
    have hr' : Runs l := ⟨fun q hq => hr.allKey q (List.mem_cons_of_mem _ hq),
      fun q hq => hr.nonempty q (List.mem_cons_of_mem _ hq), (List.nodup_cons.mp hr.distinct).2⟩
    have hnd : a.1 ∉ l.map (·.1) := (List.nodup_cons.mp hr.distinct).1
    rw [flat_cons, List.filter_append]
    rcases List.mem_cons.mp hg with h1 | h1
    · rw [h1, filter_own_key a.1 q a.2 (hr.allKey a (List.mem_cons_self ..))]
      have : (flat l).filter (fun x => decide (x.key = a.1) && q x) = [] := by
        apply filter_other_key
        intro e he hek
        obtain ⟨g', hg', heg⟩ := List.mem_flatMap.mp he
        have := hr'.allKey g' hg' e heg
        have h3 : a.1 = g'.1 := hek.symm.trans this
        exact hnd (h3 ▸ List.mem_map_of_mem (f := (·.1)) hg')
      rw [this, List.append_nil]
    · have hne : a.1 ≠ g.1 := fun h => hnd (h ▸ List.mem_map_of_mem (f := (·.1)) h1)
      have : a.2.filter (fun x => decide (x.key = g.1) && q x) = [] := by
        apply filter_other_key
        intro e he hek
        exact hne ((hr.allKey a (List.mem_cons_self ..) e he).symm.trans hek)
      rw [this, List.nil_append, ih hr' g h1]

/-- **C05** the collector's output is EXACTLY the entries of its input that the declarative
    semantics keeps, in order: `filter`, not just a sub-list -/
theorem gcP_eq_filter (p : Policy) (hp : p.WF) (now : Nat) (k0 : Option K)
    (gs : List (K × List (Ent K))) (hr : Runs gs)
    (hts : ∀ g ∈ gs, g.2.Pairwise (fun a b => b.ts < a.ts)) :
    gcP p now k0 (flat gs) = ents ((flat gs).filter (specKeepsE p now (flat gs))) := by
  rw [gcP_eq_spec p hp now k0 gs hr]
  have hE : ∀ g ∈ gs, ∀ e ∈ g.2, specKeepsE p now (flat gs) e
      = specKeeps p now g.2 (g.2.filter (fun x => decide (e.ts < x.ts))).length := by
    intro g hg e he
    have hk : e.key = g.1 := hr.allKey g hg e he
    unfold specKeepsE
    have h1 : (flat gs).filter (fun x => decide (x.key = e.key)) = g.2 := by
      have := flat_filter_key (fun _ => true) gs hr g hg
      have ht : g.2.filter (fun _ => true) = g.2 := List.filter_eq_self.mpr (fun _ _ => rfl)
      simp only [Bool.and_true] at this
      rw [hk, this, ht]
    have h2 : (flat gs).filter (fun x => decide (x.key = e.key ∧ e.ts < x.ts))
        = g.2.filter (fun x => decide (e.ts < x.ts)) := by
      have := flat_filter_key (fun x => decide (e.ts < x.ts)) gs hr g hg
      rw [hk]; simpa only [Bool.decide_and] using this
    rw [h1, h2]
  -- push the filter through the runs
  have : ∀ (l : List (K × List (Ent K))), (∀ g ∈ l, g ∈ gs) →
      l.flatMap (fun g => kept p now g.2)
        = ents ((flat l).filter (specKeepsE p now (flat gs))) := by
    intro l
    induction l with
    | nil => intro _; rfl
    | cons a l ih =>
      intro hl
      have ha : a ∈ gs := hl a (List.mem_cons_self ..)
      rw [List.flatMap_cons, flat_cons, List.filter_append, ih (fun g hg => hl g (List.mem_cons_of_mem _ hg)),
        kept_eq_filter p now a.2 (hts a ha)]
      unfold ents
      rw [List.map_append]
      congr 2
      apply List.filter_congr
      intro e he
      exact (hE a ha e he).symm
  exact this gs (fun g hg => hg)

end Blue.Gc
