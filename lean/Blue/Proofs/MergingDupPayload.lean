import Blue.Proofs.HeapMap
import Blue.Proofs.MergingCongr
import Blue.Proofs.FamilyExists
import Blue.Model.PruningC
import Blue.Model.BoundsC
/-! **C11, malformed input: the same (key, timestamp) held by two children with DIFFERENT payloads.**

`Comparator::is_less` (sst/src/merging_cursor.rs) compares `key()` = (key, timestamp) only, never the
value.  Entries are modelled as `K × P`: `K` the compared part, `P` the payload.  The order on entries
`ltP` looks at the `K` part only, so it is NOT a strict total order on `K × P` and none of the
`merging_refines*` theorems applies.  Here: the K-projection of the merging cursor over such children
is the merging cursor over the projected children (the heap never looks at `P`), hence the reference
merge with multiplicity; and every shown entry is some child's entry. -/
namespace Blue.Cursor
namespace DupPayload
open Blue.Heap
variable {K P : Type}

/-- the comparator of the code: the compared part only -/
def ltP (ltK : K → K → Bool) (a b : K × P) : Bool := ltK a.1 b.1

def proj (c : Ref (K × P)) : Ref K := ⟨c.xs.map Prod.fst, c.pos⟩
def projM (m : Merging (K × P)) : Merging K := ⟨m.fwd, m.cs.map proj⟩

/-- a program over `K` run on entries `K × P`: seek predicates look at the `K` part only -/
def liftOp : Op K → Op (K × P)
  | .first => .first | .last => .last | .next => .next | .prev => .prev
  | .seek p => .seek (fun e => p e.1)

theorem proj_kv (c : Ref (K × P)) : (proj c).kv = c.kv.map Prod.fst := by
  unfold Ref.kv proj
  simp only
  split
  · rfl
  · simp [List.getElem?_map]

theorem proj_first (c : Ref (K × P)) : (proj c).first = proj c.first := rfl
theorem proj_last (c : Ref (K × P)) : (proj c).last = proj c.last := by
  simp [proj, Ref.last]
theorem proj_next (c : Ref (K × P)) : (proj c).next = proj c.next := by
  unfold Ref.next proj
  simp only [List.length_map]
  split <;> rfl
theorem proj_prev (c : Ref (K × P)) : (proj c).prev = proj c.prev := by
  unfold Ref.prev proj
  simp only
  split <;> rfl

theorem findIdx_map_fst (p : K → Bool) : ∀ l : List (K × P),
    (l.map Prod.fst).findIdx p = l.findIdx (fun e => p e.1)
  | [] => rfl
  | a :: t => by simp only [List.map_cons, List.findIdx_cons, findIdx_map_fst p t]

theorem proj_seek (p : K → Bool) (c : Ref (K × P)) :
    (proj c).seek p = proj (c.seek (fun e => p e.1)) := by
  unfold Ref.seek proj
  simp only [findIdx_map_fst]

theorem cmp_proj (ltK : K → K → Bool) (fwd : Bool) (a b : Ref (K × P)) :
    Merging.cmp ltK fwd (proj a) (proj b) = Merging.cmp (ltP ltK) fwd a b := by
  unfold Merging.cmp
  rw [proj_kv, proj_kv]
  cases fwd <;> cases a.kv <;> cases b.kv <;> rfl

theorem modifyHead_map (g : Ref (K × P) → Ref (K × P)) (g' : Ref K → Ref K)
    (h : ∀ c, g' (proj c) = proj (g c)) (l : List (Ref (K × P))) :
    Merging.modifyHead g' (l.map proj) = (Merging.modifyHead g l).map proj := by
  cases l with
  | nil => rfl
  | cons a t => simp [Merging.modifyHead, h]

theorem map_comm (g : Ref (K × P) → Ref (K × P)) (g' : Ref K → Ref K)
    (h : ∀ c, g' (proj c) = proj (g c)) (l : List (Ref (K × P))) :
    (l.map proj).map g' = (l.map g).map proj := by
  simp [List.map_map, Function.comp_def, h]

theorem heapify_proj (ltK : K → K → Bool) (fwd : Bool) (l : List (Ref (K × P))) :
    heapify (Merging.cmp ltK fwd) (l.map proj) = (heapify (Merging.cmp (ltP ltK) fwd) l).map proj :=
  heapify_map proj _ _ (cmp_proj ltK fwd) l

theorem percolate_proj (ltK : K → K → Bool) (fwd : Bool) (l : List (Ref (K × P))) (i n : Nat) :
    percolateDown (Merging.cmp ltK fwd) (l.map proj) i n
      = (percolateDown (Merging.cmp (ltP ltK) fwd) l i n).map proj :=
  percolateDown_map proj _ _ (cmp_proj ltK fwd) n l i

/-- one operation: the projection of the merging cursor over `K × P` is the merging cursor over the
    projected children -/
theorem projM_step (ltK : K → K → Bool) (m : Merging (K × P)) (op : Op K) :
    projM (Merging.step (ltP ltK) m (liftOp op)) = Merging.step ltK (projM m) op := by
  obtain ⟨fwd, cs⟩ := m
  cases op with
  | first =>
    simp only [liftOp, Merging.step, Merging.seekToFirst, projM]
    rw [map_comm (fun c => c.first.next) (fun c => c.first.next)
      (fun c => by rw [proj_first, proj_next]), heapify_proj,
      modifyHead_map Ref.first Ref.first proj_first]
  | last =>
    simp only [liftOp, Merging.step, Merging.seekToLast, projM]
    rw [map_comm (fun c => c.last.prev) (fun c => c.last.prev)
      (fun c => by rw [proj_last, proj_prev]), heapify_proj,
      modifyHead_map Ref.last Ref.last proj_last]
  | seek p =>
    simp only [liftOp, Merging.step, Merging.seek, projM]
    rw [map_comm (Ref.seek (fun e => p e.1)) (Ref.seek p) (proj_seek p), heapify_proj]
  | next =>
    simp only [liftOp, Merging.step, Merging.next, projM]
    cases fwd with
    | true =>
      simp only [if_true]
      rw [modifyHead_map Ref.next Ref.next proj_next, percolate_proj, List.length_map]
    | false =>
      simp only [Bool.false_eq_true, if_false]
      rw [map_comm Ref.next Ref.next proj_next, heapify_proj]
  | prev =>
    simp only [liftOp, Merging.step, Merging.prev, projM]
    cases fwd with
    | true =>
      simp only [if_true]
      rw [map_comm Ref.prev Ref.prev proj_prev, heapify_proj]
    | false =>
      simp only [Bool.false_eq_true, if_false]
      rw [modifyHead_map Ref.prev Ref.prev proj_prev, percolate_proj, List.length_map]

theorem projM_kv (m : Merging (K × P)) : (projM m).kv = m.kv.map Prod.fst := by
  unfold Merging.kv projM
  cases m.cs with
  | nil => rfl
  | cons a t => exact proj_kv a

theorem projM_run (ltK : K → K → Bool) : ∀ (opsK : List (Op K)) (m : Merging (K × P)),
    (Merging.run (ltP ltK) m (opsK.map liftOp)).map (Option.map Prod.fst)
      = Merging.run ltK (projM m) opsK
  | [], _ => rfl
  | op :: ops, m => by
    simp only [List.map_cons, Merging.run]
    rw [← projM_step, projM_kv, projM_run ltK ops]

theorem projM_new (ltK : K → K → Bool) (cs : List (Ref (K × P))) :
    projM (Merging.new (ltP ltK) cs) = Merging.new ltK (cs.map proj) :=
  projM_step ltK ⟨true, cs⟩ .first

/-- whatever the comparator, whatever the program: every entry the merging cursor shows is an entry
    of one of its children -/
theorem run_mem {E : Type} (lt : E → E → Bool) (S : E → Prop) : ∀ (ops : List (Op E)) (m : Merging E),
    (∀ c ∈ m.cs, Inside S c) → ∀ e, some e ∈ Merging.run lt m ops → S e
  | [], _, _, e, h => by cases h
  | op :: ops, m, hm, e, h => by
    have h2 := (merging_step_congr (S := S) (lt := lt) (lt' := lt) (fun _ _ _ _ => rfl) m hm op).2
    simp only [Merging.run, List.mem_cons] at h
    rcases h with h | h
    · generalize Merging.step lt m op = m' at h h2
      unfold Merging.kv at h
      cases hcs : m'.cs with
      | nil => rw [hcs] at h; cases h
      | cons c t =>
        rw [hcs] at h
        exact h2 c (by rw [hcs]; exact List.mem_cons_self) e (Ref.kv_mem h.symm)
    · exact run_mem lt S ops _ h2 e h

end DupPayload

open DupPayload in
/-- **C11, the same (key, timestamp) with different payloads in two children.**  `K` is the compared
    part (key, timestamp), `P` the payload; the comparator is `ltP ltK` (the `K` part only, as
    `Comparator::is_less`).  For ANY children whose `K` projections are strictly sorted (payloads
    arbitrary: two children may hold the same `K` with different `P`) and every program whose seek
    predicates look at `K` only and are monotone there:
    * the shown `K` sequence is the reference merge WITH multiplicity of the projected children
      (one showing per holder, duplicates are not collapsed),
    * every entry shown (payload included) is an entry of one of the children.
    WHICH holder's payload is shown first is decided by the heap: see the examples below. -/
theorem merging_dup_payload_choice {K P : Type} {ltK : K → K → Bool} (st : StrictTotal ltK)
    (cs : List (Ref (K × P)))
    (hs : ∀ c ∈ cs, (c.xs.map Prod.fst).Pairwise (fun a b => ltK a b = true))
    (opsK : List (Op K)) (hops : ∀ pred, Op.seek pred ∈ opsK → Mono ltK pred) :
    (Merging.new (ltP ltK) cs).kv.map Prod.fst
        = (Ref.mk (mergedList ltK (cs.map (fun c => c.xs.map Prod.fst))) 0).kv ∧
    (Merging.run (ltP ltK) (Merging.new (ltP ltK) cs) (opsK.map liftOp)).map (Option.map Prod.fst)
        = Ref.run ⟨mergedList ltK (cs.map (fun c => c.xs.map Prod.fst)), 0⟩ opsK ∧
    (∀ e, some e ∈ Merging.run (ltP ltK) (Merging.new (ltP ltK) cs) (opsK.map liftOp) →
        ∃ c ∈ cs, e ∈ c.xs) := by
  have hs' : ∀ c ∈ cs.map proj, c.xs.Pairwise (fun a b => ltK a b = true) := by
    intro c hc
    rw [List.mem_map] at hc
    obtain ⟨d, hd, rfl⟩ := hc
    exact hs d hd
  have hmain := merging_refines_tables st (cs.map proj) hs' opsK hops
  have hxs : (cs.map proj).map (·.xs) = cs.map (fun c => c.xs.map Prod.fst) := by
    simp [List.map_map, Function.comp_def, proj]
  rw [hxs] at hmain
  refine ⟨?_, ?_, ?_⟩
  · rw [← projM_kv, projM_new]; exact hmain.1
  · rw [projM_run, projM_new]; exact hmain.2
  · intro e he
    have hin : ∀ c ∈ (Merging.new (ltP ltK) cs).cs, Inside (fun e => ∃ c ∈ cs, e ∈ c.xs) c :=
      (merging_new_congr (S := fun e => ∃ c ∈ cs, e ∈ c.xs) (lt := ltP ltK) (lt' := ltP ltK)
        (fun _ _ _ _ => rfl) cs (fun c hc e he => ⟨c, hc, he⟩)).2
    exact run_mem (ltP ltK) _ _ _ hin e he

/-! ## Which holder wins: decided by the heap, not by the child index -/
namespace DupPayload

def ltN (a b : Nat) : Bool := decide (a < b)
def mk (l : List (Nat × Nat)) : Ref (Nat × Nat) := ⟨l, 0⟩
def walk (cs : List (Ref (Nat × Nat))) (ops : List (Op Nat)) : List (Option (Nat × Nat)) :=
  Merging.run (ltP ltN) (Merging.new (ltP ltN) cs) (ops.map liftOp)

def fwd4 : List (Op Nat) := [.first, .next, .next, .next, .next]
def bwd4 : List (Op Nat) := [.last, .prev, .prev, .prev, .prev]

/-- two children, each holding only key 1 (payloads 10 and 20): child B's copy (20) is shown first
    forward AND first backward; the backward walk is NOT the mirror image of the forward walk, so
    the merging cursor is not the cursor of any list here -/
theorem merging_dup_payload_example_same :
    walk [mk [(1,10)], mk [(1,20)]] fwd4 = [none, some (1,20), some (1,10), none, none] ∧
    walk [mk [(1,10)], mk [(1,20)]] bwd4 = [none, some (1,20), some (1,10), none, none] := by
  decide

/-- child A = [0, 1], child B = [1]: forward B's copy (20) comes first, backward A's copy (10) comes
    first: the walks are mirror images, the FIRST copy differs between the directions -/
theorem merging_dup_payload_example_mirror :
    walk [mk [(0,9),(1,10)], mk [(1,20)]] fwd4
      = [none, some (0,9), some (1,20), some (1,10), none] ∧
    walk [mk [(0,9),(1,10)], mk [(1,20)]] bwd4
      = [none, some (1,10), some (1,20), some (0,9), none] := by
  decide

/-- child A = [1], child B = [0, 1]: now A's copy (10) is first forward and B's (20) first backward:
    the winner is not a function of the child index -/
theorem merging_dup_payload_example_index :
    walk [mk [(1,10)], mk [(0,19),(1,20)]] fwd4
      = [none, some (0,19), some (1,10), some (1,20), none] ∧
    walk [mk [(1,10)], mk [(0,19),(1,20)]] bwd4
      = [none, some (1,20), some (1,10), some (0,19), none] := by
  decide

/-- three holders of key 1: the order is C, A, B in both directions -/
theorem merging_dup_payload_example_three :
    walk [mk [(1,10)], mk [(1,20)], mk [(1,30)]] fwd4
      = [none, some (1,30), some (1,10), some (1,20), none] ∧
    walk [mk [(1,10)], mk [(1,20)], mk [(1,30)]] bwd4
      = [none, some (1,30), some (1,10), some (1,20), none] := by
  decide

/-! ## The scan stack Pruning(Merging[children]) -/

def pcfg : PruneCfg (Nat × Nat) Nat := ⟨Prod.fst, fun _ => true, fun _ => false⟩

def obs {E : Type} (C : Cur E) : C.σ → List (Op E) → List (Option E)
  | _, [] => []
  | s, op :: ops => C.kv (C.step s op) :: obs C (C.step s op) ops

def scan (cs : List (Ref (Nat × Nat))) (ops : List (Op Nat)) : List (Option (Nat × Nat)) :=
  let M := MergingC.cur (RefCur (Nat × Nat)) (ltP ltN)
  obs (PruningC.cur M pcfg 10) (PruningC.new M (MergingC.new (RefCur (Nat × Nat)) (ltP ltN) cs))
    (ops.map liftOp)

/-- both children hold ONLY key 1 (payloads 10, 20).  Scanning forward the stack shows payload 10,
    scanning backward it shows payload 20: without `FamilyW` (identical copies) the payload a scan
    returns for a key depends on the direction of travel.  (The stack issues `seek_to_first` once
    more than `walk` does -- `PruningC.new` -- and each `seek_to_first` re-heapifies and a tie SWAPS
    (merging_cursor.rs:107-115), so the forward winner here is A where `walk` had B: the winner
    depends on the history of calls, too.) -/
theorem scan_dup_payload_example_differs :
    scan [mk [(1,10)], mk [(1,20)]] fwd4 = [none, some (1,10), none, none, none] ∧
    scan [mk [(1,10)], mk [(1,20)]] bwd4 = [none, some (1,20), none, none, none] := by
  decide

/-- A = [0, 1], B = [1]: forward the first copy the merging cursor shows (B's, 20) is shown.  Backward
    the merging cursor shows A's copy (10) first (`merging_dup_payload_example_mirror`) but the pruning
    cursor's `prev` walks back over the whole run of the key and then comes FORWARD again
    (pruning_cursor.rs `prev`: back to the run start, `next` to the candidate), a direction switch
    that re-heapifies: the scan shows 20 in both directions. -/
theorem scan_dup_payload_example_same :
    scan [mk [(0,9),(1,10)], mk [(1,20)]] fwd4 = [none, some (0,9), some (1,20), none, none] ∧
    scan [mk [(0,9),(1,10)], mk [(1,20)]] bwd4 = [none, some (1,20), some (0,9), none, none] := by
  decide

theorem scan_dup_payload_example_index :
    scan [mk [(1,10)], mk [(0,19),(1,20)]] fwd4 = [none, some (0,19), some (1,10), none, none] ∧
    scan [mk [(1,10)], mk [(0,19),(1,20)]] bwd4 = [none, some (1,10), some (0,19), none, none] := by
  decide

end DupPayload

end Blue.Cursor

/-! ## The scan stack, projected -/
namespace Blue.Cursor
namespace DupPayload

/-- a child cursor over `E` seen through `f : E → E'` is the child cursor `C'` -/
structure Sim {E E' : Type} (C : Cur E) (C' : Cur E') (f : E → E') (g : C.σ → C'.σ) : Prop where
  kv : ∀ s, C'.kv (g s) = (C.kv s).map f
  first : ∀ s, C'.first (g s) = g (C.first s)
  last : ∀ s, C'.last (g s) = g (C.last s)
  next : ∀ s, C'.next (g s) = g (C.next s)
  prev : ∀ s, C'.prev (g s) = g (C.prev s)
  seek : ∀ p s, C'.seek p (g s) = g (C.seek (fun e => p (f e)) s)

/-- the pruning configuration looks at the projected entry only -/
@[reducible] def liftCfg {E E' K' : Type} (f : E → E') (cfg : PruneCfg E' K') : PruneCfg E K' :=
  ⟨fun e => cfg.key (f e), fun e => cfg.tsOk (f e), fun e => cfg.tomb (f e)⟩

section sim
variable {E E' K' : Type} [DecidableEq K'] {C : Cur E} {C' : Cur E'} {f : E → E'} {g : C.σ → C'.σ}
  (h : Sim C C' f g) (cfg : PruneCfg E' K') (fuel : Nat)

def gP (g : C.σ → C'.σ) (p : PruningC C K') : PruningC C' K' := ⟨g p.c, p.skip, p.err⟩

include h

omit h in
theorem liftCfg_key (e : E) : (liftCfg f cfg).key e = cfg.key (f e) := rfl
omit h in
theorem liftCfg_tsOk (e : E) : (liftCfg f cfg).tsOk e = cfg.tsOk (f e) := rfl
omit h in
theorem liftCfg_tomb (e : E) : (liftCfg f cfg).tomb e = cfg.tomb (f e) := rfl

theorem sim_scanFwd : ∀ (n : Nat) (c : C.σ) (s : Option K'),
    PruningC.scanFwd C' cfg n (g c) s
      = (g (PruningC.scanFwd C (liftCfg f cfg) n c s).1, (PruningC.scanFwd C (liftCfg f cfg) n c s).2)
  | 0, _, _ => rfl
  | n+1, c, s => by
    simp only [PruningC.scanFwd, h.kv]
    cases C.kv c with
    | none => rfl
    | some e =>
      simp only [Option.map]
      by_cases h1 : (cfg.tsOk (f e) && cfg.tomb (f e)) = true
      · simp only [if_pos h1]; rw [h.next, sim_scanFwd n]
      · simp only [if_neg h1]
        by_cases h2 : (cfg.tsOk (f e) && s != some (cfg.key (f e))) = true
        · simp only [if_pos h2]
        · simp only [if_neg h2]; rw [h.next, sim_scanFwd n]

theorem sim_skipBack : ∀ (n : Nat) (c : C.σ) (s : Option K'),
    PruningC.skipBack C' cfg n (g c) s
      = (g (PruningC.skipBack C (liftCfg f cfg) n c s).1, (PruningC.skipBack C (liftCfg f cfg) n c s).2)
  | 0, _, _ => rfl
  | n+1, c, s => by
    cases s with
    | none => rfl
    | some k =>
      simp only [PruningC.skipBack, h.kv]
      cases C.kv c with
      | none => rfl
      | some e =>
        simp only [Option.map]
        by_cases h1 : cfg.key (f e) ≠ k
        · simp only [if_pos h1]
        · simp only [if_neg h1]; rw [h.prev, sim_skipBack n]

theorem sim_backToRunStart : ∀ (n : Nat) (c : C.σ) (t : K'),
    PruningC.backToRunStart C' cfg n (g c) t = g (PruningC.backToRunStart C (liftCfg f cfg) n c t)
  | 0, _, _ => rfl
  | n+1, c, t => by
    simp only [PruningC.backToRunStart, h.prev, h.kv]
    cases C.kv (C.prev c) with
    | none => rfl
    | some e =>
      simp only [Option.map]
      by_cases h1 : (!cfg.tsOk (f e) || decide (cfg.key (f e) ≠ t)) = true
      · simp only [if_pos h1]
      · simp only [if_neg h1]; exact sim_backToRunStart n _ t

theorem sim_fwdToCand : ∀ (n : Nat) (c : C.σ) (t : K'),
    PruningC.fwdToCand C' cfg n (g c) t = g (PruningC.fwdToCand C (liftCfg f cfg) n c t)
  | 0, _, _ => rfl
  | n+1, c, t => by
    simp only [PruningC.fwdToCand, h.kv]
    cases C.kv c with
    | none => rfl
    | some e =>
      simp only [Option.map]
      by_cases h1 : (cfg.tsOk (f e) && decide (cfg.key (f e) = t)) = true
      · simp only [if_pos h1]
      · simp only [if_neg h1]; rw [h.next, sim_fwdToCand n]

theorem sim_prevLoop : ∀ (n : Nat) (c : C.σ) (s : Option K'),
    PruningC.prevLoop C' cfg fuel n (g c) s
      = (PruningC.prevLoop C (liftCfg f cfg) fuel n c s).map (fun r => (g r.1, r.2))
  | 0, _, _ => rfl
  | n+1, c, s => by
    simp only [PruningC.prevLoop, h.prev, sim_skipBack h cfg]
    generalize PruningC.skipBack C (liftCfg f cfg) fuel (C.prev c) s = r
    obtain ⟨c2, b⟩ := r
    cases b with
    | true => rfl
    | false =>
      simp only [h.kv]
      cases C.kv c2 with
      | none => rfl
      | some e =>
        simp only [Option.map, liftCfg_key, liftCfg_tsOk, liftCfg_tomb]
        by_cases hts : (!cfg.tsOk (f e)) = true
        · simp only [if_pos hts]; exact sim_prevLoop n _ _
        · simp only [if_neg hts, sim_backToRunStart h cfg, h.kv, Option.isNone_map, h.next,
            ← apply_ite g, sim_fwdToCand h cfg]
          generalize C.kv (PruningC.fwdToCand C (liftCfg f cfg) fuel _ (cfg.key (f e))) = x
          cases x with
          | none => rfl
          | some e5 =>
            simp only [Option.map]
            by_cases htm : (!cfg.tomb (f e5)) = true
            · simp only [if_pos htm]
            · simp only [if_neg htm]; exact sim_prevLoop n _ _

/-- the pruning cursor over simulated children is simulated -/
theorem sim_pruning :
    Sim (PruningC.cur C (liftCfg f cfg) fuel) (PruningC.cur C' cfg fuel) f (gP g) where
  kv := fun p => h.kv p.c
  first := fun p => by
    show PruningC.seekToFirst C' (gP g p) = gP g (PruningC.seekToFirst C p)
    simp only [PruningC.seekToFirst, gP, h.first]
  last := fun p => by
    show PruningC.seekToLast C' (gP g p) = gP g (PruningC.seekToLast C p)
    simp only [PruningC.seekToLast, gP, h.last]
  next := fun p => by
    show PruningC.next C' cfg fuel (gP g p) = gP g (PruningC.next C (liftCfg f cfg) fuel p)
    simp only [PruningC.next, gP, h.next, sim_scanFwd h cfg]
  seek := fun pred p => by
    show PruningC.seek C' cfg fuel pred (gP g p)
      = gP g (PruningC.seek C (liftCfg f cfg) fuel (fun e => pred (f e)) p)
    simp only [PruningC.seek, gP, h.seek, sim_scanFwd h cfg]
  prev := fun p => by
    show PruningC.prev C' cfg fuel (gP g p) = gP g (PruningC.prev C (liftCfg f cfg) fuel p)
    simp only [PruningC.prev, gP, h.kv, Option.isNone_map, sim_prevLoop h cfg fuel]
    cases PruningC.prevLoop C (liftCfg f cfg) fuel fuel p.c (if (C.kv p.c).isNone = true then none else p.skip) with
    | none => rfl
    | some r => rfl

omit [DecidableEq K'] in
/-- a program over `E'` run on `E` -/
def liftOpF (f : E → E') : Op E' → Op E
  | .first => .first | .last => .last | .next => .next | .prev => .prev
  | .seek p => .seek (fun e => p (f e))

omit [DecidableEq K'] in
theorem sim_step (s : C.σ) (op : Op E') : C'.step (g s) op = g (C.step s (liftOpF f op)) := by
  cases op with
  | first => exact h.first s
  | last => exact h.last s
  | next => exact h.next s
  | prev => exact h.prev s
  | seek p => exact h.seek p s

omit [DecidableEq K'] in
theorem sim_obs : ∀ (ops : List (Op E')) (s : C.σ),
    (obs C s (ops.map (liftOpF f))).map (Option.map f) = obs C' (g s) ops
  | [], _ => rfl
  | op :: ops, s => by
    simp only [List.map_cons, obs, sim_step h, h.kv, sim_obs ops]

end sim
section merging
variable {K P : Type} (ltK : K → K → Bool)

def gM (s : MergingC (RefCur (K × P))) : MergingC (RefCur K) := MergingLink.ofSpec (projM ⟨s.fwd, s.cs⟩)

theorem gM_step (s : MergingC (RefCur (K × P))) (op : Op K) :
    (MergingC.cur (RefCur K) ltK).step (gM s) op
      = gM ((MergingC.cur (RefCur (K × P)) (ltP ltK)).step s (liftOp op)) := by
  have h1 := MergingLink.step_ref ltK (projM ⟨s.fwd, s.cs⟩) op
  have h2 := MergingLink.step_ref (ltP ltK) ⟨s.fwd, s.cs⟩ (liftOp op)
  show (MergingC.cur (RefCur K) ltK).step (MergingLink.ofSpec (projM ⟨s.fwd, s.cs⟩)) op
    = gM ((MergingC.cur (RefCur (K × P)) (ltP ltK)).step (MergingLink.ofSpec ⟨s.fwd, s.cs⟩) (liftOp op))
  rw [h1, h2, ← projM_step]
  rfl

/-- the merging cursor over `K × P` children, seen through `Prod.fst`, is the merging cursor over the
    projected children -/
theorem sim_merging :
    Sim (MergingC.cur (RefCur (K × P)) (ltP ltK)) (MergingC.cur (RefCur K) ltK) Prod.fst gM where
  kv := fun s => by
    have h1 := MergingLink.kv_ref ltK (projM ⟨s.fwd, s.cs⟩)
    have h2 := MergingLink.kv_ref (ltP ltK) (⟨s.fwd, s.cs⟩ : Merging (K × P))
    show (MergingC.cur (RefCur K) ltK).kv (MergingLink.ofSpec (projM ⟨s.fwd, s.cs⟩))
      = ((MergingC.cur (RefCur (K × P)) (ltP ltK)).kv (MergingLink.ofSpec ⟨s.fwd, s.cs⟩)).map Prod.fst
    rw [h1, h2, projM_kv]
  first := fun s => gM_step ltK s .first
  last := fun s => gM_step ltK s .last
  next := fun s => gM_step ltK s .next
  prev := fun s => gM_step ltK s .prev
  seek := fun p s => gM_step ltK s (.seek p)

theorem liftOp_eq (op : Op K) : (liftOp op : Op (K × P)) = liftOpF Prod.fst op := by
  cases op <;> rfl

end merging
end DupPayload

open DupPayload in
/-- **The scan stack Pruning(Merging[children]) over children that hold the same (key, timestamp)
    with different payloads** (restricted: the pruning configuration -- key, `timestamp <= snapshot`,
    tombstone flag -- reads the compared part `K` only; `BoundsCursor` not included).
    For ANY children, ANY program (all five operations, both directions), any fuel: the observations
    projected to `K` are those of the same stack over the PROJECTED children.  The right-hand side is
    the stack `scan_stack_dups` / `scan_spec_dups` / `merging_refines_tables` speak about (entries
    `K`, comparator `ltK`, copies identical), so WHICH (key, timestamp)s a scan returns does not depend
    on the payloads or on the heap's tie-breaking; only the payload shown for a (key, timestamp) held
    twice does: it is the payload of the copy the merging cursor is on when the pruning cursor stops
    (`scan_dup_payload_example_differs`: 10 forward, 20 backward). -/
theorem scan_dup_payload_winner_partial {K P K' : Type} [DecidableEq K'] (ltK : K → K → Bool)
    (cfg : PruneCfg K K') (fuel : Nat) (cs : List (Ref (K × P))) (opsK : List (Op K)) :
    (obs (PruningC.cur (MergingC.cur (RefCur (K × P)) (ltP ltK)) (liftCfg Prod.fst cfg) fuel)
        (PruningC.new (MergingC.cur (RefCur (K × P)) (ltP ltK))
          (MergingC.new (RefCur (K × P)) (ltP ltK) cs))
        (opsK.map liftOp)).map (Option.map Prod.fst)
      = obs (PruningC.cur (MergingC.cur (RefCur K) ltK) cfg fuel)
          (PruningC.new (MergingC.cur (RefCur K) ltK) (MergingC.new (RefCur K) ltK (cs.map proj)))
          opsK := by
  have hsim := sim_pruning (sim_merging (P := P) ltK) cfg fuel
  have hops : opsK.map (liftOp (P := P)) = opsK.map (liftOpF Prod.fst) :=
    List.map_congr_left (fun op _ => liftOp_eq op)
  rw [hops]
  have hnew : gM (MergingC.new (RefCur (K × P)) (ltP ltK) cs) = MergingC.new (RefCur K) ltK (cs.map proj) :=
    ((sim_merging (P := P) ltK).first ⟨true, cs⟩).symm
  have hnew2 : gP gM (PruningC.new (K := K') (MergingC.cur (RefCur (K × P)) (ltP ltK))
        (MergingC.new (RefCur (K × P)) (ltP ltK) cs))
      = PruningC.new (K := K') (MergingC.cur (RefCur K) ltK)
          (MergingC.new (RefCur K) ltK (cs.map proj)) := by
    have hf := (sim_merging (P := P) ltK).first (MergingC.new (RefCur (K × P)) (ltP ltK) cs)
    rw [← hnew]
    exact congrArg (fun c => (PruningC.mk c none false : PruningC (MergingC.cur (RefCur K) ltK) K')) hf.symm
  have hmain := sim_obs hsim opsK (PruningC.new (MergingC.cur (RefCur (K × P)) (ltP ltK))
        (MergingC.new (RefCur (K × P)) (ltP ltK) cs))
  rw [hnew2] at hmain
  exact hmain

end Blue.Cursor

namespace Blue.Cursor.DupPayload
section bsim
variable {E E' : Type} {C : Cur E} {C' : Cur E'} {f : E → E'} {g : C.σ → C'.σ}
  (h : Sim C C' f g) (cfg : BoundsCfg E') (fuel : Nat)

/-- the bounds configuration looks at the projected entry only -/
@[reducible] def liftBCfg (f : E → E') (cfg : BoundsCfg E') : BoundsCfg E :=
  { startUnbounded := cfg.startUnbounded, endUnbounded := cfg.endUnbounded, endIncluded := cfg.endIncluded,
    geStart := fun e => cfg.geStart (f e), geEnd := fun e => cfg.geEnd (f e),
    eqEnd := fun e => cfg.eqEnd (f e), belowStart := fun e => cfg.belowStart (f e),
    aboveEnd := fun e => cfg.aboveEnd (f e) }

def gB (g : C.σ → C'.σ) (b : BoundsC C) : BoundsC C' := ⟨g b.c, b.st⟩

include h

theorem sim_bkey (b : BoundsC C) : BoundsC.key C' (gB g b) = (BoundsC.key C b).map f := by
  unfold BoundsC.key gB
  simp only
  split
  · exact h.kv _
  · rfl

theorem sim_checkStart (b : BoundsC C) :
    BoundsC.checkStart C' cfg (gB g b) = gB g (BoundsC.checkStart C (liftBCfg f cfg) b) := by
  unfold BoundsC.checkStart
  rw [sim_bkey h]
  cases BoundsC.key C b with
  | none => rfl
  | some e =>
    simp only [Option.map]
    by_cases h1 : cfg.belowStart (f e) = true
    · simp only [if_pos h1]; rfl
    · simp only [if_neg h1]

theorem sim_checkEnd (b : BoundsC C) :
    BoundsC.checkEnd C' cfg (gB g b) = gB g (BoundsC.checkEnd C (liftBCfg f cfg) b) := by
  unfold BoundsC.checkEnd
  rw [sim_bkey h]
  cases BoundsC.key C b with
  | none => rfl
  | some e =>
    simp only [Option.map]
    by_cases h1 : cfg.aboveEnd (f e) = true
    · simp only [if_pos h1]; rfl
    · simp only [if_neg h1]

theorem sim_stepBack (c : C.σ) : BoundsC.stepBackIfSome C' (g c) = g (BoundsC.stepBackIfSome C c) := by
  unfold BoundsC.stepBackIfSome
  rw [h.kv, Option.isSome_map]
  split
  · exact h.prev c
  · rfl

theorem sim_bfirst (b : BoundsC C) :
    BoundsC.seekToFirst C' cfg (gB g b) = gB g (BoundsC.seekToFirst C (liftBCfg f cfg) b) := by
  unfold BoundsC.seekToFirst
  simp only
  rw [← sim_checkEnd h]
  congr 1
  cases cfg.startUnbounded with
  | true => simp only [if_true, gB, h.first, sim_stepBack h]
  | false => simp only [Bool.false_eq_true, if_false, gB, h.seek, sim_stepBack h]

theorem sim_skipEq : ∀ (n : Nat) (c : C.σ),
    BoundsC.skipEq C' cfg n (g c) = g (BoundsC.skipEq C (liftBCfg f cfg) n c)
  | 0, _ => rfl
  | n+1, c => by
    simp only [BoundsC.skipEq, h.kv]
    cases C.kv c with
    | none => rfl
    | some e =>
      simp only [Option.map]
      by_cases h1 : cfg.eqEnd (f e) = true
      · simp only [if_pos h1]; rw [h.next, sim_skipEq n]
      · simp only [if_neg h1]

theorem sim_blast (b : BoundsC C) :
    BoundsC.seekToLast C' cfg fuel (gB g b) = gB g (BoundsC.seekToLast C (liftBCfg f cfg) fuel b) := by
  unfold BoundsC.seekToLast
  simp only
  rw [← sim_checkStart h]
  congr 1
  cases cfg.endUnbounded with
  | true => simp only [if_true, gB, h.last]
  | false =>
    cases cfg.endIncluded with
    | true => simp only [Bool.false_eq_true, if_false, if_true, gB, h.seek, sim_skipEq h]
    | false => simp only [Bool.false_eq_true, if_false, gB, h.seek]

theorem sim_bnextLoop : ∀ (n : Nat) (b : BoundsC C),
    BoundsC.nextLoop C' cfg n (gB g b) = gB g (BoundsC.nextLoop C (liftBCfg f cfg) n b)
  | 0, _ => rfl
  | n+1, b => by
    simp only [BoundsC.nextLoop]
    have hst : (gB g b).st = b.st := rfl
    rw [hst]
    by_cases h1 : b.st = .afterEnd
    · simp only [if_pos h1]
    · simp only [if_neg h1]
      have e1 : (⟨C'.next (gB g b).c, .positioned⟩ : BoundsC C') = gB g ⟨C.next b.c, .positioned⟩ := by
        simp only [gB, h.next]
      rw [e1, sim_checkStart h, sim_checkEnd h]
      have hst2 : ∀ x : BoundsC C, (gB g x).st = x.st := fun _ => rfl
      rw [hst2]
      split
      · rfl
      · exact sim_bnextLoop n _

theorem sim_bprevLoop : ∀ (n : Nat) (b : BoundsC C),
    BoundsC.prevLoop C' cfg n (gB g b) = gB g (BoundsC.prevLoop C (liftBCfg f cfg) n b)
  | 0, _ => rfl
  | n+1, b => by
    simp only [BoundsC.prevLoop]
    have hst : (gB g b).st = b.st := rfl
    rw [hst]
    by_cases h1 : b.st = .beforeStart
    · simp only [if_pos h1]
    · simp only [if_neg h1]
      have e1 : (⟨C'.prev (gB g b).c, .positioned⟩ : BoundsC C') = gB g ⟨C.prev b.c, .positioned⟩ := by
        simp only [gB, h.prev]
      rw [e1, sim_checkEnd h, sim_checkStart h]
      have hst2 : ∀ x : BoundsC C, (gB g x).st = x.st := fun _ => rfl
      rw [hst2]
      split
      · rfl
      · exact sim_bprevLoop n _

theorem sim_bseek (pred : E' → Bool) (b : BoundsC C) :
    BoundsC.seek C' cfg fuel pred (gB g b)
      = gB g (BoundsC.seek C (liftBCfg f cfg) fuel (fun e => pred (f e)) b) := by
  unfold BoundsC.seek
  simp only
  have e1 : (⟨C'.seek pred (gB g b).c, .positioned⟩ : BoundsC C')
      = gB g ⟨C.seek (fun e => pred (f e)) b.c, .positioned⟩ := by
    simp only [gB, h.seek]
  rw [e1, sim_checkEnd h, sim_checkStart h]
  have hst2 : ∀ x : BoundsC C, (gB g x).st = x.st := fun _ => rfl
  rw [hst2]
  split
  · rw [sim_bfirst h]; exact sim_bnextLoop h cfg fuel _
  · rfl

/-- the bounds cursor over a simulated child is simulated -/
theorem sim_bounds :
    Sim (BoundsC.cur C (liftBCfg f cfg) fuel) (BoundsC.cur C' cfg fuel) f (gB g) where
  kv := fun b => sim_bkey h b
  first := fun b => sim_bfirst h cfg b
  last := fun b => sim_blast h cfg fuel b
  next := fun b => sim_bnextLoop h cfg fuel b
  prev := fun b => sim_bprevLoop h cfg fuel b
  seek := fun p b => sim_bseek h cfg fuel p b

end bsim
end Blue.Cursor.DupPayload

namespace Blue.Cursor
open DupPayload

theorem DupPayload.gP_new {K P K' : Type} (ltK : K → K → Bool) (cs : List (Ref (K × P))) :
    gP gM (PruningC.new (K := K') (MergingC.cur (RefCur (K × P)) (ltP ltK))
        (MergingC.new (RefCur (K × P)) (ltP ltK) cs))
      = PruningC.new (K := K') (MergingC.cur (RefCur K) ltK)
          (MergingC.new (RefCur K) ltK (cs.map proj)) := by
  have hnew : gM (MergingC.new (RefCur (K × P)) (ltP ltK) cs) = MergingC.new (RefCur K) ltK (cs.map proj) :=
    ((sim_merging (P := P) ltK).first ⟨true, cs⟩).symm
  have hf := (sim_merging (P := P) ltK).first (MergingC.new (RefCur (K × P)) (ltP ltK) cs)
  rw [← hnew]
  exact congrArg (fun c => (PruningC.mk c none false : PruningC (MergingC.cur (RefCur K) ltK) K')) hf.symm

/-- **The whole scan stack Bounds(Pruning(Merging[children])) over children that hold the same
    (key, timestamp) with different payloads**, restricted to pruning and bounds configurations that
    read the compared part `K` only (so: the copies may differ in the value bytes but not in being a
    tombstone; for that see `scan_dup_payload_example_tombstone`).  ANY children, ANY program (all five
    operations, both directions), any fuel: the observations projected to `K` are those of the same
    stack over the PROJECTED children -- the stack of `scan_stack_dups` / `scan_spec_dups`, where the
    copies are identical.  Hence which (key, timestamp)s a scan returns is independent of the payloads
    and of the heap's tie-breaking; the payload returned for a (key, timestamp) held twice is that of
    the copy the merging cursor happens to be on (`scan_dup_payload_example_differs`). -/
theorem scan_dup_payload_winner {K P K' : Type} [DecidableEq K'] (ltK : K → K → Bool)
    (pcfg : PruneCfg K K') (bcfg : BoundsCfg K) (fuel : Nat) (cs : List (Ref (K × P)))
    (opsK : List (Op K)) :
    (obs (BoundsC.cur (PruningC.cur (MergingC.cur (RefCur (K × P)) (ltP ltK)) (liftCfg Prod.fst pcfg) fuel)
            (liftBCfg Prod.fst bcfg) fuel)
        (BoundsC.new (PruningC.cur (MergingC.cur (RefCur (K × P)) (ltP ltK)) (liftCfg Prod.fst pcfg) fuel)
          (liftBCfg Prod.fst bcfg)
          (PruningC.new (MergingC.cur (RefCur (K × P)) (ltP ltK))
            (MergingC.new (RefCur (K × P)) (ltP ltK) cs)))
        (opsK.map liftOp)).map (Option.map Prod.fst)
      = obs (BoundsC.cur (PruningC.cur (MergingC.cur (RefCur K) ltK) pcfg fuel) bcfg fuel)
          (BoundsC.new (PruningC.cur (MergingC.cur (RefCur K) ltK) pcfg fuel) bcfg
            (PruningC.new (MergingC.cur (RefCur K) ltK) (MergingC.new (RefCur K) ltK (cs.map proj))))
          opsK := by
  have hp := sim_pruning (sim_merging (P := P) ltK) pcfg fuel
  have hsim := sim_bounds hp bcfg fuel
  have hops : opsK.map (liftOp (P := P)) = opsK.map (liftOpF Prod.fst) :=
    List.map_congr_left (fun op _ => liftOp_eq op)
  rw [hops]
  have hmain := sim_obs hsim opsK
    (BoundsC.new (PruningC.cur (MergingC.cur (RefCur (K × P)) (ltP ltK)) (liftCfg Prod.fst pcfg) fuel)
      (liftBCfg Prod.fst bcfg)
      (PruningC.new (MergingC.cur (RefCur (K × P)) (ltP ltK)) (MergingC.new (RefCur (K × P)) (ltP ltK) cs)))
  have hnew3 : gB (gP gM)
      (BoundsC.new (PruningC.cur (MergingC.cur (RefCur (K × P)) (ltP ltK)) (liftCfg Prod.fst pcfg) fuel)
        (liftBCfg Prod.fst bcfg)
        (PruningC.new (MergingC.cur (RefCur (K × P)) (ltP ltK)) (MergingC.new (RefCur (K × P)) (ltP ltK) cs)))
      = BoundsC.new (PruningC.cur (MergingC.cur (RefCur K) ltK) pcfg fuel) bcfg
          (PruningC.new (MergingC.cur (RefCur K) ltK) (MergingC.new (RefCur K) ltK (cs.map proj))) := by
    have h1 := sim_bfirst hp bcfg ⟨PruningC.new (MergingC.cur (RefCur (K × P)) (ltP ltK))
      (MergingC.new (RefCur (K × P)) (ltP ltK) cs), .beforeStart⟩
    rw [← gP_new (K' := K') ltK cs]
    exact h1.symm
  rw [hnew3] at hmain
  exact hmain

end Blue.Cursor


namespace Blue.Cursor.DupPayload

/-- payload 0 is a tombstone (`value().is_none()`): the pruning configuration READS THE PAYLOAD, the
    case `scan_dup_payload_winner_partial` does not cover -/
def pcfgT : PruneCfg (Nat × Nat) Nat := ⟨Prod.fst, fun _ => true, fun e => e.2 == 0⟩
def scanT (cs : List (Ref (Nat × Nat))) (ops : List (Op Nat)) : List (Option (Nat × Nat)) :=
  let M := MergingC.cur (RefCur (Nat × Nat)) (ltP ltN)
  obs (PruningC.cur M pcfgT 10) (PruningC.new M (MergingC.new (RefCur (Nat × Nat)) (ltP ltN) cs))
    (ops.map liftOp)

/-- one child holds key 1 as a TOMBSTONE, the other holds key 1 (same timestamp) with value 20:
    scanning forward the key is deleted (nothing is shown), scanning backward it is present with 20;
    with the children in the other order it is the other way round.  Here even the SET of keys a scan
    returns depends on the direction and on the heap's tie-breaking. -/
theorem scan_dup_payload_example_tombstone :
    scanT [mk [(1,0)], mk [(1,20)]] fwd4 = [none, none, none, none, none] ∧
    scanT [mk [(1,0)], mk [(1,20)]] bwd4 = [none, some (1,20), none, none, none] ∧
    scanT [mk [(1,20)], mk [(1,0)]] fwd4 = [none, some (1,20), none, none, none] ∧
    scanT [mk [(1,20)], mk [(1,0)]] bwd4 = [none, none, none, none, none] := by
  decide

end Blue.Cursor.DupPayload

#print axioms Blue.Cursor.merging_dup_payload_choice
#print axioms Blue.Cursor.DupPayload.merging_dup_payload_example_same
#print axioms Blue.Cursor.DupPayload.merging_dup_payload_example_mirror
#print axioms Blue.Cursor.DupPayload.merging_dup_payload_example_index
#print axioms Blue.Cursor.DupPayload.merging_dup_payload_example_three
#print axioms Blue.Cursor.DupPayload.scan_dup_payload_example_differs
#print axioms Blue.Cursor.DupPayload.scan_dup_payload_example_same
#print axioms Blue.Cursor.DupPayload.scan_dup_payload_example_index
#print axioms Blue.Cursor.scan_dup_payload_winner_partial
#print axioms Blue.Cursor.DupPayload.sim_pruning
#print axioms Blue.Cursor.DupPayload.sim_merging
#print axioms Blue.Cursor.DupPayload.scan_dup_payload_example_tombstone
#print axioms Blue.Cursor.scan_dup_payload_winner
#print axioms Blue.Cursor.DupPayload.sim_bounds
