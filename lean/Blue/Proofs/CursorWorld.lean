import Blue.Proofs.CursorWorldMem
import Blue.Proofs.CursorWorldFiles
import Blue.Proofs.CursorWorldSnap
/-! `Blue.CursorWorld`: the three parts of property C07 on ONE transition system.  The invariant of
    the product (`WorldInv`: `FileRefs.Inv` + exact `Arc` counts, `SkipOwn.Inv` of every memtable +
    handle ownership, the contents invariant of every cursor) holds in every state of every run of
    `write`, `rollover`, `flush`, `compactInstall`, `verifierPass`, `openCursor`, `stepCursor`,
    `dropCursor` from a freshly opened store; the four property theorems follow. -/
namespace Blue.CursorWorld
open Blue.Spec Blue.Cursor

variable {F K : Type} [DecidableEq F] [DecidableEq K]

structure WorldInv (klt : K → K → Bool) (tomb : Ver K → Bool) (s : St F K) : Prop where
  files : FilesInv s
  mem : MemInv s
  snap : SnapInv klt tomb s

theorem worldInv_init (klt : K → K → Bool) (tomb : Ver K → Bool) (files : List F) (data : List (F × List (Ver K))) :
    WorldInv klt tomb (init files data : St F K) :=
  ⟨filesInv_init files data, memInv_init files data, snapInv_init files data⟩

theorem worldInv_run {klt : K → K → Bool} {tomb : Ver K → Bool} (evs : List (Ev F K)) {s s' : St F K}
    (h : WorldInv klt tomb s) (hr : run klt tomb s evs = some s') : WorldInv klt tomb s' :=
  ⟨filesInv_run evs h.files hr, memInv_run evs h.mem hr, snapInv_run evs h.snap hr⟩

/-- **(1)** in every state reached from a freshly opened store by ANY list of events: the three
    component invariants (`FileRefs.Inv` of the file part, `SkipOwn.Inv` of every memtable, the
    contents invariant of every cursor), and the coupling: the version a live cursor captured is
    referenced (`Arc` count ≥ 1 — exactly: live cursors on it, + 1 if current), every file of it is in
    `sst/`, and every memtable handle it captured is a held iterator of a memtable that has released
    no node -/
theorem world_inv {klt : K → K → Bool} {tomb : Ver K → Bool} (files : List F) (data : List (F × List (Ver K)))
    (evs : List (Ev F K)) {s : St F K} (hr : run klt tomb (init files data) evs = some s) :
    (FileRefs.Inv s.files ∧ (∀ tb ∈ s.tables, SkipOwn.Inv tb) ∧ SnapInv klt tomb s) ∧
    (∀ i, i < s.files.versions.length →
      FileRefs.holdersAt s.files i = outOf s i + (if i + 1 = s.files.versions.length then 1 else 0)) ∧
    ∀ (i : Nat) (c : Cur K), s.cursors[i]? = some c → c.live = true →
      FileRefs.holdersAt s.files c.ver ≥ 1 ∧ (∀ f ∈ filesOf s.files c.ver, f ∈ s.files.sst) ∧
      ∀ x ∈ c.hs, ∃ tb, s.tables[x.1]? = some tb ∧ SkipOwn.held tb x.2 = true ∧ tb.freed = [] := by
  have w := worldInv_run evs (worldInv_init klt tomb files data) hr
  refine ⟨⟨w.files.inv, w.mem.tabs, w.snap⟩, w.files.exact, ?_⟩
  intro i c hc hl
  have hf := cursor_files_in_sst w.files i c hc hl
  refine ⟨hf.1, hf.2, ?_⟩
  intro x hx
  have hsl := w.mem.held i c hc hl x hx
  unfold slot at hsl
  cases hg : s.tables[x.1]? with
  | none => simp only [hg] at hsl; cases hsl
  | some tb =>
    simp only [hg] at hsl
    refine ⟨tb, rfl, hsl, ?_⟩
    exact ((table_released_iff w.mem x.1 tb hg).1 (Or.inr ⟨i, c, x.2, hc, hl, hx⟩))

/-- **(2)** memory-safe AND files present, on one state machine: a `stepCursor` taken in any reached
    state goes through a live cursor; every memtable it dereferences has released no node (and no
    use after free has ever happened), and every file of its version is in `sst/` -/
theorem cursor_step_safe {klt : K → K → Bool} {tomb : Ver K → Bool} (files : List F) (data : List (F × List (Ver K)))
    (evs : List (Ev F K)) {s s' : St F K} (hr : run klt tomb (init files data) evs = some s) (i : Nat) (o : Op (Ver K))
    (hs : step klt tomb s (.stepCursor i o) = some s') :
    ∃ c, s.cursors[i]? = some c ∧ c.live = true ∧
      (∀ x ∈ c.hs, ∃ tb, s.tables[x.1]? = some tb ∧ SkipOwn.held tb x.2 = true ∧ tb.freed = [] ∧ tb.uaf = false) ∧
      (∀ f ∈ filesOf s.files c.ver, f ∈ s.files.sst) ∧
      (∀ tb ∈ s'.tables, tb.uaf = false) := by
  have w := worldInv_run evs (worldInv_init klt tomb files data) hr
  obtain ⟨c, hc, hl, hm⟩ := step_cursor_memory w.mem i o hs
  refine ⟨c, hc, hl, hm, (cursor_files_in_sst w.files i c hc hl).2, ?_⟩
  intro tb htb
  exact ((memInv_step w.mem _ hs).tabs tb htb).nouaf

/-- … and the step IS enabled for every live cursor of every reached state (so (2) is about every
    call a client can make) -/
theorem cursor_step_enabled {klt : K → K → Bool} {tomb : Ver K → Bool} (files : List F) (data : List (F × List (Ver K)))
    (evs : List (Ev F K)) {s : St F K} (hr : run klt tomb (init files data) evs = some s) (i : Nat) (c : Cur K)
    (hc : s.cursors[i]? = some c) (hl : c.live = true) (o : Op (Ver K)) :
    ∃ s', step klt tomb s (.stepCursor i o) = some s' := by
  have w := worldInv_run evs (worldInv_init klt tomb files data) hr
  obtain ⟨ts, hts⟩ := onHandles_use_enabled c.hs s.tables (w.mem.held i c hc hl)
  refine ⟨{ s with tables := ts, cursors := s.cursors.set i (feed klt tomb c (.op o)) }, ?_⟩
  simp only [step, hc, hl, if_true, hts, Option.map_some]

/-- **(4)** nothing leaks (`freed_iff_no_holder` lifted): in every reached state, a version that is not
    the current one and that no live cursor captured has no holder and is no longer counted (its
    `explicit_unref` has run: every file of it has been decremented, those that reached zero moved to
    `trash/`); a memtable the store no longer holds and on which no live cursor has a handle has
    released every node; and while the store or a live cursor holds it, none -/
theorem drop_releases {klt : K → K → Bool} {tomb : Ver K → Bool} (files : List F) (data : List (F × List (Ver K)))
    (evs : List (Ev F K)) {s : St F K} (hr : run klt tomb (init files data) evs = some s) :
    (∀ (i : Nat) (v : FileRefs.Ver F), s.files.versions[i]? = some v → i + 1 < s.files.versions.length →
      outOf s i = 0 → v.holders = 0 ∧ v.counted = false) ∧
    (∀ (t : Nat) (tb : SkipOwn.St), s.tables[t]? = some tb →
      ((tb.listHeld = true ∨ ∃ (i : Nat) (c : Cur K) (j : Nat), s.cursors[i]? = some c ∧ c.live = true ∧ (t, j) ∈ c.hs) →
        tb.freed = []) ∧
      (tb.listHeld = false →
        (∀ (i : Nat) (c : Cur K) (j : Nat), s.cursors[i]? = some c → c.live = true → (t, j) ∉ c.hs) →
        tb.freed = List.range tb.nodes)) := by
  have w := worldInv_run evs (worldInv_init klt tomb files data) hr
  exact ⟨fun i v hv hn ho => version_released w.files i v hv hn ho,
    fun t tb hg => table_released_iff w.mem t tb hg⟩

/-! ### "had nothing happened since it was opened" -/

theorem step_enabled_of_inv {klt : K → K → Bool} {tomb : Ver K → Bool} {s : St F K} (w : WorldInv klt tomb s)
    (i : Nat) (c : Cur K) (hc : s.cursors[i]? = some c) (hl : c.live = true) (o : Op (Ver K)) :
    ∃ s', step klt tomb s (.stepCursor i o) = some s' ∧ ∃ c', s'.cursors[i]? = some c' ∧ c'.live = true := by
  obtain ⟨ts, hts⟩ := onHandles_use_enabled c.hs s.tables (w.mem.held i c hc hl)
  refine ⟨{ s with tables := ts, cursors := s.cursors.set i (feed klt tomb c (.op o)) }, ?_, feed klt tomb c (.op o), ?_, hl⟩
  · simp only [step, hc, hl, if_true, hts, Option.map_some]
  · exact List.getElem?_set_self (List.getElem?_eq_some_iff.mp hc).1

/-- the QUIET run — only the calls on cursor `i`, nothing else — is a run -/
theorem quiet_run_enabled {klt : K → K → Bool} {tomb : Ver K → Bool} : ∀ (ops : List (Op (Ver K))) {s : St F K},
    WorldInv klt tomb s → ∀ (i : Nat) (c : Cur K), s.cursors[i]? = some c → c.live = true →
    ∃ s', run klt tomb s (ops.map (fun o => (Ev.stepCursor i o : Ev F K))) = some s'
  | [], s, _, _, _, _, _ => ⟨s, rfl⟩
  | o :: ops, s, w, i, c, hc, hl => by
    obtain ⟨s1, h1, c1, hc1, hl1⟩ := step_enabled_of_inv w i c hc hl o
    have w1 : WorldInv klt tomb s1 := worldInv_run [Ev.stepCursor i o] w (by simp only [run, h1])
    obtain ⟨s', h'⟩ := quiet_run_enabled ops w1 i c1 hc1 hl1
    exact ⟨s', by simp only [List.map_cons, run, h1]; exact h'⟩

theorem callsOf_quiet (i : Nat) : ∀ ops : List (Op (Ver K)),
    callsOf i (ops.map (fun o => (Ev.stepCursor i o : Ev F K))) = ops
  | [] => rfl
  | o :: ops => by
    simp only [List.map_cons, callsOf, callOf, if_true, List.singleton_append, callsOf_quiet i ops]

/-- **(3), in the words of the property**: what a cursor returned during ANY interleaving `evs2` of
    store events and cursor steps is what it returns in the run in which NOTHING happens after
    its open but its own calls — and that quiet run exists -/
theorem cursor_unmoved_by_store {klt : K → K → Bool} (st : StrictTotal klt) (tomb : Ver K → Bool)
    (files : List F) (data : List (F × List (Ver K))) (evs1 evs2 : List (Ev F K)) (sb eb : Bound K)
    {s1 s2 s3 : St F K}
    (h1 : run klt tomb (init files data) evs1 = some s1)
    (h2 : step klt tomb s1 (.openCursor sb eb) = some s2)
    (h3 : run klt tomb s2 evs2 = some s3) :
    ∃ (q : St F K) (c cq : Cur K),
      run klt tomb s2 ((callsOf s1.cursors.length evs2).map (fun o => (Ev.stepCursor s1.cursors.length o : Ev F K))) = some q ∧
      s3.cursors[s1.cursors.length]? = some c ∧ q.cursors[s1.cursors.length]? = some cq ∧ c.outs = cq.outs := by
  have w1 := worldInv_run evs1 (worldInv_init klt tomb files data) h1
  have w2 : WorldInv klt tomb s2 := worldInv_run [Ev.openCursor sb eb] w1 (by simp only [run, h2])
  -- the cursor just opened is live
  have hnew : ∃ c0, s2.cursors[s1.cursors.length]? = some c0 ∧ c0.live = true := by
    simp only [step, Option.map_eq_some_iff] at h2
    obtain ⟨r, _, rfl⟩ := h2
    exact ⟨_, List.getElem?_concat_length, rfl⟩
  obtain ⟨c0, hc0, hl0⟩ := hnew
  obtain ⟨q, hq⟩ := quiet_run_enabled (callsOf s1.cursors.length evs2) w2 _ c0 hc0 hl0
  obtain ⟨c, hc, ho⟩ := cursor_shows_open_time_contents st tomb files data evs1 evs2 sb eb h1 h2 h3
  obtain ⟨cq, hcq, hoq⟩ := cursor_shows_open_time_contents st tomb files data evs1 _ sb eb h1 h2 hq
  rw [callsOf_quiet] at hoq
  exact ⟨q, c, cq, hq, hc, hcq, by rw [ho, hoq]⟩

end Blue.CursorWorld

#print axioms Blue.CursorWorld.world_inv
#print axioms Blue.CursorWorld.cursor_step_safe
#print axioms Blue.CursorWorld.cursor_step_enabled
#print axioms Blue.CursorWorld.cursor_shows_open_time_contents
#print axioms Blue.CursorWorld.drop_releases
#print axioms Blue.CursorWorld.cursor_unmoved_by_store
