import Blue.Proofs.ApplyCompaction
import Blue.Proofs.ApplyCompactionB
/-! **C01** a compaction is INSTALLED LATER than it was chosen.

`Tree::compaction_thread` (lsmtk/src/tree/mod.rs) takes the `compaction` mutex, takes a snapshot,
runs `next_compaction` on it (which pushes the answer onto the shared `ongoing` list inside
`emit_compaction`) and RELEASES the mutex.  `perform_compaction` then merges without the mutex.
`apply_manifest_compaction` / `apply_moving_compaction` take the mutex again, take a FRESH snapshot
(`take_snapshot`: the current version) and run `Version::apply_compaction` on THAT version, then
`install_version`.  `apply_manifest_ingest` (the flush) does the same under the same mutex.  So
every change of the tree is serialised by the `compaction` mutex, and each is applied to the
current tree — but the tree a compaction is applied to is not the tree it was chosen on: flushes
(`Version::ingest`) and installs of OTHER compactions in flight may lie in between.

What the selector guarantees of two compactions in flight (`may_choose_compaction`): for every
`g` in `ongoing`, `!CompactionCore::overlapping(g, c)` — the level intervals `[lower, upper]` are
disjoint OR the key ranges `[first, last]` are disjoint.  That is strictly more than "no common
input" (`nextCompaction_respects_ongoing`), and the difference matters: see `NoCommonInputIsNotEnough`.

* `chosen_stable_under_ingest`: `Chosen t c` survives `ingest t f` (fresh id, newest timestamp);
* `chosen_stable_under_disjoint_apply`: `Chosen t c₂` survives `applyCompaction t c₁ outs₁` when
  `overlapping c₁ c₂ = false`;
* `no_common_input_not_enough`: with only "no common input" it does not (a 3-level tree with two
  files), and installing the second compaction then DROPS a file that is not one of its inputs. -/
namespace Blue.NextCompaction
open Blue.Spec

/-! ## closedness of the tagged tree, level by level -/

/-- level `i` in search order -/
def searchLevel (t : Tree) (i : Nat) : List File := if i = 0 then l0Search (level t 0) else level t i

theorem mem_searchLevel {t : Tree} {i : Nat} {f : File} : f ∈ searchLevel t i ↔ f ∈ level t i := by
  unfold searchLevel
  split
  · rename_i h; subst h; exact mem_l0Search
  · exact Iff.rfl

/-- the relation of `Closed` on two files: an input above a file that stays shares no key with it -/
def RC (ids : List Nat) (f g : File) : Prop := f.id ∈ ids → g.id ∉ ids → ¬ SharesKey f.vers g.vers

theorem numLevels_eq (t : Tree) (u : Nat) :
    numLevels t u = (List.range (u + 1)).map (fun i => (i, searchLevel t i)) := by
  unfold numLevels
  rw [List.range_succ_eq_map, List.map_cons, List.map_map]
  congr 1

theorem pairwise_range_iff (S : Nat → Nat → Prop) (n : Nat) :
    (List.range n).Pairwise S ↔ ∀ i j, i < j → j < n → S i j := by
  rw [List.pairwise_iff_getElem]
  constructor
  · intro h i j hij hj
    have := h i j (by simp; omega) (by simp; omega) hij
    simpa using this
  · intro h i j hi hj hij
    simp only [List.length_range] at hi hj
    simpa using h i j hij hj

/-- **closedness level by level**: inside every level (in search order) and between every two
    levels down to the output level -/
theorem closed_iff (t : Tree) (c : Core) : Closed (tagTree t c) ↔
    (∀ i, i ≤ c.upper → (searchLevel t i).Pairwise (RC c.inputs)) ∧
    (∀ i j, i < j → j ≤ c.upper → ∀ f ∈ level t i, ∀ g ∈ level t j, RC c.inputs f g) := by
  unfold Closed tagTree tagIds
  rw [numLevels_eq, List.map_map, List.pairwise_flatten, List.pairwise_map, pairwise_range_iff]
  constructor
  · rintro ⟨h1, h2⟩
    constructor
    · intro i hi
      have := h1 _ (List.mem_map.mpr ⟨i, List.mem_range.mpr (by omega), rfl⟩)
      simp only [Function.comp, List.pairwise_map] at this
      refine this.imp ?_
      intro f g h hf hg
      exact h (by simpa using hf) (by simpa using hg)
    · intro i j hij hj f hf g hg hfi hgi
      have := h2 i j hij (by omega) (c.inputs.contains f.id, f.vers)
        (List.mem_map.mpr ⟨f, mem_searchLevel.mpr hf, rfl⟩) (c.inputs.contains g.id, g.vers)
        (List.mem_map.mpr ⟨g, mem_searchLevel.mpr hg, rfl⟩)
      exact this (by simpa using hfi) (by simpa using hgi)
  · rintro ⟨h1, h2⟩
    constructor
    · intro l hl
      obtain ⟨i, hi, rfl⟩ := List.mem_map.mp hl
      rw [List.mem_range] at hi
      simp only [Function.comp, List.pairwise_map]
      refine (h1 i (by omega)).imp ?_
      intro f g h hf hg
      exact h (by simpa using hf) (by simpa using hg)
    · intro i j hij hj x hx y hy
      obtain ⟨f, hf, rfl⟩ := List.mem_map.mp hx
      obtain ⟨g, hg, rfl⟩ := List.mem_map.mp hy
      intro hfi hgi
      exact h2 i j hij (by omega) f (mem_searchLevel.mp hf) g (mem_searchLevel.mp hg)
        (by simpa using hfi) (by simpa using hgi)

/-! ## (1) a flush between choice and install -/

theorem length_ingest (t : Tree) (f : File) : (ingest t f).length = t.length := by
  cases t <;> rfl

theorem mem_level_ingest {t : Tree} {f g : File} {i : Nat} (h : g ∈ level t i) : g ∈ level (ingest t f) i := by
  cases t with
  | nil => exact h
  | cons l0 rest =>
    cases i with
    | zero => rw [level_ingest_zero]; exact List.mem_append_left _ h
    | succ j => rw [level_ingest_succ]; exact h

/-- the id of a file that is not in the tree is no input of a compaction chosen on it -/
theorem Chosen.fresh_not_input {t : Tree} {c : Core} (hc : Chosen t c) {f : File}
    (hfresh : ∀ l g, g ∈ level t l → g.id ≠ f.id) : f.id ∉ c.inputs := by
  intro hid
  obtain ⟨l, g, hg, he, _⟩ := hc.within f.id hid
  exact hfresh l g hg he

/-- **`chosen_stable_under_ingest`**: a compaction chosen on `t` is still one `apply_compaction_inner`
    may be handed on `ingest t f`, for a file with a fresh id whose newest timestamp exceeds those of
    level 0 (the side conditions of `Step.ingest`).  The new file is no input; it is searched FIRST
    (`l0Search_ingest`), above every input, and `Closed` only constrains what lies BELOW an input. -/
theorem chosen_stable_under_ingest {t : Tree} {c : Core} (hc : Chosen t c) {f : File}
    (hfresh : ∀ l g, g ∈ level t l → g.id ≠ f.id) (hbts : ∀ g ∈ level t 0, g.bts < f.bts) :
    Chosen (ingest t f) c := by
  cases t with
  | nil => exact hc
  | cons l0 rest =>
  have hni := hc.fresh_not_input hfresh
  have hlv := hc.levels
  obtain ⟨hA, hB⟩ := (closed_iff _ c).mp hc.closed
  refine ⟨hc.levels, by rw [length_ingest]; exact hc.upper_lt, hc.range, ?_, ?_, ?_⟩
  · apply (closed_iff _ c).mpr
    constructor
    · intro i hi
      cases i with
      | zero =>
        have e : searchLevel (ingest (l0 :: rest) f) 0 = f :: searchLevel (l0 :: rest) 0 := by
          unfold searchLevel
          rw [if_pos rfl, if_pos rfl, level_ingest_zero]
          exact l0Search_ingest l0 f hbts
        rw [e, List.pairwise_cons]
        exact ⟨fun g _ hf => absurd hf hni, hA 0 hi⟩
      | succ j => exact hA (j + 1) hi
    · intro i j hij hj x hx y hy
      cases j with
      | zero => omega
      | succ j' =>
        rw [level_ingest_succ] at hy
        cases i with
        | zero =>
          rw [level_ingest_zero] at hx
          rcases List.mem_append.mp hx with hx | hx
          · exact hB 0 (j' + 1) hij hj x hx y hy
          · simp only [List.mem_singleton] at hx
            subst hx
            exact fun hf => absurd hf hni
        | succ i' =>
          rw [level_ingest_succ] at hx
          exact hB (i' + 1) (j' + 1) hij hj x hx y hy
  · intro id hid
    obtain ⟨l, g, hg, rest'⟩ := hc.within id hid
    exact ⟨l, g, mem_level_ingest hg, rest'⟩
  · intro g hg
    obtain ⟨u, hu⟩ : ∃ u, c.upper = u + 1 := ⟨c.upper - 1, by omega⟩
    rw [hu, level_ingest_succ, ← hu] at hg
    exact hc.covered g hg

/-- any number of flushes: `Version::ingest` of files with fresh ids and newest timestamps -/
inductive Ingests : Tree → Tree → Prop where
  | refl (t : Tree) : Ingests t t
  | step {t t' : Tree} (f : File) (h : Ingests t t')
      (hfresh : ∀ l g, g ∈ level t' l → g.id ≠ f.id) (hbts : ∀ g ∈ level t' 0, g.bts < f.bts) :
      Ingests t (ingest t' f)

theorem chosen_stable_under_ingests {t t' : Tree} {c : Core} (h : Ingests t t') (hc : Chosen t c) : Chosen t' c := by
  induction h with
  | refl => exact hc
  | step f _ hfresh hbts ih => exact chosen_stable_under_ingest ih hfresh hbts

/-- **`apply_after_ingests`**: a compaction chosen on `t` and applied to the tree `t'` reached from
    `t` by any number of flushes preserves the tree invariant (I1 included) and I2 under any
    memtables — the hypotheses on the outputs are those of `apply_preserves_inv` /
    `apply_preserves_newer_above`, stated on the tree the compaction is APPLIED to. -/
theorem apply_after_ingests {t t' : Tree} {c : Core} {outs : List File} (hi : Ingests t t') (hc : Chosen t c)
    (hinv' : Inv t') (ho : OutsOk t' c outs) (mems : List (List (Ver Nat)))
    (hna : NewerAbove (mems ++ treeComps t'))
    (hsub : ∀ o ∈ outs, ∀ e ∈ o.vers, ∃ i f, f ∈ level t' i ∧ f.id ∈ c.inputs ∧ e ∈ f.vers)
    (hnew : NewerAbove (comps outs)) :
    Chosen t' c ∧ Inv (applyCompaction t' c outs) ∧ NewerAbove (mems ++ treeComps (applyCompaction t' c outs)) :=
  have hc' := chosen_stable_under_ingests hi hc
  ⟨hc', apply_preserves_inv hinv' hc' ho, apply_preserves_newer_above hinv' hc' ho mems hna hsub hnew⟩

/-! ## (2) another compaction installed between choice and install -/

theorem overlapping_false_iff (a b : Core) : overlapping a b = false ↔
    (a.upper < b.lower ∨ b.upper < a.lower ∨ a.last < b.first ∨ b.last < a.first) := by
  unfold overlapping
  simp only [Bool.and_eq_false_iff, decide_eq_false_iff_not]
  omega

theorem overlapping_symm (a b : Core) : overlapping a b = overlapping b a := by
  unfold overlapping
  cases h1 : decide (a.lower ≤ b.upper) <;> cases h2 : decide (b.lower ≤ a.upper) <;>
    cases h3 : decide (a.first ≤ b.last) <;> cases h4 : decide (b.first ≤ a.last) <;> rfl

/-- no file is an input of two compactions `may_choose_compaction` lets be in flight together -/
theorem no_common_input {t : Tree} {c₁ c₂ : Core} (hinv : Inv t) (h1 : Chosen t c₁) (h2 : Chosen t c₂)
    (hno : overlapping c₁ c₂ = false) {l : Nat} {f : File} (hf : f ∈ level t l)
    (hf1 : f.id ∈ c₁.inputs) (hf2 : f.id ∈ c₂.inputs) : False := by
  have a := h1.input_at hinv hf hf1
  have b := h2.input_at hinv hf hf2
  have w := hinv.wf_level l f hf
  have := (overlapping_false_iff c₁ c₂).mp hno
  omega

theorem pairwise_splice {R : File → File → Prop} {l A B O : List File} (hl : l.Pairwise R)
    (hsub : (A ++ B).Sublist l) (hO : ∀ o ∈ O, ∀ x, R o x) (hxO : ∀ x ∈ A, ∀ o ∈ O, R x o) :
    (A ++ O ++ B).Pairwise R := by
  have hab := hl.sublist hsub
  rw [List.pairwise_append] at hab
  obtain ⟨hA, hB, hAB⟩ := hab
  rw [List.pairwise_append]
  refine ⟨?_, hB, ?_⟩
  · rw [List.pairwise_append]
    refine ⟨hA, ?_, hxO⟩
    exact List.Pairwise.imp_of_mem (R := fun _ _ => True) (fun ha _ _ => hO _ ha _) (List.pairwise_of_forall (fun _ _ => trivial))
  · intro x hx y hy
    rcases List.mem_append.mp hx with hx | hx
    · exact hAB x hx y hy
    · exact hO x hx y

theorem take_drop_sublist {α : Type} (l : List α) {a b : Nat} (hab : a ≤ b) : (l.take a ++ l.drop b).Sublist l := by
  have h : l.drop b = (l.drop a).drop (b - a) := by rw [List.drop_drop]; congr 1; omega
  rw [h]
  conv => rhs; rw [← List.take_append_drop a l]
  exact List.Sublist.append (List.Sublist.refl _) (List.drop_sublist _ _)

/-- **`chosen_stable_under_disjoint_apply`**: two compactions `c₁`, `c₂` both admissible on `t`
    that `may_choose_compaction` allows in flight together (`overlapping c₁ c₂ = false`: level
    intervals disjoint or key ranges disjoint).  After `apply_compaction_inner` of `c₁` (outputs
    `OutsOk`), `c₂` is still admissible on the successor. -/
theorem chosen_stable_under_disjoint_apply {t : Tree} {c₁ c₂ : Core} {outs₁ : List File} (hinv : Inv t)
    (h1 : Chosen t c₁) (ho : OutsOk t c₁ outs₁) (h2 : Chosen t c₂) (hno : overlapping c₁ c₂ = false) :
    Chosen (applyCompaction t c₁ outs₁) c₂ := by
  have hno' := (overlapping_false_iff c₁ c₂).mp hno
  have hl1 := h1.levels
  have hl2 := h2.levels
  obtain ⟨hA, hB⟩ := (closed_iff t c₂).mp h2.closed
  -- an output of `c₁` is no input of `c₂`
  have hout : ∀ o ∈ outs₁, o.id ∉ c₂.inputs := by
    intro o ho' hid
    obtain ⟨l, f, hf, he, _⟩ := h2.within o.id hid
    have := ho.fresh o ho' l f hf he
    exact no_common_input hinv h1 h2 hno hf this (by rw [he]; exact hid)
  -- an input of `c₂` at or above the output level of `c₁` shares no key with an output of `c₁`
  have hold_out : ∀ i f, f ∈ level t i → i ≤ c₁.upper → c₁.upper ≤ c₂.upper → ∀ o ∈ outs₁, RC c₂.inputs f o := by
    intro i f hf hi hu o ho' hid _ hsk
    obtain ⟨a, ha, b, hb, hk⟩ := hsk
    have hat := h2.input_at hinv hf hid
    have wf1 : f.first ≤ a.1 := ((hinv.wfT hf).2 a ha).1
    have wf2 : a.1 ≤ f.last := ((hinv.wfT hf).2 a ha).2
    have wo := (ho.wf o ho').2 b hb
    have io := ho.inside o ho'
    have hk' : a.1 = b.1 := hk
    omega
  refine ⟨h2.levels, by rw [length_apply]; exact h2.upper_lt, h2.range, ?_, ?_, ?_⟩
  · apply (closed_iff _ c₂).mpr
    constructor
    · intro i hi
      rcases Nat.lt_trichotomy i c₁.upper with hlt | heq | hgt
      · have e : searchLevel (applyCompaction t c₁ outs₁) i = dropInputs c₁.inputs (searchLevel t i) := by
          unfold searchLevel
          split
          · rename_i h0; subst h0
            rw [level_apply_above hinv h1 outs₁ hlt, l0Search_dropInputs]
          · exact level_apply_above hinv h1 outs₁ hlt
        rw [e]
        exact (hA i hi).sublist List.filter_sublist
      · subst heq
        have hne : c₁.upper ≠ 0 := by omega
        have e : searchLevel (applyCompaction t c₁ outs₁) c₁.upper
            = spliceUpper (level t c₁.upper) c₁.first c₁.last outs₁ := by
          unfold searchLevel
          rw [if_neg hne]
          exact level_apply_upper h1 outs₁
        have e0 : searchLevel t c₁.upper = level t c₁.upper := by
          unfold searchLevel; rw [if_neg hne]
        rw [e]
        unfold spliceUpper
        have hs := hinv.sorted_level (i := c₁.upper) (by omega)
        have hw := hinv.wf_level c₁.upper
        refine pairwise_splice (e0 ▸ hA c₁.upper hi) (take_drop_sublist _ (lb_le_ub hs hw h1.range)) ?_ ?_
        · intro o ho' x hid
          exact absurd hid (hout o ho')
        · intro x hx o ho'
          exact hold_out c₁.upper x (List.mem_of_mem_take hx) (Nat.le_refl _) hi o ho'
      · have e : searchLevel (applyCompaction t c₁ outs₁) i = searchLevel t i := by
          have hne : i ≠ 0 := by omega
          unfold searchLevel
          rw [if_neg hne, if_neg hne]
          exact level_apply_below h1 outs₁ hgt
        rw [e]
        exact hA i hi
    · intro i j hij hj f hf g hg
      rcases (mem_level_apply hinv h1 outs₁).mp hf with ⟨hf', _⟩ | ⟨_, hf'⟩
      · rcases (mem_level_apply hinv h1 outs₁).mp hg with ⟨hg', _⟩ | ⟨hju, hg'⟩
        · exact hB i j hij hj f hf' g hg'
        · subst hju
          exact hold_out i f hf' (by omega) hj g hg'
      · intro hid
        exact absurd hid (hout f hf')
  · intro id hid
    obtain ⟨l, f, hf, he, r⟩ := h2.within id hid
    refine ⟨l, f, (mem_level_apply hinv h1 outs₁).mpr (Or.inl ⟨hf, fun hf1 => ?_⟩), he, r⟩
    exact no_common_input hinv h1 h2 hno hf hf1 (by rw [he]; exact hid)
  · intro g hg ha hb
    rcases (mem_level_apply hinv h1 outs₁).mp hg with ⟨hg', _⟩ | ⟨hu, hg'⟩
    · exact h2.covered g hg' ha hb
    · have io := ho.inside g hg'
      have := h1.range
      have := h2.range
      omega

/-- the selector's guarantee, `nextCompaction … og` with `c₁ ∈ og`, in the form used above -/
theorem nextCompaction_not_overlapping (n : Num) (o : Opts) (t : Tree) (og : List Core) {c : Core}
    (h : nextCompaction n o t og = some c) : ∀ g ∈ og, overlapping g c = false := by
  intro g hg
  have hm := nextCompaction_may_choose n o t og h
  unfold mayChoose at hm
  split at hm
  · cases hm
  · split at hm
    · cases hm
    · simp only [Bool.not_eq_true', List.any_eq_false] at hm
      have := hm g hg
      simpa using this

/-- **two compactions in flight can be installed in either order**: both successors satisfy the
    tree invariant.  (`OutsOk` of the second install is stated on the tree it is applied to.) -/
theorem install_either_order {t : Tree} {c₁ c₂ : Core} {o₁ o₂ : List File} (hinv : Inv t)
    (h1 : Chosen t c₁) (h2 : Chosen t c₂) (hno : overlapping c₁ c₂ = false)
    (ho1 : OutsOk t c₁ o₁) (ho2 : OutsOk t c₂ o₂)
    (ho21 : OutsOk (applyCompaction t c₁ o₁) c₂ o₂) (ho12 : OutsOk (applyCompaction t c₂ o₂) c₁ o₁) :
    Inv (applyCompaction (applyCompaction t c₁ o₁) c₂ o₂) ∧ Inv (applyCompaction (applyCompaction t c₂ o₂) c₁ o₁) :=
  ⟨apply_preserves_inv (apply_preserves_inv hinv h1 ho1) (chosen_stable_under_disjoint_apply hinv h1 ho1 h2 hno) ho21,
   apply_preserves_inv (apply_preserves_inv hinv h2 ho2)
     (chosen_stable_under_disjoint_apply hinv h2 ho2 h1 (by rw [overlapping_symm]; exact hno)) ho12⟩

/-! ## "no common input" alone is NOT enough

A 3-level tree with two files.  `c₁` moves the level-1 file `A` (keys 3..8) to the empty level 2;
`c₂` compacts the level-0 file `F` (keys 0..10, sharing no key with `A`) straight into level 2.
Both are admissible on `t` (`Chosen`), they have no input in common — but they overlap in levels
AND keys, so `may_choose_compaction` (`CompactionCore::overlapping`) never lets both be in flight.
Without that guard: after `c₁` is installed, `A` sits at the output level of `c₂` inside its key
range without being an input (`covered` fails), and `apply_compaction_inner` of `c₂`, cutting the
output level BY POSITION, drops `A`: the version `(4, 1)` is lost.  (`c₂` is admissible for
`apply_compaction_inner` but is not an answer of the real selector on `t`: `compute_bounds` would
have taken `A` at the intermediate level.  The counterexample is to the lemma under the weaker
hypothesis; the guard the code has is exactly the hypothesis the lemma needs.) -/
namespace NoCommonInputIsNotEnough

def F : File := ⟨1, 0, 10, 100, 2, [(5, 2)]⟩
def A : File := ⟨2, 3, 8, 100, 1, [(4, 1)]⟩
def F' : File := ⟨3, 0, 10, 100, 2, [(5, 2)]⟩
def t : Tree := [[F], [A], []]
def c₁ : Core := ⟨1, 2, 3, 8, [2], 100⟩
def c₂ : Core := ⟨0, 2, 0, 10, [1], 100⟩

theorem inv : Inv t := invB_sound (by decide +kernel)
theorem chosen₁ : Chosen t c₁ := chosenB_sound (by decide +kernel)
theorem chosen₂ : Chosen t c₂ := chosenB_sound (by decide +kernel)
theorem outs₁ : OutsOk t c₁ [A] := outsOkB_sound (by decide +kernel)
theorem no_common : ∀ id ∈ c₁.inputs, id ∉ c₂.inputs := by decide
theorem overlap : overlapping c₁ c₂ = true := by decide

/-- **counterexample**: `c₂` is no longer admissible once `c₁` has been installed -/
theorem not_chosen_after : ¬ Chosen (applyCompaction t c₁ [A]) c₂ := by
  intro h
  have hm : A ∈ level (applyCompaction t c₁ [A]) c₂.upper :=
    (mem_level_apply inv chosen₁ [A]).mpr (Or.inr ⟨rfl, List.mem_singleton.mpr rfl⟩)
  have := h.covered A hm (by decide) (by decide)
  revert this
  decide

/-- … and installing it nevertheless loses `A` (no input of `c₂`): only the output is left -/
theorem install_drops_A :
    (applyCompaction (applyCompaction t c₁ [A]) c₂ [F']).map (fun l => l.map (·.id)) = [[], [], [3]] := by
  decide +kernel

theorem outs₂_ok_otherwise : outsOkB (applyCompaction t c₁ [A]) c₂ [F'] = true := by decide +kernel

end NoCommonInputIsNotEnough

/-- `chosen_stable_under_disjoint_apply` is FALSE with "no common input" in place of
    `overlapping c₁ c₂ = false` -/
theorem no_common_input_not_enough : ∃ (t : Tree) (c₁ c₂ : Core) (outs₁ : List File),
    Inv t ∧ Chosen t c₁ ∧ OutsOk t c₁ outs₁ ∧ Chosen t c₂ ∧ (∀ id ∈ c₁.inputs, id ∉ c₂.inputs)
      ∧ ¬ Chosen (applyCompaction t c₁ outs₁) c₂ :=
  ⟨_, _, _, _, NoCommonInputIsNotEnough.inv, NoCommonInputIsNotEnough.chosen₁, NoCommonInputIsNotEnough.outs₁,
    NoCommonInputIsNotEnough.chosen₂, NoCommonInputIsNotEnough.no_common, NoCommonInputIsNotEnough.not_chosen_after⟩

end Blue.NextCompaction

#print axioms Blue.NextCompaction.closed_iff
#print axioms Blue.NextCompaction.chosen_stable_under_ingest
#print axioms Blue.NextCompaction.apply_after_ingests
#print axioms Blue.NextCompaction.chosen_stable_under_disjoint_apply
#print axioms Blue.NextCompaction.nextCompaction_not_overlapping
#print axioms Blue.NextCompaction.install_either_order
#print axioms Blue.NextCompaction.no_common_input_not_enough
#print axioms Blue.NextCompaction.NoCommonInputIsNotEnough.install_drops_A
