import Blue.Proofs.LogZeroed
import Blue.Proofs.Damage
/-! **C09 (log)**: damage confined to one region of one append of a log is detected.

The log of `bufs1 ++ b :: bufs2` is `pre ++ A ++ suf` (`writeAll_append`), `A` what the append of `b`
wrote.  A damaged image `d` of the same length agrees with it outside one region of `A`: the payload
of one frame, a run of padding zeros, or the header-length byte and header of one frame.  The reader
delivers exactly `bufs1` and then reports an error — never a different batch.  The CRC enters only
as an explicit hypothesis.

* `framesOf`, `layFrames`, `appendAt_eq_layFrames`: the frames of one append with their offsets;
* `append_layout`: the shapes of one append as the reader meets them (leading zeros, `WHOLE` frame or
  `FIRST` frame / zeros / `SECOND` frame);
* `log_payload_damage_detected` (1), `log_padding_damage_detected` (2),
  `log_header_damage_detected` and `_partial` (3), `log_damage_replay_fails` (4),
  `crc_field_damage_detected` (5a, the real header codec), `disc_outside_checksum_example` and
  `padding_injection_example` (5b: hypotheses that cannot be dropped),
  `log_damage_detected_or_prefix` (6);
* `readSome_suffix_agree`: reading from an offset depends only on the file's length and the bytes
  from that offset on. -/
namespace Blue.Log
variable {P : Params}

/-! ### the frames of one append -/

/-- length of the packed header of the frame with this discriminant and payload -/
def hdrLen (P : Params) (disc : Nat) (p : List Nat) : Nat := (P.encH ⟨p.length, disc, P.crc p⟩).length

/-- offset of the payload of a frame whose header-length byte is at `s` -/
def payOff (P : Params) (s disc : Nat) (p : List Nat) : Nat := s + 1 + hdrLen P disc p

/-- (offset of the header-length byte, discriminant, payload) of the frames `appendAt P fuel pos buf`
    writes -/
def framesOf (P : Params) : Nat → Nat → List Nat → List (Nat × Nat × List Nat)
  | 0, _, _ => []
  | f+1, pos, buf =>
    if pos + (frame P WHOLE buf).length > nextBoundary P pos then
      if nextBoundary P pos - pos ≤ P.H then framesOf P f (nextBoundary P pos) buf
      else [(pos, FIRST, buf.take (nextBoundary P pos - pos - P.H)),
            (nextBoundary P pos, SECOND, buf.drop (nextBoundary P pos - pos - P.H))]
    else [(pos, WHOLE, buf)]

theorem framesOf_succ (f pos : Nat) (buf : List Nat) :
    framesOf P (f + 1) pos buf =
      if pos + (frame P WHOLE buf).length > nextBoundary P pos then
        if nextBoundary P pos - pos ≤ P.H then framesOf P f (nextBoundary P pos) buf
        else [(pos, FIRST, buf.take (nextBoundary P pos - pos - P.H)),
              (nextBoundary P pos, SECOND, buf.drop (nextBoundary P pos - pos - P.H))]
      else [(pos, WHOLE, buf)] := rfl

/-- frames laid out from `pos`: zeros up to each frame's offset, then the frame -/
def layFrames (P : Params) : Nat → List (Nat × Nat × List Nat) → List Nat
  | _, [] => []
  | pos, (s, disc, p) :: rest =>
    zeros (s - pos) ++ frame P disc p ++ layFrames P (s + (frame P disc p).length) rest

/-- the runs of padding zeros `(start, end)` of an append that starts at `pos`: before each frame -/
def padRunsOf (P : Params) : Nat → List (Nat × Nat × List Nat) → List (Nat × Nat)
  | _, [] => []
  | pos, (s, disc, p) :: rest => (pos, s) :: padRunsOf P (s + (frame P disc p).length) rest

theorem frame_length_eq (disc : Nat) (p : List Nat) :
    (frame P disc p).length = 1 + hdrLen P disc p + p.length := by
  unfold frame hdrLen
  simp only [List.length_cons, List.length_append]
  omega

/-! ### `appendAt` is its frames laid out at their offsets -/

theorem nopad_mirror (f pos : Nat) (buf : List Nat)
    (hno : ¬ (pos + (frame P WHOLE buf).length > nextBoundary P pos ∧ nextBoundary P pos - pos ≤ P.H)) :
    appendAt P (f + 1) pos buf = layFrames P pos (framesOf P (f + 1) pos buf)
    ∧ ∃ disc p rest, framesOf P (f + 1) pos buf = (pos, disc, p) :: rest := by
  rw [appendAt_succ, framesOf_succ]
  by_cases hfit : pos + (frame P WHOLE buf).length > nextBoundary P pos
  · have hround : ¬ (nextBoundary P pos - pos ≤ P.H) := fun h => hno ⟨hfit, h⟩
    rw [if_pos hfit, if_neg hround, if_pos hfit, if_neg hround]
    exact ⟨by simp [layFrames, zeros], _, _, _, rfl⟩
  · rw [if_neg hfit, if_neg hfit]
    exact ⟨by simp [layFrames, zeros], _, _, _, rfl⟩

/-- **`framesOf` mirrors `appendAt`**: what an append writes is its frames at their offsets, with
    zeros in between -/
theorem appendAt_eq_layFrames (g : Good P) (pos : Nat) (buf : List Nat) :
    appendAt P 2 pos buf = layFrames P pos (framesOf P 2 pos buf) := by
  have hB : 0 < P.B := by have := g.hB; omega
  have hBH : P.H < P.B := by have := g.hB; omega
  by_cases hpad : pos + (frame P WHOLE buf).length > nextBoundary P pos ∧ nextBoundary P pos - pos ≤ P.H
  · obtain ⟨hfit, hround⟩ := hpad
    obtain ⟨q, m, hpos, hm⟩ := block_decomp (P := P) hB pos
    have hnb : nextBoundary P pos = q * P.B + P.B := nextBoundary_block hB q pos (by omega) (by omega)
    have hnb2 : nextBoundary P (q * P.B + P.B) = (q + 1) * P.B + P.B :=
      nextBoundary_block hB (q + 1) _ (by rw [Nat.add_mul, Nat.one_mul]; omega)
        (by rw [Nat.add_mul, Nat.one_mul]; omega)
    have hno : ¬ (q * P.B + P.B + (frame P WHOLE buf).length > nextBoundary P (q * P.B + P.B)
              ∧ nextBoundary P (q * P.B + P.B) - (q * P.B + P.B) ≤ P.H) := by
      rw [hnb2, Nat.add_mul, Nat.one_mul]
      intro h
      omega
    obtain ⟨h1, disc, p, rest, h2⟩ := nopad_mirror 0 (q * P.B + P.B) buf hno
    rw [show (2 : Nat) = 1 + 1 from rfl, appendAt_succ, framesOf_succ]
    rw [if_pos hfit, if_pos hround, if_pos hfit, if_pos hround, hnb, h1, h2]
    simp [layFrames, zeros]
  · exact (nopad_mirror 1 pos buf hpad).1


/-! ### agreement of two files -/

theorem agree_take (d F : List Nat) (n : Nat) (h : ∀ i, i < n → d[i]? = F[i]?) : d.take n = F.take n := by
  apply List.ext_getElem?
  intro i
  rw [List.getElem?_take, List.getElem?_take]
  by_cases hi : i < n
  · rw [if_pos hi, if_pos hi]; exact h i hi
  · rw [if_neg hi, if_neg hi]

theorem nextHeader_prefix_agree (hB : 0 < P.B) (d F : List Nat) (n : Nat) (h : ∀ i, i < n → d[i]? = F[i]?)
    (fuel off : Nat) (r : Hdr × Nat) (hr : nextHeader P F fuel off = .ok r) (hn : r.2 ≤ n) :
    nextHeader P d fuel off = .ok r := by
  have h1 := (nextHeader_take_conv hB F n fuel off r hr hn).1
  rw [← agree_take d F n h] at h1
  exact nextHeader_take d n fuel off r h1

theorem nextFrame_prefix_agree (hB : 0 < P.B) (d F : List Nat) (n : Nat) (h : ∀ i, i < n → d[i]? = F[i]?)
    (fuel off : Nat) (r : Hdr × List Nat × Nat) (hr : nextFrame P F fuel off = .ok r) (hn : r.2.2 ≤ n) :
    nextFrame P d fuel off = .ok r := by
  have h1 := (nextFrame_take_conv hB F n fuel off r hr hn).1
  rw [← agree_take d F n h] at h1
  exact nextFrame_take d n fuel off r h1

theorem slice_agree (d F : List Nat) (off n : Nat) (h : ∀ i, off ≤ i → i < off + n → d[i]? = F[i]?) :
    slice d off n = slice F off n := by
  apply List.ext_getElem?
  intro i
  rw [slice_get, slice_get]
  by_cases hi : i < n
  · rw [if_pos hi, if_pos hi]; exact h (off + i) (by omega) (by omega)
  · rw [if_neg hi, if_neg hi]

/-- every byte the file has at an offset in `[lo, hi)` is the zero byte, and it has them all -/
def ZeroRun (F : List Nat) (lo hi : Nat) : Prop := ∀ i, lo ≤ i → i < hi → F[i]? = some 0

theorem padZero_of_zeroRun (F : List Nat) (lo hi off : Nat) (hlo : lo ≤ off) (h : ZeroRun F lo hi) :
    padZero F off hi = true := by
  rw [padZero_iff]
  intro i x h1 h2 hx
  rw [h i (by omega) h2] at hx
  cases hx
  rfl

theorem ZeroRun.agree {F : List Nat} {lo hi : Nat} (h : ZeroRun F lo hi) (d : List Nat)
    (hag : ∀ i, lo ≤ i → i < hi → d[i]? = F[i]?) : ZeroRun d lo hi := by
  intro i h1 h2
  rw [hag i h1 h2]
  exact h i h1 h2

theorem zeroRun_mid (a c : List Nat) (n : Nat) : ZeroRun (a ++ zeros n ++ c) a.length (a.length + n) := by
  intro i h1 h2
  rw [List.append_assoc, List.getElem?_append_right h1,
    List.getElem?_append_left (by rw [zeros_length]; omega)]
  unfold zeros
  rw [List.getElem?_replicate, if_pos (by omega)]

/-! ### the reader's steps -/

/-- at a block boundary a zero length byte is never padding, so the fuel does not matter -/
theorem nextHeader_boundary_fuel (g : Good P) (d : List Nat) (q f f' : Nat) :
    nextHeader P d (f + 1) (q * P.B) = nextHeader P d (f' + 1) (q * P.B) := by
  have hB := g.hB
  have hH := g.hH
  rw [nextHeader_succ, nextHeader_succ]
  cases d[q * P.B]? with
  | none => rfl
  | some x =>
    simp only
    by_cases h0 : x = 0
    · have ht : trueUp P (q * P.B + 1) = q * P.B + P.B :=
        trueUp_inside (by omega) q _ (by omega) (by omega)
      rw [if_pos h0, if_pos h0, ht, if_pos (by omega), if_pos (by omega)]
    · rw [if_neg h0, if_neg h0]

/-- where the (first) frame of an append that starts at `pos` can stand: at `pos`, or at the next
    block boundary when that is at most `H` bytes away -/
def PadGeom (P : Params) (pos s : Nat) : Prop :=
  pos = s ∨ ∃ q, s = q * P.B + P.B ∧ q * P.B ≤ pos ∧ pos < s ∧ s - pos ≤ P.H

/-- the reader steps over the writer's leading padding -/
theorem skip_lead (g : Good P) (d : List Nat) (pos s : Nat) (hg : PadGeom P pos s) (hz : ZeroRun d pos s) :
    nextHeader P d 2 pos = nextHeader P d 2 s := by
  rcases hg with rfl | ⟨q, hs, hq, hlt, hH⟩
  · rfl
  · have hpad : padZero d (pos + 1) (q * P.B + P.B) = true := by
      rw [← hs]; exact padZero_of_zeroRun d pos s (pos + 1) (by omega) hz
    have h1 := nextHeader_padding g d 1 pos q (s - pos) (hz pos (Nat.le_refl _) hlt) (by omega) (by omega)
      (by omega) hH hq hpad
    rw [h1, hs, show q * P.B + P.B = (q + 1) * P.B by rw [Nat.add_mul, Nat.one_mul]]
    exact nextHeader_boundary_fuel g d (q + 1) 0 1

theorem nextFrame_ok_inv (F : List Nat) (fuel off : Nat) (h : Hdr) (p : List Nat) (e : Nat)
    (hf : nextFrame P F fuel off = .ok (h, p, e)) :
    ∃ o, nextHeader P F fuel off = .ok (h, o) ∧ o + h.size = e ∧ e ≤ F.length ∧ slice F o h.size = p
      ∧ P.crc p = h.crc := by
  unfold nextFrame at hf
  cases hh : nextHeader P F fuel off with
  | eof => rw [hh] at hf; cases hf
  | err => rw [hh] at hf; cases hf
  | ok hr =>
    obtain ⟨hd, off'⟩ := hr
    rw [hh] at hf
    simp only at hf
    by_cases h1 : off' + hd.size > F.length
    · rw [if_pos h1] at hf; cases hf
    · rw [if_neg h1] at hf
      by_cases h2 : P.crc (slice F off' hd.size) ≠ hd.crc
      · rw [if_pos h2] at hf; cases hf
      · rw [if_neg h2] at hf
        cases hf
        exact ⟨off', rfl, rfl, by omega, rfl, Decidable.not_not.mp h2⟩

theorem nextFrame_of_header_ok (F : List Nat) (fuel off : Nat) (h : Hdr) (o : Nat)
    (hh : nextHeader P F fuel off = .ok (h, o)) (hlen : o + h.size ≤ F.length)
    (hc : P.crc (slice F o h.size) = h.crc) :
    nextFrame P F fuel off = .ok (h, slice F o h.size, o + h.size) := by
  unfold nextFrame
  rw [hh]
  simp only
  rw [if_neg (by omega), if_neg (by intro hne; exact hne hc)]

theorem nextFrame_too_long (F : List Nat) (fuel off : Nat) (h : Hdr) (o : Nat)
    (hh : nextHeader P F fuel off = .ok (h, o)) (hlen : o + h.size > F.length) :
    nextFrame P F fuel off = .err := by
  unfold nextFrame
  rw [hh]
  simp only
  rw [if_pos hlen]

theorem nextBatch_of_frame_err (F : List Nat) (fuel off : Nat) (h : nextFrame P F fuel off = .err) :
    nextBatch P F fuel off = .err := by
  unfold nextBatch; rw [h]

/-! ### a frame at a known offset -/

def FrameAt (P : Params) (F : List Nat) (s disc : Nat) (p : List Nat) : Prop :=
  ∃ a c, F = a ++ frame P disc p ++ c ∧ a.length = s

theorem FrameAt.read (g : Good P) {F : List Nat} {s disc : Nat} {p : List Nat} (hF : FrameAt P F s disc p)
    (hsz : p.length ≤ P.tableFull) (hdisc : disc < 128) (fuel : Nat) :
    nextFrame P F (fuel + 1) s = .ok (⟨p.length, disc, P.crc p⟩, p, s + (frame P disc p).length) := by
  obtain ⟨a, c, hfile, hs⟩ := hF
  exact read_frame_at g F a c p disc fuel s hsz hdisc hfile hs.symm

/-- the header, the payload offset, the payload bytes and the end of a frame of the file -/
theorem FrameAt.facts (g : Good P) {F : List Nat} {s disc : Nat} {p : List Nat} (hF : FrameAt P F s disc p)
    (hsz : p.length ≤ P.tableFull) (hdisc : disc < 128) (fuel : Nat) :
    nextHeader P F (fuel + 1) s = .ok (⟨p.length, disc, P.crc p⟩, payOff P s disc p)
    ∧ slice F (payOff P s disc p) p.length = p
    ∧ payOff P s disc p + p.length ≤ F.length
    ∧ payOff P s disc p + p.length = s + (frame P disc p).length := by
  obtain ⟨o, h1, h2, h3, h4, _⟩ := nextFrame_ok_inv F (fuel + 1) s _ p _ (hF.read g hsz hdisc fuel)
  simp only at h2 h4
  have hfl := frame_length_eq (P := P) disc p
  have ho : o = payOff P s disc p := by unfold payOff; omega
  subst ho
  exact ⟨h1, h4, by omega, by omega⟩

theorem hdrLen_bounds (g : Good P) (disc : Nat) (p : List Nat) (hsz : p.length ≤ P.tableFull)
    (hdisc : disc < 128) : 1 ≤ hdrLen P disc p ∧ hdrLen P disc p + 1 ≤ P.H :=
  g.enc_len ⟨p.length, disc, P.crc p⟩ (Nat.lt_of_le_of_lt hsz g.tf_lt) hdisc (g.crc_lt _)

/-! ### the second half of `nextBatch` -/

/-- the padding between a `FIRST` frame that ends at `e` and the `SECOND` frame at `t` -/
def GapGeom (P : Params) (e t : Nat) : Prop := trueUp P e = t ∧ e ≤ t ∧ t - e ≤ P.H

theorem nextBatch_first (d : List Nat) (fuel off : Nat) (h1 : Hdr) (p1 : List Nat) (e1 t : Nat)
    (hf : nextFrame P d fuel off = .ok (h1, p1, e1)) (hd : h1.disc = FIRST) (hg : GapGeom P e1 t)
    (hp : padZero d e1 t = true) :
    nextBatch P d fuel off =
      match nextFrame P d fuel t with
      | .ok (h2, p2, e2) => if h2.disc = SECOND then .ok (p1 ++ p2, e2) else .err
      | _ => .err := by
  obtain ⟨ht, _, hH⟩ := hg
  unfold nextBatch
  rw [hf]
  simp only
  rw [if_neg (by rw [hd]; decide), if_pos hd, ht, if_neg (by omega), hp]
  rfl

theorem nextBatch_first_badpad (d : List Nat) (fuel off : Nat) (h1 : Hdr) (p1 : List Nat) (e1 t : Nat)
    (hf : nextFrame P d fuel off = .ok (h1, p1, e1)) (hd : h1.disc = FIRST) (hg : GapGeom P e1 t)
    (hp : padZero d e1 t = false) :
    nextBatch P d fuel off = .err := by
  obtain ⟨ht, _, hH⟩ := hg
  unfold nextBatch
  rw [hf]
  simp only
  rw [if_neg (by rw [hd]; decide), if_pos hd, ht, if_neg (by omega), hp]
  rfl

theorem nextBatch_whole (d : List Nat) (fuel off : Nat) (h1 : Hdr) (p1 : List Nat) (e1 : Nat)
    (hf : nextFrame P d fuel off = .ok (h1, p1, e1)) (hd : h1.disc = WHOLE) :
    nextBatch P d fuel off = .ok (p1, e1) := by
  unfold nextBatch
  rw [hf]
  simp only
  rw [if_pos hd]

theorem nextBatch_other (d : List Nat) (fuel off : Nat) (h1 : Hdr) (p1 : List Nat) (e1 : Nat)
    (hf : nextFrame P d fuel off = .ok (h1, p1, e1)) (hw : h1.disc ≠ WHOLE) (hd : h1.disc ≠ FIRST) :
    nextBatch P d fuel off = .err := by
  unfold nextBatch
  rw [hf]
  simp only
  rw [if_neg hw, if_neg hd]

/-! ### what one append wrote, as frames, gaps and zero runs of the file -/

/-- the frames of an append whose first frame stands at `s` -/
inductive Layout0 (P : Params) (F : List Nat) (s : Nat) (b : List Nat) (fr : List (Nat × Nat × List Nat)) : Prop
  | whole (hfr : fr = [(s, WHOLE, b)]) (hF : FrameAt P F s WHOLE b)
  | split (fb s2 : Nat) (hfr : fr = [(s, FIRST, b.take fb), (s2, SECOND, b.drop fb)])
      (hF1 : FrameAt P F s FIRST (b.take fb))
      (hgap : GapGeom P (s + (frame P FIRST (b.take fb)).length) s2)
      (hzg : ZeroRun F (s + (frame P FIRST (b.take fb)).length) s2)
      (hF2 : FrameAt P F s2 SECOND (b.drop fb))

theorem layout_nopad (g : Good P) (pre b suf : List Nat) (hb : b.length ≤ P.tableFull)
    (hno : ¬ (pre.length + (frame P WHOLE b).length > nextBoundary P pre.length
              ∧ nextBoundary P pre.length - pre.length ≤ P.H)) (f : Nat) :
    Layout0 P (pre ++ appendAt P (f + 1) pre.length b ++ suf) pre.length b (framesOf P (f + 1) pre.length b) := by
  have hB : 0 < P.B := by have := g.hB; omega
  obtain ⟨q, m, hpos, hm⟩ := block_decomp (P := P) hB pre.length
  have hnb : nextBoundary P pre.length = q * P.B + P.B :=
    nextBoundary_block hB q pre.length (by omega) (by omega)
  obtain ⟨hw1, hw2⟩ := frame_length g WHOLE b hb (by decide)
  by_cases hfit : pre.length + (frame P WHOLE b).length > nextBoundary P pre.length
  · have hround : ¬ (nextBoundary P pre.length - pre.length ≤ P.H) := fun h => hno ⟨hfit, h⟩
    generalize hfb : nextBoundary P pre.length - pre.length - P.H = fb at *
    have hout : appendAt P (f + 1) pre.length b
        = frame P FIRST (b.take fb) ++
          zeros (nextBoundary P pre.length - (pre.length + (frame P FIRST (b.take fb)).length)) ++
          frame P SECOND (b.drop fb) := by
      rw [appendAt_succ]
      rw [if_pos hfit, if_neg hround, hfb]
    have hfr : framesOf P (f + 1) pre.length b
        = [(pre.length, FIRST, b.take fb), (nextBoundary P pre.length, SECOND, b.drop fb)] := by
      rw [framesOf_succ]
      rw [if_pos hfit, if_neg hround, hfb]
    rw [hout, hfr, hnb]
    rw [hnb] at hfb hround hfit
    obtain ⟨hf1a, hf1b⟩ := frame_length g FIRST (b.take fb) (by rw [List.length_take]; omega) (by decide)
    have hfble : fb ≤ b.length := by omega
    have htake : (b.take fb).length = fb := by rw [List.length_take]; omega
    generalize hz : q * P.B + P.B - (pre.length + (frame P FIRST (b.take fb)).length) = z at *
    have hzH : z ≤ P.H := by omega
    have hend : pre.length + (frame P FIRST (b.take fb)).length + z = q * P.B + P.B := by omega
    have htrue : trueUp P (pre.length + (frame P FIRST (b.take fb)).length) = q * P.B + P.B := by
      by_cases hz0 : z = 0
      · have : pre.length + (frame P FIRST (b.take fb)).length = (q + 1) * P.B := by
          rw [Nat.add_mul, Nat.one_mul]; omega
        rw [this, trueUp_at, Nat.add_mul, Nat.one_mul]
      · exact trueUp_inside hB q _ (by omega) (by omega)
    refine .split fb (q * P.B + P.B) rfl ?_ ⟨htrue, by omega, by omega⟩ ?_ ?_
    · exact ⟨pre, zeros z ++ frame P SECOND (b.drop fb) ++ suf, by simp only [List.append_assoc], rfl⟩
    · have hzr := zeroRun_mid (pre ++ frame P FIRST (b.take fb)) (frame P SECOND (b.drop fb) ++ suf) z
      have hl : (pre ++ frame P FIRST (b.take fb)).length = pre.length + (frame P FIRST (b.take fb)).length :=
        List.length_append
      rw [hl, hend] at hzr
      have he : pre ++ frame P FIRST (b.take fb) ++ zeros z ++ (frame P SECOND (b.drop fb) ++ suf)
          = pre ++ (frame P FIRST (b.take fb) ++ zeros z ++ frame P SECOND (b.drop fb)) ++ suf := by
        simp only [List.append_assoc]
      rw [he] at hzr
      exact hzr
    · refine ⟨pre ++ frame P FIRST (b.take fb) ++ zeros z, suf, by simp only [List.append_assoc], ?_⟩
      simp only [List.length_append, zeros_length]
      exact hend
  · have hout : appendAt P (f + 1) pre.length b = frame P WHOLE b := by
      rw [appendAt_succ, if_neg hfit]
    have hfr : framesOf P (f + 1) pre.length b = [(pre.length, WHOLE, b)] := by
      rw [framesOf_succ, if_neg hfit]
    rw [hout, hfr]
    exact .whole rfl ⟨pre, suf, rfl, rfl⟩

/-- **the shapes of one append**: the first frame stands at the start of the append or — after at
    most `H` zeros — at the next block boundary; it is `WHOLE`, or `FIRST` followed by zeros up to
    the next boundary and a `SECOND` frame there -/
theorem append_layout (g : Good P) (pre b suf : List Nat) (hb : b.length ≤ P.tableFull) :
    ∃ s, PadGeom P pre.length s ∧ ZeroRun (pre ++ appendAt P 2 pre.length b ++ suf) pre.length s
      ∧ Layout0 P (pre ++ appendAt P 2 pre.length b ++ suf) s b (framesOf P 2 pre.length b) := by
  have hB : 0 < P.B := by have := g.hB; omega
  have hBH : P.H < P.B := by have := g.hB; omega
  obtain ⟨q, m, hpos, hm⟩ := block_decomp (P := P) hB pre.length
  have hnb : nextBoundary P pre.length = q * P.B + P.B :=
    nextBoundary_block hB q pre.length (by omega) (by omega)
  by_cases hpad : pre.length + (frame P WHOLE b).length > nextBoundary P pre.length
            ∧ nextBoundary P pre.length - pre.length ≤ P.H
  · obtain ⟨hfit, hround⟩ := hpad
    have hout : appendAt P 2 pre.length b
        = zeros (q * P.B + P.B - pre.length) ++ appendAt P 1 (q * P.B + P.B) b := by
      rw [show (2 : Nat) = 1 + 1 from rfl, appendAt_succ]
      rw [if_pos hfit, if_pos hround, hnb]
    have hfr : framesOf P 2 pre.length b = framesOf P 1 (q * P.B + P.B) b := by
      rw [show (2 : Nat) = 1 + 1 from rfl, framesOf_succ]
      rw [if_pos hfit, if_pos hround, hnb]
    rw [hout, hfr]
    generalize hr : q * P.B + P.B - pre.length = r at *
    have hr1 : 1 ≤ r := by omega
    have hrH : r ≤ P.H := by rw [hnb] at hround; omega
    have hlen' : (pre ++ zeros r).length = q * P.B + P.B := by simp [zeros_length]; omega
    have hnb2 : nextBoundary P (q * P.B + P.B) = (q + 1) * P.B + P.B :=
      nextBoundary_block hB (q + 1) _ (by rw [Nat.add_mul, Nat.one_mul]; omega)
        (by rw [Nat.add_mul, Nat.one_mul]; omega)
    have hno : ¬ ((pre ++ zeros r).length + (frame P WHOLE b).length > nextBoundary P (pre ++ zeros r).length
              ∧ nextBoundary P (pre ++ zeros r).length - (pre ++ zeros r).length ≤ P.H) := by
      rw [hlen', hnb2, Nat.add_mul, Nat.one_mul]
      intro h
      omega
    have hA := layout_nopad g (pre ++ zeros r) b suf hb hno 0
    rw [hlen'] at hA
    have hfile : pre ++ (zeros r ++ appendAt P 1 (q * P.B + P.B) b) ++ suf
        = pre ++ zeros r ++ appendAt P 1 (q * P.B + P.B) b ++ suf := by simp only [List.append_assoc]
    rw [hfile]
    refine ⟨q * P.B + P.B, .inr ⟨q, rfl, by omega, by omega, by omega⟩, ?_, hA⟩
    have hzr := zeroRun_mid pre (appendAt P 1 (q * P.B + P.B) b ++ suf) r
    rw [show pre.length + r = q * P.B + P.B by omega, ← List.append_assoc] at hzr
    exact hzr
  · exact ⟨pre.length, .inl rfl, fun i h1 h2 => absurd h2 (by omega), layout_nopad g pre b suf hb hpad 1⟩

/-! ### the pristine reads of the first frame, from the start of the append -/

theorem head_header (g : Good P) (F : List Nat) (pos s disc : Nat) (p : List Nat) (hgeo : PadGeom P pos s)
    (hz : ZeroRun F pos s) (hF : FrameAt P F s disc p) (hsz : p.length ≤ P.tableFull) (hdisc : disc < 128) :
    nextHeader P F 2 pos = .ok (⟨p.length, disc, P.crc p⟩, payOff P s disc p) := by
  rw [skip_lead g F pos s hgeo hz]
  exact (hF.facts g hsz hdisc 1).1

theorem head_frame (g : Good P) (F : List Nat) (pos s disc : Nat) (p : List Nat) (hgeo : PadGeom P pos s)
    (hz : ZeroRun F pos s) (hF : FrameAt P F s disc p) (hsz : p.length ≤ P.tableFull) (hdisc : disc < 128) :
    nextFrame P F 2 pos = .ok (⟨p.length, disc, P.crc p⟩, p, s + (frame P disc p).length) := by
  rw [nextFrame_of_header F 2 2 pos s (skip_lead g F pos s hgeo hz)]
  exact hF.read g hsz hdisc 1

theorem padGeom_le {pos s : Nat} (h : PadGeom P pos s) : pos ≤ s := by
  rcases h with rfl | ⟨q, _, _, hlt, _⟩
  · exact Nat.le_refl _
  · omega

/-! ### 1. damage to a payload -/

/-- the payload of the first frame of the append (`WHOLE` or `FIRST`) -/
theorem core_payload_first (g : Good P) (F d : List Nat) (pos s disc : Nat)
    (p : List Nat) (hgeo : PadGeom P pos s) (hz : ZeroRun F pos s) (hF : FrameAt P F s disc p)
    (hsz : p.length ≤ P.tableFull) (hdisc : disc < 128)
    (hag : ∀ i, i < payOff P s disc p → d[i]? = F[i]?)
    (hcrc : P.crc (slice d (payOff P s disc p) p.length) ≠ P.crc p) :
    nextBatch P d 2 pos = .err := by
  have hB : 0 < P.B := by have := g.hB; omega
  have hh := head_header g F pos s disc p hgeo hz hF hsz hdisc
  have hd := nextHeader_prefix_agree hB d F _ hag 2 pos _ hh (Nat.le_refl _)
  exact nextBatch_of_frame_err d 2 pos (crc_mismatch_is_error d 2 pos _ _ hd hcrc)

/-- the payload of the `SECOND` frame: the `FIRST` frame and the padding are read, then the
    second `nextFrame` fails its checksum -/
theorem core_payload_second (g : Good P) (F d : List Nat) (pos s s2 : Nat)
    (p1 p2 : List Nat) (hgeo : PadGeom P pos s) (hz : ZeroRun F pos s) (hF1 : FrameAt P F s FIRST p1)
    (hsz1 : p1.length ≤ P.tableFull) (hgap : GapGeom P (s + (frame P FIRST p1).length) s2)
    (hzg : ZeroRun F (s + (frame P FIRST p1).length) s2) (hF2 : FrameAt P F s2 SECOND p2)
    (hsz2 : p2.length ≤ P.tableFull)
    (hag : ∀ i, i < payOff P s2 SECOND p2 → d[i]? = F[i]?)
    (hcrc : P.crc (slice d (payOff P s2 SECOND p2) p2.length) ≠ P.crc p2) :
    nextBatch P d 2 pos = .err := by
  have hB : 0 < P.B := by have := g.hB; omega
  have hle : s2 ≤ payOff P s2 SECOND p2 := by unfold payOff; omega
  have hf1 := head_frame g F pos s FIRST p1 hgeo hz hF1 hsz1 (by decide)
  have hd1 := nextFrame_prefix_agree hB d F _ hag 2 pos _ hf1 (by have := hgap.2.1; simp only; omega)
  have hzd : ZeroRun d (s + (frame P FIRST p1).length) s2 :=
    hzg.agree d (fun i _ h2 => hag i (by omega))
  rw [nextBatch_first d 2 pos _ p1 _ s2 hd1 rfl hgap (padZero_of_zeroRun d _ s2 _ (Nat.le_refl _) hzd)]
  have hh2 := (hF2.facts g hsz2 (by decide) 1).1
  have hd2 := nextHeader_prefix_agree hB d F _ hag 2 s2 _ hh2 (Nat.le_refl _)
  rw [crc_mismatch_is_error d 2 s2 _ _ hd2 hcrc]

/-! ### from one append to the whole log -/

theorem file_split (bufs1 : List (List Nat)) (b : List Nat) (bufs2 : List (List Nat)) :
    writeAll P (bufs1 ++ b :: bufs2) 0
      = writeAll P bufs1 0 ++ appendAt P 2 (writeAll P bufs1 0).length b
        ++ writeAll P bufs2 ((writeAll P bufs1 0).length + (appendAt P 2 (writeAll P bufs1 0).length b).length) := by
  rw [writeAll_append]
  simp only [writeAll, Nat.zero_add, List.append_assoc]

/-- the batches before the damaged append are delivered, then the error -/
theorem detected_of_err (g : Good P) (bufs1 : List (List Nat)) (hsz : ∀ x ∈ bufs1, x.length ≤ P.tableFull)
    (d A : List Nat) (hpre : ∀ i, i < (writeAll P bufs1 0).length → d[i]? = (writeAll P bufs1 0 ++ A)[i]?)
    (herr : nextBatch P d 2 (writeAll P bufs1 0).length = .err) (k : Nat) :
    readSome P d (bufs1.length + 1 + k) 0 = (bufs1, true) := by
  have h := readSome_prefix_then_err g d k bufs1 [] hsz
  simp only [List.length_nil, Nat.zero_add, List.nil_append] at h
  apply h _ herr
  rw [agree_take d (writeAll P bufs1 0 ++ A) _ hpre, List.take_left]

theorem take_size_le (b : List Nat) (fb n : Nat) (hb : b.length ≤ n) : (b.take fb).length ≤ n := by
  rw [List.length_take]; omega

theorem drop_size_le (b : List Nat) (fb n : Nat) (hb : b.length ≤ n) : (b.drop fb).length ≤ n := by
  rw [List.length_drop]; omega

/-- **C09 (log) 1: a damaged payload is detected.**  One frame of one append — `WHOLE`, `FIRST` or
    `SECOND`, with or without padding before it — whose payload no longer has the checksum its
    header names: the reader delivers exactly the batches appended before and then an error.  (Only
    the bytes before the payload need to be intact, and the length of `d` does not matter.) -/
theorem log_payload_damage_detected (g : Good P) (bufs1 : List (List Nat)) (b : List Nat)
    (bufs2 : List (List Nat)) (hsz : ∀ x ∈ bufs1, x.length ≤ P.tableFull) (hb : b.length ≤ P.tableFull)
    (d : List Nat) (s disc : Nat) (p : List Nat)
    (hmem : (s, disc, p) ∈ framesOf P 2 (writeAll P bufs1 0).length b)
    (hag : ∀ i, i < payOff P s disc p → d[i]? = (writeAll P (bufs1 ++ b :: bufs2) 0)[i]?)
    (hcrc : P.crc (slice d (payOff P s disc p) p.length) ≠ P.crc p) (k : Nat) :
    readSome P d (bufs1.length + 1 + k) 0 = (bufs1, true) := by
  rw [file_split] at hag
  generalize hpre : writeAll P bufs1 0 = pre at *
  generalize writeAll P bufs2 (pre.length + (appendAt P 2 pre.length b).length) = suf at *
  obtain ⟨s0, hgeo, hz, hlay⟩ := append_layout g pre b suf hb
  have hs0 := padGeom_le hgeo
  have herr : nextBatch P d 2 pre.length = .err := by
    cases hlay with
    | whole hfr hF =>
      rw [hfr] at hmem
      simp only [List.mem_singleton, Prod.mk.injEq] at hmem
      obtain ⟨rfl, rfl, rfl⟩ := hmem
      exact core_payload_first g _ d pre.length s WHOLE p hgeo hz hF hb (by decide) hag hcrc
    | split fb s2 hfr hF1 hgap hzg hF2 =>
      rw [hfr] at hmem
      simp only [List.mem_cons, Prod.mk.injEq, List.not_mem_nil, or_false] at hmem
      rcases hmem with ⟨rfl, rfl, rfl⟩ | ⟨rfl, rfl, rfl⟩
      · exact core_payload_first g _ d pre.length s FIRST _ hgeo hz hF1 (take_size_le b fb _ hb) (by decide)
          hag hcrc
      · exact core_payload_second g _ d pre.length s0 s _ _ hgeo hz hF1 (take_size_le b fb _ hb) hgap hzg hF2
          (drop_size_le b fb _ hb) hag hcrc
  have hlo : pre.length ≤ payOff P s disc p := by
    cases hlay with
    | whole hfr hF =>
      rw [hfr] at hmem
      simp only [List.mem_singleton, Prod.mk.injEq] at hmem
      obtain ⟨rfl, rfl, rfl⟩ := hmem
      unfold payOff; omega
    | split fb s2 hfr hF1 hgap hzg hF2 =>
      rw [hfr] at hmem
      simp only [List.mem_cons, Prod.mk.injEq, List.not_mem_nil, or_false] at hmem
      have := hgap.2.1
      rcases hmem with ⟨rfl, rfl, rfl⟩ | ⟨rfl, rfl, rfl⟩
      · unfold payOff; omega
      · unfold payOff; omega
  rw [← hpre] at herr
  apply detected_of_err g bufs1 hsz d (appendAt P 2 pre.length b ++ suf) _ herr k
  intro i hi
  rw [hpre] at hi ⊢
  rw [hag i (by omega), List.append_assoc]

/-! ### 4. the replay -/
open Blue.Damage in
/-- whatever the reader delivers before an error, the replay ends with that error -/
theorem replay_fails_of_readSome (P : Params) (d : List Nat) (bufs1 : List (List Nat))
    (hge : bufs1.length ≤ d.length + 1)
    (h : ∀ k, readSome P d (bufs1.length + 1 + k) 0 = (bufs1, true)) :
    drain P d = deliver bufs1 true ∧ logToBuilder P d = .readerError ∧ logToSetsumOk P d = false := by
  have hdrain : drain P d = deliver bufs1 true := by
    unfold drain
    obtain ⟨k, hk⟩ : ∃ k, d.length + 2 = bufs1.length + 1 + k := ⟨d.length + 2 - (bufs1.length + 1), by omega⟩
    rw [hk, h k]
  refine ⟨hdrain, ?_, ?_⟩
  · unfold logToBuilder replayOf
    rw [hdrain, deliver_true, if_pos rfl]
  · unfold logToSetsumOk
    rw [hdrain, deliver_true]
    rfl

open Blue.Damage in
/-- **C09 (log) 4: detected damage fails the replay.**  From the conclusion of the three detection
    theorems: `LogIterator` drained delivers the entries of the batches before the damaged append
    and ends with an error, so `log_to_builder` and `log_to_setsum` fail. -/
theorem log_damage_replay_fails (g : Good P) (bufs1 : List (List Nat)) (b : List Nat) (bufs2 : List (List Nat))
    (d : List Nat) (hlen : d.length = (writeAll P (bufs1 ++ b :: bufs2) 0).length)
    (h : ∀ k, readSome P d (bufs1.length + 1 + k) 0 = (bufs1, true)) :
    drain P d = deliver bufs1 true ∧ logToBuilder P d = .readerError ∧ logToSetsumOk P d = false := by
  have hB : 0 < P.B := by have := g.hB; omega
  have hl := writeAll_length_ge P hB (bufs1 ++ b :: bufs2) 0
  simp only [List.length_append, List.length_cons] at hl
  exact replay_fails_of_readSome P d bufs1 (by omega) h

/-! ### 2. damage to padding -/

theorem nextHeader_ne_eof_of_nonzero (d : List Nat) (f off y : Nat) (hx : d[off]? = some y) (hy : y ≠ 0) :
    nextHeader P d (f + 1) off ≠ .eof := by
  intro he
  rw [nextHeader_succ, hx] at he
  simp only at he
  rw [if_neg hy] at he
  by_cases h1 : y > P.H
  · rw [if_pos h1] at he; cases he
  · rw [if_neg h1] at he
    by_cases h2 : off + 1 + y > d.length
    · rw [if_pos h2] at he; cases he
    · rw [if_neg h2] at he
      cases hd : P.decH (slice d (off + 1) y) with
      | none => rw [hd] at he; cases he
      | some hdr =>
        rw [hd] at he
        simp only at he
        by_cases h3 : hdr.size > P.tableFull
        · rw [if_pos h3] at he; cases he
        · rw [if_neg h3] at he; cases he

/-- a header read that is not the end of the file, and whose frame (if there is a header at all)
    fails its checksum, is an error -/
theorem nextBatch_err_of_header (d : List Nat) (fuel off : Nat) (hne : nextHeader P d fuel off ≠ .eof)
    (hc : ∀ h' o', nextHeader P d fuel off = .ok (h', o') → o' + h'.size ≤ d.length →
      P.crc (slice d o' h'.size) ≠ h'.crc) :
    nextBatch P d fuel off = .err := by
  cases hv : nextHeader P d fuel off with
  | eof => exact absurd hv hne
  | err => exact nextBatch_of_header_err d fuel off hv
  | ok r =>
    obtain ⟨h', o'⟩ := r
    apply nextBatch_of_frame_err
    by_cases hl : o' + h'.size > d.length
    · exact nextFrame_too_long d fuel off h' o' hv hl
    · exact crc_mismatch_is_error d fuel off h' o' hv (hc h' o' hv (by omega))

theorem get_some_lt (d : List Nat) (i x : Nat) (h : d[i]? = some x) : i < d.length := by
  apply Classical.byContradiction
  intro hge
  rw [List.getElem?_eq_none (by omega)] at h
  cases h

/-- the zeros between the `FIRST` frame and the block boundary: any non-zero byte there fails the
    reader's padding check -/
theorem core_gap_damage (g : Good P) (F d : List Nat) (pos s s2 : Nat) (p1 : List Nat)
    (hgeo : PadGeom P pos s) (hz : ZeroRun F pos s) (hF1 : FrameAt P F s FIRST p1)
    (hsz1 : p1.length ≤ P.tableFull) (hgap : GapGeom P (s + (frame P FIRST p1).length) s2)
    (hag : ∀ i, i < s + (frame P FIRST p1).length → d[i]? = F[i]?)
    (hnz : ∃ i x, s + (frame P FIRST p1).length ≤ i ∧ i < s2 ∧ d[i]? = some x ∧ x ≠ 0) :
    nextBatch P d 2 pos = .err := by
  have hB : 0 < P.B := by have := g.hB; omega
  have hf1 := head_frame g F pos s FIRST p1 hgeo hz hF1 hsz1 (by decide)
  have hd1 := nextFrame_prefix_agree hB d F _ hag 2 pos _ hf1 (Nat.le_refl _)
  exact nextBatch_first_badpad d 2 pos _ p1 _ s2 hd1 rfl hgap ((padZero_false_iff d _ _).2 hnz)

/-- the zeros before the first frame: a zero first byte sends the reader into the padding check,
    which fails; a non-zero first byte is read as a header length -/
theorem core_lead_damage (g : Good P) (d : List Nat) (pos s : Nat) (hgeo : PadGeom P pos s)
    (hnz : ∃ i x, pos ≤ i ∧ i < s ∧ d[i]? = some x ∧ x ≠ 0)
    (hhdr : ∀ y, d[pos]? = some y → y ≠ 0 → ∀ h' o', nextHeader P d 2 pos = .ok (h', o') →
      o' + h'.size ≤ d.length → P.crc (slice d o' h'.size) ≠ h'.crc) :
    nextBatch P d 2 pos = .err := by
  have hB : 0 < P.B := by have := g.hB; omega
  obtain ⟨i, x, hi1, hi2, hx, hx0⟩ := hnz
  rcases hgeo with rfl | ⟨q, hs, hq, hlt, hH⟩
  · omega
  · have hil := get_some_lt d i x hx
    cases hp : d[pos]? with
    | none => rw [List.getElem?_eq_none_iff] at hp; omega
    | some y =>
      by_cases hy : y = 0
      · subst hy
        have hne : i ≠ pos := by
          intro he; subst he; rw [hp] at hx; cases hx; exact hx0 rfl
        have ht : trueUp P (pos + 1) = q * P.B + P.B := trueUp_inside hB q (pos + 1) (by omega) (by omega)
        apply nextBatch_of_header_err
        exact Blue.Damage.zero_length_then_nonzero_is_error P d 1 pos i x hp (by omega) (by rw [ht]; omega) hx hx0
      · exact nextBatch_err_of_header d 2 pos (nextHeader_ne_eof_of_nonzero d 1 pos y hp hy) (hhdr y hp hy)

/-- **C09 (log) 2: damaged padding is detected.**  A run of zeros the append wrote — before its first
    frame, or between its `FIRST` frame and the block boundary — in which `d` has a non-zero byte.
    Between the frames nothing else is needed.  Before the first frame a zero first byte is enough
    too; a non-zero first byte is read as a header length, and then (`hhdr`) what the reader makes
    of the bytes there — if it is a header at all — must fail its checksum. -/
theorem log_padding_damage_detected (g : Good P) (bufs1 : List (List Nat)) (b : List Nat)
    (bufs2 : List (List Nat)) (hsz : ∀ x ∈ bufs1, x.length ≤ P.tableFull) (hb : b.length ≤ P.tableFull)
    (d : List Nat) (lo hi : Nat)
    (hmem : (lo, hi) ∈ padRunsOf P (writeAll P bufs1 0).length (framesOf P 2 (writeAll P bufs1 0).length b))
    (hag : ∀ i, i < lo → d[i]? = (writeAll P (bufs1 ++ b :: bufs2) 0)[i]?)
    (hnz : ∃ i x, lo ≤ i ∧ i < hi ∧ d[i]? = some x ∧ x ≠ 0)
    (hhdr : lo = (writeAll P bufs1 0).length → ∀ y, d[lo]? = some y → y ≠ 0 → ∀ h' o',
      nextHeader P d 2 lo = .ok (h', o') → o' + h'.size ≤ d.length → P.crc (slice d o' h'.size) ≠ h'.crc)
    (k : Nat) :
    readSome P d (bufs1.length + 1 + k) 0 = (bufs1, true) := by
  rw [file_split] at hag
  generalize hpre : writeAll P bufs1 0 = pre at *
  generalize writeAll P bufs2 (pre.length + (appendAt P 2 pre.length b).length) = suf at *
  obtain ⟨s0, hgeo, hz, hlay⟩ := append_layout g pre b suf hb
  have hs0 := padGeom_le hgeo
  have hboth : pre.length ≤ lo ∧ nextBatch P d 2 pre.length = .err := by
    cases hlay with
    | whole hfr hF =>
      rw [hfr] at hmem
      simp only [padRunsOf, List.mem_singleton, Prod.mk.injEq] at hmem
      obtain ⟨rfl, rfl⟩ := hmem
      exact ⟨Nat.le_refl _, core_lead_damage g d pre.length hi hgeo hnz (hhdr rfl)⟩
    | split fb s2 hfr hF1 hgap hzg hF2 =>
      rw [hfr] at hmem
      simp only [padRunsOf, List.mem_cons, Prod.mk.injEq, List.not_mem_nil, or_false] at hmem
      rcases hmem with ⟨rfl, rfl⟩ | ⟨rfl, rfl⟩
      · exact ⟨Nat.le_refl _, core_lead_damage g d pre.length hi hgeo hnz (hhdr rfl)⟩
      · exact ⟨by omega, core_gap_damage g _ d pre.length s0 hi _ hgeo hz hF1 (take_size_le b fb _ hb) hgap hag hnz⟩
  obtain ⟨hlo, herr⟩ := hboth
  rw [← hpre] at herr
  apply detected_of_err g bufs1 hsz d (appendAt P 2 pre.length b ++ suf) _ herr k
  intro i hi
  rw [hpre] at hi ⊢
  rw [hag i (by omega), List.append_assoc]

/-! ### reading from an offset depends only on the length of the file and the bytes from there on -/

theorem padZero_suffix_agree (d F : List Nat) (m : Nat) (hag : ∀ i, m ≤ i → d[i]? = F[i]?) (off t : Nat)
    (hoff : m ≤ off) : padZero d off t = padZero F off t := by
  unfold padZero
  rw [slice_agree d F off (t - off) (fun i h1 _ => hag i (by omega))]

theorem nextHeader_suffix_agree (hB : 0 < P.B) (d F : List Nat) (hlen : d.length = F.length) (m : Nat)
    (hag : ∀ i, m ≤ i → d[i]? = F[i]?) :
    ∀ (fuel off : Nat), m ≤ off → nextHeader P d fuel off = nextHeader P F fuel off := by
  intro fuel
  induction fuel with
  | zero => intro off _; rfl
  | succ f ih =>
    intro off hoff
    rw [nextHeader_succ, nextHeader_succ, hag off hoff]
    cases F[off]? with
    | none => rfl
    | some hsz =>
      simp only
      have hge := trueUp_ge hB (off + 1)
      rw [slice_agree d F (off + 1) hsz (fun i h1 _ => hag i (by omega)),
        padZero_suffix_agree d F m hag (off + 1) (trueUp P (off + 1)) (by omega),
        ih (trueUp P (off + 1)) (by omega), hlen]

theorem nextHeader_ok_gt (hB : 0 < P.B) (F : List Nat) (fuel off : Nat) (r : Hdr × Nat)
    (h : nextHeader P F fuel off = .ok r) : off < r.2 :=
  (nextHeader_take_conv hB F r.2 fuel off r h (Nat.le_refl _)).2

theorem nextFrame_ok_gt (hB : 0 < P.B) (F : List Nat) (fuel off : Nat) (r : Hdr × List Nat × Nat)
    (h : nextFrame P F fuel off = .ok r) : off < r.2.2 :=
  (nextFrame_take_conv hB F r.2.2 fuel off r h (Nat.le_refl _)).2

theorem nextFrame_suffix_agree (hB : 0 < P.B) (d F : List Nat) (hlen : d.length = F.length) (m : Nat)
    (hag : ∀ i, m ≤ i → d[i]? = F[i]?) (fuel off : Nat) (hoff : m ≤ off) :
    nextFrame P d fuel off = nextFrame P F fuel off := by
  unfold nextFrame
  rw [nextHeader_suffix_agree hB d F hlen m hag fuel off hoff]
  cases hv : nextHeader P F fuel off with
  | eof => rfl
  | err => rfl
  | ok r =>
    obtain ⟨h, o⟩ := r
    have hgt := nextHeader_ok_gt hB F fuel off _ hv
    simp only at hgt ⊢
    rw [slice_agree d F o h.size (fun i h1 _ => hag i (by omega)), hlen]

/-- a batch that is read ends after the frame it starts with -/
theorem nextBatch_ok_frame (hB : 0 < P.B) (F : List Nat) (fuel off : Nat) (r : List Nat × Nat)
    (h : nextBatch P F fuel off = .ok r) :
    ∃ hd p e1, nextFrame P F fuel off = .ok (hd, p, e1) ∧ off < e1 ∧ e1 ≤ r.2 := by
  unfold nextBatch at h
  cases hf : nextFrame P F fuel off with
  | eof => rw [hf] at h; cases h
  | err => rw [hf] at h; cases h
  | ok fr =>
    obtain ⟨hd, p, off'⟩ := fr
    rw [hf] at h
    simp only at h
    have h1 := nextFrame_ok_gt hB F fuel off _ hf
    simp only at h1
    refine ⟨hd, p, off', rfl, h1, ?_⟩
    by_cases hw : hd.disc = WHOLE
    · rw [if_pos hw] at h; cases h; exact Nat.le_refl _
    · rw [if_neg hw] at h
      by_cases hfst : hd.disc = FIRST
      · rw [if_pos hfst] at h
        by_cases ht : trueUp P off' - off' > P.H
        · rw [if_pos ht] at h; cases h
        · rw [if_neg ht] at h
          cases hp : padZero F off' (trueUp P off') with
          | false => rw [hp] at h; simp only [Bool.not_false, if_true] at h; cases h
          | true =>
            rw [hp] at h
            simp only [Bool.not_true, Bool.false_eq_true, if_false] at h
            cases hf2 : nextFrame P F fuel (trueUp P off') with
            | eof => rw [hf2] at h; cases h
            | err => rw [hf2] at h; cases h
            | ok fr2 =>
              obtain ⟨hd2, p2, off2⟩ := fr2
              rw [hf2] at h
              simp only at h
              by_cases hs : hd2.disc = SECOND
              · rw [if_pos hs] at h; cases h
                have h2 := nextFrame_ok_gt hB F fuel _ _ hf2
                have h3 := trueUp_ge hB off'
                simp only at h2 ⊢; omega
              · rw [if_neg hs] at h; cases h
      · rw [if_neg hfst] at h; cases h

theorem nextBatch_suffix_agree (hB : 0 < P.B) (d F : List Nat) (hlen : d.length = F.length) (m : Nat)
    (hag : ∀ i, m ≤ i → d[i]? = F[i]?) (fuel off : Nat) (hoff : m ≤ off) :
    nextBatch P d fuel off = nextBatch P F fuel off := by
  unfold nextBatch
  rw [nextFrame_suffix_agree hB d F hlen m hag fuel off hoff]
  cases hf : nextFrame P F fuel off with
  | eof => rfl
  | err => rfl
  | ok fr =>
    obtain ⟨hd, p, e⟩ := fr
    have hgt := nextFrame_ok_gt hB F fuel off _ hf
    have hge := trueUp_ge hB e
    simp only at hgt ⊢
    rw [padZero_suffix_agree d F m hag e (trueUp P e) (by omega),
      nextFrame_suffix_agree hB d F hlen m hag fuel (trueUp P e) (by omega)]

/-- **window / suffix agreement**: two files of the same length that agree from `m` on are read
    identically from any offset `≥ m` -/
theorem readSome_suffix_agree (hB : 0 < P.B) (d F : List Nat) (hlen : d.length = F.length) (m : Nat)
    (hag : ∀ i, m ≤ i → d[i]? = F[i]?) :
    ∀ (fuel off : Nat), m ≤ off → readSome P d fuel off = readSome P F fuel off := by
  intro fuel
  induction fuel with
  | zero => intro off _; rfl
  | succ f ih =>
    intro off hoff
    rw [readSome_succ, readSome_succ, nextBatch_suffix_agree hB d F hlen m hag 2 off hoff]
    cases hb : nextBatch P F 2 off with
    | eof => rfl
    | err => rfl
    | ok r =>
      obtain ⟨x, e⟩ := r
      obtain ⟨_, _, e1, _, h1, h2⟩ := nextBatch_ok_frame hB F 2 off _ hb
      simp only at h2 ⊢
      rw [ih e (by omega)]

/-- after the same first frame, `nextBatch` looks only at the bytes after it -/
theorem nextBatch_congr_after_frame (hB : 0 < P.B) (d F : List Nat) (hlen : d.length = F.length)
    (fuel off : Nat) (h1 : Hdr) (p1 : List Nat) (e1 : Nat)
    (hfd : nextFrame P d fuel off = .ok (h1, p1, e1)) (hfF : nextFrame P F fuel off = .ok (h1, p1, e1))
    (hag : ∀ i, e1 ≤ i → d[i]? = F[i]?) :
    nextBatch P d fuel off = nextBatch P F fuel off := by
  unfold nextBatch
  rw [hfd, hfF]
  simp only
  rw [padZero_suffix_agree d F e1 hag e1 (trueUp P e1) (Nat.le_refl _),
    nextFrame_suffix_agree hB d F hlen e1 hag fuel (trueUp P e1) (trueUp_ge hB e1)]

/-! ### 3. damage to a header-length byte and header -/

theorem nextFrame_of_header_eof (F : List Nat) (fuel off : Nat) (h : nextHeader P F fuel off = .eof) :
    nextFrame P F fuel off = .eof := by
  unfold nextFrame; rw [h]

theorem nextFrame_of_header_err (F : List Nat) (fuel off : Nat) (h : nextHeader P F fuel off = .err) :
    nextFrame P F fuel off = .err := by
  unfold nextFrame; rw [h]

/-- the header of the first frame of the append (`WHOLE` or `FIRST`): an error, or the header is
    read exactly as it was written -/
theorem core_header_first (g : Good P) (F d : List Nat) (hlen : d.length = F.length) (pos s disc : Nat)
    (p : List Nat) (hgeo : PadGeom P pos s) (hz : ZeroRun F pos s) (hF : FrameAt P F s disc p)
    (hsz : p.length ≤ P.tableFull) (hd128 : disc < 128)
    (hag : ∀ i, i < s ∨ payOff P s disc p ≤ i → d[i]? = F[i]?)
    (hnc : ∀ h' o', nextHeader P d 2 s = .ok (h', o') → o' + h'.size ≤ d.length →
      (o' = payOff P s disc p ∧ h'.size = p.length ∧ h'.crc = P.crc p) ∨ P.crc (slice d o' h'.size) ≠ h'.crc)
    (hne : nextHeader P d 2 s ≠ .eof)
    (hdisc : ∀ h' o', nextHeader P d 2 s = .ok (h', o') → h'.disc = disc ∨ (h'.disc ≠ WHOLE ∧ h'.disc ≠ FIRST)) :
    nextBatch P d 2 pos = .err
      ∨ nextHeader P d 2 s = .ok (⟨p.length, disc, P.crc p⟩, payOff P s disc p) := by
  have hzd : ZeroRun d pos s := hz.agree d (fun i _ h2 => hag i (.inl h2))
  have hskip := skip_lead g d pos s hgeo hzd
  obtain ⟨_, hsl, hbound, _⟩ := hF.facts g hsz hd128 1
  rcases hv : nextHeader P d 2 s with ⟨h', o'⟩ | _ | _
  · by_cases hl : o' + h'.size > d.length
    · left
      exact nextBatch_of_frame_err d 2 pos (nextFrame_too_long d 2 pos h' o' (by rw [hskip]; exact hv) hl)
    · rcases hnc h' o' hv (by omega) with ⟨ho, hsize, hcrc'⟩ | hbad
      · rcases hdisc h' o' hv with hd | ⟨hw, hfst⟩
        · right
          obtain ⟨sz, dc, cr⟩ := h'
          simp only at hsize hcrc' hd
          subst ho hsize hcrc' hd
          rfl
        · left
          have hsd : slice d o' h'.size = p := by
            rw [ho, hsize, slice_agree d F _ p.length (fun i h1 _ => hag i (.inr h1)), hsl]
          have hf := nextFrame_of_header_ok d 2 pos h' o' (by rw [hskip]; exact hv) (by omega)
            (by rw [hsd, hcrc'])
          exact nextBatch_other d 2 pos h' _ _ hf hw hfst
      · left
        exact nextBatch_of_frame_err d 2 pos (crc_mismatch_is_error d 2 pos h' o' (by rw [hskip]; exact hv) hbad)
  · exact absurd hv hne
  · left
    exact nextBatch_of_header_err d 2 pos (by rw [hskip]; exact hv)

/-- the harmless case: the damaged header bytes still decode to the header that was written; the
    append is read as from the pristine file, and the read ends after the damaged bytes -/
theorem core_header_first_harmless (g : Good P) (F d : List Nat) (hlen : d.length = F.length)
    (pos s disc : Nat) (p : List Nat) (hgeo : PadGeom P pos s) (hz : ZeroRun F pos s)
    (hF : FrameAt P F s disc p) (hsz : p.length ≤ P.tableFull) (hd128 : disc < 128)
    (hag : ∀ i, i < s ∨ payOff P s disc p ≤ i → d[i]? = F[i]?)
    (hv : nextHeader P d 2 s = .ok (⟨p.length, disc, P.crc p⟩, payOff P s disc p)) :
    nextBatch P d 2 pos = nextBatch P F 2 pos
      ∧ ∀ x e, nextBatch P F 2 pos = .ok (x, e) → payOff P s disc p ≤ e := by
  have hB : 0 < P.B := by have := g.hB; omega
  have hzd : ZeroRun d pos s := hz.agree d (fun i _ h2 => hag i (.inl h2))
  have hskip := skip_lead g d pos s hgeo hzd
  obtain ⟨_, hsl, hbound, hend⟩ := hF.facts g hsz hd128 1
  have hfF := head_frame g F pos s disc p hgeo hz hF hsz hd128
  have hsd : slice d (payOff P s disc p) p.length = p := by
    rw [slice_agree d F _ p.length (fun i h1 _ => hag i (.inr h1)), hsl]
  have hfd := nextFrame_of_header_ok d 2 pos ⟨p.length, disc, P.crc p⟩ _ (by rw [hskip]; exact hv)
    (by simp only; omega) (by simp only; rw [hsd])
  simp only at hfd
  rw [hsd, hend] at hfd
  refine ⟨nextBatch_congr_after_frame hB d F hlen 2 pos _ p _ hfd hfF (fun i hi => hag i (.inr (by omega))), ?_⟩
  intro x e hb
  obtain ⟨hd', p', e1, hf', _, hle⟩ := nextBatch_ok_frame hB F 2 pos _ hb
  rw [hfF] at hf'
  cases hf'
  simp only at hle
  omega

/-- the header of the `SECOND` frame -/
theorem core_header_second (g : Good P) (F d : List Nat) (hlen : d.length = F.length) (pos s s2 : Nat)
    (p1 p2 : List Nat) (hgeo : PadGeom P pos s) (hz : ZeroRun F pos s) (hF1 : FrameAt P F s FIRST p1)
    (hsz1 : p1.length ≤ P.tableFull) (hgap : GapGeom P (s + (frame P FIRST p1).length) s2)
    (hzg : ZeroRun F (s + (frame P FIRST p1).length) s2) (hF2 : FrameAt P F s2 SECOND p2)
    (hsz2 : p2.length ≤ P.tableFull)
    (hag : ∀ i, i < s2 ∨ payOff P s2 SECOND p2 ≤ i → d[i]? = F[i]?)
    (hnc : ∀ h' o', nextHeader P d 2 s2 = .ok (h', o') → o' + h'.size ≤ d.length →
      (o' = payOff P s2 SECOND p2 ∧ h'.size = p2.length ∧ h'.crc = P.crc p2)
        ∨ P.crc (slice d o' h'.size) ≠ h'.crc) :
    nextBatch P d 2 pos = .err
      ∨ nextHeader P d 2 s2 = .ok (⟨p2.length, SECOND, P.crc p2⟩, payOff P s2 SECOND p2) := by
  have hB : 0 < P.B := by have := g.hB; omega
  have hf1 := head_frame g F pos s FIRST p1 hgeo hz hF1 hsz1 (by decide)
  have hd1 := nextFrame_prefix_agree hB d F s2 (fun i hi => hag i (.inl hi)) 2 pos _ hf1 hgap.2.1
  have hzd : ZeroRun d (s + (frame P FIRST p1).length) s2 := hzg.agree d (fun i _ h2 => hag i (.inl h2))
  rw [nextBatch_first d 2 pos _ p1 _ s2 hd1 rfl hgap (padZero_of_zeroRun d _ s2 _ (Nat.le_refl _) hzd)]
  obtain ⟨_, hsl, hbound, _⟩ := hF2.facts g hsz2 (by decide) 1
  rcases hv : nextHeader P d 2 s2 with ⟨h', o'⟩ | _ | _
  · by_cases hl : o' + h'.size > d.length
    · left; rw [nextFrame_too_long d 2 s2 h' o' hv hl]
    · rcases hnc h' o' hv (by omega) with ⟨ho, hsize, hcrc'⟩ | hbad
      · have hsd : slice d o' h'.size = p2 := by
          rw [ho, hsize, slice_agree d F _ p2.length (fun i h1 _ => hag i (.inr h1)), hsl]
        have hf := nextFrame_of_header_ok d 2 s2 h' o' hv (by omega) (by rw [hsd, hcrc'])
        by_cases hd : h'.disc = SECOND
        · right
          obtain ⟨sz, dc, cr⟩ := h'
          simp only at hsize hcrc' hd
          subst ho hsize hcrc' hd
          rfl
        · left
          rw [hf]
          simp only
          rw [if_neg hd]
      · left; rw [crc_mismatch_is_error d 2 s2 h' o' hv hbad]
  · left; rw [nextFrame_of_header_eof d 2 s2 hv]
  · left; rw [nextFrame_of_header_err d 2 s2 hv]

theorem core_header_second_harmless (g : Good P) (F d : List Nat) (hlen : d.length = F.length)
    (pos s s2 : Nat) (p1 p2 : List Nat) (hgeo : PadGeom P pos s) (hz : ZeroRun F pos s)
    (hF1 : FrameAt P F s FIRST p1) (hsz1 : p1.length ≤ P.tableFull)
    (hgap : GapGeom P (s + (frame P FIRST p1).length) s2)
    (hzg : ZeroRun F (s + (frame P FIRST p1).length) s2) (hF2 : FrameAt P F s2 SECOND p2)
    (hsz2 : p2.length ≤ P.tableFull)
    (hag : ∀ i, i < s2 ∨ payOff P s2 SECOND p2 ≤ i → d[i]? = F[i]?)
    (hv : nextHeader P d 2 s2 = .ok (⟨p2.length, SECOND, P.crc p2⟩, payOff P s2 SECOND p2)) :
    nextBatch P d 2 pos = nextBatch P F 2 pos
      ∧ ∀ x e, nextBatch P F 2 pos = .ok (x, e) → payOff P s2 SECOND p2 ≤ e := by
  have hB : 0 < P.B := by have := g.hB; omega
  have hf1 := head_frame g F pos s FIRST p1 hgeo hz hF1 hsz1 (by decide)
  have hd1 := nextFrame_prefix_agree hB d F s2 (fun i hi => hag i (.inl hi)) 2 pos _ hf1 hgap.2.1
  have hzd : ZeroRun d (s + (frame P FIRST p1).length) s2 := hzg.agree d (fun i _ h2 => hag i (.inl h2))
  obtain ⟨_, hsl, hbound, hend⟩ := hF2.facts g hsz2 (by decide) 1
  have hsd : slice d (payOff P s2 SECOND p2) p2.length = p2 := by
    rw [slice_agree d F _ p2.length (fun i h1 _ => hag i (.inr h1)), hsl]
  have hfd := nextFrame_of_header_ok d 2 s2 ⟨p2.length, SECOND, P.crc p2⟩ _ hv
    (by simp only; omega) (by simp only; rw [hsd])
  simp only at hfd
  rw [hsd, hend] at hfd
  have hfF := hF2.read g hsz2 (by decide) 1
  have hbd := nextBatch_first d 2 pos _ p1 _ s2 hd1 rfl hgap (padZero_of_zeroRun d _ s2 _ (Nat.le_refl _) hzd)
  have hbF := nextBatch_first F 2 pos _ p1 _ s2 hf1 rfl hgap (padZero_of_zeroRun F _ s2 _ (Nat.le_refl _) hzg)
  rw [hfd] at hbd
  rw [hfF] at hbF
  refine ⟨by rw [hbd, hbF], ?_⟩
  intro x e hb
  rw [hbF] at hb
  simp only [if_true] at hb
  cases hb
  omega

/-- two files that both start with `pre ++ writeAll bufs` and are read identically after it are
    read identically from `pre.length`, whatever the fuel -/
theorem readSome_congr_prefix (g : Good P) (d F : List Nat) :
    ∀ (bufs : List (List Nat)) (pre : List Nat),
      (∀ b ∈ bufs, b.length ≤ P.tableFull) →
      d.take (pre.length + (writeAll P bufs pre.length).length) = pre ++ writeAll P bufs pre.length →
      F.take (pre.length + (writeAll P bufs pre.length).length) = pre ++ writeAll P bufs pre.length →
      (∀ n, readSome P d n (pre.length + (writeAll P bufs pre.length).length)
            = readSome P F n (pre.length + (writeAll P bufs pre.length).length)) →
      ∀ m, readSome P d m pre.length = readSome P F m pre.length := by
  have hB : 0 < P.B := by have := g.hB; omega
  intro bufs
  induction bufs with
  | nil =>
    intro pre _ _ _ hcont m
    simp only [writeAll, List.length_nil, Nat.add_zero] at hcont
    exact hcont m
  | cons x xs ih =>
    intro pre hsz hd hF hcont m
    cases m with
    | zero => rfl
    | succ m =>
      simp only [writeAll] at hd hF hcont
      generalize hA : appendAt P 2 pre.length x = A at *
      generalize hW : writeAll P xs (pre.length + A.length) = W at *
      have hread := append_read_any g pre x W (hsz x (List.mem_cons_self ..))
      rw [hA] at hread
      have hagree : ∀ f' : List Nat, f'.take (pre.length + (A ++ W).length) = pre ++ (A ++ W) →
          nextBatch P f' 2 pre.length = .ok (x, pre.length + A.length) := by
        intro f' hf'
        have hsame : (pre ++ A ++ W).take (pre.length + (A ++ W).length)
            = f'.take (pre.length + (A ++ W).length) := by
          rw [hf', List.take_of_length_le (by simp only [List.length_append]; omega)]
          simp only [List.append_assoc]
        exact reads_agree_before_damage hB _ f' _ hsame 2 pre.length _ hread
          (by simp only [List.length_append]; omega)
      rw [readSome_succ, readSome_succ, hagree d hd, hagree F hF]
      simp only
      have hlen : (pre ++ A).length = pre.length + A.length := List.length_append
      have := ih (pre ++ A) (fun b hb => hsz b (List.mem_cons_of_mem _ hb))
        (by rw [hlen, hW]; simpa only [List.length_append, Nat.add_assoc, List.append_assoc] using hd)
        (by rw [hlen, hW]; simpa only [List.length_append, Nat.add_assoc, List.append_assoc] using hF)
        (by intro n; rw [hlen, hW]; simpa only [List.length_append, Nat.add_assoc] using hcont n) m
      rw [hlen] at this
      rw [this]

/-- the harmless case, for the whole log: the batches before are read from intact bytes, the
    damaged append is read as from the pristine file, and what follows is intact -/
theorem pristine_of_harmless (g : Good P) (bufs1 : List (List Nat))
    (hsz : ∀ x ∈ bufs1, x.length ≤ P.tableFull) (d A suf : List Nat)
    (hlen : d.length = (writeAll P bufs1 0 ++ A ++ suf).length) (lo hi : Nat)
    (hlo : (writeAll P bufs1 0).length ≤ lo)
    (hag : ∀ i, i < lo ∨ hi ≤ i → d[i]? = (writeAll P bufs1 0 ++ A ++ suf)[i]?)
    (hsame : nextBatch P d 2 (writeAll P bufs1 0).length = nextBatch P (writeAll P bufs1 0 ++ A ++ suf) 2 (writeAll P bufs1 0).length)
    (hend : ∀ x e, nextBatch P (writeAll P bufs1 0 ++ A ++ suf) 2 (writeAll P bufs1 0).length = .ok (x, e) → hi ≤ e) :
    ∀ n, readSome P d n 0 = readSome P (writeAll P bufs1 0 ++ A ++ suf) n 0 := by
  have hB : 0 < P.B := by have := g.hB; omega
  generalize hpre : writeAll P bufs1 0 = pre at *
  have h := readSome_congr_prefix g d (pre ++ A ++ suf) bufs1 [] hsz
  simp only [List.length_nil, Nat.zero_add, List.nil_append, hpre] at h
  apply h
  · rw [agree_take d (pre ++ A ++ suf) pre.length (fun i hi => hag i (.inl (by omega))),
      List.append_assoc, List.take_left]
  · rw [List.append_assoc, List.take_left]
  · intro n
    cases n with
    | zero => rfl
    | succ n =>
      rw [readSome_succ, readSome_succ, hsame]
      cases hb : nextBatch P (pre ++ A ++ suf) 2 pre.length with
      | eof => rfl
      | err => rfl
      | ok r =>
        obtain ⟨x, e⟩ := r
        have he := hend x e hb
        simp only
        rw [readSome_suffix_agree hB d (pre ++ A ++ suf) hlen hi (fun i h1 => hag i (.inr h1)) n e he]

/-- **C09 (log) 3: a damaged header is detected, or it still says what it said.**  The header-length
    byte and header bytes of one frame of one append; the reader's view of them is
    `nextHeader P d 2 s`.  If a header that names other payload bytes or another checksum fails its
    CRC check (`hnc`), the frame was not turned into padding that runs to the end of the file (`hne`)
    and the discriminant — which no checksum covers — was not turned from `WHOLE` into `FIRST` or
    back (`hdisc`; neither `hne` nor `hdisc` is needed for a `SECOND` frame), then the reader delivers
    exactly the batches appended before and reports an error — or the damaged bytes still decode to
    the header that was written, and then `d` is read exactly as the pristine file is. -/
theorem log_header_damage_detected (g : Good P) (bufs1 : List (List Nat)) (b : List Nat)
    (bufs2 : List (List Nat)) (hsz : ∀ x ∈ bufs1, x.length ≤ P.tableFull) (hb : b.length ≤ P.tableFull)
    (d : List Nat) (hlen : d.length = (writeAll P (bufs1 ++ b :: bufs2) 0).length)
    (s disc : Nat) (p : List Nat)
    (hmem : (s, disc, p) ∈ framesOf P 2 (writeAll P bufs1 0).length b)
    (hag : ∀ i, i < s ∨ payOff P s disc p ≤ i → d[i]? = (writeAll P (bufs1 ++ b :: bufs2) 0)[i]?)
    (hnc : ∀ h' o', nextHeader P d 2 s = .ok (h', o') → o' + h'.size ≤ d.length →
      (o' = payOff P s disc p ∧ h'.size = p.length ∧ h'.crc = P.crc p) ∨ P.crc (slice d o' h'.size) ≠ h'.crc)
    (hne : disc ≠ SECOND → nextHeader P d 2 s ≠ .eof)
    (hdisc : disc ≠ SECOND → ∀ h' o', nextHeader P d 2 s = .ok (h', o') →
      h'.disc = disc ∨ (h'.disc ≠ WHOLE ∧ h'.disc ≠ FIRST)) :
    (∀ k, readSome P d (bufs1.length + 1 + k) 0 = (bufs1, true))
    ∨ (nextHeader P d 2 s = .ok (⟨p.length, disc, P.crc p⟩, payOff P s disc p)
        ∧ ∀ n, readSome P d n 0 = readSome P (writeAll P (bufs1 ++ b :: bufs2) 0) n 0) := by
  rw [file_split] at hag hlen ⊢
  generalize hpre : writeAll P bufs1 0 = pre at *
  generalize writeAll P bufs2 (pre.length + (appendAt P 2 pre.length b).length) = suf at *
  obtain ⟨s0, hgeo, hz, hlay⟩ := append_layout g pre b suf hb
  have hs0 := padGeom_le hgeo
  have key : pre.length ≤ s
      ∧ (nextBatch P d 2 pre.length = .err
          ∨ nextHeader P d 2 s = .ok (⟨p.length, disc, P.crc p⟩, payOff P s disc p))
      ∧ (nextHeader P d 2 s = .ok (⟨p.length, disc, P.crc p⟩, payOff P s disc p) →
          nextBatch P d 2 pre.length = nextBatch P (pre ++ appendAt P 2 pre.length b ++ suf) 2 pre.length
          ∧ ∀ x e, nextBatch P (pre ++ appendAt P 2 pre.length b ++ suf) 2 pre.length = .ok (x, e) →
              payOff P s disc p ≤ e) := by
    cases hlay with
    | whole hfr hF =>
      rw [hfr] at hmem
      simp only [List.mem_singleton, Prod.mk.injEq] at hmem
      obtain ⟨rfl, rfl, rfl⟩ := hmem
      exact ⟨hs0,
        core_header_first g _ d hlen pre.length s WHOLE p hgeo hz hF hb (by decide) hag hnc
          (hne (by decide)) (hdisc (by decide)),
        core_header_first_harmless g _ d hlen pre.length s WHOLE p hgeo hz hF hb (by decide) hag⟩
    | split fb s2 hfr hF1 hgap hzg hF2 =>
      rw [hfr] at hmem
      simp only [List.mem_cons, Prod.mk.injEq, List.not_mem_nil, or_false] at hmem
      rcases hmem with ⟨rfl, rfl, rfl⟩ | ⟨rfl, rfl, rfl⟩
      · exact ⟨hs0,
          core_header_first g _ d hlen pre.length s FIRST _ hgeo hz hF1 (take_size_le b fb _ hb) (by decide)
            hag hnc (hne (by decide)) (hdisc (by decide)),
          core_header_first_harmless g _ d hlen pre.length s FIRST _ hgeo hz hF1 (take_size_le b fb _ hb)
            (by decide) hag⟩
      · exact ⟨by have := hgap.2.1; omega,
          core_header_second g _ d hlen pre.length s0 s _ _ hgeo hz hF1 (take_size_le b fb _ hb) hgap hzg hF2
            (drop_size_le b fb _ hb) hag hnc,
          core_header_second_harmless g _ d hlen pre.length s0 s _ _ hgeo hz hF1 (take_size_le b fb _ hb)
            hgap hzg hF2 (drop_size_le b fb _ hb) hag⟩
  obtain ⟨hlo, hcases, hharm⟩ := key
  subst hpre
  rcases hcases with herr | hv
  · left
    intro k
    apply detected_of_err g bufs1 hsz d (appendAt P 2 (writeAll P bufs1 0).length b ++ suf) _ herr k
    intro i hi
    rw [hag i (.inl (by omega)), List.append_assoc]
  · right
    obtain ⟨hsame, hend⟩ := hharm hv
    exact ⟨hv, pristine_of_harmless g bufs1 hsz d _ suf hlen s (payOff P s disc p) hlo hag hsame hend⟩

/-- 3, with the harmless case excluded by hypothesis: the reader's view of the damaged header is
    not the header that was written -/
theorem log_header_damage_detected_partial (g : Good P) (bufs1 : List (List Nat)) (b : List Nat)
    (bufs2 : List (List Nat)) (hsz : ∀ x ∈ bufs1, x.length ≤ P.tableFull) (hb : b.length ≤ P.tableFull)
    (d : List Nat) (hlen : d.length = (writeAll P (bufs1 ++ b :: bufs2) 0).length)
    (s disc : Nat) (p : List Nat)
    (hmem : (s, disc, p) ∈ framesOf P 2 (writeAll P bufs1 0).length b)
    (hag : ∀ i, i < s ∨ payOff P s disc p ≤ i → d[i]? = (writeAll P (bufs1 ++ b :: bufs2) 0)[i]?)
    (hnc : ∀ h' o', nextHeader P d 2 s = .ok (h', o') → o' + h'.size ≤ d.length →
      (o' = payOff P s disc p ∧ h'.size = p.length ∧ h'.crc = P.crc p) ∨ P.crc (slice d o' h'.size) ≠ h'.crc)
    (hne : disc ≠ SECOND → nextHeader P d 2 s ≠ .eof)
    (hdisc : disc ≠ SECOND → ∀ h' o', nextHeader P d 2 s = .ok (h', o') →
      h'.disc = disc ∨ (h'.disc ≠ WHOLE ∧ h'.disc ≠ FIRST))
    (hchg : ∀ h' o', nextHeader P d 2 s = .ok (h', o') →
      ¬ (o' = payOff P s disc p ∧ h' = ⟨p.length, disc, P.crc p⟩)) (k : Nat) :
    readSome P d (bufs1.length + 1 + k) 0 = (bufs1, true) := by
  rcases log_header_damage_detected g bufs1 b bufs2 hsz hb d hlen s disc p hmem hag hnc hne hdisc with h | ⟨hv, _⟩
  · exact h k
  · exact absurd ⟨rfl, rfl⟩ (hchg _ _ hv)

/-! ### 5. the real header codec: the checksum field -/
section Real
open Blue.Wire
theorem slice_split (d : List Nat) (off n m : Nat) : slice d off (n + m) = slice d off n ++ slice d (off + n) m := by
  unfold slice
  rw [List.take_add, List.drop_drop]

theorem slice_drop (d : List Nat) (off n k : Nat) : (slice d off n).drop k = slice d (off + k) (n - k) := by
  unfold slice
  rw [List.drop_take, List.drop_drop]

theorem slice_length (d : List Nat) (off n : Nat) (h : off + n ≤ d.length) : (slice d off n).length = n := by
  unfold slice
  rw [List.length_take, List.length_drop]
  omega

theorem le32_fromLe32 (bs : List Nat) (hlen : bs.length = 4) (hb : ∀ x ∈ bs, x < 256) : le32 (fromLe32 bs) = bs := by
  match bs, hlen, hb with
  | [a, b, c, e], _, hb =>
    have ha := hb a (by simp)
    have hb' := hb b (by simp)
    have hc := hb c (by simp)
    have he := hb e (by simp)
    simp only [fromLe32, le32]
    congr 1
    · omega
    · congr 1
      · omega
      · congr 1
        · omega
        · congr 1
          omega

/-- the packed header without its last four bytes, the checksum -/
def hdrPrefix (h : Hdr) : List Nat :=
  encTag ⟨10, .varint⟩ ++ encVarint h.size ++ encTag ⟨11, .varint⟩ ++ encVarint h.disc ++ encTag ⟨12, .thirtyTwo⟩

theorem encHdr_split (h : Hdr) : encHdr h = hdrPrefix h ++ le32 h.crc := rfl

theorem fields_hdr_bytes (h : Hdr) (h1 : h.size < U64) (h2 : h.disc < U64) (bs : List Nat) (hbs : bs.length = 4)
    (k : Nat) :
    fields (k + 4) (hdrPrefix h ++ bs) =
      ([(⟨10, .varint⟩, encVarint h.size), (⟨11, .varint⟩, encVarint h.disc), (⟨12, .thirtyTwo⟩, bs)],
       false) := by
  unfold hdrPrefix
  have s1 := fieldStep_varint 10 h.size (by decide) h1
    (encTag ⟨11, .varint⟩ ++ encVarint h.disc ++ encTag ⟨12, .thirtyTwo⟩ ++ bs)
  have s2 := fieldStep_varint 11 h.disc (by decide) h2 (encTag ⟨12, .thirtyTwo⟩ ++ bs)
  have s3 := fieldStep_fixed32 12 bs [] (by decide) hbs
  simp only [List.append_assoc, List.append_nil] at s1 s2 s3 ⊢
  have ne : ∀ (t : Tag) (l : List Nat), encTag t ++ l ≠ [] := by
    intro t l hh
    exact encTag_ne_nil t (List.append_eq_nil_iff.mp hh).1
  rw [fields_cons (k + 3) _ _ _ (ne _ _) s1, fields_cons (k + 2) _ _ _ (ne _ _) s2,
    fields_cons (k + 1) _ _ _ (ne _ _) s3]
  rfl

/-- the real codec decodes any four bytes in the checksum field -/
theorem decHdr_crc_bytes (h : Hdr) (h1 : h.size < U64) (h2 : h.disc < 128) (bs : List Nat) (hbs : bs.length = 4) :
    decHdr (hdrPrefix h ++ bs) = some ⟨h.size, h.disc, fromLe32 bs⟩ := by
  unfold decHdr
  obtain ⟨k, hk⟩ : ∃ k, (hdrPrefix h ++ bs).length + 1 = k + 4 :=
    ⟨(hdrPrefix h ++ bs).length - 3, by rw [List.length_append, hbs]; omega⟩
  rw [hk, fields_hdr_bytes h h1 (by unfold U64; omega) bs hbs k]
  have d1 := decVarint_enc h.size h1 []
  have d2 := decVarint_enc h.disc (by unfold U64; omega) []
  simp only [List.append_nil] at d1 d2
  have hu : ¬ (h.disc > U32MAX) := by unfold U32MAX; omega
  have hl4 : ¬ (bs.length < 4) := by omega
  have ht : bs.take 4 = bs := by rw [List.take_of_length_le]; omega
  simp [mergeHdr, d1, d2, hu, hl4, ht]


theorem FrameAt.bytes {F : List Nat} {s disc : Nat} {p : List Nat} (hF : FrameAt P F s disc p) :
    F[s]? = some (hdrLen P disc p)
    ∧ slice F (s + 1) (hdrLen P disc p) = P.encH ⟨p.length, disc, P.crc p⟩ := by
  obtain ⟨a, c, rfl, rfl⟩ := hF
  unfold frame hdrLen
  simp only
  generalize P.encH ⟨p.length, disc, P.crc p⟩ = enc
  constructor
  · have : a ++ enc.length :: (enc ++ p) ++ c = a ++ enc.length :: (enc ++ p ++ c) := by simp
    rw [this]
    exact get_mid _ _ _
  · have : a ++ enc.length :: (enc ++ p) ++ c = (a ++ [enc.length]) ++ enc ++ (p ++ c) := by simp
    rw [this]
    have hl : a.length + 1 = (a ++ [enc.length]).length := by simp
    rw [hl]
    exact slice_mid _ _ _

/-- a frame of the append is a frame of the file, of admissible size, at or after the start -/
theorem frameAt_of_mem (g : Good P) (pre b suf : List Nat) (hb : b.length ≤ P.tableFull) (s disc : Nat)
    (p : List Nat) (hmem : (s, disc, p) ∈ framesOf P 2 pre.length b) :
    FrameAt P (pre ++ appendAt P 2 pre.length b ++ suf) s disc p ∧ p.length ≤ P.tableFull ∧ disc < 128
      ∧ pre.length ≤ s := by
  obtain ⟨s0, hgeo, hz, hlay⟩ := append_layout g pre b suf hb
  have hs0 := padGeom_le hgeo
  cases hlay with
  | whole hfr hF =>
    rw [hfr] at hmem
    simp only [List.mem_singleton, Prod.mk.injEq] at hmem
    obtain ⟨rfl, rfl, rfl⟩ := hmem
    exact ⟨hF, hb, by decide, hs0⟩
  | split fb s2 hfr hF1 hgap hzg hF2 =>
    rw [hfr] at hmem
    simp only [List.mem_cons, Prod.mk.injEq, List.not_mem_nil, or_false] at hmem
    rcases hmem with ⟨rfl, rfl, rfl⟩ | ⟨rfl, rfl, rfl⟩
    · exact ⟨hF1, take_size_le b fb _ hb, by decide, hs0⟩
    · exact ⟨hF2, drop_size_le b fb _ hb, by decide, by have := hgap.2.1; omega⟩

/-- what the reader makes of a frame of the real log whose four checksum bytes were overwritten
    with any four bytes: the same size and discriminant, and the checksum those bytes spell -/
theorem real_crc_field_view (crc : List Nat → Nat) (F d : List Nat) (hlen : d.length = F.length)
    (s disc : Nat) (p : List Nat) (hF : FrameAt (realParams crc) F s disc p)
    (hsz : p.length ≤ (realParams crc).tableFull) (hd128 : disc < 128)
    (hbound : payOff (realParams crc) s disc p + p.length ≤ F.length)
    (hag : ∀ i, s ≤ i → i < payOff (realParams crc) s disc p - 4 → d[i]? = F[i]?) (f : Nat) :
    4 ≤ hdrLen (realParams crc) disc p
    ∧ nextHeader (realParams crc) d (f + 1) s
        = .ok (⟨p.length, disc, fromLe32 (slice d (payOff (realParams crc) s disc p - 4) 4)⟩,
               payOff (realParams crc) s disc p)
    ∧ slice F (payOff (realParams crc) s disc p - 4) 4 = le32 (crc p) := by
  have hsz' : p.length ≤ 1006632960 := hsz
  have hU : p.length < U64 := by unfold U64; omega
  obtain ⟨hb1, hb2⟩ := hF.bytes
  obtain ⟨hl9, hl18⟩ := encHdr_length ⟨p.length, disc, crc p⟩ hU hd128
  have henc : (realParams crc).encH ⟨p.length, disc, (realParams crc).crc p⟩ = encHdr ⟨p.length, disc, crc p⟩ := rfl
  have hhl : hdrLen (realParams crc) disc p = (encHdr ⟨p.length, disc, crc p⟩).length := rfl
  rw [henc] at hb2
  unfold payOff at hbound hag ⊢
  generalize hdrLen (realParams crc) disc p = hl at *
  have hpl : (hdrPrefix ⟨p.length, disc, crc p⟩).length = hl - 4 := by
    have := congrArg List.length (encHdr_split ⟨p.length, disc, crc p⟩)
    rw [List.length_append, le32_length] at this
    omega
  -- the pristine header bytes: prefix, then the checksum
  have hFpre : slice F (s + 1) (hl - 4) = hdrPrefix ⟨p.length, disc, crc p⟩ := by
    have h1 : slice F (s + 1) (hl - 4) = (slice F (s + 1) hl).take (hl - 4) := by
      unfold slice; rw [List.take_take, Nat.min_eq_left (by omega)]
    rw [h1, hb2, encHdr_split, ← hpl, List.take_left]
  have hFcrc : slice F (s + 1 + hl - 4) 4 = le32 (crc p) := by
    have h1 := slice_drop F (s + 1) hl (hl - 4)
    rw [hb2, encHdr_split, ← hpl, List.drop_left, hpl] at h1
    rw [h1, show s + 1 + (hl - 4) = s + 1 + hl - 4 by omega, show hl - (hl - 4) = 4 by omega]
  refine ⟨by omega, ?_, hFcrc⟩
  -- the damaged header bytes: the same prefix, then four bytes
  have hdsl : slice d (s + 1) hl
      = hdrPrefix ⟨p.length, disc, crc p⟩ ++ slice d (s + 1 + hl - 4) 4 := by
    have h1 := slice_split d (s + 1) (hl - 4) 4
    rw [show hl - 4 + 4 = hl by omega, show s + 1 + (hl - 4) = s + 1 + hl - 4 by omega] at h1
    rw [h1, slice_agree d F (s + 1) (hl - 4) (fun i h1 h2 => hag i (by omega) (by omega)), hFpre]
  have hb4 : (slice d (s + 1 + hl - 4) 4).length = 4 := slice_length d _ 4 (by omega)
  have hH : (realParams crc).H = 19 := rfl
  have hdec : (realParams crc).decH = decHdr := rfl
  have htf : (realParams crc).tableFull = 1006632960 := rfl
  rw [nextHeader_succ, hag s (Nat.le_refl _) (by omega), hb1]
  simp only
  rw [if_neg (by omega), hH, if_neg (by omega), if_neg (by omega), hdsl, hdec,
    decHdr_crc_bytes ⟨p.length, disc, crc p⟩ hU hd128 _ hb4]
  simp only
  rw [htf, if_neg (by omega)]


/-- **C09 (log) 5a: the real header's checksum field is guarded by the payload.**  Overwrite the four
    checksum bytes of one frame's header with any four other bytes: the header still decodes, to
    the same size and discriminant and another checksum value, which the payload does not have —
    detected, with no hypothesis on the checksum function beyond its 32-bit range. -/
theorem crc_field_damage_detected (crc : List Nat → Nat) (hcrc32 : ∀ l, crc l < 4294967296)
    (bufs1 : List (List Nat)) (b : List Nat) (bufs2 : List (List Nat))
    (hsz : ∀ x ∈ bufs1, x.length ≤ (realParams crc).tableFull) (hb : b.length ≤ (realParams crc).tableFull)
    (d : List Nat) (hlen : d.length = (writeAll (realParams crc) (bufs1 ++ b :: bufs2) 0).length)
    (s disc : Nat) (p : List Nat)
    (hmem : (s, disc, p) ∈ framesOf (realParams crc) 2 (writeAll (realParams crc) bufs1 0).length b)
    (hag : ∀ i, i < payOff (realParams crc) s disc p - 4 ∨ payOff (realParams crc) s disc p ≤ i →
      d[i]? = (writeAll (realParams crc) (bufs1 ++ b :: bufs2) 0)[i]?)
    (hdiff : ∃ i, payOff (realParams crc) s disc p - 4 ≤ i ∧ i < payOff (realParams crc) s disc p
      ∧ d[i]? ≠ (writeAll (realParams crc) (bufs1 ++ b :: bufs2) 0)[i]?)
    (hbyte : ∀ i x, payOff (realParams crc) s disc p - 4 ≤ i → i < payOff (realParams crc) s disc p →
      d[i]? = some x → x < 256) (k : Nat) :
    readSome (realParams crc) d (bufs1.length + 1 + k) 0 = (bufs1, true) := by
  have g := good_real crc hcrc32
  have hF' := frameAt_of_mem g (writeAll (realParams crc) bufs1 0) b
    (writeAll (realParams crc) bufs2 ((writeAll (realParams crc) bufs1 0).length
      + (appendAt (realParams crc) 2 (writeAll (realParams crc) bufs1 0).length b).length)) hb s disc p hmem
  rw [← file_split] at hF'
  obtain ⟨hF, hpsz, hd128, _⟩ := hF'
  generalize hfile : writeAll (realParams crc) (bufs1 ++ b :: bufs2) 0 = F at *
  obtain ⟨_, hsl, hbound, _⟩ := hF.facts g hpsz hd128 1
  obtain ⟨h4, hv, hFcrc⟩ := real_crc_field_view crc F d hlen s disc p hF hpsz hd128 hbound
    (fun i _ h2 => hag i (.inl h2)) 1
  have hpo : payOff (realParams crc) s disc p = s + 1 + hdrLen (realParams crc) disc p := rfl
  generalize hbs : slice d (payOff (realParams crc) s disc p - 4) 4 = bs at *
  have hsd : slice d (payOff (realParams crc) s disc p) p.length = p := by
    rw [slice_agree d F _ p.length (fun i h1 _ => hag i (.inr h1)), hsl]
  have hres := log_header_damage_detected g bufs1 b bufs2 hsz hb d (by rw [hfile]; exact hlen) s disc p hmem
    (by rw [hfile]; intro i hi; exact hag i (by omega))
    (by
      intro h' o' hv' _
      rw [hv] at hv'
      cases hv'
      by_cases hc : fromLe32 bs = crc p
      · exact .inl ⟨rfl, rfl, hc⟩
      · right
        simp only
        rw [hsd]
        exact fun h => hc h.symm)
    (by intro _ h; rw [hv] at h; cases h)
    (by intro _ h' o' hv'; rw [hv] at hv'; cases hv'; exact .inl rfl)
  rcases hres with h | ⟨hv2, _⟩
  · exact h k
  · exfalso
    rw [hv] at hv2
    have hc : fromLe32 bs = crc p := by
      have := hv2
      simp only [R.ok.injEq, Prod.mk.injEq, Hdr.mk.injEq, true_and, and_true] at this
      exact this
    obtain ⟨i, hi1, hi2, hne⟩ := hdiff
    have hb4 : bs.length = 4 := by rw [← hbs]; exact slice_length d _ 4 (by omega)
    have hbytes : ∀ x ∈ bs, x < 256 := by
      intro x hx
      rw [← hbs, List.mem_iff_getElem?] at hx
      obtain ⟨j, hj⟩ := hx
      rw [slice_get] at hj
      by_cases hj4 : j < 4
      · rw [if_pos hj4] at hj
        exact hbyte _ x (by omega) (by omega) hj
      · rw [if_neg hj4] at hj; cases hj
    have heq : slice d (payOff (realParams crc) s disc p - 4) 4 = slice F (payOff (realParams crc) s disc p - 4) 4 := by
      rw [hbs, hFcrc, ← hc, le32_fromLe32 bs hb4 hbytes]
    apply hne
    have h1 := slice_get d (payOff (realParams crc) s disc p - 4) 4 (i - (payOff (realParams crc) s disc p - 4))
    have h2 := slice_get F (payOff (realParams crc) s disc p - 4) 4 (i - (payOff (realParams crc) s disc p - 4))
    rw [if_pos (by omega), show payOff (realParams crc) s disc p - 4 + (i - (payOff (realParams crc) s disc p - 4)) = i by omega] at h1 h2
    rw [← h1, ← h2, heq]


end Real

/-! ### 5b. the discriminant is outside the checksum -/

/-- toy parameters: blocks of 16 bytes, `HEADER_MAX_SIZE = 4`, a three-byte header (size,
    discriminant, checksum), the checksum the byte sum modulo 251 -/
def toyFrameParams : Params where
  B := 16
  H := 4
  tableFull := 100
  encH := fun h => [h.size, h.disc, h.crc]
  decH := fun bs => match bs with
    | [a, b, c] => some ⟨a, b, c⟩
    | _ => none
  crc := fun l => l.foldl (· + ·) 0 % 251

def toyBatch : List Nat := [1, 2, 3, 4, 5, 6, 7, 8, 9, 10, 11, 12, 13, 14]

/-- one append of 14 bytes at offset 0: split into a `FIRST` frame of 12 payload bytes that fills
    the block and a `SECOND` frame of 2 -/
def toyLog : List Nat := writeAll toyFrameParams [toyBatch] 0

/-- the `FIRST` frame's discriminant byte (offset 2) overwritten with `WHOLE` -/
def toyLogDisc : List Nat := toyLog.set 2 WHOLE

/-- **`hdisc` cannot be dropped**: the discriminant is not covered by the checksum.  Overwrite the
    discriminant of a `FIRST` frame with `WHOLE` — one byte inside the header region `[0, 4)` of the
    frame `(0, FIRST, first 12 bytes)`: the reader's view of the header has the size, checksum and
    payload offset that were written (so `hnc` holds by its first alternative, and `hne` holds), the
    checksum check passes, and the reader delivers the first 12 bytes of the batch *as a batch*
    before it reports the error at the orphaned `SECOND` frame.  The pristine log reads back the
    batch. -/
theorem disc_outside_checksum_example :
    framesOf toyFrameParams 2 0 toyBatch = [(0, FIRST, toyBatch.take 12), (16, SECOND, toyBatch.drop 12)]
    ∧ payOff toyFrameParams 0 FIRST (toyBatch.take 12) = 4
    ∧ toyLogDisc.length = toyLog.length
    ∧ (∀ i, i < 0 ∨ 4 ≤ i → toyLogDisc[i]? = toyLog[i]?)
    ∧ nextHeader toyFrameParams toyLogDisc 2 0
        = .ok (⟨12, WHOLE, toyFrameParams.crc (toyBatch.take 12)⟩, 4)
    ∧ readSome toyFrameParams toyLog 3 0 = ([toyBatch], false)
    ∧ readSome toyFrameParams toyLogDisc 3 0 = ([toyBatch.take 12], true) := by
  refine ⟨rfl, rfl, rfl, ?_, rfl, rfl, rfl⟩
  intro i hi
  unfold toyLogDisc
  rw [List.getElem?_set_ne (by omega)]



/-! ### 6. the three kinds of region together -/

/-- one damaged region of the append of `b` (after `bufs1`, before `bufs2`) in the image `d`, with
    what the corresponding theorem assumes of `d` -/
inductive LogRegion (P : Params) (bufs1 : List (List Nat)) (b : List Nat) (bufs2 : List (List Nat))
    (d : List Nat) : Prop
  /-- the payload of a frame; its bytes no longer have the checksum the header names -/
  | payload (s disc : Nat) (p : List Nat)
      (hmem : (s, disc, p) ∈ framesOf P 2 (writeAll P bufs1 0).length b)
      (hag : ∀ i, i < payOff P s disc p → d[i]? = (writeAll P (bufs1 ++ b :: bufs2) 0)[i]?)
      (hcrc : P.crc (slice d (payOff P s disc p) p.length) ≠ P.crc p)
  /-- a run of padding zeros, with a non-zero byte in it -/
  | padding (lo hi : Nat)
      (hmem : (lo, hi) ∈ padRunsOf P (writeAll P bufs1 0).length (framesOf P 2 (writeAll P bufs1 0).length b))
      (hag : ∀ i, i < lo → d[i]? = (writeAll P (bufs1 ++ b :: bufs2) 0)[i]?)
      (hnz : ∃ i x, lo ≤ i ∧ i < hi ∧ d[i]? = some x ∧ x ≠ 0)
      (hhdr : lo = (writeAll P bufs1 0).length → ∀ y, d[lo]? = some y → y ≠ 0 → ∀ h' o',
        nextHeader P d 2 lo = .ok (h', o') → o' + h'.size ≤ d.length → P.crc (slice d o' h'.size) ≠ h'.crc)
  /-- the header-length byte and header of a frame -/
  | header (s disc : Nat) (p : List Nat)
      (hmem : (s, disc, p) ∈ framesOf P 2 (writeAll P bufs1 0).length b)
      (hag : ∀ i, i < s ∨ payOff P s disc p ≤ i → d[i]? = (writeAll P (bufs1 ++ b :: bufs2) 0)[i]?)
      (hnc : ∀ h' o', nextHeader P d 2 s = .ok (h', o') → o' + h'.size ≤ d.length →
        (o' = payOff P s disc p ∧ h'.size = p.length ∧ h'.crc = P.crc p) ∨ P.crc (slice d o' h'.size) ≠ h'.crc)
      (hne : disc ≠ SECOND → nextHeader P d 2 s ≠ .eof)
      (hdisc : disc ≠ SECOND → ∀ h' o', nextHeader P d 2 s = .ok (h', o') →
        h'.disc = disc ∨ (h'.disc ≠ WHOLE ∧ h'.disc ≠ FIRST))

open Blue.Damage in
/-- **C09 (log) 6: damage to one region of one append is detected, or changes nothing.**  Whichever
    of the three kinds of region was damaged: the reader delivers exactly the batches appended
    before the damaged append and reports an error, and the replay fails — or (only possible for a
    header whose damaged bytes still decode to what was written) `d` is read, and replayed, exactly
    as the pristine log is.  Never a different batch. -/
theorem log_damage_detected_or_prefix (g : Good P) (bufs1 : List (List Nat)) (b : List Nat)
    (bufs2 : List (List Nat)) (hsz : ∀ x ∈ bufs1, x.length ≤ P.tableFull) (hb : b.length ≤ P.tableFull)
    (d : List Nat) (hlen : d.length = (writeAll P (bufs1 ++ b :: bufs2) 0).length)
    (hr : LogRegion P bufs1 b bufs2 d) :
    ((∀ k, readSome P d (bufs1.length + 1 + k) 0 = (bufs1, true))
      ∧ drain P d = deliver bufs1 true ∧ logToBuilder P d = .readerError ∧ logToSetsumOk P d = false)
    ∨ ((∀ n, readSome P d n 0 = readSome P (writeAll P (bufs1 ++ b :: bufs2) 0) n 0)
      ∧ drain P d = drain P (writeAll P (bufs1 ++ b :: bufs2) 0)
      ∧ logToBuilder P d = logToBuilder P (writeAll P (bufs1 ++ b :: bufs2) 0)
      ∧ logToSetsumOk P d = logToSetsumOk P (writeAll P (bufs1 ++ b :: bufs2) 0)) := by
  have hleft : (∀ k, readSome P d (bufs1.length + 1 + k) 0 = (bufs1, true)) →
      ((∀ k, readSome P d (bufs1.length + 1 + k) 0 = (bufs1, true))
        ∧ drain P d = deliver bufs1 true ∧ logToBuilder P d = .readerError ∧ logToSetsumOk P d = false) :=
    fun h => ⟨h, log_damage_replay_fails g bufs1 b bufs2 d hlen h⟩
  cases hr with
  | payload s disc p hmem hag hcrc =>
    exact .inl (hleft (log_payload_damage_detected g bufs1 b bufs2 hsz hb d s disc p hmem hag hcrc))
  | padding lo hi hmem hag hnz hhdr =>
    exact .inl (hleft (log_padding_damage_detected g bufs1 b bufs2 hsz hb d lo hi hmem hag hnz hhdr))
  | header s disc p hmem hag hnc hne hdisc =>
    rcases log_header_damage_detected g bufs1 b bufs2 hsz hb d hlen s disc p hmem hag hnc hne hdisc with h | ⟨_, h⟩
    · exact .inl (hleft h)
    · right
      have hdrain : drain P d = drain P (writeAll P (bufs1 ++ b :: bufs2) 0) := by
        unfold drain
        rw [hlen, h]
      refine ⟨h, hdrain, ?_, ?_⟩
      · unfold logToBuilder; rw [hdrain]
      · unfold logToSetsumOk; rw [hdrain]

/-- the pristine log reads back the appended batches (`log_roundtrip_any`, as `readSome`): what the
    harmless alternative of 3 and 6 amounts to -/
theorem pristine_readSome (g : Good P) (bufs : List (List Nat)) (hsz : ∀ x ∈ bufs, x.length ≤ P.tableFull) :
    readSome P (writeAll P bufs 0) (bufs.length + 1) 0 = (bufs, false) := by
  have h := log_roundtrip_any g bufs [] hsz
  simp only [List.nil_append, List.length_nil] at h
  exact readSome_of_readAll _ _ _ _ h

/-- two appends (8 and 3 bytes): the second does not fit in the 4 bytes left of the first block, so
    the writer pads them with zeros and writes it at the boundary -/
def toyLogPad : List Nat := writeAll toyFrameParams [[1, 2, 3, 4, 5, 6, 7, 8], [9, 10, 11]] 0

/-- two of the four padding bytes overwritten so that the run spells an empty `WHOLE` frame
    (header length 3; size 0, discriminant 1, checksum 0) -/
def toyLogPadInjected : List Nat := (toyLogPad.set 12 3).set 14 WHOLE

/-- **`hhdr` of `log_padding_damage_detected` cannot be dropped**: padding whose first byte becomes
    a header length is parsed as a header, and when the bytes make a frame with a matching checksum
    the reader delivers an invented (empty) batch and goes on -/
theorem padding_injection_example :
    padRunsOf toyFrameParams 12 (framesOf toyFrameParams 2 12 [9, 10, 11]) = [(12, 16)]
    ∧ (writeAll toyFrameParams [[1, 2, 3, 4, 5, 6, 7, 8]] 0).length = 12
    ∧ nextHeader toyFrameParams toyLogPadInjected 2 12 = .ok (⟨0, WHOLE, 0⟩, 16)
    ∧ toyFrameParams.crc (slice toyLogPadInjected 16 0) = 0
    ∧ readSome toyFrameParams toyLogPad 3 0 = ([[1, 2, 3, 4, 5, 6, 7, 8], [9, 10, 11]], false)
    ∧ readSome toyFrameParams toyLogPadInjected 4 0 = ([[1, 2, 3, 4, 5, 6, 7, 8], [], [9, 10, 11]], false) :=
  ⟨rfl, rfl, rfl, rfl, rfl, rfl⟩

end Blue.Log

#print axioms Blue.Log.appendAt_eq_layFrames
#print axioms Blue.Log.log_payload_damage_detected
#print axioms Blue.Log.log_padding_damage_detected
#print axioms Blue.Log.log_header_damage_detected
#print axioms Blue.Log.log_header_damage_detected_partial
#print axioms Blue.Log.log_damage_replay_fails
#print axioms Blue.Log.crc_field_damage_detected
#print axioms Blue.Log.disc_outside_checksum_example
#print axioms Blue.Log.padding_injection_example
#print axioms Blue.Log.log_damage_detected_or_prefix
