import Blue.Proofs.ProtoUnknown
import Blue.Proofs.ProtoFuel
/-! Property C15, what the statement audit asked for on top of `ProtoUnknown`:

    * `unknown_fields_skipped` at ANY nesting depth, by induction over a path of nested struct
      frames (`nested_frame_congr` iterated): `unpackMsg_congr_path`, `unpackMsg_unknown_path`,
      and their fuel-free forms on `decode`;
    * the fuel-free forms of the other unknown-field theorems;
    * `noncanonical_field_rejected` at the level of the whole message: a struct one of whose
      varint-typed fields arrives non-minimally encoded is rejected by `unpackMsg`
      (`unpackMsg_noncanonical_rejected`). -/
namespace Blue.ProtoMsg
open Blue.Wire Blue.Varint

/-! ## a path of nested struct frames -/

/-- one level of nesting as it lies in the buffer of the enclosing struct: the bytes before the
    nested field (complete fields), its field number, the bytes after it (anything) -/
structure Frame where
  opre : List Nat
  n : Nat
  osuf : List Nat

/-- the buffer of the outermost struct: `inner` wrapped in the frames, outermost first -/
def wrap : List Frame → List Nat → List Nat
  | [], inner => inner
  | L :: Ls, inner => L.opre ++ (encTag ⟨L.n, .lengthDelimited⟩ ++ encBytes (wrap Ls inner) ++ L.osuf)

/-- the schema side of the path: at every level the field number is valid, the bytes before the
    nested field are read as complete fields, and every arm of the struct that takes
    (number, length-delimited) is a nested struct for which the rest of the path holds; the
    innermost struct satisfies `P` -/
def PathTo (P : List Field → Prop) : List Field → List Frame → Prop
  | fs, [] => P fs
  | fs, L :: Ls =>
    validFieldNumber L.n = true ∧ Bytes L.opre ∧ (fieldsE (L.opre.length + 1) L.opre).2 = none
    ∧ ∀ g ∈ fs, g.num = L.n ∧ g.ty.wt = .lengthDelimited → ∃ gs, g.ty = .msg (.struct gs) ∧ PathTo P gs Ls

theorem wrap_length_le (L : Frame) (Ls : List Frame) (x : List Nat) :
    (wrap Ls x).length ≤ (wrap (L :: Ls) x).length := by
  simp only [wrap, encBytes, List.length_append]; omega

/-- **C15** `nested_frame_congruence` iterated along a path of any length: two buffers that differ
    only in the body `x1` / `x2` of a struct nested `Ls.length` levels deep unpack alike whenever
    the innermost struct unpacks the two bodies alike -/
theorem unpackMsg_congr_path (P : List Field → Prop) (x1 x2 : List Nat)
    (hP : ∀ gs, P gs → ∀ f, unpackMsg (f + 1) (.struct gs) x1 = unpackMsg (f + 1) (.struct gs) x2) :
    ∀ (Ls : List Frame) (f : Nat) (fs : List Field), PathTo P fs Ls →
    (wrap Ls x1).length < U64 → (wrap Ls x2).length < U64 →
    unpackMsg (f + 1 + Ls.length) (.struct fs) (wrap Ls x1)
      = unpackMsg (f + 1 + Ls.length) (.struct fs) (wrap Ls x2)
  | [], f, fs, hpath, _, _ => hP fs hpath f
  | L :: Ls, f, fs, hpath, h1, h2 => by
    obtain ⟨hn, hb, hclean, harms⟩ := hpath
    have l1 : (wrap Ls x1).length < U64 := Nat.lt_of_le_of_lt (wrap_length_le L Ls x1) h1
    have l2 : (wrap Ls x2).length < U64 := Nat.lt_of_le_of_lt (wrap_length_le L Ls x2) h2
    have e : f + 1 + (L :: Ls).length = (f + Ls.length) + 2 := by simp only [List.length_cons]; omega
    rw [e]
    apply nested_frame_congr (f + Ls.length) fs L.n L.opre _ _ L.osuf hn hb hclean l1 l2
    intro g hg hc
    obtain ⟨gs, hty, hrest⟩ := harms g hg hc
    rw [hty]
    have ih := unpackMsg_congr_path P x1 x2 hP Ls f gs hrest l1 l2
    have e' : f + 1 + Ls.length = f + Ls.length + 1 := by omega
    rw [e'] at ih
    exact decTy_msg_congr _ _ _ _ l1 l2 ih

/-- **C15** `unknown_fields_skipped` at any depth: an unknown field inserted at any field boundary of
    the body of a struct that is nested `Ls.length` levels deep (each level at any field boundary
    of the enclosing struct, anything after it) changes nothing in what the outermost struct
    unpacks to -/
theorem unpackMsg_unknown_path (t : Tag) (sl pre ub suf : List Nat)
    (hpre : Bytes pre) (hub : Bytes ub) (hclean : (fieldsE (pre.length + 1) pre).2 = none)
    (hu : fieldStepE ub = .ok ((t, sl), []))
    (Ls : List Frame) (f : Nat) (fs : List Field) (hpath : PathTo (fun gs => Unknown gs t) fs Ls)
    (hl : (wrap Ls (pre ++ ub ++ suf)).length < U64) (hl' : (wrap Ls (pre ++ suf)).length < U64) :
    unpackMsg (f + 1 + Ls.length) (.struct fs) (wrap Ls (pre ++ ub ++ suf))
      = unpackMsg (f + 1 + Ls.length) (.struct fs) (wrap Ls (pre ++ suf)) :=
  unpackMsg_congr_path (fun gs => Unknown gs t) _ _
    (fun gs hunk f => unpackMsg_unknown_anywhere f gs pre ub suf t sl hpre hub hclean hu hunk)
    Ls f fs hpath hl hl'

/-- the same on the fuel-free decoder (every fuel that reaches the depth of the outermost struct
    gives this decoder: `unpackMsg_fuel`) -/
theorem unpackMsg_unknown_path_decode (t : Tag) (sl pre ub suf : List Nat)
    (hpre : Bytes pre) (hub : Bytes ub) (hclean : (fieldsE (pre.length + 1) pre).2 = none)
    (hu : fieldStepE ub = .ok ((t, sl), []))
    (Ls : List Frame) (fs : List Field) (hpath : PathTo (fun gs => Unknown gs t) fs Ls)
    (hl : (wrap Ls (pre ++ ub ++ suf)).length < U64) (hl' : (wrap Ls (pre ++ suf)).length < U64) :
    decode (.struct fs) (wrap Ls (pre ++ ub ++ suf)) = decode (.struct fs) (wrap Ls (pre ++ suf)) := by
  have h := unpackMsg_unknown_path t sl pre ub suf hpre hub hclean hu Ls (Msg.struct fs).depth fs hpath hl hl'
  rwa [unpackMsg_fuel _ _ (by omega), unpackMsg_fuel _ _ (by omega)] at h

/-! ## fuel-free forms of the other unknown-field theorems -/

theorem decode_unknown_anywhere (fs : List Field) (pre ub suf : List Nat) (t : Tag) (sl : List Nat)
    (hpre : Bytes pre) (hub : Bytes ub) (hclean : (fieldsE (pre.length + 1) pre).2 = none)
    (hu : fieldStepE ub = .ok ((t, sl), [])) (hunk : Unknown fs t) :
    decode (.struct fs) (pre ++ ub ++ suf) = decode (.struct fs) (pre ++ suf) := by
  obtain ⟨k, hk⟩ : ∃ k, (Msg.struct fs).depth = k + 1 := ⟨fieldsDepth fs, rfl⟩
  unfold decode
  rw [hk]
  exact unpackMsg_unknown_anywhere k fs pre ub suf t sl hpre hub hclean hu hunk

theorem decode_unknown_entries (f : Nat) (fs : List Field) (es1 es2 : List (Nat × Ty × Val)) (u : Nat × Ty × Val)
    (h1 : ∀ e ∈ es1, WfEntry (WfMsg f) (packMsg f) e) (h2 : ∀ e ∈ es2, WfEntry (WfMsg f) (packMsg f) e)
    (hu : WfEntry (WfMsg f) (packMsg f) u) (hunk : Unknown fs ⟨u.1, u.2.1.wt⟩)
    (hf : (Msg.struct fs).depth ≤ f + 1) :
    decode (.struct fs) ((es1 ++ u :: es2).flatMap (packEntry (packMsg f)))
      = decode (.struct fs) ((es1 ++ es2).flatMap (packEntry (packMsg f))) := by
  have h := unpackMsg_unknown f fs es1 es2 u h1 h2 hu hunk
  rwa [unpackMsg_fuel _ _ hf, unpackMsg_fuel _ _ hf] at h

theorem decode_unknown_named (vars : List Variant) (d : Val) (n i n' : Nat) (fs : List Field)
    (pre ub suf rest : List Nat) (t : Tag) (sl : List Nat)
    (hn : validFieldNumber n = true)
    (hfind : findVariant vars ⟨n, .lengthDelimited⟩ 0 = some (i, .named n' fs))
    (hl : (pre ++ ub ++ suf).length < U64)
    (hpre : Bytes pre) (hub : Bytes ub) (hclean : (fieldsE (pre.length + 1) pre).2 = none)
    (hu : fieldStepE ub = .ok ((t, sl), [])) (hunk : Unknown fs t) :
    decode (.enum vars d) (encTag ⟨n, .lengthDelimited⟩ ++ encBytes (pre ++ ub ++ suf) ++ rest)
      = decode (.enum vars d) (encTag ⟨n, .lengthDelimited⟩ ++ encBytes (pre ++ suf) ++ rest) := by
  obtain ⟨k, hk⟩ : ∃ k, (Msg.enum vars d).depth = k + 1 := ⟨variantsDepth vars, rfl⟩
  unfold decode
  rw [hk]
  exact unpackMsg_unknown_named k vars d n i n' fs pre ub suf rest t sl hn hfind hl hpre hub hclean hu hunk

/-! ## a non-canonical varint field makes the whole struct fail -/

theorem foldl_mergeStep_error (rec : Msg → List Nat → R (Val × List Nat)) (strict : Bool) (fs : List Field)
    (e : Err) : ∀ (l : List (Tag × List Nat)), l.foldl (mergeStep rec strict fs) (.error e) = .error e
  | [] => rfl
  | _ :: l => foldl_mergeStep_error rec strict fs e l

theorem mergeInto_length (rec : Msg → List Nat → R (Val × List Nat)) (fld : Tag × List Nat) :
    ∀ (fs : List Field) (a a' : List Val), mergeInto rec fs a fld = some (.ok a') → a'.length = a.length
  | [], a, _, h => by cases a <;> simp [mergeInto] at h
  | _ :: _, [], _, h => by simp [mergeInto] at h
  | g :: fs, v :: vs, a', h => by
    simp only [mergeInto] at h
    by_cases hc : g.num = fld.1.num ∧ g.ty.wt = fld.1.wt
    · rw [if_pos hc] at h
      cases hd : decTyWith rec g.ty fld.2 with
      | error e => rw [hd] at h; simp at h
      | ok r =>
        rw [hd] at h
        simp only [Option.some.injEq, Except.ok.injEq] at h
        subst h; simp
    · rw [if_neg hc] at h
      cases hm : mergeInto rec fs vs fld with
      | none => rw [hm] at h; simp at h
      | some r =>
        rw [hm] at h
        cases r with
        | error e => simp [Except.map] at h
        | ok b =>
          simp only [Option.map_some, Except.map, Option.some.injEq, Except.ok.injEq] at h
          subst h
          simp [mergeInto_length rec fld fs vs b hm]

theorem mergeStep_length (rec : Msg → List Nat → R (Val × List Nat)) (strict : Bool) (fs : List Field)
    (k : Nat) (acc : R (List Val)) (fld : Tag × List Nat) (h : ∀ a, acc = .ok a → a.length = k) :
    ∀ a, mergeStep rec strict fs acc fld = .ok a → a.length = k := by
  intro a' ha
  cases acc with
  | error e => simp [mergeStep] at ha
  | ok a =>
    simp only [mergeStep] at ha
    cases hm : mergeInto rec fs a fld with
    | none =>
      rw [hm] at ha
      cases strict <;> simp at ha
      subst ha; exact h a rfl
    | some r =>
      rw [hm] at ha
      simp only at ha
      subst ha
      rw [mergeInto_length rec fld fs a a' hm]; exact h a rfl

theorem foldl_mergeStep_length (rec : Msg → List Nat → R (Val × List Nat)) (strict : Bool) (fs : List Field)
    (k : Nat) : ∀ (l : List (Tag × List Nat)) (acc : R (List Val)), (∀ a, acc = .ok a → a.length = k) →
    ∀ a, l.foldl (mergeStep rec strict fs) acc = .ok a → a.length = k
  | [], acc, h => h
  | fld :: l, acc, h => by
    simp only [List.foldl_cons]
    exact foldl_mergeStep_length rec strict fs k l _ (mergeStep_length rec strict fs k acc fld h)

/-- the first arm that takes the field decides; if every arm that would take it fails with `e`
    (and there is one), the merge fails with `e` -/
theorem mergeInto_arm_error (rec : Msg → List Nat → R (Val × List Nat)) (fld : Tag × List Nat) (e : Err) :
    ∀ (fs : List Field) (a : List Val), a.length = fs.length →
    (∃ g ∈ fs, g.num = fld.1.num ∧ g.ty.wt = fld.1.wt) →
    (∀ g ∈ fs, g.num = fld.1.num ∧ g.ty.wt = fld.1.wt → decTyWith rec g.ty fld.2 = .error e) →
    mergeInto rec fs a fld = some (.error e)
  | [], _, _, ⟨_, hg, _⟩, _ => by cases hg
  | _ :: _, [], hl, _, _ => by simp at hl
  | g :: fs, v :: vs, hl, hex, hall => by
    simp only [mergeInto]
    by_cases hc : g.num = fld.1.num ∧ g.ty.wt = fld.1.wt
    · rw [if_pos hc, hall g List.mem_cons_self hc]
    · rw [if_neg hc]
      obtain ⟨x, hx, hxc⟩ := hex
      have hx' : x ∈ fs := by
        rcases List.mem_cons.mp hx with rfl | h
        · exact absurd hxc hc
        · exact h
      rw [mergeInto_arm_error rec fld e fs vs (by simpa using hl) ⟨x, hx', hxc⟩
        (fun y hy => hall y (List.mem_cons_of_mem _ hy))]
      rfl

/-- **C15** `noncanonical_field_rejected` for the whole message: `nb` is a varint the decoder reads
    completely (`decVarint nb = some (x, [])`) but longer than the canonical encoding of its value;
    it arrives as the payload of field `n` with the varint wire type, at any field boundary of
    any buffer (`pre` complete fields, `suf` anything), and the struct has an arm for
    (`n`, varint).  The struct is rejected: with the error the fields before it already produced,
    else with `varint-overflow` — never a value. -/
theorem unpackMsg_noncanonical_rejected (f : Nat) (fs : List Field) (n : Nat) (pre nb suf : List Nat) (x : Nat)
    (hn : validFieldNumber n = true) (hpre : Bytes pre)
    (hclean : (fieldsE (pre.length + 1) pre).2 = none)
    (hdec : decVarint nb = some (x, [])) (hnc : (encVarint x).length < nb.length)
    (harm : ∃ g ∈ fs, g.num = n ∧ g.ty.wt = .varint) :
    unpackMsg (f + 1) (.struct fs) (pre ++ (encTag ⟨n, .varint⟩ ++ nb ++ suf))
      = match unpackMsg (f + 1) (.struct fs) pre with
        | .error e => .error e
        | .ok _ => .error .varintOverflow := by
  have hne : encTag ⟨n, .varint⟩ ++ nb ++ suf ≠ [] := by
    intro h; exact encTag_ne_nil _ (List.append_eq_nil_iff.mp (List.append_eq_nil_iff.mp h).1).1
  have hstep : fieldStepE (encTag ⟨n, .varint⟩ ++ nb ++ suf)
      = .ok ((⟨n, .varint⟩, nb.take (encVarint x).length), suf) := by
    unfold fieldStepE
    rw [List.append_assoc, decTagE_enc ⟨n, .varint⟩ hn]
    simp only
    have := decVarint_append nb x [] suf hdec
    simp only [List.nil_append] at this
    rw [this]
    simp only [List.take_append_of_le_length (Nat.le_of_lt hnc)]
  have hslice : ∀ g ∈ fs, g.num = n ∧ g.ty.wt = .varint →
      decTyWith (unpackMsg f) g.ty (nb.take (encVarint x).length) = .error .varintOverflow := by
    intro g _ hc
    cases hty : g.ty with
    | msg m => rw [hty] at hc; simp [Ty.wt] at hc
    | scalar s =>
      rw [hty] at hc
      simp only [decTyWith]
      exact noncanonical_field_rejected nb x [] hdec (by simpa using hnc) s hc.2
  simp only [unpackMsg]
  unfold unpackFields
  rw [fieldsE_append (pre.length + 1) pre (by omega) hpre hclean _ _ (by omega),
    fieldsE_step _ _ hne, hstep]
  simp only [List.foldl_append, List.foldl_cons, hclean]
  cases hA : (fieldsE (pre.length + 1) pre).1.foldl (mergeStep (unpackMsg f) false fs)
      (.ok (fs.map (dfltSlotWith (dfltMsg f)))) with
  | error e => simp only [mergeStep, foldl_mergeStep_error]
  | ok a =>
    have hlen : a.length = fs.length := by
      have := foldl_mergeStep_length (unpackMsg f) false fs fs.length _ (.ok (fs.map (dfltSlotWith (dfltMsg f))))
        (fun b hb => by simp only [Except.ok.injEq] at hb; subst hb; simp) a hA
      exact this
    have := mergeInto_arm_error (unpackMsg f) (⟨n, .varint⟩, nb.take (encVarint x).length) .varintOverflow
      fs a hlen harm hslice
    simp only [mergeStep, this, foldl_mergeStep_error]

theorem decode_noncanonical_rejected (fs : List Field) (n : Nat) (pre nb suf : List Nat) (x : Nat)
    (hn : validFieldNumber n = true) (hpre : Bytes pre)
    (hclean : (fieldsE (pre.length + 1) pre).2 = none)
    (hdec : decVarint nb = some (x, [])) (hnc : (encVarint x).length < nb.length)
    (harm : ∃ g ∈ fs, g.num = n ∧ g.ty.wt = .varint) :
    ∃ e, decode (.struct fs) (pre ++ (encTag ⟨n, .varint⟩ ++ nb ++ suf)) = .error e := by
  obtain ⟨k, hk⟩ : ∃ k, (Msg.struct fs).depth = k + 1 := ⟨fieldsDepth fs, rfl⟩
  unfold decode
  rw [hk, unpackMsg_noncanonical_rejected k fs n pre nb suf x hn hpre hclean hdec hnc harm]
  cases unpackMsg (k + 1) (.struct fs) pre with
  | error e => exact ⟨e, rfl⟩
  | ok r => exact ⟨.varintOverflow, rfl⟩

end Blue.ProtoMsg
