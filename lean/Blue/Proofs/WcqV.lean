import Blue.Model.WcqV
namespace Blue.WcqV

/-! ### list helpers -/

theorem setSt_get (l : List Ent) (i : Nat) (f : Ent → Ent) (x : Nat) :
    (setSt l i f)[x]? = if x = i then l[i]?.map f else l[x]? := by
  unfold setSt
  cases h : l[i]? with
  | none =>
    by_cases hx : x = i
    · subst hx; simp [h]
    · simp [hx]
  | some e =>
    simp only []
    by_cases hx : x = i
    · subst hx
      have hi : x < l.length := (List.getElem?_eq_some_iff.mp h).1
      simp [List.getElem?_set_self hi]
    · rw [if_neg hx, List.getElem?_set_ne (Ne.symm hx)]

theorem setSt_length (l : List Ent) (i : Nat) (f : Ent → Ent) : (setSt l i f).length = l.length := by
  unfold setSt
  split <;> simp

theorem steal_length : ∀ (k : Nat) (l : List Ent) (i : Nat), (steal l i k).length = l.length
  | 0, _, _ => rfl
  | k + 1, l, i => by
    simp only [steal]
    rw [steal_length k, setSt_length]

theorem steal_get : ∀ (k : Nat) (l : List Ent) (i x : Nat),
    (steal l i k)[x]? = if i ≤ x ∧ x < i + k then l[x]?.map (fun e => { e with st := .stolen }) else l[x]?
  | 0, l, i, x => by
    simp only [steal]
    rw [if_neg (by omega)]
  | k + 1, l, i, x => by
    simp only [steal]
    rw [steal_get k, setSt_get]
    by_cases hxi : x = i
    · subst hxi
      rw [if_neg (by omega), if_pos rfl, if_pos (by omega)]
    · rw [if_neg hxi]
      by_cases hin : i + 1 ≤ x ∧ x < i + 1 + k
      · rw [if_pos hin, if_pos (by omega)]
      · rw [if_neg hin, if_neg (by omega)]

theorem headIdx_le : ∀ (l : List Ent) (x : Nat) (e : Ent), l[x]? = some e → e.linked = true → headIdx l ≤ x
  | [], x, e, h, _ => by simp at h
  | a :: l, 0, e, h, hl => by
    simp only [List.getElem?_cons_zero, Option.some.injEq] at h
    subst h
    simp [headIdx, hl]
  | a :: l, x + 1, e, h, hl => by
    simp only [List.getElem?_cons_succ] at h
    unfold headIdx
    split
    · omega
    · have := headIdx_le l x e h hl; omega

/-! ### the invariant -/

/-- what the core produced for caller `idx` -/
def look (prod : List (Nat × Nat)) (idx : Nat) : Option Nat := prod.lookup idx

theorem look_cons_ne {prod : List (Nat × Nat)} {x v idx : Nat} (h : idx ≠ x) :
    look ((x, v) :: prod) idx = look prod idx := by
  unfold look
  rw [List.lookup_cons]
  have : (idx == x) = false := by simpa using h
  rw [this]

theorem look_cons_eq {prod : List (Nat × Nat)} {x v : Nat} : look ((x, v) :: prod) x = some v := by
  unfold look; simp [List.lookup_cons]

/-- an entry whose caller has its output: still linked and not yet returned, or gone with exactly
    the output the core produced for it -/
def Done (prod : List (Nat × Nat)) (e : Ent) (idx : Nat) : Prop :=
  e.lead = none ∧ ∃ v, look prod idx = some v ∧ e.st = .outp v
    ∧ ((e.linked = true ∧ e.ret = none) ∨ (e.linked = false ∧ e.ret = some v))

def Expect (prod : List (Nat × Nat)) (m : Nat) (cur : Option (Nat × Nat × Nat)) (idx : Nat) (e : Ent) : Prop :=
  if m ≤ idx then e = ⟨.inp, true, none, none⟩
  else match cur with
    | none => Done prod e idx
    | some (i, k, j) =>
      if idx < i then Done prod e idx
      else if idx = i then
        e.lead = some (k, j) ∧ e.linked = true ∧ e.ret = none
        ∧ (if 0 < j then ∃ v, look prod i = some v ∧ e.st = .outp v else e.st = .stolen)
      else if idx - i < j then Done prod e idx
      else e = ⟨.stolen, true, none, none⟩

structure Inv (s : St) (m : Nat) (cur : Option (Nat × Nat × Nat)) : Prop where
  log : s.log = List.range m
  le : m ≤ s.ents.length
  nopanic : s.panicked = false
  dw : s.doingWork = cur.isSome
  shape : ∀ i k j, cur = some (i, k, j) → i + k = m ∧ 1 ≤ k ∧ j ≤ k
  ents : ∀ idx e, s.ents[idx]? = some e → Expect s.prod m cur idx e

theorem inv_init : Inv init 0 none :=
  ⟨rfl, Nat.le_refl _, rfl, rfl, (by intro _ _ _ h; cases h), (by intro idx e h; simp [init] at h)⟩

theorem done_st {prod : List (Nat × Nat)} {e : Ent} {idx : Nat} (h : Done prod e idx) : e.st ≠ .inp := by
  obtain ⟨_, v, _, hs, _⟩ := h
  rw [hs]; intro hc; cases hc

theorem inp_beyond {prod : List (Nat × Nat)} {m : Nat} {cur : Option (Nat × Nat × Nat)} {idx : Nat} {e : Ent}
    (h : Expect prod m cur idx e) (hst : e.st = .inp) : m ≤ idx := by
  unfold Expect at h
  by_cases hm : m ≤ idx
  · exact hm
  · rw [if_neg hm] at h
    exfalso
    cases cur with
    | none => exact done_st h hst
    | some c =>
      obtain ⟨i, k, j⟩ := c
      dsimp only at h
      split at h
      · exact done_st h hst
      · split at h
        · have := h.2.2.2
          split at this
          · obtain ⟨v, _, hs⟩ := this; rw [hs] at hst; cases hst
          · rw [this] at hst; cases hst
        · split at h
          · exact done_st h hst
          · rw [h] at hst; cases hst

theorem lead_is_cur {prod : List (Nat × Nat)} {m : Nat} {cur : Option (Nat × Nat × Nat)} {idx : Nat} {e : Ent}
    {k j : Nat} (h : Expect prod m cur idx e) (hl : e.lead = some (k, j)) : cur = some (idx, k, j) ∧ idx < m := by
  unfold Expect at h
  by_cases hm : m ≤ idx
  · rw [if_pos hm] at h; rw [h] at hl; cases hl
  · rw [if_neg hm] at h
    cases cur with
    | none => have := h.1; rw [hl] at this; cases this
    | some c =>
      obtain ⟨i, k', j'⟩ := c
      dsimp only at h
      split at h
      · have := h.1; rw [hl] at this; cases this
      · split at h
        · rename_i hidx
          rw [hl] at h
          have := h.1
          simp only [Option.some.injEq, Prod.mk.injEq] at this
          subst hidx
          exact ⟨by rw [this.1, this.2], by omega⟩
        · split at h
          · have := h.1; rw [hl] at this; cases this
          · rw [h] at hl; cases hl

theorem expect_outp_done {prod : List (Nat × Nat)} {m : Nat} {cur : Option (Nat × Nat × Nat)} {idx : Nat}
    {e : Ent} {o : Nat} (h : Expect prod m cur idx e) (hst : e.st = .outp o) (hl : e.lead = none) :
    Done prod e idx := by
  unfold Expect at h
  by_cases hm : m ≤ idx
  · rw [if_pos hm] at h; rw [h] at hst; cases hst
  · rw [if_neg hm] at h
    cases cur with
    | none => exact h
    | some c =>
      obtain ⟨i, k, j⟩ := c
      dsimp only at h
      split at h
      · exact h
      · split at h
        · rw [hl] at h; cases h.1
        · split at h
          · exact h
          · rw [h] at hst; cases hst

theorem expect_replace_done {prod : List (Nat × Nat)} {m : Nat} {cur : Option (Nat × Nat × Nat)} {idx : Nat}
    {e e' : Ent} {o : Nat} (h : Expect prod m cur idx e) (hst : e.st = .outp o) (hl : e.lead = none)
    (hd : Done prod e' idx) : Expect prod m cur idx e' := by
  unfold Expect at h ⊢
  by_cases hm : m ≤ idx
  · rw [if_pos hm] at h; rw [h] at hst; cases hst
  · rw [if_neg hm] at h ⊢
    cases cur with
    | none => exact hd
    | some c =>
      obtain ⟨i, k, j⟩ := c
      dsimp only at h ⊢
      split
      · exact hd
      · rw [if_neg ‹_›] at h
        split
        · rw [if_pos ‹_›] at h; rw [hl] at h; cases h.1
        · rw [if_neg ‹_›] at h
          split
          · exact hd
          · rw [if_neg ‹_›] at h; rw [h] at hst; cases hst

theorem inv_link {s : St} {m : Nat} {cur : Option (Nat × Nat × Nat)} (h : Inv s m cur) :
    Inv (step s .link) m cur := by
  refine ⟨h.log, ?_, h.nopanic, h.dw, h.shape, ?_⟩
  · simp only [step, List.length_append, List.length_cons, List.length_nil]
    have := h.le; omega
  · intro idx e he
    simp only [step] at he ⊢
    by_cases hlt : idx < s.ents.length
    · rw [List.getElem?_append_left hlt] at he
      exact h.ents idx e he
    · rw [List.getElem?_append_right (by omega)] at he
      have hz : idx - s.ents.length = 0 := by
        by_cases hz : idx - s.ents.length = 0
        · exact hz
        · obtain ⟨n, hn⟩ := Nat.exists_eq_succ_of_ne_zero hz
          rw [hn] at he; simp at he
      rw [hz] at he
      simp only [List.getElem?_cons_zero, Option.some.injEq] at he
      unfold Expect
      rw [if_pos (by have := h.le; omega)]
      exact he.symm

theorem inv_observe {s : St} {m : Nat} {cur : Option (Nat × Nat × Nat)} (h : Inv s m cur) (i : Nat) :
    Inv (step s (.observe i)) m cur := by
  simp only [step]
  split
  · rename_i o r heq
    have hex := h.ents i _ heq
    obtain ⟨_, v, hv, hst, _⟩ := expect_outp_done hex rfl rfl
    have ho : o = v := by simpa using hst
    have hilt : i < s.ents.length := (List.getElem?_eq_some_iff.mp heq).1
    refine ⟨h.log, by simp only [List.length_set]; exact h.le, h.nopanic, h.dw, h.shape, ?_⟩
    intro idx e he
    dsimp only at he ⊢
    by_cases hx : idx = i
    · subst hx
      rw [List.getElem?_set_self hilt] at he
      simp only [Option.some.injEq] at he
      subst he
      exact expect_replace_done hex rfl rfl ⟨rfl, v, hv, by rw [ho], Or.inr ⟨rfl, by rw [ho]⟩⟩
    · rw [List.getElem?_set_ne (Ne.symm hx)] at he
      exact h.ents idx e he
  · exact h

theorem range_shift (m k : Nat) : List.range m ++ (List.range k).map (· + m) = List.range (m + k) := by
  rw [List.range_add]
  congr 1
  apply List.map_congr_left
  intro a _
  exact Nat.add_comm a m

theorem inv_lead {s : St} {m : Nat} {cur : Option (Nat × Nat × Nat)} (h : Inv s m cur) (i k : Nat) :
    ∃ m' cur', Inv (step s (.lead i k)) m' cur' := by
  simp only [step]
  split
  · rename_i heq
    split
    · rename_i hc
      obtain ⟨hdw, hhead, hk1, hik⟩ := hc
      have hcur : cur = none := by
        have := h.dw; rw [hdw] at this
        cases cur with
        | none => rfl
        | some _ => cases this
      subst hcur
      have hmi : m ≤ i := inp_beyond (h.ents i _ heq) rfl
      have him : i = m := by
        false_or_by_contra
        rename_i hne
        have hlt : m < i := by omega
        have hmlen : m < s.ents.length := by omega
        obtain ⟨em, hem⟩ : ∃ em, s.ents[m]? = some em := ⟨s.ents[m], List.getElem?_eq_getElem hmlen⟩
        have hexm := h.ents m em hem
        unfold Expect at hexm
        rw [if_pos (Nat.le_refl _)] at hexm
        have := headIdx_le s.ents m em hem (by rw [hexm])
        omega
      subst him
      have hall : (s.ents.drop i).all (fun e => e.st == .inp) = true := by
        rw [List.all_eq_true]
        intro x hx
        obtain ⟨n, hn⟩ := List.mem_iff_getElem?.mp hx
        rw [List.getElem?_drop] at hn
        have := h.ents (i + n) x hn
        unfold Expect at this
        rw [if_pos (by omega)] at this
        rw [this]; rfl
      rw [if_pos hall]
      refine ⟨i + k, some (i, k, 0), ?_, ?_, h.nopanic, rfl, ?_, ?_⟩
      · dsimp only; rw [h.log]; exact range_shift i k
      · simp only [setSt_length, steal_length]; exact hik
      · intro i' k' j' hc
        simp only [Option.some.injEq, Prod.mk.injEq] at hc
        obtain ⟨rfl, rfl, rfl⟩ := hc
        exact ⟨rfl, hk1, Nat.zero_le _⟩
      · intro idx e he
        dsimp only at he ⊢
        rw [setSt_get, steal_get, steal_get] at he
        unfold Expect
        by_cases hx : idx = i
        · subst hx
          rw [if_pos rfl, if_pos (by omega), heq] at he
          simp only [Option.map_some, Option.some.injEq] at he
          subst he
          rw [if_neg (by omega)]
          dsimp only
          rw [if_neg (by omega), if_pos rfl]
          exact ⟨rfl, rfl, rfl, by simp⟩
        · rw [if_neg hx] at he
          by_cases hin : i ≤ idx ∧ idx < i + k
          · rw [if_pos hin] at he
            cases hold : s.ents[idx]? with
            | none => rw [hold] at he; cases he
            | some old =>
              rw [hold] at he
              simp only [Option.map_some, Option.some.injEq] at he
              have hexo := h.ents idx old hold
              unfold Expect at hexo
              rw [if_pos hin.1] at hexo
              subst hexo
              subst he
              rw [if_neg (by omega)]
              dsimp only
              rw [if_neg (by omega), if_neg hx, if_neg (by omega)]
          · rw [if_neg hin] at he
            have hexo := h.ents idx e he
            unfold Expect at hexo
            by_cases hge : i ≤ idx
            · rw [if_pos hge] at hexo
              rw [if_pos (by omega)]; exact hexo
            · rw [if_neg hge] at hexo
              dsimp only at hexo
              rw [if_neg (by omega)]
              dsimp only
              rw [if_pos (by omega)]; exact hexo
    · exact ⟨m, cur, h⟩
  · exact ⟨m, cur, h⟩

theorem done_prod_cons {prod : List (Nat × Nat)} {e : Ent} {idx x v : Nat} (hne : idx ≠ x)
    (h : Done prod e idx) : Done ((x, v) :: prod) e idx := by
  obtain ⟨h1, w, hw, h2⟩ := h
  exact ⟨h1, w, by rw [look_cons_ne hne]; exact hw, h2⟩

/-- delivering output `j` (to caller `i + j`) changes what is expected only of the leader and of
    that caller -/
theorem expect_bump {prod : List (Nat × Nat)} {m i k j idx v : Nat} {e : Ent} (h1 : idx ≠ i) (h2 : idx ≠ i + j)
    (h : Expect prod m (some (i, k, j)) idx e) : Expect ((i + j, v) :: prod) m (some (i, k, j + 1)) idx e := by
  unfold Expect at h ⊢
  by_cases hm : m ≤ idx
  · rw [if_pos hm] at h ⊢; exact h
  · rw [if_neg hm] at h ⊢
    dsimp only at h ⊢
    by_cases hlt : idx < i
    · rw [if_pos hlt] at h ⊢; exact done_prod_cons h2 h
    · rw [if_neg hlt, if_neg h1] at h ⊢
      by_cases hj : idx - i < j
      · rw [if_pos hj] at h; rw [if_pos (by omega)]; exact done_prod_cons h2 h
      · rw [if_neg hj] at h; rw [if_neg (by omega)]; exact h

theorem inv_deliver {s : St} {m : Nat} {cur : Option (Nat × Nat × Nat)} (h : Inv s m cur) (i v : Nat) :
    ∃ m' cur', Inv (step s (.deliver i v)) m' cur' := by
  simp only [step]
  split
  · rename_i st l k j r heq
    split
    · rename_i hjk
      obtain ⟨hcur, him⟩ := lead_is_cur (h.ents i _ heq) rfl
      subst hcur
      obtain ⟨hikm, hk1, hjle⟩ := h.shape i k j rfl
      have hlead := h.ents i _ heq
      unfold Expect at hlead
      rw [if_neg (by omega)] at hlead
      dsimp only at hlead
      rw [if_neg (by omega), if_pos rfl] at hlead
      obtain ⟨_, hl, hr, hst⟩ := hlead
      subst hl hr
      refine ⟨m, some (i, k, j + 1), h.log, ?_, h.nopanic, h.dw, ?_, ?_⟩
      · simp only [setSt_length]; exact h.le
      · intro i' k' j' hc
        simp only [Option.some.injEq, Prod.mk.injEq] at hc
        obtain ⟨rfl, rfl, rfl⟩ := hc
        exact ⟨hikm, hk1, by omega⟩
      · intro idx e he
        dsimp only at he ⊢
        rw [setSt_get, setSt_get] at he
        by_cases hx : idx = i
        · subst hx
          rw [if_pos rfl] at he
          unfold Expect
          rw [if_neg (by omega)]
          dsimp only
          rw [if_neg (by omega), if_pos rfl, if_pos (by omega)]
          by_cases hj0 : j = 0
          · subst hj0
            simp only [Nat.add_zero, if_true] at he
            rw [heq] at he
            simp only [Option.map_some, Option.some.injEq] at he
            subst he
            exact ⟨rfl, rfl, rfl, v, by rw [Nat.add_zero]; exact look_cons_eq, rfl⟩
          · rw [if_neg (by omega), heq] at he
            simp only [Option.map_some, Option.some.injEq] at he
            subst he
            rw [if_pos (by omega)] at hst
            obtain ⟨w, hw, hs⟩ := hst
            exact ⟨rfl, rfl, rfl, w, by rw [look_cons_ne (by omega)]; exact hw, hs⟩
        · rw [if_neg hx] at he
          try rw [setSt_get] at he
          by_cases hxj : idx = i + j
          · subst hxj
            rw [if_pos rfl] at he
            cases hold : s.ents[i + j]? with
            | none => rw [hold] at he; cases he
            | some old =>
              rw [hold] at he
              simp only [Option.map_some, Option.some.injEq] at he
              have hexo := h.ents (i + j) old hold
              unfold Expect at hexo
              rw [if_neg (by omega)] at hexo
              dsimp only at hexo
              rw [if_neg (by omega), if_neg hx, if_neg (by omega)] at hexo
              subst hexo
              subst he
              unfold Expect
              rw [if_neg (by omega)]
              dsimp only
              rw [if_neg (by omega), if_neg hx, if_pos (by omega)]
              exact ⟨rfl, v, look_cons_eq, rfl, Or.inl ⟨rfl, rfl⟩⟩
          · rw [if_neg hxj] at he
            exact expect_bump hx hxj (h.ents idx e he)
    · exact ⟨m, cur, h⟩
  · exact ⟨m, cur, h⟩

theorem inv_finish {s : St} {m : Nat} {cur : Option (Nat × Nat × Nat)} (h : Inv s m cur) (i : Nat) :
    ∃ m' cur', Inv (step s (.finish i)) m' cur' := by
  simp only [step]
  split
  · rename_i st l k j r heq
    split
    · rename_i hjk
      subst hjk
      obtain ⟨hcur, him⟩ := lead_is_cur (h.ents i _ heq) rfl
      subst hcur
      obtain ⟨hikm, hk1, _⟩ := h.shape i j j rfl
      have hlead := h.ents i _ heq
      unfold Expect at hlead
      rw [if_neg (by omega)] at hlead
      dsimp only at hlead
      rw [if_neg (by omega), if_pos rfl] at hlead
      obtain ⟨_, hl, hr, hst⟩ := hlead
      rw [if_pos (by omega)] at hst
      obtain ⟨w, hw, hs⟩ := hst
      try dsimp only at hs
      subst hs
      try dsimp only
      have hilt : i < s.ents.length := (List.getElem?_eq_some_iff.mp heq).1
      refine ⟨m, none, h.log, by simp only [List.length_set]; exact h.le, h.nopanic, rfl,
        (by intro _ _ _ hc; cases hc), ?_⟩
      intro idx e he
      dsimp only at he ⊢
      unfold Expect
      by_cases hx : idx = i
      · subst hx
        rw [List.getElem?_set_self hilt] at he
        simp only [Option.some.injEq] at he
        subst he
        rw [if_neg (by omega)]
        exact ⟨rfl, w, hw, rfl, Or.inr ⟨rfl, rfl⟩⟩
      · rw [List.getElem?_set_ne (Ne.symm hx)] at he
        have hexo := h.ents idx e he
        unfold Expect at hexo
        by_cases hm : m ≤ idx
        · rw [if_pos hm] at hexo ⊢; exact hexo
        · rw [if_neg hm] at hexo ⊢
          dsimp only at hexo ⊢
          by_cases hlt : idx < i
          · rw [if_pos hlt] at hexo; exact hexo
          · rw [if_neg hlt, if_neg hx, if_pos (by omega)] at hexo; exact hexo
    · exact ⟨m, cur, h⟩
  · exact ⟨m, cur, h⟩

/-! ### every reachable state -/

theorem inv_step {s : St} {m : Nat} {cur : Option (Nat × Nat × Nat)} (h : Inv s m cur) (ev : Ev) :
    ∃ m' cur', Inv (step s ev) m' cur' := by
  cases ev with
  | link => exact ⟨m, cur, inv_link h⟩
  | observe i => exact ⟨m, cur, inv_observe h i⟩
  | lead i k => exact inv_lead h i k
  | deliver i v => exact inv_deliver h i v
  | finish i => exact inv_finish h i

theorem inv_run : ∀ (evs : List Ev) (s : St) (m : Nat) (cur : Option (Nat × Nat × Nat)),
    Inv s m cur → ∃ m' cur', Inv (evs.foldl step s) m' cur'
  | [], s, m, cur, h => ⟨m, cur, h⟩
  | ev :: evs, s, m, cur, h => by
    obtain ⟨m', cur', h'⟩ := inv_step h ev
    exact inv_run evs _ m' cur' h'

/-- **C18** exactly once, in order — with the core's answers arbitrary -/
theorem core_sees_inputs_once_in_order (evs : List Ev) :
    ∃ m, (evs.foldl step init).log = List.range m := by
  obtain ⟨m, cur, h⟩ := inv_run evs init 0 none inv_init
  exact ⟨m, h.log⟩

/-- **C18** own result: what a call returned is what the core produced for that caller's index -/
theorem own_result (evs : List Ev) (i : Nat) (e : Ent) (o : Nat)
    (he : (evs.foldl step init).ents[i]? = some e) (hr : e.ret = some o) :
    look (evs.foldl step init).prod i = some o := by
  obtain ⟨m, cur, h⟩ := inv_run evs init 0 none inv_init
  have hex := h.ents i e he
  unfold Expect at hex
  have hdone : ∀ {e : Ent}, Done (evs.foldl step init).prod e i → e.ret = some o →
      look (evs.foldl step init).prod i = some o := by
    intro e hd hr
    obtain ⟨_, v, hv, _, hcase⟩ := hd
    rcases hcase with ⟨_, h2⟩ | ⟨_, h2⟩
    · rw [h2] at hr; cases hr
    · rw [h2] at hr; simp only [Option.some.injEq] at hr; rw [← hr]; exact hv
  by_cases hm : m ≤ i
  · rw [if_pos hm] at hex; rw [hex] at hr; cases hr
  · rw [if_neg hm] at hex
    cases cur with
    | none => exact hdone hex hr
    | some c =>
      obtain ⟨i0, k, j⟩ := c
      dsimp only at hex
      split at hex
      · exact hdone hex hr
      · split at hex
        · rw [hex.2.2.1] at hr; cases hr
        · split at hex
          · exact hdone hex hr
          · rw [hex] at hr; cases hr

theorem never_panics (evs : List Ev) : (evs.foldl step init).panicked = false := by
  obtain ⟨m, cur, h⟩ := inv_run evs init 0 none inv_init
  exact h.nopanic

/-- non-vacuity: a core that answers both members of a batch with the same value (as the log's
    write core does) and the lone third caller with another -/
example :
    let s := [Ev.link, .link, .link, .lead 0 2, .deliver 0 77, .deliver 0 77, .observe 1, .finish 0,
              .lead 2 1, .deliver 2 99, .finish 2].foldl step init
    s.log = [0, 1, 2] ∧ s.ents.map (·.ret) = [some 77, some 77, some 99] ∧ s.doingWork = false := by
  decide

end Blue.WcqV

#print axioms Blue.WcqV.core_sees_inputs_once_in_order
#print axioms Blue.WcqV.own_result
#print axioms Blue.WcqV.never_panics
