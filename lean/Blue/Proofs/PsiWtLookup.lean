import Blue.Proofs.PsiWtCells
/-! `WaveletTreePsi::lookup` returns ψ: the ψ-side counting facts (ψ maps a symbol's column, in
    order, onto the positions of the symbol in the ψ-ordered symbol string), where a rank's cell is,
    and the `select_q` in the cell's row. -/
namespace Blue.PsiWt
open Blue.BitVec Blue.Sampled Blue.WaveletRef Outcome

/-- what `construct` establishes (`Blue.PsiWt.construct_eq`): `ipsi` inverts ψ, the rows tile the
    ψ-ordered symbol string -/
structure Built (syms psi ipsi : List Nat) (table : List Ctx) : Prop where
  good : Good syms psi
  ilen : ipsi.length = psi.length
  inv : ∀ i, i < psi.length → ipsi.getD (psi.getD i 0) 0 = i
  rows : Rows table
  flat : (table.map (·.tree)).flatten = bwt syms ipsi

/-! ### ψ and the symbol string -/

/-- counting ψ values is counting ranks -/
theorem Good.transfer {syms psi : List Nat} (h : Good syms psi) (q : Nat → Bool) :
    (List.range psi.length).countP q = (List.range psi.length).countP (fun i => q (psi.getD i 0)) := by
  rw [← h.perm.countP_eq q, countP_as_range psi q]

theorem bwt_length (syms ipsi : List Nat) : (bwt syms ipsi).length = ipsi.length := by
  simp [bwt]

theorem bwt_getD (syms ipsi : List Nat) (v : Nat) (hv : v < ipsi.length) :
    (bwt syms ipsi).getD v 0 = syms.getD (ipsi.getD v 0) 0 := by
  unfold bwt
  rw [List.getD_eq_getElem?_getD, List.getElem?_map, List.getElem?_eq_getElem hv,
    List.getD_eq_getElem?_getD (l := ipsi), List.getElem?_eq_getElem hv]
  rfl

section
variable {syms psi ipsi : List Nat} {table : List Ctx}

/-- the symbol at ψ value `psi[i]` is the first symbol of rank `i` -/
theorem Built.bwt_psi (b : Built syms psi ipsi table) (i : Nat) (hi : i < psi.length) :
    (bwt syms ipsi).getD (psi.getD i 0) 0 = syms.getD i 0 := by
  rw [bwt_getD syms ipsi _ (by rw [b.ilen]; exact b.good.psi_lt i hi), b.inv i hi]

/-- occurrences of `σ` among the ψ values below `x` = ranks of column `σ` whose ψ is below `x` -/
theorem Built.count_bwt_take (b : Built syms psi ipsi table) (σ x : Nat) :
    ((bwt syms ipsi).take x).count σ
      = (List.range psi.length).countP
          (fun i => decide (syms.getD i 0 = σ) && decide (psi.getD i 0 < x)) := by
  rw [count_take_range, bwt_length, b.ilen,
    b.good.transfer (fun v => decide ((bwt syms ipsi).getD v 0 = σ) && decide (v < x))]
  apply List.countP_congr
  intro i hi
  rw [b.bwt_psi i (List.mem_range.mp hi)]

theorem count_syms_take (b : Built syms psi ipsi table) (σ x : Nat) :
    (syms.take x).count σ
      = (List.range psi.length).countP (fun i => decide (syms.getD i 0 = σ) && decide (i < x)) := by
  rw [count_take_range, b.good.len]

/-- ψ is the order isomorphism between a column and the positions of its symbol -/
theorem Built.star (b : Built syms psi ipsi table) (i : Nat) (hi : i < psi.length) :
    ((bwt syms ipsi).take (psi.getD i 0)).count (syms.getD i 0) = (syms.take i).count (syms.getD i 0) := by
  rw [b.count_bwt_take, count_syms_take b]
  apply List.countP_congr
  intro i' hi'
  have hi'n := List.mem_range.mp hi'
  simp only [Bool.and_eq_true, decide_eq_true_eq]
  constructor
  · rintro ⟨h1, h2⟩
    refine ⟨h1, ?_⟩
    rcases Nat.lt_or_ge i' i with hlt | hge
    · exact hlt
    · exfalso
      rcases Nat.eq_or_lt_of_le hge with heq | hgt
      · rw [heq] at h2; exact Nat.lt_irrefl _ h2
      · have := b.good.inc i i' hgt hi'n h1.symm
        omega
  · rintro ⟨h1, h2⟩
    exact ⟨h1, b.good.inc i' i h2 hi h1⟩

/-- the symbol string has as many of everything as `syms` -/
theorem Built.countP_bwt (b : Built syms psi ipsi table) (p : Nat → Bool) :
    (bwt syms ipsi).countP p = syms.countP p := by
  rw [countP_as_range (bwt syms ipsi) p, countP_as_range syms p, bwt_length, b.ilen, b.good.len,
    b.good.transfer (fun v => p ((bwt syms ipsi).getD v 0))]
  apply List.countP_congr
  intro i hi
  rw [b.bwt_psi i (List.mem_range.mp hi)]

end

/-! ### columns of a non-decreasing symbol list -/

theorem countP_lt_add_count (σ : Nat) : ∀ (l : List Nat), (∀ x ∈ l, x ≤ σ) →
    l.countP (fun x => decide (x < σ)) + l.count σ = l.length
  | [], _ => rfl
  | a :: t, h => by
    have ih := countP_lt_add_count σ t (fun x hx => h x (List.mem_cons_of_mem _ hx))
    have ha := h a List.mem_cons_self
    rw [List.countP_cons, List.count_cons, List.length_cons]
    by_cases h1 : a < σ
    · have : ¬ a = σ := by omega
      simp [h1, this]; omega
    · have : a = σ := by omega
      simp [this]; omega

theorem getD_le_of_pairwise (syms : List Nat) (hm : syms.Pairwise (· ≤ ·)) (i j : Nat) (hij : i ≤ j)
    (hj : j < syms.length) : syms.getD i 0 ≤ syms.getD j 0 := by
  rw [List.getD_eq_getElem?_getD, List.getD_eq_getElem?_getD, List.getElem?_eq_getElem (by omega),
    List.getElem?_eq_getElem hj]
  rcases Nat.eq_or_lt_of_le hij with h | h
  · subst h; exact Nat.le_refl _
  · exact (List.pairwise_iff_getElem.mp hm) i j (by omega) hj h

/-- a rank is the start of its symbol's column plus its offset in the column -/
theorem mono_split (syms : List Nat) (hm : syms.Pairwise (· ≤ ·)) (i : Nat) (hi : i < syms.length) :
    syms.countP (fun x => decide (x < syms.getD i 0)) + (syms.take i).count (syms.getD i 0) = i := by
  have h1 : ∀ x ∈ syms.take i, x ≤ syms.getD i 0 := by
    intro x hx
    obtain ⟨k, hk, rfl⟩ := List.getElem_of_mem hx
    rw [List.getElem_take]
    rw [List.length_take] at hk
    have := getD_le_of_pairwise syms hm k i (by omega) hi
    rw [List.getD_eq_getElem?_getD (i := k), List.getElem?_eq_getElem (by omega)] at this
    exact this
  have h2 : (syms.drop i).countP (fun x => decide (x < syms.getD i 0)) = 0 := by
    rw [List.countP_eq_zero]
    intro x hx
    obtain ⟨k, hk, rfl⟩ := List.getElem_of_mem hx
    rw [List.getElem_drop]
    rw [List.length_drop] at hk
    have := getD_le_of_pairwise syms hm i (i + k) (by omega) (by omega)
    rw [List.getD_eq_getElem?_getD (i := i + k), List.getElem?_eq_getElem (by omega), Option.getD_some] at this
    simp only [decide_eq_true_eq]
    omega
  have h3 := countP_lt_add_count (syms.getD i 0) (syms.take i) h1
  have h4 : syms.countP (fun x => decide (x < syms.getD i 0))
      = (syms.take i).countP (fun x => decide (x < syms.getD i 0))
        + (syms.drop i).countP (fun x => decide (x < syms.getD i 0)) := by
    rw [← List.countP_append, List.take_append_drop]
  rw [List.length_take] at h3
  omega

/-! ### the fields of the built structure -/

section
variable {syms psi ipsi : List Nat} {table : List Ctx}

theorem Built.trees_length (b : Built syms psi ipsi table) :
    ((table.map (·.tree)).flatten).length = psi.length := by
  rw [b.flat, bwt_length, b.ilen]

theorem Built.sym_lt (b : Built syms psi ipsi table) :
    ∀ x ∈ (table.map (·.tree)).flatten, x < kOf syms := by
  intro x hx
  rw [b.flat] at hx
  unfold bwt at hx
  obtain ⟨ip, hip, rfl⟩ := List.mem_map.mp hx
  -- an entry of `syms`, or the default `0`
  rw [List.getD_eq_getElem?_getD]
  by_cases h : ip < syms.length
  · rw [List.getElem?_eq_getElem h]
    exact lt_kOf syms _ (List.getElem_mem h)
  · rw [List.getElem?_eq_none (by omega)]
    unfold kOf; simp

/-- the total of the cell counts is `n` -/
theorem Built.total (b : Built syms psi ipsi table) :
    (((cellsSpec (kOf syms) table).flatten).map (·.2)).sum = psi.length := by
  rw [cellsSpec_total _ _ b.sym_lt, b.trees_length]

theorem Built.flat_ne (b : Built syms psi ipsi table) : (cellsSpec (kOf syms) table).flatten ≠ [] := by
  intro h
  have := b.total
  rw [h] at this
  have := b.good.pos
  simp at *
  omega

theorem Built.ykey_eq (b : Built syms psi ipsi table) :
    (ofTable (kOf syms) table).ykey = ykeyOf (cellsSpec (kOf syms) table).flatten := by
  unfold ofTable ykeyOf
  simp only
  rw [yArrays_fst _ b.flat_ne (cellsSpec_pos _ _)]

theorem ofTable_yvalue (k : Nat) (table : List Ctx) :
    (ofTable k table).yvalue = (cellsSpec k table).flatten.map (·.1) := by
  unfold ofTable
  simp only
  rw [yArrays_snd]

theorem ofTable_table (k : Nat) (table : List Ctx) : (ofTable k table).table = table := rfl

/-- row `j` starts where the trees before it end -/
theorem Built.start_eq (b : Built syms psi ipsi table) (j : Nat) (c : Ctx) (h : table[j]? = some c) :
    c.start = pre (table.map (·.tree)) j := by
  have hj : j < table.length := by
    rcases Nat.lt_or_ge j table.length with h' | h'
    · exact h'
    · rw [List.getElem?_eq_none h'] at h; cases h
  rw [List.getElem?_eq_getElem hj] at h
  have := b.rows.2 j hj
  rw [Option.some.inj h] at this
  rw [this]; unfold pre; rw [List.map_take]

/-- the cell of rank `idx`: its number `k`, its row `c = table[j]`, the offset `x` of `psi[idx]` in the
    row -/
theorem Built.cell_of_rank (b : Built syms psi ipsi table) (idx : Nat) (hi : idx < psi.length) :
    ∃ k j c x, (cellsSpec (kOf syms) table).flatten[k]? = some (j, c.tree.count (syms.getD idx 0))
      ∧ table[j]? = some c
      ∧ psi.getD idx 0 = c.start + x ∧ c.tree[x]? = some (syms.getD idx 0)
      ∧ idx = sumTake (cellsSpec (kOf syms) table).flatten k + (c.tree.take x).count (syms.getD idx 0) := by
  have hv := b.good.psi_lt idx hi
  have hσ : syms.getD idx 0 < kOf syms := by
    rw [List.getD_eq_getElem?_getD, List.getElem?_eq_getElem (by rw [b.good.len]; exact hi)]
    exact lt_kOf syms _ (List.getElem_mem _)
  -- the row of `psi[idx]`
  obtain ⟨j, hj, hj1, hj2⟩ := exists_row (table.map (·.tree)) (psi.getD idx 0) (by rw [b.trees_length]; exact hv)
  have hjt : j < table.length := by simpa using hj
  have hc : table[j]? = some table[j] := List.getElem?_eq_getElem hjt
  have hstart := b.start_eq j table[j] hc
  have htree : (table.map (·.tree))[j] = table[j].tree := by simp
  rw [pre_succ _ j hj, htree] at hj2
  have hx : psi.getD idx 0 - pre (table.map (·.tree)) j < table[j].tree.length := by omega
  have hvx : psi.getD idx 0 = pre (table.map (·.tree)) j + (psi.getD idx 0 - pre (table.map (·.tree)) j) := by
    omega
  -- the symbol there
  have hsym : table[j].tree[psi.getD idx 0 - pre (table.map (·.tree)) j]? = some (syms.getD idx 0) := by
    have h1 := getElem?_pre_add (table.map (·.tree)) j _ hj (by rw [htree]; exact hx)
    rw [htree, ← hvx, b.flat] at h1
    rw [← h1, List.getElem?_eq_getElem (by rw [bwt_length, b.ilen]; exact hv)]
    have h2 := b.bwt_psi idx hi
    rw [List.getD_eq_getElem?_getD, List.getElem?_eq_getElem (by rw [bwt_length, b.ilen]; exact hv)] at h2
    exact congrArg some h2
  have hpos : 0 < table[j].tree.count (syms.getD idx 0) := by
    rw [List.count_pos_iff]
    exact List.mem_of_getElem? hsym
  -- its cell
  have hmem := rowCellsFrom_mem (syms.getD idx 0) table 0 j table[j] hc hpos
  rw [Nat.zero_add] at hmem
  obtain ⟨t, ht, hget⟩ := List.getElem_of_mem hmem
  obtain ⟨c', _, hc'1, _, hc'3⟩ := rowCellsFrom_getElem (syms.getD idx 0) table 0 t ht
  rw [hget] at hc'1 hc'3
  simp only [Nat.sub_zero] at hc'1 hc'3
  obtain ⟨_, hs2, hs3⟩ := cells_of_symbol (kOf syms) table (syms.getD idx 0) hσ t (by omega)
  refine ⟨pre (cellsSpec (kOf syms) table) (syms.getD idx 0) + t, j, table[j],
    psi.getD idx 0 - pre (table.map (·.tree)) j, ?_, hc, ?_, hsym, ?_⟩
  · rw [hs3 ht, hget]
  · rw [hstart]; exact hvx
  · rw [hs2, hc'3, List.map_take, ← take_pre, b.flat, b.countP_bwt]
    have h1 := b.star idx hi
    have h2 := mono_split syms b.good.mono idx (by rw [b.good.len]; exact hi)
    have h3 := count_take_pre_add (table.map (·.tree)) (syms.getD idx 0) j
      (psi.getD idx 0 - pre (table.map (·.tree)) j) hj (by rw [htree]; omega)
    rw [← hvx, b.flat, htree] at h3
    omega

/-- **C19** `lookup(idx)` is `psi[idx]` -/
theorem Built.lookup_eq (b : Built syms psi ipsi table) (idx : Nat) (hi : idx < psi.length) :
    lookupO syms (ofTable (kOf syms) table) idx = .ok (psi.getD idx 0) := by
  obtain ⟨k, j, c, x, hk, hc, hv, hsym, hidx⟩ := b.cell_of_rank idx hi
  have hp := cellsSpec_pos (kOf syms) table
  have hkl : k < (cellsSpec (kOf syms) table).flatten.length := by
    rcases Nat.lt_or_ge k (cellsSpec (kOf syms) table).flatten.length with h | h
    · exact h
    · rw [List.getElem?_eq_none h] at hk; cases hk
  have hx : x < c.tree.length := by
    rcases Nat.lt_or_ge x c.tree.length with h | h
    · exact h
    · rw [List.getElem?_eq_none h] at hsym; cases hsym
  have hcnt : (c.tree.take x).count (syms.getD idx 0) < c.tree.count (syms.getD idx 0) := by
    have h1 := count_take_succ_of c.tree _ x hsym
    have h2 := count_take_le c.tree (syms.getD idx 0) (x + 1)
    omega
  have hsucc := sumTake_succ _ k hkl
  rw [List.getElem?_eq_getElem hkl] at hk
  rw [Option.some.inj hk] at hsucc
  simp only at hsucc
  have hrank : rank (ofTable (kOf syms) table).ykey idx = some k := by
    rw [b.ykey_eq]
    exact rank_ykey _ hp k idx hkl (by omega) (by omega)
  have hyv : (ofTable (kOf syms) table).yvalue[k]? = some j := by
    rw [ofTable_yvalue, List.getElem?_map, List.getElem?_eq_getElem hkl, Option.some.inj hk]; rfl
  have hsel : select (ofTable (kOf syms) table).ykey k = some (sumTake (cellsSpec (kOf syms) table).flatten k) := by
    rw [b.ykey_eq]
    exact select_ykey _ hp k (by omega)
  have hsy : syms[idx]? = some (syms.getD idx 0) := by
    rw [List.getD_eq_getElem?_getD, List.getElem?_eq_getElem (by rw [b.good.len]; exact hi)]; rfl
  have hlk : ctxLookup c (syms.getD idx 0) (idx - sumTake (cellsSpec (kOf syms) table).flatten k)
      = some (psi.getD idx 0) := by
    have e : idx - sumTake (cellsSpec (kOf syms) table).flatten k = (c.tree.take x).count (syms.getD idx 0) := by
      omega
    unfold ctxLookup
    rw [e, if_neg (by have := count_take_le c.tree (syms.getD idx 0) x
                      have : (c.tree.take x).count (syms.getD idx 0) ≤ (c.tree.take x).length := List.count_le_length
                      rw [List.length_take] at this
                      omega)]
    rw [selectQ_of_pos c.tree _ _ x hsym rfl]
    simp only
    rw [hv]; rfl
  unfold lookupO
  rw [hrank]
  simp only [Outcome.orErr, Outcome.orPanic, Bind.bind, Outcome.bind, hyv, hsel, hsy, ofTable_table, hc]
  rw [if_neg (by omega), hlk]

/-- `lookup(len)` indexes `y_value` one past its end -/
theorem Built.lookup_len (b : Built syms psi ipsi table) :
    lookupO syms (ofTable (kOf syms) table) psi.length = .panic := by
  have hrank : rank (ofTable (kOf syms) table).ykey psi.length
      = some (cellsSpec (kOf syms) table).flatten.length := by
    rw [b.ykey_eq]
    have := rank_ykey_len _ (cellsSpec_pos (kOf syms) table)
    rw [b.total] at this
    exact this
  have hyv : (ofTable (kOf syms) table).yvalue[(cellsSpec (kOf syms) table).flatten.length]? = none := by
    rw [ofTable_yvalue]
    exact List.getElem?_eq_none (by rw [List.length_map]; exact Nat.le_refl _)
  unfold lookupO
  rw [hrank]
  simp only [Outcome.orErr, Outcome.orPanic, Bind.bind, Outcome.bind, hyv]

/-- beyond `len`, `Err(BadRank)` -/
theorem Built.lookup_beyond (b : Built syms psi ipsi table) (idx : Nat) (h : psi.length < idx) :
    lookupO syms (ofTable (kOf syms) table) idx = .err := by
  have hrank : rank (ofTable (kOf syms) table).ykey idx = none := by
    rw [b.ykey_eq]
    exact rank_ykey_none _ idx (by rw [b.total]; exact h)
  unfold lookupO
  rw [hrank]
  simp only [Outcome.orErr, Bind.bind, Outcome.bind]

end

end Blue.PsiWt
