import Blue.Proofs.VerifySound
/-! **C04** rejection at the level of file CONTENTS: in a fragment the verifier accepts, change what
    is stored under ONE name (the manifest and every other file stay as they are) so that the entries
    no longer sum to the name — the verifier stops with "sst contents do not match the setsum that
    names it" at the first edit (other than the fragment's first) that adds or removes that name:
    an ingest, a compaction, a garbage collection (`verify_contents` runs before `verify_gc`).
    One entry dropped, added, duplicated under another timestamp, or given another value or
    timestamp changes the sum exactly when the item hash does not collide (`h x ≠ 0`, `h x' ≠ h x`). -/
namespace Blue.VerifyOne
open Blue.Books
open Blue.Mani (Edit)
open Blue.Verifier (Name getInfo)
open Blue.Compact (Entry)

variable {G : Type} [DecidableEq G]

/-- the same directory with other file contents -/
def withFs (env : Env G) (fs' : G → Option File) : Env G := { env with fs := fs' }

/-- the edit names the file `s` -/
def Mentions (env : Env G) (e : Edit) (s : G) : Prop := ∃ x ∈ e.add ++ e.rm, env.parse x = some s

theorem parseAll_mem (env : Env G) : ∀ (names : List Name) (ss : List G), parseAll env names = some ss →
    ∀ s, s ∈ ss ↔ ∃ x ∈ names, env.parse x = some s
  | [], ss, h, s => by
    simp only [parseAll, Option.some.injEq] at h
    subst h; simp
  | x :: t, ss, h, s => by
    simp only [parseAll] at h
    cases hp : env.parse x with
    | none => rw [hp] at h; cases h
    | some s0 =>
      cases hq : parseAll env t with
      | none => rw [hp, hq] at h; cases h
      | some ss' =>
        rw [hp, hq] at h
        simp only [Option.some.injEq] at h
        subst h
        have ih := parseAll_mem env t ss' hq s
        simp only [List.mem_cons, ih]
        constructor
        · rintro (rfl | ⟨y, hy, hys⟩)
          · exact ⟨x, Or.inl rfl, hp⟩
          · exact ⟨y, Or.inr hy, hys⟩
        · rintro ⟨y, rfl | hy, hys⟩
          · left; rw [hp] at hys; injection hys with hys; exact hys.symm
          · right; exact ⟨y, hy, hys⟩

section Congr
variable (env : Env G) (fs' : G → Option File) (s : G) (hoff : ∀ x, x ≠ s → fs' x = env.fs x)
include hoff

theorem verifyContents_congr (s0 : G) (hne : s0 ≠ s) :
    verifyContents (withFs env fs') s0 = verifyContents env s0 := by
  unfold verifyContents withFs
  simp only [hoff s0 hne]

theorem scan_congr (first : Bool) : ∀ (names : List Name), (∀ x ∈ names, env.parse x ≠ some s) →
    scan (withFs env fs') first names = scan env first names
  | [], _ => rfl
  | x :: t, hn => by
    have ih := scan_congr first t (fun y hy => hn y (List.mem_cons_of_mem _ hy))
    simp only [scan]
    show (match env.parse x with
      | none => _
      | some s0 => _) = _
    cases hp : env.parse x with
    | none => rfl
    | some s0 =>
      have hne : s0 ≠ s := fun h => hn x List.mem_cons_self (by rw [hp, h])
      simp only [verifyContents_congr env fs' s hoff s0 hne, ih]

theorem readAll_congr : ∀ (ss : List G), s ∉ ss → readAll (withFs env fs') ss = readAll env ss
  | [], _ => rfl
  | s0 :: t, hn => by
    have hne : s0 ≠ s := fun h => hn (by rw [h]; exact List.mem_cons_self)
    have ih := readAll_congr t (fun h => hn (List.mem_cons_of_mem _ h))
    simp only [readAll, ih]
    show (match fs' s0 with
      | none => _
      | some f => _) = _
    rw [hoff s0 hne]
    rfl

theorem verifyGc_congr (rms adds : List G) (D : G) (h1 : s ∉ rms) (h2 : s ∉ adds) :
    verifyGc (withFs env fs') rms adds D = verifyGc env rms adds D := by
  unfold verifyGc
  rw [readAll_congr env fs' s hoff rms h1, readAll_congr env fs' s hoff adds h2]
  rfl

theorem finishEdit_congr (e : Edit) (acc D : G) (adds rms : List G) (h1 : s ∉ rms) (h2 : s ∉ adds) :
    finishEdit (withFs env fs') e acc D adds rms = finishEdit env e acc D adds rms := by
  unfold finishEdit
  rw [verifyGc_congr env fs' s hoff rms adds D h1 h2]
  rfl

/-- an edit that does not name the file is checked as before -/
theorem verifyEdit_congr (first : Bool) (acc : G) (e : Edit) (hn : ¬ Mentions env e s) :
    verifyEdit (withFs env fs') first acc e = verifyEdit env first acc e := by
  have hadd : ∀ x ∈ e.add, env.parse x ≠ some s := fun x hx hp => hn ⟨x, List.mem_append_left _ hx, hp⟩
  have hrm : ∀ x ∈ e.rm, env.parse x ≠ some s := fun x hx hp => hn ⟨x, List.mem_append_right _ hx, hp⟩
  unfold verifyEdit
  show (match info env e 73 with
    | .error f => _
    | .ok I => _) = _
  cases info env e 73 with
  | error f => rfl
  | ok I =>
    simp only
    show (match info env e 79 with
      | .error f => _
      | .ok O => _) = _
    cases info env e 79 with
    | error f => rfl
    | ok O =>
      simp only
      show (match info env e 68 with
        | .error f => _
        | .ok D => _) = _
      cases info env e 68 with
      | error f => rfl
      | ok D =>
        simp only
        rw [scan_congr env fs' s hoff first e.add hadd, scan_congr env fs' s hoff first e.rm hrm]
        cases ha : scan env first e.add with
        | error f => rfl
        | ok adds =>
          cases hr : scan env first e.rm with
          | error f => rfl
          | ok rms =>
            simp only
            cases first with
            | true => rfl
            | false =>
              have pa := ((scan_ok env _ _).mp ha).1
              have pr := ((scan_ok env _ _).mp hr).1
              have n1 : s ∉ rms := fun h => by
                obtain ⟨x, hx, hp⟩ := (parseAll_mem env _ _ pr s).mp h
                exact hrm x hx hp
              have n2 : s ∉ adds := fun h => by
                obtain ⟨x, hx, hp⟩ := (parseAll_mem env _ _ pa s).mp h
                exact hadd x hx hp
              rw [finishEdit_congr env fs' s hoff e acc D adds rms n1 n2]
              rfl

/-- the first edit of a fragment reads no file -/
theorem verifyEdit_first_congr (acc : G) (e : Edit) :
    verifyEdit (withFs env fs') true acc e = verifyEdit env true acc e := by
  have hs : ∀ names, scan (withFs env fs') true names = scan env true names := by
    intro names
    induction names with
    | nil => rfl
    | cons x t ih =>
      simp only [scan, if_true, ih]
      rfl
  unfold verifyEdit
  simp only [hs]
  rfl

end Congr

section Tamper
variable (env : Env G) (fs' : G → Option File) (s : G) (hoff : ∀ x, x ≠ s → fs' x = env.fs x)
  (f' : File) (hf' : fs' s = some f') (hsum : setsumOf env.ops env.h f' ≠ s)
include hoff hf' hsum

theorem verifyContents_tamper : verifyContents (withFs env fs') s = .error .contents := by
  unfold verifyContents withFs
  simp only [hf']
  rw [if_neg hsum]

theorem scan_tamper : ∀ (names : List Name) (ss : List G), scan env false names = .ok ss →
    (∃ x ∈ names, env.parse x = some s) → scan (withFs env fs') false names = .error .contents
  | [], _, _, ⟨x, hx, _⟩ => by cases hx
  | x :: t, ss, hok, hm => by
    simp only [scan] at hok ⊢
    show (match env.parse x with
      | none => _
      | some s0 => _) = _
    cases hp : env.parse x with
    | none => rw [hp] at hok; cases hok
    | some s0 =>
      rw [hp] at hok
      simp only [Bool.false_eq_true, if_false] at hok ⊢
      by_cases hs0 : s0 = s
      · subst hs0
        rw [verifyContents_tamper env fs' s0 hoff f' hf' hsum]
      · rw [verifyContents_congr env fs' s hoff s0 hs0]
        cases hv : verifyContents env s0 with
        | error f => rw [hv] at hok; cases hok
        | ok u =>
          rw [hv] at hok
          simp only at hok ⊢
          cases hr : scan env false t with
          | error f => rw [hr] at hok; cases hok
          | ok ss' =>
            have hm' : ∃ y ∈ t, env.parse y = some s := by
              obtain ⟨y, hy, hys⟩ := hm
              rcases List.mem_cons.mp hy with rfl | hy
              · rw [hp] at hys; injection hys with hys; exact absurd hys hs0
              · exact ⟨y, hy, hys⟩
            rw [scan_tamper t ss' hr hm']

/-- an accepted edit that names the file now fails the contents check -/
theorem verifyEdit_tamper (acc : G) (e : Edit) (r : G × G) (hok : verifyEdit env false acc e = .ok r)
    (hm : Mentions env e s) : verifyEdit (withFs env fs') false acc e = .error .contents := by
  obtain ⟨a', o⟩ := r
  obtain ⟨D, adds, rms, h1, h2, h3, h4, h5, h6, _⟩ := (verifyEdit_ok env acc e a' o).mp hok
  unfold verifyEdit
  show (match info env e 73 with
    | .error f => _
    | .ok I => _) = _
  rw [h1]
  simp only
  show (match info env e 79 with
    | .error f => _
    | .ok O => _) = _
  rw [h2]
  simp only
  show (match info env e 68 with
    | .error f => _
    | .ok D => _) = _
  rw [h3]
  simp only [Bool.false_and, Bool.false_eq_true, if_false, Bool.not_false, Bool.true_and, decide_eq_true_eq,
    ne_eq, not_true_eq_false]
  have hb : acc = (withFs env fs').ops.add o D := h4
  rw [if_neg (fun hh => hh hb)]
  obtain ⟨x, hx, hp⟩ := hm
  by_cases hin : ∃ y ∈ e.add, env.parse y = some s
  · rw [scan_tamper env fs' s hoff f' hf' hsum e.add adds h5 hin]
  · have hadd : ∀ y ∈ e.add, env.parse y ≠ some s := fun y hy hq => hin ⟨y, hy, hq⟩
    rw [scan_congr env fs' s hoff false e.add hadd, h5]
    simp only
    have hrm : ∃ y ∈ e.rm, env.parse y = some s := by
      rcases List.mem_append.mp hx with h | h
      · exact absurd hp (hadd x h)
      · exact ⟨x, h, hp⟩
    rw [scan_tamper env fs' s hoff f' hf' hsum e.rm rms h6 hrm]

theorem verifyEdits_tamper : ∀ (es : List Edit) (acc : G) (last : Option G) (r : G × Option G),
    verifyEdits env false acc last es = .ok r → (∃ e ∈ es, Mentions env e s) →
    verifyEdits (withFs env fs') false acc last es = .error .contents
  | [], _, _, _, _, ⟨e, he, _⟩ => by cases he
  | e :: t, acc, last, r, hok, hm => by
    simp only [verifyEdits] at hok ⊢
    cases hv : verifyEdit env false acc e with
    | error f => rw [hv] at hok; cases hok
    | ok r1 =>
      rw [hv] at hok
      simp only at hok
      by_cases hme : Mentions env e s
      · rw [verifyEdit_tamper env fs' s hoff f' hf' hsum acc e r1 hv hme]
      · rw [verifyEdit_congr env fs' s hoff false acc e hme, hv]
        simp only
        have hm' : ∃ e' ∈ t, Mentions env e' s := by
          obtain ⟨e', he', hme'⟩ := hm
          rcases List.mem_cons.mp he' with rfl | he'
          · exact absurd hme' hme
          · exact ⟨e', he', hme'⟩
        exact verifyEdits_tamper t r1.1 (some r1.2) r hok hm'

/-- **C04** `content_tamper_rejected`: a fragment the verifier accepts is rejected — with the
    contents error — once the file under one name that an edit other than the first adds or removes
    holds entries that do not sum to the name -/
theorem content_tamper_rejected (acc : G) (es : List Edit) (acc' : G)
    (hok : verifyFragment env acc es = .ok acc') (hm : ∃ e ∈ es.drop 1, Mentions env e s) :
    verifyFragment (withFs env fs') acc es = .error .contents := by
  unfold verifyFragment at hok ⊢
  cases es with
  | nil => obtain ⟨e, he, _⟩ := hm; cases he
  | cons e0 rest =>
    simp only [verifyEdits] at hok ⊢
    rw [verifyEdit_first_congr env fs' s hoff acc e0]
    cases hv : verifyEdit env true acc e0 with
    | error f => rw [hv] at hok; cases hok
    | ok r1 =>
      rw [hv] at hok
      simp only at hok ⊢
      cases hr : verifyEdits env false r1.1 (some r1.2) rest with
      | error f => rw [hr] at hok; cases hok
      | ok r =>
        rw [verifyEdits_tamper env fs' s hoff f' hf' hsum rest r1.1 (some r1.2) r hr (by simpa using hm)]

end Tamper

/-! ### one entry -/
section OneEntry
variable (g : Grp G) (h : Entry → G)

theorem total_middle (a b : List Entry) (x : Entry) :
    total g h (a ++ x :: b) = g.add (h x) (total g h (a ++ b)) := by
  rw [total_perm g h (List.perm_middle (a := x) (l₁ := a) (l₂ := b)), total_cons]

/-- dropping an entry changes the sum unless the entry hashes to zero -/
theorem sum_dropped (a b : List Entry) (x : Entry) (hx : h x ≠ g.zero) :
    total g h (a ++ b) ≠ total g h (a ++ x :: b) := by
  rw [total_middle]
  intro heq
  apply hx
  have : g.add g.zero (total g h (a ++ b)) = g.add (h x) (total g h (a ++ b)) := by rw [zero_add]; exact heq
  exact (add_right_cancel g this).symm

/-- replacing an entry changes the sum unless the two hash alike -/
theorem sum_replaced (a b : List Entry) (x x' : Entry) (hx : h x' ≠ h x) :
    total g h (a ++ x' :: b) ≠ total g h (a ++ x :: b) := by
  rw [total_middle, total_middle]
  intro heq
  exact hx (add_right_cancel g heq)

end OneEntry

section Entries
variable (g : Grp G) (env : Env G) (he : env.ops = opsOf g) (fs' : G → Option File) (s : G)
  (hoff : ∀ x, x ≠ s → fs' x = env.fs x) (acc : G) (es : List Edit) (acc' : G)
  (hok : verifyFragment env acc es = .ok acc') (hm : ∃ e ∈ es.drop 1, Mentions env e s)
include he hoff hok hm

/-- in an accepted fragment a named file sums to its name -/
theorem mentioned_sums (f : File) (hf : env.fs s = some f) : total g env.h f = s := by
  obtain ⟨e0, rest, rfl, _, ht⟩ := verifyFragment_sound g env he acc es acc' hok
  obtain ⟨e, hein, x, hx, hp⟩ := hm
  simp only [List.drop_succ_cons, List.drop_zero] at hein
  obtain ⟨a1, o, D, adds, rms, _, _, _, pa, pr, _, _, hc, _⟩ := Threaded.facts g ht e hein
  have hs : s ∈ adds ++ rms := by
    rcases List.mem_append.mp hx with h | h
    · exact List.mem_append_left _ ((parseAll_mem env _ _ pa s).mpr ⟨x, h, hp⟩)
    · exact List.mem_append_right _ ((parseAll_mem env _ _ pr s).mpr ⟨x, h, hp⟩)
  obtain ⟨f0, hf0, hs0⟩ := hc s hs
  rw [hf] at hf0; injection hf0 with hf0; subst hf0; exact hs0

/-- **one entry dropped** from a file that an ingest, a compaction or a garbage collection of the
    fragment adds or removes: rejected, provided the entry does not hash to zero -/
theorem entry_dropped_rejected (a b : List Entry) (x : Entry) (hf : env.fs s = some (a ++ x :: b))
    (hf' : fs' s = some (a ++ b)) (hx : env.h x ≠ g.zero) :
    verifyFragment (withFs env fs') acc es = .error .contents := by
  have hs := mentioned_sums g env he fs' s hoff acc es acc' hok hm _ hf
  apply content_tamper_rejected env fs' s hoff (a ++ b) hf' _ acc es acc' hok hm
  rw [he, setsumOf_eq, ← hs]
  exact sum_dropped g env.h a b x hx

/-- **one entry added** (`x` anywhere in the file) -/
theorem entry_added_rejected (a b : List Entry) (x : Entry) (hf : env.fs s = some (a ++ b))
    (hf' : fs' s = some (a ++ x :: b)) (hx : env.h x ≠ g.zero) :
    verifyFragment (withFs env fs') acc es = .error .contents := by
  have hs := mentioned_sums g env he fs' s hoff acc es acc' hok hm _ hf
  apply content_tamper_rejected env fs' s hoff (a ++ x :: b) hf' _ acc es acc' hok hm
  rw [he, setsumOf_eq, ← hs]
  exact fun h => sum_dropped g env.h a b x hx h.symm

/-- **one entry duplicated**: `x` is followed by a copy of itself, under the same or under another
    timestamp `t` -/
theorem entry_duplicated_rejected (a b : List Entry) (x : Entry) (t : Nat)
    (hf : env.fs s = some (a ++ x :: b)) (hf' : fs' s = some (a ++ x :: { x with ts := t } :: b))
    (hx : env.h { x with ts := t } ≠ g.zero) :
    verifyFragment (withFs env fs') acc es = .error .contents := by
  have hf2 : env.fs s = some ((a ++ [x]) ++ b) := by rw [hf]; simp
  have hf2' : fs' s = some ((a ++ [x]) ++ { x with ts := t } :: b) := by rw [hf']; simp
  exact entry_added_rejected g env he fs' s hoff acc es acc' hok hm (a ++ [x]) b _ hf2 hf2' hx

/-- **one entry altered** — another value, another timestamp, a tombstone for a value — rejected,
    provided the two entries do not hash alike -/
theorem entry_altered_rejected (a b : List Entry) (x x' : Entry) (hf : env.fs s = some (a ++ x :: b))
    (hf' : fs' s = some (a ++ x' :: b)) (hx : env.h x' ≠ env.h x) :
    verifyFragment (withFs env fs') acc es = .error .contents := by
  have hs := mentioned_sums g env he fs' s hoff acc es acc' hok hm _ hf
  apply content_tamper_rejected env fs' s hoff (a ++ x' :: b) hf' _ acc es acc' hok hm
  rw [he, setsumOf_eq, ← hs]
  exact sum_replaced g env.h a b x x' hx

/-- **the value of one entry altered** -/
theorem entry_value_altered_rejected (a b : List Entry) (x : Entry) (v : Option (List Nat))
    (hf : env.fs s = some (a ++ x :: b)) (hf' : fs' s = some (a ++ { x with val := v } :: b))
    (hx : env.h { x with val := v } ≠ env.h x) :
    verifyFragment (withFs env fs') acc es = .error .contents :=
  entry_altered_rejected g env he fs' s hoff acc es acc' hok hm a b x _ hf hf' hx

end Entries

end Blue.VerifyOne

#print axioms Blue.VerifyOne.content_tamper_rejected
#print axioms Blue.VerifyOne.entry_dropped_rejected
#print axioms Blue.VerifyOne.entry_value_altered_rejected
