import Blue.Model.FlushReq
/-! **C20** the flush-request hand-off (`Blue.FlushReq`).

* `inv_step` / `inv_run`: on every schedule the flush thread is not asleep while a flush is
  requested (`flush_sleeper_has_no_request`): the request notifies under the mutex under which the
  thread tests;
* `request_served_in_one_step`: a request made while the flush thread is not flushing is served by
  the thread's next step (bounded progress, bound 1);
* `request_during_flush_is_forgotten`: a request made while the flush thread is flushing is
  overwritten by the thread's last critical section (`state.imm_trigger = imm_trigger`, an
  assignment of the local value): the thread then goes to sleep on a full memtable;
* `forgotten_request_is_reissued`: the next write asks again and is served. -/
namespace Blue.FlushReq

structure Inv (s : St) : Prop where
  seq : s.memSeqNo < s.seqNo
  trig : s.immTrigger ≤ s.memSeqNo
  asleep : s.flush = .asleep → s.immTrigger < s.memSeqNo
  flushing : ∀ t, s.flush = .flushing t → t < s.memSeqNo ∧ s.imm = true

theorem inv_init (n : Nat) : Inv (init n) :=
  ⟨Nat.lt_succ_self _, Nat.zero_le _, (fun h => by cases h), (fun t h => by cases h)⟩

theorem inv_step {s : St} (h : Inv s) (ev : Ev) : Inv (step s ev) := by
  obtain ⟨h1, h2, h3, h4⟩ := h
  cases ev with
  | write =>
    simp only [step]
    split
    · refine ⟨by simp only []; omega, by simp only []; omega, ?_, ?_⟩
      · intro hf
        simp only [] at hf
        split at hf
        · cases hf
        · rename_i hne; exact absurd hf hne
      · intro t hf
        simp only [] at hf ⊢
        split at hf
        · cases hf
        · exact h4 t hf
    · exact ⟨by simp only []; omega, h2, h3, h4⟩
  | grow => exact ⟨h1, h2, h3, h4⟩
  | flushCheck =>
    simp only [step]
    split
    · split
      · rename_i hlt
        exact ⟨h1, h2, (fun _ => hlt), (fun t hf => by cases hf)⟩
      · refine ⟨by simp only []; omega, by simp only []; omega, (fun hf => by cases hf), ?_⟩
        intro t hf
        simp only [FPc.flushing.injEq] at hf
        subst hf
        exact ⟨h1, rfl⟩
    · exact ⟨h1, h2, h3, h4⟩
  | flushDone =>
    simp only [step]
    split
    · rename_i trig hf
      have := (h4 trig hf).1
      exact ⟨h1, by simp only []; omega, (fun hf => by cases hf), (fun t hf => by cases hf)⟩
    · exact ⟨h1, h2, h3, h4⟩
  | spur =>
    simp only [step]
    split
    · exact ⟨h1, h2, (fun hf => by cases hf), (fun t hf => by cases hf)⟩
    · exact ⟨h1, h2, h3, h4⟩

theorem inv_run {s : St} (h : Inv s) (evs : List Ev) : Inv (run s evs) := by
  induction evs generalizing s with
  | nil => exact h
  | cons ev r ih => exact ih (inv_step h ev)

theorem invB_of_inv {s : St} (h : Inv s) : invB s = true := by
  obtain ⟨h1, h2, h3, h4⟩ := h
  simp only [invB, Bool.and_eq_true, decide_eq_true_eq]
  refine ⟨⟨h1, h2⟩, ?_⟩
  cases hf : s.flush with
  | check => rfl
  | asleep => simpa using h3 hf
  | flushing t => simpa using h4 t hf

/-- on every schedule from a fresh store: while a flush is requested the flush thread is not
    asleep on `cnd_needs_memtable_flush` -/
theorem flush_sleeper_has_no_request (n : Nat) (evs : List Ev) (hreq : requested (run (init n) evs) = true) :
    (run (init n) evs).flush ≠ .asleep := by
  intro hf
  have := (inv_run (inv_init n) evs).asleep hf
  simp only [requested, decide_eq_true_eq] at hreq
  omega

/-- a write that finds the memtable full while the flush thread is not flushing is served by the
    flush thread's next step: it rotates (bounded progress, one flush-thread step; the writer itself
    waits for nothing) -/
theorem request_served_in_one_step {s : St} (h : Inv s) (hfull : s.memFull = true)
    (hnf : ∀ t, s.flush ≠ .flushing t) :
    let s' := step (step s .write) .flushCheck
    s'.rotations = s.rotations + 1 ∧ s'.imm = true ∧ s'.memFull = false ∧ s'.flush = .flushing s.memSeqNo := by
  obtain ⟨h1, h2, h3, h4⟩ := h
  have hmax : max s.immTrigger s.memSeqNo = s.memSeqNo := Nat.max_eq_right h2
  cases hf : s.flush with
  | check => simp [step, hfull, hf, hmax]
  | asleep => simp [step, hfull, hf, hmax]
  | flushing t => exact absurd hf (hnf t)

/-- a request made while the flush thread is flushing is forgotten: the thread's last critical
    section assigns its local `imm_trigger`, and its next test sends it to sleep — on a memtable
    that is full, with `imm_trigger < mem_seq_no` -/
theorem request_during_flush_is_forgotten {s : St} (h : Inv s) (hfull : s.memFull = true) (t : Nat)
    (hf : s.flush = .flushing t) :
    let s1 := step s .write
    let s3 := step (step s1 .flushDone) .flushCheck
    requested s1 = true ∧ s3.flush = .asleep ∧ s3.memFull = true ∧ requested s3 = false
      ∧ s3.rotations = s.rotations := by
  obtain ⟨h1, h2, h3, h4⟩ := h
  have ht := (h4 t hf).1
  have hne : ¬ (s.flush = .asleep) := by rw [hf]; intro hh; cases hh
  simp [step, hfull, hf, requested, ht]
  omega

/-- … until the next write, which asks again and wakes the thread; its next step rotates -/
theorem forgotten_request_is_reissued {s : St} (h : Inv s) (hfull : s.memFull = true)
    (hf : s.flush = .asleep) :
    let s' := step (step s .write) .flushCheck
    s'.rotations = s.rotations + 1 ∧ s'.memFull = false :=
  let r := request_served_in_one_step h hfull (fun t ht => by rw [hf] at ht; cases ht)
  ⟨r.1, r.2.2.1⟩

/-- closed run: fresh store, the memtable fills, a write requests, the thread rotates; the new
    memtable fills during the flush, a write requests again; the flush ends, the thread goes to
    sleep with the request forgotten; the next write wakes it and it rotates -/
theorem forgotten_request_example :
    let s := run (init 7) [.grow, .write, .flushCheck, .grow, .write, .flushDone, .flushCheck]
    s.flush = .asleep ∧ s.memFull = true ∧ s.rotations = 1
      ∧ (run s [.write, .flushCheck]).rotations = 2 := by
  decide

end Blue.FlushReq
