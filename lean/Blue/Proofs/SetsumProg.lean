import Blue.Proofs.Setsum
import Blue.Proofs.SetsumDigest
import Blue.Proofs.SetsumGrp
/-! # C14: the laws in the other direction, closure over `remove` / `from_hexdigest`, and order
    independence of *mixed* programs of insert / remove / add / subtract.

`group_laws` alone does not give these: `invertState` of a canonical state with a zero column is
not canonical (`invert_not_canonical`), so associativity cannot be applied to the inverted state
directly.  The route is `sub_eq_add_neg`: on canonical values the code's subtraction is addition of
the (canonical) group inverse `negState`. -/
namespace Blue.Setsum

/-! ## add after sub, insert after remove -/
theorem addCol_add_after_sub {p a b : Nat} (hp : GoodPrime p) (ha : a < p) (hb : b < p) :
    addCol p (addCol p a (p - b)) b = a := by
  unfold addCol GoodPrime U32 at *; simp only
  split <;> split <;> omega

/-- addition undoes subtraction (and the subtraction never underflows) -/
theorem sub_add_cancel {a b : State} (ha : Canonical a) (hb : Canonical b) :
    (sub a b).map (fun c => add c b) = some a := by
  unfold sub; rw [invertState_canonical hb]
  simp only [Option.map_some, Option.some.injEq]
  apply Vector.ext; intro i h; unfold add
  simp only [addState_get, Vector.getElem_ofFn]
  exact addCol_add_after_sub (primes_good' i h) (ha i h) (hb i h)

/-- inserting an item undoes removing it (and the removal never underflows), whether or not the
    item was ever inserted -/
theorem insert_remove {s : State} {w : Vector Nat 8} (hs : Canonical s) (hw : Words w) :
    (remove s w).map (fun c => insert c w) = some s :=
  sub_add_cancel hs (canonical_hash hw)

/-- `remove` never underflows on a canonical value and stays canonical -/
theorem canonical_remove {s : State} {w : Vector Nat 8} (hs : Canonical s) (hw : Words w) :
    ∃ c, remove s w = some c ∧ Canonical c := sub_canonical hs (canonical_hash hw)

/-- why `group_laws` does not give the two theorems above: the state `invert_state` returns for a
    canonical value with a zero column is not canonical -/
theorem invert_not_canonical : ∃ s, Canonical s ∧ ∃ t, invertState s = some t ∧ ¬ Canonical t :=
  ⟨zero, canonical_zero, _, rfl, fun h => by have := h 0 (by omega); revert this; decide⟩

/-! ## `from_hexdigest` yields canonical values on every input -/
theorem digitVal_lt {c : Char} {n : Nat} (h : digitVal c = some n) : n < 16 := by
  unfold digitVal at h
  split at h <;> first | (cases h; omega) | cases h

theorem parsePair_lt {a b : Char} {n : Nat} (h : parsePair a b = some n) : n < 256 := by
  unfold parsePair at h
  split at h
  · have := digitVal_lt h; omega
  · split at h
    · next x y hx hy =>
      cases h
      have := digitVal_lt hx; have := digitVal_lt hy; omega
    · cases h

theorem parsePairs_bytes : ∀ (cs : List Char) (d : List Nat), parsePairs cs = some d → Bytes d
  | [], d, h => by
    simp only [parsePairs, Option.some.injEq] at h; subst h; intro b hb; cases hb
  | [_], d, h => by simp [parsePairs] at h
  | a :: b :: rest, d, h => by
    simp only [parsePairs] at h
    split at h
    · next x xs hx hxs =>
      cases h
      intro y hy
      rcases List.mem_cons.mp hy with rfl | hy
      · exact parsePair_lt hx
      · exact parsePairs_bytes rest xs hxs y hy
    · cases h

/-- every string `from_hexdigest` accepts names a canonical value -/
theorem fromHexdigest_canonical {cs : List Char} {s : State} (h : fromHexdigest cs = some s) :
    Canonical s := by
  unfold fromHexdigest at h
  split at h
  · cases hp : parsePairs cs with
    | none => rw [hp] at h; cases h
    | some d =>
      rw [hp] at h
      exact fromDigest_canonical (parsePairs_bytes cs d hp) h
  · cases h

/-! ## mixed programs -/
/-- one call of the mutating API, the item already hashed to its eight words -/
inductive Op where
  | ins (w : Vector Nat 8)
  | rem (w : Vector Nat 8)
  | addS (t : State)
  | subS (t : State)
  deriving DecidableEq

/-- operands as the API can supply them: hashes are eight `u32` words, setsums are canonical -/
def Op.Ok : Op → Prop
  | .ins w => Words w
  | .rem w => Words w
  | .addS t => Canonical t
  | .subS t => Canonical t

/-- what the code does (`none` = arithmetic underflow in `invert_state`) -/
def step (s : State) : Op → Option State
  | .ins w => some (insert s w)
  | .rem w => remove s w
  | .addS t => some (add s t)
  | .subS t => sub s t

/-- a program: the calls in order, stopping at the first underflow -/
def run : State → List Op → Option State
  | s, [] => some s
  | s, o :: os => (step s o).bind (fun s' => run s' os)

/-- the group element a call adds (spec side: no `invert_state`, no `Option`) -/
def delta : Op → State
  | .ins w => hashToState w
  | .rem w => negState (hashToState w)
  | .addS t => t
  | .subS t => negState t

theorem canonical_delta {o : Op} (h : o.Ok) : Canonical (delta o) := by
  cases o with
  | ins w => exact canonical_hash h
  | rem w => exact canonical_neg (canonical_hash h)
  | addS t => exact h
  | subS t => exact canonical_neg h

theorem step_eq {s : State} {o : Op} (hs : Canonical s) (h : o.Ok) :
    step s o = some (add s (delta o)) := by
  cases o with
  | ins w => rfl
  | rem w => exact sub_eq_add_neg hs (canonical_hash h)
  | addS t => rfl
  | subS t => exact sub_eq_add_neg hs h

/-- a program never underflows; it is the left fold of group additions -/
theorem run_eq_foldl : ∀ (os : List Op) {s : State}, Canonical s → (∀ o ∈ os, o.Ok) →
    run s os = some (os.foldl (fun z o => add z (delta o)) s)
  | [], _, _, _ => rfl
  | o :: os, s, hs, hok => by
    have ho := hok o (List.mem_cons_self ..)
    simp only [run, step_eq hs ho, Option.bind_some, List.foldl_cons]
    exact run_eq_foldl os (canonical_add hs (canonical_delta ho))
      (fun x hx => hok x (List.mem_cons_of_mem _ hx))

theorem canonical_foldl_delta : ∀ (os : List Op) {s : State}, Canonical s → (∀ o ∈ os, o.Ok) →
    Canonical (os.foldl (fun z o => add z (delta o)) s)
  | [], _, hs, _ => hs
  | o :: os, _, hs, hok => by
    simp only [List.foldl_cons]
    exact canonical_foldl_delta os (canonical_add hs (canonical_delta (hok o (List.mem_cons_self ..))))
      (fun x hx => hok x (List.mem_cons_of_mem _ hx))

/-- no order of insert / remove / add / subtract underflows, and the result is canonical -/
theorem run_total {os : List Op} {s : State} (hs : Canonical s) (hok : ∀ o ∈ os, o.Ok) :
    ∃ c, run s os = some c ∧ Canonical c :=
  ⟨_, run_eq_foldl os hs hok, canonical_foldl_delta os hs hok⟩

/-- **C14** the result of a program of insert / remove / add / subtract calls does not depend on
    the order of the calls -/
theorem run_perm {xs ys : List Op} {s : State} (hs : Canonical s) (hok : ∀ o ∈ xs, o.Ok)
    (p : xs.Perm ys) : run s xs = run s ys := by
  rw [run_eq_foldl xs hs hok, run_eq_foldl ys hs (fun o ho => hok o (p.symm.subset ho))]
  congr 1
  exact perm_foldl_inv (Inv := Canonical) (P := Op.Ok)
    (fun z x hz hx => canonical_add hz (canonical_delta hx))
    (fun z x y hz hx hy => add_right_comm hz (canonical_delta hx) (canonical_delta hy))
    p hok s hs

/-- the net effect of a program: the sum of its group elements -/
def net (os : List Op) : State := os.foldl (fun z o => add z (delta o)) zero

theorem zero_add {a : State} (ha : Canonical a) : add zero a = a := by
  rw [add_comm]; exact add_zero ha

theorem foldl_delta_add : ∀ (os : List Op) {s t : State}, Canonical s → Canonical t →
    (∀ o ∈ os, o.Ok) →
    os.foldl (fun z o => add z (delta o)) (add s t) = add s (os.foldl (fun z o => add z (delta o)) t)
  | [], _, _, _, _, _ => rfl
  | o :: os, s, t, hs, ht, hok => by
    have hd := canonical_delta (hok o (List.mem_cons_self ..))
    simp only [List.foldl_cons]
    rw [add_assoc hs ht hd]
    exact foldl_delta_add os hs (canonical_add ht hd) (fun x hx => hok x (List.mem_cons_of_mem _ hx))

theorem canonical_net {os : List Op} (hok : ∀ o ∈ os, o.Ok) : Canonical (net os) :=
  canonical_foldl_delta os canonical_zero hok

/-- a program adds its net effect to the value it starts from -/
theorem run_eq_add_net {os : List Op} {s : State} (hs : Canonical s) (hok : ∀ o ∈ os, o.Ok) :
    run s os = some (add s (net os)) := by
  rw [run_eq_foldl os hs hok]
  have := foldl_delta_add os hs canonical_zero hok
  rw [add_zero hs] at this
  rw [this]; rfl

theorem net_append {xs ys : List Op} (hx : ∀ o ∈ xs, o.Ok) (hy : ∀ o ∈ ys, o.Ok) :
    net (xs ++ ys) = add (net xs) (net ys) := by
  unfold net
  rw [List.foldl_append]
  have h1 := canonical_foldl_delta xs canonical_zero hx
  have := foldl_delta_add ys h1 canonical_zero hy
  rw [add_zero h1] at this
  exact this

theorem net_perm {xs ys : List Op} (hok : ∀ o ∈ xs, o.Ok) (p : xs.Perm ys) : net xs = net ys := by
  have h1 := run_eq_add_net canonical_zero hok
  have h2 := run_eq_add_net canonical_zero (fun o ho => hok o (p.symm.subset ho))
  rw [run_perm canonical_zero hok p, h2, zero_add (canonical_net hok),
    zero_add (canonical_net (fun o ho => hok o (p.symm.subset ho)))] at h1
  exact (Option.some.inj h1).symm

theorem ok_map_ins {xs : List (Vector Nat 8)} (h : ∀ w ∈ xs, Words w) : ∀ o ∈ xs.map Op.ins, o.Ok := by
  intro o ho
  obtain ⟨w, hw, rfl⟩ := List.mem_map.mp ho
  exact h w hw

theorem ok_map_rem {xs : List (Vector Nat 8)} (h : ∀ w ∈ xs, Words w) : ∀ o ∈ xs.map Op.rem, o.Ok := by
  intro o ho
  obtain ⟨w, hw, rfl⟩ := List.mem_map.mp ho
  exact h w hw

theorem ok_append {xs ys : List Op} (hx : ∀ o ∈ xs, o.Ok) (hy : ∀ o ∈ ys, o.Ok) :
    ∀ o ∈ xs ++ ys, o.Ok := by
  intro o ho
  rcases List.mem_append.mp ho with h | h
  · exact hx o h
  · exact hy o h

/-- inserting a list of items is `ofItems` -/
theorem net_ins (xs : List (Vector Nat 8)) : net (xs.map Op.ins) = ofItems xs := by
  unfold net ofItems
  rw [List.foldl_map]
  rfl

/-- inserting and removing the same items, all inserts first: nothing remains -/
theorem net_ins_rem : ∀ (ys : List (Vector Nat 8)), (∀ w ∈ ys, Words w) →
    net (ys.map Op.ins ++ ys.map Op.rem) = zero
  | [], _ => rfl
  | y :: ys, h => by
    have hy := h y (List.mem_cons_self ..)
    have hys : ∀ w ∈ ys, Words w := fun w hw => h w (List.mem_cons_of_mem _ hw)
    have hpair : ∀ o ∈ [Op.ins y, Op.rem y], o.Ok := by
      intro o ho
      simp only [List.mem_cons, List.not_mem_nil, or_false] at ho
      rcases ho with rfl | rfl <;> exact hy
    have hrest := ok_append (ok_map_ins hys) (ok_map_rem hys)
    have p : ((y :: ys).map Op.ins ++ (y :: ys).map Op.rem).Perm
        ([Op.ins y, Op.rem y] ++ (ys.map Op.ins ++ ys.map Op.rem)) := by
      simp only [List.map_cons, List.cons_append, List.nil_append]
      exact (List.Perm.cons _ List.perm_middle)
    rw [net_perm (ok_append (ok_map_ins h) (ok_map_rem h)) p, net_append hpair hrest,
      net_ins_rem ys hys, add_zero (canonical_net hpair)]
    have hh := canonical_hash hy
    show add (add zero (hashToState y)) (negState (hashToState y)) = zero
    rw [zero_add hh, add_neg hh]

/-- **C14** a mixed program is the setsum of the multiset difference: whatever the order of the
    calls, if the program inserts the items `xs` and removes the items `ys`, and `xs` is `ys`
    together with `zs` (as multisets), the value is the setsum of `zs`; no prefix of any order
    underflows (`run` would be `none`), also not one that removes an item before it is inserted -/
theorem run_ins_rem {prog : List Op} {xs ys zs : List (Vector Nat 8)}
    (hx : ∀ w ∈ xs, Words w) (hp : prog.Perm (xs.map Op.ins ++ ys.map Op.rem))
    (hm : xs.Perm (ys ++ zs)) : run zero prog = some (ofItems zs) := by
  have hyz : ∀ w ∈ ys ++ zs, Words w := fun w hw => hx w (hm.symm.subset hw)
  have hy : ∀ w ∈ ys, Words w := fun w hw => hyz w (List.mem_append_left _ hw)
  have hz : ∀ w ∈ zs, Words w := fun w hw => hyz w (List.mem_append_right _ hw)
  have hok2 := ok_append (ok_map_ins hx) (ok_map_rem hy)
  have hok : ∀ o ∈ prog, o.Ok := fun o ho => hok2 o (hp.subset ho)
  have p2 : (xs.map Op.ins ++ ys.map Op.rem).Perm
      (zs.map Op.ins ++ (ys.map Op.ins ++ ys.map Op.rem)) := by
    have h1 : (xs.map Op.ins).Perm (ys.map Op.ins ++ zs.map Op.ins) := by
      rw [← List.map_append]; exact hm.map _
    have h2 := (h1.trans List.perm_append_comm).append_right (ys.map Op.rem)
    rw [List.append_assoc] at h2
    exact h2
  rw [run_eq_add_net canonical_zero hok, zero_add (canonical_net hok), net_perm hok hp,
    net_perm hok2 p2, net_append (ok_map_ins hz) (ok_append (ok_map_ins hy) (ok_map_rem hy)),
    net_ins_rem ys hy, add_zero (canonical_net (ok_map_ins hz)), net_ins]

end Blue.Setsum
