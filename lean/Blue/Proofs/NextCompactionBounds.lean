import Blue.Model.NextCompaction
/-! **C01** what the loops of `compute_bounds` establish, for the function model
    `Blue.NextCompaction`: the `while !fixed_point` loop ends at a fixed point within its fuel
    (`fixBounds_fixed`, no assumption on the level), and on a level sorted by key (I1) the slice
    `[lower_bound, upper_bound)` is exactly the set of files that meet the level's key range and
    lies inside it (`fixed_slice`).  `boundsLoop_spec` threads this through the levels: the ranges
    widen with depth. -/
namespace Blue.NextCompaction

/-- I1 for one level: sorted by key, ranges at most touching -/
def SortedLevel (l : List File) : Prop := l.Pairwise (fun a b => a.last ≤ b.first)

def WfLevel (l : List File) : Prop := ∀ f ∈ l, f.first ≤ f.last

/-! ## `partition_point` as the length of a prefix -/

theorem takeWhile_idx {α : Type} (p : α → Bool) : ∀ (l : List α),
    l.Pairwise (fun x y => p y = true → p x = true) →
    ∀ (i : Nat) (h : i < l.length), (p l[i] = true ↔ i < (l.takeWhile p).length)
  | [], _, i, h => by cases h
  | x :: xs, hp, i, h => by
    rw [List.pairwise_cons] at hp
    by_cases hx : p x = true
    · rw [List.takeWhile_cons_of_pos hx]
      cases i with
      | zero => simp [hx]
      | succ i =>
        have h' : i < xs.length := by simpa using h
        have := takeWhile_idx p xs hp.2 i h'
        simp only [List.getElem_cons_succ, List.length_cons]
        rw [this]; omega
    · rw [List.takeWhile_cons_of_neg hx]
      cases i with
      | zero => simp [hx]
      | succ i =>
        have h' : i < xs.length := by simpa using h
        simp only [List.getElem_cons_succ, List.length_nil, Nat.not_lt_zero, iff_false]
        intro hc
        exact hx (hp.1 _ (List.getElem_mem h') hc)

theorem lb_idx {l : List File} (hs : SortedLevel l) (hw : WfLevel l) (a : Nat) (i : Nat) (h : i < l.length) :
    l[i].last < a ↔ i < lowerBound l a := by
  have hp : l.Pairwise (fun x y => decide (y.last < a) = true → decide (x.last < a) = true) := by
    refine hs.imp_of_mem ?_
    intro x y _ hy hxy hya
    have := hw y hy
    simp only [decide_eq_true_eq] at hya ⊢
    omega
  have := takeWhile_idx (fun x => decide (x.last < a)) l hp i h
  simpa [lowerBound] using this

theorem ub_idx {l : List File} (hs : SortedLevel l) (hw : WfLevel l) (b : Nat) (i : Nat) (h : i < l.length) :
    l[i].first ≤ b ↔ i < upperBound l b := by
  have hp : l.Pairwise (fun x y => decide (y.first ≤ b) = true → decide (x.first ≤ b) = true) := by
    refine hs.imp_of_mem ?_
    intro x y hx _ hxy hyb
    have := hw x hx
    simp only [decide_eq_true_eq] at hyb ⊢
    omega
  have := takeWhile_idx (fun x => decide (x.first ≤ b)) l hp i h
  simpa [upperBound] using this

theorem lowerBound_le (l : List File) (a : Nat) : lowerBound l a ≤ l.length := by unfold lowerBound; exact (List.takeWhile_sublist _).length_le
theorem upperBound_le (l : List File) (a : Nat) : upperBound l a ≤ l.length := by unfold upperBound; exact (List.takeWhile_sublist _).length_le

/-- membership in `ssts[lo..hi]` -/
theorem mem_sliceFiles {l : List File} {s : Slice} {g : File} :
    g ∈ sliceFiles l s ↔ ∃ i, s.lo ≤ i ∧ i < s.hi ∧ l[i]? = some g := by
  unfold sliceFiles
  rw [List.mem_iff_getElem?]
  constructor
  · rintro ⟨j, hj⟩
    rw [List.getElem?_take] at hj
    split at hj
    · rw [List.getElem?_drop] at hj
      exact ⟨s.lo + j, by omega, by omega, hj⟩
    · cases hj
  · rintro ⟨i, h1, h2, h3⟩
    refine ⟨i - s.lo, ?_⟩
    rw [List.getElem?_take, if_pos (by omega), List.getElem?_drop]
    have : s.lo + (i - s.lo) = i := by omega
    rw [this]; exact h3

theorem sliceFiles_sub {l : List File} {s : Slice} {g : File} (h : g ∈ sliceFiles l s) : g ∈ l := by
  obtain ⟨i, _, _, h3⟩ := mem_sliceFiles.mp h
  exact List.mem_of_getElem? h3

/-! ## the fixed-point loop -/

theorem growFirst_le (lvl : List File) (lo first : Nat) : growFirst lvl lo first ≤ first := by
  unfold growFirst
  split
  · split <;> omega
  · omega

theorem growLast_ge (lvl : List File) (lo hi last : Nat) : last ≤ growLast lvl lo hi last := by
  unfold growLast
  split
  · split
    · split <;> omega
    · omega
  · omega

theorem fixBounds_zero (lvl : List File) (first last lo hi : Nat) :
    fixBounds lvl 0 first last lo hi = ⟨lo, hi, first, last⟩ := rfl

theorem fixBounds_succ (lvl : List File) (fuel first last lo hi : Nat) :
    fixBounds lvl (fuel + 1) first last lo hi =
      if (growFirst lvl lo first == first && growLast lvl lo hi last == last
          && lowerBound lvl (growFirst lvl lo first) == lo && upperBound lvl (growLast lvl lo hi last) == hi) = true
      then ⟨lowerBound lvl (growFirst lvl lo first), upperBound lvl (growLast lvl lo hi last),
            growFirst lvl lo first, growLast lvl lo hi last⟩
      else fixBounds lvl fuel (growFirst lvl lo first) (growLast lvl lo hi last)
        (lowerBound lvl (growFirst lvl lo first)) (upperBound lvl (growLast lvl lo hi last)) := rfl

theorem countP_lt {α : Type} (p q : α → Bool) : ∀ (l : List α),
    (∀ x ∈ l, p x = true → q x = true) → (∃ x ∈ l, q x = true ∧ p x = false) →
    l.countP p < l.countP q
  | [], _, ⟨_, hx, _⟩ => by cases hx
  | y :: ys, hpq, ⟨x, hx, hq, hp⟩ => by
    have hle : ys.countP p ≤ ys.countP q :=
      List.countP_mono_left (fun z hz => hpq z (List.mem_cons_of_mem _ hz))
    rw [List.countP_cons, List.countP_cons]
    rcases List.mem_cons.mp hx with rfl | hx'
    · simp only [hq, hp, if_true]
      simp; omega
    · have := countP_lt p q ys (fun z hz => hpq z (List.mem_cons_of_mem _ hz)) ⟨x, hx', hq, hp⟩
      by_cases hpy : p y = true
      · have := hpq y List.mem_cons_self hpy
        simp [hpy, this]; omega
      · by_cases hqy : q y = true
        · simp [hpy, hqy]; omega
        · simp [hpy, hqy]; omega

/-- the measure of the loop: files that start before the range plus files that end after it -/
def mu (lvl : List File) (first last : Nat) : Nat :=
  lvl.countP (fun x => decide (x.first < first)) + lvl.countP (fun x => decide (last < x.last))

theorem mu_le (lvl : List File) (first last : Nat) : mu lvl first last ≤ 2 * lvl.length := by
  unfold mu
  have h1 := List.countP_le_length (p := fun x : File => decide (x.first < first)) (l := lvl)
  have h2 := List.countP_le_length (p := fun x : File => decide (last < x.last)) (l := lvl)
  omega

theorem countFirst_mono (lvl : List File) {a b : Nat} (h : a ≤ b) :
    lvl.countP (fun x => decide (x.first < a)) ≤ lvl.countP (fun x => decide (x.first < b)) :=
  List.countP_mono_left (fun x _ hx => by simp only [decide_eq_true_eq] at hx ⊢; omega)

theorem countLast_mono (lvl : List File) {a b : Nat} (h : a ≤ b) :
    lvl.countP (fun x => decide (b < x.last)) ≤ lvl.countP (fun x => decide (a < x.last)) :=
  List.countP_mono_left (fun x _ hx => by simp only [decide_eq_true_eq] at hx ⊢; omega)

theorem growFirst_cases (lvl : List File) (lo first : Nat) :
    growFirst lvl lo first = first ∨ ∃ f ∈ lvl, f.first < first ∧ growFirst lvl lo first = f.first := by
  unfold growFirst
  cases hg : lvl[lo]? with
  | none => exact Or.inl rfl
  | some f =>
    by_cases hf : f.first < first
    · exact Or.inr ⟨f, List.mem_of_getElem? hg, hf, by simp [hf]⟩
    · exact Or.inl (by simp [hf])

theorem growLast_cases (lvl : List File) (lo hi last : Nat) :
    growLast lvl lo hi last = last ∨ ∃ f ∈ lvl, last < f.last ∧ growLast lvl lo hi last = f.last := by
  unfold growLast
  by_cases hlh : lo < hi
  · rw [if_pos hlh]
    cases hg : lvl[hi - 1]? with
    | none => exact Or.inl rfl
    | some f =>
      by_cases hf : last < f.last
      · exact Or.inr ⟨f, List.mem_of_getElem? hg, hf, by simp [hf]⟩
      · exact Or.inl (by simp [hf])
  · rw [if_neg hlh]; exact Or.inl rfl

theorem growFirst_count (lvl : List File) (lo first : Nat) (h : growFirst lvl lo first ≠ first) :
    lvl.countP (fun x => decide (x.first < growFirst lvl lo first)) < lvl.countP (fun x => decide (x.first < first)) := by
  rcases growFirst_cases lvl lo first with h' | ⟨f, hf, hlt, heq⟩
  · exact absurd h' h
  · generalize growFirst lvl lo first = v at heq
    subst heq
    apply countP_lt
    · intro x _ hx; simp only [decide_eq_true_eq] at hx ⊢; omega
    · exact ⟨f, hf, by simpa using hlt, by simp⟩

theorem growLast_count (lvl : List File) (lo hi last : Nat) (h : growLast lvl lo hi last ≠ last) :
    lvl.countP (fun x => decide (growLast lvl lo hi last < x.last)) < lvl.countP (fun x => decide (last < x.last)) := by
  rcases growLast_cases lvl lo hi last with h' | ⟨f, hf, hlt, heq⟩
  · exact absurd h' h
  · generalize growLast lvl lo hi last = v at heq
    subst heq
    apply countP_lt
    · intro x _ hx; simp only [decide_eq_true_eq] at hx ⊢; omega
    · exact ⟨f, hf, by simpa using hlt, by simp⟩

/-- what the loop returns: a fixed point of the two growth steps, with the partition points of its
    own keys, wider than where it started -/
structure Fixed (lvl : List File) (first last : Nat) (s : Slice) : Prop where
  lo_eq : s.lo = lowerBound lvl s.first
  hi_eq : s.hi = upperBound lvl s.last
  first_le : s.first ≤ first
  last_ge : last ≤ s.last
  gf : growFirst lvl s.lo s.first = s.first
  gl : growLast lvl s.lo s.hi s.last = s.last

theorem fixBounds_fixed (lvl : List File) : ∀ (fuel first last lo hi : Nat),
    lo = lowerBound lvl first → hi = upperBound lvl last → mu lvl first last < fuel →
    ∀ f0 l0, first ≤ f0 → l0 ≤ last → Fixed lvl f0 l0 (fixBounds lvl fuel first last lo hi)
  | 0, _, _, _, _, _, _, hmu, _, _, _, _ => by cases hmu
  | fuel + 1, first, last, lo, hi, hlo, hhi, hmu, f0, l0, hf0, hl0 => by
    rw [fixBounds_succ]
    have hgf := growFirst_le lvl lo first
    have hgl := growLast_ge lvl lo hi last
    split
    · rename_i hfix
      simp only [Bool.and_eq_true, beq_iff_eq] at hfix
      obtain ⟨⟨⟨h1, h2⟩, h3⟩, h4⟩ := hfix
      refine ⟨rfl, rfl, by dsimp only; omega, by dsimp only; omega, ?_, ?_⟩
      · dsimp only; rw [h3, h1, h1]
      · dsimp only; rw [h3, h4, h2, h2]
    · rename_i hfix
      apply fixBounds_fixed lvl fuel _ _ _ _ rfl rfl ?_ f0 l0 (by omega) (by omega)
      -- a round that is not the last one moved a key
      have hmoved : growFirst lvl lo first ≠ first ∨ growLast lvl lo hi last ≠ last := by
        by_cases h1 : growFirst lvl lo first = first
        · by_cases h2 : growLast lvl lo hi last = last
          · exfalso; apply hfix
            simp only [Bool.and_eq_true, beq_iff_eq]
            rw [h1, h2]
            exact ⟨⟨⟨rfl, rfl⟩, hlo.symm⟩, hhi.symm⟩
          · exact Or.inr h2
        · exact Or.inl h1
      unfold mu at hmu ⊢
      have m1 := countFirst_mono lvl hgf
      have m2 := countLast_mono lvl hgl
      rcases hmoved with h | h
      · have := growFirst_count lvl lo first h; omega
      · have := growLast_count lvl lo hi last h; omega

theorem levelBounds_fixed (lvl : List File) (first last : Nat) : Fixed lvl first last (levelBounds lvl first last) := by
  unfold levelBounds
  apply fixBounds_fixed lvl _ _ _ _ _ rfl rfl ?_ first last (Nat.le_refl _) (Nat.le_refl _)
  have := mu_le lvl first last
  omega

/-- on a sorted level the slice of a fixed point is the set of files meeting its range, and every
    file of the slice lies inside the range (the two `assert!`s of `find_best_compaction`) -/
theorem fixed_slice {lvl : List File} (hs : SortedLevel lvl) (hw : WfLevel lvl) {f0 l0 : Nat} {s : Slice}
    (h : Fixed lvl f0 l0 s) :
    (∀ g ∈ lvl, (g ∈ sliceFiles lvl s ↔ (g.first ≤ s.last ∧ s.first ≤ g.last)))
    ∧ (∀ g ∈ sliceFiles lvl s, s.first ≤ g.first ∧ g.last ≤ s.last) := by
  have key : ∀ (i : Nat) (hi : i < lvl.length), (s.lo ≤ i ∧ i < s.hi) ↔ (lvl[i].first ≤ s.last ∧ s.first ≤ lvl[i].last) := by
    intro i hi
    have a := lb_idx hs hw s.first i hi
    have b := ub_idx hs hw s.last i hi
    rw [h.lo_eq, h.hi_eq]
    constructor
    · rintro ⟨h1, h2⟩
      exact ⟨b.mpr h2, by have := mt a.mp (by omega); omega⟩
    · rintro ⟨h1, h2⟩
      exact ⟨by have := mt a.mpr (by omega : ¬ lvl[i].last < s.first); omega, b.mp h1⟩
  constructor
  · intro g hg
    rw [mem_sliceFiles]
    constructor
    · rintro ⟨i, h1, h2, h3⟩
      obtain ⟨hi, rfl⟩ := List.getElem?_eq_some_iff.mp h3
      exact (key i hi).mp ⟨h1, h2⟩
    · intro hm
      obtain ⟨i, hi, rfl⟩ := List.getElem_of_mem hg
      have := (key i hi).mpr hm
      exact ⟨i, this.1, this.2, List.getElem?_eq_getElem hi⟩
  · intro g hg
    obtain ⟨i, h1, h2, h3⟩ := mem_sliceFiles.mp hg
    obtain ⟨hi, rfl⟩ := List.getElem?_eq_some_iff.mp h3
    have hpw := List.pairwise_iff_getElem.mp hs
    have hhi : s.hi ≤ lvl.length := by rw [h.hi_eq]; exact upperBound_le _ _
    constructor
    · -- the first file of the slice does not start before the range
      have hlo : s.lo < lvl.length := by omega
      have hgf := h.gf
      unfold growFirst at hgf
      rw [List.getElem?_eq_getElem hlo] at hgf
      simp only at hgf
      have h0 : s.first ≤ lvl[s.lo].first := by
        by_cases hc : lvl[s.lo].first < s.first
        · rw [if_pos hc] at hgf; omega
        · omega
      by_cases he : i = s.lo
      · subst he; exact h0
      · have := hpw s.lo i hlo hi (by omega)
        have := hw lvl[s.lo] (List.getElem_mem hlo)
        omega
    · have hlast : s.hi - 1 < lvl.length := by omega
      have hgl := h.gl
      unfold growLast at hgl
      rw [if_pos (by omega), List.getElem?_eq_getElem hlast] at hgl
      simp only at hgl
      have h0 : lvl[s.hi - 1].last ≤ s.last := by
        by_cases hc : s.last < lvl[s.hi - 1].last
        · rw [if_pos hc] at hgl; omega
        · omega
      by_cases he : i = s.hi - 1
      · subst he; exact h0
      · have := hpw i (s.hi - 1) hi hlast (by omega)
        have := hw lvl[s.hi - 1] (List.getElem_mem hlast)
        omega

/-! ## `compute_bounds` over the levels -/

/-- what `compute_bounds` guarantees for the slice of one level at or below `lower_level` -/
structure SliceOk (lvl : List File) (s : Slice) : Prop where
  takes : ∀ g ∈ lvl, (g ∈ sliceFiles lvl s ↔ (g.first ≤ s.last ∧ s.first ≤ g.last))
  inside : ∀ g ∈ sliceFiles lvl s, s.first ≤ g.first ∧ g.last ≤ s.last

theorem sliceFiles_all (lvl : List File) (a b : Nat) : sliceFiles lvl ⟨0, lvl.length, a, b⟩ = lvl := by
  simp [sliceFiles]

theorem boundsLoop_cons (lower idx : Nat) (lvl : List File) (rest : List (List File)) (first last : Nat) :
    boundsLoop lower idx (lvl :: rest) first last =
      if idx < lower then ⟨0, 0, 0, 0⟩ :: boundsLoop lower (idx + 1) rest first last
      else if idx = 0 then ⟨0, lvl.length, first, last⟩ :: boundsLoop lower 1 rest first last
      else (levelBounds lvl first last) :: boundsLoop lower (idx + 1) rest (levelBounds lvl first last).first (levelBounds lvl first last).last := rfl

theorem boundsLoop_spec (lower : Nat) : ∀ (ls : List (List File)) (idx first last : Nat),
    (∀ k lvl, ls[k]? = some lvl → 1 ≤ idx + k → SortedLevel lvl ∧ WfLevel lvl) →
    (idx = 0 → lower = 0 → ∀ lvl, ls[0]? = some lvl → ∀ g ∈ lvl, first ≤ g.first ∧ g.last ≤ last ∧ g.first ≤ g.last) →
    (boundsLoop lower idx ls first last).length = ls.length ∧
    (∀ k s lvl, (boundsLoop lower idx ls first last)[k]? = some s → ls[k]? = some lvl → lower ≤ idx + k → SliceOk lvl s) ∧
    (∀ k s, (boundsLoop lower idx ls first last)[k]? = some s → lower ≤ idx + k → s.first ≤ first ∧ last ≤ s.last) ∧
    (∀ k k' s s', k ≤ k' → (boundsLoop lower idx ls first last)[k]? = some s →
      (boundsLoop lower idx ls first last)[k']? = some s' → lower ≤ idx + k → s'.first ≤ s.first ∧ s.last ≤ s'.last)
  | [], _, _, _, _, _ => by
    refine ⟨rfl, ?_, ?_, ?_⟩ <;> intros <;> simp [boundsLoop] at *
  | lvl :: rest, idx, first, last, hsort, hhull => by
    have hsort' : ∀ k l, rest[k]? = some l → 1 ≤ idx + 1 + k → SortedLevel l ∧ WfLevel l := by
      intro k l hk _
      exact hsort (k + 1) l (by simpa using hk) (by omega)
    have hhull' : ∀ f' l', idx + 1 = 0 → lower = 0 → ∀ l, rest[0]? = some l → ∀ g ∈ l, f' ≤ g.first ∧ g.last ≤ l' ∧ g.first ≤ g.last := by
      intro _ _ h; omega
    have hhull0 : idx = 0 → ¬ idx < lower → ∀ g ∈ lvl, first ≤ g.first ∧ g.last ≤ last ∧ g.first ≤ g.last :=
      fun h0 hl => hhull h0 (by omega) lvl rfl
    -- the common shape: head slice `s0`, the rest computed from `(f', l')` with `f' ≤ first`, `last ≤ l'`
    have step : ∀ (s0 : Slice) (f' l' : Nat),
        boundsLoop lower idx (lvl :: rest) first last = s0 :: boundsLoop lower (idx + 1) rest f' l' →
        f' ≤ first → last ≤ l' →
        (lower ≤ idx → SliceOk lvl s0 ∧ s0.first = f' ∧ s0.last = l') →
        (boundsLoop lower idx (lvl :: rest) first last).length = (lvl :: rest).length ∧
        (∀ k s l, (boundsLoop lower idx (lvl :: rest) first last)[k]? = some s → (lvl :: rest)[k]? = some l → lower ≤ idx + k → SliceOk l s) ∧
        (∀ k s, (boundsLoop lower idx (lvl :: rest) first last)[k]? = some s → lower ≤ idx + k → s.first ≤ first ∧ last ≤ s.last) ∧
        (∀ k k' s s', k ≤ k' → (boundsLoop lower idx (lvl :: rest) first last)[k]? = some s →
          (boundsLoop lower idx (lvl :: rest) first last)[k']? = some s' → lower ≤ idx + k → s'.first ≤ s.first ∧ s.last ≤ s'.last) := by
      intro s0 f' l' heq hf hl h0
      obtain ⟨ih1, ih2, ih3, ih4⟩ := boundsLoop_spec lower rest (idx + 1) f' l' hsort' (hhull' f' l')
      rw [heq]
      refine ⟨by simp [ih1], ?_, ?_, ?_⟩
      · intro k s l hk hl' hlow
        cases k with
        | zero =>
          simp only [List.getElem?_cons_zero, Option.some.injEq] at hk hl'
          subst hk; subst hl'
          exact (h0 (by omega)).1
        | succ k =>
          simp only [List.getElem?_cons_succ] at hk hl'
          exact ih2 k s l hk hl' (by omega)
      · intro k s hk hlow
        cases k with
        | zero =>
          simp only [List.getElem?_cons_zero, Option.some.injEq] at hk
          subst hk
          obtain ⟨_, e1, e2⟩ := h0 (by omega)
          omega
        | succ k =>
          simp only [List.getElem?_cons_succ] at hk
          have := ih3 k s hk (by omega)
          omega
      · intro k k' s s' hkk hk hk' hlow
        cases k with
        | zero =>
          simp only [List.getElem?_cons_zero, Option.some.injEq] at hk
          subst hk
          obtain ⟨_, e1, e2⟩ := h0 (by omega)
          cases k' with
          | zero =>
            simp only [List.getElem?_cons_zero, Option.some.injEq] at hk'
            subst hk'; omega
          | succ k' =>
            simp only [List.getElem?_cons_succ] at hk'
            have := ih3 k' s' hk' (by omega)
            omega
        | succ k =>
          cases k' with
          | zero => omega
          | succ k' =>
            simp only [List.getElem?_cons_succ] at hk hk'
            exact ih4 k k' s s' (by omega) hk hk' (by omega)
    rw [boundsLoop_cons]
    by_cases h1 : idx < lower
    · have := step ⟨0, 0, 0, 0⟩ first last (by rw [boundsLoop_cons, if_pos h1]) (Nat.le_refl _) (Nat.le_refl _) (by omega)
      rw [boundsLoop_cons] at this; exact this
    · by_cases h2 : idx = 0
      · subst h2
        have := step ⟨0, lvl.length, first, last⟩ first last (by rw [boundsLoop_cons, if_neg h1, if_pos rfl]) (Nat.le_refl _) (Nat.le_refl _)
          (by
            intro _
            refine ⟨⟨?_, ?_⟩, rfl, rfl⟩
            · intro g hg
              rw [sliceFiles_all]
              have := hhull0 rfl h1 g hg
              simp only [hg, true_iff]; omega
            · intro g hg
              rw [sliceFiles_all] at hg
              have := hhull0 rfl h1 g hg
              dsimp only; omega)
        rw [boundsLoop_cons] at this; exact this
      · have hfx := levelBounds_fixed lvl first last
        have hs := hsort 0 lvl rfl (by omega)
        have hsl := fixed_slice hs.1 hs.2 hfx
        have := step (levelBounds lvl first last) (levelBounds lvl first last).first (levelBounds lvl first last).last
          (by rw [boundsLoop_cons, if_neg h1, if_neg h2]) hfx.first_le hfx.last_ge
          (fun _ => ⟨⟨hsl.1, hsl.2⟩, rfl, rfl⟩)
        rw [boundsLoop_cons] at this; exact this

end Blue.NextCompaction
