import Blue.Proofs.KvsConc
/-! Reads of the joined model (`Blue.KvsConc`) against each other and against the writers: the
    remaining obligations of the linearization "writes in sequence order at `wFin`, reads at their
    snapshot" that `Blue.Proofs.KvsConc` does not state.

    * `read_sees_only_returned` — repaired store: every write a snapshot's timestamp covers has left
      the wait list (has *returned*), so what a read returns was written by a write that had
      completed when the snapshot was taken (`read_result_was_returned`).
    * `late_inserts_above_snapshot_ts` — repaired store: every memtable insert that happens while a
      snapshot exists carries a number above that snapshot's timestamp (hypothesis (i) of C07's
      `cursor_sees_snapshot_partial`, as a step fact of this model).
    * `later_snapshot_ts_ge`, `view_mono`, `read_monotone`, `reads_never_go_back` — read-to-read
      monotonicity: timestamps of snapshots never decrease in real time, a clean snapshot with the
      larger timestamp sees everything the other sees, and so a later read of a key never returns an
      older version than an earlier read did. -/
namespace Blue.KvsConc
open Blue.KvsWrite (Entry)

/-- **a read sees only writes that have returned** (repaired read timestamp): every write whose
    number a snapshot's timestamp covers has left the wait list -/
theorem read_sees_only_returned {seq0 mem0 : Nat} {evs : List Ev} {s : St}
    (hrun : run (init true seq0 mem0) evs = some s) (r : Nat × Snap) (hr : r ∈ s.readers)
    (w : Writer) (hw : w ∈ s.writers) (hle : w.seq ≤ r.2.ts) : w.finished = true := by
  have h := inv_run evs (inv_init true seq0 mem0) hrun
  have hc : s.completed = true := by rw [run_completed evs hrun]; rfl
  exact (h.fin_vis w hw).mpr (Nat.le_trans hle ((h.rd r hr).2.1 hc))

/-- … so the entry a lookup returns is an entry of the batch of a write that has returned -/
theorem read_result_was_returned {seq0 mem0 : Nat} {evs : List Ev} {s : St}
    (hrun : run (init true seq0 mem0) evs = some s) (r : Nat × Snap) (hr : r ∈ s.readers)
    (k : Nat) (e : Entry) (hl : lookup s r.2 k = some e) :
    ∃ w ∈ s.writers, w.seq = e.seq ∧ w.finished = true ∧ (k, e.val) ∈ w.batch := by
  obtain ⟨hts, w, hw, hseq, hb⟩ := no_phantom hrun r.2 k e hl
  exact ⟨w, hw, hseq, read_sees_only_returned hrun r hr w hw (by omega), hb⟩

/-- **inserts after a snapshot carry numbers above its timestamp** (repaired read timestamp): a
    memtable insert enabled in a reachable state belongs to a write that has not left the wait
    list, and every snapshot that exists reads at or below the last write that has -/
theorem late_inserts_above_snapshot_ts {seq0 mem0 : Nat} {evs : List Ev} {s s' : St}
    (hrun : run (init true seq0 mem0) evs = some s) (seq idx : Nat)
    (hs : step s (.wIns seq idx) = some s') : ∀ r ∈ s.readers, r.2.ts < seq := by
  intro r hr
  have h := inv_run evs (inv_init true seq0 mem0) hrun
  have hc : s.completed = true := by rw [run_completed evs hrun]; rfl
  have hts := (h.rd r hr).2.1 hc
  simp only [step] at hs
  split at hs
  · rename_i w0 hfind
    obtain ⟨hw0, hseq0⟩ := findWriter_some hfind
    split at hs
    · split at hs
      · rename_i hcnd
        have : ¬ seq ≤ s.visible := by
          intro hle
          have := (h.fin_vis w0 hw0).mpr (by rw [hseq0]; exact hle)
          rw [hcnd.1] at this; cases this
        omega
      · cases hs
    · cases hs
  · cases hs

/-- the entry such an insert adds: table and number of the inserting write -/
theorem wIns_adds {s s' : St} {seq idx : Nat} (hs : step s (.wIns seq idx) = some s') :
    ∃ w k v, findWriter s seq = some w ∧ s'.ents = (w.tbl, (⟨k, seq, v⟩ : Entry)) :: s.ents := by
  simp only [step] at hs
  split at hs
  · rename_i w0 hfind
    split at hs
    · rename_i k v rest _
      split at hs
      · cases hs; exact ⟨w0, k, v, hfind, rfl⟩
      · cases hs
    · cases hs
  · cases hs

/-- **snapshot timestamps never go back in real time** (both read policies): a snapshot taken now
    reads at a timestamp at least that of every snapshot that exists -/
theorem later_snapshot_ts_ge {c : Bool} {seq0 mem0 : Nat} {evs : List Ev} {s s' : St}
    (hrun : run (init c seq0 mem0) evs = some s) (rid ts mem : Nat) (imm : Bool)
    (hs : step s (.rSnap rid ts mem imm) = some s') : ∀ r ∈ s.readers, r.2.ts ≤ ts := by
  intro r hr
  have h := inv_run evs (inv_init c seq0 mem0) hrun
  obtain ⟨h1, h2, _⟩ := h.rd r hr
  simp only [step] at hs
  split at hs
  · split at hs
    · rename_i hcnd
      rw [hcnd.1]
      unfold readTs
      split
      · rename_i hc; exact h2 hc
      · exact h1
    · cases hs
  · cases hs

/-- a clean snapshot with the larger timestamp sees everything the other one sees (both read
    policies; the first snapshot need not be clean) -/
theorem view_mono {c : Bool} {seq0 mem0 : Nat} {evs : List Ev} {s : St}
    (hrun : run (init c seq0 mem0) evs = some s) (sn : Snap) (r2 : Nat × Snap) (hr2 : r2 ∈ s.readers)
    (hclean : r2.2.clean = true) (hts : sn.ts ≤ r2.2.ts) :
    ∀ e ∈ view s sn, e ∈ view s r2.2 := by
  have h := inv_run evs (inv_init c seq0 mem0) hrun
  intro e he
  obtain ⟨t, h1, _, h3⟩ := mem_view.mp he
  obtain ⟨w, hw, h4, h5, _⟩ := h.from_batch (t, e) h1
  rw [mem_view]
  refine ⟨t, h1, ?_, by omega⟩
  have := (h.rd r2 hr2).2.2 hclean w hw (by rw [h4]; exact Nat.le_trans h3 hts)
  rw [h5] at this; exact this

/-- **read-to-read monotonicity, one state**: if a read at snapshot `sn` returns an entry for a
    key, a read at a clean snapshot with a timestamp at least as large returns that entry or a
    newer one -/
theorem read_monotone {c : Bool} {seq0 mem0 : Nat} {evs : List Ev} {s : St}
    (hrun : run (init c seq0 mem0) evs = some s) (sn : Snap) (r2 : Nat × Snap) (hr2 : r2 ∈ s.readers)
    (hclean : r2.2.clean = true) (hts : sn.ts ≤ r2.2.ts) (k : Nat) (e1 : Entry)
    (hl : lookup s sn k = some e1) : ∃ e2, lookup s r2.2 k = some e2 ∧ e1.seq ≤ e2.seq := by
  obtain ⟨hv, hk⟩ := lookup_mem hl
  have := lookup_ge (view_mono hrun sn r2 hr2 hclean hts e1 hv)
  rw [hk] at this; exact this

theorem readers_run : ∀ (evs : List Ev) {s s' : St} (r : Nat × Snap), r ∈ s.readers →
    run s evs = some s' → r ∈ s'.readers
  | [], s, s', r, hr, h => by simp only [run] at h; cases h; exact hr
  | e :: es, s, s', r, hr, h => by
    rw [run_cons] at h
    split at h
    · rename_i s1 hs1
      exact readers_run es r (readers_step r hr e hs1) h
    · cases h

/-- **reads never go back** (repaired read timestamp, across time): a read made in state `s1`
    through snapshot `r1` returned `e1` for key `k`; after any further events a read through a clean
    snapshot `r2` whose timestamp is at least that of `r1` — in particular (`later_snapshot_ts_ge`)
    any snapshot taken after `r1` — returns `e1` or a newer entry -/
theorem reads_never_go_back {seq0 mem0 : Nat} {evs evs' : List Ev} {s1 s2 : St}
    (hrun : run (init true seq0 mem0) evs = some s1) (hrun' : run s1 evs' = some s2)
    (r1 : Nat × Snap) (hr1 : r1 ∈ s1.readers) (r2 : Nat × Snap) (hr2 : r2 ∈ s2.readers)
    (hclean : r2.2.clean = true) (hts : r1.2.ts ≤ r2.2.ts) (k : Nat) (e1 : Entry)
    (hl : lookup s1 r1.2 k = some e1) : ∃ e2, lookup s2 r2.2 k = some e2 ∧ e1.seq ≤ e2.seq := by
  have h1 := inv_run evs (inv_init true seq0 mem0) hrun
  have hc : s1.completed = true := by rw [run_completed evs hrun]; rfl
  have hst := snapshot_stable evs' h1 hc r1 hr1 hrun'
  have hl2 : lookup s2 r1.2 k = some e1 := by unfold lookup; rw [hst]; exact hl
  have hrun2 : run (init true seq0 mem0) (evs ++ evs') = some s2 := by
    rw [run_append, hrun]; exact hrun'
  exact read_monotone hrun2 r1.2 r2 hr2 hclean hts k e1 hl2

end Blue.KvsConc
