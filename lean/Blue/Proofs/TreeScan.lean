import Blue.Proofs.ScanSpec
import Blue.Proofs.LevelOver
/-! **C03** the scan stack of the store, assembled: `Bounds(Pruning(Merging[children]))` where every
    child is a level — a `ConcatenatingCursor` over `LazyCursor`s over SST cursors (a level-0 file is
    a one-file level) — shows, under every program, the live versions in range of the merged list. -/
namespace Blue.Spec
open Blue.Cursor Blue.Cursor.Filtered
variable {K : Type} [DecidableEq K]

/-- the cursor the tree builds for one level -/
def levelCursor {S : Cur (Ver K)} (lvl : List (S.σ × List (Ver K))) : (ConcatC.cur (LazyC.cur S)).σ :=
  ConcatC.new (LazyC.cur S) (lazyKids lvl)

def levelTable {S : Cur (Ver K)} (lvl : List (S.σ × List (Ver K))) : Ref (Ver K) :=
  ⟨(lvl.map (·.2)).flatten, 0⟩

theorem levels_beh {klt : K → K → Bool} (st : StrictTotal klt) {S : Cur (Ver K)} :
    ∀ (levels : List (List (S.σ × List (Ver K)))),
    (∀ lvl ∈ levels, ∀ f ∈ lvl, BehEq (SeekAdm klt) S f.1 (RefCur (Ver K)) ⟨f.2, 0⟩) →
    (∀ lvl ∈ levels, 0 < lvl.length) →
    (∀ lvl ∈ levels, Sorted klt (lvl.map (·.2)).flatten) →
    (levels.map levelCursor).map (behA (SeekAdm klt) (ConcatC.cur (LazyC.cur S)))
      = (levels.map levelTable).map (behA (SeekAdm klt) (RefCur (Ver K)))
  | [], _, _, _ => rfl
  | lvl :: rest, hf, hne, hs => by
    have ih := levels_beh st rest (fun l hl => hf l (List.mem_cons_of_mem _ hl))
      (fun l hl => hne l (List.mem_cons_of_mem _ hl)) (fun l hl => hs l (List.mem_cons_of_mem _ hl))
    have hd : behA (SeekAdm klt) (ConcatC.cur (LazyC.cur S)) (levelCursor lvl)
        = behA (SeekAdm klt) (RefCur (Ver K)) (levelTable lvl) := by
      apply behA_eq_of_behEq
      exact level_over lvl (hf lvl List.mem_cons_self) (hne lvl List.mem_cons_self)
        (fun pred hp => adm_along st hp _ (keysMono_of_sorted st (hs lvl List.mem_cons_self)))
    simp only [List.map_cons]
    rw [hd, ih]

/-- **C03** `tree_scan_spec` -/
theorem tree_scan_spec {klt : K → K → Bool} (st : StrictTotal klt)
    (M : List (Ver K × Nat)) (k : Nat) (fam : Family (vlt klt) M k)
    (t : Nat) (tomb : Ver K → Bool) (sb eb : Bound K) (n : Nat) (hn : (M.map (·.1)).length + 2 ≤ n)
    {S : Cur (Ver K)} (levels : List (List (S.σ × List (Ver K))))
    (hfiles : ∀ lvl ∈ levels, ∀ f ∈ lvl, BehEq (SeekAdm klt) S f.1 (RefCur (Ver K)) ⟨f.2, 0⟩)
    (hne : ∀ lvl ∈ levels, 0 < lvl.length)
    (hsorted : ∀ lvl ∈ levels, Sorted klt (lvl.map (·.2)).flatten)
    (hkids : ((levels.map levelTable).map (·.xs)).Perm ((List.range k).map (childList M))) :
    BehEq (SeekAdm klt)
      (BoundsC.cur (PruningC.cur (MergingC.cur (ConcatC.cur (LazyC.cur S)) (vlt klt)) (pcfg t tomb) n)
        (bcfg klt sb eb) n)
      (BoundsC.new (PruningC.cur (MergingC.cur (ConcatC.cur (LazyC.cur S)) (vlt klt)) (pcfg t tomb) n)
        (bcfg klt sb eb)
        (PruningC.new (MergingC.cur (ConcatC.cur (LazyC.cur S)) (vlt klt))
          (MergingC.new (ConcatC.cur (LazyC.cur S)) (vlt klt) (levels.map levelCursor))))
      (RefCur (Ver K))
      ⟨((M.map (·.1)).filter (isLive (M.map (·.1)) t tomb)).filter (inRange klt sb eb), 0⟩ :=
  scan_spec st M k fam t tomb sb eb n hn (ConcatC.cur (LazyC.cur S)) (levels.map levelCursor)
    (levels.map levelTable) hkids (levels_beh st levels hfiles hne hsorted)

end Blue.Spec

#print axioms Blue.Spec.tree_scan_spec
