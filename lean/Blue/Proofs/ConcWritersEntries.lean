import Blue.Proofs.ConcWriters
import Blue.Proofs.LogFragment
import Blue.Proofs.EntryCodec
/-! **C02 with concurrent writers, at the level of ENTRIES.**  `LogIterator::next` hands out
    entries: it decodes the buffer of each delivered record entry by entry (`next_from_buffer`,
    `Blue.Damage.batchEntries` / `deliver`); `log_to_builder` collects them.  A merged record is the
    concatenation of client buffers; the entry decoder reads a concatenation of buffers that decode
    cleanly as the concatenation of their entries (`batchEntries_append_clean`: the decoder of one
    entry does not look past it, `decEntry_append`).  Hence what recovery replays is exactly the
    entries of the client batches `0 … gstart s j - 1`, every batch with ALL of its entries, in
    order — every acknowledged client batch among them.

    Hypothesis `Clean`: every caller's buffer decodes without an error (it was built by
    `WriteBatch::insert`, one `KeyValueEntry` after the other, `shared = 0`; that the encoder's
    bytes decode is C10/C15 `decEntry_enc`). -/
namespace Blue.ConcWriters
open Blue.Log Blue.ConcLog Blue.Damage Blue.EntryCodec Blue.Block
open Blue.LogCrash hiding Ev acked

variable {P : Params} {lim : Nat}

/-- the entries `next_from_buffer` decodes from a buffer -/
def entriesOf (b : List Nat) : List KV := (batchEntries (b.length + 1) b).1

/-- the buffer decodes without an error -/
abbrev Clean (b : List Nat) : Prop := (batchEntries (b.length + 1) b).2 = false

/-- a buffer that decodes cleanly, followed by more bytes: its entries, then the entries of the rest -/
theorem batchEntries_append_clean : ∀ (F : Nat) (a b : List Nat) (ea : List KV),
    a.length < F → batchEntries F a = (ea, false) → b ≠ [] →
    ∀ F', (a ++ b).length < F' →
      batchEntries F' (a ++ b) = (ea ++ (batchEntries (b.length + 1) b).1, (batchEntries (b.length + 1) b).2) := by
  intro F
  induction F with
  | zero => intro a b ea h; omega
  | succ f ih =>
    intro a b ea hl h hb F' hF'
    cases F' with
    | zero => omega
    | succ f' =>
      rw [batchEntries_succ] at h ⊢
      cases hd : decEntry a with
      | none => rw [hd] at h; simp at h
      | some er =>
        obtain ⟨e, r⟩ := er
        have hlt := decEntry_rest_lt a e r hd
        rw [decEntry_append a e r b hd]
        rw [hd] at h
        have hlen : (a ++ b).length = a.length + b.length := List.length_append
        have hbpos : 0 < b.length := List.length_pos_iff.mpr hb
        have hne : (r ++ b).isEmpty = false := by
          cases r with
          | nil => cases b with
            | nil => exact absurd rfl hb
            | cons _ _ => rfl
          | cons _ _ => rfl
        cases e with
        | put p =>
          simp only at h ⊢
          by_cases hs : p.shared ≠ 0
          · rw [if_pos hs] at h; simp at h
          · rw [if_neg hs] at h ⊢
            rw [hne]
            simp only [Bool.false_eq_true, if_false]
            cases hr : r.isEmpty with
            | true =>
              rw [hr] at h
              simp only [if_true] at h
              have hrn : r = [] := List.isEmpty_iff.mp hr
              subst hrn
              have hea : ea = [⟨p.keyFrag, p.timestamp, some p.value⟩] := (congrArg Prod.fst h).symm
              rw [hea, List.nil_append, batchEntries_fuel f' (b.length + 1) b (by omega) (by omega)]
              rfl
            | false =>
              rw [hr] at h
              simp only [Bool.false_eq_true, if_false] at h
              have h1 : (batchEntries f r).2 = false := congrArg Prod.snd h
              have h2 : ⟨p.keyFrag, p.timestamp, some p.value⟩ :: (batchEntries f r).1 = ea := congrArg Prod.fst h
              have h3 : batchEntries f r = ((batchEntries f r).1, false) := by rw [← h1]
              have hlr : (r ++ b).length = r.length + b.length := List.length_append
              rw [ih r b _ (by omega) h3 hb f' (by omega), ← h2]
              rfl
        | del d =>
          simp only at h ⊢
          by_cases hs : d.shared ≠ 0
          · rw [if_pos hs] at h; simp at h
          · rw [if_neg hs] at h ⊢
            rw [hne]
            simp only [Bool.false_eq_true, if_false]
            cases hr : r.isEmpty with
            | true =>
              rw [hr] at h
              simp only [if_true] at h
              have hrn : r = [] := List.isEmpty_iff.mp hr
              subst hrn
              have hea : ea = [⟨d.keyFrag, d.timestamp, none⟩] := (congrArg Prod.fst h).symm
              rw [hea, List.nil_append, batchEntries_fuel f' (b.length + 1) b (by omega) (by omega)]
              rfl
            | false =>
              rw [hr] at h
              simp only [Bool.false_eq_true, if_false] at h
              have h1 : (batchEntries f r).2 = false := congrArg Prod.snd h
              have h2 : ⟨d.keyFrag, d.timestamp, none⟩ :: (batchEntries f r).1 = ea := congrArg Prod.fst h
              have h3 : batchEntries f r = ((batchEntries f r).1, false) := by rw [← h1]
              have hlr : (r ++ b).length = r.length + b.length := List.length_append
              rw [ih r b _ (by omega) h3 hb f' (by omega), ← h2]
              rfl

/-- **a merged record decodes to the entries of its client batches, one batch after the other** -/
theorem group_entries : ∀ (g : List (List Nat)), g ≠ [] → (∀ b ∈ g, b ≠ [] ∧ Clean b) →
    batchEntries (g.flatten.length + 1) g.flatten = ((g.map entriesOf).flatten, false)
  | [], h, _ => absurd rfl h
  | [b], _, hc => by
    have := (hc b List.mem_cons_self).2
    simp only [List.flatten_cons, List.flatten_nil, List.append_nil, List.map_cons, List.map_nil]
    unfold entriesOf
    rw [← this]
  | b :: b' :: g, _, hc => by
    have hb := hc b List.mem_cons_self
    have ih := group_entries (b' :: g) (by simp) (fun x hx => hc x (List.mem_cons_of_mem _ hx))
    have hne : (b' :: g).flatten ≠ [] := by
      have := (hc b' (List.mem_cons_of_mem _ List.mem_cons_self)).1
      simp only [List.flatten_cons]
      intro h0
      exact this (List.append_eq_nil_iff.mp h0).1
    have hcb : batchEntries (b.length + 1) b = (entriesOf b, false) := by
      unfold entriesOf; rw [← hb.2]
    have := batchEntries_append_clean (b.length + 1) b (b' :: g).flatten (entriesOf b) (by omega) hcb hne
      ((b :: b' :: g).flatten.length + 1) (by simp only [List.flatten_cons]; omega)
    show batchEntries ((b :: b' :: g).flatten.length + 1) (b ++ (b' :: g).flatten) = _
    rw [this, ih]
    simp

/-- the frame reader delivered the records of these leaders' batches: the entries handed out are
    the entries of the client batches, in link order -/
theorem deliver_groups : ∀ (gs : List (List (List Nat))) (e : Bool),
    (∀ g ∈ gs, g ≠ [] ∧ ∀ b ∈ g, b ≠ [] ∧ Clean b) →
    deliver (gs.map List.flatten) e = ((gs.flatten.map entriesOf).flatten, e)
  | [], e, _ => by simp [deliver]
  | g :: gs, e, h => by
    have hg := h g List.mem_cons_self
    have ih := deliver_groups gs e (fun x hx => h x (List.mem_cons_of_mem _ hx))
    rw [List.map_cons, deliver_cons, group_entries g hg.1 hg.2, ih]
    simp

/-- **recovery, entry by entry.**  Every caller's buffer decodes cleanly (`hclean`).  At every crash
    image there is `j`: the iterator delivers the first `j` merged records, and the ENTRIES it hands
    to `log_to_builder` — up to the point where the frame reader ends, cleanly or with its error —
    are exactly the entries of the client batches of callers `0 … gstart s j - 1` in link order:
    every one of those batches with ALL of its entries, no entry of any other batch, nothing else;
    every acknowledged caller is below `gstart s j`.  When the reader ends without an error
    (always under the two persistence models: `concurrent_run_is_some_sequential_history`) these are
    the entries `log_to_builder` sorts and writes into the recovered SST (`Blue.Damage.replayOf`);
    when it ends with an error `log_to_builder` returns it. -/
theorem concurrent_recovery_entries (g : Good P) (hlim : lim ≤ P.tableFull) (evs : List Ev) (t : Nat)
    (hclean : ∀ b ∈ (run P lim evs).bufs, Clean b) :
    let s := run P lim evs
    ∃ j, j ≤ s.groups.length ∧ delivered P s t = (merged s).take j
      ∧ deliver (delivered P s t) (readerError P s t)
          = (((s.bufs.take (gstart s j)).map entriesOf).flatten, readerError P s t)
      ∧ (∀ i, acked s i = true → i < gstart s j)
      ∧ (readerError P s t = false →
          replayOf (deliver (delivered P s t) (readerError P s t))
            = replayOf (((s.bufs.take (gstart s j)).map entriesOf).flatten, false)) := by
  intro s
  have hA : InvA P lim s := invA_run evs
  obtain ⟨j, j1, j2, j3, j4, _, _, j7⟩ := concurrent_acked_writes_survive_crash g hlim evs t
  have j3' : delivered P s t = (s.groups.take j).map List.flatten := j3
  have j4' : (s.groups.take j).flatten = s.bufs.take (gstart s j) := j4
  have hgs : ∀ grp ∈ s.groups.take j, grp ≠ [] ∧ ∀ b ∈ grp, b ≠ [] ∧ Clean b := by
    intro grp hg
    have hg' : grp ∈ s.groups := List.mem_of_mem_take hg
    have hm : grp.flatten ∈ merged s := List.mem_map.2 ⟨grp, hg', rfl⟩
    have hpos := (hA.sz _ hm).1
    refine ⟨?_, ?_⟩
    · intro h0; rw [h0] at hpos; simp at hpos
    · intro b hb
      have hbb : b ∈ s.bufs := by
        have : b ∈ s.groups.flatten := List.mem_flatten.2 ⟨grp, hg', hb⟩
        rw [hA.grp] at this
        exact List.mem_of_mem_take this
      refine ⟨?_, hclean b hbb⟩
      have := hA.bsz b hbb
      intro h0; rw [h0] at this; simp at this
  have hdel : deliver (delivered P s t) (readerError P s t)
      = (((s.bufs.take (gstart s j)).map entriesOf).flatten, readerError P s t) := by
    rw [j3', deliver_groups _ _ hgs, j4']
  refine ⟨j, j1, j2, hdel, fun i hi => (j7 i hi).1, ?_⟩
  intro he
  rw [hdel, he]

/-! ### the hypothesis `Clean` holds of the buffers `WriteBatch::insert` builds -/

/-- the key-value pair `LogIterator` hands out for an entry -/
def kvOf : Entry → KV
  | .put p => ⟨p.keyFrag, p.timestamp, some p.value⟩
  | .del d => ⟨d.keyFrag, d.timestamp, none⟩

/-- `WriteBatch::put` / `del` write `shared: 0` -/
def shared0 : Entry → Prop
  | .put p => p.shared = 0
  | .del d => d.shared = 0

/-- `WriteBatch::insert` entry after entry: `stack_pack(KeyValueEntry::…).append_to_vec(buffer)` -/
def buildBuffer (es : List Entry) : List Nat := (es.map encEntry).flatten

theorem encEntry_ne_nil (e : Entry) (h : e.Wf) : encEntry e ≠ [] := by
  have h1 := decEntry_enc e h []
  have h2 := decEntry_rest_lt _ _ _ h1
  intro h0
  rw [h0] at h2
  simp at h2

theorem built_entries : ∀ (es : List Entry), es ≠ [] → (∀ e ∈ es, e.Wf ∧ shared0 e) →
    ∀ F, (buildBuffer es).length < F → batchEntries F (buildBuffer es) = (es.map kvOf, false)
  | [], h, _, _, _ => absurd rfl h
  | e :: es, _, hw, F, hF => by
    cases F with
    | zero => omega
    | succ f =>
      have he := hw e List.mem_cons_self
      have hdec := decEntry_enc e he.1 (buildBuffer es)
      have hne := encEntry_ne_nil e he.1
      have hpos : 0 < (encEntry e).length := List.length_pos_iff.mpr hne
      have hbb : buildBuffer (e :: es) = encEntry e ++ buildBuffer es := rfl
      rw [hbb, List.length_append] at hF
      rw [hbb, batchEntries_succ, hdec]
      cases es with
      | nil =>
        cases e with
        | put p => have : p.shared = 0 := he.2; simp [this, kvOf, buildBuffer]
        | del d => have : d.shared = 0 := he.2; simp [this, kvOf, buildBuffer]
      | cons e' es' =>
        have ih := built_entries (e' :: es') (by simp) (fun x hx => hw x (List.mem_cons_of_mem _ hx)) f (by omega)
        have hne' : (buildBuffer (e' :: es')).isEmpty = false := by
          have := encEntry_ne_nil e' (hw e' (List.mem_cons_of_mem _ List.mem_cons_self)).1
          show (encEntry e' ++ buildBuffer es').isEmpty = false
          cases h : encEntry e' with
          | nil => exact absurd h this
          | cons _ _ => rfl
        cases e with
        | put p =>
          have : p.shared = 0 := he.2
          simp only [this, ne_eq, not_true_eq_false, if_false, hne', Bool.false_eq_true, ih]
          simp [kvOf]
        | del d =>
          have : d.shared = 0 := he.2
          simp only [this, ne_eq, not_true_eq_false, if_false, hne', Bool.false_eq_true, ih]
          simp [kvOf]

/-- **a buffer built by `WriteBatch::insert` from at least one well-formed entry decodes cleanly to
    exactly those entries** (`Wf`: lengths and numbers below 2^64, the bound of the wire format) -/
theorem built_buffer_clean (es : List Entry) (hne : es ≠ []) (hw : ∀ e ∈ es, e.Wf ∧ shared0 e) :
    Clean (buildBuffer es) ∧ entriesOf (buildBuffer es) = es.map kvOf := by
  have := built_entries es hne hw ((buildBuffer es).length + 1) (by omega)
  exact ⟨congrArg Prod.snd this, congrArg Prod.fst this⟩

/-! ### a closed run with real entries -/
open Blue.Wire in
/-- client 0's `WriteBatch` has TWO entries (a put and a delete, sequence number 1), clients 1 and 2
    one put each -/
def toyC0 : List Entry := [.put ⟨0, [107], 1, [118]⟩, .del ⟨0, [108], 1⟩]
def toyC1 : List Entry := [.put ⟨0, [109], 2, [119]⟩]
def toyC2 : List Entry := [.put ⟨0, [110], 3, [120]⟩]
def toyB0 : List Nat := [66, 10, 8, 0, 18, 1, 107, 24, 1, 34, 1, 118, 74, 7, 40, 0, 50, 1, 108, 56, 1]
def toyB1 : List Nat := [66, 10, 8, 0, 18, 1, 109, 24, 2, 34, 1, 119]
def toyB2 : List Nat := [66, 10, 8, 0, 18, 1, 110, 24, 3, 34, 1, 120]

open Blue.Wire in
theorem toy_buffers_built : buildBuffer toyC0 = toyB0 ∧ buildBuffer toyC1 = toyB1 ∧ buildBuffer toyC2 = toyB2 := by
  simp [buildBuffer, toyC0, toyC1, toyC2, toyB0, toyB1, toyB2, encEntry, encPut, encDel, encTag, encBytes,
    encVarint_lt, WT.bits]

open Blue.Wire in
theorem toy_entries_wf : ∀ e ∈ toyC0 ++ toyC1 ++ toyC2, e.Wf ∧ shared0 e := by
  simp [toyC0, toyC1, toyC2, Entry.Wf, Put.Wf, Del.Wf, shared0, encPut, encDel, encTag, encBytes, encVarint_lt, U64,
    WT.bits]

theorem toy_buffers_clean :
    (Clean toyB0 ∧ entriesOf toyB0 = toyC0.map kvOf) ∧ (Clean toyB1 ∧ entriesOf toyB1 = toyC1.map kvOf)
    ∧ (Clean toyB2 ∧ entriesOf toyB2 = toyC2.map kvOf) := by
  obtain ⟨h0, h1, h2⟩ := toy_buffers_built
  have hw := toy_entries_wf
  rw [← h0, ← h1, ← h2]
  refine ⟨built_buffer_clean _ (by simp [toyC0]) (fun e he => hw e (by simp [he])),
    built_buffer_clean _ (by simp [toyC1]) (fun e he => hw e (by simp [he])),
    built_buffer_clean _ (by simp [toyC2]) (fun e he => hw e (by simp [he]))⟩

/-- block size 64 (the records of this run are not split) -/
def toyPB : Params := { toyP with B := 64 }

theorem good_toyPB : Good toyPB where
  hH := by decide
  hB := by decide
  crc_lt := fun _ => by show (0 : Nat) < 4294967296; omega
  tf_lt := by decide
  dec_enc := fun _ _ _ _ => rfl
  enc_len := fun _ _ _ _ => ⟨by show 1 ≤ 3; omega, by show 3 + 1 ≤ 4; omega⟩

/-- the schedule of `toyRun` with those three clients: clients 0 and 1 merged into one record -/
def toyEntryRun : List Ev :=
  [.link toyB0, .link toyB1, .link toyB2, .write 2, .flink 1, .flink 0, .fenter 2, .write 1,
   .fret true, .flink 2, .fenter 1, .fret false]

theorem toyEntryRun_clean (n : Nat) : ∀ b ∈ (run toyPB 40 (toyEntryRun.take n)).bufs, Clean b := by
  intro b hb
  have hl : Ev.link b ∈ toyEntryRun.take n := by
    rcases bufs_from_link (P := toyPB) (lim := 40) (toyEntryRun.take n) init b hb with h | h
    · simp [init] at h
    · exact h
  have hl' : Ev.link b ∈ toyEntryRun := List.mem_of_mem_take hl
  obtain ⟨c0, c1, c2⟩ := toy_buffers_clean
  simp only [toyEntryRun, List.mem_cons, Ev.link.injEq, List.mem_nil_iff, or_false, reduceCtorEq] at hl'
  rcases hl' with h | h | h
  · rw [h]; exact c0.1
  · rw [h]; exact c1.1
  · rw [h]; exact c2.1

end Blue.ConcWriters

#print axioms Blue.ConcWriters.batchEntries_append_clean
#print axioms Blue.ConcWriters.concurrent_recovery_entries
#print axioms Blue.ConcWriters.built_buffer_clean
#print axioms Blue.ConcWriters.toyEntryRun_clean
