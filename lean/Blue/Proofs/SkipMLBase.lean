import Blue.Model.SkipML
import Blue.Proofs.SkipChain
/-! The skiplist with all its levels: level views of the heap, the invariant, and what a step of
    one thread does to the obligations of another (frame lemmas, once per kind of obligation). -/
namespace Blue.SkipML
open Blue.SkipList (Node keyOf nextOf setNextAt SChain)

/-- the height of a node's tower (`pointers.len()`) -/
def height (heap : List MNode) (n : Nat) : Nat := (heap[n]?.map (·.nexts.length)).getD 0

/-! ### the level views -/

theorem proj_get (l : Nat) (heap : List MNode) (n : Nat) :
    (proj l heap)[n]? = (heap[n]?).map (fun nd => (⟨nd.key, towerNext nd l⟩ : Node)) := by
  simp [proj]

theorem proj_length (l : Nat) (heap : List MNode) : (proj l heap).length = heap.length := by
  simp [proj]

theorem keyOf_proj (l : Nat) (heap : List MNode) (n : Nat) : keyOf (proj l heap) n = mkey heap n := by
  simp only [keyOf, mkey, proj_get]
  cases heap[n]? <;> rfl

theorem nextOf_proj (l : Nat) (heap : List MNode) (n : Nat) : nextOf (proj l heap) n = mnext heap l n := by
  simp only [nextOf, mnext, proj_get]
  cases heap[n]? <;> rfl

theorem towerNext_replicate (h l : Nat) (k : Nat) : towerNext ⟨k, List.replicate h none⟩ l = none := by
  simp only [towerNext]
  by_cases hl : l < h
  · simp [hl]
  · simp [hl]

theorem proj_append (l : Nat) (heap : List MNode) (k h : Nat) :
    proj l (heap ++ [⟨k, List.replicate h none⟩]) = proj l heap ++ [⟨k, none⟩] := by
  simp [proj, towerNext_replicate]

theorem mkey_append (heap : List MNode) (x : MNode) (n : Nat) (h : n < heap.length) :
    mkey (heap ++ [x]) n = mkey heap n := by
  simp [mkey, List.getElem?_append_left h]

theorem mnext_append (heap : List MNode) (x : MNode) (l n : Nat) (h : n < heap.length) :
    mnext (heap ++ [x]) l n = mnext heap l n := by
  simp [mnext, List.getElem?_append_left h]

theorem height_append (heap : List MNode) (x : MNode) (n : Nat) (h : n < heap.length) :
    height (heap ++ [x]) n = height heap n := by
  simp [height, List.getElem?_append_left h]

theorem get_msetNext_ne (heap : List MNode) (l n x : Nat) (v : Option Nat) (h : x ≠ n) :
    (msetNext heap l n v)[x]? = heap[x]? := by
  unfold msetNext
  cases heap[n]? with
  | none => rfl
  | some nd => simp only; rw [List.getElem?_set_ne (fun e => h e.symm)]

theorem get_msetNext_self (heap : List MNode) (l n : Nat) (v : Option Nat) (nd : MNode) (h : heap[n]? = some nd) :
    (msetNext heap l n v)[n]? = some { nd with nexts := nd.nexts.set l v } := by
  unfold msetNext
  rw [h]
  simp only
  rw [List.getElem?_set_self (List.getElem?_eq_some_iff.mp h).1]

theorem length_msetNext (heap : List MNode) (l n : Nat) (v : Option Nat) : (msetNext heap l n v).length = heap.length := by
  unfold msetNext; split <;> simp

theorem mkey_msetNext (heap : List MNode) (l n x : Nat) (v : Option Nat) : mkey (msetNext heap l n v) x = mkey heap x := by
  by_cases h : x = n
  · subst h
    cases hg : heap[x]? with
    | none => unfold msetNext; rw [hg]
    | some nd => simp [mkey, get_msetNext_self heap l x v nd hg, hg]
  · simp [mkey, get_msetNext_ne heap l n x v h]

theorem height_msetNext (heap : List MNode) (l n x : Nat) (v : Option Nat) : height (msetNext heap l n v) x = height heap x := by
  by_cases h : x = n
  · subst h
    cases hg : heap[x]? with
    | none => unfold msetNext; rw [hg]
    | some nd => simp [height, get_msetNext_self heap l x v nd hg, hg]
  · simp [height, get_msetNext_ne heap l n x v h]

theorem mnext_msetNext_ne (heap : List MNode) (l n : Nat) (v : Option Nat) (j x : Nat) (h : ¬ (j = l ∧ x = n)) :
    mnext (msetNext heap l n v) j x = mnext heap j x := by
  by_cases hx : x = n
  · subst hx
    have hj : j ≠ l := fun e => h ⟨e, rfl⟩
    cases hg : heap[x]? with
    | none => unfold msetNext; rw [hg]
    | some nd =>
      simp only [mnext, get_msetNext_self heap l x v nd hg, hg, towerNext]
      rw [List.getElem?_set_ne (fun e => hj e.symm)]
  · simp [mnext, get_msetNext_ne heap l n x v hx]

theorem mnext_msetNext_self (heap : List MNode) (l n : Nat) (v : Option Nat) (h : l < height heap n) :
    mnext (msetNext heap l n v) l n = v := by
  cases hg : heap[n]? with
  | none => simp [height, hg] at h
  | some nd =>
    have hl : l < nd.nexts.length := by simpa [height, hg] using h
    simp only [mnext, get_msetNext_self heap l n v nd hg, towerNext]
    rw [List.getElem?_set_self hl]
    rfl

/-- writing level `l` of node `n` is `setNextAt` on the level-`l` view -/
theorem proj_msetNext_same (heap : List MNode) (l n : Nat) (v : Option Nat) (h : l < height heap n) :
    proj l (msetNext heap l n v) = setNextAt (proj l heap) n v := by
  cases hg : heap[n]? with
  | none => simp [height, hg] at h
  | some nd =>
    have hl : l < nd.nexts.length := by simpa [height, hg] using h
    have hp : (proj l heap)[n]? = some ⟨nd.key, towerNext nd l⟩ := by rw [proj_get, hg]; rfl
    unfold msetNext setNextAt
    rw [hg, hp]
    simp only [proj, List.map_set, towerNext]
    rw [List.getElem?_set_self hl]
    rfl

/-- … and leaves every other level's view alone -/
theorem proj_msetNext_other (heap : List MNode) (l n j : Nat) (v : Option Nat) (h : j ≠ l) :
    proj j (msetNext heap l n v) = proj j heap := by
  apply List.ext_getElem?
  intro x
  rw [proj_get, proj_get]
  by_cases hx : x = n
  · subst hx
    cases hg : heap[x]? with
    | none => unfold msetNext; rw [hg]; simp [hg]
    | some nd =>
      rw [get_msetNext_self heap l x v nd hg]
      simp only [Option.map_some, towerNext]
      rw [List.getElem?_set_ne (fun e => h e.symm)]
  · rw [get_msetNext_ne heap l n x v hx]

/-! ### program counters and their obligations -/

def pcKey : PC → Option Nat
  | .search k _ _ _ _ _ => some k
  | .alloc k _ _ _ => some k
  | .setNext _ k _ _ _ _ => some k
  | .cas _ k _ _ _ _ => some k
  | .adv _ k _ _ _ _ => some k
  | _ => none

def pcNode : PC → Option Nat
  | .setNext nd _ _ _ _ _ => some nd
  | .cas nd _ _ _ _ _ => some nd
  | .adv nd _ _ _ _ _ => some nd
  | _ => none

/-- what a thread relies on, by kind -/
inductive Obl where
  /-- the search stands on the head or on a level-`l` node before `k` -/
  | stand (k l x : Nat)
  /-- … on the head or on a level-`l` node -/
  | on (l x : Nat)
  /-- the recorded predecessors of levels `lo ≤ j < hi` -/
  | prevs (k lo hi : Nat) (prev : List Nat)
  /-- the recorded successors of levels `lo ≤ j < hi` -/
  | obss (k lo hi : Nat) (obs : List (Option Nat))
  /-- the key is not linked -/
  | fresh (k : Nat)
  /-- the thread's own node -/
  | node (nd k h : Nat)
  /-- own node linked on every level below `idx` -/
  | below (nd idx : Nat)
  /-- own node not linked on any level from `idx` up -/
  | above (nd idx : Nat)
  /-- own node's level-`l` pointer -/
  | nextIs (l nd : Nat) (v : Option Nat)

def StandOk (heap : List MNode) (ids : Nat → List Nat) (k l x : Nat) : Prop :=
  x = 0 ∨ (x ∈ ids l ∧ mkey heap x < k)

def Holds (heap : List MNode) (ins : List Nat) (ids : Nat → List Nat) : Obl → Prop
  | .stand k l x => StandOk heap ids k l x
  | .on l x => x = 0 ∨ x ∈ ids l
  | .prevs k lo hi prev => ∀ j, lo ≤ j → j < hi → StandOk heap ids k j (prev.getD j 0)
  | .obss k lo hi obs => ∀ j, lo ≤ j → j < hi → ∀ n, obs.getD j none = some n → n < heap.length ∧ k < mkey heap n
  | .fresh k => k ∉ ins
  | .node nd k h => 0 < nd ∧ nd < heap.length ∧ height heap nd = h ∧ mkey heap nd = k
  | .below nd idx => ∀ j, j < idx → nd ∈ ids j
  | .above nd idx => ∀ j, idx ≤ j → nd ∉ ids j
  | .nextIs l nd v => nd < heap.length ∧ mnext heap l nd = v

def insObls (nd k idx h : Nat) (prev : List Nat) (obs : List (Option Nat)) : List Obl :=
  [.node nd k h, .below nd idx, .above nd idx, .prevs k idx h prev, .obss k idx h obs] ++
    (if idx = 0 then [.fresh k] else [])

def obls (H : Nat) : PC → List Obl
  | .idle => []
  | .panicked => []
  | .search k _ x lvl prev obs => [.stand k lvl x, .prevs k (lvl + 1) H prev, .obss k (lvl + 1) H obs, .fresh k]
  | .alloc k _ prev obs => [.prevs k 0 H prev, .obss k 0 H obs, .fresh k]
  | .setNext nd k idx h prev obs => insObls nd k idx h prev obs
  | .cas nd k idx h prev obs => .nextIs idx nd (obs.getD idx none) :: insObls nd k idx h prev obs
  | .adv nd k idx h prev obs => insObls nd k idx h prev obs
  | .geq k x lvl _ => [.stand k lvl x]
  | .lt k x lvl => [.stand k lvl x]
  | .last x lvl => [.on lvl x]
  | .nxt x => [.on 0 x]

def posObls : Option Nat → List Obl
  | some x => [.on 0 x]
  | none => []

def thObls (H : Nat) (t : Th) : List Obl := obls H t.pc ++ posObls t.pos

/-- facts about a program counter that no step can change -/
def Pure (H : Nat) : PC → Prop
  | .search _ h _ lvl prev obs => 0 < h ∧ h ≤ H ∧ lvl < H ∧ prev.length = H ∧ obs.length = H
  | .alloc _ h prev obs => 0 < h ∧ h ≤ H ∧ prev.length = H ∧ obs.length = H
  | .setNext _ _ idx h prev obs => idx < h ∧ h ≤ H ∧ prev.length = H ∧ obs.length = H
  | .cas _ _ idx h prev obs => idx < h ∧ h ≤ H ∧ prev.length = H ∧ obs.length = H
  | .adv _ _ idx h prev obs => idx < h ∧ h ≤ H ∧ prev.length = H ∧ obs.length = H
  | .geq _ _ lvl _ => lvl < H
  | .lt _ _ lvl => lvl < H
  | .last _ lvl => lvl < H
  | .panicked => False
  | _ => True

def oblNode : Obl → Option Nat
  | .above nd _ => some nd
  | _ => none

def oblFresh : Obl → Option Nat
  | .fresh k => some k
  | _ => none

/-- only a thread's own node is named by its `above` obligations -/
theorem oblNode_obls {H : Nat} {pc : PC} {o : Obl} {n : Nat} (ho : o ∈ obls H pc) (hn : oblNode o = some n) :
    pcNode pc = some n := by
  cases o with
  | above nd idx =>
    simp only [oblNode, Option.some.injEq] at hn
    subst hn
    cases pc <;> simp [obls, insObls, pcNode] at ho ⊢
    all_goals exact ho.1.symm
  | _ => simp [oblNode] at hn

/-- only a thread's own key is named by its `fresh` obligations -/
theorem oblFresh_obls {H : Nat} {pc : PC} {o : Obl} {k : Nat} (ho : o ∈ obls H pc) (hk : oblFresh o = some k) :
    pcKey pc = some k := by
  cases o with
  | fresh k' =>
    simp only [oblFresh, Option.some.injEq] at hk
    subst hk
    cases pc <;> simp [obls, insObls, pcKey] at ho ⊢
    all_goals first
      | exact ho.symm
      | exact ho.2.symm
  | _ => simp [oblFresh] at hk

end Blue.SkipML
