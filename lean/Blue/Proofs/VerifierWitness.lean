import Blue.Proofs.Verifier
import Blue.Proofs.VerifierCrash
import Blue.Proofs.VerifierKeeps
/-! Witnesses for the verifier theorems (closed computations): `dW`, a directory that meets ALL
    hypotheses of `reopen_after_verifier` at once (fragments numbered in ascending order, nothing
    logged, the manifest directory CHAINED — `exD` and `exR` are not) and on which the pass does
    real work (9 durable actions: two fragments verified, logged, unlinked, both trash entries
    unlinked); a reachable directory with a pending intent; and the observation that the safety
    theorems say nothing for a checker that never passes. -/
namespace Blue.Verifier
open Blue.Mani Blue.ManiCrash

def rollW (es : List Edit) : Edit := maniAlgebra.rollup (replay maniAlgebra es)

/-- fragment 1: create, add `a`, replace `a` by `b` -/
def fW1 : List Edit :=
  [⟨[], [], [(68, [48]), (73, [48]), (79, [48])]⟩, ⟨[], [[97]], [(73, [48]), (79, [49]), (68, [48])]⟩,
   ⟨[[97]], [[98]], [(73, [49]), (79, [50]), (68, [48])]⟩]
/-- fragment 2: the roll-up of fragment 1, replace `b` by `c` -/
def fW2 : List Edit := [rollW fW1, ⟨[[98]], [[99]], [(73, [50]), (79, [51]), (68, [48])]⟩]
/-- fragment 3: the roll-up of fragment 2 -/
def fW3 : List Edit := [rollW fW2]

def dW : Dir Name :=
  { sst := [[99]], trash := [trashSst [97], trashSst [98]], frags := [(1, fW1), (2, fW2), (3, fW3)],
    live := [rollW fW3], vstrs := [], vM := none, vO := [48], done := [] }

theorem dW_hyps : Sorted dW ∧ NoneEmpty dW ∧ chainOk (fragLists dW) = true ∧ Reach chainChecker dW :=
  ⟨by unfold Sorted; decide, fun _ => rfl, by decide, Reach.fresh _ rfl rfl rfl⟩

theorem dW_pass : (pass chainChecker dW).2 = .ok ∧ (pass chainChecker dW).1.length = 9
    ∧ (final chainChecker dW).trash = [] ∧ (final chainChecker dW).frags.map (·.1) = [3]
    ∧ (final chainChecker dW).sst = [[99]] := by decide

/-- `trash/` after each prefix of the pass: the entries go one by one, after their intents -/
theorem dW_prefixes :
    (List.range 13).map (fun k => (run dW ((pass chainChecker dW).1.take k)).trash.length)
      = [2, 2, 2, 1, 1, 1, 1, 1, 0, 0, 0, 0, 0] := by decide

theorem dW_listed : Blue.Orphans.listed (fragLists dW) = [[99]] := by decide

/-- a reachable directory with a pending intent and a non-empty log: `exD` cut after the unlink of
    its fragment -/
def dCut : Dir Name := run exD ((pass chainChecker exD).1.take 2)

theorem dCut_reach : Reach chainChecker dCut := Reach.crashed exD 2 (Reach.fresh _ rfl rfl rfl)

theorem dCut_state : dCut.vstrs = [[120, 46, 115, 115, 116]] ∧ dCut.vM = some 1 ∧ dCut.frags.map (·.1) = [2] := by
  decide

/-- a checker that never passes: the pass does nothing at all — the verifier theorems are safety
    statements ("what is unlinked was justified"), they do not say that anything is ever unlinked -/
def neverChecker : Checker Name := ⟨fun _ _ => none, false⟩

theorem never_does_nothing : (pass neverChecker exD).1 = [] ∧ (pass neverChecker dW).1 = [] := by decide

/-- `x` removed by fragment 1, added again by fragment 2, removed again by `MANIFEST` itself (the
    removal has not been rolled into a fragment yet); one copy in `trash/` -/
def dM : Dir Name :=
  { sst := [], trash := [[120, 46, 115, 115, 116]],
    live := [⟨[], [[120]], [(73, [49]), (79, [50]), (68, [48])]⟩, ⟨[[120]], [], [(73, [50]), (79, [51]), (68, [48])]⟩],
    frags := [(1, [⟨[], [[120]], [(73, [48]), (79, [48]), (68, [48])]⟩, ⟨[[120]], [], [(73, [48]), (79, [49]), (68, [48])]⟩]),
              (2, [⟨[], [], [(73, [48]), (79, [49]), (68, [48])]⟩, ⟨[], [[120]], [(73, [49]), (79, [50]), (68, [48])]⟩]),
              (3, [⟨[], [[120]], [(73, [49]), (79, [50]), (68, [48])]⟩])],
    vstrs := [], vM := none, vO := [48], done := [] }

/-- as repaired the pass verifies and unlinks fragments 1 and 2 (7 actions) and the copy is still
    there; as the code was the copy goes with fragment 1 and fragment 2's check fails -/
theorem dM_kept : (pass chainChecker dM).2 = .ok ∧ (pass chainChecker dM).1.length = 7
    ∧ (final chainChecker dM).trash = [[120, 46, 115, 115, 116]] ∧ (final chainChecker dM).frags.map (·.1) = [3]
    ∧ (pass chainCheckerAsWas dM).2 = .corrupt ∧ (final chainCheckerAsWas dM).trash = [] := by decide

theorem dM_hyps : dM.vstrs = [] ∧ [120] ∈ dM.live.flatMap removedBy ∧ trashSst [120] ∈ dM.trash := by decide

end Blue.Verifier
