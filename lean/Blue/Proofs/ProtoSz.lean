import Blue.Model.ProtoSz
import Blue.Proofs.ProtoMsg
/-! `pack_sz = length` for the whole schema language (property C15): the size the
    `Packable::pack_sz` implementations add up (`Blue/Model/ProtoSz.lean`) is the number of bytes
    `pack` writes (`Blue.ProtoMsg.packMsg`), by structural induction on the message type. -/
namespace Blue.ProtoMsg
open Blue.Wire

theorem szTag_eq (t : Tag) (ht : validFieldNumber t.num = true) : szTag t = (encTag t).length := by
  have hb := bits_lt t.wt
  unfold validFieldNumber at ht
  simp only [Bool.and_eq_true, decide_eq_true_eq, Bool.not_eq_true'] at ht
  unfold szTag encTag
  exact varintSz_eq _ (by unfold U64; omega)

theorem szFrame_eq (b : List Nat) (hb : b.length < U64) : szFrame b.length = (encBytes b).length := by
  unfold szFrame encBytes
  rw [varintSz_eq _ hb, List.length_append]

theorem szScalar_eq (s : Scalar) (v : Val) (h : WfScalar s v) : szScalar s v = (encScalar s v).length := by
  cases s <;> cases v <;> simp only [WfScalar] at h
  case int32.int i => exact varintSz_eq _ (u64OfI64_lt i)
  case int64.int i => exact varintSz_eq _ (u64OfI64_lt i)
  case uint32.int i => exact varintSz_eq _ (by unfold P32 at h; unfold U64; omega)
  case uint64.int i => exact varintSz_eq _ (by omega)
  case sint32.int i => exact varintSz_eq _ (zigzag_lt i (p31_p63 h.1 h.2).1 (p31_p63 h.1 h.2).2)
  case sint64.int i => exact varintSz_eq _ (zigzag_lt i h.1 h.2)
  case bool.int i => exact varintSz_eq _ (by unfold U64; split <;> omega)
  case fixed32.int i => exact (Blue.Proto.leBytes_length 4 _).symm
  case fixed64.int i => exact (Blue.Proto.leBytes_length 8 _).symm
  case sfixed32.int i => exact (Blue.Proto.leBytes_length 4 _).symm
  case sfixed64.int i => exact (Blue.Proto.leBytes_length 8 _).symm
  case float.int i => exact (Blue.Proto.leBytes_length 4 _).symm
  case double.int i => exact (Blue.Proto.leBytes_length 8 _).symm
  case bytes.bytes b => exact szFrame_eq b h
  case bytesN.bytes n b => exact szFrame_eq b (by omega)
  case string.bytes b => exact szFrame_eq b h.1

section Generic
variable (wf : Msg → Val → Prop) (pk : Msg → Val → List Nat) (sz : Msg → Val → Nat)
  (H : ∀ m x, wf m x → sz m x = (pk m x).length)
include H

theorem szTy_eq (ty : Ty) (v : Val) (h : WfTyWith wf pk ty v) :
    szTyWith sz ty v = (encTyWith pk ty v).length := by
  cases ty with
  | scalar s => exact szScalar_eq s v h
  | msg m =>
    simp only [WfTyWith] at h
    simp only [szTyWith, encTyWith, H m v h.1]
    exact szFrame_eq _ h.2

theorem szOne_eq (num : Nat) (ty : Ty) (v : Val) (hn : validFieldNumber num = true)
    (h : WfTyWith wf pk ty v) : szOne sz num ty v = (packOne pk num ty v).length := by
  unfold szOne packOne
  rw [List.length_append, szTag_eq ⟨num, ty.wt⟩ hn, szTy_eq wf pk sz H ty v h]

theorem szSum_eq (num : Nat) (ty : Ty) (hn : validFieldNumber num = true) :
    ∀ (vs : List Val), (∀ x ∈ vs, WfTyWith wf pk ty x) →
      szSum (szOne sz num ty) vs = (vs.flatMap (packOne pk num ty)).length
  | [], _ => rfl
  | v :: vs, h => by
    simp only [szSum, List.flatMap_cons, List.length_append]
    rw [szOne_eq wf pk sz H num ty v hn (h v List.mem_cons_self),
      szSum_eq num ty hn vs (fun x hx => h x (List.mem_cons_of_mem _ hx))]

theorem szSlot_eq (f : Field) (v : Val) (hn : validFieldNumber f.num = true) (h : WfSlotWith wf pk f v) :
    szSlot sz f v = (packSlot pk f v).length := by
  unfold WfSlotWith at h
  unfold szSlot packSlot
  cases hc : f.card <;> cases v <;> simp only [hc] at h ⊢ <;>
    first
      | exact szOne_eq wf pk sz H _ _ _ hn h
      | exact szSum_eq wf pk sz H _ _ hn _ h
      | rfl
      | exact h.elim

theorem szFields_eq : ∀ (fs : List Field) (vs : List Val), WfFieldsWith wf pk fs vs →
    szFields sz fs vs = (packFields pk fs vs).length
  | [], [], _ => rfl
  | [], _ :: _, h => by simp [WfFieldsWith] at h
  | _ :: _, [], h => by simp [WfFieldsWith] at h
  | f :: fs, v :: vs, h => by
    simp only [WfFieldsWith] at h
    simp only [szFields, packFields, List.length_append]
    rw [szSlot_eq wf pk sz H f v h.1 h.2.1, szFields_eq fs vs h.2.2]

end Generic

/-- **C15** `pack_sz = length`: for every message type of the schema language and every value of
    it, the size `pack_sz` adds up is the number of bytes `pack` writes -/
theorem packSz_eq_length : ∀ (f : Nat) (m : Msg) (v : Val), WfMsg f m v →
    packSzMsg f m v = (packMsg f m v).length := by
  intro f
  induction f with
  | zero => intro m v h; simp [WfMsg] at h
  | succ f ih =>
    intro m v h
    cases m with
    | struct fs =>
      cases v <;> simp only [WfMsg] at h
      case struct vs =>
        simp only [packSzMsg, packMsg]
        exact szFields_eq (WfMsg f) (packMsg f) (packSzMsg f) ih fs vs h.1
    | enum vars d =>
      cases v <;> simp only [WfMsg] at h
      case variant i p =>
        obtain ⟨var, hvar, hn, _, hw⟩ := h
        cases var with
        | unit n =>
          cases p <;> simp only [WfVariantWith] at hw
          case struct vs =>
            simp only [packSzMsg, packMsg, hvar, List.length_append]
            rw [szTag_eq ⟨n, .lengthDelimited⟩ hn]
            have := szFrame_eq [] (by unfold U64; simp)
            simpa using this
        | tuple n ty =>
          simp only [WfVariantWith] at hw
          simp only [packSzMsg, packMsg, hvar]
          exact szOne_eq (WfMsg f) (packMsg f) (packSzMsg f) ih n ty p hn hw
        | named n fs =>
          cases p <;> simp only [WfVariantWith] at hw
          case struct vs =>
            simp only [packSzMsg, packMsg, hvar, List.length_append]
            rw [szTag_eq ⟨n, .lengthDelimited⟩ hn,
              szFields_eq (WfMsg f) (packMsg f) (packSzMsg f) ih fs vs hw.1, szFrame_eq _ hw.2.2]
    | result okm errm d =>
      cases v <;> simp only [WfMsg] at h
      case variant i p =>
        rcases h with ⟨rfl, hw, hl⟩ | ⟨rfl, hw, hl⟩
        · simp only [packSzMsg, packMsg, if_true, List.length_append]
          rw [varintSz_eq 10 (by unfold U64; omega), ih okm p hw, szFrame_eq _ hl]
        · have h0 : ¬ (1 = 0) := by omega
          simp only [packSzMsg, packMsg, h0, if_false, if_true, List.length_append]
          rw [varintSz_eq 18 (by unfold U64; omega), ih errm p hw, szFrame_eq _ hl]

end Blue.ProtoMsg
