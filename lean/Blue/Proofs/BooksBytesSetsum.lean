import Blue.Proofs.BooksBytes
import Blue.Proofs.SetsumGrp
import Blue.Proofs.SetsumDigest
/-! The codec of `Blue.BooksBytes` for the setsum group of C14: `Setsum::hexdigest` and
    `Setsum::from_hexdigest` (Blue/Model/Setsum.lean) on the canonical values, as bytes. -/
namespace Blue.BooksBytes
open Blue.Books Blue.Mani Blue.Setsum

instance (s : Blue.Setsum.State) : Decidable (Canonical s) := by unfold Canonical; infer_instance

/-- `hexdigest` as ASCII bytes; `from_hexdigest` on bytes, into the canonical values (every value it
    accepts is canonical — C14 `fromHexdigest_canonical` — so the test never fails) -/
def setsumCodec : Codec CState :=
  ⟨fun s => (hexdigest s.1).map Char.toNat,
   fun bs => match fromHexdigest (bs.map Char.ofNat) with
     | some st => if hc : Canonical st then some ⟨st, hc⟩ else none
     | none => none⟩

theorem hexDigit_ascii (n : Nat) : (Blue.Setsum.hexDigit n).toNat < 128 ∧ (Blue.Setsum.hexDigit n).toNat ≠ 10
    ∧ (Blue.Setsum.hexDigit n).toNat ≠ 13 := by
  unfold Blue.Setsum.hexDigit
  split <;> decide

theorem hexdigest_chars (s : Blue.Setsum.State) : ∀ ch ∈ hexdigest s, ch.toNat < 128 ∧ ch.toNat ≠ 10 ∧ ch.toNat ≠ 13 := by
  intro ch hch
  unfold hexdigest at hch
  obtain ⟨b, _, hb⟩ := List.mem_flatMap.mp hch
  unfold hexByte at hb
  simp only [List.mem_cons, List.not_mem_nil, or_false] at hb
  rcases hb with rfl | rfl <;> exact hexDigit_ascii _

/-- **the hexdigest functions of C14 are a codec the theorems accept** -/
theorem setsumCodec_ok : setsumCodec.Ok := by
  constructor
  · intro x
    show (match fromHexdigest (((hexdigest x.1).map Char.toNat).map Char.ofNat) with
      | some st => if hc : Canonical st then some (⟨st, hc⟩ : CState) else none
      | none => none) = some x
    have hid : ((hexdigest x.1).map Char.toNat).map Char.ofNat = hexdigest x.1 := by
      rw [List.map_map]
      conv => rhs; rw [← List.map_id (hexdigest x.1)]
      apply List.map_congr_left
      intro ch _
      simp
    rw [hid, fromHexdigest_hexdigest x.2]
    simp only [x.2, dite_true]
  · intro x
    have hlen : ((hexdigest x.1).map Char.toNat).length = 64 := by rw [List.length_map, hexdigest_length]
    refine ⟨?_, ?_, ?_⟩
    · intro hnil
      rw [show setsumCodec.render x = (hexdigest x.1).map Char.toNat from rfl] at hnil
      rw [hnil] at hlen
      cases hlen
    · intro b hb
      obtain ⟨ch, hch, rfl⟩ := List.mem_map.mp hb
      exact ⟨(hexdigest_chars x.1 ch hch).1, (hexdigest_chars x.1 ch hch).2.1⟩
    · intro hlast
      have hmem := List.mem_of_getLast? hlast
      obtain ⟨ch, hch, h13⟩ := List.mem_map.mp hmem
      exact (hexdigest_chars x.1 ch hch).2.2 h13

end Blue.BooksBytes
