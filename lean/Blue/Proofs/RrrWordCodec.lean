import Blue.Proofs.RrrWordBits
import Blue.Proofs.RrrWordTab
/-! `decode (encode w) = w` and the width of the offset: the combinatorial number system of
    `rrr::encode` / `rrr::decode` over the table `K`. -/
namespace Blue.Rrr
open Blue.BitArr

/-! ### the running popcount of a 63-bit word -/

theorem lowPop_zero (w : Nat) : lowPop w 0 = 0 := by
  unfold lowPop; rw [Nat.pow_zero, Nat.mod_one]; rfl

theorem lowPop_succ (w n : Nat) (hw : w < 2 ^ 63) :
    lowPop w (n + 1) = lowPop w n + (if bitAt w n then 1 else 0) := by
  have hl : (toBits w 63).length ≤ 64 := by rw [toBits_length]; omega
  rw [← ofBits_toBits_of_lt 63 w hw, lowPop_ofBits' _ _ hl, lowPop_ofBits' _ _ hl, bitAt_ofBits',
    List.take_add_one, List.count_append]
  generalize toBits w 63 = ch
  rw [List.getD_eq_getElem?_getD]
  cases h : ch[n]? with
  | none => simp
  | some b => cases b <;> simp

theorem lowPop_le (w : Nat) (hw : w < 2 ^ 63) : ∀ n, lowPop w n ≤ n
  | 0 => by rw [lowPop_zero]; omega
  | n + 1 => by
    have := lowPop_le w hw n
    rw [lowPop_succ w n hw]
    split <;> omega

theorem lowPop_full (w : Nat) (hw : w < 2 ^ 63) : lowPop w 63 = popcount w := by
  unfold lowPop; rw [Nat.mod_eq_of_lt hw]

theorem mod_pow_succ_bit (w n : Nat) : w % 2 ^ (n + 1) = w % 2 ^ n + (if bitAt w n then 2 ^ n else 0) := by
  rw [Nat.mod_pow_succ]
  unfold bitAt
  rcases Nat.mod_two_eq_zero_or_one (w / 2 ^ n) with h | h <;> simp [h]

/-! ### the encoder's sum -/

theorem encLoop_zero (w r o : Nat) : encLoop w 0 r o = o := rfl
theorem encLoop_succ (w n r o : Nat) :
    encLoop w (n + 1) r o = if bitAt w n then encLoop w n (r - 1) (o + kAt (n + 1) r) else encLoop w n r o := rfl

theorem encLoop_acc (w : Nat) : ∀ (n r o : Nat), encLoop w n r o = o + encLoop w n r 0
  | 0, r, o => by rw [encLoop_zero, encLoop_zero]; rfl
  | n + 1, r, o => by
    rw [encLoop_succ, encLoop_succ]
    split
    · rw [encLoop_acc w n (r - 1) (o + kAt (n + 1) r), encLoop_acc w n (r - 1) (0 + kAt (n + 1) r)]
      omega
    · exact encLoop_acc w n r o

/-- the sum over the set bits below position `n`, the `i`-th of them (from the bottom, at position
    `p`) contributing `K[p+1][i]` -/
def encSum (w n : Nat) : Nat := encLoop w n (lowPop w n) 0

theorem encSum_zero (w : Nat) : encSum w 0 = 0 := rfl

theorem encSum_succ_set (w n : Nat) (hw : w < 2 ^ 63) (hb : bitAt w n = true) :
    encSum w (n + 1) = kAt (n + 1) (lowPop w n + 1) + encSum w n := by
  unfold encSum
  rw [encLoop_succ, if_pos hb, lowPop_succ w n hw, if_pos hb, Nat.add_sub_cancel, encLoop_acc, Nat.zero_add]

theorem encSum_succ_clear (w n : Nat) (hw : w < 2 ^ 63) (hb : bitAt w n = false) :
    encSum w (n + 1) = encSum w n := by
  unfold encSum
  rw [encLoop_succ, lowPop_succ w n hw]
  simp [hb]

/-- the key inequality of the combinatorial number system: the sum over `r` set bits below position
    `n` is below `C(n+1, r)` -/
theorem encSum_lt (w : Nat) (hw : w < 2 ^ 63) : ∀ n, n ≤ 62 → encSum w n < kAt (n + 1) (lowPop w n)
  | 0, _ => by
    rw [encSum_zero, lowPop_zero, kAt_zero 1 (by omega)]; omega
  | n + 1, h => by
    have ih := encSum_lt w hw n (by omega)
    cases hb : bitAt w n with
    | true =>
      rw [encSum_succ_set w n hw hb, lowPop_succ w n hw, if_pos hb, kAt_pascal (n + 1) (lowPop w n) (by omega)]
      omega
    | false =>
      rw [encSum_succ_clear w n hw hb, lowPop_succ w n hw]
      simp only [hb, Bool.false_eq_true, if_false, Nat.add_zero]
      have := kAt_mono (n + 1) (lowPop w n) (by omega)
      omega

/-- every term is at least one -/
theorem encSum_ge (w : Nat) (hw : w < 2 ^ 63) : ∀ n, n ≤ 63 → lowPop w n ≤ encSum w n
  | 0, _ => by rw [lowPop_zero]; omega
  | n + 1, h => by
    have ih := encSum_ge w hw n (by omega)
    cases hb : bitAt w n with
    | true =>
      rw [encSum_succ_set w n hw hb, lowPop_succ w n hw, if_pos hb]
      have := kAt_pos (n + 1) (lowPop w n + 1) h (by have := lowPop_le w hw n; omega)
      omega
    | false =>
      rw [encSum_succ_clear w n hw hb, lowPop_succ w n hw]
      simp only [hb, Bool.false_eq_true, if_false, Nat.add_zero]
      exact ih

/-- the whole sum is below `C(64, c) = K[63][c] + K[63][c-1]` -/
theorem encSum_full_lt (w : Nat) (hw : w < 2 ^ 63) :
    encSum w 63 < kAt 63 (popcount w) + kAt 63 (popcount w - 1) := by
  have h62 : encSum w 62 < kAt 63 (lowPop w 62) := encSum_lt w hw 62 (by omega)
  have hp : lowPop w 63 = lowPop w 62 + (if bitAt w 62 then 1 else 0) := lowPop_succ w 62 hw
  rw [lowPop_full w hw] at hp
  cases hb : bitAt w 62 with
  | true =>
    have e : encSum w 63 = kAt 63 (lowPop w 62 + 1) + encSum w 62 := encSum_succ_set w 62 hw hb
    rw [if_pos hb] at hp
    rw [e, hp, Nat.add_sub_cancel]
    omega
  | false =>
    have e : encSum w 63 = encSum w 62 := encSum_succ_clear w 62 hw hb
    simp only [hb, Bool.false_eq_true, if_false, Nat.add_zero] at hp
    rw [e, hp]
    omega

/-! ### the decoder -/

theorem decLoop_zero (o c word : Nat) : decLoop 0 o c word = some word := rfl
theorem decLoop_succ (n o c word : Nat) :
    decLoop (n + 1) o c word =
      match kGet (n + 1) c with
      | none => none
      | some skip => if o ≥ skip then decLoop n (o - skip) (c - 1) (word + 2 ^ n) else decLoop n o c word := rfl

/-- the greedy decoder retraces the encoder's sum -/
theorem decLoop_encSum (w : Nat) (hw : w < 2 ^ 63) : ∀ (n : Nat), n ≤ 63 → ∀ word,
    decLoop n (encSum w n) (lowPop w n) word = some (word + w % 2 ^ n)
  | 0, _, word => by rw [decLoop_zero, Nat.pow_zero, Nat.mod_one, Nat.add_zero]
  | n + 1, h, word => by
    have hle := lowPop_le w hw (n + 1)
    rw [decLoop_succ, kGet_some (n + 1) _ h hle, mod_pow_succ_bit]
    simp only
    cases hb : bitAt w n with
    | true =>
      rw [encSum_succ_set w n hw hb, lowPop_succ w n hw, if_pos hb, if_pos (by omega), Nat.add_sub_cancel,
        Nat.add_sub_cancel_left, decLoop_encSum w hw n (by omega), if_pos rfl]
      congr 1; omega
    | false =>
      have hlt := encSum_lt w hw n (by omega)
      rw [encSum_succ_clear w n hw hb, lowPop_succ w n hw]
      simp only [hb, Bool.false_eq_true, if_false, Nat.add_zero]
      rw [if_neg (by omega), decLoop_encSum w hw n (by omega)]

/-! ### the theorems -/

theorem encode_class' (w : Nat) : (encode w).2 = popcount w := by
  unfold encode
  simp only
  split <;> rfl

theorem encode_offset (w : Nat) (hw : w < 2 ^ 63) (h0 : popcount w ≠ 0) (h63 : popcount w ≠ 63) :
    (encode w).1 = encSum w 63 - popcount w := by
  unfold encode
  simp only
  rw [if_neg (by omega)]
  unfold encSum
  rw [lowPop_full w hw]

/-- **C19** `decode(encode(w)) = w` for every 63-bit word -/
theorem decode_encode (w : Nat) (hw : w < 2 ^ 63) : decode (encode w).1 (encode w).2 = some w := by
  rw [encode_class']
  by_cases h0 : popcount w = 0
  · have := eq_zero_of_popcount w hw h0
    subst this; rfl
  · by_cases h63 : popcount w = 63
    · have := eq_ones_of_popcount w hw h63
      subst this
      unfold decode
      rw [if_neg h0, if_pos h63]
    · rw [encode_offset w hw h0 h63]
      unfold decode
      rw [if_neg h0, if_neg h63]
      have hge := encSum_ge w hw 63 (by omega)
      rw [lowPop_full w hw] at hge
      rw [Nat.sub_add_cancel hge]
      have := decLoop_encSum w hw 63 (by omega) 0
      rw [lowPop_full w hw, Nat.mod_eq_of_lt hw, Nat.zero_add] at this
      exact this

/-- **C19** the offset fits the `L[c]` bits it is stored in -/
theorem encode_fits (w : Nat) (hw : w < 2 ^ 63) : (encode w).1 < 2 ^ (lTab.getD (popcount w) 0) := by
  by_cases h0 : popcount w = 0
  · unfold encode
    simp only
    rw [if_pos (Or.inl h0)]
    exact Nat.pow_pos (by omega)
  · by_cases h63 : popcount w = 63
    · unfold encode
      simp only
      rw [if_pos (Or.inr h63)]
      exact Nat.pow_pos (by omega)
    · rw [encode_offset w hw h0 h63]
      have hle := popcount_le_of_lt w hw
      have h1 := encSum_full_lt w hw
      have h2 := fits_bound (popcount w) (by omega) (by omega)
      have hge := encSum_ge w hw 63 (by omega)
      rw [lowPop_full w hw] at hge
      omega

end Blue.Rrr
