import Blue.Proofs.BitArr
import Blue.Model.Rrr
/-! Further bit-array facts used by the RRR layout proofs: what a load that starts in (or beyond) the
    seal padding returns, and the model's `pack` / `packF` as the `push_word` folds. -/
namespace Blue.BitArr

/-- a load that starts at or after the end of the pushed bits either fails or reads only padding: `0` -/
theorem load_sealed_pad (a : List Bool) (idx w : Nat) (h : a.length ≤ idx) :
    load (sealBits a) idx w = none ∨ load (sealBits a) idx w = some 0 := by
  rw [load_whole _ (sealBits_length_mod a)]
  by_cases hw : w = 0
  · right; rw [if_pos hw]
  · rw [if_neg hw]
    by_cases hle : idx + w ≤ (sealBits a).length
    · right
      rw [if_pos hle, sealBits_eq, List.drop_append]
      have : List.drop idx a = [] := List.drop_eq_nil_of_le h
      rw [this, List.nil_append, List.drop_replicate, List.take_replicate, ofBits_replicate_false]
    · left; rw [if_neg hle]

/-- a zero-width load succeeds anywhere -/
theorem load_zero (a : List Bool) (idx : Nat) : load a idx 0 = some 0 := load_zero_width a idx

end Blue.BitArr

namespace Blue.Rrr
open Blue.BitArr

theorem pack_eq_packAll (vals : List Nat) (w : Nat) : pack vals w = packAll vals w := by
  rw [packAll_eq]; rfl

theorem packF_eq_packFields (fs : List (Nat × Nat)) : packF fs = packFields fs := rfl

/-- `pack` is the fold of `push_word`s over an empty builder -/
theorem pack_eq_foldl (vals : List Nat) (w : Nat) :
    pack vals w = vals.foldl (fun a v => pushWord a v w) [] := pack_eq_packAll vals w

/-- `packF` is the fold of `push_word`s over an empty builder -/
theorem packF_eq_foldl (fs : List (Nat × Nat)) :
    packF fs = fs.foldl (fun a f => pushWord a f.1 f.2) [] := by
  rw [foldl_pushWord_fields]; rfl

/-- zero-width fields leave no trace in the array -/
theorem packFields_filter (fs : List (Nat × Nat)) :
    packFields (fs.filter (fun f => decide (f.2 > 0))) = packFields fs := by
  induction fs with
  | nil => rfl
  | cons f t ih =>
    rw [List.filter_cons]
    by_cases h : f.2 > 0
    · rw [if_pos (by simpa using h)]
      show packFields ([f] ++ _) = packFields ([f] ++ t)
      rw [packFields_append, packFields_append, ih]
    · rw [if_neg (by simpa using h), ih]
      have h0 : f.2 = 0 := by omega
      show _ = packFields ([f] ++ t)
      rw [packFields_append]
      have : packFields [f] = [] := by simp [packFields, h0]
      rw [this, List.nil_append]

end Blue.Rrr
