import Blue.Proofs.PsiWt
import Blue.Proofs.CsaDoc
/-! **C19** the inputs `PsiDocument::construct` hands to `WaveletTreePsi::construct` — the first
    symbol of every rank and ψ, both read off the sorted suffixes of a real text with its end
    marker — satisfy the hypotheses of the `Blue.PsiWt` theorems (`Good`, `IsColumn`), and the
    conclusions of those theorems are the abstract index `Blue.Csa`:
    * `good_of_suffixes`: `Good (symsOf l) (psiOf T l)`;
    * `column_of_sigmaRange`: `Sigma::sa_range_for(c)` is a column, and it does not start at rank 0;
    * `constrain_is_csa`: `WaveletTreePsi::constrain` on that column is `Blue.Csa.constrain`;
    * `lookup_is_csa`: `WaveletTreePsi::lookup` is `Blue.Csa.psi` on every rank but the end marker's
      (`lookup_marker`: there it is the rank of the whole text). -/
namespace Blue.PsiWt
open Blue.Csa Blue.CsaDoc


/-! ### the marked text and its suffixes -/

theorem withMarker_length (text : List Nat) : (withMarker text).length = text.length + 1 := by
  simp [withMarker]

theorem withMarker_drop_last (text : List Nat) : (withMarker text).drop text.length = [0] := by
  rw [drop_withMarker text _ (Nat.le_refl _)]
  simp

theorem withMarker_drop_lt (text : List Nat) (k : Nat) (hk : k < text.length) :
    ∃ a t, (withMarker text).drop k = (a + 1) :: t ∧ t ≠ [] := by
  rw [drop_withMarker text k (Nat.le_of_lt hk), List.drop_eq_getElem_cons hk]
  exact ⟨text[k], (text.drop (k + 1)).map (· + 1) ++ [0], rfl, by simp⟩

/-- what the proofs below use of `l` = the sorted suffixes of `T = withMarker text` -/
structure Idx (T : List Nat) (l : List (List Nat)) : Prop where
  sorted : Sorted l
  len : l.length = T.length
  mem : ∀ s, s ∈ l ↔ ∃ k, k < T.length ∧ s = T.drop k
  shape : ∀ s, s ∈ l → s = [0] ∨ ∃ a t, s = (a + 1) :: t ∧ t ≠ []
  marker : [0] ∈ l

theorem idx_of_suffixes (text : List Nat) (l : List (List Nat))
    (hperm : l.Perm (suffixes (withMarker text))) (hsorted : l.Pairwise (fun a b => lexLt a b = true)) :
    Idx (withMarker text) l := by
  have hmem : ∀ s, s ∈ l ↔ ∃ k, k < (withMarker text).length ∧ s = (withMarker text).drop k := by
    intro s
    rw [hperm.mem_iff]
    exact mem_suffixes
  refine ⟨sorted_of_suffixes _ l hperm hsorted, ?_, hmem, ?_, ?_⟩
  · rw [hperm.length_eq]; simp [suffixes]
  · intro s hs
    obtain ⟨k, hk, rfl⟩ := (hmem s).mp hs
    rw [withMarker_length] at hk
    by_cases hlt : k < text.length
    · right; exact withMarker_drop_lt text k hlt
    · left
      have : k = text.length := by omega
      subst this
      exact withMarker_drop_last text
  · apply (hmem _).mpr
    refine ⟨text.length, ?_, (withMarker_drop_last text).symm⟩
    rw [withMarker_length]; omega

/-- the suffix that follows `s` in the text; the end marker's suffix wraps around -/
def nxt (T s : List Nat) : List Nat := if s.length ≤ 1 then T else s.tail

theorem nxt_cons (T : List Nat) (x : Nat) (t : List Nat) (ht : t ≠ []) : nxt T (x :: t) = t := by
  unfold nxt
  have : 0 < t.length := List.length_pos_iff.mpr ht
  rw [if_neg (by simp only [List.length_cons]; omega)]
  rfl

theorem nxt_marker (T : List Nat) : nxt T [0] = T := by
  unfold nxt
  rw [if_pos (by simp)]

namespace Idx
variable {T : List Nat} {l : List (List Nat)}

theorem pos (h : Idx T l) : 0 < T.length := by
  rw [← h.len]
  exact List.length_pos_of_mem h.marker

theorem whole (h : Idx T l) : T ∈ l := (h.mem T).mpr ⟨0, h.pos, by simp⟩

theorem len_le (h : Idx T l) {s : List Nat} (hs : s ∈ l) : 1 ≤ s.length ∧ s.length ≤ T.length := by
  obtain ⟨k, hk, rfl⟩ := (h.mem s).mp hs
  rw [List.length_drop]
  omega

theorem eq_of_length (h : Idx T l) {s s' : List Nat} (hs : s ∈ l) (hs' : s' ∈ l)
    (e : s.length = s'.length) : s = s' := by
  obtain ⟨k, hk, rfl⟩ := (h.mem s).mp hs
  obtain ⟨k', hk', rfl⟩ := (h.mem s').mp hs'
  rw [List.length_drop, List.length_drop] at e
  have : k = k' := by omega
  rw [this]

theorem nxt_mem (h : Idx T l) {s : List Nat} (hs : s ∈ l) : nxt T s ∈ l := by
  unfold nxt
  by_cases hc : s.length ≤ 1
  · rw [if_pos hc]; exact h.whole
  · rw [if_neg hc]; exact h.sorted.tails s hs (by omega)

theorem nxt_inj (h : Idx T l) {s s' : List Nat} (hs : s ∈ l) (hs' : s' ∈ l)
    (e : nxt T s = nxt T s') : s = s' := by
  apply h.eq_of_length hs hs'
  have e' := congrArg List.length e
  have h1 := h.len_le hs
  have h2 := h.len_le hs'
  unfold nxt at e'
  by_cases hc : s.length ≤ 1
  · by_cases hc' : s'.length ≤ 1
    · omega
    · rw [if_pos hc, if_neg hc', List.length_tail] at e'; omega
  · by_cases hc' : s'.length ≤ 1
    · rw [if_neg hc, if_pos hc', List.length_tail] at e'; omega
    · rw [if_neg hc, if_neg hc', List.length_tail, List.length_tail] at e'; omega

theorem nxt_surj (h : Idx T l) {s : List Nat} (hs : s ∈ l) : ∃ s', s' ∈ l ∧ nxt T s' = s := by
  obtain ⟨k, hk, rfl⟩ := (h.mem s).mp hs
  rcases Nat.eq_zero_or_pos k with h0 | hpos
  · subst h0
    exact ⟨[0], h.marker, by rw [nxt_marker]; simp⟩
  · refine ⟨T.drop (k - 1), (h.mem _).mpr ⟨k - 1, by omega, rfl⟩, ?_⟩
    unfold nxt
    rw [if_neg (by rw [List.length_drop]; omega), List.tail_drop]
    congr 1
    omega

theorem nodup (h : Idx T l) : l.Nodup := by
  rw [List.nodup_iff_pairwise_ne]
  apply h.sorted.sorted.imp
  intro a b hab e
  subst e
  rw [lexLt_irrefl] at hab
  cases hab

theorem idxOf_str (h : Idx T l) {i : Nat} (hi : i < l.length) : l.idxOf (str l i) = i := by
  rw [str_eq_getElem hi]
  exact h.nodup.idxOf_getElem i hi

end Idx

/-! ### `symsOf` and `psiOf` entry by entry -/

theorem symsOf_length (l : List (List Nat)) : (symsOf l).length = l.length := by simp [symsOf]

theorem psiOf_length (T : List Nat) (l : List (List Nat)) : (psiOf T l).length = l.length := by
  simp [psiOf]

theorem symsOf_getD (l : List (List Nat)) (i : Nat) (hi : i < l.length) :
    (symsOf l).getD i 0 = (str l i).headD 0 := by
  unfold symsOf
  rw [List.getD_eq_getElem?_getD, List.getElem?_map, List.getElem?_eq_getElem hi, str_eq_getElem hi]
  rfl

theorem psiOf_getElem? (T : List Nat) (l : List (List Nat)) (i : Nat) (hi : i < l.length) :
    (psiOf T l)[i]? = some (if (str l i).length ≤ 1 then l.idxOf T else Blue.Csa.psi l i) := by
  unfold psiOf
  rw [List.getElem?_map, List.getElem?_range hi]
  rfl

theorem psiOf_getD (T : List Nat) (l : List (List Nat)) (i : Nat) (hi : i < l.length) :
    (psiOf T l).getD i 0 = if (str l i).length ≤ 1 then l.idxOf T else Blue.Csa.psi l i := by
  rw [List.getD_eq_getElem?_getD, psiOf_getElem? T l i hi]
  rfl

theorem psiOf_getD_nxt (T : List Nat) (l : List (List Nat)) (i : Nat) (hi : i < l.length) :
    (psiOf T l).getD i 0 = l.idxOf (nxt T (str l i)) := by
  rw [psiOf_getD T l i hi]
  unfold nxt Blue.Csa.psi
  by_cases hc : (str l i).length ≤ 1
  · rw [if_pos hc, if_pos hc]
  · rw [if_neg hc, if_neg hc]

theorem psiOf_eq (T : List Nat) (l : List (List Nat)) :
    psiOf T l = (List.range l.length).map (fun i => l.idxOf (nxt T (str l i))) := by
  unfold psiOf
  apply List.map_congr_left
  intro i _
  unfold nxt Blue.Csa.psi
  by_cases hc : (str l i).length ≤ 1
  · rw [if_pos hc, if_pos hc]
  · rw [if_neg hc, if_neg hc]

/-! ### A: the hypotheses of `construct` -/

/-- ψ is a permutation of the ranks: "next suffix" is a bijection of the suffixes -/
theorem psiOf_perm {T : List Nat} {l : List (List Nat)} (h : Idx T l) :
    (psiOf T l).Perm (List.range (psiOf T l).length) := by
  rw [psiOf_length]
  apply (List.perm_ext_iff_of_nodup ?_ List.nodup_range).mpr
  · intro v
    rw [List.mem_range, psiOf_eq, List.mem_map]
    constructor
    · rintro ⟨i, hi, rfl⟩
      rw [List.mem_range] at hi
      exact List.idxOf_lt_length_iff.mpr (h.nxt_mem (str_mem hi))
    · intro hv
      obtain ⟨s', hs', e⟩ := h.nxt_surj (str_mem hv)
      refine ⟨l.idxOf s', List.mem_range.mpr (List.idxOf_lt_length_iff.mpr hs'), ?_⟩
      rw [str_idxOf hs', e, h.idxOf_str hv]
  · rw [psiOf_eq, List.nodup_iff_pairwise_ne, List.pairwise_map]
    apply List.Pairwise.imp_of_mem _ (List.nodup_iff_pairwise_ne.mp List.nodup_range)
    intro a b ha hb hne heq
    rw [List.mem_range] at ha hb
    apply hne
    have e := congrArg (str l) heq
    rw [str_idxOf (h.nxt_mem (str_mem ha)), str_idxOf (h.nxt_mem (str_mem hb))] at e
    have es := h.nxt_inj (str_mem ha) (str_mem hb) e
    calc a = l.idxOf (str l a) := (h.idxOf_str ha).symm
      _ = l.idxOf (str l b) := by rw [es]
      _ = b := h.idxOf_str hb

theorem good_of_idx {T : List Nat} {l : List (List Nat)} (h : Idx T l) :
    Good (symsOf l) (psiOf T l) := by
  refine ⟨psiOf_perm h, ?_, ?_, ?_, ?_⟩
  · rw [symsOf_length, psiOf_length]
  · rw [psiOf_length, h.len]; exact h.pos
  · exact heads_sorted h.sorted
  · intro i j hij hj hs
    rw [psiOf_length] at hj
    have hi : i < l.length := by omega
    rw [symsOf_getD l i hi, symsOf_getD l j hj] at hs
    rw [psiOf_getD_nxt T l i hi, psiOf_getD_nxt T l j hj]
    have hlt := str_lt h.sorted hij hj
    have hmi := h.nxt_mem (str_mem hi)
    have hmj := h.nxt_mem (str_mem hj)
    rcases h.shape _ (str_mem hi) with e | ⟨x, t, e, ht⟩
    · rcases h.shape _ (str_mem hj) with e' | ⟨x', t', e', ht'⟩
      · rw [e, e', lexLt_irrefl] at hlt; cases hlt
      · rw [e, e'] at hs
        simp only [List.headD_cons] at hs
        omega
    · rcases h.shape _ (str_mem hj) with e' | ⟨x', t', e', ht'⟩
      · rw [e, e'] at hs
        simp only [List.headD_cons] at hs
        omega
      · rw [e, e'] at hs hlt
        simp only [List.headD_cons] at hs
        rw [hs, lexLt_cons] at hlt
        rw [e, nxt_cons T _ t ht] at hmi ⊢
        rw [e', nxt_cons T _ t' ht'] at hmj ⊢
        exact idx_mono h.sorted hmi hmj hlt

/-- **C19** A: what `PsiDocument::construct` hands to `WaveletTreePsi::construct` is `Good` -/
theorem good_of_suffixes (text : List Nat) (l : List (List Nat))
    (hperm : l.Perm (suffixes (withMarker text))) (hsorted : l.Pairwise (fun a b => lexLt a b = true)) :
    Good (symsOf l) (psiOf (withMarker text) l) :=
  good_of_idx (idx_of_suffixes text l hperm hsorted)

/-! ### B: `Sigma::sa_range_for` is a column -/

/-- **C19** B: the range of a symbol that occurs is its column in `symsOf l`, and it starts after the
    end marker's rank -/
theorem column_of_sigmaRange (text : List Nat) (l : List (List Nat))
    (hperm : l.Perm (suffixes (withMarker text))) (hsorted : l.Pairwise (fun a b => lexLt a b = true))
    (c : Nat) (hc : c ≠ 0) (hocc : 0 < l.countP (fun s => s.headD 0 == c)) :
    IsColumn (symsOf l) c (sigmaRange l c).1 (sigmaRange l c).2 ∧ 1 ≤ (sigmaRange l c).1 := by
  have h := idx_of_suffixes text l hperm hsorted
  have hok := sigmaRange_ok (withMarker text) (withMarker_marked text) hperm hsorted c hc
  have hcnt : l.countP (fun s => s.headD 0 == c) ≠ 0 := by omega
  have e : sigmaRange l c = (l.countP (fun s => decide (s.headD 0 < c)),
      l.countP (fun s => decide (s.headD 0 < c)) + l.countP (fun s => s.headD 0 == c) - 1) := by
    unfold sigmaRange
    simp only
    rw [if_neg hcnt]
  refine ⟨⟨?_, ?_, ?_⟩, ?_⟩
  · rw [e]; simp only; omega
  · rw [symsOf_length]; exact hok.lt
  · intro i hi
    rw [symsOf_length] at hi
    rw [symsOf_getD l i hi, hok.block i hi, head?_iff_headD (h.sorted.nonempty _ (str_mem hi))]
  · rw [e]
    simp only
    apply List.countP_pos_iff.mpr
    refine ⟨[0], h.marker, ?_⟩
    show decide (0 < c) = true
    exact decide_eq_true (by omega)

/-! ### C, D: the answers in `Blue.Csa` vocabulary -/

/-- on ranks whose suffixes are longer than one symbol, the reference count over `psiOf` is the
    abstract index's -/
theorem countLt_psiOf (T : List Nat) (l : List (List Nat)) (r0 r1 x : Nat) (hr1 : r1 < l.length)
    (hlong : ∀ i, r0 ≤ i → i ≤ r1 → 2 ≤ (str l i).length) :
    countLt (psiOf T l) r0 r1 x = Blue.Csa.countLt l r0 r1 x := by
  unfold countLt Blue.Csa.countLt
  congr 1
  apply List.filter_congr
  intro d hd
  rw [List.mem_range] at hd
  have h2 := hlong (r0 + d) (by omega) (by omega)
  rw [psiOf_getD T l (r0 + d) (by omega), if_neg (by omega)]

/-- **C19** C: the wavelet-tree constrain is the Csa constrain (Csa's `into` is half open) -/
theorem constrain_is_csa (text : List Nat) (l : List (List Nat))
    (hperm : l.Perm (suffixes (withMarker text))) (hsorted : l.Pairwise (fun a b => lexLt a b = true))
    (w : WtPsi) (hw : construct (symsOf l) (psiOf (withMarker text) l) = some w)
    (c : Nat) (hc : c ≠ 0) (hocc : 0 < l.countP (fun s => s.headD 0 == c)) (a b : Nat) (hab : a ≤ b) :
    constrain (symsOf l) w (sigmaRange l c) (a, b)
      = .ok ((Blue.Csa.constrain l (sigmaRange l c) (a, b + 1)).1,
             (Blue.Csa.constrain l (sigmaRange l c) (a, b + 1)).2 - 1) := by
  have hg := good_of_suffixes text l hperm hsorted
  obtain ⟨hcol, h1⟩ := column_of_sigmaRange text l hperm hsorted c hc hocc
  have hok := sigmaRange_ok (withMarker text) (withMarker_marked text) hperm hsorted c hc
  refine Eq.trans (constrain_spec hg w hw hcol h1 a b hab) ?_
  unfold refConstrain Blue.Csa.constrain
  simp only
  rw [countLt_psiOf _ l _ _ a hok.lt hok.long, countLt_psiOf _ l _ _ (b + 1) hok.lt hok.long]

/-- **C19** D: lookup is Csa.psi on every rank but the end marker's -/
theorem lookup_is_csa (text : List Nat) (l : List (List Nat))
    (hperm : l.Perm (suffixes (withMarker text))) (hsorted : l.Pairwise (fun a b => lexLt a b = true))
    (w : WtPsi) (hw : construct (symsOf l) (psiOf (withMarker text) l) = some w)
    (i : Nat) (hi : i < l.length) (hlong : 2 ≤ (str l i).length) :
    lookup (symsOf l) w i = some (Blue.Csa.psi l i) := by
  have hg := good_of_suffixes text l hperm hsorted
  rw [(lookup_spec hg w hw i (by rw [psiOf_length]; exact hi)).2, psiOf_getElem? _ l i hi,
    if_neg (by omega)]

/-- … and at the end marker's rank it is the rank of the whole text (`psi::compute` wraps around) -/
theorem lookup_marker (text : List Nat) (l : List (List Nat))
    (hperm : l.Perm (suffixes (withMarker text))) (hsorted : l.Pairwise (fun a b => lexLt a b = true))
    (w : WtPsi) (hw : construct (symsOf l) (psiOf (withMarker text) l) = some w)
    (i : Nat) (hi : i < l.length) (hshort : (str l i).length ≤ 1) :
    lookup (symsOf l) w i = some (l.idxOf (withMarker text)) := by
  have hg := good_of_suffixes text l hperm hsorted
  rw [(lookup_spec hg w hw i (by rw [psiOf_length]; exact hi)).2, psiOf_getElem? _ l i hi,
    if_pos hshort]

/-- `construct` succeeds on what a real text delivers -/
theorem construct_of_suffixes (text : List Nat) (l : List (List Nat))
    (hperm : l.Perm (suffixes (withMarker text))) (hsorted : l.Pairwise (fun a b => lexLt a b = true)) :
    ∃ w, construct (symsOf l) (psiOf (withMarker text) l) = some w ∧ len w = text.length + 1 := by
  obtain ⟨w, h1, h2⟩ := construct_ok (good_of_suffixes text l hperm hsorted)
  refine ⟨w, h1, ?_⟩
  rw [h2, psiOf_length, (idx_of_suffixes text l hperm hsorted).len, withMarker_length]

/-! ### the hypotheses are satisfiable: `abab` -/

example : withMarker [0, 1, 0, 1] = [1, 2, 1, 2, 0] := by decide
example : exL.Perm (suffixes (withMarker [0, 1, 0, 1])) ∧ exL.Pairwise (fun a b => lexLt a b = true) := by
  decide
example : symsOf exL = [0, 1, 1, 2, 2] ∧ psiOf (withMarker [0, 1, 0, 1]) exL = [2, 3, 4, 0, 1] := by decide
example : 0 < exL.countP (fun s => s.headD 0 == 1) ∧ sigmaRange exL 1 = (1, 2)
    ∧ 0 < exL.countP (fun s => s.headD 0 == 2) ∧ sigmaRange exL 2 = (3, 4) := by decide
example : (construct (symsOf exL) (psiOf (withMarker [0, 1, 0, 1]) exL)).isSome = true := by decide
/-- `b` then `ab`: the column of `a` = ranks `1..=2`, constrained into the column of `b` = `3..=4` -/
example : (construct (symsOf exL) (psiOf (withMarker [0, 1, 0, 1]) exL)).map
      (fun w => (constrain (symsOf exL) w (sigmaRange exL 1) (3, 4), lookup (symsOf exL) w 1))
    = some (.ok (1, 2), some (Blue.Csa.psi exL 1))
    ∧ Blue.Csa.constrain exL (sigmaRange exL 1) (3, 5) = (1, 3) := by decide

end Blue.PsiWt

#print axioms Blue.PsiWt.good_of_suffixes
#print axioms Blue.PsiWt.column_of_sigmaRange
#print axioms Blue.PsiWt.constrain_is_csa
#print axioms Blue.PsiWt.lookup_is_csa
#print axioms Blue.PsiWt.lookup_marker
#print axioms Blue.PsiWt.construct_of_suffixes
