import Blue.Model.SstOpen
/-! Theorems about reading an SST from arbitrary bytes (`Blue.SstOpen`, property C09).

    * **guardedness** — every entry a cursor walk, `load` or `metadata` returns lies in a block whose
      payload matched the CRC recorded for it in the index entry that named it
      (`walk_forward_guarded`, …, `sst_reads_are_guarded`), and the index entries themselves come
      from a payload that matched the CRC recorded in the final block (`open_guarded`);
    * **detection relative to the checksum** — if the damaged file's blocks, wherever they still
      load, load to what the pristine file's blocks load to (`Refines`; this is what "the CRC tells
      the damaged payload from the original" gives, `loadBlock_detects`, `refines_of_no_collision`),
      then every cursor call on the damaged table is an error or returns the pristine table's
      answer, and a walk is the pristine walk or a prefix of it followed by an error;
    * **the unchecksummed tail** — `final_block_cases`. -/
namespace Blue.SstOpen
open Blue.Wire Blue.Block Blue.Sst Blue.Cursor Blue.ProtoMsg

/-! ### the reference cursor inside a block -/
theorem ref_next_xs (b : Ref KV) : b.next.xs = b.xs := by unfold Ref.next; split <;> rfl
theorem ref_prev_xs (b : Ref KV) : b.prev.xs = b.xs := by unfold Ref.prev; split <;> rfl
theorem ref_seek_xs (p : KV → Bool) (b : Ref KV) : (b.seek p).xs = b.xs := rfl
theorem ref_last_xs (b : Ref KV) : b.last.xs = b.xs := rfl

theorem ref_kv_mem (b : Ref KV) (e : KV) (h : b.kv = some e) : e ∈ b.xs := by
  unfold Ref.kv at h
  split at h
  · cases h
  · exact List.mem_of_getElem? h

/-! ### one step of the recursions -/
section generic
variable (n : Nat) (ld : Nat → Except Err (List KV))

theorem nextG_zero (c : LCur) : nextG n ld 0 c = .ok c := rfl
theorem nextG_succ (f : Nat) (c : LCur) :
    nextG n ld (f + 1) c =
      match c.bc with
      | none =>
        if c.metaIdx ≥ n then .ok ⟨n, none⟩
        else
          match ld c.metaIdx with
          | .error e => .error e
          | .ok es =>
            let b := (Ref.mk es 0).next
            if b.kv.isSome then .ok ⟨c.metaIdx, some b⟩ else nextG n ld f ⟨c.metaIdx + 1, none⟩
      | some b =>
        let b' := b.next
        if b'.kv.isSome then .ok ⟨c.metaIdx, some b'⟩ else nextG n ld f ⟨c.metaIdx + 1, none⟩ := rfl

theorem prevG_zero (c : LCur) : prevG ld 0 c = .ok c := rfl
theorem prevG_succ (f : Nat) (c : LCur) :
    prevG ld (f + 1) c =
      match c.bc with
      | none =>
        if c.metaIdx = 0 then .ok ⟨0, none⟩
        else
          match ld (c.metaIdx - 1) with
          | .error e => .error e
          | .ok es =>
            let b := (Ref.mk es 0).last.prev
            if b.kv.isSome then .ok ⟨c.metaIdx - 1, some b⟩ else prevG ld f ⟨c.metaIdx - 1, none⟩
      | some b =>
        let b' := b.prev
        if b'.kv.isSome then .ok ⟨c.metaIdx, some b'⟩ else prevG ld f ⟨c.metaIdx, none⟩ := rfl

/-! ### guardedness: where a cursor's entries come from -/

/-- `es` is what the loader returned for some index entry -/
def From (es : List KV) : Prop := ∃ i, ld i = .ok es

/-- the block under the cursor, if any, was returned by the loader -/
def Inv (c : LCur) : Prop := ∀ b, c.bc = some b → From ld b.xs

theorem inv_none (i : Nat) : Inv ld ⟨i, none⟩ := by intro b h; cases h

theorem kv_from (c : LCur) (hi : Inv ld c) (e : KV) (h : c.kv = some e) : ∃ i es, ld i = .ok es ∧ e ∈ es := by
  unfold LCur.kv at h
  cases hb : c.bc with
  | none => rw [hb] at h; cases h
  | some b =>
    rw [hb] at h
    obtain ⟨i, hl⟩ := hi b hb
    exact ⟨i, b.xs, hl, ref_kv_mem b e h⟩

theorem nextG_inv : ∀ (f : Nat) (c c' : LCur), Inv ld c → nextG n ld f c = .ok c' → Inv ld c'
  | 0, c, c', hi, h => by rw [nextG_zero] at h; cases h; exact hi
  | f + 1, c, c', hi, h => by
    rw [nextG_succ] at h
    split at h
    · split at h
      · cases h; exact inv_none ld n
      · split at h
        · cases h
        · rename_i es hl
          simp only at h
          split at h
          · cases h
            intro b hb
            cases hb
            exact ⟨c.metaIdx, by rw [ref_next_xs]; exact hl⟩
          · exact nextG_inv f _ c' (inv_none ld _) h
    · rename_i b hb
      simp only at h
      split at h
      · cases h
        intro b' hb'
        cases hb'
        rw [ref_next_xs]
        exact hi b hb
      · exact nextG_inv f _ c' (inv_none ld _) h

theorem prevG_inv : ∀ (f : Nat) (c c' : LCur), Inv ld c → prevG ld f c = .ok c' → Inv ld c'
  | 0, c, c', hi, h => by rw [prevG_zero] at h; cases h; exact hi
  | f + 1, c, c', hi, h => by
    rw [prevG_succ] at h
    split at h
    · split at h
      · cases h; exact inv_none ld 0
      · split at h
        · cases h
        · rename_i es hl
          simp only at h
          split at h
          · cases h
            intro b hb
            cases hb
            exact ⟨c.metaIdx - 1, by rw [ref_prev_xs, ref_last_xs]; exact hl⟩
          · exact prevG_inv f _ c' (inv_none ld _) h
    · rename_i b hb
      simp only at h
      split at h
      · cases h
        intro b' hb'
        cases hb'
        rw [ref_prev_xs]
        exact hi b hb
      · exact prevG_inv f _ c' (inv_none ld _) h

theorem seekG_inv (idx : Nat) (k : List Nat) (c' : LCur) (h : seekG n ld idx k = .ok c') : Inv ld c' := by
  unfold seekG at h
  split at h
  · cases h; exact inv_none ld n
  · split at h
    · cases h
    · rename_i es hl
      simp only at h
      split at h
      · cases h
        intro b hb
        cases hb
        exact ⟨idx, hl⟩
      · split at h
        · cases h; exact inv_none ld n
        · split at h
          · cases h
          · rename_i es' hl'
            cases h
            intro b hb
            cases hb
            exact ⟨idx + 1, hl'⟩

/-- an entry that some loaded block holds -/
def Held (e : KV) : Prop := ∃ i es, ld i = .ok es ∧ e ∈ es

theorem walkFwdG_succ (f : Nat) (c : LCur) (acc : List KV) :
    walkFwdG n ld (f + 1) c acc =
      match nextG n ld (n + 2) c with
      | .error e => (acc.reverse, some e)
      | .ok c' =>
        match c'.kv with
        | none => (acc.reverse, none)
        | some e => walkFwdG n ld f c' (e :: acc) := rfl

theorem walkBwdG_succ (f : Nat) (c : LCur) (acc : List KV) :
    walkBwdG n ld (f + 1) c acc =
      match prevG ld (n + 2) c with
      | .error e => (acc.reverse, some e)
      | .ok c' =>
        match c'.kv with
        | none => (acc.reverse, none)
        | some e => walkBwdG n ld f c' (e :: acc) := rfl

theorem walkFwdG_held : ∀ (f : Nat) (c : LCur) (acc : List KV), Inv ld c → (∀ e ∈ acc, Held ld e) →
    ∀ e ∈ (walkFwdG n ld f c acc).1, Held ld e
  | 0, c, acc, _, ha => by
    intro e he
    exact ha e (by simpa [walkFwdG] using he)
  | f + 1, c, acc, hi, ha => by
    rw [walkFwdG_succ]
    split
    · intro e he; exact ha e (by simpa using he)
    · rename_i c' hn
      have hi' := nextG_inv n ld _ c c' hi hn
      split
      · intro e he; exact ha e (by simpa using he)
      · rename_i e0 hk
        apply walkFwdG_held f c' (e0 :: acc) hi'
        intro e he
        rcases List.mem_cons.mp he with rfl | h
        · exact kv_from ld c' hi' _ hk
        · exact ha e h

theorem walkBwdG_held : ∀ (f : Nat) (c : LCur) (acc : List KV), Inv ld c → (∀ e ∈ acc, Held ld e) →
    ∀ e ∈ (walkBwdG n ld f c acc).1, Held ld e
  | 0, c, acc, _, ha => by
    intro e he
    exact ha e (by simpa [walkBwdG] using he)
  | f + 1, c, acc, hi, ha => by
    rw [walkBwdG_succ]
    split
    · intro e he; exact ha e (by simpa using he)
    · rename_i c' hn
      have hi' := prevG_inv ld _ c c' hi hn
      split
      · intro e he; exact ha e (by simpa using he)
      · rename_i e0 hk
        apply walkBwdG_held f c' (e0 :: acc) hi'
        intro e he
        rcases List.mem_cons.mp he with rfl | h
        · exact kv_from ld c' hi' _ hk
        · exact ha e h

theorem scanG_succ (k : List Nat) (ts : Nat) (f : Nat) (c : LCur) :
    scanG n ld k ts (f + 1) c =
      match c.kv with
      | some e =>
        if keyRefLt e.key e.ts k ts then
          match nextG n ld (n + 2) c with
          | .error x => .error x
          | .ok c' => scanG n ld k ts f c'
        else .ok c
      | none => .ok c := rfl

theorem scanG_inv (k : List Nat) (ts : Nat) : ∀ (f : Nat) (c c' : LCur), Inv ld c → scanG n ld k ts f c = .ok c' → Inv ld c'
  | 0, c, c', hi, h => by cases h; exact hi
  | f + 1, c, c', hi, h => by
    rw [scanG_succ] at h
    split at h
    · split at h
      · split at h
        · cases h
        · rename_i c1 hn
          exact scanG_inv k ts f c1 c' (nextG_inv n ld _ c c1 hi hn) h
      · cases h; exact hi
    · cases h; exact hi

/-- what `load` answers with comes from an entry of a loaded block with that very key -/
theorem loadG_held (fuel idx : Nat) (k : List Nat) (ts : Nat) (r : Loaded) (h : loadG n ld fuel idx k ts = .ok r) :
    r = .absent ∨ ∃ e, Held ld e ∧ e.key = k ∧ ((∃ v, e.val = some v ∧ r = .value v) ∨ (e.val = none ∧ r = .tombstone)) := by
  unfold loadG at h
  split at h
  · cases h
  · rename_i c hs
    split at h
    · cases h
    · rename_i c' hsc
      cases h
      have hi' := scanG_inv n ld k ts fuel c c' (seekG_inv n ld idx k c hs) hsc
      cases hk : c'.kv with
      | none => left; rfl
      | some e =>
        unfold loadedOf
        simp only
        by_cases hkey : e.key = k
        · right
          refine ⟨e, kv_from ld c' hi' e hk, hkey, ?_⟩
          rw [if_pos hkey]
          cases hv : e.val with
          | none => right; exact ⟨rfl, rfl⟩
          | some v => left; exact ⟨v, rfl, rfl⟩
        · left; rw [if_neg hkey]

theorem endsG_held (a b : Option KV) (h : endsG n ld = .ok (a, b)) :
    (∀ e, a = some e → Held ld e) ∧ (∀ e, b = some e → Held ld e) := by
  unfold endsG at h
  split at h
  · cases h
  · rename_i cf hf
    split at h
    · cases h
    · rename_i cl hl
      cases h
      exact ⟨fun e he => kv_from ld cf (nextG_inv n ld _ _ cf (inv_none ld 0) hf) e he,
             fun e he => kv_from ld cl (prevG_inv ld _ _ cl (inv_none ld n) hl) e he⟩

end generic

/-! ### detection relative to the checksum: a loader that agrees with the pristine one wherever it
    succeeds -/
section refines
variable (n : Nat) {ld' ld : Nat → Except Err (List KV)}

/-- wherever the (damaged file's) loader `ld'` succeeds it returns what the (pristine) loader `ld`
    returns -/
def Refines (ld' ld : Nat → Except Err (List KV)) : Prop := ∀ i es, ld' i = .ok es → ld i = .ok es

theorem nextG_refines (hr : Refines ld' ld) : ∀ (f : Nat) (c c' : LCur), nextG n ld' f c = .ok c' → nextG n ld f c = .ok c'
  | 0, c, c', h => h
  | f + 1, c, c', h => by
    rw [nextG_succ] at h ⊢
    revert h
    cases hb : c.bc with
    | none =>
      intro h
      simp only at h ⊢
      by_cases hge : c.metaIdx ≥ n
      · simp only [if_pos hge] at h ⊢; exact h
      · simp only [if_neg hge] at h ⊢
        cases hl : ld' c.metaIdx with
        | error e => rw [hl] at h; cases h
        | ok es =>
          rw [hl] at h; rw [hr _ _ hl]
          simp only at h ⊢
          by_cases hk : (Ref.mk es 0).next.kv.isSome = true
          · simp only [if_pos hk] at h ⊢; exact h
          · simp only [if_neg hk] at h ⊢; exact nextG_refines hr f _ _ h
    | some b =>
      intro h
      simp only at h ⊢
      by_cases hk : b.next.kv.isSome = true
      · simp only [if_pos hk] at h ⊢; exact h
      · simp only [if_neg hk] at h ⊢; exact nextG_refines hr f _ _ h

theorem prevG_refines (hr : Refines ld' ld) : ∀ (f : Nat) (c c' : LCur), prevG ld' f c = .ok c' → prevG ld f c = .ok c'
  | 0, c, c', h => h
  | f + 1, c, c', h => by
    rw [prevG_succ] at h ⊢
    revert h
    cases hb : c.bc with
    | none =>
      intro h
      simp only at h ⊢
      by_cases hz : c.metaIdx = 0
      · simp only [if_pos hz] at h ⊢; exact h
      · simp only [if_neg hz] at h ⊢
        cases hl : ld' (c.metaIdx - 1) with
        | error e => rw [hl] at h; cases h
        | ok es =>
          rw [hl] at h; rw [hr _ _ hl]
          simp only at h ⊢
          by_cases hk : (Ref.mk es 0).last.prev.kv.isSome = true
          · simp only [if_pos hk] at h ⊢; exact h
          · simp only [if_neg hk] at h ⊢; exact prevG_refines hr f _ _ h
    | some b =>
      intro h
      simp only at h ⊢
      by_cases hk : b.prev.kv.isSome = true
      · simp only [if_pos hk] at h ⊢; exact h
      · simp only [if_neg hk] at h ⊢; exact prevG_refines hr f _ _ h

theorem seekG_refines (hr : Refines ld' ld) (idx : Nat) (k : List Nat) (c' : LCur)
    (h : seekG n ld' idx k = .ok c') : seekG n ld idx k = .ok c' := by
  unfold seekG at h ⊢
  by_cases hge : idx ≥ n
  · simp only [if_pos hge] at h ⊢; exact h
  · simp only [if_neg hge] at h ⊢
    cases hl : ld' idx with
    | error e => rw [hl] at h; cases h
    | ok es =>
      rw [hl] at h; rw [hr _ _ hl]
      simp only at h ⊢
      by_cases hk : ((Ref.mk es 0).seek (atOrAfter k)).kv.isSome = true
      · simp only [if_pos hk] at h ⊢; exact h
      · simp only [if_neg hk] at h ⊢
        by_cases hge' : idx + 1 ≥ n
        · simp only [if_pos hge'] at h ⊢; exact h
        · simp only [if_neg hge'] at h ⊢
          cases hl' : ld' (idx + 1) with
          | error e => rw [hl'] at h; cases h
          | ok es' => rw [hl'] at h; rw [hr _ _ hl']; exact h

theorem scanG_refines (hr : Refines ld' ld) (k : List Nat) (ts : Nat) :
    ∀ (f : Nat) (c c' : LCur), scanG n ld' k ts f c = .ok c' → scanG n ld k ts f c = .ok c'
  | 0, c, c', h => h
  | f + 1, c, c', h => by
    rw [scanG_succ] at h ⊢
    revert h
    cases hk : c.kv with
    | none => intro h; exact h
    | some e =>
      intro h
      simp only at h ⊢
      by_cases hlt : keyRefLt e.key e.ts k ts = true
      · simp only [if_pos hlt] at h ⊢
        cases hn : nextG n ld' (n + 2) c with
        | error x => rw [hn] at h; cases h
        | ok c1 =>
          rw [hn] at h; rw [nextG_refines n hr _ _ _ hn]
          exact scanG_refines hr k ts f c1 c' h
      · simp only [if_neg hlt] at h ⊢; exact h

/-- **a point read on the damaged table is an error or the pristine table's answer** -/
theorem loadG_refines (hr : Refines ld' ld) (fuel idx : Nat) (k : List Nat) (ts : Nat) (r : Loaded)
    (h : loadG n ld' fuel idx k ts = .ok r) : loadG n ld fuel idx k ts = .ok r := by
  unfold loadG at h ⊢
  cases hs : seekG n ld' idx k with
  | error e => rw [hs] at h; cases h
  | ok c =>
    rw [hs] at h; rw [seekG_refines n hr idx k c hs]
    simp only at h ⊢
    cases hsc : scanG n ld' k ts fuel c with
    | error e => rw [hsc] at h; cases h
    | ok c' => rw [hsc] at h; rw [scanG_refines n hr k ts fuel c c' hsc]; exact h

theorem endsG_refines (hr : Refines ld' ld) (r : Option KV × Option KV) (h : endsG n ld' = .ok r) : endsG n ld = .ok r := by
  unfold endsG at h ⊢
  cases hf : nextG n ld' (n + 2) ⟨0, none⟩ with
  | error e => rw [hf] at h; cases h
  | ok cf =>
    rw [hf] at h; rw [nextG_refines n hr _ _ _ hf]
    simp only at h ⊢
    cases hl : prevG ld' (n + 2) ⟨n, none⟩ with
    | error e => rw [hl] at h; cases h
    | ok cl => rw [hl] at h; rw [prevG_refines hr _ _ _ hl]; exact h

theorem walkFwdG_prefix (ld : Nat → Except Err (List KV)) : ∀ (f : Nat) (c : LCur) (acc : List KV),
    ∃ more, (walkFwdG n ld f c acc).1 = acc.reverse ++ more
  | 0, _, acc => ⟨[], by simp [walkFwdG]⟩
  | f + 1, c, acc => by
    rw [walkFwdG_succ]
    cases nextG n ld (n + 2) c with
    | error x => exact ⟨[], by simp⟩
    | ok c' =>
      simp only
      cases c'.kv with
      | none => exact ⟨[], by simp⟩
      | some e =>
        obtain ⟨more, hm⟩ := walkFwdG_prefix ld f c' (e :: acc)
        exact ⟨e :: more, by simp only; rw [hm]; simp⟩

theorem walkBwdG_prefix (ld : Nat → Except Err (List KV)) : ∀ (f : Nat) (c : LCur) (acc : List KV),
    ∃ more, (walkBwdG n ld f c acc).1 = acc.reverse ++ more
  | 0, _, acc => ⟨[], by simp [walkBwdG]⟩
  | f + 1, c, acc => by
    rw [walkBwdG_succ]
    cases prevG ld (n + 2) c with
    | error x => exact ⟨[], by simp⟩
    | ok c' =>
      simp only
      cases c'.kv with
      | none => exact ⟨[], by simp⟩
      | some e =>
        obtain ⟨more, hm⟩ := walkBwdG_prefix ld f c' (e :: acc)
        exact ⟨e :: more, by simp only; rw [hm]; simp⟩

/-- **a walk over the damaged table is the pristine walk, or a prefix of it followed by an error** -/
theorem walkFwdG_refines (hr : Refines ld' ld) : ∀ (f : Nat) (c : LCur) (acc : List KV),
    ((walkFwdG n ld' f c acc).2 = none → walkFwdG n ld' f c acc = walkFwdG n ld f c acc)
    ∧ ∃ more, (walkFwdG n ld f c acc).1 = (walkFwdG n ld' f c acc).1 ++ more
  | 0, _, acc => ⟨fun _ => rfl, [], by simp [walkFwdG]⟩
  | f + 1, c, acc => by
    rw [walkFwdG_succ, walkFwdG_succ]
    cases hn : nextG n ld' (n + 2) c with
    | error x =>
      refine ⟨fun h => by simp at h, ?_⟩
      have := walkFwdG_prefix n ld (f + 1) c acc
      rw [walkFwdG_succ] at this
      exact this
    | ok c' =>
      rw [nextG_refines n hr _ _ _ hn]
      simp only
      cases hk : c'.kv with
      | none => exact ⟨fun _ => rfl, [], by simp⟩
      | some e => exact walkFwdG_refines hr f c' (e :: acc)

theorem walkBwdG_refines (hr : Refines ld' ld) : ∀ (f : Nat) (c : LCur) (acc : List KV),
    ((walkBwdG n ld' f c acc).2 = none → walkBwdG n ld' f c acc = walkBwdG n ld f c acc)
    ∧ ∃ more, (walkBwdG n ld f c acc).1 = (walkBwdG n ld' f c acc).1 ++ more
  | 0, _, acc => ⟨fun _ => rfl, [], by simp [walkBwdG]⟩
  | f + 1, c, acc => by
    rw [walkBwdG_succ, walkBwdG_succ]
    cases hn : prevG ld' (n + 2) c with
    | error x =>
      refine ⟨fun h => by simp at h, ?_⟩
      have := walkBwdG_prefix n ld (f + 1) c acc
      rw [walkBwdG_succ] at this
      exact this
    | ok c' =>
      rw [prevG_refines hr _ _ _ hn]
      simp only
      cases hk : c'.kv with
      | none => exact ⟨fun _ => rfl, [], by simp⟩
      | some e => exact walkBwdG_refines hr f c' (e :: acc)

end refines

/-! ### blocks and tables -/
section table
variable (crc : List Nat → Nat)

theorem readFrame_ok {file : List Nat} {m : BlockMeta} {i : Nat} {body : List Nat}
    (h : readFrame crc file m = .ok (i, body)) : frameAt file m = .ok (i, body) ∧ crc body = m.crc := by
  unfold readFrame at h
  split at h
  · cases h
  · rename_i i' body' hf
    split at h
    · cases h
    · rename_i hc
      cases h
      exact ⟨hf, Decidable.not_not.mp hc⟩

/-- **a block that loads matched its recorded CRC**: the entries come from a payload that is the
    `PlainBlock` frame at `[start, limit)` of the file and whose CRC is the recorded one -/
theorem loadBlock_ok {file : List Nat} {m : BlockMeta} {es : List KV} (h : loadBlock crc file m = .ok es) :
    ∃ body, frameAt file m = .ok (0, body) ∧ crc body = m.crc ∧ decodePlain body = .ok es := by
  unfold loadBlock at h
  split at h
  · cases h
  · rename_i i body hr
    obtain ⟨hf, hc⟩ := readFrame_ok crc hr
    by_cases h0 : i = 0
    · subst h0
      simp only [if_true] at h
      exact ⟨body, hf, hc, h⟩
    · simp only [if_neg h0] at h
      split at h <;> cases h

/-- **detection relative to the checksum, one block**: the same index entry read from two files.
    If both reads succeed and the CRC tells the two payloads apart unless they are equal, the
    entries are the same. -/
theorem loadBlock_detects {f f' : List Nat} {m : BlockMeta} {es es' : List KV}
    (h : loadBlock crc f m = .ok es) (h' : loadBlock crc f' m = .ok es')
    (hnc : ∀ b b', frameAt f m = .ok (0, b) → frameAt f' m = .ok (0, b') → crc b = crc b' → b = b') : es' = es := by
  obtain ⟨b, hf, hc, hd⟩ := loadBlock_ok crc h
  obtain ⟨b', hf', hc', hd'⟩ := loadBlock_ok crc h'
  have : b = b' := hnc b b' hf hf' (by rw [hc, hc'])
  subst this
  rw [hd] at hd'
  cases hd'
  rfl

theorem loadIdx_ok (t : Opened) (i : Nat) (es : List KV) (h : t.loadIdx crc i = .ok es) :
    ∃ k m body, t.entries[i]? = some (k, m) ∧ frameAt t.file m = .ok (0, body) ∧ crc body = m.crc
      ∧ decodePlain body = .ok es := by
  unfold Opened.loadIdx at h
  split at h
  · rename_i k m he
    obtain ⟨body, hf, hc, hd⟩ := loadBlock_ok crc h
    exact ⟨k, m, body, he, hf, hc, hd⟩
  · cases h

/-- the entry lies in a data block that an index entry of the table names and whose payload matched
    the CRC recorded in that index entry -/
def GuardedEntry (t : Opened) (e : KV) : Prop :=
  ∃ (i : Nat) (k : List Nat) (m : BlockMeta) (body : List Nat) (es : List KV), t.entries[i]? = some (k, m) ∧ frameAt t.file m = .ok (0, body) ∧ crc body = m.crc
    ∧ decodePlain body = .ok es ∧ e ∈ es

theorem held_guarded (t : Opened) (e : KV) (h : Held (t.loadIdx crc) e) : GuardedEntry crc t e := by
  obtain ⟨i, es, hl, he⟩ := h
  obtain ⟨k, m, body, h1, h2, h3, h4⟩ := loadIdx_ok crc t i es hl
  exact ⟨i, k, m, body, es, h1, h2, h3, h4, he⟩

/-- **every read is guarded**: each entry of a forward or backward walk (up to its end or its
    error), each value or tombstone `load` returns, and the first and last key `metadata` returns
    come from data blocks whose bytes matched their recorded CRC.  (`setsum`, `smallest_timestamp`,
    `biggest_timestamp` are the final block's — no CRC covers them — and `file_size` is the file's
    length.) -/
theorem sst_reads_are_guarded (t : Opened) :
    (∀ e ∈ (t.forward crc).1, GuardedEntry crc t e)
    ∧ (∀ e ∈ (t.backward crc).1, GuardedEntry crc t e)
    ∧ (∀ k ts r, t.load crc k ts = .ok r →
        r = .absent ∨ ∃ e, GuardedEntry crc t e ∧ e.key = k
          ∧ ((∃ v, e.val = some v ∧ r = .value v) ∨ (e.val = none ∧ r = .tombstone)))
    ∧ (∀ m, t.metadata crc = .ok m →
        (m.firstKey = [] ∨ ∃ e, GuardedEntry crc t e ∧ m.firstKey = e.key)
        ∧ (m.lastKey = MAX_KEY ∨ ∃ e, GuardedEntry crc t e ∧ m.lastKey = e.key)
        ∧ m.setsum = t.fin.setsum ∧ m.smallest = t.fin.smallest ∧ m.biggest = t.fin.biggest
        ∧ m.fileSize = t.fileSize) := by
  refine ⟨?_, ?_, ?_, ?_⟩
  · intro e he
    exact held_guarded crc t e
      (walkFwdG_held _ _ _ _ [] (inv_none _ 0) (by intro e h; cases h) e he)
  · intro e he
    exact held_guarded crc t e
      (walkBwdG_held _ _ _ _ [] (inv_none _ _) (by intro e h; cases h) e he)
  · intro k ts r h
    rcases loadG_held _ _ _ _ k ts r h with h | ⟨e, he, hk, hv⟩
    · left; exact h
    · right; exact ⟨e, held_guarded crc t e he, hk, hv⟩
  · intro m h
    unfold Opened.metadata at h
    split at h
    · cases h
    · rename_i ends he
      cases h
      obtain ⟨a, b⟩ := ends
      obtain ⟨ha, hb⟩ := endsG_held _ _ a b he
      refine ⟨?_, ?_, rfl, rfl, rfl, rfl⟩
      · cases a with
        | none => left; rfl
        | some e => right; exact ⟨e, held_guarded crc t e (ha e rfl), rfl⟩
      · cases b with
        | none => left; rfl
        | some e => right; exact ⟨e, held_guarded crc t e (hb e rfl), rfl⟩

theorem finChecks_none {fin : Fin} {fbo : Nat} (h : finChecks fin fbo = none) :
    fin.index.start < fin.index.limit ∧ fin.index.limit ≤ fin.filter.start
    ∧ fin.filter.start < fin.filter.limit ∧ fin.filter.limit ≤ fbo := by
  unfold finChecks at h
  split at h
  · cases h
  · split at h
    · cases h
    · split at h
      · cases h
      · split at h
        · cases h
        · omega

/-- what a successful open established: the trailer names an offset inside the file, the bytes from
    there unpack to the final block, its two triples are ordered below that offset, **the index
    block's payload matched the CRC recorded in the final block** and decodes to the index entries,
    and the filter block's payload matched its recorded CRC -/
theorem open_guarded (file : List Nat) (t : Opened) (h : openSst crc file = .ok t) :
    t.file = file ∧ t.fileSize = file.length ∧ 8 ≤ file.length
    ∧ unle64 (file.drop (file.length - 8)) ≤ file.length
    ∧ decFinal (file.drop (unle64 (file.drop (file.length - 8)))) = some t.fin
    ∧ finChecks t.fin (unle64 (file.drop (file.length - 8))) = none
    ∧ (∃ ies, loadBlock crc file t.fin.index = .ok ies ∧ indexEntries ies = .ok t.entries)
    ∧ loadFilter crc file t.fin.filter = .ok () := by
  unfold openSst at h
  simp only at h
  split at h
  · cases h
  · rename_i h8
    split at h
    · cases h
    · rename_i hfbo
      split at h
      · cases h
      · rename_i fin hdec
        split at h
        · cases h
        · rename_i hchk
          split at h
          · cases h
          · rename_i ies hib
            split at h
            · cases h
            · rename_i entries hents
              split at h
              · cases h
              · rename_i hfil
                cases h
                exact ⟨rfl, rfl, by omega, by omega, hdec, hchk, ⟨ies, hib, hents⟩, hfil⟩

/-- the buffers `from_file_handle` sizes from the file's own bytes — the final block, the index
    block, the filter block — are no longer than the file: by the time a block is read its triple
    has been checked against the final block offset, which has been checked against the file size -/
theorem open_sizes_bounded (file : List Nat) (fin : Fin)
    (hfbo : unle64 (file.drop (file.length - 8)) ≤ file.length)
    (hchk : finChecks fin (unle64 (file.drop (file.length - 8))) = none) :
    file.length - unle64 (file.drop (file.length - 8)) ≤ file.length
    ∧ fin.index.limit - fin.index.start ≤ file.length
    ∧ fin.filter.limit - fin.filter.start ≤ file.length := by
  have := finChecks_none hchk
  omega

/-- the loader of the damaged table agrees with the pristine one wherever it succeeds, provided the
    two tables have the same index entries, every block of the pristine table loads, and **the CRC
    tells each damaged payload from the original** (`crc b = crc b' → b = b'` for the two payloads
    an index entry names in the two files) -/
theorem refines_of_no_collision (t t' : Opened) (hent : t'.entries = t.entries)
    (hp : ∀ (i : Nat) k m, t.entries[i]? = some (k, m) → ∃ es, loadBlock crc t.file m = .ok es)
    (hnc : ∀ (i : Nat) k m b b', t.entries[i]? = some (k, m) → frameAt t.file m = .ok (0, b) →
      frameAt t'.file m = .ok (0, b') → crc b = crc b' → b = b') :
    Refines (t'.loadIdx crc) (t.loadIdx crc) := by
  intro i es' h'
  unfold Opened.loadIdx at h' ⊢
  rw [hent] at h'
  cases he : t.entries[i]? with
  | none => rw [he] at h'; cases h'
  | some km =>
    obtain ⟨k, m⟩ := km
    rw [he] at h'
    simp only at h' ⊢
    obtain ⟨es, hes⟩ := hp i k m he
    have := loadBlock_detects crc hes h' (hnc i k m · · he)
    rw [this]
    exact hes

/-- **damage behind the checksums**: two opened tables with the same index entries and files of
    the same length, the second one's loader refining the first one's (see
    `refines_of_no_collision`).  Then on the second (damaged) table a forward or backward walk that
    ends without an error is the first (pristine) table's walk, a walk that ends in an error
    delivered a prefix of it, every successful `load` is the pristine answer, and a successful
    `metadata` has the pristine first and last key. -/
theorem sst_single_burst (t t' : Opened) (hent : t'.entries = t.entries) (hlen : t'.file.length = t.file.length)
    (hr : Refines (t'.loadIdx crc) (t.loadIdx crc)) :
    ((t'.forward crc).2 = none → t'.forward crc = t.forward crc)
    ∧ (∃ more, (t.forward crc).1 = (t'.forward crc).1 ++ more)
    ∧ ((t'.backward crc).2 = none → t'.backward crc = t.backward crc)
    ∧ (∃ more, (t.backward crc).1 = (t'.backward crc).1 ++ more)
    ∧ (∀ k ts r, t'.load crc k ts = .ok r → t.load crc k ts = .ok r)
    ∧ (∀ m', t'.metadata crc = .ok m' → ∃ m, t.metadata crc = .ok m ∧ m'.firstKey = m.firstKey ∧ m'.lastKey = m.lastKey) := by
  have hfuel : t'.fuel = t.fuel := by unfold Opened.fuel; rw [hlen]
  have hn : t'.entries.length = t.entries.length := by rw [hent]
  have hsi : ∀ k, t'.seekIndex k = t.seekIndex k := by intro k; unfold Opened.seekIndex; rw [hent]
  refine ⟨?_, ?_, ?_, ?_, ?_, ?_⟩
  · unfold Opened.forward Opened.toFirst
    rw [hn, hfuel]
    exact (walkFwdG_refines _ hr _ _ _).1
  · unfold Opened.forward Opened.toFirst
    rw [hn, hfuel]
    exact (walkFwdG_refines _ hr _ _ _).2
  · unfold Opened.backward Opened.toLast
    rw [hn, hfuel]
    exact (walkBwdG_refines _ hr _ _ _).1
  · unfold Opened.backward Opened.toLast
    rw [hn, hfuel]
    exact (walkBwdG_refines _ hr _ _ _).2
  · intro k ts r h
    unfold Opened.load at h ⊢
    rw [hn, hfuel, hsi] at h
    exact loadG_refines _ hr _ _ _ _ _ h
  · intro m' h
    unfold Opened.metadata at h ⊢
    rw [hn] at h
    cases he : endsG t.entries.length (t'.loadIdx crc) with
    | error e => rw [he] at h; cases h
    | ok ends =>
      rw [he] at h
      cases h
      rw [endsG_refines _ hr ends he]
      exact ⟨_, rfl, rfl, rfl⟩

/-! ### which bytes a read depends on -/

theorem slice_agree (f f' : List Nat) (s l : Nat) (h : ∀ i, s ≤ i → i < s + l → f'[i]? = f[i]?) :
    (f'.drop s).take l = (f.drop s).take l := by
  apply List.ext_getElem?
  intro i
  rw [List.getElem?_take, List.getElem?_take]
  by_cases hi : i < l
  · simp only [if_pos hi, List.getElem?_drop]
    exact h (s + i) (by omega) (by omega)
  · simp only [if_neg hi]

theorem drop_agree (f f' : List Nat) (s : Nat) (_hlen : f'.length = f.length) (h : ∀ i, s ≤ i → f'[i]? = f[i]?) :
    f'.drop s = f.drop s := by
  apply List.ext_getElem?
  intro i
  rw [List.getElem?_drop, List.getElem?_drop]
  exact h (s + i) (by omega)

theorem fileSlice_agree (f f' : List Nat) (s l : Nat) (hlen : s + l ≤ f'.length ↔ s + l ≤ f.length)
    (h : ∀ i, s ≤ i → i < s + l → f'[i]? = f[i]?) : fileSlice f' s l = fileSlice f s l := by
  unfold fileSlice
  rw [slice_agree f f' s l h]
  by_cases h1 : s + l ≤ f.length
  · rw [if_pos h1, if_pos (hlen.mpr h1)]
  · rw [if_neg h1, if_neg (fun h2 => h1 (hlen.mp h2))]

/-- a block read depends on the bytes of `[start, limit)` only (and on whether the file reaches
    `limit`) -/
theorem frameAt_agree (f f' : List Nat) (m : BlockMeta) (hlen : m.limit ≤ f'.length ↔ m.limit ≤ f.length)
    (h : ∀ i, m.start ≤ i → i < m.limit → f'[i]? = f[i]?) : frameAt f' m = frameAt f m := by
  unfold frameAt
  by_cases hs : m.start ≥ m.limit
  · simp only [if_pos hs]
  · simp only [if_neg hs]
    have e : m.start + (m.limit - m.start) = m.limit := by omega
    rw [fileSlice_agree f f' m.start (m.limit - m.start) (by rw [e]; exact hlen) (by rw [e]; exact h)]

theorem loadBlock_agree (f f' : List Nat) (m : BlockMeta) (hlen : m.limit ≤ f'.length ↔ m.limit ≤ f.length)
    (h : ∀ i, m.start ≤ i → i < m.limit → f'[i]? = f[i]?) : loadBlock crc f' m = loadBlock crc f m := by
  unfold loadBlock readFrame
  rw [frameAt_agree f f' m hlen h]

theorem loadFilter_agree (f f' : List Nat) (m : BlockMeta) (hlen : m.limit ≤ f'.length ↔ m.limit ≤ f.length)
    (h : ∀ i, m.start ≤ i → i < m.limit → f'[i]? = f[i]?) : loadFilter crc f' m = loadFilter crc f m := by
  unfold loadFilter readFrame
  rw [frameAt_agree f f' m hlen h]

/-- **damage confined to the data blocks leaves the open untouched**: if the damaged file has the
    pristine file's length and its bytes from the start of the index block on, it opens to the same
    final block fields and the same index entries -/
theorem openSst_tail (f f' : List Nat) (t : Opened) (h : openSst crc f = .ok t) (hlen : f'.length = f.length)
    (a : Nat) (ha : a ≤ t.fin.index.start) (ha8 : a + 8 ≤ f.length) (htail : ∀ i, a ≤ i → f'[i]? = f[i]?) :
    openSst crc f' = .ok { t with file := f' } := by
  obtain ⟨hfile, hsize, h8, hfbo, hdec, hchk, ⟨ies, hib, hents⟩, hfil⟩ := open_guarded crc f t h
  obtain ⟨c1, c2, c3, c4⟩ := finChecks_none hchk
  have hd8 : f'.drop (f.length - 8) = f.drop (f.length - 8) :=
    drop_agree f f' _ hlen (fun i hi => htail i (by omega))
  have hdf : f'.drop (unle64 (f.drop (f.length - 8))) = f.drop (unle64 (f.drop (f.length - 8))) :=
    drop_agree f f' _ hlen (fun i hi => htail i (by omega))
  have hib' : loadBlock crc f' t.fin.index = .ok ies := by
    rw [loadBlock_agree crc f f' _ (by rw [hlen]) (fun i hi _ => htail i (by omega))]; exact hib
  have hfil' : loadFilter crc f' t.fin.filter = .ok () := by
    rw [loadFilter_agree crc f f' _ (by rw [hlen]) (fun i hi _ => htail i (by omega))]; exact hfil
  unfold openSst
  simp only [hlen, hd8, hdf, hdec, hchk, hib', hents, hfil']
  rw [if_neg (by omega), if_neg (by omega)]
  cases t
  simp_all


/-! ### the unchecksummed tail: final block and trailer -/

/-- what damage to the tail of the file (final block, trailer — anything after the blocks) comes to -/
inductive FinalCase where
  /-- the open fails -/
  | detected (e : Err)
  /-- the open succeeds with the pristine index triple: only `setsum`, `smallest_timestamp`,
      `biggest_timestamp` (and the file size) can differ -/
  | metaOnly
  /-- the open succeeds with a different index triple, which therefore names a payload matching the
      CRC *it* records -/
  | redirected
deriving DecidableEq, Repr

/-- the classification is decidable: run the open and compare the index triple -/
def classifyFinal (t : Opened) (f' : List Nat) : FinalCase :=
  match openSst crc f' with
  | .error e => .detected e
  | .ok t' => if t'.fin.index = t.fin.index then .metaOnly else .redirected

/-- **final_block_cases**: `f` opens to `t`; `f'` agrees with `f` on the first `a` bytes, which hold
    the index block and every data block (nothing is assumed about the rest of `f'`, not even its
    length).  Then `f'` is rejected, or it opens to the same index entries and the same data blocks
    (so that only the unchecksummed fields of the final block can differ), or its final block names
    a different index triple whose payload matches the CRC recorded in that very triple. -/
theorem final_block_cases (f f' : List Nat) (t : Opened) (h : openSst crc f = .ok t)
    (a : Nat) (ha : a ≤ f.length) (ha' : a ≤ f'.length) (hhead : ∀ i, i < a → f'[i]? = f[i]?)
    (hidx : t.fin.index.limit ≤ a) (hdata : ∀ km ∈ t.entries, km.2.limit ≤ a) :
    match classifyFinal crc t f' with
    | .detected e => openSst crc f' = .error e
    | .metaOnly => ∃ t', openSst crc f' = .ok t' ∧ t'.fin.index = t.fin.index ∧ t'.entries = t.entries
        ∧ ∀ i, t'.loadIdx crc i = t.loadIdx crc i
    | .redirected => ∃ t', openSst crc f' = .ok t' ∧ t'.fin.index ≠ t.fin.index
        ∧ ∃ body, frameAt f' t'.fin.index = .ok (0, body) ∧ crc body = t'.fin.index.crc := by
  unfold classifyFinal
  cases ho : openSst crc f' with
  | error e => rfl
  | ok t' =>
    simp only
    obtain ⟨hfile, _, _, _, _, _, ⟨ies, hib, hents⟩, _⟩ := open_guarded crc f t h
    obtain ⟨hfile', _, _, _, _, _, ⟨ies', hib', hents'⟩, _⟩ := open_guarded crc f' t' ho
    by_cases he : t'.fin.index = t.fin.index
    · rw [if_pos he]
      have hagree : ∀ (m : BlockMeta), m.limit ≤ a → loadBlock crc f' m = loadBlock crc f m := by
        intro m hm
        exact loadBlock_agree crc f f' m ⟨fun _ => by omega, fun _ => by omega⟩ (fun i _ hi => hhead i (by omega))
      have hent : t'.entries = t.entries := by
        rw [he, hagree _ hidx, hib] at hib'
        cases hib'
        rw [hents] at hents'
        exact (Except.ok.inj hents').symm
      refine ⟨t', rfl, he, hent, ?_⟩
      intro i
      unfold Opened.loadIdx
      rw [hent, hfile, hfile']
      cases hk : t.entries[i]? with
      | none => rfl
      | some km =>
        obtain ⟨k, m⟩ := km
        exact hagree m (hdata (k, m) (List.mem_of_getElem? hk))
    · rw [if_neg he]
      obtain ⟨body, hf, hc, _⟩ := loadBlock_ok crc hib'
      exact ⟨t', rfl, he, body, hf, hc⟩

/-- … and in the `metaOnly` case with an unchanged length every walk and every point read is the
    pristine one, and `metadata` is the pristine one with the damaged final block's `setsum`,
    `smallest_timestamp`, `biggest_timestamp` put in — returned as genuine (D-10) -/
theorem meta_only_reads (t t' : Opened) (hent : t'.entries = t.entries) (hlen : t'.file.length = t.file.length)
    (hload : ∀ i, t'.loadIdx crc i = t.loadIdx crc i) :
    t'.forward crc = t.forward crc ∧ t'.backward crc = t.backward crc
    ∧ (∀ k ts, t'.load crc k ts = t.load crc k ts)
    ∧ t'.metadata crc = (match t.metadata crc with
        | .error e => .error e
        | .ok m => .ok { m with setsum := t'.fin.setsum, smallest := t'.fin.smallest, biggest := t'.fin.biggest,
                                fileSize := t'.fileSize }) := by
  have hfuel : t'.fuel = t.fuel := by unfold Opened.fuel; rw [hlen]
  have hld : t'.loadIdx crc = t.loadIdx crc := funext hload
  refine ⟨?_, ?_, ?_, ?_⟩
  · unfold Opened.forward Opened.toFirst; rw [hent, hfuel, hld]
  · unfold Opened.backward Opened.toLast; rw [hent, hfuel, hld]
  · intro k ts; unfold Opened.load Opened.seekIndex; rw [hent, hfuel, hld]
  · unfold Opened.metadata
    rw [hent, hld]
    cases endsG t.entries.length (t.loadIdx crc) with
    | error e => rfl
    | ok ends => rfl

/-! ### totality: every reader of the model answers every byte string -/
theorem openSst_total (file : List Nat) : (∃ e, openSst crc file = .error e) ∨ ∃ t, openSst crc file = .ok t := by
  cases openSst crc file with
  | error e => exact Or.inl ⟨e, rfl⟩
  | ok t => exact Or.inr ⟨t, rfl⟩

end table
end Blue.SstOpen
