import Blue.Proofs.FileRefs
/-! **C07, file half** a cursor that owns its version reference keeps the files of its version in
    `sst/` for as long as it lives, whatever else happens (installs by flushes and compactions,
    other snapshots, other releases).  `held_files_present` (C08) is about one state; here the
    reference counts are followed along a run, with a ghost count `out i` of the references to
    version `i` that cursors hold. -/
namespace Blue.FileRefs

variable {F : Type} [DecidableEq F]

/-- the holder counts of all versions -/
def hs (s : St F) : List Nat := s.versions.map (·.holders)

def holdersAt (s : St F) (i : Nat) : Nat := ((hs s)[i]?).getD 0

theorem holdersAt_of_get {s : St F} {i : Nat} {v : Ver F} (h : s.versions[i]? = some v) : holdersAt s i = v.holders := by
  simp [holdersAt, hs, List.getElem?_map, h]

theorem hs_length (s : St F) : (hs s).length = s.versions.length := by simp [hs]

theorem hs_install (s : St F) (files : List F) (old : Ver F) (hv : s.versions[s.versions.length - 1]? = some old) :
    hs (step s (.install files)) = ((hs s).set (s.versions.length - 1) (old.holders - 1)) ++ [1] := by
  simp only [step, hv]
  have hlt : s.versions.length - 1 < s.versions.length := (List.getElem?_eq_some_iff.mp hv).1
  have hv2 : (s.versions ++ [⟨files, 1, true⟩])[s.versions.length - 1]? = some old := by
    rw [List.getElem?_append_left hlt]; exact hv
  split
  · rename_i hone
    rw [setAt_eq _ _ _ old hv2]
    simp only [hs, unrefFiles_versions]
    rw [List.set_append_left _ _ hlt]
    simp [List.map_set, hone]
  · rw [setAt_eq _ _ _ old hv2]
    simp only [hs]
    rw [List.set_append_left _ _ hlt]
    simp [List.map_set]

theorem hs_snapshot (s : St F) (old : Ver F) (hv : s.versions[s.versions.length - 1]? = some old) :
    hs (step s .snapshot) = (hs s).set (s.versions.length - 1) (old.holders + 1) := by
  simp only [step]
  rw [setAt_eq _ _ _ old hv]
  simp [hs, List.map_set]

/-- a release changes at most the count of the version it names, and by at most one -/
theorem hs_release (s : St F) (i : Nat) (v : Ver F) (hv : s.versions[i]? = some v) :
    ∃ n, hs (step s (.release i)) = (hs s).set i n ∧ v.holders - 1 ≤ n ∧
      (2 ≤ v.holders → n = v.holders - 1) := by
  have hself : (hs s).set i v.holders = hs s := by
    apply List.ext_getElem?
    intro j
    by_cases hj : j = i
    · subst hj
      simp [hs, List.getElem?_set, List.getElem?_map, hv]
      have := (List.getElem?_eq_some_iff.mp hv).1
      simp [this]
    · simp [Ne.symm hj]
  simp only [step, hv]
  split
  · split
    · rw [setAt_eq _ _ _ v hv]
      refine ⟨v.holders - 1, by simp [hs, List.map_set], Nat.le_refl _, fun _ => rfl⟩
    · rename_i hn
      exact ⟨v.holders, hself.symm, Nat.sub_le _ _, fun h => absurd (by omega) hn⟩
  · split
    · rename_i hone
      rw [setAt_eq _ _ _ v hv]
      refine ⟨0, by simp [hs, unrefFiles_versions, List.map_set], by omega, fun h => by omega⟩
    · split
      · rw [setAt_eq _ _ _ v hv]
        refine ⟨v.holders - 1, by simp [hs, List.map_set], Nat.le_refl _, fun _ => rfl⟩
      · rename_i hn
        exact ⟨v.holders, hself.symm, Nat.sub_le _ _, fun h => absurd (by omega) hn⟩

theorem versions_length_release (s : St F) (i : Nat) : (step s (.release i)).versions.length = s.versions.length := by
  cases hv : s.versions[i]? with
  | none => simp [step, hv]
  | some v =>
    obtain ⟨n, hn, _⟩ := hs_release s i v hv
    have := congrArg List.length hn
    simpa [hs_length] using this

/-- `out i` references to version `i` are held by cursors, over and above the tree's own reference
    to the current version -/
structure Ghost (s : St F) (out : Nat → Nat) : Prop where
  nonempty : 0 < s.versions.length
  room : ∀ i, i < s.versions.length → out i + (if i + 1 = s.versions.length then 1 else 0) ≤ holdersAt s i
  beyond : ∀ i, s.versions.length ≤ i → out i = 0

def bump (out : Nat → Nat) (i : Nat) : Nat → Nat := fun j => if j = i then out j + 1 else out j
def unbump (out : Nat → Nat) (i : Nat) : Nat → Nat := fun j => if j = i then out j - 1 else out j

/-- one event of a run in which snapshots are taken and released by cursors: a release of version
    `i` is a cursor's only if a cursor holds one (`out i ≥ 1`) -/
def gstep (g : St F × (Nat → Nat)) : Ev F → St F × (Nat → Nat)
  | .install files => (step g.1 (.install files), g.2)
  | .snapshot => (step g.1 .snapshot, bump g.2 (g.1.versions.length - 1))
  | .release i => if g.2 i ≥ 1 then (step g.1 (.release i), unbump g.2 i) else g

theorem gstep_release_pos (s : St F) (out : Nat → Nat) (i : Nat) (h : out i ≥ 1) :
    gstep (s, out) (.release i) = (step s (.release i), unbump out i) := by
  show (if out i ≥ 1 then (step s (.release i), unbump out i) else (s, out)) = _
  rw [if_pos h]

theorem gstep_release_neg (s : St F) (out : Nat → Nat) (i : Nat) (h : ¬ out i ≥ 1) :
    gstep (s, out) (.release i) = (s, out) := by
  show (if out i ≥ 1 then (step s (.release i), unbump out i) else (s, out)) = _
  rw [if_neg h]

theorem ghost_curOk {s : St F} {out : Nat → Nat} (h : Inv s) (g : Ghost s out) : CurOk s := by
  intro v hv
  have hl : s.versions.length - 1 < s.versions.length := by have := g.nonempty; omega
  have hr := g.room _ hl
  rw [holdersAt_of_get hv, if_pos (by omega)] at hr
  have hh : v.holders ≥ 1 := by omega
  exact ⟨h.held_counted v (List.mem_of_getElem? hv) hh, hh⟩

theorem ghost_step {s : St F} {out : Nat → Nat} (h : Inv s) (g : Ghost s out) (e : Ev F) :
    Inv (gstep (s, out) e).1 ∧ Ghost (gstep (s, out) e).1 (gstep (s, out) e).2 := by
  have hne := g.nonempty
  have hl : s.versions.length - 1 < s.versions.length := by omega
  obtain ⟨cur, hcur⟩ : ∃ v, s.versions[s.versions.length - 1]? = some v :=
    ⟨s.versions[s.versions.length - 1], List.getElem?_eq_getElem hl⟩
  cases e with
  | install files =>
    refine ⟨inv_install h files, ?_⟩
    show Ghost (step s (.install files)) out
    have hhs := hs_install s files cur hcur
    have hlen : (step s (.install files)).versions.length = s.versions.length + 1 := by
      have := congrArg List.length hhs
      simpa [hs_length] using this
    have hcr := g.room _ hl
    rw [holdersAt_of_get hcur, if_pos (by omega)] at hcr
    refine ⟨by omega, ?_, ?_⟩
    · intro i hi
      rw [hlen] at hi ⊢
      unfold holdersAt
      rw [hhs]
      by_cases h1 : i = s.versions.length
      · subst h1
        have hb := g.beyond s.versions.length (Nat.le_refl _)
        rw [List.getElem?_append_right (by simp [hs_length])]
        simp [hs_length, hb]
      · have hi' : i < s.versions.length := by omega
        rw [List.getElem?_append_left (by simp [hs_length]; exact hi')]
        rw [if_neg (by omega)]
        by_cases h2 : i = s.versions.length - 1
        · subst h2
          rw [List.getElem?_set_self (by simp [hs_length]; exact hi')]
          simp; omega
        · rw [List.getElem?_set_ne (Ne.symm h2)]
          have := g.room i hi'
          rw [if_neg (by omega)] at this
          exact this
    · intro i hi
      rw [hlen] at hi
      exact g.beyond i (by omega)
  | snapshot =>
    refine ⟨inv_snapshot h (ghost_curOk h g), ?_⟩
    show Ghost (step s .snapshot) (bump out (s.versions.length - 1))
    have hhs := hs_snapshot s cur hcur
    have hlen : (step s .snapshot).versions.length = s.versions.length := by
      have := congrArg List.length hhs
      simpa [hs_length] using this
    refine ⟨by omega, ?_, ?_⟩
    · intro i hi
      rw [hlen] at hi ⊢
      unfold holdersAt bump
      rw [hhs]
      by_cases h2 : i = s.versions.length - 1
      · subst h2
        rw [List.getElem?_set_self (by simp [hs_length]; exact hi)]
        have := g.room _ hl
        rw [holdersAt_of_get hcur] at this
        simp; omega
      · rw [List.getElem?_set_ne (Ne.symm h2), if_neg h2]
        exact g.room i hi
    · intro i hi
      rw [hlen] at hi
      unfold bump
      rw [if_neg (by omega)]
      exact g.beyond i hi
  | release i =>
    by_cases ho : out i ≥ 1
    · rw [gstep_release_pos s out i ho]
      refine ⟨inv_release h i, ?_⟩
      show Ghost (step s (.release i)) (unbump out i)
      have hi : i < s.versions.length := by
        apply Nat.lt_of_not_le; intro hge; have := g.beyond i hge; omega
      obtain ⟨v, hv⟩ : ∃ v, s.versions[i]? = some v := ⟨s.versions[i], List.getElem?_eq_getElem hi⟩
      obtain ⟨n, hn, hge, heq⟩ := hs_release s i v hv
      have hlen := versions_length_release s i
      have hri := g.room i hi
      rw [holdersAt_of_get hv] at hri
      refine ⟨by omega, ?_, ?_⟩
      · intro j hj
        rw [hlen] at hj ⊢
        unfold holdersAt unbump
        rw [hn]
        by_cases h2 : j = i
        · subst h2
          rw [List.getElem?_set_self (by simp [hs_length]; exact hj), if_pos rfl]
          simp only [Option.getD_some]
          by_cases hc : j + 1 = s.versions.length
          · rw [if_pos hc] at hri ⊢
            have := heq (by omega); omega
          · rw [if_neg hc] at hri ⊢
            omega
        · rw [List.getElem?_set_ne (Ne.symm h2), if_neg h2]
          exact g.room j hj
      · intro j hj
        rw [hlen] at hj
        unfold unbump
        rw [if_neg (by omega)]
        exact g.beyond j hj
    · rw [gstep_release_neg s out i ho]
      exact ⟨h, g⟩

/-- a run of events -/
def grun (g : St F × (Nat → Nat)) (evs : List (Ev F)) : St F × (Nat → Nat) := evs.foldl gstep g

theorem ghost_run {s : St F} {out : Nat → Nat} (h : Inv s) (g : Ghost s out) (evs : List (Ev F)) :
    Inv (grun (s, out) evs).1 ∧ Ghost (grun (s, out) evs).1 (grun (s, out) evs).2 := by
  induction evs generalizing s out with
  | nil => exact ⟨h, g⟩
  | cons e t ih =>
    have := ghost_step h g e
    exact ih this.1 this.2

/-- **a cursor's files stay**: in every state of every run, every file of a version that a cursor
    still holds a reference to is in `sst/` -/
theorem cursor_files_present {s : St F} {out : Nat → Nat} (h : Inv s) (g : Ghost s out) (evs : List (Ev F))
    (i : Nat) (hi : (grun (s, out) evs).2 i ≥ 1) (v : Ver F) (hv : (grun (s, out) evs).1.versions[i]? = some v)
    (f : F) (hf : f ∈ v.files) : f ∈ (grun (s, out) evs).1.sst := by
  obtain ⟨h', g'⟩ := ghost_run h g evs
  have hlt : i < (grun (s, out) evs).1.versions.length := (List.getElem?_eq_some_iff.mp hv).1
  have := g'.room i hlt
  rw [holdersAt_of_get hv] at this
  exact held_files_present h' v (List.mem_of_getElem? hv) (by omega) f hf

/-- a store that has just been opened on the files `files` -/
def init (files : List F) : St F :=
  { versions := [⟨files, 1, true⟩], refs := fun f => files.count f, sst := files, trash := [] }

theorem inv_init (files : List F) : Inv (init files) := by
  refine ⟨?_, ?_, ?_⟩
  · intro f; simp [init, expected]
  · intro v hv _; simp [init] at hv; rw [hv]
  · intro f hf; simp only [init] at hf ⊢; exact List.count_pos_iff.mp hf

theorem ghost_init (files : List F) : Ghost (init files) (fun _ => 0) := by
  refine ⟨by simp [init], ?_, fun _ _ => rfl⟩
  intro i hi
  simp [init] at hi
  subst hi
  simp [holdersAt, hs, init]

end Blue.FileRefs

#print axioms Blue.FileRefs.ghost_run
#print axioms Blue.FileRefs.cursor_files_present
