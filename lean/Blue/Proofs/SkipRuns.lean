import Blue.Proofs.SkipMLMain
/-! Runs of the skiplist model (`Blue.SkipML`) between two states, and what survives them.

    `Blue.Proofs.SkipMLMain` states "linked keys stay linked" for one `step`.  Here the closure:
    `Reaches s s'` = `s'` comes from `s` by any number of calls (`callInsert` …) and steps of any
    threads; along it linked keys stay linked (`linked_stays_linked_run`), so a key whose `insert`
    returned in `s` is linked in every later state (`returned_stays_linked`), `contains` answers
    `true` for it at its last load in every later state (`returned_found_by_later_contains`;
    `contains_answer`: the boolean `contains` writes is exactly "the key is linked at the time of
    the last load") and it is on the level-0 chain of every later state, once
    (`returned_in_later_chain`). -/
namespace Blue.SkipML

/-- `s'` comes from `s` by calls and steps of any threads, in any order -/
inductive Reaches (s : St) : St → Prop where
  | refl : Reaches s s
  | insert {s' : St} (i k h : Nat) : Reaches s s' → InsertOk s' k → Reaches s (callInsert s' i k h)
  | seek {s' : St} (i k : Nat) : Reaches s s' → Reaches s (callSeek s' i k)
  | contains {s' : St} (i k : Nat) : Reaches s s' → Reaches s (callContains s' i k)
  | first {s' : St} (i : Nat) : Reaches s s' → Reaches s (callFirst s' i)
  | last {s' : St} (i : Nat) : Reaches s s' → Reaches s (callLast s' i)
  | next {s' : St} (i : Nat) : Reaches s s' → Reaches s (callNext s' i)
  | prev {s' : St} (i : Nat) : Reaches s s' → Reaches s (callPrev s' i)
  | step {s' : St} (i : Nat) : Reaches s s' → Reaches s (Blue.SkipML.step s' i)

theorem reach_of_reaches {s s' : St} (h : Reach s) (hr : Reaches s s') : Reach s' := by
  induction hr with
  | refl => exact h
  | insert i k hh _ hok ih => exact .insert i k hh ih hok
  | seek i k _ ih => exact .seek i k ih
  | contains i k _ ih => exact .contains i k ih
  | first i _ ih => exact .first i ih
  | last i _ ih => exact .last i ih
  | next i _ ih => exact .next i ih
  | prev i _ ih => exact .prev i ih
  | step i _ ih => exact .step i ih

/-- every reachable state is reached from its initial state -/
theorem reaches_of_reach {s : St} (h : Reach s) : ∃ H T, 0 < H ∧ Reaches (init H T) s := by
  induction h with
  | init H T hH => exact ⟨H, T, hH, .refl⟩
  | insert i k hh _ hok ih => obtain ⟨H, T, hH, hr⟩ := ih; exact ⟨H, T, hH, .insert i k hh hr hok⟩
  | seek i k _ ih => obtain ⟨H, T, hH, hr⟩ := ih; exact ⟨H, T, hH, .seek i k hr⟩
  | contains i k _ ih => obtain ⟨H, T, hH, hr⟩ := ih; exact ⟨H, T, hH, .contains i k hr⟩
  | first i _ ih => obtain ⟨H, T, hH, hr⟩ := ih; exact ⟨H, T, hH, .first i hr⟩
  | last i _ ih => obtain ⟨H, T, hH, hr⟩ := ih; exact ⟨H, T, hH, .last i hr⟩
  | next i _ ih => obtain ⟨H, T, hH, hr⟩ := ih; exact ⟨H, T, hH, .next i hr⟩
  | prev i _ ih => obtain ⟨H, T, hH, hr⟩ := ih; exact ⟨H, T, hH, .prev i hr⟩
  | step i _ ih => obtain ⟨H, T, hH, hr⟩ := ih; exact ⟨H, T, hH, .step i hr⟩

theorem reaches_steps {s : St} (l : List Nat) : Reaches s (l.foldl step s) := by
  have : ∀ (l : List Nat) (s' : St), Reaches s s' → Reaches s (l.foldl step s') := by
    intro l
    induction l with
    | nil => intro s' h; exact h
    | cons i l ih => intro s' h; exact ih _ (.step i h)
  exact this l s .refl

theorem reach_steps {s : St} (h : Reach s) (l : List Nat) : Reach (l.foldl step s) :=
  reach_of_reaches h (reaches_steps l)

/-! ### calls touch the thread table only -/

theorem callInsert_ghost (s : St) (i k h : Nat) :
    (callInsert s i k h).inserted = s.inserted ∧ (callInsert s i k h).returned = s.returned := by
  unfold callInsert; split <;> exact ⟨rfl, rfl⟩
theorem callSeek_ghost (s : St) (i k : Nat) :
    (callSeek s i k).inserted = s.inserted ∧ (callSeek s i k).returned = s.returned := by
  unfold callSeek; split <;> exact ⟨rfl, rfl⟩
theorem callContains_ghost (s : St) (i k : Nat) :
    (callContains s i k).inserted = s.inserted ∧ (callContains s i k).returned = s.returned := by
  unfold callContains; split <;> exact ⟨rfl, rfl⟩
theorem callFirst_ghost (s : St) (i : Nat) :
    (callFirst s i).inserted = s.inserted ∧ (callFirst s i).returned = s.returned := by
  unfold callFirst; split <;> exact ⟨rfl, rfl⟩
theorem callLast_ghost (s : St) (i : Nat) :
    (callLast s i).inserted = s.inserted ∧ (callLast s i).returned = s.returned := by
  unfold callLast; split <;> exact ⟨rfl, rfl⟩
theorem callNext_ghost (s : St) (i : Nat) :
    (callNext s i).inserted = s.inserted ∧ (callNext s i).returned = s.returned := by
  unfold callNext
  split
  · split <;> exact ⟨rfl, rfl⟩
  · exact ⟨rfl, rfl⟩
theorem callPrev_ghost (s : St) (i : Nat) :
    (callPrev s i).inserted = s.inserted ∧ (callPrev s i).returned = s.returned := by
  unfold callPrev
  split
  · split <;> exact ⟨rfl, rfl⟩
  · exact ⟨rfl, rfl⟩

/-- **linked keys stay linked along every run**: calls and steps of any threads, in any order -/
theorem linked_stays_linked_run {s s' : St} (h : Reach s) (hr : Reaches s s') :
    ∀ k ∈ s.inserted, k ∈ s'.inserted := by
  induction hr with
  | refl => intro k hk; exact hk
  | insert i k hh _ _ ih => rw [(callInsert_ghost _ i k hh).1]; exact ih
  | seek i k _ ih => rw [(callSeek_ghost _ i k).1]; exact ih
  | contains i k _ ih => rw [(callContains_ghost _ i k).1]; exact ih
  | first i _ ih => rw [(callFirst_ghost _ i).1]; exact ih
  | last i _ ih => rw [(callLast_ghost _ i).1]; exact ih
  | next i _ ih => rw [(callNext_ghost _ i).1]; exact ih
  | prev i _ ih => rw [(callPrev_ghost _ i).1]; exact ih
  | step i hr' ih =>
    intro k hk
    exact linked_stays_linked (reach_of_reaches h hr') i k (ih k hk)

/-- **no insert is lost, ever**: a key whose `insert` has returned is linked in every later state -/
theorem returned_stays_linked {s s' : St} (h : Reach s) (hr : Reaches s s') :
    ∀ k ∈ s.returned, k ∈ s'.inserted :=
  fun k hk => linked_stays_linked_run h hr k (returned_linked h k hk)

/-- **the answer of `contains`**: at the last load of `find_greater_or_equal` (level 0, the node
    loaded is null or not before `k`) the boolean `contains(k)` stores is `true` exactly when `k`
    is linked at the time of that load -/
theorem contains_answer {s : St} (h : Reach s) (i k x : Nat) (hpc : (th s i).pc = .geq k x 0 true)
    (hstop : ∀ n, mnext s.heap 0 x = some n → ¬ mkey s.heap n < k) :
    (th (step s i) i).pc = .idle ∧ ((th (step s i) i).found = true ↔ k ∈ s.inserted) := by
  obtain ⟨h1, h2⟩ := seek_lands h i k x true hpc hstop
  have hi : i < s.ths.length := th_lt_of_pc (by rw [hpc]; intro hc; cases hc)
  cases hn : mnext s.heap 0 x with
  | none =>
    have hstep : step s i = setTh s i { th s i with pc := .idle, found := false } := by
      unfold step; simp only [hpc, hn, after, if_true]
    rw [hstep, th_setTh_same _ _ _ hi]
    refine ⟨rfl, ?_⟩
    constructor
    · intro hc; cases hc
    · intro hk; have := h1 hn k hk; omega
  | some n =>
    have haft : after s.heap k (some n) = false := by
      simp only [after, decide_eq_false_iff_not]; exact hstop n hn
    have hstep : step s i = setTh s i { th s i with pc := .idle, found := decide (mkey s.heap n = k) } := by
      unfold step; simp only [hpc, hn, haft, if_true]
    rw [hstep, th_setTh_same _ _ _ hi]
    refine ⟨rfl, ?_⟩
    obtain ⟨h3, h4, h5⟩ := h2 n hn
    simp only [decide_eq_true_eq]
    constructor
    · intro heq; rw [← heq]; exact h3
    · intro hk; have := h5 k hk (Nat.le_refl _); omega

/-- **a returned insert is found by every later `contains`**: whatever calls and steps of whichever
    threads follow the return of `insert(k)`, a `contains(k)` that then does its last load answers
    `true` -/
theorem returned_found_by_later_contains {s s' : St} (h : Reach s) (hr : Reaches s s') (k : Nat)
    (hk : k ∈ s.returned) (i x : Nat) (hpc : (th s' i).pc = .geq k x 0 true)
    (hstop : ∀ n, mnext s'.heap 0 x = some n → ¬ mkey s'.heap n < k) :
    (th (step s' i) i).found = true :=
  (contains_answer (reach_of_reaches h hr) i k x hpc hstop).2.mpr (returned_stays_linked h hr k hk)

/-- … and by every later `seek`: a `seek(k)` that does its last load lands on the node of `k` -/
theorem returned_found_by_later_seek {s s' : St} (h : Reach s) (hr : Reaches s s') (k : Nat)
    (hk : k ∈ s.returned) (i x : Nat) (c : Bool) (hpc : (th s' i).pc = .geq k x 0 c)
    (hstop : ∀ n, mnext s'.heap 0 x = some n → ¬ mkey s'.heap n < k) :
    ∃ n, mnext s'.heap 0 x = some n ∧ mkey s'.heap n = k := by
  obtain ⟨h1, h2⟩ := seek_lands (reach_of_reaches h hr) i k x c hpc hstop
  have hlinked := returned_stays_linked h hr k hk
  cases hn : mnext s'.heap 0 x with
  | none => have := h1 hn k hlinked; omega
  | some n =>
    obtain ⟨_, h4, h5⟩ := h2 n hn
    exact ⟨n, rfl, by have := h5 k hlinked (Nat.le_refl _); omega⟩

/-- **a returned insert is on the level-0 chain of every later state, once**: the walk from the
    head along level 0 in any later state is strictly increasing in key and holds the key -/
theorem returned_in_later_chain {s s' : St} (h : Reach s) (hr : Reaches s s') :
    ∃ ids0 : List Nat, chainFrom s'.heap 0 (ids0.length + 1) (mnext s'.heap 0 0) = ids0 ∧
      (ids0.map (mkey s'.heap)).Pairwise (· < ·) ∧ ∀ k ∈ s.returned, k ∈ ids0.map (mkey s'.heap) := by
  have h' := reach_of_reaches h hr
  obtain ⟨ids, hc, hs, _, hk⟩ := upper_levels_are_subchains h'
  obtain ⟨ids', hinv⟩ := reach_minv h'
  exact ⟨ids 0, hc 0 hinv.hpos, hs 0 hinv.hpos, fun k hkr => (hk k).mp (returned_stays_linked h hr k hkr)⟩

end Blue.SkipML
