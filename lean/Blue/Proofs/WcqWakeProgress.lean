import Blue.Proofs.WcqWake
/-! Progress of the wake-up protocol (property C18, "no call blocks forever").

    `never_stuck` says that no reachable state is a deadlock.  Here: as long as a caller is linked,
    some step other than a new arrival or a spurious wake-up is *enabled* (`progress_enabled`), and
    every such step strictly decreases a lexicographic measure (`progress_decreases`), so every run
    of such steps is finite (`progress_terminates`) and can only end with nobody linked: without
    new arrivals all calls return after finitely many steps of a scheduler that keeps running
    enabled steps.  -/
namespace Blue.WcqWake

/-! ## lists -/

theorem upd_none {l : List Ent} {i : Nat} (f : Ent → Ent) (h : l[i]? = none) : upd l i f = l := by
  unfold upd; rw [h]

theorem upd_some {l : List Ent} {i : Nat} (f : Ent → Ent) {e : Ent} (h : l[i]? = some e) :
    upd l i f = l.set i (f e) := by
  unfold upd; rw [h]

theorem countP_set (p : Ent → Bool) : ∀ (l : List Ent) (i : Nat) (e x : Ent), l[i]? = some e →
    (l.set i x).countP p + (if p e then 1 else 0) = l.countP p + (if p x then 1 else 0)
  | [], i, e, x, h => by simp at h
  | a :: t, 0, e, x, h => by
    simp only [List.getElem?_cons_zero, Option.some.injEq] at h
    subst h
    simp only [List.set_cons_zero, List.countP_cons]
    omega
  | a :: t, i + 1, e, x, h => by
    simp only [List.getElem?_cons_succ] at h
    have ih := countP_set p t i e x h
    simp only [List.set_cons_succ, List.countP_cons]
    omega

theorem countP_upd (p : Ent → Bool) (l : List Ent) (i : Nat) (f : Ent → Ent) (e : Ent) (h : l[i]? = some e) :
    (upd l i f).countP p + (if p e then 1 else 0) = l.countP p + (if p (f e) then 1 else 0) := by
  rw [upd_some f h]; exact countP_set p l i e (f e) h

/-- an update that does not change `p` does not change the count -/
theorem countP_upd_same (p : Ent → Bool) (l : List Ent) (i : Nat) (f : Ent → Ent) (hf : ∀ e, p (f e) = p e) :
    (upd l i f).countP p = l.countP p := by
  cases h : l[i]? with
  | none => rw [upd_none f h]
  | some e =>
    have := countP_upd p l i f e h
    rw [hf e] at this
    omega

theorem countP_upd_le (p : Ent → Bool) (l : List Ent) (i : Nat) (f : Ent → Ent) :
    (upd l i f).countP p ≤ l.countP p + 1 := by
  cases h : l[i]? with
  | none => rw [upd_none f h]; omega
  | some e =>
    have := countP_upd p l i f e h
    split at this <;> split at this <;> omega

theorem stealN_get : ∀ (k : Nat) (l : List Ent) (i x : Nat),
    (stealN l i k)[x]? = if i ≤ x ∧ x < i + k then l[x]?.map (fun e => { e with st := .stolen }) else l[x]?
  | 0, l, i, x => by
    simp only [stealN]
    rw [if_neg (by omega)]
  | k + 1, l, i, x => by
    simp only [stealN]
    rw [stealN_get k _ (i + 1) x, upd_get]
    by_cases h1 : x = i
    · subst h1
      rw [if_neg (by omega), if_pos rfl, if_pos (by omega)]
    · rw [if_neg h1]
      by_cases h2 : i + 1 ≤ x ∧ x < i + 1 + k
      · rw [if_pos h2, if_pos (by omega)]
      · rw [if_neg h2, if_neg (by omega)]

theorem stealN_length : ∀ (k : Nat) (l : List Ent) (i : Nat), (stealN l i k).length = l.length
  | 0, _, _ => rfl
  | k + 1, l, i => by simp only [stealN]; rw [stealN_length k, upd_length]

theorem countP_stealN (p : Ent → Bool) (hp : ∀ e : Ent, p { e with st := .stolen } = p e) :
    ∀ (k : Nat) (l : List Ent) (i : Nat), (stealN l i k).countP p = l.countP p
  | 0, _, _ => rfl
  | k + 1, l, i => by
    simp only [stealN]
    rw [countP_stealN p hp k, countP_upd_same p l i _ hp]

theorem headIdx_stealN : ∀ (k : Nat) (l : List Ent) (i : Nat), headIdx (stealN l i k) = headIdx l
  | 0, _, _ => rfl
  | k + 1, l, i => by
    simp only [stealN]
    rw [headIdx_stealN k]
    exact headIdx_upd l i _ (fun _ => rfl)

/-! ## a second invariant: who is awake, who is linked, who is stolen -/

def AwakeAt (l : List Ent) (i : Nat) : Prop := ∃ e, l[i]? = some e ∧ e.parked = false
def LinkedAt (l : List Ent) (i : Nat) : Prop := ∃ e, l[i]? = some e ∧ e.linked = true

theorem awakeAt_upd {l : List Ent} {i : Nat} (x : Nat) (f : Ent → Ent)
    (hf : ∀ e, e.parked = false → (f e).parked = false) (h : AwakeAt l i) : AwakeAt (upd l x f) i := by
  obtain ⟨e, he, hp⟩ := h
  rw [AwakeAt, upd_get]
  by_cases hx : i = x
  · subst hx; rw [if_pos rfl, he]; exact ⟨f e, rfl, hf e hp⟩
  · rw [if_neg hx]; exact ⟨e, he, hp⟩

theorem linkedAt_upd {l : List Ent} {i : Nat} (x : Nat) (f : Ent → Ent)
    (hf : i = x → ∀ e, e.linked = true → (f e).linked = true) (h : LinkedAt l i) : LinkedAt (upd l x f) i := by
  obtain ⟨e, he, hp⟩ := h
  rw [LinkedAt, upd_get]
  by_cases hx : i = x
  · rw [if_pos hx, ← hx, he]; exact ⟨f e, rfl, hf hx e hp⟩
  · rw [if_neg hx]; exact ⟨e, he, hp⟩

theorem awakeAt_stealN {l : List Ent} {i : Nat} (a k : Nat) (h : AwakeAt l i) : AwakeAt (stealN l a k) i := by
  obtain ⟨e, he, hp⟩ := h
  rw [AwakeAt, stealN_get]
  split
  · rw [he]; exact ⟨_, rfl, hp⟩
  · exact ⟨e, he, hp⟩

theorem linkedAt_stealN {l : List Ent} {i : Nat} (a k : Nat) (h : LinkedAt l i) : LinkedAt (stealN l a k) i := by
  obtain ⟨e, he, hp⟩ := h
  rw [LinkedAt, stealN_get]
  split
  · rw [he]; exact ⟨_, rfl, hp⟩
  · exact ⟨e, he, hp⟩

theorem awakeAt_append {l : List Ent} {i : Nat} (t : List Ent) (h : AwakeAt l i) : AwakeAt (l ++ t) i := by
  obtain ⟨e, he, hp⟩ := h
  have hi : i < l.length := (List.getElem?_eq_some_iff.mp he).1
  exact ⟨e, by rw [List.getElem?_append_left hi]; exact he, hp⟩

theorem linkedAt_append {l : List Ent} {i : Nat} (t : List Ent) (h : LinkedAt l i) : LinkedAt (l ++ t) i := by
  obtain ⟨e, he, hp⟩ := h
  have hi : i < l.length := (List.getElem?_eq_some_iff.mp he).1
  exact ⟨e, by rw [List.getElem?_append_left hi]; exact he, hp⟩

/-- every stolen entry belongs to the undelivered part of the batch being handed out -/
def StolenOk (l : List Ent) (lead : Lead) : Prop :=
  ∀ x e, l[x]? = some e → e.st = .stolen → ∃ i k j, lead = .delivering i k j ∧ i + j ≤ x ∧ x < i + k

structure Inv2 (s : St) : Prop where
  /-- whoever has decided to park is still awake -/
  holdAwake : ∀ i, s.holder = some i → AwakeAt s.ents i
  /-- a leader that is handing out is still linked -/
  leadLinked : ∀ i k j, s.lead = .delivering i k j → LinkedAt s.ents i
  stolen : StolenOk s.ents s.lead

theorem inv2_init : Inv2 init :=
  ⟨by intro i h; simp [init] at h, by intro i k j h; simp [init] at h,
   by intro x e h; simp [init] at h⟩

theorem stolenOk_upd_keep {l : List Ent} {lead : Lead} (x : Nat) (f : Ent → Ent)
    (hf : ∀ e, (f e).st = .stolen → e.st = .stolen) (h : StolenOk l lead) : StolenOk (upd l x f) lead := by
  intro y e he hs
  rw [upd_get] at he
  by_cases hy : y = x
  · rw [if_pos hy] at he
    cases hl : l[x]? with
    | none => rw [hl] at he; cases he
    | some e0 =>
      rw [hl] at he
      simp only [Option.map_some, Option.some.injEq] at he
      subst he
      exact h y e0 (by rw [hy]; exact hl) (hf e0 hs)
  · rw [if_neg hy] at he
    exact h y e he hs

theorem holder_none_of_not {s : St} (h : ¬ s.holder ≠ none) : s.holder = none := by
  cases hh : s.holder with
  | none => rfl
  | some _ => rw [hh] at h; simp at h

theorem lead_none_of_idle {s : St} (h : Inv s) (hd : s.doingWork = false) : s.lead = .none := by
  cases hl : s.lead with
  | none => rfl
  | delivering i k j =>
    have := h.dw.mpr (by rw [hl]; simp)
    rw [hd] at this; cases this
  | unlinked =>
    have := h.dw.mpr (by rw [hl]; simp)
    rw [hd] at this; cases this

theorem inv2_step {s : St} (h : Inv s) (h2 : Inv2 s) (ev : Ev) : Inv2 (step s ev) := by
  cases ev with
  | link =>
    simp only [step]
    refine ⟨fun i hi => awakeAt_append _ (h2.holdAwake i hi),
      fun i k j hl => linkedAt_append _ (h2.leadLinked i k j hl), ?_⟩
    intro x e he hs
    dsimp only at he ⊢
    rcases Nat.lt_or_ge x s.ents.length with hlt | hge
    · rw [List.getElem?_append_left hlt] at he
      exact h2.stolen x e he hs
    · rw [List.getElem?_append_right hge] at he
      cases hx : x - s.ents.length with
      | zero =>
        rw [hx] at he
        simp only [List.getElem?_cons_zero, Option.some.injEq] at he
        rw [← he] at hs; cases hs
      | succ n => rw [hx] at he; simp at he
  | check i k =>
    simp only [step]
    split
    · exact h2
    · rename_i hnone
      have hnone' : s.holder = none := holder_none_of_not hnone
      split
      · rename_i st heq
        have hawake : AwakeAt s.ents i := ⟨_, heq, rfl⟩
        have hlinked : LinkedAt s.ents i := ⟨_, heq, rfl⟩
        split
        · exact h2
        · rename_i hnl
          split
          · -- leaves
            refine ⟨?_, ?_, ?_⟩
            · intro j hj; dsimp only at hj; rw [hnone'] at hj; cases hj
            · intro a k' j' hl
              dsimp only at hl ⊢
              have hne : a ≠ i := by
                intro ha; subst ha
                rw [hl] at hnl; simp [isLeader] at hnl
              unfold leave
              dsimp only
              exact linkedAt_upd _ _ (fun _ e he => he)
                (linkedAt_upd _ _ (fun ha => absurd ha hne) (h2.leadLinked a k' j' hl))
            · dsimp only
              unfold leave
              dsimp only
              exact stolenOk_upd_keep _ _ (fun _ he => he) (stolenOk_upd_keep _ _ (fun _ he => he) h2.stolen)
          · -- holds an input
            split
            · refine ⟨?_, h2.leadLinked, h2.stolen⟩
              intro j hj
              dsimp only at hj ⊢
              simp only [Option.some.injEq] at hj
              subst hj
              exact hawake
            · rename_i hidle
              split
              · have hdw : s.doingWork = false := by
                  cases hd : s.doingWork with
                  | false => rfl
                  | true => exact absurd (Or.inl hd) hidle
                have hln := lead_none_of_idle h hdw
                refine ⟨?_, ?_, ?_⟩
                · intro j hj; dsimp only at hj; rw [hnone'] at hj; cases hj
                · intro a k' j' hl
                  dsimp only at hl ⊢
                  simp only [Lead.delivering.injEq] at hl
                  obtain ⟨ha, _, _⟩ := hl
                  subst ha
                  exact linkedAt_stealN _ _ hlinked
                · intro x e he hs
                  dsimp only at he ⊢
                  rw [stealN_get] at he
                  by_cases hr : i ≤ x ∧ x < i + k
                  · exact ⟨i, k, 0, rfl, by omega, hr.2⟩
                  · rw [if_neg hr] at he
                    obtain ⟨a, k', j', hl, _⟩ := h2.stolen x e he hs
                    rw [hln] at hl; cases hl
              · exact h2
          · -- was stolen
            split
            · refine ⟨?_, h2.leadLinked, h2.stolen⟩
              intro j hj
              dsimp only at hj ⊢
              simp only [Option.some.injEq] at hj
              subst hj
              exact hawake
            · exact h2
      · exact h2
  | park =>
    simp only [step]
    split
    · refine ⟨(by intro j hj; cases hj), ?_, ?_⟩
      · intro a k j hl
        exact linkedAt_upd _ _ (fun _ e he => he) (h2.leadLinked a k j hl)
      · exact stolenOk_upd_keep _ _ (fun _ he => he) h2.stolen
    · exact h2
  | notifyHead =>
    simp only [step]
    split
    · refine ⟨?_, ?_, ?_⟩
      · intro j hj
        exact awakeAt_upd _ _ (fun _ _ => rfl) (h2.holdAwake j hj)
      · intro a k j hl
        exact linkedAt_upd _ _ (fun _ e he => he) (h2.leadLinked a k j hl)
      · exact stolenOk_upd_keep _ _ (fun _ he => he) h2.stolen
    · exact h2
  | deliver =>
    simp only [step]
    split
    · rename_i i k j hl
      split
      · rename_i hjk
        refine ⟨?_, ?_, ?_⟩
        · intro x hx
          exact awakeAt_upd _ _ (fun _ _ => rfl) (h2.holdAwake x hx)
        · intro a k' j' hl'
          dsimp only at hl' ⊢
          simp only [Lead.delivering.injEq] at hl'
          obtain ⟨ha, _, _⟩ := hl'
          subst ha
          exact linkedAt_upd _ _ (fun _ e he => he) (h2.leadLinked i k j hl)
        · intro y e he hs
          dsimp only at he ⊢
          rw [upd_get] at he
          by_cases hy : y = i + j
          · rw [if_pos hy] at he
            cases hold : s.ents[i + j]? with
            | none => rw [hold] at he; cases he
            | some e0 =>
              rw [hold] at he
              simp only [Option.map_some, Option.some.injEq] at he
              rw [← he] at hs; cases hs
          · rw [if_neg hy] at he
            obtain ⟨a, k', j', hl', h1, h2'⟩ := h2.stolen y e he hs
            rw [hl] at hl'
            simp only [Lead.delivering.injEq] at hl'
            obtain ⟨ha, hk, hj⟩ := hl'
            subst ha; subst hk; subst hj
            exact ⟨i, k, j + 1, rfl, by omega, h2'⟩
      · exact h2
    · exact h2
  | leaderUnlink =>
    simp only [step]
    split
    · rename_i i k j hl
      split
      · rename_i hjk
        refine ⟨?_, ?_, ?_⟩
        · intro x hx
          exact awakeAt_upd _ _ (fun _ hp => hp) (h2.holdAwake x hx)
        · intro a k' j' hl'; cases hl'
        · intro y e he hs
          dsimp only at he
          have hk := stolenOk_upd_keep i (fun e => { e with linked := false }) (fun _ he => he) h2.stolen
          obtain ⟨a, k', j', hl', h1, h2'⟩ := hk y e he hs
          rw [hl] at hl'
          simp only [Lead.delivering.injEq] at hl'
          obtain ⟨ha, hk, hj⟩ := hl'
          subst ha; subst hk; subst hj
          omega
      · exact h2
    · exact h2
  | leaderClear =>
    simp only [step]
    split
    · exact h2
    · split
      · rename_i hl
        refine ⟨h2.holdAwake, (by intro a k j hl'; cases hl'), ?_⟩
        intro y e he hs
        dsimp only at he
        obtain ⟨a, k', j', hl', _⟩ := h2.stolen y e he hs
        rw [hl] at hl'; cases hl'
      · exact h2
  | spurious i =>
    simp only [step]
    refine ⟨?_, ?_, ?_⟩
    · intro j hj
      exact awakeAt_upd _ _ (fun _ _ => rfl) (h2.holdAwake j hj)
    · intro a k j hl
      exact linkedAt_upd _ _ (fun _ e he => he) (h2.leadLinked a k j hl)
    · exact stolenOk_upd_keep _ _ (fun _ he => he) h2.stolen

theorem inv2_run {s : St} (h : Inv s) (h2 : Inv2 s) : ∀ (evs : List Ev), Inv2 (evs.foldl step s)
  | [] => h2
  | ev :: evs => by
    simp only [List.foldl_cons]
    exact inv2_run (inv_step h ev) (inv2_step h h2 ev) evs

/-- the leader never hands out more than it took -/
def LeadBound (s : St) : Prop := ∀ i k j, s.lead = .delivering i k j → j ≤ k

theorem leadBound_init : LeadBound init := by intro i k j h; simp [init] at h

theorem leadBound_step {s : St} (h : LeadBound s) (ev : Ev) : LeadBound (step s ev) := by
  cases ev with
  | link => exact h
  | check i k =>
    simp only [step]
    split
    · exact h
    · split
      · split
        · exact h
        · split
          · exact h
          · split
            · exact h
            · split
              · intro a k' j' hl
                dsimp only at hl
                simp only [Lead.delivering.injEq] at hl
                omega
              · exact h
          · split
            · exact h
            · exact h
      · exact h
  | park =>
    simp only [step]
    split
    · exact h
    · exact h
  | notifyHead =>
    simp only [step]
    split
    · exact h
    · exact h
  | deliver =>
    simp only [step]
    split
    · split
      · intro a k' j' hl
        dsimp only at hl
        simp only [Lead.delivering.injEq] at hl
        omega
      · exact h
    · exact h
  | leaderUnlink =>
    simp only [step]
    split
    · split
      · intro a k' j' hl; cases hl
      · exact h
    · exact h
  | leaderClear =>
    simp only [step]
    split
    · exact h
    · split
      · intro a k' j' hl; cases hl
      · exact h
  | spurious i => exact h

/-! ## something can always move -/

/-- the steps of the callers and the leader themselves: everything but a new arrival and a
    spurious wake-up -/
def progressEv : Ev → Bool
  | .link => false
  | .spurious _ => false
  | _ => true

def nl (l : List Ent) : Nat := l.countP (·.linked)
def na (l : List Ent) : Nat := l.countP (fun e => !e.parked)

theorem nl_upd_unlink {l : List Ent} {i : Nat} (h : LinkedAt l i) :
    nl (upd l i (fun e => { e with linked := false })) + 1 = nl l := by
  obtain ⟨e, he, hl⟩ := h
  have := countP_upd (·.linked) l i (fun e => { e with linked := false }) e he
  simp only [hl, if_true] at this
  unfold nl
  simpa using this

theorem nl_leave {l : List Ent} {i : Nat} (h : LinkedAt l i) : nl (leave l i) + 1 = nl l := by
  unfold leave
  dsimp only
  have := nl_upd_unlink h
  unfold nl at this ⊢
  have e2 : ∀ (l' : List Ent) (x : Nat),
      (upd l' x (fun e => { e with parked := false })).countP (·.linked) = l'.countP (·.linked) :=
    fun l' x => countP_upd_same _ l' x _ (fun _ => rfl)
  rw [e2]
  exact this

theorem progress_enabled {s : St} (h : Inv s) (h2 : Inv2 s) (hb : LeadBound s)
    (hl : s.ents.any (·.linked) = true) : ∃ ev, progressEv ev = true ∧ step s ev ≠ s := by
  cases hh : s.holder with
  | some i =>
    refine ⟨.park, rfl, ?_⟩
    intro heq
    have := congrArg St.holder heq
    simp [step, hh] at this
  | none =>
    cases hp : s.pendingNotifyHead with
    | succ n =>
      refine ⟨.notifyHead, rfl, ?_⟩
      intro heq
      have := congrArg St.pendingNotifyHead heq
      simp [step, hp] at this
    | zero =>
      cases hlead : s.lead with
      | delivering i k j =>
        have hjk := hb i k j hlead
        by_cases hlt : j < k
        · refine ⟨.deliver, rfl, ?_⟩
          intro heq
          have := congrArg St.lead heq
          simp [step, hlead, hlt] at this
        · have hjk' : j = k := by omega
          refine ⟨.leaderUnlink, rfl, ?_⟩
          intro heq
          have := congrArg St.lead heq
          simp [step, hlead, hjk'] at this
      | unlinked =>
        refine ⟨.leaderClear, rfl, ?_⟩
        intro heq
        have := congrArg St.lead heq
        simp [step, hlead, hh] at this
      | none =>
        have hdw : s.doingWork = false := by
          cases hd : s.doingWork with
          | false => rfl
          | true => exact absurd hlead (h.dw.mp hd)
        obtain ⟨e, he⟩ := any_linked_head s.ents hl
        have hlinked := headIdx_linked s.ents e he
        have hawake := h.head hdw hp e he
        have hlt : headIdx s.ents < s.ents.length := (List.getElem?_eq_some_iff.mp he).1
        obtain ⟨st, lk, pk⟩ := e
        simp only at hlinked hawake
        subst hlinked; subst hawake
        refine ⟨.check (headIdx s.ents) 1, rfl, ?_⟩
        cases st with
        | outp =>
          intro heq
          have h1 := congrArg (fun t => nl t.ents) heq
          simp only [step, hh, he, hlead, isLeader] at h1
          have h3 := nl_leave (l := s.ents) (i := headIdx s.ents) ⟨_, he, rfl⟩
          simp at h1
          omega
        | inp =>
          intro heq
          have h1 := congrArg St.doingWork heq
          simp [step, hh, he, hlead, isLeader, hdw] at h1
          rw [if_pos (by omega)] at h1
          cases h1
        | stolen =>
          obtain ⟨a, k, j, hl', _⟩ := h2.stolen _ _ he rfl
          rw [hlead] at hl'; cases hl'

/-! ## every such step uses something up -/

def W (len : Nat) : Lead → Nat
  | .none => 3 * len + 1
  | .delivering _ k j => 3 * (k - j)
  | .unlinked => 3 * len + 5

/-- what is left to do while the number of linked callers stays the same: the leader's phase and
    undelivered outputs, pending notifications, awake callers, and the caller about to park -/
def phi (s : St) : Nat :=
  W s.ents.length s.lead + 3 * s.pendingNotifyHead + 2 * na s.ents + (if s.holder = none then 1 else 0)

/-- lexicographic: fewer linked callers, or as many and less left to do -/
def Dec (s' s : St) : Prop := nl s'.ents < nl s.ents ∨ (nl s'.ents = nl s.ents ∧ phi s' < phi s)

theorem nl_upd_same (l : List Ent) (i : Nat) (f : Ent → Ent) (hf : ∀ e, (f e).linked = e.linked) :
    nl (upd l i f) = nl l := countP_upd_same _ l i f hf

theorem na_upd_le (l : List Ent) (i : Nat) (f : Ent → Ent) : na (upd l i f) ≤ na l + 1 :=
  countP_upd_le _ l i f

theorem na_upd_same (l : List Ent) (i : Nat) (f : Ent → Ent) (hf : ∀ e, (f e).parked = e.parked) :
    na (upd l i f) = na l := countP_upd_same _ l i f (fun e => by simp [hf e])

theorem na_upd_park {l : List Ent} {i : Nat} (h : AwakeAt l i) :
    na (upd l i (fun e => { e with parked := true })) + 1 = na l := by
  obtain ⟨e, he, hp⟩ := h
  have := countP_upd (fun e => !e.parked) l i (fun e => { e with parked := true }) e he
  simp only [hp] at this
  unfold na
  simpa using this

theorem na_leave_le (l : List Ent) (i : Nat) : na (leave l i) ≤ na l + 1 := by
  unfold leave
  dsimp only
  have h1 := na_upd_le (upd l i (fun e => { e with linked := false }))
    (headIdx (upd l i (fun e => { e with linked := false }))) (fun e => { e with parked := false })
  have h2 := na_upd_same l i (fun e => { e with linked := false }) (fun _ => rfl)
  omega

theorem progress_decreases {s : St} (h : Inv s) (h2 : Inv2 s) (ev : Ev) (hp : progressEv ev = true)
    (hne : step s ev ≠ s) : Dec (step s ev) s := by
  cases ev with
  | link => cases hp
  | spurious i => cases hp
  | park =>
    revert hne
    simp only [step]
    split
    · rename_i i hi
      intro _
      right
      dsimp only
      refine ⟨nl_upd_same _ _ _ (fun _ => rfl), ?_⟩
      have hna := na_upd_park (h2.holdAwake i hi)
      simp only [phi, upd_length, hi]
      simp
      omega
    · intro hne; exact absurd rfl hne
  | notifyHead =>
    revert hne
    simp only [step]
    split
    · rename_i hpos
      intro _
      right
      dsimp only
      refine ⟨nl_upd_same _ _ _ (fun _ => rfl), ?_⟩
      have hna := na_upd_le s.ents (headIdx s.ents) (fun e => { e with parked := false })
      simp only [phi, upd_length]
      omega
    · intro hne; exact absurd rfl hne
  | deliver =>
    revert hne
    simp only [step]
    split
    · rename_i i k j hl
      split
      · rename_i hjk
        intro _
        right
        dsimp only
        refine ⟨nl_upd_same _ _ _ (fun _ => rfl), ?_⟩
        have hna := na_upd_le s.ents (i + j) (fun e => { e with st := .outp, parked := false })
        simp only [phi, upd_length, hl, W]
        omega
      · intro hne; exact absurd rfl hne
    · intro hne; exact absurd rfl hne
  | leaderUnlink =>
    revert hne
    simp only [step]
    split
    · rename_i i k j hl
      split
      · intro _
        left
        dsimp only
        have := nl_upd_unlink (h2.leadLinked i k j hl)
        omega
      · intro hne; exact absurd rfl hne
    · intro hne; exact absurd rfl hne
  | leaderClear =>
    revert hne
    simp only [step]
    split
    · intro hne; exact absurd rfl hne
    · rename_i hnone
      have hnone' := holder_none_of_not hnone
      split
      · rename_i hl
        intro _
        right
        dsimp only
        refine ⟨rfl, ?_⟩
        simp only [phi, hl, W, hnone']
        omega
      · intro hne; exact absurd rfl hne
  | check i k =>
    revert hne
    simp only [step]
    split
    · intro hne; exact absurd rfl hne
    · rename_i hnone
      have hnone' := holder_none_of_not hnone
      split
      · rename_i st heq
        have hlinked : LinkedAt s.ents i := ⟨_, heq, rfl⟩
        split
        · intro hne; exact absurd rfl hne
        · split
          · -- leaves
            intro _
            left
            dsimp only
            have := nl_leave hlinked
            omega
          · split
            · intro _
              right
              dsimp only
              refine ⟨rfl, ?_⟩
              simp only [phi, hnone']
              simp
            · rename_i hidle
              split
              · rename_i hk
                intro _
                right
                dsimp only
                have hdw : s.doingWork = false := by
                  cases hd : s.doingWork with
                  | false => rfl
                  | true => exact absurd (Or.inl hd) hidle
                have hln := lead_none_of_idle h hdw
                refine ⟨countP_stealN _ (fun _ => rfl) k s.ents i, ?_⟩
                have hna : na (stealN s.ents i k) = na s.ents := countP_stealN _ (fun _ => rfl) k s.ents i
                simp only [phi, stealN_length, hln, W, hna]
                omega
              · intro hne; exact absurd rfl hne
          · split
            · intro _
              right
              dsimp only
              refine ⟨rfl, ?_⟩
              simp only [phi, hnone']
              simp
            · intro hne; exact absurd rfl hne
      · intro hne; exact absurd rfl hne

/-! ## hence: without new arrivals everybody returns -/

/-- one step of a caller or of the leader, from a state that satisfies the invariants -/
def ProgressStep (s' s : St) : Prop :=
  Inv s ∧ Inv2 s ∧ ∃ ev, progressEv ev = true ∧ s' = step s ev ∧ s' ≠ s

theorem progress_terminates : WellFounded ProgressStep := by
  have wf : WellFounded (Prod.Lex (fun a b : Nat => a < b) (fun a b : Nat => a < b)) :=
    (Prod.lex Nat.lt_wfRel Nat.lt_wfRel).wf
  refine Subrelation.wf (r := InvImage (Prod.Lex (fun a b : Nat => a < b) (fun a b : Nat => a < b))
    (fun s : St => (nl s.ents, phi s))) ?_ (InvImage.wf _ wf)
  intro s' s hs
  obtain ⟨h, h2, ev, hp, heq, hne⟩ := hs
  subst heq
  rcases progress_decreases h h2 ev hp hne with hd | ⟨he, hd⟩
  · exact Prod.Lex.left _ _ hd
  · show Prod.Lex _ _ (nl (step s ev).ents, phi (step s ev)) (nl s.ents, phi s)
    rw [he]
    exact Prod.Lex.right _ hd

theorem leadBound_run {s : St} (h : LeadBound s) : ∀ (evs : List Ev), LeadBound (evs.foldl step s)
  | [] => h
  | ev :: evs => by
    simp only [List.foldl_cons]
    exact leadBound_run (leadBound_step h ev) evs

/-- **C18** in every reachable state: (1) the steps of callers and leader cannot go on forever
    (the state is accessible for `ProgressStep`: every run of such steps from it is finite), and
    (2) as long as a caller is linked one of these steps is enabled — so a run can only end with
    every call returned. -/
theorem calls_return (evs : List Ev) :
    Acc ProgressStep (evs.foldl step init)
      ∧ ((evs.foldl step init).ents.any (·.linked) = true →
          ∃ ev, progressEv ev = true ∧ step (evs.foldl step init) ev ≠ evs.foldl step init) :=
  ⟨progress_terminates.apply _,
   progress_enabled (inv_run inv_init evs) (inv2_run inv_init inv2_init evs) (leadBound_run leadBound_init evs)⟩

/-- a step keeps the state reachable (so (1) and (2) apply again after it) -/
theorem progressStep_reachable (evs : List Ev) (ev : Ev) :
    step (evs.foldl step init) ev = (evs ++ [ev]).foldl step init := by
  rw [List.foldl_append]; rfl

end Blue.WcqWake

#print axioms Blue.WcqWake.calls_return
