import Blue.Model.MergingC
import Blue.Proofs.Cur
import Blue.Proofs.HeapMap
/-! The generic merging cursor is natural in its children. -/
namespace Blue.Cursor
namespace MergingC
variable {E : Type} {A : (E → Bool) → Prop} {C D : Cur E} (h : Hom A C D) (lt : E → E → Bool)

def map (m : MergingC C) : MergingC D := ⟨m.fwd, m.cs.map h.f⟩

theorem cmp_nat (fwd : Bool) (a b : C.σ) : cmp D lt fwd (h.f a) (h.f b) = cmp C lt fwd a b := by
  simp only [cmp, h.kv]

theorem modifyHead_nat (g : C.σ → C.σ) (g' : D.σ → D.σ) (hg : ∀ c, h.f (g c) = g' (h.f c)) (cs : List C.σ) :
    modifyHead D g' (cs.map h.f) = (modifyHead C g cs).map h.f := by
  cases cs with
  | nil => rfl
  | cons c t => simp [modifyHead, hg]

theorem map_map_nat (g : C.σ → C.σ) (g' : D.σ → D.σ) (hg : ∀ c, h.f (g c) = g' (h.f c)) (cs : List C.σ) :
    (cs.map h.f).map g' = (cs.map g).map h.f := by
  simp only [List.map_map]
  apply List.map_congr_left
  intro c _
  simp [Function.comp, hg]

def hom : Hom A (cur C lt) (cur D lt) where
  f := map h
  first := fun m => by
    show map h (seekToFirst C lt m) = seekToFirst D lt (map h m)
    simp only [seekToFirst, map]
    rw [map_map_nat h (fun c => C.next (C.first c)) (fun c => D.next (D.first c))
        (fun c => by rw [h.next, h.first]),
      Heap.heapify_map h.f (cmp C lt true) (cmp D lt true) (cmp_nat h lt true),
      modifyHead_nat h C.first D.first h.first]
  last := fun m => by
    show map h (seekToLast C lt m) = seekToLast D lt (map h m)
    simp only [seekToLast, map]
    rw [map_map_nat h (fun c => C.prev (C.last c)) (fun c => D.prev (D.last c))
        (fun c => by rw [h.prev, h.last]),
      Heap.heapify_map h.f (cmp C lt false) (cmp D lt false) (cmp_nat h lt false),
      modifyHead_nat h C.last D.last h.last]
  next := fun m => by
    show map h (next C lt m) = next D lt (map h m)
    obtain ⟨fwd, cs⟩ : MergingC C := m
    simp only [next, map]
    cases fwd with
    | true =>
      simp only [if_true]
      rw [modifyHead_nat h C.next D.next h.next, List.length_map,
        Heap.percolateDown_map h.f (cmp C lt true) (cmp D lt true) (cmp_nat h lt true)]
    | false =>
      simp only [Bool.false_eq_true, if_false]
      rw [map_map_nat h C.next D.next h.next,
        Heap.heapify_map h.f (cmp C lt true) (cmp D lt true) (cmp_nat h lt true)]
  prev := fun m => by
    show map h (prev C lt m) = prev D lt (map h m)
    obtain ⟨fwd, cs⟩ : MergingC C := m
    simp only [prev, map]
    cases fwd with
    | false =>
      simp only [Bool.false_eq_true, if_false]
      rw [modifyHead_nat h C.prev D.prev h.prev, List.length_map,
        Heap.percolateDown_map h.f (cmp C lt false) (cmp D lt false) (cmp_nat h lt false)]
    | true =>
      simp only [if_true]
      rw [map_map_nat h C.prev D.prev h.prev,
        Heap.heapify_map h.f (cmp C lt false) (cmp D lt false) (cmp_nat h lt false)]
  seek := fun pred hp m => by
    show map h (seek C lt pred m) = seek D lt pred (map h m)
    simp only [seek, map]
    rw [map_map_nat h (C.seek pred) (D.seek pred) (h.seek pred hp),
      Heap.heapify_map h.f (cmp C lt true) (cmp D lt true) (cmp_nat h lt true)]
  kv := fun m => by
    show kv D (map h m) = kv C m
    simp only [kv, map]
    cases m.cs with
    | nil => rfl
    | cons c t => simp [h.kv]
  ok := fun m => by
    show (m.cs.map h.f).all D.ok = m.cs.all C.ok
    simp [List.all_map, Function.comp_def, h.ok]

end MergingC
end Blue.Cursor
