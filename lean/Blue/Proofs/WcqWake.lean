import Blue.Model.WcqWake
namespace Blue.WcqWake

theorem upd_get (l : List Ent) (i : Nat) (f : Ent → Ent) (x : Nat) :
    (upd l i f)[x]? = if x = i then l[i]?.map f else l[x]? := by
  unfold upd
  cases h : l[i]? with
  | none =>
    by_cases hx : x = i
    · subst hx; simp [h]
    · simp [hx]
  | some e =>
    dsimp only
    by_cases hx : x = i
    · subst hx
      have hi : x < l.length := (List.getElem?_eq_some_iff.mp h).1
      simp [List.getElem?_set_self hi]
    · rw [if_neg hx, List.getElem?_set_ne (Ne.symm hx)]

/-- an update that leaves `linked` alone leaves the head where it is -/
theorem headIdx_upd : ∀ (l : List Ent) (i : Nat) (f : Ent → Ent), (∀ e, (f e).linked = e.linked) →
    headIdx (upd l i f) = headIdx l
  | [], i, f, _ => by simp [upd]
  | e :: es, 0, f, hf => by
    simp only [upd, List.getElem?_cons_zero, List.set_cons_zero, headIdx, hf]
  | e :: es, i + 1, f, hf => by
    have ih := headIdx_upd es i f hf
    unfold upd at ih ⊢
    simp only [List.getElem?_cons_succ]
    cases h : es[i]? with
    | none => rfl
    | some x =>
      rw [h] at ih
      simp only [List.set_cons_succ, headIdx] at ih ⊢
      rw [ih]

theorem headIdx_append_lt : ∀ (l : List Ent) (x : List Ent), headIdx l < l.length →
    headIdx (l ++ x) = headIdx l
  | [], _, h => by simp [headIdx] at h
  | e :: es, x, h => by
    simp only [List.cons_append, headIdx] at h ⊢
    split
    · rfl
    · rename_i hl
      rw [if_neg hl] at h
      rw [headIdx_append_lt es x (by simpa using h)]

theorem headIdx_le_length : ∀ (l : List Ent), headIdx l ≤ l.length
  | [] => Nat.le_refl _
  | e :: es => by
    simp only [headIdx, List.length_cons]
    split
    · omega
    · have := headIdx_le_length es; omega

theorem headIdx_all_unlinked : ∀ (l : List Ent), headIdx l = l.length → ∀ e ∈ l, e.linked = false
  | [], _, e, h => by cases h
  | x :: xs, h, e, he => by
    simp only [headIdx, List.length_cons] at h
    split at h
    · omega
    · rename_i hx
      rcases List.mem_cons.mp he with rfl | he'
      · simpa using hx
      · exact headIdx_all_unlinked xs (by omega) e he'

theorem headIdx_linked : ∀ (l : List Ent) (e : Ent), l[headIdx l]? = some e → e.linked = true
  | [], e, h => by simp at h
  | x :: xs, e, h => by
    simp only [headIdx] at h
    split at h
    · rename_i hx
      simp only [List.getElem?_cons_zero, Option.some.injEq] at h
      subst h; exact hx
    · simp only [List.getElem?_cons_succ] at h
      exact headIdx_linked xs e h

theorem headIdx_append_new : ∀ (l : List Ent) (x : Ent), (∀ e ∈ l, e.linked = false) → x.linked = true →
    headIdx (l ++ [x]) = l.length
  | [], x, _, hx => by simp [headIdx, hx]
  | e :: es, x, h, hx => by
    simp only [List.cons_append, headIdx, List.length_cons]
    rw [if_neg (by rw [h e List.mem_cons_self]; simp)]
    rw [headIdx_append_new es x (fun e he => h e (List.mem_cons_of_mem _ he)) hx]

structure Inv (s : St) : Prop where
  /-- `doing_work` is set exactly while a leader is at work -/
  dw : s.doingWork = true ↔ s.lead ≠ .none
  /-- with nobody working and no notification on its way, the head is awake -/
  head : s.doingWork = false → s.pendingNotifyHead = 0 →
    ∀ e, s.ents[headIdx s.ents]? = some e → e.parked = false
  /-- whoever is about to park still has a reason to -/
  hold : ∀ i, s.holder = some i → i < s.ents.length ∧ (s.doingWork = true ∨ headIdx s.ents ≠ i)

theorem inv_init : Inv init :=
  ⟨by simp [init], by intro _ _ e h; simp [init] at h, by intro i h; simp [init] at h⟩

theorem upd_length (l : List Ent) (i : Nat) (f : Ent → Ent) : (upd l i f).length = l.length := by
  unfold upd; split <;> simp

theorem inv_step {s : St} (h : Inv s) (ev : Ev) : Inv (step s ev) := by
  cases ev with
  | link =>
    refine ⟨h.dw, ?_, ?_⟩
    · intro hd hp e he
      simp only [step] at he hd hp
      rcases Nat.lt_or_ge (headIdx s.ents) s.ents.length with hlt | hge
      · rw [headIdx_append_lt _ _ hlt, List.getElem?_append_left hlt] at he
        exact h.head hd hp e he
      · have heq : headIdx s.ents = s.ents.length := Nat.le_antisymm (headIdx_le_length _) hge
        rw [headIdx_append_new _ _ (headIdx_all_unlinked s.ents heq) rfl,
          List.getElem?_append_right (Nat.le_refl _)] at he
        simp only [Nat.sub_self, List.getElem?_cons_zero, Option.some.injEq] at he
        rw [← he]
    · intro i hi
      simp only [step] at hi ⊢
      obtain ⟨h1, h2⟩ := h.hold i hi
      refine ⟨by simp; omega, ?_⟩
      rcases h2 with h2 | h2
      · exact Or.inl h2
      · right
        rcases Nat.lt_or_ge (headIdx s.ents) s.ents.length with hlt | hge
        · rw [headIdx_append_lt _ _ hlt]; exact h2
        · have heq : headIdx s.ents = s.ents.length := Nat.le_antisymm (headIdx_le_length _) hge
          rw [headIdx_append_new _ _ (headIdx_all_unlinked s.ents heq) rfl]; omega
  | check i k =>
    simp only [step]
    split
    · exact h
    · rename_i hnone
      have hnone' : s.holder = none := by
        cases hh : s.holder with
        | none => rfl
        | some _ => rw [hh] at hnone; simp at hnone
      split
      · rename_i st heq
        have hilt : i < s.ents.length := (List.getElem?_eq_some_iff.mp heq).1
        split
        · exact h
        · split
          · -- leaves with its output: unlink, then signal the new head
            refine ⟨h.dw, ?_, ?_⟩
            · intro hd hp e he
              dsimp only at he hd hp
              unfold leave at he
              dsimp only at he
              rw [headIdx_upd _ _ (fun e => { e with parked := false }) (fun _ => rfl), upd_get, if_pos rfl] at he
              cases hold : (upd s.ents i fun e => { e with linked := false })[headIdx
                  (upd s.ents i fun e => { e with linked := false })]? with
              | none => rw [hold] at he; cases he
              | some old =>
                rw [hold] at he
                simp only [Option.map_some, Option.some.injEq] at he
                rw [← he]
            · intro j hj
              dsimp only at hj
              rw [hnone'] at hj; cases hj
          · -- holds an input
            split
            · refine ⟨h.dw, h.head, ?_⟩
              intro j hj
              dsimp only at hj ⊢
              simp only [Option.some.injEq] at hj
              subst hj
              exact ⟨hilt, by assumption⟩
            · split
              · refine ⟨by simp, by intro hd; simp at hd, ?_⟩
                intro j hj
                dsimp only at hj
                rw [hnone'] at hj; cases hj
              · exact h
          · -- was stolen
            split
            · refine ⟨h.dw, h.head, ?_⟩
              intro j hj
              dsimp only at hj ⊢
              simp only [Option.some.injEq] at hj
              subst hj
              exact ⟨hilt, by assumption⟩
            · exact h
      · exact h
  | park =>
    simp only [step]
    split
    · rename_i i hi
      obtain ⟨hilt, hreason⟩ := h.hold i hi
      refine ⟨h.dw, ?_, by intro j hj; cases hj⟩
      intro hd hp e he
      dsimp only at he hd hp
      rw [headIdx_upd _ _ (fun e => { e with parked := true }) (fun _ => rfl), upd_get] at he
      have hne : headIdx s.ents ≠ i := by
        rcases hreason with hc | hc
        · rw [hd] at hc; cases hc
        · exact hc
      rw [if_neg hne] at he
      exact h.head hd hp e he
    · exact h
  | notifyHead =>
    simp only [step]
    split
    · rename_i hpos
      refine ⟨h.dw, ?_, ?_⟩
      · intro hd hp e he
        dsimp only at he hd hp
        rw [headIdx_upd _ _ (fun e => { e with parked := false }) (fun _ => rfl), upd_get, if_pos rfl] at he
        cases hold : s.ents[headIdx s.ents]? with
        | none => rw [hold] at he; cases he
        | some old =>
          rw [hold] at he
          simp only [Option.map_some, Option.some.injEq] at he
          rw [← he]
      · intro i hi
        dsimp only at hi ⊢
        rw [headIdx_upd _ _ (fun e => { e with parked := false }) (fun _ => rfl), upd_length]
        exact h.hold i hi
    · exact h
  | deliver =>
    simp only [step]
    split
    · rename_i i k j hl
      split
      · have hdw : s.doingWork = true := h.dw.mpr (by rw [hl]; simp)
        refine ⟨by simp [hdw], (by intro hd; dsimp only at hd; rw [hdw] at hd; cases hd), ?_⟩
        intro x hx
        dsimp only at hx ⊢
        rw [upd_length]
        exact ⟨(h.hold x hx).1, Or.inl hdw⟩
      · exact h
    · exact h
  | leaderUnlink =>
    simp only [step]
    split
    · rename_i i k j hl
      split
      · have hdw : s.doingWork = true := h.dw.mpr (by rw [hl]; simp)
        refine ⟨by simp [hdw], (by intro hd; dsimp only at hd; rw [hdw] at hd; cases hd), ?_⟩
        intro x hx
        dsimp only at hx ⊢
        rw [upd_length]
        exact ⟨(h.hold x hx).1, Or.inl hdw⟩
      · exact h
    · exact h
  | leaderClear =>
    simp only [step]
    split
    · exact h
    · rename_i hnone
      have hnone' : s.holder = none := by
        cases hh : s.holder with
        | none => rfl
        | some _ => rw [hh] at hnone; simp at hnone
      split
      · refine ⟨by simp, by intro _ hp; simp at hp, ?_⟩
        intro j hj
        dsimp only at hj
        rw [hnone'] at hj; cases hj
      · exact h
  | spurious i =>
    refine ⟨h.dw, ?_, ?_⟩
    · intro hd hp e he
      simp only [step] at he hd hp
      rw [headIdx_upd _ _ (fun e => { e with parked := false }) (fun _ => rfl), upd_get] at he
      by_cases hx : headIdx s.ents = i
      · rw [if_pos hx] at he
        cases hold : s.ents[i]? with
        | none => rw [hold] at he; cases he
        | some old =>
          rw [hold] at he
          simp only [Option.map_some, Option.some.injEq] at he
          rw [← he]
      · rw [if_neg hx] at he
        exact h.head hd hp e he
    · intro j hj
      simp only [step] at hj ⊢
      rw [headIdx_upd _ _ (fun e => { e with parked := false }) (fun _ => rfl), upd_length]
      exact h.hold j hj

theorem inv_run {s : St} (h : Inv s) : ∀ (evs : List Ev), Inv (evs.foldl step s)
  | [] => h
  | ev :: evs => by
    simp only [List.foldl_cons]
    exact inv_run (s := step s ev) (inv_step h ev) evs

theorem any_linked_head : ∀ (l : List Ent), l.any (·.linked) = true → ∃ e, l[headIdx l]? = some e
  | [], h => by simp at h
  | x :: xs, h => by
    simp only [headIdx]
    split
    · exact ⟨x, rfl⟩
    · rename_i hx
      simp only [List.any_cons, Bool.or_eq_true] at h
      rcases h with h | h
      · exact absurd h hx
      · obtain ⟨e, he⟩ := any_linked_head xs h
        exact ⟨e, by simpa using he⟩

/-- **C18** no lost wake-up: under every interleaving — including a member that is handed its
    output in the window between reading its state and parking, so that the hand-out notification
    finds nobody — the queue never reaches a state in which a caller is still linked while every
    linked caller is parked, no leader is at work and no `notify_head` is on its way -/
theorem never_stuck (evs : List Ev) : stuck (evs.foldl step init) = false := by
  have h := inv_run inv_init evs
  generalize evs.foldl step init = s at h
  cases hs : stuck s with
  | false => rfl
  | true =>
    exfalso
    unfold stuck at hs
    simp only [Bool.and_eq_true, decide_eq_true_eq, List.all_eq_true, Bool.or_eq_true,
      Bool.not_eq_true'] at hs
    obtain ⟨⟨⟨⟨hany, hall⟩, hlead⟩, hpend⟩, _⟩ := hs
    have hdw : s.doingWork = false := by
      cases hd : s.doingWork with
      | false => rfl
      | true => exact absurd hlead (h.dw.mp hd)
    obtain ⟨e, he⟩ := any_linked_head s.ents hany
    have hawake := h.head hdw hpend e he
    have hlinked := headIdx_linked s.ents e he
    rcases hall e (List.mem_of_getElem? he) with hl | hp
    · rw [hlinked] at hl; cases hl
    · rw [hawake] at hp; cases hp

/-- the window exists: the third member of a batch decides to park, is handed its output before it
    does (the hand-out notification finds nobody), parks holding an output — and is woken by the
    `notify_head` of its predecessor -/
example :
    let s := [Ev.link, .link, .link, .check 0 3, .check 2 0, .deliver, .deliver, .deliver, .park].foldl step init
    s.ents.map (fun e => (e.st, e.parked)) = [(.outp, false), (.outp, false), (.outp, true)] := by decide

example :
    let s := [Ev.link, .link, .link, .check 0 3, .check 2 0, .deliver, .deliver, .deliver, .park,
              .leaderUnlink, .leaderClear, .notifyHead, .check 1 0, .check 2 0].foldl step init
    s.ents.map (·.linked) = [false, false, false] := by decide

/-- mutant: the leader forgets `notify_head` after clearing `doing_work` -/
def stepNoNotify (s : St) : Ev → St
  | .leaderClear => match s.lead with
    | .unlinked => { s with lead := .none, doingWork := false }
    | _ => s
  | ev => step s ev

theorem leader_forgets_notify_head_stuck :
    stuck ([Ev.link, .link, .check 0 1, .check 1 0, .park, .deliver, .leaderUnlink, .leaderClear].foldl
      stepNoNotify init) = true := by decide

end Blue.WcqWake

#print axioms Blue.WcqWake.never_stuck
