import Blue.Model.PsiDoc
import Blue.Proofs.PsiWtCsa
import Blue.Proofs.SigmaRetrieve
/-! `CompressedDocument` with every component as the code has it — `Sigma`, the wavelet-tree ψ, the
    sampled suffix array and inverse — answers `count` / `search` / `retrieve` on code points as the
    plain scan of the original text. -/
namespace Blue.PsiDoc
open Blue.PsiWt Blue.PsiWt.Outcome Blue.Csa Blue.CsaDoc Blue.Sigma Blue.Sampled

/-! ### the translated text is a marked text of shifted symbols -/

/-- the dense symbols of the text, minus one (so that `withMarker` puts them back) -/
def dense0 (text : List Nat) : List Nat := text.map (fun t => needleSym (sigOf text) t - 1)

theorem translated_eq_withMarker (text : List Nat) : translated text = withMarker (dense0 text) := by
  unfold translated withMarker dense0
  rw [List.map_map]
  congr 1
  apply List.map_congr_left
  intro t _
  have := needleSym_pos text t
  simp only [Function.comp]
  omega

/-! ### closed ranges (the code) against half-open ranges (`Blue.Csa`) -/

/-- a closed range `(a, b)` of the code stands for the half-open `(x, y)` of the index model: the
    same ranks, or both empty -/
def ClosedIs (r h : Nat × Nat) : Prop := (r.1 ≤ r.2 ∧ h = (r.1, r.2 + 1)) ∨ (r.1 > r.2 ∧ h.1 ≥ h.2)

theorem countLt_mono (l : List (List Nat)) (r0 r1 a b : Nat) (h : a ≤ b) :
    Blue.Csa.countLt l r0 r1 a ≤ Blue.Csa.countLt l r0 r1 b := by
  unfold Blue.Csa.countLt
  rw [← List.countP_eq_length_filter, ← List.countP_eq_length_filter]
  apply List.countP_mono_left
  intro d _ hd
  simp only [decide_eq_true_eq] at hd ⊢
  omega

section
variable (text : List Nat) {l : List (List Nat)} (hperm : l.Perm (suffixes (translated text)))
  (hsorted : l.Pairwise (fun a b => lexLt a b = true))
  (w : WtPsi) (hw : Blue.PsiWt.construct (symsOf l) (psiOf (translated text) l) = some w)
include hperm hsorted hw

/-- one `constrain` step of the code against one `constrain` step of the index model -/
theorem constrain_step (t : Nat) (r h : Nat × Nat) (hr : ClosedIs r h) :
    ∃ r', Blue.PsiWt.constrain (symsOf l) w (rangeForT (sigOf text) t) r = ok r'
      ∧ ClosedIs r' (Blue.Csa.constrain l (rangeForT (sigOf text) t) h) := by
  have hperm' := hperm
  rw [translated_eq_withMarker] at hperm' hw
  rw [rangeForT_eq text hperm t]
  have hc : needleSym (sigOf text) t ≠ 0 := needleSym_pos text t
  generalize needleSym (sigOf text) t = c at hc
  by_cases hocc : l.countP (fun s => s.headD 0 == c) = 0
  · -- the symbol does not occur: both sides are empty
    have e : sigmaRange l c = (1, 0) := by unfold sigmaRange; simp only; rw [if_pos hocc]
    rw [e]
    refine ⟨(1, 0), constrain_empty_range _ _ 1 0 r (by omega), Or.inr ⟨by simp, ?_⟩⟩
    unfold Blue.Csa.constrain Blue.Csa.countLt
    simp
  · have hpos : 0 < l.countP (fun s => s.headD 0 == c) := Nat.pos_of_ne_zero hocc
    obtain ⟨hcol, h1⟩ := column_of_sigmaRange (dense0 text) l hperm' hsorted c hc hpos
    have hle : (sigmaRange l c).1 ≤ (sigmaRange l c).2 := hcol.1
    rcases hr with ⟨hab, rfl⟩ | ⟨hab, hemp⟩
    · -- both non-empty: the agent's bridge theorem
      have := constrain_is_csa (dense0 text) l hperm' hsorted w hw c hc hpos r.1 r.2 hab
      refine ⟨_, this, ?_⟩
      have hmono := countLt_mono l (sigmaRange l c).1 (sigmaRange l c).2 r.1 (r.2 + 1) (by omega)
      unfold Blue.Csa.constrain at hmono ⊢
      simp only
      rcases Nat.lt_or_ge (Blue.Csa.countLt l (sigmaRange l c).1 (sigmaRange l c).2 r.1)
          (Blue.Csa.countLt l (sigmaRange l c).1 (sigmaRange l c).2 (r.2 + 1)) with hlt | hge
      · left
        refine ⟨by simp only; omega, ?_⟩
        simp only
        congr 1
        omega
      · right
        refine ⟨by simp only; omega, by simp only; omega⟩
    · -- empty `into`
      have : Blue.PsiWt.constrain (symsOf l) w (sigmaRange l c) r = ok ((sigmaRange l c).1, (sigmaRange l c).1 - 1) := by
        have := constrain_empty_into (symsOf l) w (sigmaRange l c).1 (sigmaRange l c).2 r.1 r.2 hle h1 hab
        exact this
      refine ⟨_, this, Or.inr ⟨by simp only; omega, ?_⟩⟩
      have hmono := countLt_mono l (sigmaRange l c).1 (sigmaRange l c).2 h.2 h.1 hemp
      unfold Blue.Csa.constrain
      simp only
      omega

/-- **C19** backward search of the code (closed ranges, `WaveletTreePsi::constrain`) returns, for
    every non-empty needle over any code points, the range the index model's backward search returns -/
theorem backwardsSearch_spec : ∀ (needle : List Nat), needle ≠ [] →
    ∃ r, Blue.PsiDoc.backwardsSearch (symsOf l) w (rangeForT (sigOf text)) needle = ok r
      ∧ ClosedIs r (Blue.Csa.backwardSearch l (rangeForT (sigOf text)) needle)
  | [], h => absurd rfl h
  | [t], _ => by
    refine ⟨rangeForT (sigOf text) t, rfl, ?_⟩
    unfold Blue.Csa.backwardSearch
    by_cases h : (rangeForT (sigOf text) t).1 ≤ (rangeForT (sigOf text) t).2
    · exact Or.inl ⟨h, rfl⟩
    · exact Or.inr ⟨by omega, by simp only; omega⟩
  | c :: c' :: rest, _ => by
    obtain ⟨r, h1, h2⟩ := backwardsSearch_spec (c' :: rest) (by simp)
    obtain ⟨r', h3, h4⟩ := constrain_step text hperm hsorted w hw c r _ h2
    refine ⟨r', ?_, ?_⟩
    · show (match Blue.PsiDoc.backwardsSearch (symsOf l) w (rangeForT (sigOf text)) (c' :: rest) with
        | ok r => Blue.PsiWt.constrain (symsOf l) w (rangeForT (sigOf text) c) r
        | err => err
        | .panic => .panic) = ok r'
      rw [h1]; exact h3
    · exact h4

/-- **C19** `count` of the compressed document — `Sigma`, wavelet-tree ψ, closed ranges — is the number
    of positions of the original text at which the needle occurs -/
theorem count_is_scan (needle : List Nat) (hne : needle ≠ []) :
    Blue.PsiDoc.count (symsOf l) w (rangeForT (sigOf text)) needle
      = ok (((List.range text.length).filter (fun k => needle.isPrefixOf (text.drop k))).length) := by
  obtain ⟨r, h1, h2⟩ := backwardsSearch_spec text hperm hsorted w hw needle hne
  have hc := count_codepoints text hperm hsorted needle hne
  unfold Blue.Csa.count at hc
  unfold Blue.PsiDoc.count
  rw [h1]
  simp only
  congr 1
  rw [← hc]
  rcases h2 with ⟨hab, e⟩ | ⟨hab, e⟩
  · rw [e, if_neg (by omega)]; simp only; omega
  · rw [if_pos hab]; omega

/-- the wavelet-tree ψ is ψ wherever the walks ask for it -/
theorem lookup_is_psi (idx : Nat) (hidx : idx < l.length) (hlong : 2 ≤ (str l idx).length) :
    Blue.PsiWt.lookup (symsOf l) w idx = some (psi l idx) := by
  have hperm' := hperm
  rw [translated_eq_withMarker] at hperm' hw
  exact lookup_is_csa (dense0 text) l hperm' hsorted w hw idx hidx hlong

theorem len_w : len w = l.length := by
  have hperm' := hperm
  rw [translated_eq_withMarker] at hperm' hw
  obtain ⟨w', h1, h2⟩ := construct_of_suffixes (dense0 text) l hperm' hsorted
  rw [hw] at h1
  have := Option.some.inj h1
  subst this
  rw [h2, length_eq _ hperm', withMarker_length]

omit hw in
/-- rank 0 is the end marker's suffix -/
theorem rank0_marker : (str l 0).length = 1 := by
  have hperm' := hperm
  rw [translated_eq_withMarker] at hperm'
  exact rank_zero_is_marker (dense0 text) hperm' hsorted

/-- **C19** `search` of the compressed document: exactly the occurrence positions, ascending -/
theorem search_is_scan (st : Nat) (needle : List Nat) (hne : needle ≠ []) :
    ∃ ssa ps, ssaConstruct st (saList l) = some ssa
      ∧ Blue.PsiDoc.search (symsOf l) w (rangeForT (sigOf text)) ssa needle = ok ps
      ∧ ps.Pairwise (· ≤ ·) ∧ ∀ k, k ∈ ps ↔ (k < text.length ∧ needle <+: text.drop k) := by
  have hT : translated text ≠ [] := by simp [translated]
  have h0 := rank0_marker text hperm hsorted
  obtain ⟨ssa, hc, hwalk⟩ := ssaWalk_exact _ hperm hsorted hT h0 st
  have hlk := hwalk (Blue.PsiWt.lookup (symsOf l) w) (fun idx hidx hlong => lookup_is_psi text hperm hsorted w hw idx hidx hlong)
    (len w + 1) (by rw [len_w text hperm hsorted w hw]; omega)
  obtain ⟨r, h1, h2⟩ := backwardsSearch_spec text hperm hsorted w hw needle hne
  -- the model's search over the same range
  have hnm : needle.map (needleSym (sigOf text)) ≠ [] := by simpa using hne
  have hpos : ∀ c ∈ needle.map (needleSym (sigOf text)), c ≠ 0 := by
    intro c hc; simp only [List.mem_map] at hc; obtain ⟨x, _, rfl⟩ := hc; exact needleSym_pos text x
  have hr : ∀ c ∈ needle.map (needleSym (sigOf text)), RangeOk l c (sigmaRange l c) :=
    fun c hc => sigmaRange_ok _ (translated_marked text) hperm hsorted c (hpos c hc)
  have hle := backwardSearch_snd_le (sigmaRange l) _ hnm hr
  rw [← backwardSearch_codepoints text hperm] at hle
  have hmem := fun k => (mem_search _ (translated_marked text) hperm hsorted _ hnm hpos k).trans
    (occurs_translated text needle hne k)
  unfold Blue.CsaDoc.search at hmem
  rw [← backwardSearch_codepoints text hperm] at hmem
  rcases h2 with ⟨hab, e⟩ | ⟨hab, e⟩
  · -- a non-empty range: the same ranks as the index model's
    rw [e] at hle hmem
    simp only at hle hmem
    have hsub : r.2 + 1 - r.1 = r.2 - r.1 + 1 := by omega
    rw [hsub] at hmem
    refine ⟨ssa, ((List.range (r.2 - r.1 + 1)).map (fun d => saOf l l.length (r.1 + d))).foldr insertNat [],
      hc, ?_, sortNat_sorted _, fun k => hmem k⟩
    unfold Blue.PsiDoc.search
    rw [h1]
    simp only
    rw [if_neg (by omega)]
    rw [allSome_map (fun d => ssaWalk (Blue.PsiWt.lookup (symsOf l) w) ssa (len w + 1) (r.1 + d) 0)
      (fun d => saOf l l.length (r.1 + d))]
    · rfl
    · intro d hd
      rw [List.mem_range] at hd
      exact hlk _ (by omega)
  · -- an empty range
    have hz : (Blue.Csa.backwardSearch l (rangeForT (sigOf text)) needle).2
        - (Blue.Csa.backwardSearch l (rangeForT (sigOf text)) needle).1 = 0 := by omega
    simp only at hmem
    rw [hz] at hmem
    refine ⟨ssa, [], hc, ?_, List.Pairwise.nil, fun k => ?_⟩
    · unfold Blue.PsiDoc.search
      rw [h1]
      simp only
      rw [if_pos hab]
    · rw [← hmem k]; simp

/-- the ψ walk of `retrieve` over the wavelet-tree ψ reads the original text -/
theorem walk_spec : ∀ (k p idx : Nat), p + k ≤ text.length → idx < l.length →
    str l idx = (translated text).drop p →
    Blue.PsiDoc.walk (sigOf text) (symsOf l) w k idx = some ((text.drop p).take k)
  | 0, _, _, _, _, _ => by simp [Blue.PsiDoc.walk]
  | k + 1, p, idx, hpk, hidx, hstr => by
    have hs := sorted_of_suffixes _ l hperm hsorted
    have hTl := translated_length text
    have hp : p < text.length := by omega
    have hdrop := drop_translated text p (by omega)
    have hlong : 2 ≤ (str l idx).length := by rw [hstr, List.length_drop]; omega
    have hmem := hs.tails (str l idx) (str_mem hidx) hlong
    have hnext : str l (psi l idx) = (translated text).drop (p + 1) := by
      unfold psi
      rw [str_idxOf hmem, hstr, List.tail_drop]
    have hnlt : psi l idx < l.length := by
      unfold psi
      exact List.idxOf_lt_length_iff.mpr hmem
    have ih := walk_spec k (p + 1) (psi l idx) (by omega) hnlt hnext
    have hmemt : text[p] ∈ text := List.getElem_mem hp
    obtain ⟨j, hj, hjt, hcs⟩ := charToSigma_of_mem text text[p] hmemt
    have hsym : needleSym (sigOf text) text[p] = j + 1 := by unfold needleSym; rw [hcs]; rfl
    have hh : (str l idx).head? = some (j + 1) := by
      rw [hstr, hdrop, List.drop_eq_getElem_cons hp, List.map_cons, List.cons_append, List.head?_cons, hsym]
    unfold Blue.PsiDoc.walk
    rw [saIndexToT_head text hperm hsorted idx j hidx hj hh,
      lookup_is_psi text hperm hsorted w hw idx hidx hlong]
    simp only
    rw [ih]
    simp only [Option.map_some]
    rw [List.drop_eq_getElem_cons hp, List.take_succ_cons, hjt]

/-- **C19** `retrieve(r)` of the compressed document returns record `r` of the original text -/
theorem retrieve_is_record (rb : List Nat) (hadm : admissible text.length rb = true) (r : Nat) (hr : r < rb.length) :
    ∃ si, sisaConstruct l rb = some si
      ∧ Blue.PsiDoc.retrieve (sigOf text) (symsOf l) w si (boundaryBits text.length rb) r
          = some ((text.drop rb[r]).take (rb[r + 1]?.getD text.length - rb[r])) := by
  have hlen : l.length = text.length + 1 := by rw [length_eq _ hperm, translated_length]
  have hadm' := hadm
  simp only [admissible, Bool.and_eq_true, beq_iff_eq, decide_eq_true_eq] at hadm'
  obtain ⟨⟨⟨hne, hinc⟩, _⟩, hlast⟩ := hadm'
  have hrbne : rb ≠ [] := by intro h; rw [h] at hne; simp at hne
  have hb : ∀ b ∈ rb, b < l.length := by
    intro b hb
    have := le_last_of_increasing rb hinc b hb
    omega
  obtain ⟨si, hic, hil⟩ := sisaLookup_exact l rb hrbne (pairwise_of_increasing rb hinc) hb
  refine ⟨si, hic, ?_⟩
  obtain ⟨hstart, hlim, hmono, hle⟩ := record_bounds text.length rb hadm r hr
  unfold Blue.PsiDoc.retrieve
  rw [hstart]
  simp only
  rw [hlim, if_neg (by omega), hil rb[r], if_pos (List.getElem_mem hr)]
  simp only
  have hrbr : rb[r] < (translated text).length := by
    rw [translated_length]; have := hb rb[r] (List.getElem_mem hr); omega
  obtain ⟨h1, h2⟩ := str_isa (translated text) hperm rb[r] hrbr
  exact walk_spec text hperm hsorted w hw _ rb[r] (isa l rb[r]) (by omega) h1 h2

end

/-- the wavelet-tree ψ exists for every text: `WaveletTreePsi::construct` succeeds on what
    `PsiDocument::construct` hands it -/
theorem construct_exists (text : List Nat) {l : List (List Nat)} (hperm : l.Perm (suffixes (translated text)))
    (hsorted : l.Pairwise (fun a b => lexLt a b = true)) :
    ∃ w, Blue.PsiWt.construct (symsOf l) (psiOf (translated text) l) = some w ∧ len w = text.length + 1 := by
  have hperm' := hperm
  rw [translated_eq_withMarker] at hperm' ⊢
  obtain ⟨w, h1, h2⟩ := construct_of_suffixes (dense0 text) l hperm' hsorted
  refine ⟨w, h1, ?_⟩
  rw [h2]; simp [dense0]

end Blue.PsiDoc

#print axioms Blue.PsiDoc.backwardsSearch_spec
#print axioms Blue.PsiDoc.count_is_scan
#print axioms Blue.PsiDoc.search_is_scan
#print axioms Blue.PsiDoc.retrieve_is_record
#print axioms Blue.PsiDoc.construct_exists
