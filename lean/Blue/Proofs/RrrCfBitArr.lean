import Blue.Proofs.BitArr
/-! Further facts about the bit-array model needed by the cf_rrr layout proofs: low/high parts of
    `ofBits`, loads inside a sealed concatenation, and the items a `FixedWidthIterator` yields when
    its whole region lies inside the array (they are the successive `width`-bit loads). -/
namespace Blue.BitArr

theorem ofBits_take_mod (l : List Bool) (k : Nat) : ofBits (l.take k) = ofBits l % 2 ^ k := by
  have h := ofBits_append (l.take k) (l.drop k)
  rw [List.take_append_drop] at h
  rcases Nat.le_total k l.length with hk | hk
  · have hl : (l.take k).length = k := by rw [List.length_take]; omega
    have hlt := ofBits_lt (l.take k)
    rw [hl] at h hlt
    rw [h, Nat.add_mul_mod_self_left, Nat.mod_eq_of_lt hlt]
  · rw [List.take_of_length_le hk]
    have h1 := ofBits_lt l
    have h2 : 2 ^ l.length ≤ 2 ^ k := Nat.pow_le_pow_right (by omega) hk
    rw [Nat.mod_eq_of_lt (by omega)]

theorem ofBits_drop_div (l : List Bool) (k : Nat) : ofBits (l.drop k) = ofBits l / 2 ^ k := by
  have h := ofBits_append (l.take k) (l.drop k)
  rw [List.take_append_drop] at h
  rcases Nat.le_total k l.length with hk | hk
  · have hl : (l.take k).length = k := by rw [List.length_take]; omega
    have hlt := ofBits_lt (l.take k)
    rw [hl] at h hlt
    have hp : 0 < 2 ^ k := Nat.two_pow_pos _
    rw [h, Nat.add_mul_div_left _ _ hp, Nat.div_eq_of_lt hlt, Nat.zero_add]
  · rw [List.drop_of_length_le hk]
    have h1 := ofBits_lt l
    have h2 : 2 ^ l.length ≤ 2 ^ k := Nat.pow_le_pow_right (by omega) hk
    rw [Nat.div_eq_of_lt (by omega)]; rfl

/-- a load inside a whole-byte array -/
theorem load_inside (a : List Bool) (hb : a.length % 8 = 0) (idx w : Nat) (hw : w ≠ 0) (h : idx + w ≤ a.length) :
    load a idx w = some (ofBits ((a.drop idx).take w)) := by
  rw [load_whole a hb, if_neg hw, if_pos h]

theorem load_inside_val (a : List Bool) (hb : a.length % 8 = 0) (idx w v : Nat) (hw : w ≠ 0)
    (h : load a idx w = some v) : ofBits ((a.drop idx).take w) = v ∧ idx + w ≤ a.length := by
  rw [load_whole a hb, if_neg hw] at h
  split at h
  · exact ⟨Option.some.inj h, by assumption⟩
  · cases h

/-- a load that ends beyond a whole-byte array fails -/
theorem load_beyond (a : List Bool) (hb : a.length % 8 = 0) (idx w : Nat) (hw : w ≠ 0) (h : a.length < idx + w) :
    load a idx w = none := by
  rw [load_whole a hb, if_neg hw, if_neg (by omega)]

/-! ### loads inside sealed concatenations -/

/-- field `k` of a run of `w`-bit fields that starts at bit `pre.length` -/
theorem load_sealed_fixed (pre post : List Bool) (vals : List Nat) (w k v : Nat)
    (hk : vals[k]? = some v) (hv : v < 2 ^ w) :
    load (sealBits (pre ++ vals.flatMap (fun v => toBits v w) ++ post)) (pre.length + k * w) w = some v := by
  have hlt : k < vals.length := by
    rcases Nat.lt_or_ge k vals.length with h | h
    · exact h
    · rw [List.getElem?_eq_none h] at hk; cases hk
  rw [flatMap_split vals w k v hk]
  have hl : (pre ++ (vals.take k).flatMap (fun v => toBits v w)).length = pre.length + k * w := by
    rw [List.length_append, flatMap_toBits_length, List.length_take, Nat.min_eq_left (Nat.le_of_lt hlt)]
  rw [← hl]
  have e : pre ++ ((vals.take k).flatMap (fun v => toBits v w) ++ toBits v w
        ++ (vals.drop (k + 1)).flatMap (fun v => toBits v w)) ++ post
      = (pre ++ (vals.take k).flatMap (fun v => toBits v w)) ++ toBits v w
        ++ ((vals.drop (k + 1)).flatMap (fun v => toBits v w) ++ post) := by
    simp only [List.append_assoc]
  rw [e]
  exact load_sealed_mid _ _ v w hv

/-- field `k` of a run of fields of varying widths that starts at bit `pre.length` -/
theorem load_sealed_fields (pre post : List Bool) (fs : List (Nat × Nat)) (k v w : Nat)
    (hk : fs[k]? = some (v, w)) (hv : v < 2 ^ w) :
    load (sealBits (pre ++ packFields fs ++ post)) (pre.length + ((fs.take k).map (·.2)).sum) w = some v := by
  have hlt : k < fs.length := by
    rcases Nat.lt_or_ge k fs.length with h | h
    · exact h
    · rw [List.getElem?_eq_none h] at hk; cases hk
  have hsplit : fs = fs.take k ++ (v, w) :: fs.drop (k + 1) := by
    have hv : fs[k] = (v, w) := by
      rw [List.getElem?_eq_getElem hlt] at hk; exact Option.some.inj hk
    rw [← hv, ← List.drop_eq_getElem_cons hlt, List.take_append_drop]
  have e : pre ++ packFields fs ++ post
      = (pre ++ packFields (fs.take k)) ++ toBits v w ++ (packFields (fs.drop (k + 1)) ++ post) := by
    conv => lhs; rw [hsplit]
    rw [packFields_append]
    simp [packFields, List.append_assoc]
  have hl : (pre ++ packFields (fs.take k)).length = pre.length + ((fs.take k).map (·.2)).sum := by
    rw [List.length_append, packFields_length]
  rw [e, ← hl]
  exact load_sealed_mid _ _ v w hv

/-! ### the FixedWidthIterator inside the array -/

/-- the state of `FixedWidthIterator::new(a, align, len, w)` after it has yielded the fields that
    end at bit `align + pos`: it has fetched up to bit `align + e` and buffers the bits in between -/
def FwInv (a : List Bool) (align len w pos : Nat) (it : FwIter) : Prop :=
  it.stop = align + len ∧ it.width = w ∧
  ∃ e, pos ≤ e ∧ e ≤ len ∧ it.index = align + e ∧ it.bits = e - pos
    ∧ it.next = ofBits ((a.drop (align + pos)).take (e - pos))

theorem fwInv_new (a : List Bool) (align len w : Nat) : FwInv a align len w 0 (fwNew align len w) := by
  refine ⟨rfl, rfl, 0, Nat.le_refl _, Nat.zero_le _, rfl, rfl, ?_⟩
  simp [fwNew]

theorem take_take_drop (D : List Bool) (n m : Nat) : D.take (n + m) = D.take n ++ (D.drop n).take m := by
  rw [List.take_add]

/-- the next item is the next `w`-bit field -/
theorem fwNext_step (a : List Bool) (hb : a.length % 8 = 0) (align len w pos : Nat) (it : FwIter)
    (hin : align + len ≤ a.length) (hw0 : 0 < w) (hw : w ≤ 32) (hpos : pos + w ≤ len)
    (inv : FwInv a align len w pos it) :
    ∃ it', fwNext a it = some (ofBits ((a.drop (align + pos)).take w), it')
      ∧ FwInv a align len w (pos + w) it' := by
  obtain ⟨hstop, hwid, e, hpe, hel, hidx, hbits, hnext⟩ := inv
  have hpw : 0 < 2 ^ w := Nat.two_pow_pos _
  unfold fwNext
  by_cases hlt : it.bits < it.width
  · -- refill
    have helt : e < len := by rw [hbits, hwid] at hlt; omega
    rw [if_neg (by rw [hidx, hstop]; omega), if_pos hlt]
    have hamt : min (it.stop - it.index) 32 = min (len - e) 32 := by rw [hstop, hidx]; congr 1; omega
    simp only [hamt]
    generalize hA : min (len - e) 32 = amt
    have hamt0 : amt ≠ 0 := by omega
    have hamtle : e + amt ≤ len := by omega
    rw [hidx, load_inside a hb (align + e) amt hamt0 (by omega)]
    simp only
    have hDlen : e - pos ≤ (a.drop (align + pos)).length := by rw [List.length_drop]; omega
    have hnx : it.next + ofBits ((a.drop (align + e)).take amt) * 2 ^ it.bits
        = ofBits ((a.drop (align + pos)).take (e - pos + amt)) := by
      have e1 : align + pos + (e - pos) = align + e := by omega
      rw [take_take_drop, ofBits_append, List.length_take, Nat.min_eq_left hDlen, hnext, hbits,
        List.drop_drop, Nat.mul_comm, e1]
    rw [hnx]
    have hbw : ¬ (it.bits + amt < it.width) := by rw [hbits, hwid]; omega
    rw [if_neg hbw]
    rw [hbits, hwid] at hbw
    refine ⟨_, congrArg some (Prod.ext ?_ rfl), ?_⟩
    · show _ % 2 ^ it.width = _
      rw [hwid, ← ofBits_take_mod, List.take_take, Nat.min_eq_left (by omega)]
    · refine ⟨hstop, hwid, e + amt, by omega, hamtle, by show align + e + amt = _; omega, ?_, ?_⟩
      · simp only [hbits, hwid]; omega
      · simp only [hwid]
        have e2 : e - pos + amt - w = e + amt - (pos + w) := by omega
        rw [← ofBits_drop_div, List.drop_take, List.drop_drop, e2, Nat.add_assoc]
  · -- enough buffered
    rw [if_neg (by intro h; exact hlt h.2), if_neg hlt]
    have hge : w ≤ e - pos := by rw [hbits, hwid] at hlt; omega
    refine ⟨_, congrArg some (Prod.ext ?_ rfl), ?_⟩
    · show _ % 2 ^ it.width = _
      rw [hwid, hnext, ← ofBits_take_mod, List.take_take, Nat.min_eq_left hge]
    · refine ⟨hstop, hwid, e, by omega, hel, hidx, ?_, ?_⟩
      · simp only [hbits, hwid]; omega
      · simp only [hwid, hnext]
        have e2 : e - pos - w = e - (pos + w) := by omega
        rw [← ofBits_drop_div, List.drop_take, List.drop_drop, e2, Nat.add_assoc]

/-- the same, with the item given as a load -/
theorem fwNext_step_load (a : List Bool) (hb : a.length % 8 = 0) (align len w pos v : Nat) (it : FwIter)
    (hin : align + len ≤ a.length) (hw0 : 0 < w) (hw : w ≤ 32) (hpos : pos + w ≤ len)
    (inv : FwInv a align len w pos it) (hv : load a (align + pos) w = some v) :
    ∃ it', fwNext a it = some (v, it') ∧ FwInv a align len w (pos + w) it' := by
  obtain ⟨it', h1, h2⟩ := fwNext_step a hb align len w pos it hin hw0 hw hpos inv
  rw [(load_inside_val a hb _ w v (by omega) hv).1] at h1
  exact ⟨it', h1, h2⟩

/-- after the last field the iterator ends -/
theorem fwNext_end (a : List Bool) (align len w : Nat) (it : FwIter) (hw0 : 0 < w)
    (inv : FwInv a align len w len it) : fwNext a it = none := by
  obtain ⟨hstop, hwid, e, hpe, hel, hidx, hbits, _⟩ := inv
  unfold fwNext
  rw [if_pos]
  rw [hidx, hstop, hbits, hwid]
  omega

end Blue.BitArr
