import Blue.Generated.Consts
import Blue.Model.Setsum
/-! The tie between constants regenerated from the Rust source (`Blue.Generated`, written by
    `translate/extract.py` on every run) and the constants the hand-written model uses.
    An edit to one of these constants in the source breaks the corresponding theorem here. -/
namespace Blue.ConstsTie

theorem setsum_primes : Blue.Setsum.primes.toList = Blue.Generated.setsumPrimes := by decide
theorem setsum_layout : Blue.Generated.setsumBytes = 8 * Blue.Generated.setsumBytesPerColumn
    ∧ Blue.Generated.setsumBytesPerColumn = 4 := by decide

end Blue.ConstsTie
