import Blue.Model.Csa
namespace Blue.Csa

/-! ### the order on suffixes -/

theorem lexLt_irrefl : ∀ (a : List Nat), lexLt a a = false
  | [] => rfl
  | x :: xs => by simp [lexLt, lexLt_irrefl xs]

theorem lexLt_trans : ∀ (a b c : List Nat), lexLt a b = true → lexLt b c = true → lexLt a c = true
  | [], [], _, h, _ => by simp [lexLt] at h
  | [], _ :: _, [], _, h => by simp [lexLt] at h
  | [], _ :: _, _ :: _, _, _ => rfl
  | _ :: _, [], _, h, _ => by simp [lexLt] at h
  | _ :: _, _ :: _, [], _, h => by simp [lexLt] at h
  | x :: xs, y :: ys, z :: zs, h1, h2 => by
    simp only [lexLt, Bool.or_eq_true, Bool.and_eq_true, decide_eq_true_eq] at h1 h2 ⊢
    rcases h1 with h1 | ⟨e1, h1⟩
    · rcases h2 with h2 | ⟨e2, _⟩
      · left; omega
      · left; omega
    · rcases h2 with h2 | ⟨e2, h2⟩
      · left; omega
      · right; exact ⟨by omega, lexLt_trans xs ys zs h1 h2⟩

theorem lexLt_asymm (a b : List Nat) (h : lexLt a b = true) : lexLt b a = false := by
  cases hb : lexLt b a with
  | false => rfl
  | true => have := lexLt_trans a b a h hb; rw [lexLt_irrefl] at this; cases this

theorem lexLt_cons (c : Nat) (a b : List Nat) : lexLt (c :: a) (c :: b) = lexLt a b := by
  simp [lexLt]

/-! ### where a binary search lands in a strictly increasing slice -/

def cnt (f : Nat → Nat) (a m : Nat) : Nat := ((List.range m).filter (fun d => decide (f d < a))).length

theorem cnt_succ (f : Nat → Nat) (a m : Nat) : cnt f a (m + 1) = cnt f a m + (if f m < a then 1 else 0) := by
  unfold cnt
  rw [List.range_succ, List.filter_append, List.length_append]
  by_cases h : f m < a <;> simp [h]

theorem cnt_spec (f : Nat → Nat) (a : Nat) : ∀ (m : Nat), (∀ d d', d < d' → d' < m → f d < f d') →
    cnt f a m ≤ m ∧ ∀ d, d < m → (d < cnt f a m ↔ f d < a)
  | 0, _ => ⟨Nat.le_refl _, fun d h => absurd h (Nat.not_lt_zero d)⟩
  | m + 1, hmono => by
    obtain ⟨hle, ih⟩ := cnt_spec f a m (fun d d' h1 h2 => hmono d d' h1 (by omega))
    rw [cnt_succ]
    by_cases hm : f m < a
    · rw [if_pos hm]
      have hall : ∀ d, d < m → f d < a := fun d hd => Nat.lt_trans (hmono d m hd (by omega)) hm
      have hfull : cnt f a m = m := by
        rcases Nat.eq_zero_or_pos m with h0 | hpos
        · omega
        · have := (ih (m - 1) (by omega)).mpr (hall (m - 1) (by omega)); omega
      refine ⟨by omega, ?_⟩
      intro d hd
      constructor
      · intro _
        rcases Nat.lt_or_ge d m with h | h
        · exact hall d h
        · have : d = m := by omega
          rw [this]; exact hm
      · intro _; omega
    · rw [if_neg hm]
      refine ⟨by omega, ?_⟩
      intro d hd
      rcases Nat.lt_or_ge d m with h | h
      · simpa using ih d h
      · have : d = m := by omega
        subst this
        constructor
        · intro h'; omega
        · intro h'; exact absurd h' hm

/-! ### one step of backward search -/

structure Sorted (l : List (List Nat)) : Prop where
  sorted : l.Pairwise (fun a b => lexLt a b = true)
  nonempty : ∀ s ∈ l, s ≠ []
  tails : ∀ s ∈ l, 2 ≤ s.length → s.tail ∈ l

theorem str_mem {l : List (List Nat)} {i : Nat} (h : i < l.length) : str l i ∈ l := by
  unfold str
  rw [List.getD_eq_getElem?_getD, List.getElem?_eq_getElem h]
  exact List.getElem_mem h

theorem str_idxOf {l : List (List Nat)} {s : List Nat} (h : s ∈ l) : str l (l.idxOf s) = s := by
  have hlt := List.idxOf_lt_length_iff.mpr h
  unfold str
  rw [List.getD_eq_getElem?_getD, List.getElem?_eq_getElem hlt]
  exact List.getElem_idxOf hlt

/-- in suffix-array order, a smaller suffix has the smaller rank -/
theorem idx_mono {l : List (List Nat)} (hs : Sorted l) {x y : List Nat} (hx : x ∈ l) (hy : y ∈ l)
    (h : lexLt x y = true) : l.idxOf x < l.idxOf y := by
  have hxl := List.idxOf_lt_length_iff.mpr hx
  have hyl := List.idxOf_lt_length_iff.mpr hy
  have hpw := List.pairwise_iff_getElem.mp hs.sorted
  rcases Nat.lt_trichotomy (l.idxOf x) (l.idxOf y) with hlt | heq | hgt
  · exact hlt
  · exfalso
    have e1 := List.getElem_idxOf hxl
    have e2 := List.getElem_idxOf hyl
    have : x = y := by rw [← e1, ← e2]; congr 1
    rw [this, lexLt_irrefl] at h; cases h
  · exfalso
    have := hpw _ _ hyl hxl hgt
    rw [List.getElem_idxOf hyl, List.getElem_idxOf hxl] at this
    rw [lexLt_asymm _ _ this] at h; cases h

theorem str_lt {l : List (List Nat)} (hs : Sorted l) {i j : Nat} (hij : i < j) (hj : j < l.length) :
    lexLt (str l i) (str l j) = true := by
  have hi : i < l.length := by omega
  have := List.pairwise_iff_getElem.mp hs.sorted i j hi hj hij
  unfold str
  rw [List.getD_eq_getElem?_getD, List.getD_eq_getElem?_getD, List.getElem?_eq_getElem hi,
    List.getElem?_eq_getElem hj]
  exact this

/-- **C19** one `constrain` step: if `[r0, r1]` is the block of suffixes starting with `c` (all of
    them longer than one symbol: `c` is not the end marker) and `[a, b)` is the block of suffixes
    starting with `w`, then the two binary searches over `psi[r0 ..= r1]` return the block of
    suffixes starting with `c :: w` -/
theorem constrain_spec {l : List (List Nat)} (hs : Sorted l) (c : Nat) (w : List Nat)
    (r0 r1 a b : Nat) (hr1 : r1 < l.length)
    (hrange : ∀ i, i < l.length → ((r0 ≤ i ∧ i ≤ r1) ↔ (str l i).head? = some c))
    (hlong : ∀ i, r0 ≤ i → i ≤ r1 → 2 ≤ (str l i).length)
    (hinto : ∀ i, i < l.length → ((a ≤ i ∧ i < b) ↔ w <+: str l i)) :
    ∀ i, i < l.length →
      (((constrain l (r0, r1) (a, b)).1 ≤ i ∧ i < (constrain l (r0, r1) (a, b)).2) ↔ (c :: w) <+: str l i) := by
  intro i hi
  simp only [constrain, countLt]
  -- ψ is strictly increasing on the block
  have hshape : ∀ j, r0 ≤ j → j ≤ r1 → ∃ t, str l j = c :: t ∧ t ≠ [] ∧ t ∈ l := by
    intro j h0 h1
    have hjl : j < l.length := by omega
    have hh := (hrange j hjl).mp ⟨h0, h1⟩
    have hl2 := hlong j h0 h1
    cases hsj : str l j with
    | nil => rw [hsj] at hl2; simp at hl2
    | cons x t =>
      rw [hsj] at hh hl2
      simp only [List.head?_cons, Option.some.injEq] at hh
      subst hh
      refine ⟨t, rfl, ?_, ?_⟩
      · intro ht; rw [ht] at hl2; simp at hl2
      · have := hs.tails (str l j) (str_mem hjl) (by rw [hsj]; exact hl2)
        rw [hsj] at this; exact this
  have hmono : ∀ d d', d < d' → d' < r1 + 1 - r0 → psi l (r0 + d) < psi l (r0 + d') := by
    intro d d' hdd hd'
    obtain ⟨t, e, _, ht⟩ := hshape (r0 + d) (by omega) (by omega)
    obtain ⟨t', e', _, ht'⟩ := hshape (r0 + d') (by omega) (by omega)
    have hlt := str_lt hs (i := r0 + d) (j := r0 + d') (by omega) (by omega)
    rw [e, e', lexLt_cons] at hlt
    unfold psi
    rw [e, e']
    exact idx_mono hs ht ht' hlt
  obtain ⟨hale, ha⟩ := cnt_spec (fun d => psi l (r0 + d)) a (r1 + 1 - r0) hmono
  obtain ⟨hble, hb⟩ := cnt_spec (fun d => psi l (r0 + d)) b (r1 + 1 - r0) hmono
  unfold cnt at hale ha hble hb
  dsimp only at hale ha hble hb
  by_cases hin : r0 ≤ i ∧ i ≤ r1
  · obtain ⟨t, e, _, ht⟩ := hshape i hin.1 hin.2
    have hd : i = r0 + (i - r0) := by omega
    have ha' := ha (i - r0) (by omega)
    have hb' := hb (i - r0) (by omega)
    simp only [← hd] at ha' hb'
    have hpsi_lt : psi l i < l.length := by
      unfold psi; rw [e]; exact List.idxOf_lt_length_iff.mpr ht
    have hstr : str l (psi l i) = t := by
      unfold psi; rw [e]; exact str_idxOf ht
    have hw := hinto (psi l i) hpsi_lt
    rw [hstr] at hw
    rw [e, List.cons_prefix_cons]
    constructor
    · intro ⟨h1, h2⟩
      refine ⟨rfl, hw.mp ⟨?_, ?_⟩⟩
      · false_or_by_contra
        rename_i hlt
        have := ha'.mpr (by omega)
        omega
      · exact hb'.mp (by omega)
    · intro ⟨_, hpre⟩
      obtain ⟨h1, h2⟩ := hw.mpr hpre
      constructor
      · false_or_by_contra
        rename_i hlt
        have := ha'.mp (by omega)
        omega
      · have := hb'.mpr h2; omega
  · constructor
    · intro ⟨h1, h2⟩
      exfalso; apply hin; omega
    · intro hpre
      exfalso; apply hin
      apply (hrange i hi).mpr
      obtain ⟨u, hu⟩ := hpre
      rw [← hu]; rfl

/-- `Sigma::sa_range_for(c)` is the block of suffixes starting with `c`, none of them the bare end
    marker -/
structure RangeOk (l : List (List Nat)) (c : Nat) (r : Nat × Nat) : Prop where
  lt : r.2 < l.length
  wf : r.1 ≤ r.2 + 1
  block : ∀ i, i < l.length → ((r.1 ≤ i ∧ i ≤ r.2) ↔ (str l i).head? = some c)
  long : ∀ i, r.1 ≤ i → i ≤ r.2 → 2 ≤ (str l i).length

/-- **C19** backward search returns exactly the block of suffixes that start with the needle — for
    every text (through its sorted suffixes), every non-empty needle over the text's alphabet -/
theorem backwardSearch_spec {l : List (List Nat)} (hs : Sorted l) (rangeFor : Nat → Nat × Nat) :
    ∀ (needle : List Nat), needle ≠ [] → (∀ c ∈ needle, RangeOk l c (rangeFor c)) →
    ∀ i, i < l.length →
      (((backwardSearch l rangeFor needle).1 ≤ i ∧ i < (backwardSearch l rangeFor needle).2)
        ↔ needle <+: str l i)
  | [], h, _ => absurd rfl h
  | [t], _, hr => by
    intro i hi
    have ht := hr t List.mem_cons_self
    simp only [backwardSearch]
    rw [show (i < (rangeFor t).2 + 1) = (i ≤ (rangeFor t).2) from by simp [Nat.lt_succ_iff]]
    rw [ht.block i hi]
    cases hstr : str l i with
    | nil => simp
    | cons x xs =>
      simp only [List.head?_cons, Option.some.injEq, List.cons_prefix_cons, List.nil_prefix, and_true]
      exact eq_comm
  | c :: c' :: w, _, hr => by
    intro i hi
    have hc := hr c List.mem_cons_self
    have ih := backwardSearch_spec hs rangeFor (c' :: w) (by simp)
      (fun x hx => hr x (List.mem_cons_of_mem _ hx))
    simp only [backwardSearch]
    exact constrain_spec hs c (c' :: w) (rangeFor c).1 (rangeFor c).2
      (backwardSearch l rangeFor (c' :: w)).1 (backwardSearch l rangeFor (c' :: w)).2
      hc.lt hc.block hc.long ih i hi

theorem interval_count (p : Nat → Bool) (s e : Nat) : ∀ (n : Nat),
    (∀ i, i < n → ((s ≤ i ∧ i < e) ↔ p i = true)) →
    ((List.range n).filter p).length = min e n - min s n
  | 0, _ => by simp
  | n + 1, h => by
    rw [List.range_succ, List.filter_append, List.length_append,
      interval_count p s e n (fun i hi => h i (by omega))]
    have hn := h n (by omega)
    by_cases hp : p n = true
    · have := hn.mpr hp
      simp only [List.filter_cons, hp, if_true, List.filter_nil, List.length_cons, List.length_nil]
      omega
    · have hne : ¬ (s ≤ n ∧ n < e) := fun hc => hp (hn.mp hc)
      simp only [List.filter_cons, hp, List.filter_nil]
      simp only [Bool.false_eq_true, if_false, List.length_nil]
      omega

/-- **C19** `count` is the number of suffixes that start with the needle, i.e. the number of
    positions at which the needle occurs in the text -/
theorem count_spec {l : List (List Nat)} (hs : Sorted l) (rangeFor : Nat → Nat × Nat)
    (needle : List Nat) (hne : needle ≠ []) (hr : ∀ c ∈ needle, RangeOk l c (rangeFor c)) :
    count l rangeFor needle
      = ((List.range l.length).filter (fun i => needle.isPrefixOf (str l i))).length := by
  have hspec := backwardSearch_spec hs rangeFor needle hne hr
  have := interval_count (fun i => needle.isPrefixOf (str l i))
    (backwardSearch l rangeFor needle).1 (backwardSearch l rangeFor needle).2 l.length
    (fun i hi => by rw [hspec i hi, List.isPrefixOf_iff_prefix])
  rw [this]
  unfold count
  -- the upper end never exceeds the number of suffixes
  have hle : (backwardSearch l rangeFor needle).2 ≤ l.length := by
    cases needle with
    | nil => exact absurd rfl hne
    | cons c w =>
      have hc := hr c List.mem_cons_self
      cases w with
      | nil => simp only [backwardSearch]; have := hc.lt; omega
      | cons c' w' =>
        simp only [backwardSearch, constrain, countLt]
        have : ((List.range ((rangeFor c).2 + 1 - (rangeFor c).1)).filter
            (fun d => decide (psi l ((rangeFor c).1 + d) < (backwardSearch l rangeFor (c' :: w')).2))).length
            ≤ (rangeFor c).2 + 1 - (rangeFor c).1 := by
          have := List.length_filter_le (fun d => decide (psi l ((rangeFor c).1 + d)
            < (backwardSearch l rangeFor (c' :: w')).2)) (List.range ((rangeFor c).2 + 1 - (rangeFor c).1))
          simpa using this
        have h2 := hc.lt
        have h3 := hc.wf
        omega
  omega

/-- the non-empty suffixes of a text -/
def suffixes (T : List Nat) : List (List Nat) := (List.range T.length).map (fun k => T.drop k)

/-- any arrangement of a text's suffixes that is strictly increasing — what SA-IS must deliver, and
    what the correspondence check verifies of it — is a `Sorted` index -/
theorem sorted_of_suffixes (T : List Nat) (l : List (List Nat)) (hperm : l.Perm (suffixes T))
    (hsorted : l.Pairwise (fun a b => lexLt a b = true)) : Sorted l := by
  have hmem : ∀ s, s ∈ l ↔ ∃ k, k < T.length ∧ s = T.drop k := by
    intro s
    rw [hperm.mem_iff]
    simp only [suffixes, List.mem_map, List.mem_range]
    constructor
    · rintro ⟨k, hk, rfl⟩; exact ⟨k, hk, rfl⟩
    · rintro ⟨k, hk, rfl⟩; exact ⟨k, hk, rfl⟩
  refine ⟨hsorted, ?_, ?_⟩
  · intro s hs
    obtain ⟨k, hk, rfl⟩ := (hmem s).mp hs
    intro h
    have := congrArg List.length h
    simp at this; omega
  · intro s hs hlen
    obtain ⟨k, hk, rfl⟩ := (hmem s).mp hs
    apply (hmem _).mpr
    refine ⟨k + 1, ?_, ?_⟩
    · simp at hlen; omega
    · rw [List.tail_drop]

/-- non-vacuity: the text `a b a b $` (`1 2 1 2 0`); `ab` occurs twice, `ba` once, `bb` never -/
def exL : List (List Nat) := [[0], [1, 2, 0], [1, 2, 1, 2, 0], [2, 0], [2, 1, 2, 0]]
def exRange : Nat → Nat × Nat := fun c => if c = 1 then (1, 2) else if c = 2 then (3, 4) else (1, 0)

example : exL.Perm (suffixes [1, 2, 1, 2, 0]) ∧ exL.Pairwise (fun a b => lexLt a b = true) := by decide
example : count exL exRange [1, 2] = 2 ∧ count exL exRange [2, 1] = 1 ∧ count exL exRange [2, 2] = 0
    ∧ backwardSearch exL exRange [1, 2] = (1, 3) := by decide

theorem list_as_map (l : List (List Nat)) : l = (List.range l.length).map (fun i => str l i) := by
  apply List.ext_getElem
  · simp
  · intro i h1 h2
    simp [str, List.getD_eq_getElem?_getD, List.getElem?_eq_getElem h1]

/-- **C19** `count` equals the number of text positions at which the needle occurs — the answer of a
    plain scan of the text -/
theorem count_occurrences (T : List Nat) {l : List (List Nat)} (hperm : l.Perm (suffixes T))
    (hsorted : l.Pairwise (fun a b => lexLt a b = true)) (rangeFor : Nat → Nat × Nat)
    (needle : List Nat) (hne : needle ≠ []) (hr : ∀ c ∈ needle, RangeOk l c (rangeFor c)) :
    count l rangeFor needle
      = ((List.range T.length).filter (fun k => needle.isPrefixOf (T.drop k))).length := by
  rw [count_spec (sorted_of_suffixes T l hperm hsorted) rangeFor needle hne hr]
  rw [← List.countP_eq_length_filter, ← List.countP_eq_length_filter]
  have h1 : List.countP (fun i => needle.isPrefixOf (str l i)) (List.range l.length)
      = List.countP (fun s => needle.isPrefixOf s) l := by
    conv => rhs; rw [list_as_map l]
    rw [List.countP_map]; rfl
  have h2 : List.countP (fun k => needle.isPrefixOf (T.drop k)) (List.range T.length)
      = List.countP (fun s => needle.isPrefixOf s) (suffixes T) := by
    unfold suffixes
    rw [List.countP_map]; rfl
  rw [h1, h2]
  exact hperm.countP_eq _

/-- **C19** the step behind the sampled suffix array: following ψ moves one position to the right
    in the text, so `sa[i] = sa[ψᵏ(i)] - k` and a sample met after `k` steps gives `sa[i]` -/
theorem sa_psi {l : List (List Nat)} (hs : Sorted l) (n i : Nat) (hi : i < l.length)
    (hlong : 2 ≤ (str l i).length) (hn : (str l i).length ≤ n) :
    saOf l n (psi l i) = saOf l n i + 1 := by
  have hmem := hs.tails (str l i) (str_mem hi) hlong
  unfold saOf psi
  rw [str_idxOf hmem, List.length_tail]
  omega

/-- in the suffix array of `T`, the suffix at rank `i` is the text from `sa[i]` on -/
theorem str_is_drop (T : List Nat) {l : List (List Nat)} (hperm : l.Perm (suffixes T)) (i : Nat)
    (hi : i < l.length) : str l i = T.drop (saOf l T.length i) ∧ saOf l T.length i < T.length := by
  have hm : str l i ∈ suffixes T := hperm.mem_iff.mp (str_mem hi)
  simp only [suffixes, List.mem_map, List.mem_range] at hm
  obtain ⟨k, hk, hk'⟩ := hm
  unfold saOf
  rw [← hk', List.length_drop]
  constructor
  · congr 1; omega
  · omega

/-- **C19** `search` finds exactly the occurrence positions: the text positions of the ranks in the
    range returned by backward search are the positions at which the needle occurs in the text -/
theorem search_positions (T : List Nat) {l : List (List Nat)} (hperm : l.Perm (suffixes T))
    (hsorted : l.Pairwise (fun a b => lexLt a b = true)) (rangeFor : Nat → Nat × Nat)
    (needle : List Nat) (hne : needle ≠ []) (hr : ∀ c ∈ needle, RangeOk l c (rangeFor c)) (k : Nat) :
    (k < T.length ∧ needle <+: T.drop k)
      ↔ ∃ i, (backwardSearch l rangeFor needle).1 ≤ i ∧ i < (backwardSearch l rangeFor needle).2
          ∧ i < l.length ∧ saOf l T.length i = k := by
  have hs := sorted_of_suffixes T l hperm hsorted
  have hspec := backwardSearch_spec hs rangeFor needle hne hr
  constructor
  · intro ⟨hk, hpre⟩
    have hmem : T.drop k ∈ l := by
      rw [hperm.mem_iff]
      simp only [suffixes, List.mem_map, List.mem_range]
      exact ⟨k, hk, rfl⟩
    have hi := List.idxOf_lt_length_iff.mpr hmem
    have hstr := str_idxOf hmem
    refine ⟨l.idxOf (T.drop k), ?_, ?_, hi, ?_⟩
    · exact ((hspec _ hi).mpr (by rw [hstr]; exact hpre)).1
    · exact ((hspec _ hi).mpr (by rw [hstr]; exact hpre)).2
    · unfold saOf; rw [hstr, List.length_drop]; omega
  · rintro ⟨i, h1, h2, hi, hsa⟩
    obtain ⟨hd, hlt⟩ := str_is_drop T hperm i hi
    rw [hsa] at hd hlt
    refine ⟨hlt, ?_⟩
    rw [← hd]
    exact (hspec i hi).mp ⟨h1, h2⟩

end Blue.Csa

#print axioms Blue.Csa.constrain_spec
#print axioms Blue.Csa.backwardSearch_spec
#print axioms Blue.Csa.count_spec
#print axioms Blue.Csa.sorted_of_suffixes
#print axioms Blue.Csa.count_occurrences
#print axioms Blue.Csa.sa_psi
#print axioms Blue.Csa.search_positions
#print axioms Blue.Csa.str_is_drop

