import Blue.Proofs.SstWf
/-! The remaining side conditions of the C10 table theorems — `hwfD` (the index entries fit their
    wire types), `hfitE` / `hfitD` (restart offsets and counts of every data block and of the index
    block fit `u32`) — **derived from the builders' own checks**: `BlockBuilder::put` / `del`
    refuse at `approximate_size() ≥ TABLE_FULL_SIZE` and refuse keys / values above `MAX_KEY_LEN` /
    `MAX_VALUE_LEN` (`putCheck`), so a block that accepted an entry is below `TABLE_FULL_SIZE` plus
    one entry (< 2^32 bytes, < 2^32 restarts), and `SstBuilder` puts its index entries through the
    same `BlockBuilder::put`.  The attempts' timestamps are `u64` (`hts`).

    Result: `sealed_side_conditions` — every `Wf` / `Fits` hypothesis of `sst_builder_refines`,
    `sst_file_roundtrip`, `sst_file_roundtrip_bcur` holds for every attempt sequence and every
    builder option.  Added after the independent audit of the C10 statements (the doc comment
    "which TABLE_FULL_SIZE guarantees" is now a theorem). -/
namespace Blue.Sst
open Blue.Wire Blue.EntryCodec Blue.Block Blue.Cursor Blue.SstOpen

theorem sharedLen_le_right : ∀ (a b : List Nat), sharedLen a b ≤ b.length
  | [], _ => by simp [sharedLen]
  | _ :: _, [] => by simp [sharedLen]
  | x :: as, y :: bs => by
    simp only [sharedLen]; split
    · have := sharedLen_le_right as bs; simp; omega
    · simp

/-- the encoded size of an in-limit entry -/
theorem encEntry_length_le (shared : Nat) (e : KV) (hsh : shared ≤ e.key.length) (hts : e.ts < U64)
    (hk : e.key.length ≤ MAX_KEY_LEN) (hv : ∀ v, e.val = some v → v.length ≤ MAX_VALUE_LEN) :
    (encEntry (wireEntry shared e)).length ≤ 49300 := by
  have hK : e.key.length ≤ 16384 := hk
  have hU : U64 = 18446744073709551616 := rfl
  have hd : (e.key.drop shared).length ≤ 16384 := by rw [List.length_drop]; omega
  have v1 := Blue.ProtoMsg.encVarint_length_le_ten shared (by omega)
  have v2 := Blue.ProtoMsg.encVarint_length_le_ten (e.key.drop shared).length (by omega)
  have v3 := Blue.ProtoMsg.encVarint_length_le_ten e.ts hts
  unfold wireEntry
  cases hval : e.val with
  | none =>
    have t5 := encTag_small 5 .varint (by decide)
    have t6 := encTag_small 6 .lengthDelimited (by decide)
    have t7 := encTag_small 7 .varint (by decide)
    have t9 := encTag_small 9 .lengthDelimited (by decide)
    have hl : (encDel ⟨shared, e.key.drop shared, e.ts⟩).length ≤ 16500 := by
      simp only [encDel, encBytes, List.length_append]; omega
    have v5 := Blue.ProtoMsg.encVarint_length_le_ten (encDel ⟨shared, e.key.drop shared, e.ts⟩).length (by omega)
    simp only [encEntry, encBytes, List.length_append]
    omega
  | some v =>
    have hV : v.length ≤ 32768 := hv v hval
    have v4 := Blue.ProtoMsg.encVarint_length_le_ten v.length (by omega)
    have t1 := encTag_small 1 .varint (by decide)
    have t2 := encTag_small 2 .lengthDelimited (by decide)
    have t3 := encTag_small 3 .varint (by decide)
    have t4 := encTag_small 4 .lengthDelimited (by decide)
    have t8 := encTag_small 8 .lengthDelimited (by decide)
    have hl : (encPut ⟨shared, e.key.drop shared, e.ts, v⟩).length ≤ 49250 := by
      simp only [encPut, encBytes, List.length_append]; omega
    have v5 := Blue.ProtoMsg.encVarint_length_le_ten (encPut ⟨shared, e.key.drop shared, e.ts, v⟩).length (by omega)
    simp only [encEntry, encBytes, List.length_append]
    omega

/-- **one `append` below `TABLE_FULL_SIZE` keeps the block inside the `u32` format** -/
theorem add_fits (o : Opts) (b : Builder) (e : KV) (hap : b.approxSize < TABLE_FULL_SIZE) (hts : e.ts < U64)
    (hk : e.key.length ≤ MAX_KEY_LEN) (hv : ∀ v, e.val = some v → v.length ≤ MAX_VALUE_LEN) :
    Fits (b.add o e) := by
  have hA : b.buffer.length + 16 + 4 * b.restarts.length < 1006632960 := hap
  unfold Fits Builder.add
  simp only
  by_cases hr : (decide (o.bytesRestartInterval ≤ b.bytesSinceRestart)
      || decide (o.pairsRestartInterval ≤ b.pairsSinceRestart)) = true
  · simp only [hr, if_true]
    have := encEntry_length_le 0 e (Nat.zero_le _) hts hk hv
    simp only [List.length_append, List.length_cons, List.length_nil]
    omega
  · simp only [hr]
    have := encEntry_length_le (sharedLen b.lastKey e.key) e (sharedLen_le_right _ _) hts hk hv
    simp only [List.length_append, Bool.false_eq_true, if_false]
    omega

/-- an accepted `BlockBuilder::put` leaves a block inside the format, and the entry was in-limit -/
theorem cput_fits {o : Opts} {c c' : CBuilder} {e : KV} (h : c.put o e = .ok c') (hts : e.ts < U64) :
    Fits c'.b ∧ e.key.length ≤ MAX_KEY_LEN ∧ ∀ v, e.val = some v → v.length ≤ MAX_VALUE_LEN := by
  obtain ⟨rfl, hc⟩ := cput_ok h
  obtain ⟨h1, h2, h3, _⟩ := (putCheck_none_iff _ _ _ _).mp hc
  exact ⟨add_fits o c.b e h3 hts h1 h2, h1, h2⟩

theorem fits_init (o : Opts) : Fits (build o []) := by
  unfold Fits build
  simp only [List.foldl_nil, Builder.init]
  decide

theorem divideKeys_ts (kl : List Nat) (tl : Nat) (kr : List Nat) (tr : Nat) :
    (divideKeys kl tl kr tr).2 = 0 ∨ (divideKeys kl tl kr tr).2 = tl := by
  unfold divideKeys
  simp only
  split
  · split
    · exact Or.inl rfl
    · exact Or.inr rfl
  · exact Or.inr rfl

/-! ### `BlockBuilder` alone -/
/-- whatever is attempted on a `BlockBuilder` (timestamps `u64`), the entries it accepted fit their
    wire types and the block stays inside the `u32` restart format: the hypotheses `hwf` / `hfit` of
    `sealed_bytes_decode` / `sealed_block_cursor_refines` hold for `es := acceptedOf results attempts` -/
theorem cputAll_side (o : Opts) : ∀ (atts : List KV) (c : CBuilder), (∀ e ∈ atts, e.ts ≤ U64MAX) → Fits c.b →
    Fits (CBuilder.putAll o c atts).2.b ∧ ∀ e ∈ acceptedOf (CBuilder.putAll o c atts).1 atts, e.Wf
  | [], c, _, hf => ⟨hf, by intro e he; simp [CBuilder.putAll, acceptedOf] at he⟩
  | a :: as, c, hts, hf => by
    simp only [CBuilder.putAll]
    have hta : a.ts < U64 := by
      have := hts a (List.mem_cons_self ..); unfold U64MAX at this; unfold U64; omega
    cases h : c.put o a with
    | error err =>
      simp only [acceptedOf]
      exact cputAll_side o as c (fun x hx => hts x (List.mem_cons_of_mem _ hx)) hf
    | ok c' =>
      simp only [acceptedOf]
      obtain ⟨hf', hk, hv⟩ := cput_fits h hta
      obtain ⟨h1, h2⟩ := cputAll_side o as c' (fun x hx => hts x (List.mem_cons_of_mem _ hx)) hf'
      refine ⟨h1, ?_⟩
      intro e he
      rcases List.mem_cons.mp he with rfl | he
      · exact kv_wf_of_limits _ hta hk hv
      · exact h2 e he

theorem block_builder_side_conditions (o : Opts) (atts : List KV) (hts : ∀ e ∈ atts, e.ts ≤ U64MAX) :
    (∀ e ∈ acceptedOf (CBuilder.putAll o CBuilder.init atts).1 atts, e.Wf)
    ∧ Fits (build o (acceptedOf (CBuilder.putAll o CBuilder.init atts).1 atts)) := by
  obtain ⟨h1, h2⟩ := cputAll_side o atts CBuilder.init hts (fits_init o)
  refine ⟨h2, ?_⟩
  have := putAll_builds o atts CBuilder.init
  rw [this] at h1
  exact h1

/-! ### the invariant -/
structure FitInv (o : SstOpts) (s : SB) : Prop where
  cut : ∀ es ∈ s.cutE, Fits (build o.blk es)
  cur : Fits (build o.blk s.curE)
  idx : Fits (build o.blk s.divE)
  divs : ∀ d ∈ s.divE, d.ts < U64 ∧ d.key.length ≤ MAX_KEY_LEN ∧ ∀ v, d.val = some v → v.length ≤ MAX_VALUE_LEN
  lts : s.lastTs ≤ U64MAX

theorem fitinv_init (o : SstOpts) : FitInv o SB.init :=
  ⟨by intro es h; simp [SB.init] at h, fits_init o.blk, fits_init o.blk, by intro d h; simp [SB.init] at h,
   Nat.le_refl _⟩

/-- `flush_block`: the open block joins the cut, the index block takes one more entry -/
theorem fitinv_flushed {o : SstOpts} {s : SB} {c idx : CBuilder} {k : List Nat} {t : Nat}
    (hs : SInv o s) (hi : FitInv o s) (hput : s.index.put o.blk (indexEntry s c k t) = .ok idx) :
    FitInv o (flushed s c idx k t) := by
  have hdts : (indexEntry s c k t).ts < U64 := by
    have := divideKeys_ts s.lastKey s.lastTs k t
    have hl := hi.lts
    unfold U64MAX at hl
    unfold U64
    show (divideKeys s.lastKey s.lastTs k t).2 < _
    rcases this with h | h <;> omega
  obtain ⟨hf, hk, hv⟩ := cput_fits hput hdts
  obtain ⟨hidx, _⟩ := cput_ok hput
  refine ⟨?_, fits_init o.blk, ?_, ?_, hi.lts⟩
  · intro es hes
    simp only [flushed, List.mem_append, List.mem_singleton] at hes
    rcases hes with hes | rfl
    · exact hi.cut es hes
    · exact hi.cur
  · show Fits (build o.blk (s.divE ++ [indexEntry s c k t]))
    rw [build_snoc, ← hs.indexB]
    rw [hidx] at hf
    exact hf
  · intro d hd
    simp only [flushed, List.mem_append, List.mem_singleton] at hd
    rcases hd with hd | rfl
    · exact hi.divs d hd
    · exact ⟨hdts, hk, hv⟩

theorem fitinv_put {o : SstOpts} {s s' : SB} {e : KV} (hs : SInv o s) (hi : FitInv o s) (hts : e.ts ≤ U64MAX)
    (h : s.put o e = .ok s') : FitInv o s' := by
  have hs' := sinv_put hs h
  have hts' : e.ts < U64 := by unfold U64MAX at hts; unfold U64; omega
  obtain ⟨_, hcase⟩ := put_ok h
  rcases hcase with ⟨hcur, c', hp, rfl⟩ | ⟨c, hcur, _, c', hp, rfl⟩ | ⟨c, hcur, _, sf, hf, c', hp, rfl⟩
  · obtain ⟨hfit, _, _⟩ := cput_fits hp hts'
    have hb := (hs'.opn c' rfl).2
    exact ⟨hi.cut, by rw [← hb]; exact hfit, hi.idx, hi.divs, hts⟩
  · obtain ⟨hfit, _, _⟩ := cput_fits hp hts'
    have hb := (hs'.opn c' rfl).2
    exact ⟨hi.cut, by rw [← hb]; exact hfit, hi.idx, hi.divs, hts⟩
  · obtain ⟨c2, idx, hc2, hput, rfl⟩ := flush_ok hf
    have hfl := fitinv_flushed (c := c2) (k := e.key) (t := e.ts) hs hi hput
    obtain ⟨hfit, _, _⟩ := cput_fits hp hts'
    have hb := (hs'.opn c' rfl).2
    exact ⟨hfl.cut, by rw [← hb]; exact hfit, hfl.idx, hfl.divs, hts⟩

theorem fitinv_putAll (o : SstOpts) : ∀ (atts : List KV) (s : SB), (∀ e ∈ atts, e.ts ≤ U64MAX) → SInv o s →
    FitInv o s → FitInv o (SB.putAll o s atts).2
  | [], _, _, _, h => h
  | e :: es, s, hts, hs, h => by
    simp only [SB.putAll]
    cases hp : s.put o e with
    | error err => exact fitinv_putAll o es s (fun x hx => hts x (List.mem_cons_of_mem _ hx)) hs h
    | ok s' =>
      exact fitinv_putAll o es s' (fun x hx => hts x (List.mem_cons_of_mem _ hx)) (sinv_put hs hp)
        (fitinv_put hs h (hts e (List.mem_cons_self ..)) hp)

theorem sealed_fitinv {o : SstOpts} {s s1 : SB} (hs : SInv o s) (hi : FitInv o s) (h : sealedState o s = .ok s1) :
    FitInv o s1 := by
  unfold sealedState at h
  cases hcur : s.cur with
  | some c =>
    rw [hcur] at h
    obtain ⟨c2, idx, _, hput, rfl⟩ := flush_ok h
    exact fitinv_flushed hs hi hput
  | none => rw [hcur] at h; cases h; exact hi

/-- **the `Wf` / `Fits` side conditions hold for every attempt sequence and every builder option**
    (timestamps `u64`): every accepted entry and every index entry fits its wire type, every data
    block and the index block stay inside the `u32` restart format — because the builders refuse
    oversize keys / values and refuse at `TABLE_FULL_SIZE`. -/
theorem sealed_side_conditions (o : SstOpts) (atts : List KV) (hts : ∀ e ∈ atts, e.ts ≤ U64MAX) (s1 : SB)
    (hs1 : sealedState o (SB.putAll o SB.init atts).2 = .ok s1) :
    (∀ e ∈ (SB.putAll o SB.init atts).2.accepted, e.Wf) ∧ (∀ d ∈ s1.divE, d.Wf)
    ∧ (∀ es ∈ s1.cutE, Fits (build o.blk es)) ∧ Fits (build o.blk s1.divE) := by
  have hs := sinv_putAll o atts SB.init (sinv_init o)
  have hi := fitinv_putAll o atts SB.init hts (sinv_init o) (fitinv_init o)
  have h1 := sealed_fitinv hs hi hs1
  refine ⟨accepted_wf o atts hts, ?_, h1.cut, h1.idx⟩
  intro d hd
  obtain ⟨a, b, c⟩ := h1.divs d hd
  exact kv_wf_of_limits d a b c

end Blue.Sst

#print axioms Blue.Sst.add_fits
#print axioms Blue.Sst.sealed_side_conditions
#print axioms Blue.Sst.block_builder_side_conditions
