import Blue.Proofs.Damage
/-! **C09 (log), a limit of the format**: a run of zeros that starts within `HEADER_MAX_SIZE + 1`
    bytes of a block boundary *is* padding to the reader — whatever was there before.  A whole frame
    that lies inside that window (at most `HEADER_MAX_SIZE + 1` bytes long, ending at or before the
    boundary) and is overwritten with zeros, byte for byte, is skipped without an error: the frames
    carry no sequence numbers, so nothing tells the reader that a frame is missing.  (D-11 was the
    reader skipping *non-zero* bytes; that is repaired: `zero_length_then_nonzero_is_error`.) -/
namespace Blue.Damage
open Blue.Log

/-- zeros from a header-length position up to a block boundary at most `HEADER_MAX_SIZE` bytes
    further on are stepped over -/
theorem zero_run_is_padding (P : Params) (file : List Nat) (fuel off : Nat) (h0 : file[off]? = some 0)
    (hd : trueUp P (off + 1) - (off + 1) ≤ P.H) (hz : padZero file (off + 1) (trueUp P (off + 1)) = true) :
    nextHeader P file (fuel + 1) off = nextHeader P file fuel (trueUp P (off + 1)) := by
  rw [zero_length_is_checked_padding P file fuel off h0, if_neg (by omega), hz]
  rfl

/-- the 20 bytes before the boundary at 64 — a whole small frame and the padding after it — all
    zero, then a frame on the boundary -/
def toyFrameZeroed : List Nat := List.replicate 44 7 ++ List.replicate 20 0 ++ [1, 1]

/-- **a zeroed frame inside the padding window is lost without a trace**: the reader hands out the
    header of the frame on the boundary as if nothing had been there -/
theorem zeroed_frame_is_padding : nextHeader toyParams toyFrameZeroed 2 44 = .ok (⟨0, 1, 0⟩, 66) := by rfl

end Blue.Damage

#print axioms Blue.Damage.zero_run_is_padding
#print axioms Blue.Damage.zeroed_frame_is_padding
