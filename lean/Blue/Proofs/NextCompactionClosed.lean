import Blue.Proofs.NextCompactionTree
/-! **C01** every compaction the function model `Blue.NextCompaction.nextCompaction` returns is
    *closed* on the tree it was chosen in — for all trees satisfying `Inv`, all options, all
    compactions in flight and all floating-point tables.

    The modelled loops establish what the three existing selector theorems assume:
    * `trivialOne_closed` / `trivialOne_closed0`: the side conditions of `trivial_move_closed`
      (for level 0: the file moved is the one searched last);
    * `computeBounds_ok` + `selection_ok`: `Selection.Ok` for the slices of `compute_bounds`;
    * `expand_closed`: `Expansion.Ok` for `expand_compaction` as repaired, then `expansion_closed`.
    `nextCompaction_origin` says where a returned compaction comes from (one of the two shapes),
    whatever the scores decided. -/
namespace Blue.NextCompaction
open Blue.Spec

theorem contains_iff {ids : List Nat} {x : Nat} : ids.contains x = true ↔ x ∈ ids := by
  simp

/-! ## trivial moves -/

theorem trivialOne_some {o : Opts} {og : List Core} {t : Tree} {lower : Nat} {f : File} {c : Core}
    (h : trivialOne o og t lower f = some c) :
    (lower = 0 ∨ lowerBound (level t lower) f.first + 1 = upperBound (level t lower) f.last)
    ∧ lower + 1 < t.length
    ∧ lowerBound (level t (lower + 1)) f.first = upperBound (level t (lower + 1)) f.last
    ∧ c = ⟨lower, lower + 1, f.first, f.last, [f.id], f.size⟩
    ∧ mayChoose o og c = true := by
  unfold trivialOne at h
  split at h
  · cases h
  · rename_i h1
    split at h
    · rename_i h2
      dsimp only at h
      split at h
      · rename_i h3
        cases h
        simp only [Bool.and_eq_true, decide_eq_true_eq, beq_iff_eq] at h2
        refine ⟨?_, h2.1, h2.2, rfl, h3⟩
        by_cases h0 : lower = 0
        · exact Or.inl h0
        · right
          simp only [Bool.and_eq_true, decide_eq_true_eq, bne_iff_ne, ne_eq, not_and, Decidable.not_not] at h1
          exact h1 (by omega)
      · cases h
    · cases h

theorem takes_move (lvl : Nat) (f g : File) (l : Nat) :
    (moveSel lvl (toT f)).takes l (toT g) = true ↔ lvl ≤ l ∧ l ≤ lvl + 1 ∧ g.first ≤ f.last ∧ f.first ≤ g.last := by
  unfold Selection.takes moveSel Rng.meets toT
  simp only [Bool.and_eq_true, decide_eq_true_eq]
  constructor
  · rintro ⟨⟨a, b⟩, c, d⟩; exact ⟨a, b, c, d⟩
  · rintro ⟨a, b, c, d⟩; exact ⟨⟨a, b⟩, c, d⟩

/-- a trivial move out of a level below level 0 is closed -/
theorem trivialOne_closed {t : Tree} (hinv : Inv t) {lower : Nat} (hl : 1 ≤ lower) {f : File}
    (hf : f ∈ level t lower)
    (h1 : lowerBound (level t lower) f.first + 1 = upperBound (level t lower) f.last)
    (h2 : lowerBound (level t (lower + 1)) f.first = upperBound (level t (lower + 1)) f.last) :
    Closed (tagIds [f.id] (numLevels t (lower + 1))) := by
  have halone := alone_of_succ (hinv.sorted_level hl) (hinv.wf_level lower) hf h1
  have hnone := no_meet_of_eq (hinv.sorted_level (by omega : 1 ≤ lower + 1)) (hinv.wf_level (lower + 1)) h2
  -- which files the move selection takes
  have htakes : ∀ l ∈ numLevels t (lower + 1), ∀ g ∈ l.2, ((moveSel lower (toT f)).takes l.1 (toT g) = true ↔ g = f) := by
    intro l hl' g hg
    obtain ⟨hle, hmem⟩ := mem_numLevels hl'
    have hg' := (hmem g).mp hg
    rw [takes_move]
    constructor
    · rintro ⟨a, b, c, d⟩
      by_cases e : l.1 = lower
      · rw [e] at hg'; exact halone g hg' c d
      · have e' : l.1 = lower + 1 := by omega
        rw [e'] at hg'; exact absurd ⟨c, d⟩ (hnone g hg')
    · rintro rfl
      have := (hinv.ids_unique hg' hf rfl).1
      have hw := hinv.wf_level lower g hf
      exact ⟨by omega, by omega, hw, hw⟩
  have hcl := Blue.Spec.trivial_move_closed lower (toT f) (toTL (numLevels t (lower + 1)))
    (toTL_pairwise (numLevels_pairwise t (lower + 1)))
    (by
      intro l hl'
      obtain ⟨l', hl'', e1, _⟩ := mem_toTL hl'
      rw [e1]; exact (mem_numLevels hl'').1)
    (by
      intro l hl' g hg
      obtain ⟨l', hl'', e1, e2⟩ := mem_toTL hl'
      rw [e2] at hg
      obtain ⟨g', hg', rfl⟩ := List.mem_map.mp hg
      exact hinv.wfT (((mem_numLevels hl'').2 g').mp hg'))
    (by
      intro l hl' g hg hlow hm
      obtain ⟨l', hl'', e1, e2⟩ := mem_toTL hl'
      rw [e2] at hg
      obtain ⟨g', hg', rfl⟩ := List.mem_map.mp hg
      have : (moveSel lower (toT f)).takes l'.1 (toT g') = true := by
        have hle := (mem_numLevels hl'').1
        unfold Selection.takes moveSel
        simp only [Bool.and_eq_true, decide_eq_true_eq]
        exact ⟨⟨by omega, hle⟩, hm⟩
      rw [(htakes l' hl'' g' hg').mp this])
  have hb := tag_bridge (moveSel lower (toT f)).takes [f.id] (numLevels t (lower + 1)) (by
    intro l hl' g hg
    rw [Bool.eq_iff_iff, htakes l hl' g hg, contains_iff, List.mem_singleton]
    obtain ⟨_, hmem⟩ := mem_numLevels hl'
    constructor
    · rintro rfl; rfl
    · intro he; exact (hinv.ids_unique ((hmem g).mp hg) hf he).2)
  rw [← hb]
  exact hcl

theorem level_ids_nodup {t : Tree} (hinv : Inv t) (i : Nat) : ((level t i).map (·.id)).Nodup := by
  cases ht : t[i]? with
  | none =>
    have : level t i = [] := by unfold level; rw [List.getD_eq_getElem?_getD, ht]; rfl
    rw [this]; exact List.nodup_nil
  | some l =>
    rw [level_of_get ht]
    have hsub : l.Sublist t.flatten := List.sublist_flatten_of_mem (List.mem_of_getElem? ht)
    exact (hsub.map _).nodup hinv.ids

/-- the trivial move out of level 0 (the file with the smallest newest timestamp, which
    `Version::load` searches last) is closed -/
theorem trivialOne_closed0 {t : Tree} (hinv : Inv t) {f : File} (hold : oldest (level t 0) = some f)
    (h2 : lowerBound (level t 1) f.first = upperBound (level t 1) f.last) :
    Closed (tagIds [f.id] (numLevels t 1)) := by
  obtain ⟨init, hinit⟩ := l0Search_oldest hold
  have hf0 : f ∈ level t 0 := mem_l0Search.mp (by rw [hinit]; simp)
  have hnone := no_meet_of_eq (hinv.sorted_level (Nat.le_refl 1)) (hinv.wf_level 1) h2
  have hinit0 : ∀ g ∈ init, g ∈ level t 0 := fun g hg => mem_l0Search.mp (by rw [hinit]; simp [hg])
  -- no file searched before `f` in level 0 carries its id
  have hne : ∀ g ∈ init, g.id ≠ f.id := by
    have hperm : (l0Search (level t 0)).Perm (level t 0) := by
      unfold l0Search
      exact (List.reverse_perm _).trans (List.mergeSort_perm _ _)
    have hnd : ((init ++ [f]).map (·.id)).Nodup := by
      rw [← hinit]
      exact (hperm.map _).nodup_iff.mpr (level_ids_nodup hinv 0)
    rw [List.map_append, List.nodup_append] at hnd
    intro g hg he
    exact hnd.2.2 g.id (List.mem_map.mpr ⟨g, hg, rfl⟩) f.id (by simp) he
  let levels' : List (Nat × List File) := [(0, init), (1, [f]), (2, level t 1)]
  have hsame : tagIds [f.id] (numLevels t 1) = tagIds [f.id] levels' := by
    unfold tagIds numLevels
    simp [levels', hinit, List.range_succ]
  rw [hsame]
  have hw : ∀ l ∈ levels', ∀ g ∈ l.2, (toT g).Wf := by
    intro l hl g hg
    simp only [levels', List.mem_cons, List.not_mem_nil, or_false] at hl
    rcases hl with rfl | rfl | rfl
    · exact hinv.wfT (hinit0 g hg)
    · simp only [List.mem_singleton] at hg; subst hg; exact hinv.wfT hf0
    · exact hinv.wfT hg
  have htakes : ∀ l ∈ levels', ∀ g ∈ l.2, ((moveSel 1 (toT f)).takes l.1 (toT g) = true ↔ g.id = f.id) := by
    intro l hl g hg
    rw [takes_move]
    simp only [levels', List.mem_cons, List.not_mem_nil, or_false] at hl
    rcases hl with rfl | rfl | rfl
    · constructor
      · rintro ⟨a, _⟩; simp at a
      · intro he; exact absurd he (hne g hg)
    · simp only [List.mem_singleton] at hg
      subst hg
      have := hinv.wf_level 0 g hf0
      exact ⟨fun _ => rfl, fun _ => ⟨Nat.le_refl _, by omega, this, this⟩⟩
    · constructor
      · rintro ⟨_, _, c, d⟩; exact absurd ⟨c, d⟩ (hnone g hg)
      · intro he
        have := (hinv.ids_unique hg hf0 he).1
        omega
  have hcl := Blue.Spec.trivial_move_closed 1 (toT f) (toTL levels')
    (by simp [toTL, levels'])
    (by
      intro l hl
      obtain ⟨l', hl', e1, _⟩ := mem_toTL hl
      rw [e1]
      simp only [levels', List.mem_cons, List.not_mem_nil, or_false] at hl'
      rcases hl' with rfl | rfl | rfl <;> simp)
    (by
      intro l hl g hg
      obtain ⟨l', hl', _, e2⟩ := mem_toTL hl
      rw [e2] at hg
      obtain ⟨g', hg', rfl⟩ := List.mem_map.mp hg
      exact hw l' hl' g' hg')
    (by
      intro l hl g hg hlow hm
      obtain ⟨l', hl', e1, e2⟩ := mem_toTL hl
      rw [e2] at hg
      obtain ⟨g', hg', rfl⟩ := List.mem_map.mp hg
      rw [e1] at hlow
      simp only [levels', List.mem_cons, List.not_mem_nil, or_false] at hl'
      rcases hl' with rfl | rfl | rfl
      · simp at hlow
      · simp only [List.mem_singleton] at hg'; rw [hg']
      · unfold Rng.meets toT at hm
        simp only [Bool.and_eq_true, decide_eq_true_eq] at hm
        exact absurd hm (hnone g' hg'))
  have hb := tag_bridge (moveSel 1 (toT f)).takes [f.id] levels' (by
    intro l hl g hg
    rw [Bool.eq_iff_iff, htakes l hl g hg, contains_iff, List.mem_singleton])
  rw [← hb]
  exact hcl

/-! ## the slices of `compute_bounds` -/

def sliceIds (t : Tree) (bounds : List Slice) (l : Nat) : List Nat :=
  (sliceFiles (level t l) (bounds.getD l ⟨0, 0, 0, 0⟩)).map (·.id)

/-- the inputs `find_best_compaction` has pushed after `n` levels from `lower` on -/
def baseIds (t : Tree) (bounds : List Slice) (lower n : Nat) : List Nat :=
  (List.range n).flatMap (fun j => sliceIds t bounds (lower + j))

theorem baseIds_succ (t : Tree) (bounds : List Slice) (lower n : Nat) :
    baseIds t bounds lower (n + 1) = baseIds t bounds lower n ++ sliceIds t bounds (lower + n) := by
  unfold baseIds
  rw [List.range_succ, List.flatMap_append]
  simp

theorem mem_baseIds {t : Tree} {bounds : List Slice} {lower n id : Nat} :
    id ∈ baseIds t bounds lower n ↔ ∃ j, j < n ∧ id ∈ sliceIds t bounds (lower + j) := by
  unfold baseIds
  simp [List.mem_flatMap, List.mem_range]

/-- what `compute_bounds(lower, …)` guarantees -/
structure BoundsOk (t : Tree) (lower : Nat) (bounds : List Slice) : Prop where
  ok : ∀ l, lower ≤ l → l < t.length → SliceOk (level t l) (bounds.getD l ⟨0, 0, 0, 0⟩)
  widen : ∀ a b, lower ≤ a → a ≤ b → b < t.length →
    (bounds.getD b ⟨0, 0, 0, 0⟩).first ≤ (bounds.getD a ⟨0, 0, 0, 0⟩).first
    ∧ (bounds.getD a ⟨0, 0, 0, 0⟩).last ≤ (bounds.getD b ⟨0, 0, 0, 0⟩).last

theorem level_eq_get {t : Tree} {l : Nat} (h : l < t.length) : t[l]? = some (level t l) := by
  unfold level
  rw [List.getD_eq_getElem?_getD, List.getElem?_eq_getElem h]; rfl

/-- **`compute_bounds` establishes its guarantee** on every tree satisfying `Inv` (for
    `lower_level = 0` the range must cover level 0, as the hull `next_compaction` passes does) -/
theorem computeBounds_ok {t : Tree} (hinv : Inv t) (lower first last : Nat)
    (hhull : lower = 0 → ∀ g ∈ level t 0, first ≤ g.first ∧ g.last ≤ last) :
    BoundsOk t lower (computeBounds t lower first last) := by
  unfold computeBounds
  obtain ⟨hlen, h2, h3, h4⟩ := boundsLoop_spec lower t 0 first last
    (by
      intro k lvl hk h1
      rw [← level_of_get hk]
      exact ⟨hinv.sorted_level (by omega), hinv.wf_level k⟩)
    (by
      intro _ h0 lvl hk g hg
      rw [← level_of_get hk] at hg
      have := hhull h0 g hg
      have := hinv.wf_level 0 g hg
      omega)
  have hget : ∀ l, l < t.length → (boundsLoop lower 0 t first last)[l]? = some ((boundsLoop lower 0 t first last).getD l ⟨0, 0, 0, 0⟩) := by
    intro l hl
    rw [List.getD_eq_getElem?_getD, List.getElem?_eq_getElem (by omega)]; rfl
  constructor
  · intro l h1 hl
    exact h2 l _ _ (hget l hl) (level_eq_get hl) (by omega)
  · intro a b h1 hab hb
    exact h4 a b _ _ hab (hget a (by omega)) (hget b hb) (by omega)

/-! ## `find_best_compaction` + `expand_compaction`: one candidate -/

/-- every input is a file of the tree at one of the compaction's levels, inside its key range -/
def InputsWithin (t : Tree) (c : Core) : Prop :=
  ∀ id ∈ c.inputs, ∃ l f, f ∈ level t l ∧ f.id = id ∧ c.lower ≤ l ∧ l ≤ c.upper ∧ c.first ≤ f.first ∧ f.last ≤ c.last

/-- the selection `find_best_compaction` reads off the bounds, as `Blue.Spec.Selection` -/
def selOf (bounds : List Slice) (lower upper : Nat) : Selection :=
  ⟨lower, upper, fun l => ⟨(bounds.getD l ⟨0, 0, 0, 0⟩).first, (bounds.getD l ⟨0, 0, 0, 0⟩).last⟩⟩

theorem takes_selOf {t : Tree} {lower : Nat} {bounds : List Slice} (hb : BoundsOk t lower bounds) {upper : Nat}
    (hup : upper < t.length) {l : Nat} {g : File} (hg : g ∈ level t l) :
    (selOf bounds lower upper).takes l (toT g) = true ↔
      lower ≤ l ∧ l ≤ upper ∧ g ∈ sliceFiles (level t l) (bounds.getD l ⟨0, 0, 0, 0⟩) := by
  unfold Selection.takes selOf Rng.meets toT
  simp only [Bool.and_eq_true, decide_eq_true_eq]
  constructor
  · rintro ⟨⟨a, b⟩, c, d⟩
    exact ⟨a, b, ((hb.ok l a (by omega)).takes g hg).mpr ⟨c, d⟩⟩
  · rintro ⟨a, b, c⟩
    exact ⟨⟨a, b⟩, ((hb.ok l a (by omega)).takes g hg).mp c⟩

/-- **`compute_bounds` establishes `Selection.Ok`** -/
theorem selection_ok {t : Tree} {lower : Nat} {bounds : List Slice} (hb : BoundsOk t lower bounds) {upper : Nat}
    (hup : upper < t.length) : (selOf bounds lower upper).Ok (toTL (numLevels t upper)) := by
  constructor
  · intro a b h1 h2 h3
    exact hb.widen a b h1 h2 (by unfold selOf at h3; dsimp only at h3; omega)
  · intro l hl f hf htk
    obtain ⟨l', hl', e1, e2⟩ := mem_toTL hl
    rw [e2] at hf
    obtain ⟨g, hg, rfl⟩ := List.mem_map.mp hf
    rw [e1] at htk ⊢
    have hg' := ((mem_numLevels hl').2 g).mp hg
    obtain ⟨a, b, c⟩ := (takes_selOf hb hup hg').mp htk
    exact (hb.ok l'.1 a (by omega)).inside g c

/-- **`expand_compaction` (repaired) establishes `Expansion.Ok`, and the candidate is closed**: the
    compaction `find_best_compaction` builds for the levels `lower ..= lower + d` — the slices of
    `compute_bounds` plus whatever `expand_compaction` adds — is closed on the tree, and all its
    inputs lie in its levels and inside its key range -/
theorem expand_closed (o : Opts) {t : Tree} (hinv : Inv t) {lower d : Nat} {bounds : List Slice}
    (hb : BoundsOk t lower bounds) (hup : lower + d < t.length) (sz : Nat) :
    Closed (tagTree t (expand o t ⟨lower, lower + d, (bounds.getD (lower + d) ⟨0, 0, 0, 0⟩).first,
      (bounds.getD (lower + d) ⟨0, 0, 0, 0⟩).last, baseIds t bounds lower (d + 1), sz⟩))
    ∧ InputsWithin t (expand o t ⟨lower, lower + d, (bounds.getD (lower + d) ⟨0, 0, 0, 0⟩).first,
      (bounds.getD (lower + d) ⟨0, 0, 0, 0⟩).last, baseIds t bounds lower (d + 1), sz⟩) := by
  generalize hbd : bounds.getD (lower + d) ⟨0, 0, 0, 0⟩ = bd
  generalize hbase : baseIds t bounds lower (d + 1) = base
  have hexp : expand o t ⟨lower, lower + d, bd.first, bd.last, base, sz⟩
      = ⟨lower, lower + d, bd.first, bd.last, expandLoop o t (levelsDown lower (d + 1)) bd.first bd.last base, sz⟩ := by
    unfold expand
    have : lower + d + 1 - lower = d + 1 := by omega
    simp only [this]
  rw [hexp]
  obtain ⟨stop, win, hs1, hs2, hdone⟩ := expandLoop_done o t lower (lower + d) base bd.first bd.last (d + 1)
    bd.first bd.last base (fun _ => (0, 0)) (by omega) (Nat.le_refl _) (Nat.le_refl _)
    ⟨by intro b h1 h2; omega, fun id h => h, by intro a b h1 h2 h3; omega, by intro b h1 h2; omega,
      fun id h => Or.inl h⟩
    (by intro b h1 h2; omega)
  generalize hinp : expandLoop o t (levelsDown lower (d + 1)) bd.first bd.last base = inputs' at hdone
  -- membership in the base inputs
  have hbaseiff : ∀ l g, g ∈ level t l → (g.id ∈ base ↔ lower ≤ l ∧ l ≤ lower + d ∧ g ∈ sliceFiles (level t l) (bounds.getD l ⟨0, 0, 0, 0⟩)) := by
    intro l g hg
    rw [← hbase, mem_baseIds]
    constructor
    · rintro ⟨j, hj, hid⟩
      unfold sliceIds at hid
      obtain ⟨g', hg', he⟩ := List.mem_map.mp hid
      obtain ⟨e1, e2⟩ := hinv.ids_unique (sliceFiles_sub hg') hg he
      subst e2
      rw [← e1]
      exact ⟨by omega, by omega, hg'⟩
    · rintro ⟨a, b, c⟩
      refine ⟨l - lower, by omega, ?_⟩
      have : lower + (l - lower) = l := by omega
      rw [this]
      exact List.mem_map.mpr ⟨g, c, rfl⟩
  let s := selOf bounds lower (lower + d)
  let e : Expansion := ⟨s, fun l => ⟨(win l).1, (win l).2⟩,
    fun l tf => decide (stop ≤ l) && decide (lower ≤ l) && decide (l ≤ lower + d)
      && decide ((win l).1 ≤ tf.first) && decide (tf.last ≤ (win l).2), stop⟩
  have hextra : ∀ l (g : File), e.extra l (toT g) = true ↔
      stop ≤ l ∧ lower ≤ l ∧ l ≤ lower + d ∧ (win l).1 ≤ g.first ∧ g.last ≤ (win l).2 := by
    intro l g
    simp only [e, toT, Bool.and_eq_true, decide_eq_true_eq]
    constructor
    · rintro ⟨⟨⟨⟨a, b⟩, c⟩, d'⟩, e'⟩; exact ⟨a, b, c, of_decide_eq_true d', of_decide_eq_true e'⟩
    · rintro ⟨a, b, c, d', e'⟩; exact ⟨⟨⟨⟨a, b⟩, c⟩, decide_eq_true d'⟩, decide_eq_true e'⟩
  -- the inputs afterwards, file by file
  have key : ∀ l g, g ∈ level t l → l ≤ lower + d → (e.inp l (toT g) = true ↔ g.id ∈ inputs') := by
    intro l g hg hl
    unfold Expansion.inp
    rw [Bool.or_eq_true, hextra]
    have htk : e.base.takes l (toT g) = true ↔ _ := takes_selOf hb hup hg
    rw [htk]
    constructor
    · rintro (⟨a, b, c⟩ | ⟨a, b, c, d1, d2⟩)
      · exact hdone.sub _ ((hbaseiff l g hg).mpr ⟨a, b, c⟩)
      · have hw := hinv.wf_level l g hg
        exact hdone.allin l a c g hg (by omega) (by omega)
    · intro hid
      rcases hdone.origin _ hid with h | ⟨b, g', h1, h2, h3, h4, h5⟩
      · exact Or.inl ((hbaseiff l g hg).mp h)
      · obtain ⟨e1, e2⟩ := hinv.ids_unique h3 hg h4
        subst e2; subst e1
        exact Or.inr ⟨h1, by omega, h2, h5.1, h5.2⟩
  have hsok := selection_ok hb hup
  have hok : e.Ok (toTL (numLevels t (lower + d))) := by
    refine ⟨hsok, ?_, ?_, ?_⟩
    · intro l hl f hf hx
      obtain ⟨l', _, e1, e2⟩ := mem_toTL hl
      rw [e2] at hf
      obtain ⟨g, _, rfl⟩ := List.mem_map.mp hf
      obtain ⟨a, b, c, d1, d2⟩ := (hextra l.1 g).mp hx
      exact ⟨a, b, c, d1, d2⟩
    · intro l hl h1 h2 f hf hm
      obtain ⟨l', hl', e1, e2⟩ := mem_toTL hl
      rw [e2] at hf
      obtain ⟨g, hg, rfl⟩ := List.mem_map.mp hf
      have hg' := ((mem_numLevels hl').2 g).mp hg
      rw [e1] at h1 h2 hm ⊢
      have h2' : l'.1 ≤ lower + d := h2
      apply (key l'.1 g hg' h2').mpr
      unfold Rng.meets toT at hm
      simp only [Bool.and_eq_true, decide_eq_true_eq] at hm
      exact hdone.allin l'.1 h1 h2' g hg' hm.1 hm.2
    · intro a b h1 h2 h3
      exact hdone.narrow a b h1 h2 h3
  have hcl := Blue.Spec.expansion_closed e (toTL (numLevels t (lower + d)))
    (toTL_pairwise (numLevels_pairwise t (lower + d)))
    (by
      intro l hl
      obtain ⟨l', hl', e1, _⟩ := mem_toTL hl
      rw [e1]; exact (mem_numLevels hl').1)
    (by
      intro l hl f hf
      obtain ⟨l', hl', _, e2⟩ := mem_toTL hl
      rw [e2] at hf
      obtain ⟨g, hg, rfl⟩ := List.mem_map.mp hf
      exact hinv.wfT (((mem_numLevels hl').2 g).mp hg))
    hok
  have hbr := tag_bridge e.inp inputs' (numLevels t (lower + d)) (by
    intro l hl g hg
    have hg' := ((mem_numLevels hl).2 g).mp hg
    rw [Bool.eq_iff_iff, key l.1 g hg' (mem_numLevels hl).1, contains_iff])
  constructor
  · unfold tagTree
    dsimp only
    rw [← hbr]
    exact hcl
  · intro id hid
    dsimp only at hid ⊢
    rcases hdone.origin id hid with h | ⟨b, g, h1, h2, h3, h4, h5⟩
    · rw [← hbase, mem_baseIds] at h
      obtain ⟨j, hj, hid'⟩ := h
      unfold sliceIds at hid'
      obtain ⟨g, hg, he⟩ := List.mem_map.mp hid'
      have hin := (hb.ok (lower + j) (by omega) (by omega)).inside g hg
      have hwd := hb.widen (lower + j) (lower + d) (by omega) (by omega) hup
      rw [hbd] at hwd
      exact ⟨lower + j, g, sliceFiles_sub hg, he, by omega, by omega, by omega, by omega⟩
    · have := hdone.inwin b h1 h2
      exact ⟨b, g, h3, h4, by omega, h2, by omega, by omega⟩

end Blue.NextCompaction
