import Blue.Proofs.SkipMLCas
/-! The multi-level skiplist under every interleaving of inserting and reading threads:
    the invariant holds in every reachable state. -/
namespace Blue.SkipML
open Blue.SkipList (Node keyOf nextOf setNextAt SChain)

/-- the state after a successful CAS, before the program counter moves on -/
def casSt (s : St) (idx p nd k : Nat) : St :=
  { s with heap := msetNext s.heap idx p (some nd), inserted := (if idx = 0 then k :: s.inserted else s.inserted) }

theorem inv_step_cas {s : St} {ids} (h : MInv s ids) (i nd k idx hh : Nat) (prev : List Nat) (obs : List (Option Nat))
    (hpc : (th s i).pc = .cas nd k idx hh prev obs) :
    ∃ ids', MInv (step s i) ids' ∧ ∀ l x, x ∈ ids l → x ∈ ids' l := by
  have hi : i < s.ths.length := th_lt_of_pc (by rw [hpc]; simp)
  have hP := h.pure i
  rw [hpc] at hP
  obtain ⟨hidx, hhH, hpl, hol⟩ := hP
  have hkeyk : ∀ k', pcKey (th s i).pc = some k' ↔ k' = k := by
    intro k'; rw [hpc]; simp [pcKey, eq_comm]
  have hnodek : ∀ n', pcNode (th s i).pc = some n' ↔ n' = nd := by
    intro n'; rw [hpc]; simp [pcNode, eq_comm]
  by_cases hcas : mnext s.heap idx (prev.getD idx 0) = obs.getD idx none
  · have cf := cas_facts h i nd k idx hh prev obs hpc hcas
    refine ⟨idsCas ids idx (prev.getD idx 0) nd, ?_, idsCas_sub ids idx (prev.getD idx 0) nd⟩
    by_cases hup : idx + 1 < hh
    · have hstep : step s i = setPc (casSt s idx (prev.getD idx 0) nd k) i (.setNext nd k (idx + 1) hh prev obs) := by
        unfold step casSt; simp only [hpc, if_pos hcas, if_pos hup]
      rw [hstep]
      apply minv_assemble (s' := setPc (casSt s idx (prev.getD idx 0) nd k) i (.setNext nd k (idx + 1) hh prev obs)) h i
        { th s i with pc := .setNext nd k (idx + 1) hh prev obs } hi rfl rfl cf.head cf.chains cf.empty cf.noHead cf.sub
        cf.tall cf.keys
      · exact ⟨hup, hhH, hpl, hol⟩
      · intro o ho
        simp only [thObls, obls, List.mem_append] at ho
        rcases ho with ho | ho
        · exact holds_insObls cf.own o ho
        · exact cf.pos o ho
      · exact cf.others
      · intro k' hk'; simp only [pcKey, Option.some.injEq] at hk'; exact Or.inl ((hkeyk k').mpr hk'.symm)
      · intro n' hn'; simp only [pcNode, Option.some.injEq] at hn'; exact Or.inl ((hnodek n').mpr hn'.symm)
    · have hstep : step s i = setPc { casSt s idx (prev.getD idx 0) nd k with returned := k :: s.returned } i .idle := by
        unfold step casSt; simp only [hpc, if_pos hcas, if_neg hup]
      rw [hstep]
      apply minv_assemble (s' := setPc { casSt s idx (prev.getD idx 0) nd k with returned := k :: s.returned } i .idle) h i
        { th s i with pc := .idle } hi rfl rfl cf.head cf.chains cf.empty cf.noHead cf.sub cf.tall cf.keys
      · trivial
      · intro o ho
        simp only [thObls, obls, List.nil_append] at ho
        exact cf.pos o ho
      · exact cf.others
      · intro k' hk'; simp [pcKey] at hk'
      · intro n' hn'; simp [pcNode] at hn'
  · refine ⟨ids, ?_, fun _ _ hx => hx⟩
    have hstep : step s i = setPc s i (.adv nd k idx hh prev obs) := by
      unfold step; simp only [hpc, if_neg hcas]
    rw [hstep]
    apply minv_setPc h i _ hi
    · exact ⟨hidx, hhH, hpl, hol⟩
    · intro o ho
      simp only [obls] at ho
      exact own_obl h i hpc o (by simp only [obls, List.mem_cons]; exact Or.inr ho)
    · intro k' hk'; simp only [pcKey, Option.some.injEq] at hk'; exact Or.inl ((hkeyk k').mpr hk'.symm)
    · intro n' hn'; simp only [pcNode, Option.some.injEq] at hn'; exact (hnodek n').mpr hn'.symm

/-- **every step of every thread keeps the invariant; the chains only grow** -/
theorem inv_step {s : St} {ids} (h : MInv s ids) (i : Nat) :
    ∃ ids', MInv (step s i) ids' ∧ ∀ l x, x ∈ ids l → x ∈ ids' l := by
  have same : MInv (step s i) ids → ∃ ids', MInv (step s i) ids' ∧ ∀ l x, x ∈ ids l → x ∈ ids' l :=
    fun h' => ⟨ids, h', fun _ _ hx => hx⟩
  cases hpc : (th s i).pc with
  | idle => exact same (by unfold step; simp only [hpc]; exact h)
  | panicked => exact same (by unfold step; simp only [hpc]; exact h)
  | search k hh x lvl prev obs => exact same (inv_step_search h i k hh x lvl prev obs hpc)
  | alloc k hh prev obs => exact same (inv_step_alloc h i k hh prev obs hpc)
  | setNext nd k idx hh prev obs => exact same (inv_step_setNext h i nd k idx hh prev obs hpc)
  | cas nd k idx hh prev obs => exact inv_step_cas h i nd k idx hh prev obs hpc
  | adv nd k idx hh prev obs => exact same (inv_step_adv h i nd k idx hh prev obs hpc)
  | geq k x lvl c => exact same (inv_step_geq h i k x lvl c hpc)
  | lt k x lvl => exact same (inv_step_lt h i k x lvl hpc)
  | last x lvl => exact same (inv_step_last h i x lvl hpc)
  | nxt x => exact same (inv_step_nxt h i x hpc)

/-! ### operations begin -/

theorem setTh_of_le (s : St) (i : Nat) (t : Th) (h : s.ths.length ≤ i) : setTh s i t = s := by
  simp [setTh, List.set_eq_of_length_le h]

/-- a call that only sets the program counter of an idle thread -/
theorem minv_call {s : St} {ids} (h : MInv s ids) (i : Nat) (pc' : PC)
    (hpure : Pure s.H pc') (hown : ∀ o ∈ obls s.H pc', Holds s.heap s.inserted ids o)
    (hkey : ∀ k, pcKey pc' = some k → ∀ j, pcKey (th s j).pc ≠ some k) (hnode : pcNode pc' = none) :
    MInv (setPc s i pc') ids := by
  by_cases hi : i < s.ths.length
  · apply minv_setPc h i pc' hi hpure hown
    · intro k hk; exact Or.inr (fun j _ => hkey k hk j)
    · intro n hn; rw [hnode] at hn; cases hn
  · have : setPc s i pc' = s := setTh_of_le s i _ (by omega)
    rw [this]; exact h

/-- an insert may begin with a key that is neither linked nor being inserted -/
def InsertOk (s : St) (k : Nat) : Prop := k ∉ s.inserted ∧ ∀ j, pcKey (th s j).pc ≠ some k

theorem inv_callInsert {s : St} {ids} (h : MInv s ids) (i k hh : Nat) (hok : InsertOk s k) :
    MInv (callInsert s i k hh) ids := by
  unfold callInsert
  split
  · rename_i hc
    obtain ⟨_, hh0, hhH, hH⟩ := hc
    apply minv_call h i
    · exact ⟨hh0, hhH, by omega, by simp, by simp⟩
    · intro o ho
      simp only [obls, List.mem_cons, List.mem_nil_iff, or_false] at ho
      rcases ho with rfl | rfl | rfl | rfl
      · exact Or.inl rfl
      · intro j h1 h2; omega
      · intro j h1 h2; omega
      · exact hok.1
    · intro k' hk' j
      simp only [pcKey, Option.some.injEq] at hk'
      subst hk'
      exact hok.2 j
    · rfl
  · exact h

theorem inv_callSeek {s : St} {ids} (h : MInv s ids) (i k : Nat) : MInv (callSeek s i k) ids := by
  unfold callSeek
  split
  · rename_i hc
    apply minv_call h i
    · show s.H - 1 < s.H; omega
    · intro o ho
      simp only [obls, List.mem_cons, List.mem_nil_iff, or_false] at ho
      subst ho; exact Or.inl rfl
    · intro k' hk'; simp [pcKey] at hk'
    · rfl
  · exact h

theorem inv_callContains {s : St} {ids} (h : MInv s ids) (i k : Nat) : MInv (callContains s i k) ids := by
  unfold callContains
  split
  · rename_i hc
    apply minv_call h i
    · show s.H - 1 < s.H; omega
    · intro o ho
      simp only [obls, List.mem_cons, List.mem_nil_iff, or_false] at ho
      subst ho; exact Or.inl rfl
    · intro k' hk'; simp [pcKey] at hk'
    · rfl
  · exact h

theorem inv_callFirst {s : St} {ids} (h : MInv s ids) (i : Nat) : MInv (callFirst s i) ids := by
  unfold callFirst
  split
  · apply minv_call h i
    · trivial
    · intro o ho
      simp only [obls, List.mem_cons, List.mem_nil_iff, or_false] at ho
      subst ho; exact Or.inl rfl
    · intro k' hk'; simp [pcKey] at hk'
    · rfl
  · exact h

theorem inv_callLast {s : St} {ids} (h : MInv s ids) (i : Nat) : MInv (callLast s i) ids := by
  unfold callLast
  split
  · rename_i hc
    by_cases hi : i < s.ths.length
    · apply minv_pc_only h i _ hi
      · rw [hc]; trivial
      · intro o ho
        simp [thObls, hc, obls, posObls] at ho
      · intro k' hk'; rw [hc] at hk'; simp [pcKey] at hk'
      · intro n hn; rw [hc] at hn; simp [pcNode] at hn
    · rw [setTh_of_le s i _ (by omega)]; exact h
  · exact h

theorem inv_callNext {s : St} {ids} (h : MInv s ids) (i : Nat) : MInv (callNext s i) ids := by
  unfold callNext
  split
  · cases hp : (th s i).pos with
    | none => exact h
    | some x =>
      simp only
      apply minv_call h i
      · trivial
      · intro o ho
        simp only [obls, List.mem_cons, List.mem_nil_iff, or_false] at ho
        subst ho; exact pos_ok h i x hp
      · intro k' hk'; simp [pcKey] at hk'
      · rfl
  · exact h

theorem inv_callPrev {s : St} {ids} (h : MInv s ids) (i : Nat) : MInv (callPrev s i) ids := by
  unfold callPrev
  split
  · rename_i hc
    cases hp : (th s i).pos with
    | none =>
      simp only
      apply minv_call h i
      · show s.H - 1 < s.H; omega
      · intro o ho
        simp only [obls, List.mem_cons, List.mem_nil_iff, or_false] at ho
        subst ho; exact Or.inl rfl
      · intro k' hk'; simp [pcKey] at hk'
      · rfl
    | some x =>
      cases x with
      | zero => exact h
      | succ y =>
        simp only
        apply minv_call h i
        · show s.H - 1 < s.H; omega
        · intro o ho
          simp only [obls, List.mem_cons, List.mem_nil_iff, or_false] at ho
          subst ho; exact Or.inl rfl
        · intro k' hk'; simp [pcKey] at hk'
        · rfl
  · exact h

/-! ### the reachable states -/

theorem minv_init (H T : Nat) (hH : 0 < H) : MInv (init H T) (fun _ => []) := by
  have hth : ∀ i, th (init H T) i = {} := by
    intro i
    simp only [th, init, List.getD]
    cases hg : (List.replicate T ({} : Th))[i]? with
    | none => rfl
    | some t =>
      have := List.getElem?_eq_some_iff.mp hg
      obtain ⟨_, h2⟩ := this
      simp at h2
      simp [← h2]
  refine ⟨hH, ⟨⟨0, List.replicate H none⟩, rfl, (by simp [init])⟩, ?_, (fun _ _ => rfl), (fun _ hm => by cases hm),
    (fun _ _ hm => by cases hm), (fun _ _ hm => by cases hm), ?_, ?_, ?_, ?_, ?_⟩
  · intro l _
    have : mnext (init H T).heap l 0 = none := by
      simp [mnext, init, towerNext_replicate]
    rw [this]
    exact SChain.nil
  · intro k; simp [init]
  · intro i; rw [hth]; trivial
  · intro i o ho; rw [hth] at ho; simp [thObls, obls, posObls] at ho
  · intro a b _ k ha; rw [hth] at ha; simp [pcKey] at ha
  · intro a b _ n ha; rw [hth] at ha; simp [pcNode] at ha

/-- the states the skiplist can be in: any interleaving of any number of inserting and reading
    threads, one atomic access at a time; inserts begin with keys that are new -/
inductive Reach : St → Prop where
  | init (H T : Nat) : 0 < H → Reach (init H T)
  | insert {s : St} (i k h : Nat) : Reach s → InsertOk s k → Reach (callInsert s i k h)
  | seek {s : St} (i k : Nat) : Reach s → Reach (callSeek s i k)
  | contains {s : St} (i k : Nat) : Reach s → Reach (callContains s i k)
  | first {s : St} (i : Nat) : Reach s → Reach (callFirst s i)
  | last {s : St} (i : Nat) : Reach s → Reach (callLast s i)
  | next {s : St} (i : Nat) : Reach s → Reach (callNext s i)
  | prev {s : St} (i : Nat) : Reach s → Reach (callPrev s i)
  | step {s : St} (i : Nat) : Reach s → Reach (Blue.SkipML.step s i)

theorem reach_minv {s : St} (h : Reach s) : ∃ ids, MInv s ids := by
  induction h with
  | init H T hH => exact ⟨_, minv_init H T hH⟩
  | insert i k hh _ hok ih => obtain ⟨ids, hinv⟩ := ih; exact ⟨ids, inv_callInsert hinv i k hh hok⟩
  | seek i k _ ih => obtain ⟨ids, hinv⟩ := ih; exact ⟨ids, inv_callSeek hinv i k⟩
  | contains i k _ ih => obtain ⟨ids, hinv⟩ := ih; exact ⟨ids, inv_callContains hinv i k⟩
  | first i _ ih => obtain ⟨ids, hinv⟩ := ih; exact ⟨ids, inv_callFirst hinv i⟩
  | last i _ ih => obtain ⟨ids, hinv⟩ := ih; exact ⟨ids, inv_callLast hinv i⟩
  | next i _ ih => obtain ⟨ids, hinv⟩ := ih; exact ⟨ids, inv_callNext hinv i⟩
  | prev i _ ih => obtain ⟨ids, hinv⟩ := ih; exact ⟨ids, inv_callPrev hinv i⟩
  | step i _ ih =>
    obtain ⟨ids, hinv⟩ := ih
    obtain ⟨ids', hinv', _⟩ := inv_step hinv i
    exact ⟨ids', hinv'⟩

end Blue.SkipML
