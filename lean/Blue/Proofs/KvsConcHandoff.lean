import Blue.Proofs.KvsConc
/-! The hand-off between writers and the flush thread through the wait list (`Blue.KvsConc`): the
    flush thread links itself behind every writer that picked the memtable it has just rotated
    away, and goes on only as head of the list — so when it reads the immutable memtable to build
    the file, every one of those writers has inserted everything and returned, and nothing is ever
    inserted into a table that is being or has been flushed. -/
namespace Blue.KvsConc
open Blue.KvsWrite (Entry)

/-- position in the wait list: a writer with number `q` sorts before the flush ticket `q` (the
    rotation takes the current `seq_no` as the new memtable's number without consuming it first) -/
def Ticket.key : Ticket → Nat
  | .w q => 2 * q
  | .f m => 2 * m + 1

structure Hand (s : St) : Prop where
  mem_lt : s.memId < s.seqNo
  tbl_le : ∀ w ∈ s.writers, w.tbl ≤ s.memId
  /-- writers into the current memtable carry numbers beyond its own, all others do not -/
  tbl_seq : ∀ w ∈ s.writers, (w.tbl = s.memId → s.memId < w.seq) ∧ (w.tbl ≠ s.memId → w.seq ≤ s.memId)
  imm_lt : ∀ t, s.imm = some t → t < s.memId
  ksorted : (s.queue.map Ticket.key).Pairwise (· < ·)
  f_mem : ∀ m, Ticket.f m ∈ s.queue → m = s.memId ∧ s.sealed = false ∧ s.imm.isSome = true
  inst_sealed : s.installed = true → s.sealed = true
  /-- once the flush thread has passed the wait list, every writer into `imm` has returned -/
  sealed_done : s.sealed = true → ∀ t, s.imm = some t → ∀ w ∈ s.writers, w.tbl = t → w.finished = true
  flushed_done : ∀ t ∈ s.flushed, ∀ w ∈ s.writers, w.tbl = t → w.finished = true
  flushed_lt : ∀ t ∈ s.flushed, t < s.memId

theorem hand_init (c : Bool) (seq mem : Nat) (h : mem < seq) : Hand (init c seq mem) := by
  refine ⟨h, ?_, ?_, ?_, ?_, ?_, ?_, ?_, ?_, ?_⟩ <;> simp [init]

theorem queue_cons_of_head {s : St} {t : Ticket} (h : s.queue.head? = some t) : ∃ tl, s.queue = t :: tl := by
  cases hq : s.queue with
  | nil => rw [hq] at h; cases h
  | cons a tl => rw [hq] at h; simp at h; exact ⟨tl, by rw [h]⟩

theorem hand_step {s s' : St} (hi : Inv s) (h : Hand s) (ev : Ev) (hs : step s ev = some s') : Hand s' := by
  cases ev with
  | wBegin seq tbl batch =>
    simp only [step] at hs
    split at hs
    · rename_i hc
      cases hs
      obtain ⟨hseq, htbl⟩ := hc
      have hml := h.mem_lt
      have memW : ∀ w, w ∈ s.writers ++ [(⟨seq, tbl, batch, false, batch⟩ : Writer)] →
          w ∈ s.writers ∨ w = ⟨seq, tbl, batch, false, batch⟩ := by
        intro w hw; rw [List.mem_append] at hw
        rcases hw with h1 | h1
        · exact Or.inl h1
        · simp at h1; exact Or.inr h1
      refine ⟨?_, ?_, ?_, h.imm_lt, ?_, ?_, h.inst_sealed, ?_, ?_, h.flushed_lt⟩
      · show s.memId < seq; omega
      · intro w hw
        rcases memW w hw with h1 | h1
        · exact h.tbl_le w h1
        · subst h1; show tbl ≤ s.memId; omega
      · intro w hw
        rcases memW w hw with h1 | h1
        · exact h.tbl_seq w h1
        · subst h1
          exact ⟨fun _ => by show s.memId < seq; omega, fun hne => absurd htbl hne⟩
      · show ((s.queue ++ [Ticket.w seq]).map Ticket.key).Pairwise (· < ·)
        rw [List.map_append, List.pairwise_append]
        refine ⟨h.ksorted, by simp, ?_⟩
        intro a ha b hb
        simp [Ticket.key] at hb; subst hb
        obtain ⟨t, ht, rfl⟩ := List.mem_map.mp ha
        cases t with
        | w q => have := hi.qbound q ht; simp only [Ticket.key]; omega
        | f m => have := (h.f_mem m ht).1; simp only [Ticket.key]; omega
      · intro m hm
        have hm' : Ticket.f m ∈ s.queue ++ [Ticket.w seq] := hm
        simp only [List.mem_append, List.mem_singleton] at hm'
        rcases hm' with h1 | h1
        · exact h.f_mem m h1
        · cases h1
      · intro hsl t ht w hw hwt
        rcases memW w hw with h1 | h1
        · exact h.sealed_done hsl t ht w h1 hwt
        · subst h1
          have := h.imm_lt t ht
          simp only at hwt; omega
      · intro t ht w hw hwt
        rcases memW w hw with h1 | h1
        · exact h.flushed_done t ht w h1 hwt
        · subst h1
          have := h.flushed_lt t ht
          simp only at hwt; omega
    · cases hs
  | wLog seq =>
    simp only [step] at hs
    split at hs
    · split at hs
      · cases hs
        exact ⟨h.mem_lt, h.tbl_le, h.tbl_seq, h.imm_lt, h.ksorted, h.f_mem, h.inst_sealed, h.sealed_done,
          h.flushed_done, h.flushed_lt⟩
      · cases hs
    · cases hs
  | wIns seq idx =>
    simp only [step] at hs
    split at hs
    · split at hs
      · rename_i k v rest _
        split at hs
        · cases hs
          refine ⟨h.mem_lt, ?_, ?_, h.imm_lt, h.ksorted, h.f_mem, h.inst_sealed, ?_, ?_, h.flushed_lt⟩
          · intro x hx
            obtain ⟨w, hw, rfl⟩ := mem_updWriter hx
            split <;> exact h.tbl_le w hw
          · intro x hx
            obtain ⟨w, hw, rfl⟩ := mem_updWriter hx
            split <;> exact h.tbl_seq w hw
          · intro hsl t ht x hx hxt
            obtain ⟨w, hw, rfl⟩ := mem_updWriter hx
            by_cases hws : w.seq = seq
            · simp only [hws, if_true] at hxt ⊢
              exact h.sealed_done hsl t ht w hw hxt
            · simp only [hws, if_false] at hxt ⊢
              exact h.sealed_done hsl t ht w hw hxt
          · intro t ht x hx hxt
            obtain ⟨w, hw, rfl⟩ := mem_updWriter hx
            by_cases hws : w.seq = seq
            · simp only [hws, if_true] at hxt ⊢
              exact h.flushed_done t ht w hw hxt
            · simp only [hws, if_false] at hxt ⊢
              exact h.flushed_done t ht w hw hxt
        · cases hs
      · cases hs
    · cases hs
  | wFin seq =>
    simp only [step] at hs
    split at hs
    · split at hs
      · rename_i hc
        cases hs
        obtain ⟨tl, htl⟩ := queue_cons_of_head hc.2.2.2
        refine ⟨h.mem_lt, ?_, ?_, h.imm_lt, ?_, ?_, h.inst_sealed, ?_, ?_, h.flushed_lt⟩
        · intro x hx
          obtain ⟨w, hw, rfl⟩ := mem_updWriter hx
          split <;> exact h.tbl_le w hw
        · intro x hx
          obtain ⟨w, hw, rfl⟩ := mem_updWriter hx
          split <;> exact h.tbl_seq w hw
        · show (s.queue.tail.map Ticket.key).Pairwise (· < ·)
          have := h.ksorted
          rw [htl, List.map_cons, List.pairwise_cons] at this
          rw [htl]; exact this.2
        · intro m hm
          exact h.f_mem m (mem_of_mem_tail' hm)
        · intro hsl t ht x hx hxt
          obtain ⟨w, hw, rfl⟩ := mem_updWriter hx
          by_cases hws : w.seq = seq
          · simp only [hws, if_true]
          · simp only [hws, if_false] at hxt ⊢
            exact h.sealed_done hsl t ht w hw hxt
        · intro t ht x hx hxt
          obtain ⟨w, hw, rfl⟩ := mem_updWriter hx
          by_cases hws : w.seq = seq
          · simp only [hws, if_true]
          · simp only [hws, if_false] at hxt ⊢
            exact h.flushed_done t ht w hw hxt
      · cases hs
    · cases hs
  | fRotate n o =>
    simp only [step] at hs
    split at hs
    · rename_i hc
      cases hs
      obtain ⟨himm, _, hn⟩ := hc
      have hml := h.mem_lt
      have nof : ∀ m, Ticket.f m ∉ s.queue := by
        intro m hm
        have := (h.f_mem m hm).2.2
        rw [himm] at this; cases this
      refine ⟨?_, ?_, ?_, ?_, ?_, ?_, ?_, ?_, h.flushed_done, ?_⟩
      · show n < s.seqNo + 1; omega
      · intro w hw
        show w.tbl ≤ n
        have := h.tbl_le w hw; omega
      · intro w hw
        show (w.tbl = n → n < w.seq) ∧ (w.tbl ≠ n → w.seq ≤ n)
        have h1 := h.tbl_le w hw
        have h2 := hi.wbound w hw
        exact ⟨fun he => by omega, fun _ => by omega⟩
      · intro t ht
        show t < n
        have : t = s.memId := by
          have ht' : some s.memId = some t := ht
          cases ht'; rfl
        omega
      · show ((s.queue ++ [Ticket.f n]).map Ticket.key).Pairwise (· < ·)
        rw [List.map_append, List.pairwise_append]
        refine ⟨h.ksorted, by simp, ?_⟩
        intro a ha b hb
        simp [Ticket.key] at hb; subst hb
        obtain ⟨t, ht, rfl⟩ := List.mem_map.mp ha
        cases t with
        | w q => have := hi.qbound q ht; simp only [Ticket.key]; omega
        | f m => exact absurd ht (nof m)
      · intro m hm
        have hm' : Ticket.f m ∈ s.queue ++ [Ticket.f n] := hm
        simp only [List.mem_append, List.mem_singleton] at hm'
        rcases hm' with h1 | h1
        · exact absurd h1 (nof m)
        · cases h1; exact ⟨rfl, rfl, rfl⟩
      · intro hinst; cases hinst
      · intro hsl; cases hsl
      · intro t ht
        show t < n
        have := h.flushed_lt t ht; omega
    · cases hs
  | fHead m =>
    simp only [step] at hs
    split at hs
    · rename_i hc
      cases hs
      obtain ⟨hhead, hmem, _, _⟩ := hc
      obtain ⟨tl, htl⟩ := queue_cons_of_head hhead
      have hks := h.ksorted
      rw [htl, List.map_cons, List.pairwise_cons] at hks
      refine ⟨h.mem_lt, h.tbl_le, h.tbl_seq, h.imm_lt, ?_, ?_, fun _ => rfl, ?_, h.flushed_done, h.flushed_lt⟩
      · show (s.queue.tail.map Ticket.key).Pairwise (· < ·)
        rw [htl]; exact hks.2
      · intro m' hm'
        exfalso
        have hm2 : Ticket.f m' ∈ tl := by rw [htl] at hm'; exact hm'
        have h1 := (h.f_mem m' (by rw [htl]; exact List.mem_cons_of_mem _ hm2)).1
        have h2 := hks.1 _ (List.mem_map.mpr ⟨_, hm2, rfl⟩)
        simp only [Ticket.key] at h2
        omega
      · intro _ t ht w hw hwt
        cases hf : w.finished with
        | true => rfl
        | false =>
          exfalso
          have hq := hi.qall w hw hf
          rw [htl] at hq
          simp only [List.mem_cons] at hq
          rcases hq with h1 | h1
          · cases h1
          · have h2 := hks.1 _ (List.mem_map.mpr ⟨_, h1, rfl⟩)
            simp only [Ticket.key] at h2
            have h3 := h.imm_lt t ht
            have h4 := (h.tbl_seq w hw).2 (by omega)
            omega
    · cases hs
  | fInstall o vid =>
    simp only [step] at hs
    split at hs
    · rename_i hc
      cases hs
      refine ⟨h.mem_lt, h.tbl_le, h.tbl_seq, h.imm_lt, h.ksorted, h.f_mem, fun _ => hc.2.1, h.sealed_done, ?_, ?_⟩
      · intro t ht w hw hwt
        have ht' : t ∈ o :: s.flushed := ht
        simp only [List.mem_cons] at ht'
        rcases ht' with rfl | h1
        · exact h.sealed_done hc.2.1 t hc.1 w hw hwt
        · exact h.flushed_done t h1 w hw hwt
      · intro t ht
        have ht' : t ∈ o :: s.flushed := ht
        simp only [List.mem_cons] at ht'
        rcases ht' with rfl | h1
        · exact h.imm_lt t hc.1
        · exact h.flushed_lt t h1
    · cases hs
  | fClear o =>
    simp only [step] at hs
    split at hs
    · rename_i hc
      cases hs
      have hsl := h.inst_sealed hc.2
      refine ⟨h.mem_lt, h.tbl_le, h.tbl_seq, ?_, h.ksorted, ?_, ?_, ?_, h.flushed_done, h.flushed_lt⟩
      · intro t ht; cases ht
      · intro m hm
        have := (h.f_mem m hm).2.1
        rw [hsl] at this; cases this
      · intro hinst; cases hinst
      · intro hs'; cases hs'
    · cases hs
  | rSnap rid ts mem imm =>
    simp only [step] at hs
    split at hs
    · split at hs
      · cases hs
        exact ⟨h.mem_lt, h.tbl_le, h.tbl_seq, h.imm_lt, h.ksorted, h.f_mem, h.inst_sealed, h.sealed_done,
          h.flushed_done, h.flushed_lt⟩
      · cases hs
    · cases hs
  | tInstall vid =>
    simp only [step] at hs
    split at hs
    · cases hs
      exact ⟨h.mem_lt, h.tbl_le, h.tbl_seq, h.imm_lt, h.ksorted, h.f_mem, h.inst_sealed, h.sealed_done,
        h.flushed_done, h.flushed_lt⟩
    · cases hs
  | rTree rid vid =>
    simp only [step] at hs
    split at hs
    · cases hs
      exact ⟨h.mem_lt, h.tbl_le, h.tbl_seq, h.imm_lt, h.ksorted, h.f_mem, h.inst_sealed, h.sealed_done,
        h.flushed_done, h.flushed_lt⟩
    · cases hs
  | wFail seq =>
    simp only [step] at hs
    split at hs
    · split at hs
      · cases hs
        have sub : ∀ w, w ∈ s.writers.filter (fun w => decide (w.seq ≠ seq)) → w ∈ s.writers :=
          fun w hw => (List.mem_filter.mp hw).1
        refine ⟨h.mem_lt, fun w hw => h.tbl_le w (sub w hw), fun w hw => h.tbl_seq w (sub w hw), h.imm_lt, ?_, ?_,
          h.inst_sealed, ?_, ?_, h.flushed_lt⟩
        · exact List.Pairwise.sublist (List.Sublist.map _ List.filter_sublist) h.ksorted
        · intro m hm; exact h.f_mem m (List.mem_filter.mp hm).1
        · intro hsl t ht w hw hwt; exact h.sealed_done hsl t ht w (sub w hw) hwt
        · intro t ht w hw hwt; exact h.flushed_done t ht w (sub w hw) hwt
      · cases hs
    · cases hs

theorem hand_run : ∀ (evs : List Ev) {s s' : St}, Inv s → Hand s → run s evs = some s' → Hand s'
  | [], s, s', _, h, hr => by simp only [run] at hr; cases hr; exact h
  | e :: es, s, s', hi, h, hr => by
    rw [run_cons] at hr
    split at hr
    · rename_i s1 hs1
      exact hand_run es (inv_step hi e hs1) (hand_step hi h e hs1) hr
    · cases hr

/-- **the wait-list hand-off**: whenever the flush thread has passed the wait list, every writer
    that picked the now immutable memtable has returned and the table holds its whole batch; the
    same for every table already in the version -/
theorem flushed_table_complete {c : Bool} {seq0 mem0 : Nat} (hm : mem0 < seq0) {evs : List Ev} {s : St}
    (hrun : run (init c seq0 mem0) evs = some s) (t : Nat)
    (ht : (s.sealed = true ∧ s.imm = some t) ∨ t ∈ s.flushed) :
    ∀ w ∈ s.writers, w.tbl = t → w.finished = true ∧
      ∀ kv ∈ w.batch, (t, (⟨kv.1, w.seq, kv.2⟩ : Entry)) ∈ s.ents := by
  have hi := inv_run evs (inv_init c seq0 mem0) hrun
  have h := hand_run evs (inv_init c seq0 mem0) (hand_init c seq0 mem0 hm) hrun
  intro w hw hwt
  have hf : w.finished = true := by
    rcases ht with ⟨h1, h2⟩ | h1
    · exact h.sealed_done h1 t h2 w hw hwt
    · exact h.flushed_done t h1 w hw hwt
  refine ⟨hf, ?_⟩
  intro kv hkv
  have htodo := hi.done w hw hf
  rcases hi.placed w hw kv hkv with h1 | h1
  · rw [htodo] at h1; cases h1
  · rw [← hwt]; exact h1

/-- … so no insert ever goes into a table the flush thread is reading or has written out -/
theorem insert_only_into_open_table {c : Bool} {seq0 mem0 : Nat} (hm : mem0 < seq0) {evs : List Ev} {s s' : St}
    (hrun : run (init c seq0 mem0) evs = some s) (seq idx : Nat) (w : Writer)
    (hf : findWriter s seq = some w) (hs : step s (.wIns seq idx) = some s') :
    (s.sealed = true → s.imm ≠ some w.tbl) ∧ w.tbl ∉ s.flushed := by
  have h := hand_run evs (inv_init c seq0 mem0) (hand_init c seq0 mem0 hm) hrun
  obtain ⟨hw, _⟩ := findWriter_some hf
  have hunf : w.finished = false := by
    simp only [step, hf] at hs
    split at hs
    · split at hs
      · rename_i hc; exact hc.1
      · cases hs
    · cases hs
  constructor
  · intro hsl himm
    have := h.sealed_done hsl _ himm w hw rfl
    rw [hunf] at this; cases this
  · intro hfl
    have := h.flushed_done _ hfl w hw rfl
    rw [hunf] at this; cases this

/-- the driver's monitor `insertsIntoOpenTable` never fires on a run of the model -/
theorem monitor_never_fires {c : Bool} {seq0 mem0 : Nat} (hm : mem0 < seq0) {evs : List Ev} {s s' : St}
    (hrun : run (init c seq0 mem0) evs = some s) (seq idx : Nat)
    (hs : step s (.wIns seq idx) = some s') : insertsIntoOpenTable s seq = true := by
  unfold insertsIntoOpenTable
  cases hf : findWriter s seq with
  | none => rfl
  | some w =>
    obtain ⟨h1, h2⟩ := insert_only_into_open_table hm hrun seq idx w hf hs
    simp only [Bool.and_eq_true, Bool.not_eq_true', Bool.and_eq_false_iff, beq_eq_false_iff_ne, ne_eq,
      List.contains_eq_mem, decide_eq_false_iff_not]
    refine ⟨?_, h2⟩
    cases hsl : s.sealed with
    | false => exact Or.inl rfl
    | true => exact Or.inr (h1 hsl)

end Blue.KvsConc
