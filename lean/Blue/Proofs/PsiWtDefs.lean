import Blue.Model.PsiWt
/-! Vocabulary of the proofs about `Blue.PsiWt`: the hypotheses on the input, the declarative
    description of what `construct` builds. -/
namespace Blue.PsiWt

/-- what `WaveletTreePsi::construct` is handed by `PsiDocument::construct`: ψ is a permutation of the
    ranks, `syms` (the first symbol of every rank) has one entry per rank and is non-decreasing, and
    ψ is increasing inside every symbol's column -/
structure Good (syms psi : List Nat) : Prop where
  perm : psi.Perm (List.range psi.length)
  len : syms.length = psi.length
  pos : 0 < psi.length
  mono : syms.Pairwise (· ≤ ·)
  inc : ∀ i j, i < j → j < psi.length → syms.getD i 0 = syms.getD j 0 → psi.getD i 0 < psi.getD j 0

/-- adjacent `(symbol, ψ)` pairs increase lexicographically -/
def adjOk : List (Nat × Nat) → Bool
  | a :: b :: t => (decide (a.1 < b.1) || (decide (a.1 = b.1) && decide (a.2 < b.2))) && adjOk (b :: t)
  | _ => true

def goodB (syms psi : List Nat) : Bool :=
  psi.isPerm (List.range psi.length) && decide (syms.length = psi.length) && decide (0 < psi.length)
    && adjOk (syms.zip psi)

/-- the symbols in ψ-value order: `L[v]` = first symbol of the rank whose ψ is `v` (the
    Burrows–Wheeler transform in the dense alphabet) -/
def bwt (syms ipsi : List Nat) : List Nat := ipsi.map (fun ip => syms.getD ip 0)

/-- the rows tile `0..n`: no row is empty and every row starts where the previous ones end -/
def Rows (table : List Ctx) : Prop :=
  (∀ c ∈ table, c.tree ≠ []) ∧
  ∀ (j : Nat) (h : j < table.length), table[j].start = (((table.take j).map (·.tree)).flatten).length

/-- `cells_by_sigma[σ]` for rows numbered from `j`: one cell `(row, count)` per row in which `σ` occurs -/
def rowCellsFrom (σ : Nat) : Nat → List Ctx → List (Nat × Nat)
  | _, [] => []
  | j, c :: t => (if 0 < c.tree.count σ then [(j, c.tree.count σ)] else []) ++ rowCellsFrom σ (j + 1) t

/-- `cells_by_sigma` after the last flush -/
def cellsSpec (k : Nat) (table : List Ctx) : List (List (Nat × Nat)) :=
  (List.range k).map (fun σ => rowCellsFrom σ 0 table)

/-- the structure `construct` builds over a given table of rows -/
def ofTable (k : Nat) (table : List Ctx) : WtPsi :=
  let flat := (cellsSpec k table).flatten
  let y := yArrays 0 flat
  ⟨table, Blue.Sampled.presentBits ((flat.map (·.2)).sum) y.1, y.2⟩

end Blue.PsiWt
