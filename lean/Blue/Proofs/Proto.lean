import Blue.Model.Proto
import Blue.Proofs.Wire
namespace Blue.Proto
open Blue.Wire

/-- a value of the field's type, in the range of its Rust type -/
def WfVal (f : Field) (v : Val) : Prop :=
  match f.ty, v with
  | .uint64, .num n => n < U64
  | .bytes, .bytes b => b.length < U64
  | .fixed32, .num n => n < 256 ^ 4
  | .fixed64, .num n => n < 256 ^ 8
  | _, _ => False

def payload (f : Field) (v : Val) : List Nat :=
  match f.ty, v with
  | .uint64, .num n => encVarint n
  | .bytes, .bytes b => encBytes b
  | .fixed32, .num n => leBytes 4 n
  | .fixed64, .num n => leBytes 8 n
  | _, _ => []

theorem encField_eq (f : Field) (v : Val) : encField f v = encTag ⟨f.num, f.ty.wt⟩ ++ payload f v := rfl

theorem leBytes_length : ∀ (k v : Nat), (leBytes k v).length = k
  | 0, _ => rfl
  | k+1, v => by simp [leBytes, leBytes_length k]

theorem fromLe_leBytes : ∀ (k v : Nat), v < 256 ^ k → fromLe (leBytes k v) = v
  | 0, v, h => by simp at h; subst h; rfl
  | k+1, v, h => by
    simp only [leBytes, fromLe]
    have : v / 256 < 256 ^ k := by
      rw [Nat.div_lt_iff_lt_mul (by omega)]
      calc v < 256 ^ (k + 1) := h
        _ = 256 ^ k * 256 := by rw [Nat.pow_succ]
    rw [fromLe_leBytes k _ this]
    omega

theorem fieldStep_fixed (n k : Nat) (wt : WT) (bs rest : List Nat) (hn : validFieldNumber n = true)
    (hb : bs.length = k) (hw : (wt = .thirtyTwo ∧ k = 4) ∨ (wt = .sixtyFour ∧ k = 8)) :
    fieldStep (encTag ⟨n, wt⟩ ++ bs ++ rest) = some ((⟨n, wt⟩, bs), rest) := by
  unfold fieldStep
  rw [List.append_assoc, decTag_enc ⟨n, wt⟩ hn]
  rcases hw with ⟨rfl, rfl⟩ | ⟨rfl, rfl⟩
  · simp only
    have hlen : ¬ ((bs ++ rest).length < 4) := by simp; omega
    rw [if_neg hlen, List.take_left' hb, List.drop_left' hb]
  · simp only
    have hlen : ¬ ((bs ++ rest).length < 8) := by simp; omega
    rw [if_neg hlen, List.take_left' hb, List.drop_left' hb]

/-- the field iterator hands each packed field's payload to its unpacker, and nothing else -/
theorem fieldStep_field (f : Field) (v : Val) (hn : validFieldNumber f.num = true) (hv : WfVal f v)
    (rest : List Nat) :
    fieldStep (encField f v ++ rest) = some ((⟨f.num, f.ty.wt⟩, payload f v), rest) := by
  rw [encField_eq]
  obtain ⟨num, ty⟩ := f
  cases ty <;> cases v <;> simp only [WfVal] at hv
  · exact fieldStep_varint num _ hn hv rest
  · exact fieldStep_bytes num _ hn hv rest
  · exact fieldStep_fixed num 4 .thirtyTwo _ rest hn (leBytes_length 4 _) (Or.inl ⟨rfl, rfl⟩)
  · exact fieldStep_fixed num 8 .sixtyFour _ rest hn (leBytes_length 8 _) (Or.inr ⟨rfl, rfl⟩)

theorem decPayload_payload (f : Field) (v : Val) (hv : WfVal f v) : decPayload f.ty (payload f v) = some v := by
  obtain ⟨num, ty⟩ := f
  cases ty <;> cases v <;> simp only [WfVal] at hv
  · have := decVarint_enc _ hv []
    simp only [List.append_nil] at this
    simp [decPayload, payload, this]
  · have := decBytes_enc _ hv []
    simp only [List.append_nil] at this
    simp [decPayload, payload, this]
  · simp only [decPayload, payload, leBytes_length, Nat.lt_irrefl, if_false]
    rw [List.take_of_length_le (by simp [leBytes_length]), fromLe_leBytes 4 _ hv]
  · simp only [decPayload, payload, leBytes_length, Nat.lt_irrefl, if_false]
    rw [List.take_of_length_le (by simp [leBytes_length]), fromLe_leBytes 8 _ hv]

/-- schema and values line up -/
inductive Wf : List Field → List Val → Prop where
  | nil : Wf [] []
  | cons {f fs v vs} : validFieldNumber f.num = true → WfVal f v → Wf fs vs → Wf (f :: fs) (v :: vs)

def items : List Field → List Val → List (Tag × List Nat)
  | f :: fs, v :: vs => (⟨f.num, f.ty.wt⟩, payload f v) :: items fs vs
  | _, _ => []

theorem encField_ne_nil (f : Field) (v : Val) : encField f v ≠ [] := by
  rw [encField_eq]; intro h; exact encTag_ne_nil _ (List.append_eq_nil_iff.mp h).1

theorem fields_pack : ∀ (S : List Field) (vs : List Val), Wf S vs → ∀ k,
    fields (k + S.length + 1) (pack S vs) = (items S vs, false) := by
  intro S vs h
  induction h with
  | nil => intro k; simp [pack, items, fields]
  | @cons f fs v vs hn hv _ ih =>
    intro k
    simp only [pack, items, List.length_cons]
    have hs := fieldStep_field f v hn hv (pack fs vs)
    have hne : encField f v ++ pack fs vs ≠ [] := by
      intro h; exact encField_ne_nil f v (List.append_eq_nil_iff.mp h).1
    have : k + (fs.length + 1) + 1 = (k + fs.length + 1) + 1 := by omega
    rw [this, fields_cons _ _ _ _ hne hs, ih k]

theorem wf_length {S : List Field} {vs : List Val} (h : Wf S vs) : vs.length = S.length := by
  induction h with
  | nil => rfl
  | cons _ _ _ ih => simp [ih]

/-- fields before the matching one are passed over -/
theorem mergeInto_skip (pre : List Field) (vpre : List Val) (hl : vpre.length = pre.length)
    (S : List Field) (acc : List Val) (fld : Tag × List Nat) (hne : ∀ g ∈ pre, g.num ≠ fld.1.num) :
    mergeInto (pre ++ S) (vpre ++ acc) fld = (mergeInto S acc fld).map (vpre ++ ·) := by
  induction pre generalizing vpre with
  | nil =>
    cases vpre with
    | nil => simp
    | cons a t => simp at hl
  | cons g gs ih =>
    cases vpre with
    | nil => simp at hl
    | cons a t =>
      simp only [List.cons_append, mergeInto]
      have hg : ¬ (g.num = fld.1.num ∧ g.ty.wt = fld.1.wt) := fun h => hne g (List.mem_cons_self ..) h.1
      rw [if_neg hg, ih t (by simpa using hl) (fun x hx => hne x (List.mem_cons_of_mem _ hx))]
      cases mergeInto S acc fld <;> rfl

theorem mergeInto_here (f : Field) (fs : List Field) (d v : Val) (ds : List Val) (hv : WfVal f v) :
    mergeInto (f :: fs) (d :: ds) (⟨f.num, f.ty.wt⟩, payload f v) = some (v :: ds) := by
  simp only [mergeInto, and_self, if_true, decPayload_payload f v hv, Option.map_some]

theorem merge_items : ∀ (suf : List Field) (vsuf : List Val), Wf suf vsuf →
    ∀ (pre : List Field) (vpre : List Val), vpre.length = pre.length →
      ((pre ++ suf).map (·.num)).Nodup →
      (items suf vsuf).foldl (fun acc fld => acc.bind (fun a => mergeInto (pre ++ suf) a fld))
        (some (vpre ++ suf.map (fun f => defaultVal f.ty))) = some (vpre ++ vsuf) := by
  intro suf vsuf h
  induction h with
  | nil => intro pre vpre _ _; simp [items]
  | @cons f fs v vs hn hv _ ih =>
    intro pre vpre hl hnd
    simp only [items, List.foldl_cons, List.map_cons, Option.bind_some]
    have hne : ∀ g ∈ pre, g.num ≠ (⟨f.num, f.ty.wt⟩ : Tag).num := by
      intro g hg heq
      rw [List.map_append, List.map_cons] at hnd
      have := (List.nodup_append.mp hnd).2.2 g.num (List.mem_map.mpr ⟨g, hg, rfl⟩) f.num (List.mem_cons_self ..)
      exact this heq
    rw [mergeInto_skip pre vpre hl (f :: fs) _ _ hne, mergeInto_here f fs _ v _ hv]
    simp only [Option.map_some]
    have e1 : pre ++ f :: fs = (pre ++ [f]) ++ fs := by simp
    have e2 : vpre ++ v :: fs.map (fun f => defaultVal f.ty) = (vpre ++ [v]) ++ fs.map (fun f => defaultVal f.ty) := by simp
    have e3 : vpre ++ v :: vs = (vpre ++ [v]) ++ vs := by simp
    rw [e1, e2, e3]
    exact ih (pre ++ [f]) (vpre ++ [v]) (by simp [hl]) (by rw [← e1]; exact hnd)

theorem pack_length : ∀ {S : List Field} {vs : List Val}, Wf S vs → S.length ≤ (pack S vs).length := by
  intro S vs h
  induction h with
  | nil => simp [pack]
  | @cons f fs v vs _ _ _ ih =>
    simp only [pack, List.length_cons, List.length_append]
    have : 0 < (encField f v).length := List.length_pos_iff.mpr (encField_ne_nil f v)
    omega

/-- **C15** `message_roundtrip` for every flat schema: distinct valid field numbers, values in the
    range of their types — unpacking the packing returns the values -/
theorem unpack_pack (S : List Field) (vs : List Val) (h : Wf S vs) (hnd : (S.map (·.num)).Nodup) :
    unpack S (pack S vs) = some vs := by
  unfold unpack
  have hl := pack_length h
  obtain ⟨k, hk⟩ : ∃ k, (pack S vs).length + 1 = k + S.length + 1 := ⟨(pack S vs).length - S.length, by omega⟩
  rw [hk, fields_pack S vs h k]
  have := merge_items S vs h [] [] rfl (by simpa using hnd)
  simp only [List.nil_append] at this
  simp only [this]
  rfl

/-- **C15** unknown fields are skipped: a field whose (number, wire type) matches no field of the
    schema leaves the message being built unchanged — whatever its payload -/
theorem mergeInto_unknown : ∀ (schema : List Field) (acc : List Val) (fld : Tag × List Nat),
    (∀ f ∈ schema, ¬ (f.num = fld.1.num ∧ f.ty.wt = fld.1.wt)) → mergeInto schema acc fld = some acc
  | [], acc, fld, _ => by cases acc <;> rfl
  | f :: fs, [], fld, _ => rfl
  | f :: fs, v :: vs, fld, h => by
    simp only [mergeInto]
    rw [if_neg (h f List.mem_cons_self)]
    rw [mergeInto_unknown fs vs fld (fun g hg => h g (List.mem_cons_of_mem _ hg))]
    rfl

end Blue.Proto

#print axioms Blue.Proto.unpack_pack
