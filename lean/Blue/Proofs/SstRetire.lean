import Blue.Proofs.LogRetire
/-! SST retirement (C08: "an SST is moved to the trash only when no manifest state that a reopen can
    see lists it and its batches have another home"), on the file-system protocol of
    `Blue.StoreCrash` — the SST half of `Blue/Proofs/LogRetire.lean`.

    `SstRetireOk fs ops`: walking `ops` from `fs`, at every `sstTrash x` (the `rename sst/x → trash/`,
    in the code the last `unref_file` of an input when `install_version` drops the old version, which
    `apply_manifest_compaction` calls AFTER `self.mani.write().unwrap().apply(mani_edit)?`) the SST is
    `SstRetirable`: neither the DURABLE manifest nor the durable + pending one lists `x`, and every
    batch of `x` is in an SST that manifest lists and that is in `sst/`, whole and synced.  Holds of
    the op list of every history (`sstRetireOk_history`).  As positions in the op list:
    `sst_trashed_after_append_then_sync`.  The crash side is a reading of `crash_keeps_needed_files`. -/
namespace Blue.StoreCrash

/-- under the manifest `txs`, `x` is retired: not listed, and each of its batches is in a listed SST
    that is in `sst/`, whole and synced -/
def RetiredIn (txs : List Tx) (fs : Fs) (x : Name) : Prop :=
  x ∉ live txs ∧ ∀ b ∈ x, ∃ nm ∈ live txs, b ∈ nm ∧ find fs.sst nm = some ⟨nm, nm⟩

/-- SST `x` may be moved to the trash in `fs`: retired under the durable manifest (what a reopen
    after a power loss reads, model (b)) AND under the durable + pending one (model (a)) -/
def SstRetirable (fs : Fs) (x : Name) : Prop :=
  RetiredIn fs.maniDurable fs x ∧ RetiredIn (fs.maniDurable ++ fs.maniPending) fs x

instance (txs : List Tx) (fs : Fs) (x : Name) : Decidable (RetiredIn txs fs x) := by
  unfold RetiredIn; exact inferInstance
instance (fs : Fs) (x : Name) : Decidable (SstRetirable fs x) := by
  unfold SstRetirable; exact inferInstance

def sstGuard (fs : Fs) : Op → Prop
  | .sstTrash x => SstRetirable fs x
  | _ => True

/-- every `sstTrash` of the list is issued in a state in which the SST is retirable -/
def SstRetireOk : Fs → List Op → Prop
  | _, [] => True
  | fs, op :: ops => sstGuard fs op ∧ SstRetireOk (step fs op) ops

def NoSstTrash : Op → Prop
  | .sstTrash _ => False
  | _ => True

theorem sstRetireOk_append : ∀ (a b : List Op) (fs : Fs),
    SstRetireOk fs (a ++ b) ↔ SstRetireOk fs a ∧ SstRetireOk (run fs a) b
  | [], b, fs => ⟨fun h => ⟨trivial, h⟩, fun h => h.2⟩
  | op :: a, b, fs => by
    show sstGuard fs op ∧ SstRetireOk (step fs op) (a ++ b) ↔ (sstGuard fs op ∧ SstRetireOk (step fs op) a) ∧ SstRetireOk (run (step fs op) a) b
    rw [sstRetireOk_append a b (step fs op), and_assoc]

theorem sstRetireOk_noTrash : ∀ (ops : List Op) (fs : Fs), (∀ op ∈ ops, NoSstTrash op) → SstRetireOk fs ops
  | [], _, _ => trivial
  | op :: ops, fs, h => by
    refine ⟨?_, sstRetireOk_noTrash ops _ (fun o ho => h o (List.mem_cons_of_mem _ ho))⟩
    have := h op List.mem_cons_self
    cases op <;> first | trivial | exact this.elim

theorem sstRetireOk_at (pre post : List Op) (x : Name) (fs : Fs) (h : SstRetireOk fs (pre ++ .sstTrash x :: post)) :
    SstRetirable (run fs pre) x :=
  ((sstRetireOk_append pre _ fs).mp h).2.1

/-! ### which blocks rename an SST -/

theorem put_noSstTrash (kv : Kv) : ∀ op ∈ block kv .put, NoSstTrash op := by
  intro op hop
  simp only [block, List.mem_cons, List.not_mem_nil, or_false] at hop
  rcases hop with rfl | rfl | rfl <;> trivial

theorem flush_noSstTrash (kv : Kv) : ∀ op ∈ block kv .flush, NoSstTrash op := by
  intro op hop
  simp only [block] at hop
  split at hop
  · cases hop
  · simp only [List.cons_append, List.nil_append, List.mem_cons, List.not_mem_nil, or_false] at hop
    rcases hop with rfl | rfl | rfl | rfl | rfl | rfl | rfl | rfl <;> trivial

theorem reopen_noSstTrash (kv : Kv) : ∀ op ∈ block kv .reopen, NoSstTrash op := by
  intro op hop
  simp only [block] at hop
  split at hop
  · simp only [List.mem_cons, List.not_mem_nil, or_false] at hop
    rcases hop with rfl | rfl <;> trivial
  · simp only [List.cons_append, List.nil_append, List.mem_cons, List.not_mem_nil, or_false] at hop
    rcases hop with rfl | rfl | rfl | rfl | rfl | rfl | rfl | rfl <;> trivial

/-- the part of a compaction block before the renames: outputs written, synced, linked, temporaries
    unlinked, then the manifest transaction appended and synced -/
def compactHead (outs inputs : List Name) : List Op :=
  (outs.flatMap (fun o => [Op.tmpCreate o o, Op.tmpSync o]) ++ outs.map Op.link ++ outs.map Op.tmpUnlink)
    ++ [Op.maniAppend ⟨outs, inputs⟩, Op.maniSync]

theorem compact_split' (kv : Kv) (p : Name → Bool) (outs : List Name) (hv : validCompact kv p outs) :
    block kv (.compact p outs)
      = compactHead outs (kv.files.filter p) ++ (kv.files.filter p).map Op.sstTrash := by
  rw [compact_split kv p outs hv]; rfl

theorem compactHead_noSstTrash (outs inputs : List Name) : ∀ op ∈ compactHead outs inputs, NoSstTrash op := by
  intro op hop
  simp only [compactHead, List.mem_append, List.mem_flatMap, List.mem_map, List.mem_cons, List.not_mem_nil,
    or_false] at hop
  rcases hop with ((⟨o, _, rfl | rfl⟩ | ⟨o, _, rfl⟩) | ⟨o, _, rfl⟩) | rfl | rfl <;> trivial

/-! ### the renames of a list of SSTs -/

theorem run_trash_mani : ∀ (xs : List Name) (fs : Fs),
    (run fs (xs.map Op.sstTrash)).maniDurable = fs.maniDurable
    ∧ (run fs (xs.map Op.sstTrash)).maniPending = fs.maniPending
  | [], _ => ⟨rfl, rfl⟩
  | x :: xs, fs => by
    rw [List.map_cons, run_cons]
    exact run_trash_mani xs (step fs (.sstTrash x))

theorem run_trash_find {nm : Name} : ∀ (xs : List Name) (fs : Fs), nm ∉ xs →
    find (run fs (xs.map Op.sstTrash)).sst nm = find fs.sst nm
  | [], _, _ => rfl
  | x :: xs, fs, h => by
    rw [List.map_cons, run_cons, run_trash_find xs _ (fun hm => h (List.mem_cons_of_mem _ hm))]
    exact find_filter_ne (fun he => h (by rw [he]; exact List.mem_cons_self)) fs.sst

/-- renaming SSTs none of which the (synced, nothing pending) manifest lists and whose batches are
    all in listed, present, whole SSTs: every rename is guarded -/
theorem sstRetireOk_trashes (L : List Name) : ∀ (xs : List Name) (fs : Fs),
    fs.maniPending = [] → live fs.maniDurable = L →
    (∀ x ∈ xs, x ∉ L) →
    (∀ x ∈ xs, ∀ b ∈ x, ∃ nm ∈ L, b ∈ nm ∧ find fs.sst nm = some ⟨nm, nm⟩) →
    SstRetireOk fs (xs.map Op.sstTrash)
  | [], _, _, _, _, _ => trivial
  | x :: xs, fs, hp, hl, hnot, hcov => by
    have hx : RetiredIn fs.maniDurable fs x := by
      refine ⟨by rw [hl]; exact hnot x List.mem_cons_self, ?_⟩
      rw [hl]; exact hcov x List.mem_cons_self
    refine ⟨⟨hx, by rw [hp, List.append_nil]; exact hx⟩, ?_⟩
    refine sstRetireOk_trashes L xs (step fs (.sstTrash x)) hp hl
      (fun y hy => hnot y (List.mem_cons_of_mem _ hy)) ?_
    intro y hy b hb
    obtain ⟨nm, hnm, hbn, hf⟩ := hcov y (List.mem_cons_of_mem _ hy) b hb
    refine ⟨nm, hnm, hbn, ?_⟩
    show find (fs.sst.filter (fun e => e.1 ≠ x)) nm = _
    rw [find_filter_ne (fun he => hnot x List.mem_cons_self (by rw [← he]; exact hnm)) fs.sst]
    exact hf

/-! ### the compaction block -/

theorem input_not_live {kv : Kv} {p : Name → Bool} {outs : List Name} (hv : validCompact kv p outs)
    (x : Name) (hx : x ∈ kv.files.filter p) : x ∉ applyTx kv.files ⟨outs, kv.files.filter p⟩ := by
  intro hin
  unfold applyTx at hin
  rcases List.mem_append.mp hin with h1 | h1
  · have := (List.mem_filter.mp h1).2
    simp only [decide_eq_true_eq] at this
    exact this hx
  · exact hv.2 x h1 (List.mem_filter.mp hx).1

theorem input_batches_in_outputs {kv : Kv} {p : Name → Bool} {outs : List Name} (hv : validCompact kv p outs)
    (x : Name) (hx : x ∈ kv.files.filter p) (b : Nat) (hb : b ∈ x) :
    ∃ o ∈ outs, b ∈ o ∧ o ∈ applyTx kv.files ⟨outs, kv.files.filter p⟩ := by
  have : b ∈ outs.flatten := hv.1.mem_iff.mpr (List.mem_flatten.mpr ⟨x, hx, hb⟩)
  obtain ⟨o, ho, hbo⟩ := List.mem_flatten.mp this
  exact ⟨o, ho, hbo, List.mem_append_right _ ho⟩

theorem sstRetireOk_compact {fs : Fs} {kv : Kv} (h : Inv fs kv) (p : Name → Bool) (outs : List Name) :
    SstRetireOk fs (block kv (.compact p outs)) := by
  by_cases hv : validCompact kv p outs
  · have hinv := Blue.StoreFault.inv_block h (.compact p outs)
    have hafter : after kv (.compact p outs) = { kv with files := applyTx kv.files ⟨outs, kv.files.filter p⟩ } := by
      simp only [after, if_pos hv]
    rw [compact_split' kv p outs hv] at hinv ⊢
    rw [run_append] at hinv
    rw [hafter] at hinv
    let S := run fs (compactHead outs (kv.files.filter p))
    have hm := run_trash_mani (kv.files.filter p) S
    rw [sstRetireOk_append]
    refine ⟨sstRetireOk_noTrash _ _ (compactHead_noSstTrash _ _), ?_⟩
    refine sstRetireOk_trashes (applyTx kv.files ⟨outs, kv.files.filter p⟩) _ S ?_ ?_ (input_not_live hv) ?_
    · rw [← hm.2]; exact hinv.mp
    · rw [← hm.1]; exact hinv.md
    · intro x hx b hb
      obtain ⟨o, _, hbo, hoL⟩ := input_batches_in_outputs hv x hx b hb
      refine ⟨o, hoL, hbo, ?_⟩
      rw [← run_trash_find (kv.files.filter p) S (fun hin => input_not_live hv o hin hoL)]
      exact hinv.sst o hoL
  · have hb : block kv (.compact p outs) = [] := by simp only [block, if_neg hv]
    rw [hb]; trivial

/-- **every block**: put, flush, compaction, recovery -/
theorem sstRetireOk_block {fs : Fs} {kv : Kv} (h : Inv fs kv) (c : Client) : SstRetireOk fs (block kv c) := by
  cases c with
  | put => exact sstRetireOk_noTrash _ _ (put_noSstTrash kv)
  | flush => exact sstRetireOk_noTrash _ _ (flush_noSstTrash kv)
  | reopen => exact sstRetireOk_noTrash _ _ (reopen_noSstTrash kv)
  | compact p outs => exact sstRetireOk_compact h p outs

/-- **every history of the model's alphabet** (induction over blocks) -/
theorem sstRetireOk_history : ∀ (h : List Client) (fs : Fs) (kv : Kv), Inv fs kv → SstRetireOk fs (opsOf h kv)
  | [], _, _, _ => trivial
  | c :: cs, fs, kv, hi => by
    show SstRetireOk fs (block kv c ++ opsOf cs (after kv c))
    rw [sstRetireOk_append]
    exact ⟨sstRetireOk_block hi c, sstRetireOk_history cs _ _ (Blue.StoreFault.inv_block hi c)⟩

/-- **`sst_trashed_only_after_manifest_sync`**: in the op list of every history (puts, flushes,
    compactions of any selection of files into any outputs holding the same batches, recoveries —
    from any block-boundary state), at EVERY `rename sst/x → trash/` (every way of writing the list
    as `pre ++ sstTrash x :: post`) the program-order prefix `pre` has left the file system in a
    state where the durable — appended AND synced — manifest no longer lists `x`, the durable +
    pending one does not either, and every batch of `x` is in an SST those manifests list and that
    is in `sst/`, whole and synced. -/
theorem sst_trashed_only_after_manifest_sync (h : List Client) (fs : Fs) (kv : Kv) (hi : Inv fs kv)
    (pre post : List Op) (x : Name) (hsplit : opsOf h kv = pre ++ .sstTrash x :: post) :
    SstRetirable (run fs pre) x :=
  sstRetireOk_at pre post x fs (hsplit ▸ sstRetireOk_history h fs kv hi)

/-! ### program order: positions in the op list -/

theorem split_after_noSstTrash {A B pre post : List Op} {x : Name} (hA : ∀ op ∈ A, NoSstTrash op)
    (h : A ++ B = pre ++ Op.sstTrash x :: post) : ∃ c, pre = A ++ c ∧ B = c ++ Op.sstTrash x :: post := by
  rcases List.append_eq_append_iff.mp h with ⟨a', hpre, hB⟩ | ⟨c', hA', hc⟩
  · exact ⟨a', hpre, hB⟩
  · cases c' with
    | nil => exact ⟨[], by rw [hA', List.append_nil, List.append_nil], by simpa using hc.symm⟩
    | cons y c'' =>
      have hy : y = Op.sstTrash x := by
        have := congrArg List.head? hc
        simpa using this.symm
      have : NoSstTrash y := hA y (by rw [hA']; exact List.mem_append_right _ List.mem_cons_self)
      rw [hy] at this
      exact this.elim

/-- inside one block: a rename of an SST follows the append and the sync of the transaction that
    removes it and whose additions hold its batches -/
theorem block_trash_after_sync (kv : Kv) (c : Client) (pre post : List Op) (x : Name)
    (h : block kv c = pre ++ Op.sstTrash x :: post) :
    ∃ tx a b c', x ∈ tx.rms ∧ (∀ n ∈ x, ∃ o ∈ tx.adds, n ∈ o)
      ∧ pre = a ++ Op.maniAppend tx :: (b ++ Op.maniSync :: c') := by
  have none_of : ∀ {l : List Op}, (∀ op ∈ l, NoSstTrash op) → l = pre ++ Op.sstTrash x :: post → False := by
    intro l hl he
    have := hl (Op.sstTrash x) (by rw [he]; exact List.mem_append_right _ List.mem_cons_self)
    exact this
  cases c with
  | put => exact (none_of (put_noSstTrash kv) h).elim
  | flush => exact (none_of (flush_noSstTrash kv) h).elim
  | reopen => exact (none_of (reopen_noSstTrash kv) h).elim
  | compact p outs =>
    by_cases hv : validCompact kv p outs
    · rw [compact_split' kv p outs hv] at h
      obtain ⟨c', hpre, hB⟩ := split_after_noSstTrash (compactHead_noSstTrash _ _) h
      have hx : x ∈ kv.files.filter p := by
        have : Op.sstTrash x ∈ (kv.files.filter p).map Op.sstTrash := by
          rw [hB]; exact List.mem_append_right _ List.mem_cons_self
        obtain ⟨y, hy, he⟩ := List.mem_map.mp this
        cases he; exact hy
      refine ⟨⟨outs, kv.files.filter p⟩,
        outs.flatMap (fun o => [Op.tmpCreate o o, Op.tmpSync o]) ++ outs.map Op.link ++ outs.map Op.tmpUnlink,
        [], c', hx, ?_, ?_⟩
      · intro n hn
        obtain ⟨o, ho, hno, _⟩ := input_batches_in_outputs hv x hx n hn
        exact ⟨o, ho, hno⟩
      · rw [hpre, compactHead, List.append_assoc]; rfl
    · have hb : block kv (.compact p outs) = [] := by simp only [block, if_neg hv]
      rw [hb] at h
      exact absurd (congrArg List.length h) (by simp)

/-- **program order, every history from every client state**: every `rename sst/x → trash/` is
    preceded in the op list by a `maniAppend tx` whose transaction removes `x` and whose additions
    hold every batch of `x`, and — after that append, before the rename — by a `maniSync` -/
theorem sst_trashed_after_append_then_sync : ∀ (h : List Client) (kv : Kv) (pre post : List Op) (x : Name),
    opsOf h kv = pre ++ .sstTrash x :: post →
    ∃ tx a b c, x ∈ tx.rms ∧ (∀ n ∈ x, ∃ o ∈ tx.adds, n ∈ o)
      ∧ pre = a ++ Op.maniAppend tx :: (b ++ Op.maniSync :: c)
  | [], _, pre, post, x, h => by
    exact absurd (congrArg List.length h) (by simp [opsOf])
  | c :: cs, kv, pre, post, x, h => by
    have h' : block kv c ++ opsOf cs (after kv c) = pre ++ Op.sstTrash x :: post := h
    rcases List.append_eq_append_iff.mp h' with ⟨a', hpre, hB⟩ | ⟨c', hA', hc⟩
    · obtain ⟨tx, a, b, c2, h1, h2, h3⟩ := sst_trashed_after_append_then_sync cs (after kv c) a' post x hB
      exact ⟨tx, block kv c ++ a, b, c2, h1, h2, by rw [hpre, h3, List.append_assoc]⟩
    · cases c' with
      | nil =>
        have hB : opsOf cs (after kv c) = [] ++ Op.sstTrash x :: post := by simpa using hc.symm
        obtain ⟨tx, a, b, c2, _, _, h3⟩ := sst_trashed_after_append_then_sync cs (after kv c) [] post x hB
        exact absurd (congrArg List.length h3) (by simp)
      | cons y c'' =>
        have hy : y = Op.sstTrash x := by
          have := congrArg List.head? hc
          simpa using this.symm
        rw [hy] at hA'
        exact block_trash_after_sync kv c pre c'' x hA'

/-! ### the crash side, in the SST vocabulary -/

/-- **`crash_keeps_listed_ssts`**: at every crash point of every history, under both persistence
    models, every SST the manifest lists — the durable manifest under (b); the durable + pending one
    under (a) — is in `sst/` (so: not in the trash) and whole (its synced bytes under (b)) -/
theorem crash_keeps_listed_ssts (h : List Client) (n : Nat) :
    let g := run fs0 ((opsOf h kv0).take n)
    (∀ nm ∈ live g.maniDurable, (find g.sst nm).map (·.durable) = some nm)
    ∧ (∀ nm ∈ live (g.maniDurable ++ g.maniPending), (find g.sst nm).map (·.data) = some nm) :=
  ⟨(crash_keeps_needed_files h n).1.1, (crash_keeps_needed_files h n).2.1⟩

/-- … and the batches of an SST that HAS been renamed (is no longer in `sst/`) are, at every later
    crash point, in listed SSTs that are in `sst/` and whole: an acknowledged batch in no log has a
    listed, present, whole SST (`crash_after_retire_has_sst`); here for the batches of a trashed
    input at the moment of its rename and after the whole history prefix -/
theorem trashed_sst_batches_listed (h : List Client) (pre post : List Op) (x : Name)
    (hsplit : opsOf h kv0 = pre ++ .sstTrash x :: post) :
    let g := run fs0 (pre ++ [.sstTrash x])
    x ∉ live g.maniDurable ∧ ∀ b ∈ x, ∃ nm ∈ live g.maniDurable, b ∈ nm ∧ find g.sst nm = some ⟨nm, nm⟩ := by
  obtain ⟨⟨hnot, hcov⟩, _⟩ := sst_trashed_only_after_manifest_sync h fs0 kv0 inv0 pre post x hsplit
  rw [run_append]
  refine ⟨hnot, fun b hb => ?_⟩
  obtain ⟨nm, hnm, hbn, hf⟩ := hcov b hb
  refine ⟨nm, hnm, hbn, ?_⟩
  show find ((run fs0 pre).sst.filter (fun e => e.1 ≠ x)) nm = _
  rw [find_filter_ne (fun he => hnot (by rw [← he]; exact hnm))]
  exact hf

/-! ### the swapped order -/

/-- the compaction with the renames of the inputs moved above the manifest sync (the edit is
    appended, not yet synced): outputs written, synced, linked; `maniAppend`; inputs → trash;
    `maniSync` -/
def compactSwapped (outs inputs : List Name) : List Op :=
  (outs.flatMap (fun o => [Op.tmpCreate o o, Op.tmpSync o]) ++ outs.map Op.link ++ outs.map Op.tmpUnlink)
    ++ [Op.maniAppend ⟨outs, inputs⟩] ++ inputs.map Op.sstTrash ++ [Op.maniSync]

/-- **the swapped order loses an SST the durable manifest lists**: put, flush, put, flush (two SSTs
    `[0]`, `[1]`, both batches acknowledged), then the swapped compaction into `[1, 0]`.  The first
    input is renamed (position 27) in a state where it is not retirable — the durable manifest still
    lists it —; a crash right after that rename, or after both renames (before the sync), leaves a
    directory whose durable manifest names a file that is in the trash: the reopen FAILS under model
    (b) (`none`), although nothing failed before the crash; after the sync it would have succeeded.
    The real order at the same cuts reopens with both batches, and both its renames (positions 28,
    29) are guarded. -/
theorem swapped_order_loses_sst :
    let pre := opsOf [.put, .flush, .put, .flush] kv0
    let ops := pre ++ compactSwapped [[1, 0]] [[0], [1]]
    let real := opsOf [.put, .flush, .put, .flush, .compact (fun _ => true) [[1, 0]]] kv0
    ops[27]? = some (.sstTrash [0]) ∧ ops[28]? = some (.sstTrash [1]) ∧ ops[29]? = some .maniSync
    ∧ acked (ops.take 27) = 2
    ∧ ¬ SstRetirable (run fs0 (ops.take 27)) [0]
    ∧ [0] ∈ live (run fs0 (ops.take 28)).maniDurable ∧ find (run fs0 (ops.take 28)).sst [0] = none
    ∧ recoverB (run fs0 (ops.take 28)) = none
    ∧ recoverB (run fs0 (ops.take 29)) = none
    ∧ recoverB (run fs0 ops) = some [1, 0]
    ∧ real[28]? = some (.sstTrash [0]) ∧ real[29]? = some (.sstTrash [1])
    ∧ SstRetirable (run fs0 (real.take 28)) [0] ∧ SstRetirable (run fs0 (real.take 29)) [1]
    ∧ recoverB (run fs0 (real.take 28)) = some [1, 0]
    ∧ recoverB (run fs0 (real.take 29)) = some [1, 0]
    ∧ recoverB (run fs0 (real.take 27)) = some [0, 1] := by
  decide

end Blue.StoreCrash

#print axioms Blue.StoreCrash.sst_trashed_only_after_manifest_sync
#print axioms Blue.StoreCrash.sst_trashed_after_append_then_sync
#print axioms Blue.StoreCrash.crash_keeps_listed_ssts
#print axioms Blue.StoreCrash.trashed_sst_batches_listed
#print axioms Blue.StoreCrash.swapped_order_loses_sst
