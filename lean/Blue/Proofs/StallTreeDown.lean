import Blue.Proofs.StallTree
import Blue.Proofs.ApplyLater
/-! **C20** the two per-install hypotheses of `stalled_ingest_released` (`downSt`, `outsOK`) derived.

* `nextCompaction_origin_seed`: `nextCompaction_origin` with the file the range `compute_bounds` is
  started from (a file of `lower_level` inside the range);
* `nextCompaction_moves_down`: on a tree with `Inv` whose files hold a version each
  (`NonEmptyFiles`), every answer of the selector has an input holding a version at a level above
  its output level: `movesDown t c = true`;
* `moves_down_stable_ingest` / `moves_down_stable_apply`: that is kept by `Version::ingest` and by
  the install of a compaction `may_choose_compaction` lets be in flight together with it;
* `outsOK_of_merge`: an install whose outputs hold every version once and hold input versions only
  adds no version: `noNewVers`;
* `downSt_along_run`, `outsOK_along_run`, `stalled_ingest_released_from_selector`. -/
namespace Blue.NextCompaction

/-- every file of the tree holds a version.  True of every file the store writes: a table is
    only cut after an entry has been written to it (`multi_builder_no_empty_file`, C10), and
    `Version::ingest` / `apply_compaction` only place files the store wrote -/
def NonEmptyFiles (t : Tree) : Prop := ∀ l ∈ t, ∀ f ∈ l, f.vers ≠ []

theorem NonEmptyFiles.level {t : Tree} (h : NonEmptyFiles t) {i : Nat} {f : File} (hf : f ∈ level t i) :
    f.vers ≠ [] := by
  obtain ⟨l, hl, hfl⟩ := mem_level hf
  exact h l (List.mem_of_getElem? hl) f hfl

/-- `nextCompaction_origin` with the seed of the range: `compute_bounds` is started from a range
    that covers a file of `lower_level` (level 0: the hull of the non-empty level 0; below: the
    range of the file the loop is at) -/
theorem nextCompaction_origin_seed (n : Num) (o : Opts) (t : Tree) (og : List Core) (Q : Core → Prop)
    (hT : ∀ lower f c, (lower = 0 → oldest (level t 0) = some f) → (0 < lower → f ∈ level t lower) →
      trivialOne o og t lower f = some c → Q c)
    (hB : ∀ lower first last d sz,
      (lower = 0 → first = minKey ((level t 0).map (·.first)) ∧ last = maxKey ((level t 0).map (·.last))) →
      (∃ g ∈ level t lower, first ≤ g.first ∧ g.last ≤ last) →
      1 ≤ d → lower + d < t.length →
      mayChoose o og (candOver o t lower (computeBounds t lower first last) d sz) = true →
      Q (candOver o t lower (computeBounds t lower first last) d sz))
    {c : Core} (h : nextCompaction n o t og = some c) : Q c := by
  have hF : ∀ lower first last c sc,
      (lower = 0 → first = minKey ((level t 0).map (·.first)) ∧ last = maxKey ((level t 0).map (·.last))) →
      (∃ g ∈ level t lower, first ≤ g.first ∧ g.last ≤ last) →
      findBest o og t lower (computeBounds t lower first last) = (some c, sc) → Q c := by
    intro lower first last c sc hh hfl hfb
    exact findBest_origin o og t lower _ Q (fun d sz h1 h2 _ _ h5 => hB lower first last d sz hh hfl h1 h2 h5) hfb
  have noneQ : ∀ c, (none : Option Core) = some c → Q c := fun _ h => nomatch h
  unfold nextCompaction at h
  split at h
  · rename_i c' hfs
    cases h
    obtain ⟨lower, _, htm⟩ := firstSome_some _ _ _ hfs
    unfold trivialMove at htm
    split at htm
    · rename_i h0
      subst h0
      split at htm
      · cases htm
      · rename_i f hold
        exact hT 0 f c (fun _ => hold) (fun h => absurd h (Nat.lt_irrefl 0)) htm
    · rename_i h0
      obtain ⟨f, hf, hone⟩ := firstSome_some _ _ _ htm
      exact hT lower f c (fun h => absurd h h0) (fun _ => hf) hone
  · have hsel : (∀ c, ((deeperLevels t.length).foldl (levelStep n o og t) (l0Stage o og t)).cand = some c → Q c)
        ∧ (∀ c, ((deeperLevels t.length).foldl (levelStep n o og t) (l0Stage o og t)).mand = some c → Q c) := by
      apply foldl_inv (fun st : Sel => (∀ c, st.cand = some c → Q c) ∧ (∀ c, st.mand = some c → Q c))
      · unfold l0Stage
        split
        · exact ⟨noneQ, noneQ⟩
        · rename_i hne
          dsimp only
          have hseed : ∃ g ∈ level t 0, minKey ((level t 0).map (·.first)) ≤ g.first
              ∧ g.last ≤ maxKey ((level t 0).map (·.last)) := by
            cases hl : level t 0 with
            | nil => rw [hl] at hne; simp at hne
            | cons g gs =>
              have hg : g ∈ level t 0 := by rw [hl]; exact List.mem_cons_self
              have h1 := hull_covers t g hg
              rw [hl] at h1
              exact ⟨g, List.mem_cons_self, h1⟩
          split
          · rename_i c0 sc hfb
            have hq := hF 0 _ _ c0 sc (fun _ => ⟨rfl, rfl⟩) hseed hfb
            split
            · exact ⟨noneQ, fun c h => by cases h; exact hq⟩
            · exact ⟨fun c h => by cases h; exact hq, noneQ⟩
          · exact ⟨noneQ, noneQ⟩
      · intro st lower hlow hst
        have hpos : 0 < lower := by
          unfold deeperLevels at hlow
          obtain ⟨k, hk, rfl⟩ := List.mem_map.mp hlow
          rw [List.mem_range] at hk
          omega
        unfold levelStep
        split
        · exact hst
        · apply foldl_inv (fun st : Sel => (∀ c, st.cand = some c → Q c) ∧ (∀ c, st.mand = some c → Q c)) _ _ _ hst
          intro st' f hfm hst'
          unfold fileStep
          split
          · rename_i c0 sc hfb
            have hq := hF lower f.first f.last c0 sc (fun h => by omega)
              ⟨f, hfm, Nat.le_refl _, Nat.le_refl _⟩ hfb
            unfold fileUpdate
            by_cases hA : (mandatoryFlag o t && (level t lower).all (fun x => c0.inputs.contains x.id)
                && decide (c0.size < mandSize st')) = true
            · rw [if_pos hA]
              exact ⟨hst'.1, fun c h => by cases h; exact hq⟩
            · rw [if_neg hA]
              by_cases hB' : sc > st'.best
              · rw [if_pos hB']
                exact ⟨fun c h => by cases h; exact hq, hst'.2⟩
              · rw [if_neg hB']
                exact hst'
          · exact hst'
    dsimp only at h
    split at h
    · rename_i m hm
      cases h
      exact hsel.2 c hm
    · split at h
      · rename_i c' hc'
        split at h
        · cases h; exact hsel.1 c hc'
        · cases h
      · cases h

/-- **every answer of the selector has an input at a level above its output level**: a file of
    the tree at level `lower`, with `lower < upper` (the file of a trivial move; the file the range
    of `compute_bounds` was started from — `find_best_compaction` pushes the whole slice of
    `lower_level`, which holds it, and `expand_compaction` only adds) -/
theorem nextCompaction_input_above (n : Num) (o : Opts) (t : Tree) (og : List Core) (hinv : Inv t)
    {c : Core} (h : nextCompaction n o t og = some c) :
    c.lower < c.upper ∧ ∃ f ∈ level t c.lower, f.id ∈ c.inputs := by
  apply nextCompaction_origin_seed n o t og (fun c => c.lower < c.upper ∧ ∃ f ∈ level t c.lower, f.id ∈ c.inputs) ?_ ?_ h
  · intro lower f c h0 hpos hone
    obtain ⟨_, _, _, rfl, _⟩ := trivialOne_some hone
    have hf : f ∈ level t lower := by
      by_cases hl : lower = 0
      · subst hl
        obtain ⟨init, hinit⟩ := l0Search_oldest (h0 rfl)
        exact mem_l0Search.mp (by rw [hinit]; simp)
      · exact hpos (by omega)
    exact ⟨Nat.lt_succ_self _, f, hf, List.mem_singleton.mpr rfl⟩
  · intro lower first last d sz hh hseed hd hup _
    obtain ⟨g, hg, hg1, hg2⟩ := hseed
    have hhull : lower = 0 → ∀ g ∈ level t 0, first ≤ g.first ∧ g.last ≤ last := by
      intro h0 g hg
      obtain ⟨e1, e2⟩ := hh h0
      rw [e1, e2]; exact hull_covers t g hg
    have hb := computeBounds_ok hinv lower first last hhull
    have hwide : ((computeBounds t lower first last).getD lower ⟨0, 0, 0, 0⟩).first ≤ first
        ∧ last ≤ ((computeBounds t lower first last).getD lower ⟨0, 0, 0, 0⟩).last := by
      unfold computeBounds
      obtain ⟨hlen, _, h3, _⟩ := boundsLoop_spec lower t 0 first last
        (by
          intro k lvl hk h1
          rw [← level_of_get hk]
          exact ⟨hinv.sorted_level (by omega), hinv.wf_level k⟩)
        (by
          intro _ h0 lvl hk g hg
          rw [← level_of_get hk] at hg
          have := hhull h0 g hg
          have := hinv.wf_level 0 g hg
          omega)
      apply h3 lower _ _ (by omega)
      rw [List.getD_eq_getElem?_getD, List.getElem?_eq_getElem (by omega)]; rfl
    have hgw := hinv.wf_level lower g hg
    refine ⟨by show lower < lower + d; omega, g, hg, ?_⟩
    show g.id ∈ (candOver o t lower (computeBounds t lower first last) d sz).inputs
    unfold candOver expand
    dsimp only
    apply expandLoop_sub
    rw [mem_baseIds]
    refine ⟨0, by omega, ?_⟩
    have hin : g ∈ sliceFiles (level t lower) ((computeBounds t lower first last).getD lower ⟨0, 0, 0, 0⟩) :=
      ((hb.ok lower (Nat.le_refl _) (by omega)).takes g hg).mpr ⟨by omega, by omega⟩
    show g.id ∈ sliceIds t (computeBounds t lower first last) lower
    unfold sliceIds
    exact List.mem_map.mpr ⟨g, hin, rfl⟩

end Blue.NextCompaction

namespace Blue.StallTree
open Blue.NextCompaction

/-! ## `movesDown` as a statement about the files of the tree -/

theorem movesDownFrom_iff (c : Core) (t : Tree) (k : Nat) :
    movesDownFrom c k t = true ↔
      ∃ i l f, t[i]? = some l ∧ f ∈ l ∧ c.lower ≤ k + i ∧ k + i < c.upper ∧ f.id ∈ c.inputs ∧ f.vers ≠ [] := by
  induction t generalizing k with
  | nil => simp [movesDownFrom]
  | cons l r ih =>
    simp only [movesDownFrom, Bool.or_eq_true, Bool.and_eq_true, decide_eq_true_eq, List.any_eq_true, ih (k + 1)]
    constructor
    · rintro (⟨hr, f, hf, hin, hne⟩ | ⟨i, l', f, hi, hf, h1, h2, h3, h4⟩)
      · refine ⟨0, l, f, rfl, hf, by omega, by omega, by simpa using hin, ?_⟩
        intro he; rw [he] at hne; cases hne
      · exact ⟨i + 1, l', f, by simpa using hi, hf, by omega, by omega, h3, h4⟩
    · rintro ⟨i, l', f, hi, hf, h1, h2, h3, h4⟩
      cases i with
      | zero =>
        simp only [List.getElem?_cons_zero, Option.some.injEq] at hi
        subst hi
        left
        refine ⟨by omega, f, hf, by simpa using h3, ?_⟩
        cases hv : f.vers with
        | nil => exact absurd hv h4
        | cons a b => rfl
      | succ j =>
        right
        exact ⟨j, l', f, by simpa using hi, hf, by omega, by omega, h3, h4⟩

/-- `movesDown`: a file of the tree at a level of the compaction above its output level is an
    input and holds a version -/
theorem movesDown_iff (t : Tree) (c : Core) :
    movesDown t c = true ↔
      ∃ i f, f ∈ level t i ∧ c.lower ≤ i ∧ i < c.upper ∧ f.id ∈ c.inputs ∧ f.vers ≠ [] := by
  unfold movesDown
  rw [movesDownFrom_iff]
  constructor
  · rintro ⟨i, l, f, hi, hf, h1, h2, h3, h4⟩
    exact ⟨i, f, by rw [level_of_get hi]; exact hf, by omega, by omega, h3, h4⟩
  · rintro ⟨i, f, hf, h1, h2, h3, h4⟩
    obtain ⟨l, hl, hfl⟩ := mem_level hf
    exact ⟨i, l, f, hl, hfl, by omega, by omega, h3, h4⟩

/-- **(1)** every answer of `next_compaction` on a tree with `Inv` whose files hold a version each
    takes a version out of a level above its output level -/
theorem nextCompaction_moves_down (n : Num) (o : Opts) (t : Tree) (g : List Core) (hinv : Inv t)
    (hne : NonEmptyFiles t) {c : Core} (h : nextCompaction n o t g = some c) : movesDown t c = true := by
  obtain ⟨hlt, f, hf, hid⟩ := nextCompaction_input_above n o t g hinv h
  exact (movesDown_iff t c).mpr ⟨c.lower, f, hf, Nat.le_refl _, hlt, hid, hne.level hf⟩

/-! ## (3) an install of merged outputs adds no version -/

/-- the file is an input of the compaction -/
def isIn (c : Core) (f : File) : Bool := c.inputs.contains f.id

theorem vcLevel_append (a b : List File) : vcLevel (a ++ b) = vcLevel a + vcLevel b := by
  simp [vcLevel, List.map_append, List.sum_append]

theorem vcLevel_filter_split (p : File → Bool) (l : List File) :
    vcLevel (l.filter (fun f => !p f)) + vcLevel (l.filter p) = vcLevel l := by
  induction l with
  | nil => rfl
  | cons a r ih =>
    cases hp : p a <;> simp [hp, vcLevel] at ih ⊢ <;> omega

theorem vcLevel_eq_length (l : List File) : vcLevel l = (l.flatMap (·.vers)).length := by
  induction l with
  | nil => rfl
  | cons a r ih => simp [vcLevel, List.flatMap_cons] at ih ⊢; first | done | omega

theorem vcLevel_filter_nil (p : File → Bool) (l : List File) (h : ∀ f ∈ l, p f = false) :
    vcLevel (l.filter p) = 0 := by
  have : l.filter p = [] := List.filter_eq_nil_iff.mpr (fun a ha => by rw [h a ha]; simp)
  rw [this]; rfl

theorem length_le_of_nodup_subset {α : Type} [DecidableEq α] : ∀ (l₁ l₂ : List α), l₁.Nodup →
    (∀ x ∈ l₁, x ∈ l₂) → l₁.length ≤ l₂.length
  | [], _, _, _ => Nat.zero_le _
  | a :: r, l₂, hn, hs => by
    have ha : a ∈ l₂ := hs a List.mem_cons_self
    rw [List.nodup_cons] at hn
    have h := length_le_of_nodup_subset r (l₂.erase a) hn.2 (fun x hx =>
      (List.mem_erase_of_ne (by rintro rfl; exact hn.1 hx)).mpr (hs x (List.mem_cons_of_mem _ hx)))
    rw [List.length_erase_of_mem ha] at h
    have hpos : 0 < l₂.length := List.length_pos_of_mem ha
    simp only [List.length_cons]; omega

/-- one level: what `apply_compaction_inner` leaves, plus the inputs of the level, is at most what
    the level held (plus the outputs at the output level) -/
theorem vcLevel_applyLevel_add (c : Core) (outs : List File) (k : Nat) (l : List File)
    (_hlv : c.lower < c.upper) (hrange : c.first ≤ c.last)
    (hs : k = c.upper → SortedLevel l ∧ WfLevel l)
    (hat : ∀ f ∈ l, f.id ∈ c.inputs → c.lower ≤ k ∧ k ≤ c.upper ∧ c.first ≤ f.first ∧ f.last ≤ c.last) :
    vcLevel (applyLevel c outs k l) + vcLevel (l.filter (isIn c))
      ≤ vcLevel l + (if k = c.upper then vcLevel outs else 0) := by
  unfold applyLevel
  split
  · rename_i hr
    have hne : ¬ k = c.upper := by omega
    rw [if_neg hne]
    have := vcLevel_filter_split (isIn c) l
    unfold dropInputs
    unfold isIn at this ⊢
    omega
  · rename_i hr
    split
    · rename_i hu
      obtain ⟨hsl, hwl⟩ := hs hu
      have hab := lb_le_ub hsl hwl hrange
      unfold spliceUpper
      rw [vcLevel_append, vcLevel_append]
      -- the level in three parts
      have hsplit : l = l.take (lowerBound l c.first)
          ++ ((l.drop (lowerBound l c.first)).take (upperBound l c.last - lowerBound l c.first)
          ++ l.drop (upperBound l c.last)) := by
        have h1 : l.drop (upperBound l c.last)
            = (l.drop (lowerBound l c.first)).drop (upperBound l c.last - lowerBound l c.first) := by
          rw [List.drop_drop]; congr 1; omega
        rw [h1, List.take_append_drop, List.take_append_drop]
      have h0a : vcLevel ((l.take (lowerBound l c.first)).filter (isIn c)) = 0 := by
        apply vcLevel_filter_nil
        intro f hf
        have hm := (mem_take_lb hsl hwl c.first).mp hf
        cases hin : isIn c f with
        | false => rfl
        | true =>
          have := hat f hm.1 (by simpa [isIn] using hin)
          have := hwl f hm.1
          omega
      have h0b : vcLevel ((l.drop (upperBound l c.last)).filter (isIn c)) = 0 := by
        apply vcLevel_filter_nil
        intro f hf
        have hm := (mem_drop_ub hsl hwl c.last).mp hf
        cases hin : isIn c f with
        | false => rfl
        | true =>
          have := hat f hm.1 (by simpa [isIn] using hin)
          have := hwl f hm.1
          omega
      have hmid := vcLevel_filter_le (isIn c)
        ((l.drop (lowerBound l c.first)).take (upperBound l c.last - lowerBound l c.first))
      have e1 : vcLevel l = vcLevel (l.take (lowerBound l c.first))
          + (vcLevel ((l.drop (lowerBound l c.first)).take (upperBound l c.last - lowerBound l c.first))
          + vcLevel (l.drop (upperBound l c.last))) := by
        conv => lhs; rw [hsplit]
        rw [vcLevel_append, vcLevel_append]
      have e2 : vcLevel (l.filter (isIn c)) = vcLevel ((l.take (lowerBound l c.first)).filter (isIn c))
          + (vcLevel (((l.drop (lowerBound l c.first)).take (upperBound l c.last - lowerBound l c.first)).filter (isIn c))
          + vcLevel ((l.drop (upperBound l c.last)).filter (isIn c))) := by
        conv => lhs; rw [hsplit]
        rw [List.filter_append, List.filter_append, vcLevel_append, vcLevel_append]
      omega
    · rename_i hu
      have : vcLevel (l.filter (isIn c)) = 0 := by
        apply vcLevel_filter_nil
        intro f hf
        cases hin : isIn c f with
        | false => rfl
        | true =>
          have := hat f hf (by simpa [isIn] using hin)
          omega
      omega

theorem vtot_applyFrom_add (c : Core) (outs : List File) (hlv : c.lower < c.upper) (hrange : c.first ≤ c.last) :
    ∀ (t : Tree) (k : Nat),
    (∀ j l, t[j]? = some l → (k + j = c.upper → SortedLevel l ∧ WfLevel l)
      ∧ (∀ f ∈ l, f.id ∈ c.inputs → c.lower ≤ k + j ∧ k + j ≤ c.upper ∧ c.first ≤ f.first ∧ f.last ≤ c.last)) →
    vtot (applyFrom c outs k t) + vcLevel (t.flatten.filter (isIn c))
      ≤ vtot t + (if k ≤ c.upper then vcLevel outs else 0)
  | [], _, _ => by simp [applyFrom, vtot, vcLevel]
  | l :: r, k, h => by
    have h0 := h 0 l rfl
    have hl := vcLevel_applyLevel_add c outs k l hlv hrange h0.1 h0.2
    have hr := vtot_applyFrom_add c outs hlv hrange r (k + 1) (fun j l' hj => by
      have := h (j + 1) l' (by simpa using hj)
      have e : k + (j + 1) = k + 1 + j := by omega
      rw [e] at this; exact this)
    simp only [applyFrom, vtot, List.map_cons, List.sum_cons, List.flatten_cons, List.filter_append,
      vcLevel_append] at hr ⊢
    by_cases h1 : k = c.upper
    · have h2 : ¬ k + 1 ≤ c.upper := by omega
      have h3 : k ≤ c.upper := by omega
      rw [if_pos h1] at hl
      rw [if_neg h2] at hr
      rw [if_pos h3]
      omega
    · rw [if_neg h1] at hl
      by_cases h2 : k + 1 ≤ c.upper
      · rw [if_pos h2] at hr
        rw [if_pos (by omega : k ≤ c.upper)]
        omega
      · rw [if_neg h2] at hr
        rw [if_neg (by omega : ¬ k ≤ c.upper)]
        omega

/-- **(3)** an install adds no version when its outputs hold every version once (`once`: a merge
    emits each entry of its inputs at most once) and hold versions of its inputs only (`sub`: C01's
    merge hypothesis `hsub`), for a compaction admissible on the tree it is installed on.  GC drops
    are allowed; `OutsOk` is not needed for the count. -/
theorem outsOK_of_merge {t : Tree} {c : Core} {outs : List File} (hinv : Inv t) (hc : Chosen t c)
    (once : (outs.flatMap (·.vers)).Nodup)
    (sub : ∀ o ∈ outs, ∀ e ∈ o.vers, ∃ i f, f ∈ level t i ∧ f.id ∈ c.inputs ∧ e ∈ f.vers) :
    noNewVers t c outs = true := by
  have hsum := vtot_applyFrom_add c outs hc.levels hc.range t 0 (fun j l hj => by
    have hl : level t j = l := level_of_get hj
    subst hl
    refine ⟨fun hu => ⟨hinv.sorted_level (by have := hc.levels; omega), hinv.wf_level _⟩, fun f hf hid => ?_⟩
    have := hc.input_at hinv hf hid
    omega)
  rw [if_pos (Nat.zero_le _), ← applyCompaction_eq] at hsum
  have hle : vcLevel outs ≤ vcLevel (t.flatten.filter (isIn c)) := by
    rw [vcLevel_eq_length, vcLevel_eq_length]
    apply length_le_of_nodup_subset _ _ once
    intro e he
    obtain ⟨o, ho, heo⟩ := List.mem_flatMap.mp he
    obtain ⟨i, f, hf, hid, hef⟩ := sub o ho e heo
    refine List.mem_flatMap.mpr ⟨f, List.mem_filter.mpr ⟨mem_flatten_level.mpr ⟨i, hf⟩, ?_⟩, hef⟩
    simpa [isIn] using hid
  simp only [noNewVers, decide_eq_true_eq]
  omega

/-! ## (2) `movesDown` of a compaction in flight is kept until it is installed -/

theorem moves_down_stable_ingest {t : Tree} {c : Core} (f : File) (h : movesDown t c = true) :
    movesDown (ingest t f) c = true := by
  rw [movesDown_iff] at h ⊢
  obtain ⟨i, g, hg, r⟩ := h
  exact ⟨i, g, mem_level_ingest hg, r⟩

theorem moves_down_stable_apply {t : Tree} {c₁ c₂ : Core} {outs₁ : List File} (hinv : Inv t)
    (h1 : Chosen t c₁) (h2 : Chosen t c₂) (hno : overlapping c₁ c₂ = false) (h : movesDown t c₂ = true) :
    movesDown (applyCompaction t c₁ outs₁) c₂ = true := by
  rw [movesDown_iff] at h ⊢
  obtain ⟨i, g, hg, a, b, hid, hv⟩ := h
  refine ⟨i, g, (mem_level_apply hinv h1 outs₁).mpr (Or.inl ⟨hg, fun hg1 => ?_⟩), a, b, hid, hv⟩
  exact no_common_input hinv h1 h2 hno hg hg1 hid

/-- **(2)** `movesDown` of a compaction in flight survives a flush and the install of a compaction
    `may_choose_compaction` lets be in flight together with it (`overlapping = false`; the files it
    names stay in the tree: `no_common_input`) -/
theorem moves_down_stable {t : Tree} {c : Core} (h : movesDown t c = true) :
    (∀ f, movesDown (ingest t f) c = true)
    ∧ (∀ c₁ outs₁, Inv t → Chosen t c₁ → Chosen t c → overlapping c₁ c = false →
        movesDown (applyCompaction t c₁ outs₁) c = true) :=
  ⟨fun f => moves_down_stable_ingest f h, fun _ _ hinv h1 h2 hno => moves_down_stable_apply hinv h1 h2 hno h⟩

/-- the merge hypotheses on the outputs of an install (C01: `OutsOk`, `hsub`), with the two facts
    the count needs: every version is emitted once, no output file is empty
    (`multi_builder_no_empty_file`, C10) -/
structure MergeOuts (t : Tree) (c : Core) (outs : List File) : Prop where
  ok : OutsOk t c outs
  once : (outs.flatMap (·.vers)).Nodup
  sub : ∀ o ∈ outs, ∀ e ∈ o.vers, ∃ i f, f ∈ level t i ∧ f.id ∈ c.inputs ∧ e ∈ f.vers
  nonempty : ∀ o ∈ outs, o.vers ≠ []

/-- the side conditions of `Step.ingest` (C01) on a flushed file, and: it holds a version -/
def IngestOk (t : Tree) (f : File) : Prop :=
  (f.first ≤ f.last ∧ ∀ v ∈ f.vers, f.first ≤ v.1 ∧ v.1 ≤ f.last) ∧ (∀ l g, g ∈ level t l → g.id ≠ f.id)
    ∧ (∀ g ∈ level t 0, g.bts < f.bts) ∧ f.vers ≠ []

/-- what is asked of an event: of a file that IS ingested, `IngestOk`; of the outputs of an install
    that IS made, `MergeOuts` on the tree it is made on.  Nothing is asked of the selector. -/
def EvOk (cfg : Cfg) (s : St) : Ev → Prop
  | .ingest i f => s.ingesters[i]? = some Stall.TState.running → stalledT cfg s.tree = false → IngestOk s.tree f
  | .finish i outs => ∀ c, s.compactors[i]? = some (CState.inflight c) → MergeOuts s.tree c outs
  | _ => True

def EvOkAlong (cfg : Cfg) : St → List Ev → Prop
  | _, [] => True
  | s, ev :: r => EvOk cfg s ev ∧ EvOkAlong cfg (step cfg s ev) r

/-- the invariant of the runs: the tree invariant, no empty file, and every compaction in flight
    is admissible on the PRESENT tree, has an input holding a version above its output level there,
    and overlaps no other compaction in flight -/
structure Good (s : St) : Prop where
  inv : Inv s.tree
  ne : NonEmptyFiles s.tree
  chosen : ∀ (i : Nat) (c : Core), s.compactors[i]? = some (CState.inflight c) → Chosen s.tree c
  down : ∀ (i : Nat) (c : Core), s.compactors[i]? = some (CState.inflight c) → movesDown s.tree c = true
  apart : ∀ (i j : Nat) (a b : Core), i ≠ j → s.compactors[i]? = some (CState.inflight a) → s.compactors[j]? = some (CState.inflight b) →
    overlapping a b = false

theorem getElem?_wakeC_inflight {l : List CState} {i : Nat} {c : Core}
    (h : (wakeC l)[i]? = some (CState.inflight c)) : l[i]? = some (CState.inflight c) := by
  unfold wakeC at h
  rw [List.getElem?_map] at h
  cases hl : l[i]? with
  | none => rw [hl] at h; cases h
  | some a =>
    rw [hl] at h
    simp only [Option.map_some, Option.some.injEq] at h
    split at h
    · cases h
    · rw [h]

theorem getElem?_set_inflight {l : List CState} {i j : Nat} {x : CState} {c : Core}
    (h : (l.set i x)[j]? = some (CState.inflight c)) :
    (j = i ∧ x = CState.inflight c) ∨ (j ≠ i ∧ l[j]? = some (CState.inflight c)) := by
  rw [List.getElem?_set] at h
  split at h
  · rename_i hij
    split at h
    · left; exact ⟨hij.symm, Option.some.inj h⟩
    · cases h
  · rename_i hij
    right; exact ⟨fun e => hij e.symm, h⟩

theorem Good.shrink {s s' : St} (h : Good s) (ht : s'.tree = s.tree)
    (hc : ∀ (j : Nat) (c : Core), s'.compactors[j]? = some (CState.inflight c) → s.compactors[j]? = some (CState.inflight c)) : Good s' :=
  ⟨by rw [ht]; exact h.inv, by rw [ht]; exact h.ne,
   fun i c hi => by rw [ht]; exact h.chosen i c (hc i c hi),
   fun i c hi => by rw [ht]; exact h.down i c (hc i c hi),
   fun i j a b hij ha hb => h.apart i j a b hij (hc i a ha) (hc j b hb)⟩

theorem nonEmpty_ingest {t : Tree} {f : File} (h : NonEmptyFiles t) (hf : f.vers ≠ []) :
    NonEmptyFiles (ingest t f) := by
  cases t with
  | nil => exact h
  | cons l0 r =>
    intro l hl g hg
    rcases List.mem_cons.mp hl with rfl | hl'
    · rcases List.mem_append.mp hg with hg | hg
      · exact h l0 List.mem_cons_self g hg
      · simp only [List.mem_singleton] at hg; subst hg; exact hf
    · exact h l (List.mem_cons_of_mem _ hl') g hg

theorem nonEmpty_apply {t : Tree} {c : Core} {outs : List File} (hinv : Inv t) (hc : Chosen t c)
    (h : NonEmptyFiles t) (ho : ∀ o ∈ outs, o.vers ≠ []) : NonEmptyFiles (applyCompaction t c outs) := by
  intro l hl g hg
  obtain ⟨k, hk, rfl⟩ := List.getElem_of_mem hl
  have hg' : g ∈ level (applyCompaction t c outs) k := by
    rw [level_of_get (List.getElem?_eq_getElem hk)]; exact hg
  rcases (mem_level_apply hinv hc outs).mp hg' with ⟨h1, _⟩ | ⟨_, h1⟩
  · exact h.level h1
  · exact ho g h1

/-- the invariant is kept by every step whose ingested file / installed outputs are as the store
    makes them; the selection step uses `nextCompaction_chosen`, `nextCompaction_moves_down` and
    `nextCompaction_not_overlapping`, the others the stability lemmas -/
theorem good_step (cfg : Cfg) {s : St} (h : Good s) (ev : Ev) (hev : EvOk cfg s ev) : Good (step cfg s ev) := by
  cases ev with
  | ingest i f =>
    cases hg : s.ingesters[i]? with
    | none => have : step cfg s (.ingest i f) = s := by simp [step, hg]
              rw [this]; exact h
    | some a =>
      cases a with
      | inflight => have : step cfg s (.ingest i f) = s := by simp [step, hg]
                    rw [this]; exact h
      | waiting => have : step cfg s (.ingest i f) = s := by simp [step, hg]
                   rw [this]; exact h
      | running =>
        cases hst : stalledT cfg s.tree with
        | true =>
          have : step cfg s (.ingest i f) = { s with ingesters := s.ingesters.set i .waiting } := by
            simp [step, hg, hst]
          rw [this]; exact h.shrink rfl (fun _ _ hj => hj)
        | false =>
          have hs' : step cfg s (.ingest i f)
              = { s with tree := ingest s.tree f, quiet := false, compactors := wakeC s.compactors } := by
            simp [step, hg, hst]
          rw [hs']
          obtain ⟨hwf, hfresh, hbts, hv⟩ := hev hg hst
          exact ⟨ingest_preserves_inv h.inv hwf hfresh, nonEmpty_ingest h.ne hv,
            fun j c hj => chosen_stable_under_ingest (h.chosen j c (getElem?_wakeC_inflight hj)) hfresh hbts,
            fun j c hj => moves_down_stable_ingest f (h.down j c (getElem?_wakeC_inflight hj)),
            fun j k a b hjk ha hb => h.apart j k a b hjk (getElem?_wakeC_inflight ha) (getElem?_wakeC_inflight hb)⟩
  | select i =>
    cases hg : s.compactors[i]? with
    | none => have : step cfg s (.select i) = s := by simp [step, hg]
              rw [this]; exact h
    | some a =>
      cases a with
      | inflight c => have : step cfg s (.select i) = s := by simp [step, hg]
                      rw [this]; exact h
      | waiting => have : step cfg s (.select i) = s := by simp [step, hg]
                   rw [this]; exact h
      | running =>
        cases hn : nextCompaction cfg.num cfg.opts s.tree (og s) with
        | none =>
          have hs' : step cfg s (.select i)
              = { s with compactors := s.compactors.set i .waiting, quiet := s.quiet || (og s).isEmpty } := by
            simp [step, hg, hn]
          rw [hs']
          refine h.shrink rfl (fun j d hj => ?_)
          rcases getElem?_set_inflight hj with ⟨_, hx⟩ | ⟨_, hj'⟩
          · cases hx
          · exact hj'
        | some c =>
          have hs' : step cfg s (.select i) = { s with compactors := s.compactors.set i (.inflight c) } := by
            simp [step, hg, hn]
          rw [hs']
          have hno := nextCompaction_not_overlapping _ _ _ _ hn
          refine ⟨h.inv, h.ne, ?_, ?_, ?_⟩
          · intro j d hj
            rcases getElem?_set_inflight hj with ⟨_, hx⟩ | ⟨_, hj'⟩
            · cases hx; exact nextCompaction_chosen _ _ _ _ h.inv hn
            · exact h.chosen j d hj'
          · intro j d hj
            rcases getElem?_set_inflight hj with ⟨_, hx⟩ | ⟨_, hj'⟩
            · cases hx; exact nextCompaction_moves_down _ _ _ _ h.inv h.ne hn
            · exact h.down j d hj'
          · intro j k a b hjk ha hb
            rcases getElem?_set_inflight ha with ⟨hji, hx⟩ | ⟨hji, ha'⟩
            · cases hx
              rcases getElem?_set_inflight hb with ⟨hki, _⟩ | ⟨_, hb'⟩
              · exact absurd (hji.trans hki.symm) hjk
              · rw [overlapping_symm]
                exact hno b (mem_og.mpr (List.mem_of_getElem? hb'))
            · rcases getElem?_set_inflight hb with ⟨_, hx⟩ | ⟨_, hb'⟩
              · cases hx; exact hno a (mem_og.mpr (List.mem_of_getElem? ha'))
              · exact h.apart j k a b hjk ha' hb'
  | finish i outs =>
    cases hg : s.compactors[i]? with
    | none => have : step cfg s (.finish i outs) = s := by simp [step, hg]
              rw [this]; exact h
    | some a =>
      cases a with
      | running => have : step cfg s (.finish i outs) = s := by simp [step, hg]
                   rw [this]; exact h
      | waiting => have : step cfg s (.finish i outs) = s := by simp [step, hg]
                   rw [this]; exact h
      | inflight c =>
        have hs' : step cfg s (.finish i outs)
            = { s with tree := applyCompaction s.tree c outs, quiet := false,
                       ingesters := Stall.wakeAll s.ingesters, compactors := s.compactors.set i .running } := by
          simp [step, hg]
        rw [hs']
        have hm := hev c hg
        have hc := h.chosen i c hg
        refine ⟨apply_preserves_inv h.inv hc hm.ok, nonEmpty_apply h.inv hc h.ne hm.nonempty, ?_, ?_, ?_⟩
        · intro j d hj
          rcases getElem?_set_inflight hj with ⟨_, hx⟩ | ⟨hji, hj'⟩
          · cases hx
          · exact chosen_stable_under_disjoint_apply h.inv hc hm.ok (h.chosen j d hj')
              (h.apart i j c d (fun e => hji e.symm) hg hj')
        · intro j d hj
          rcases getElem?_set_inflight hj with ⟨_, hx⟩ | ⟨hji, hj'⟩
          · cases hx
          · exact moves_down_stable_apply h.inv hc (h.chosen j d hj')
              (h.apart i j c d (fun e => hji e.symm) hg hj') (h.down j d hj')
        · intro j k a b hjk ha hb
          rcases getElem?_set_inflight ha with ⟨_, hx⟩ | ⟨_, ha'⟩
          · cases hx
          · rcases getElem?_set_inflight hb with ⟨_, hx⟩ | ⟨_, hb'⟩
            · cases hx
            · exact h.apart j k a b hjk ha' hb'
  | abort i =>
    cases hg : s.compactors[i]? with
    | none => have : step cfg s (.abort i) = s := by simp [step, hg]
              rw [this]; exact h
    | some a =>
      cases a with
      | running => have : step cfg s (.abort i) = s := by simp [step, hg]
                   rw [this]; exact h
      | waiting => have : step cfg s (.abort i) = s := by simp [step, hg]
                   rw [this]; exact h
      | inflight c =>
        have hs' : step cfg s (.abort i) = { s with compactors := s.compactors.set i .running } := by
          simp [step, hg]
        rw [hs']
        refine h.shrink rfl (fun j d hj => ?_)
        rcases getElem?_set_inflight hj with ⟨_, hx⟩ | ⟨_, hj'⟩
        · cases hx
        · exact hj'
  | spurI i =>
    have hs' : (step cfg s (.spurI i)).tree = s.tree ∧ (step cfg s (.spurI i)).compactors = s.compactors := by
      simp only [step]
      split <;> exact ⟨rfl, rfl⟩
    exact h.shrink hs'.1 (fun j d hj => by rw [hs'.2] at hj; exact hj)
  | spurC i =>
    cases hg : s.compactors[i]? with
    | none => have : step cfg s (.spurC i) = s := by simp [step, hg]
              rw [this]; exact h
    | some a =>
      cases a with
      | running => have : step cfg s (.spurC i) = s := by simp [step, hg]
                   rw [this]; exact h
      | inflight c => have : step cfg s (.spurC i) = s := by simp [step, hg]
                      rw [this]; exact h
      | waiting =>
        have hs' : step cfg s (.spurC i) = { s with compactors := s.compactors.set i .running } := by
          simp [step, hg]
        rw [hs']
        refine h.shrink rfl (fun j d hj => ?_)
        rcases getElem?_set_inflight hj with ⟨_, hx⟩ | ⟨_, hj'⟩
        · cases hx
        · exact hj'

theorem good_run (cfg : Cfg) {s : St} (h : Good s) (evs : List Ev) (hev : EvOkAlong cfg s evs) :
    Good (run cfg s evs) := by
  induction evs generalizing s with
  | nil => exact h
  | cons ev r ih => exact ih (good_step cfg h ev hev.1) hev.2

/-- a state with nothing in flight (a fresh or quiescent store) on a tree with `Inv` and no empty
    file -/
theorem good_of_idle {s : St} (hinv : Inv s.tree) (hne : NonEmptyFiles s.tree) (hidle : og s = []) : Good s := by
  have hno : ∀ (i : Nat) (c : Core), s.compactors[i]? = some (CState.inflight c) → False := by
    intro i c hi
    have : c ∈ og s := mem_og.mpr (List.mem_of_getElem? hi)
    rw [hidle] at this; cases this
  exact ⟨hinv, hne, fun i c hi => (hno i c hi).elim, fun i c hi => (hno i c hi).elim,
    fun i _ a _ _ ha _ => (hno i a ha).elim⟩

theorem downSt_of_good (cfg : Cfg) {s : St} (h : Good s) : downSt cfg s = true := by
  simp only [downSt, Bool.or_eq_true, List.all_eq_true]
  right
  intro c hc
  obtain ⟨i, hi, hget⟩ := List.getElem_of_mem (mem_og.mp hc)
  exact h.down i c (by rw [List.getElem?_eq_getElem hi, hget])

theorem outsOK_of_good (cfg : Cfg) {s : St} (h : Good s) (ev : Ev) (hev : EvOk cfg s ev) : outsOK s ev = true := by
  cases ev with
  | finish i outs =>
    simp only [outsOK]
    split
    · rename_i c hg
      have hm := hev c hg
      exact outsOK_of_merge h.inv (h.chosen i c hg) hm.once hm.sub
    · rfl
  | _ => rfl

/-- **(2)** `downSt` holds along every run whose ingested files and installed outputs are as the
    store makes them, from a state satisfying `Good` -/
theorem downSt_along_run (cfg : Cfg) (s : St) (evs : List Ev) (h : Good s) (hev : EvOkAlong cfg s evs) :
    along cfg (downSt cfg) s evs = true := by
  induction evs generalizing s with
  | nil => exact downSt_of_good cfg h
  | cons ev r ih =>
    simp only [along, Bool.and_eq_true]
    exact ⟨downSt_of_good cfg h, ih _ (good_step cfg h ev hev.1) hev.2⟩

/-- **(3)** `outsOK` holds along the same runs -/
theorem outsOK_along_run (cfg : Cfg) (s : St) (evs : List Ev) (h : Good s) (hev : EvOkAlong cfg s evs) :
    alongEv cfg outsOK s evs = true := by
  induction evs generalizing s with
  | nil => rfl
  | cons ev r ih =>
    simp only [alongEv, Bool.and_eq_true]
    exact ⟨outsOK_of_good cfg h ev hev.1, ih _ (good_step cfg h ev hev.1) hev.2⟩

/-- **(4) bounded progress with the selector's part discharged**: `stalled_ingest_released` from
    any state satisfying `Good` (every state reached from one with nothing in flight does:
    `good_of_idle`, `good_run`).  What is left is selector-independent: the flushed files are
    well-formed, fresh, newest and non-empty (`IngestOk`), the outputs of every install are a merge
    of its inputs (`MergeOuts`).  `Sel` is not needed for the bound; it is what keeps a
    compaction-thread step enabled (`stalltree_stalled_has_runner`). -/
theorem stalled_ingest_released_of_good (cfg : Cfg) (s : St) (evs : List Ev) (hgood : Good s)
    (hst : stalledT cfg s.tree = true) (hev : EvOkAlong cfg s evs)
    (hN : measureG s + 2 * disturbances evs < compSteps cfg s evs) :
    everReleased cfg s evs = true :=
  stalled_ingest_released cfg s evs hst (downSt_along_run cfg s evs hgood hev) (outsOK_along_run cfg s evs hgood hev) hN

/-- the same from a stalled state with nothing in flight: the hypotheses on the state are `Inv` and
    `NonEmptyFiles` of the tree -/
theorem stalled_ingest_released_from_selector (cfg : Cfg) (s : St) (evs : List Ev)
    (hinv : Inv s.tree) (hne : NonEmptyFiles s.tree) (hidle : og s = [])
    (hst : stalledT cfg s.tree = true) (hev : EvOkAlong cfg s evs)
    (hN : measureG s + 2 * disturbances evs < compSteps cfg s evs) :
    everReleased cfg s evs = true :=
  stalled_ingest_released_of_good cfg s evs (good_of_idle hinv hne hidle) hst hev hN

/-! ## Boolean forms for closed runs -/

def mergeOutsB (t : Tree) (c : Core) (outs : List File) : Bool :=
  outsOkB t c outs && decide ((outs.flatMap (·.vers)).Nodup)
    && outs.all (fun o => o.vers.all (fun e => t.flatten.any (fun f => c.inputs.contains f.id && f.vers.contains e)))
    && outs.all (fun o => !o.vers.isEmpty)

def ingestOkB (t : Tree) (f : File) : Bool :=
  Blue.NextCompaction.wfB f && t.flatten.all (fun g => g.id != f.id)
    && (level t 0).all (fun g => decide (g.bts < f.bts)) && !f.vers.isEmpty

def evOkB (cfg : Cfg) (s : St) : Ev → Bool
  | .ingest i f => !decide (s.ingesters[i]? = some Stall.TState.running) || stalledT cfg s.tree || ingestOkB s.tree f
  | .finish i outs =>
    match s.compactors[i]? with
    | some (CState.inflight c) => mergeOutsB s.tree c outs
    | _ => true
  | _ => true

def nonEmptyB (t : Tree) : Bool := t.all (fun l => l.all (fun f => !f.vers.isEmpty))

theorem nonEmptyB_sound {t : Tree} (h : nonEmptyB t = true) : NonEmptyFiles t := by
  intro l hl f hf he
  simp only [nonEmptyB, List.all_eq_true] at h
  have := h l hl f hf
  rw [he] at this; cases this

theorem mergeOutsB_sound {t : Tree} {c : Core} {outs : List File} (h : mergeOutsB t c outs = true) :
    MergeOuts t c outs := by
  simp only [mergeOutsB, Bool.and_eq_true, decide_eq_true_eq, List.all_eq_true, List.any_eq_true,
    List.contains_iff_mem] at h
  obtain ⟨⟨⟨h1, h2⟩, h3⟩, h4⟩ := h
  refine ⟨outsOkB_sound h1, h2, sub_of_flatten (fun o ho e he => ?_), fun o ho he => ?_⟩
  · obtain ⟨f, hf, hid, hef⟩ := h3 o ho e he
    exact ⟨f, hf, hid, hef⟩
  · have := h4 o ho
    rw [he] at this; cases this

theorem ingestOkB_sound {t : Tree} {f : File} (h : ingestOkB t f = true) : IngestOk t f := by
  simp only [ingestOkB, Bool.and_eq_true, List.all_eq_true, decide_eq_true_eq, bne_iff_ne] at h
  obtain ⟨⟨⟨h1, h2⟩, h3⟩, h4⟩ := h
  refine ⟨?_, fun l g hg => h2 g (mem_flatten_level.mpr ⟨l, hg⟩), h3, fun he => ?_⟩
  · unfold Blue.NextCompaction.wfB at h1
    simp only [Bool.and_eq_true, decide_eq_true_eq, List.all_eq_true] at h1
    exact ⟨h1.1, fun v hv => h1.2 v hv⟩
  · rw [he] at h4; cases h4

theorem evOkB_sound (cfg : Cfg) (s : St) (ev : Ev) (h : evOkB cfg s ev = true) : EvOk cfg s ev := by
  cases ev with
  | ingest i f =>
    intro hrun hst
    simp only [evOkB, hrun, hst, decide_true, Bool.not_true, Bool.false_or] at h
    exact ingestOkB_sound h
  | finish i outs =>
    intro c hc
    simp only [evOkB, hc] at h
    exact mergeOutsB_sound h
  | select i => trivial
  | abort i => trivial
  | spurI i => trivial
  | spurC i => trivial

theorem evOkAlong_of_B (cfg : Cfg) (s : St) (evs : List Ev) (h : alongEv cfg (evOkB cfg) s evs = true) :
    EvOkAlong cfg s evs := by
  induction evs generalizing s with
  | nil => trivial
  | cons ev r ih =>
    simp only [alongEv, Bool.and_eq_true] at h
    exact ⟨evOkB_sound cfg s ev h.1, ih _ h.2⟩

end Blue.StallTree

#print axioms Blue.StallTree.nextCompaction_moves_down
#print axioms Blue.StallTree.moves_down_stable
#print axioms Blue.StallTree.outsOK_of_merge
#print axioms Blue.StallTree.downSt_along_run
#print axioms Blue.StallTree.outsOK_along_run
#print axioms Blue.StallTree.stalled_ingest_released_from_selector
