import Blue.Generated.Consts
import Blue.Model.NextCompaction
/-! The selector function model (C01) against the source: the option defaults the store histories
    run with, the number of levels the floating-point tables cover, and the three floating-point
    expressions of `Version::next_compaction` the model replaces by integer computations
    (`curveTable`, `factorBits` + `scaleBits`).  An edit to a default or to one of the expressions
    in `lsmtk/src` breaks a `decide` here; that the tables hold the values these expressions
    evaluate to is checked per run (`kvs f64tab`, `kvs scale`). -/
namespace Blue.ConstsTie
open Blue.NextCompaction

/-- `LsmtkOptions::default()` as the selector function's options: the values the C01 harness passes
    for the options its histories leave at their defaults (`max_open_files`,
    `max_compaction_bytes`, `l0_mandatory_compaction_threshold_bytes`) -/
theorem c01_selector_defaults :
    (⟨Blue.Generated.lsmtkDefaultMaxOpenFiles, Blue.Generated.lsmtkDefaultMaxCompactionBytes,
      Blue.Generated.lsmtkDefaultMaxCompactionFiles, Blue.Generated.lsmtkDefaultL0MandatoryFiles,
      Blue.Generated.lsmtkDefaultL0MandatoryBytes⟩ : Opts) = ⟨524288, 536870912, 64, 4, 67108864⟩ := by decide

/-- one factor per level -/
theorem c01_factor_table_covers_levels : factorBits.length = Blue.Generated.lsmtkNumLevels := by decide

/-- `level_curve` as the model tabulates it -/
theorem c01_level_curve_expr :
    Blue.Generated.lsmtkLevelCurveExpr = "if level <= 2 { 1 } else { (level as f64).log10().ceil() as u64 + 1 }" := by decide

/-- `level_factor` as `factorBits` tabulates it -/
theorem c01_level_factor_expr :
    Blue.Generated.lsmtkLevelFactorExpr = "(lower_level as f64 + 1.0).log2() / (lower_level + 1) as f64 + 1.0" := by decide

/-- the scaled score as `scaleBits` computes it -/
theorem c01_scaled_score_expr :
    Blue.Generated.lsmtkScaledScoreExpr = "(score as f64 * level_factor).ceil() as i64" := by decide

/-- the exact products: `level_factor` is dyadic at levels 1, 3, 7 and 15 (1.5, 1.5, 1.375, 1.25) -/
theorem c01_scale_dyadic :
    ieee.scale 1 6 = 9 ∧ ieee.scale 3 7 = 11 ∧ ieee.scale 7 8 = 11 ∧ ieee.scale 1 (-3) = -4 ∧ ieee.scale 2 1000 = 1529 := by
  decide +kernel

end Blue.ConstsTie
