import Blue.Generated.Consts
import Blue.Model.GcParse
/-! Constants of the GC policy language and of lsmtk's use of it, regenerated from the Rust source
    and tied to the model (C05). -/
namespace Blue.ConstsTie

/-- C05: the keywords and the error contexts the parser model uses are those of sst/src/gc.rs -/
theorem gc_keywords : Blue.Gc.Parse.keywords = Blue.Generated.gcKeywords := by decide
theorem gc_contexts : Blue.Gc.Parse.contexts = Blue.Generated.gcContexts := by decide
/-- C05 / O-3: every `policy.collector(cursor, now)` call in lsmtk (store and verifier) passes
    `now = 0`, so `ttl_micros` thresholds saturate to 0 and never expire anything -/
theorem lsmtk_collector_now : ∀ n ∈ Blue.Generated.lsmtkCollectorNow, n = 0 := by decide
/-- C05: lsmtk's default policy is `versions = 1` -/
theorem lsmtk_default_policy :
    (match Blue.Gc.Parse.parsePolicy (Blue.Gc.Parse.bytesOf Blue.Generated.lsmtkDefaultGcPolicy) with
      | .ok (.versions n) => n == 1
      | _ => false) = true := by decide

/-- C05: WHERE lsmtk reaches its collector, read from lsmtk/src/tree/mod.rs on every run:
    `Compaction::top_level` is `self.core.upper_level == NUM_LEVELS - 1` (first flag), and
    `Tree::perform_compaction` first routes a one-input compaction to `apply_moving_compaction`,
    then has `if compaction.top_level() { return self.perform_garbage_collection(compaction); }`,
    the only place in the crate that names `perform_garbage_collection` besides its definition
    (second flag).  A changed shape regenerates a 0 (or no constant at all) and this fails. -/
theorem gc_only_at_top_level_from_source :
    Blue.Generated.lsmtkTopLevelIsLastLevel = 1 ∧ Blue.Generated.lsmtkGcOnlyAtTopLevel = 1 := by decide
/-- C05: `NUM_LEVELS` (the tree models of C01/C20 are parametric in `t.length`; there is no model
    constant to compare with, so the value is stated) -/
theorem num_levels_from_source : Blue.Generated.lsmtkNumLevels = 16 := by decide
/-- C05: `NUM_LEVELS - 1` does not wrap, so the Rust test `upper_level == NUM_LEVELS - 1` is the
    model's side condition `upper + 1 = NUM_LEVELS` -/
theorem top_level_test_from_source (upper : Nat) :
    (upper == Blue.Generated.lsmtkNumLevels - 1) = true ↔ upper + 1 = Blue.Generated.lsmtkNumLevels := by
  have h : Blue.Generated.lsmtkNumLevels = 16 := by decide
  rw [h]; simp only [beq_iff_eq]; omega

end Blue.ConstsTie
