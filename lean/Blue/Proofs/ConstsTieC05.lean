import Blue.Generated.Consts
import Blue.Model.GcParse
/-! Constants of the GC policy language and of lsmtk's use of it, regenerated from the Rust source
    and tied to the model (C05). -/
namespace Blue.ConstsTie

/-- C05: the keywords and the error contexts the parser model uses are those of sst/src/gc.rs -/
theorem gc_keywords : Blue.Gc.Parse.keywords = Blue.Generated.gcKeywords := by decide
theorem gc_contexts : Blue.Gc.Parse.contexts = Blue.Generated.gcContexts := by decide
/-- C05 / O-3: every `policy.collector(cursor, now)` call in lsmtk (store and verifier) passes
    `now = 0`, so `ttl_micros` thresholds saturate to 0 and never expire anything -/
theorem lsmtk_collector_now : ∀ n ∈ Blue.Generated.lsmtkCollectorNow, n = 0 := by decide
/-- C05: lsmtk's default policy is `versions = 1` -/
theorem lsmtk_default_policy :
    (match Blue.Gc.Parse.parsePolicy (Blue.Gc.Parse.bytesOf Blue.Generated.lsmtkDefaultGcPolicy) with
      | .ok (.versions n) => n == 1
      | _ => false) = true := by decide


end Blue.ConstsTie
