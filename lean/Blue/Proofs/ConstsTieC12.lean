import Blue.Generated.Consts
import Blue.Model.LogHeader
/-! Constants of the log format regenerated from the Rust source, tied to the model (C12). -/
namespace Blue.ConstsTie

/-! ### the log (C12): `sst/src/log.rs`, `TABLE_FULL_SIZE` of `sst/src/lib.rs` -/
open Blue.Log Blue.Wire in
/-- the log parameters built from the extracted constants only: `BLOCK_BITS`, `HEADER_MAX_SIZE`,
    `TABLE_FULL_SIZE`, and the `Header` message with the extracted field numbers -/
def extractedLogParams (crc : List Nat → Nat) : Blue.Log.Params where
  B := 2 ^ Blue.Generated.logBlockBits
  H := Blue.Generated.logHeaderMaxSize
  tableFull := Blue.Generated.sstTableFullSize
  encH := fun h =>
    encTag ⟨Blue.Generated.logHeaderSizeField, .varint⟩ ++ encVarint h.size ++
    encTag ⟨Blue.Generated.logHeaderDiscField, .varint⟩ ++ encVarint h.disc ++
    encTag ⟨Blue.Generated.logHeaderCrcField, .thirtyTwo⟩ ++ le32 h.crc
  decH := decHdr
  crc := crc

/-- the hand-written `realParams` (what the model, the proofs and the driver use) *is* the
    parameter set read out of the source -/
theorem log_params (crc : List Nat → Nat) : Blue.Log.realParams crc = extractedLogParams crc := rfl

theorem log_sizes : Blue.Generated.logBlockSize = 2 ^ Blue.Generated.logBlockBits
    ∧ Blue.Generated.logMaxBatchSize + 2 * Blue.Generated.logHeaderMaxSize = Blue.Generated.logBlockSize
    ∧ Blue.Generated.logBatchLimit = Blue.Generated.logBlockSize := by decide

theorem log_discriminants : Blue.Log.WHOLE = Blue.Generated.logHeaderWhole
    ∧ Blue.Log.FIRST = Blue.Generated.logHeaderFirst ∧ Blue.Log.SECOND = Blue.Generated.logHeaderSecond := by decide

/-- `uint64`/`uint32` are varint fields, `fixed32` a 32-bit field; the decoder `mergeHdr` matches on
    exactly these numbers and wire types -/
theorem log_header_wire : Blue.Wire.WT.varint.bits = Blue.Generated.logHeaderSizeWire
    ∧ Blue.Wire.WT.varint.bits = Blue.Generated.logHeaderDiscWire
    ∧ Blue.Wire.WT.thirtyTwo.bits = Blue.Generated.logHeaderCrcWire
    ∧ [Blue.Generated.logHeaderSizeField, Blue.Generated.logHeaderDiscField, Blue.Generated.logHeaderCrcField] = [10, 11, 12] := by decide


end Blue.ConstsTie
