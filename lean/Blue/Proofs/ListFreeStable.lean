import Blue.Proofs.ListFreeIter
/-! The prepend-only list under later prepends: what an iterator that loaded the head earlier walks.

    `run_contents` speaks about the head and the heap of one state.  An iteration starts with one
    load of the head and then follows `next` pointers while other threads keep prepending.  The
    nodes it walks are *frozen*: a node that no thread owns any more (its prepend's CAS succeeded)
    is never written again — `step` writes only the node the stepping thread owns, and ownership is
    only ever acquired for a freshly allocated node.  Hence the chain from any pointer that was the
    head at some moment is the same chain in every later state (`chain_stable`,
    `iteration_from_old_head`), and the data pushed so far stays a suffix of what any later
    iteration from the new head shows (`pushed_suffix`): every prepended element appears exactly
    once, newest first, in every later iteration. -/
namespace Blue.ListFree
variable {D : Type}

/-- nodes that exist and that no thread owns -/
def Frozen (s : St D) (ids : List Nat) : Prop :=
  ∀ x ∈ ids, x < s.heap.length ∧ ∀ i, owned (s.pcs i) ≠ some x

theorem frozen_call {s : St D} {ids : List Nat} (hf : Frozen s ids) (i : Nat) (d : D) :
    Frozen (call s i d) ids ∧ ∀ x ∈ ids, (call s i d).heap[x]? = s.heap[x]? := by
  unfold call
  cases hpc : s.pcs i with
  | idle =>
    refine ⟨?_, (by intros; first | rfl | trivial)⟩
    intro x hx
    refine ⟨(hf x hx).1, ?_⟩
    intro j
    by_cases hji : j = i
    · subst hji; simp only [setPc_same]; simp [owned]
    · simp only [setPc_other _ _ _ _ hji]; exact (hf x hx).2 j
  | _ => exact ⟨hf, (by intros; first | rfl | trivial)⟩

theorem frozen_step {s : St D} {ids : List Nat} (hf : Frozen s ids) (i : Nat) :
    Frozen (step s i) ids ∧ ∀ x ∈ ids, (step s i).heap[x]? = s.heap[x]? := by
  unfold step
  cases hpc : s.pcs i with
  | idle => exact ⟨hf, (by intros; first | rfl | trivial)⟩
  | alloc d =>
    simp only
    constructor
    · intro x hx
      obtain ⟨hlt, hno⟩ := hf x hx
      refine ⟨by simp only [List.length_append, List.length_cons, List.length_nil]; omega, ?_⟩
      intro j
      by_cases hji : j = i
      · subst hji; simp only [setPc_same]; simp only [owned, ne_eq, Option.some.injEq]; omega
      · simp only [setPc_other _ _ _ _ hji]; exact hno j
    · intro x hx
      rw [List.getElem?_append_left (hf x hx).1]
  | load n =>
    simp only
    refine ⟨?_, (by intros; first | rfl | trivial)⟩
    intro x hx
    obtain ⟨hlt, hno⟩ := hf x hx
    refine ⟨hlt, ?_⟩
    intro j
    by_cases hji : j = i
    · subst hji; simp only [setPc_same]; have := hno j; rw [hpc] at this; exact this
    · simp only [setPc_other _ _ _ _ hji]; exact hno j
  | setNext n hd =>
    simp only
    cases hg : s.heap[n]? with
    | none => simp only; exact ⟨hf, (by intros; first | rfl | trivial)⟩
    | some nd =>
      simp only
      constructor
      · intro x hx
        obtain ⟨hlt, hno⟩ := hf x hx
        refine ⟨by rw [List.length_set]; exact hlt, ?_⟩
        intro j
        by_cases hji : j = i
        · subst hji; simp only [setPc_same]; have := hno j; rw [hpc] at this; exact this
        · simp only [setPc_other _ _ _ _ hji]; exact hno j
      · intro x hx
        have hne : n ≠ x := by
          intro hnx; subst hnx
          have := (hf n hx).2 i; rw [hpc] at this; exact this rfl
        rw [List.getElem?_set_ne hne]
  | cas n hd =>
    simp only
    split
    · cases hg : s.heap[n]? with
      | none => simp only; exact ⟨hf, (by intros; first | rfl | trivial)⟩
      | some nd =>
        simp only
        refine ⟨?_, (by intros; first | rfl | trivial)⟩
        intro x hx
        obtain ⟨hlt, hno⟩ := hf x hx
        refine ⟨hlt, ?_⟩
        intro j
        by_cases hji : j = i
        · subst hji; simp only [setPc_same]; simp [owned]
        · simp only [setPc_other _ _ _ _ hji]; exact hno j
    · refine ⟨?_, (by intros; first | rfl | trivial)⟩
      intro x hx
      obtain ⟨hlt, hno⟩ := hf x hx
      refine ⟨hlt, ?_⟩
      intro j
      by_cases hji : j = i
      · subst hji; simp only [setPc_same]; have := hno j; rw [hpc] at this; exact this
      · simp only [setPc_other _ _ _ _ hji]; exact hno j

theorem frozen_apply {s : St D} {ids : List Nat} (hf : Frozen s ids) (ev : Ev D) :
    Frozen (apply s ev) ids ∧ ∀ x ∈ ids, (apply s ev).heap[x]? = s.heap[x]? := by
  cases ev with
  | call i d => exact frozen_call hf i d
  | step i => exact frozen_step hf i

/-- **`chain_stable`**: a chain whose nodes no thread owns is the same chain after any further
    calls and steps of any threads -/
theorem chain_stable (evs : List (Ev D)) {s : St D} {p : Option Nat} {ids : List Nat} {ds : List D}
    (hc : Chain s.heap p ids ds) (hf : Frozen s ids) :
    Chain (evs.foldl apply s).heap p ids ds ∧ Frozen (evs.foldl apply s) ids := by
  induction evs generalizing s with
  | nil => exact ⟨hc, hf⟩
  | cons e t ih =>
    simp only [List.foldl_cons]
    obtain ⟨hf', hsame⟩ := frozen_apply hf e
    exact ih (chain_frame hc hsame) hf'

/-- the chain from the head is frozen in every state satisfying the invariant -/
theorem head_chain_frozen {s : St D} (h : Inv s) {ids : List Nat} (hc : Chain s.heap s.head ids s.pushed) :
    Frozen s ids := by
  obtain ⟨ids', hc', hni⟩ := h.chain
  have heq : ids = ids' := by
    have : ∀ {p : Option Nat} {a b : List Nat} {da db : List D},
        Chain s.heap p a da → Chain s.heap p b db → a = b := by
      intro p a b da db ha
      induction ha generalizing b db with
      | nil => intro hb; cases hb; rfl
      | cons hp _ ih =>
        intro hb
        cases hb with
        | cons hp' hrest' =>
          rw [hp] at hp'; cases hp'
          rw [ih hrest']
    exact this hc hc'
  subst heq
  intro x hx
  exact ⟨chain_lt hc x hx, fun i hi => hni i x hi hx⟩

/-- the ghost list only grows at the front -/
theorem pushed_suffix (evs : List (Ev D)) (s : St D) : s.pushed <:+ (evs.foldl apply s).pushed := by
  induction evs generalizing s with
  | nil => exact List.suffix_refl _
  | cons e t ih =>
    simp only [List.foldl_cons]
    refine List.IsSuffix.trans ?_ (ih _)
    cases e with
    | call i d =>
      simp only [apply, call]
      split <;> exact List.suffix_refl _
    | step i =>
      simp only [apply, step]
      split
      · exact List.suffix_refl _
      · exact List.suffix_refl _
      · exact List.suffix_refl _
      · split <;> exact List.suffix_refl _
      · split
        · split
          · exact List.suffix_cons _ _
          · exact List.suffix_refl _
        · exact List.suffix_refl _

/-- **an iteration that loaded the head earlier**: take any schedule `evs`, let an iterator load
    the head there, and let any further schedule `evs'` run (more prepends, by any threads).  The
    walk from the pointer it loaded, through the heap as it is *afterwards*, yields exactly the
    data that had been pushed when it loaded the head — newest first, each once — and that list is
    a suffix of what an iteration from the new head shows. -/
theorem iteration_from_old_head (evs evs' : List (Ev D)) :
    let s := evs.foldl apply (init : St D)
    let s' := evs'.foldl apply s
    ∃ ids : List Nat, walk s'.heap (ids.length + 1) s.head = s.pushed ∧ s.pushed <:+ s'.pushed := by
  intro s s'
  obtain ⟨ids, hc, _⟩ := (inv_run evs).chain
  refine ⟨ids, ?_, pushed_suffix evs' s⟩
  exact walk_chain (chain_stable evs' hc (head_chain_frozen (inv_run evs) hc)).1 _ (by omega)

/-- … step by step: every `next()` of that iterator, made in the later state, returns the data and
    the successor the node had when the head was loaded -/
theorem iterNext_stable (evs' : List (Ev D)) {s : St D} {p : Nat} {ids : List Nat} {ds : List D}
    (hc : Chain s.heap (some p) ids ds) (hf : Frozen s ids) :
    iterNext (evs'.foldl apply s).heap (some p) = iterNext s.heap (some p) := by
  have hp : p ∈ ids := by cases hc; exact List.mem_cons_self ..
  have hsame : (evs'.foldl apply s).heap[p]? = s.heap[p]? := by
    have : ∀ (evs' : List (Ev D)) (s : St D), Frozen s ids →
        (evs'.foldl apply s).heap[p]? = s.heap[p]? := by
      intro evs'
      induction evs' with
      | nil => intro s _; rfl
      | cons e t ih =>
        intro s hf
        simp only [List.foldl_cons]
        obtain ⟨hf', hs⟩ := frozen_apply hf e
        rw [ih _ hf', hs p hp]
    exact this evs' s hf
  simp only [iterNext, hsame]

end Blue.ListFree
