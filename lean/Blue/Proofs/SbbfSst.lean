import Blue.Proofs.Sbbf
import Blue.Proofs.SstHeadline
/-! The bloom filter inside the table: the filter block `SstBuilder::seal` writes is no longer a
    parameter of the file round trip, and `Sst::load` is modelled WITH its filter test.

    `h` stands for `Filter::defer_insert` on a key (SipHash-2-4 of the external `siphasher` crate
    under the fixed `KEY`): it is not modelled, the statements hold for EVERY function `h` from
    keys to hash words — all that is used is that the builder and the reader hash a key the same
    way (both call `Filter::defer_insert`). -/
namespace Blue.Sbbf
open Blue.Wire Blue.Block Blue.Sst Blue.Cursor Blue.BlockCursor Blue.SstOpen

/-- the filter `SstBuilder::seal` builds:
    `Filter::new((filter.len() as u32).saturating_mul(bloom_filter_bits as u32))`, then one
    `deferred_insert` per accepted entry (`put` and `del` push `Filter::defer_insert(key)`) -/
def sealFilter (h : List Nat → Nat) (bits : Nat) (s : SB) : Filter :=
  build (min (s.count % 4294967296 * bits) 4294967295) (s.accepted.map fun e => h e.key)

/-- `Sst::load` as the code has it: `if !self.filter.check(key) { return Ok(None) }`, then the
    cursor part (`rest`).  `none` = a panic inside `Filter::check`. -/
def loadWithFilter {ε : Type} (g : Filter) (word : Nat) (rest : Except ε Loaded) : Option (Except ε Loaded) :=
  match g.check? word with
  | none => none
  | some false => some (.ok .absent)
  | some true => some rest

/-- the builder's filter block has exactly the length the table model asks of its filter
    parameter (`filterLen`), and consists of bytes -/
theorem sealFilter_bytes (h : List Nat → Nat) (bits : Nat) (s : SB) :
    (sealFilter h bits s).toBytes.length = filterLen s.count bits
    ∧ ∀ b ∈ (sealFilter h bits s).toBytes, b < 256 := by
  refine ⟨?_, toBytes_are_bytes _⟩
  rw [toBytes_length]
  unfold sealFilter
  rw [build_length]
  unfold filterLen
  simp only []
  omega

/-- a key without an accepted entry loads as absent in the specification -/
theorem loadSpec_absent_of_no_key (es : List KV) (k : List Nat) (ts : Nat) (hk : ∀ e ∈ es, e.key ≠ k) :
    loadSpec es k ts = .absent := by
  unfold loadSpec
  cases hf : es.find? (notBefore k ts) with
  | none => rfl
  | some e =>
    have hm := List.mem_of_find?_eq_some hf
    unfold loadedOf
    simp only [hk e hm, if_false]

/-- what the reader's filter answers for the builder's filter block: parsed back it is the very
    filter, every accepted key is "maybe present", and a key answered "absent" has no accepted entry -/
theorem sealFilter_read_back (h : List Nat → Nat) (bits : Nat) (s : SB) :
    ∃ g, Filter.tryFrom (sealFilter h bits s).toBytes = .ok g
      ∧ g = sealFilter h bits s
      ∧ (∀ k, ∃ b, g.check? (h k) = some b)
      ∧ (∀ e ∈ s.accepted, g.check? (h e.key) = some true)
      ∧ (∀ k, g.check? (h k) = some false → ∀ e ∈ s.accepted, e.key ≠ k) := by
  obtain ⟨g, hg, hge, hall⟩ :=
    stored_filter_no_false_negatives (min (s.count % 4294967296 * bits) 4294967295) (s.accepted.map fun e => h e.key)
  have hlen : 1 ≤ g.blocks.length := by rw [hge, build_length]; omega
  refine ⟨g, hg, hge, fun k => ⟨_, check?_eq g (h k) hlen⟩, ?_, ?_⟩
  · intro e he
    exact hall (h e.key) (List.mem_map.2 ⟨e, he, rfl⟩)
  · intro k hk e he hek
    have := hall (h e.key) (List.mem_map.2 ⟨e, he, rfl⟩)
    rw [hek, hk] at this
    cases this

/-- THE TABLE WITH ITS FILTER: feed any attempts to `SstBuilder`, let `seal` write the filter block
    it computes (`sealFilter`: not a parameter any more), open the file image: the table opens,
    the filter block parses back to the builder's filter, and `Sst::load` WITH the filter test
    answers, for every key and timestamp — accepted or not, whatever the filter's false
    positives — exactly the specification over the accepted entries, without a panic.
    (`sst_file_roundtrip_limits` gives the cursor programs, metadata and walks for this file: its
    filter hypotheses `hfilter`, `hbF` are discharged here.) -/
theorem sst_load_with_filter (h : List Nat → Nat) (o : SstOpts) (atts : List KV) (setsum : List Nat) (f : SstFile)
    (hseal : (SB.putAll o SB.init atts).2.seal o
        (sealFilter h o.bloomBits (SB.putAll o SB.init atts).2).toBytes setsum = .ok f)
    (hts : ∀ e ∈ atts, e.ts ≤ U64MAX)
    (hsetsum : setsum.length = 32)
    (hsize : f.bytes.length < U64)
    (hbE : ∀ e ∈ atts, KVBytes e) :
    ∃ t g, openSst crc32c f.bytes = .ok t
      ∧ Filter.tryFrom f.filter = .ok g
      ∧ g = sealFilter h o.bloomBits (SB.putAll o SB.init atts).2
      ∧ (∀ e ∈ (SB.putAll o SB.init atts).2.accepted, g.check? (h e.key) = some true)
      ∧ ∀ (k : List Nat) (ts : Nat),
          loadWithFilter g (h k) (t.load crc32c k ts)
            = some (.ok (loadSpec (SB.putAll o SB.init atts).2.accepted k ts)) := by
  obtain ⟨hlen, hbytes⟩ := sealFilter_bytes h o.bloomBits (SB.putAll o SB.init atts).2
  obtain ⟨t, hopen, _, hload, _⟩ :=
    Blue.SstOpen.sst_file_roundtrip_limits o atts _ setsum f hseal hts hsetsum hlen hsize hbE hbytes
  obtain ⟨g, hg, hge, htot, hacc, hneg⟩ := sealFilter_read_back h o.bloomBits (SB.putAll o SB.init atts).2
  obtain ⟨_, _, _, _, hff, _⟩ := seal_ok hseal
  refine ⟨t, g, hopen, by rw [hff]; exact hg, hge, hacc, ?_⟩
  intro k ts
  unfold loadWithFilter
  obtain ⟨b, hb⟩ := htot k
  rw [hb]
  cases b with
  | true => simp only [hload k ts]
  | false =>
    simp only []
    rw [loadSpec_absent_of_no_key _ k ts (hneg k hb)]

end Blue.Sbbf
