import Blue.Proofs.Compaction
import Blue.Proofs.LevelSlice
/-! **C01** why the slices of `compute_bounds` make a *closed* selection: every level from the lower
    to the upper contributes exactly the files that meet its key range, the ranges only widen on
    the way down and cover what they select.  No sortedness or disjointness of levels is needed. -/
namespace Blue.Spec

/-- a key range, closed on both sides -/
structure Rng where
  lo : Nat
  hi : Nat

def Rng.meets (r : Rng) (f : TFile) : Bool := decide (f.first ≤ r.hi) && decide (r.lo ≤ f.last)
def Rng.within (a b : Rng) : Prop := b.lo ≤ a.lo ∧ a.hi ≤ b.hi

/-- the selection `find_best_compaction` reads off `compute_bounds`: levels `lower ..= upper`, in
    each the files that meet that level's range -/
structure Selection where
  lower : Nat
  upper : Nat
  range : Nat → Rng

def Selection.takes (s : Selection) (lvl : Nat) (f : TFile) : Bool :=
  decide (s.lower ≤ lvl) && decide (lvl ≤ s.upper) && (s.range lvl).meets f

/-- what `compute_bounds` guarantees: ranges widen with depth, and a level's range covers the files
    it selects there (the fixed-point loop) -/
structure Selection.Ok (s : Selection) (levels : List (Nat × List TFile)) : Prop where
  widen : ∀ a b, s.lower ≤ a → a ≤ b → b ≤ s.upper → (s.range a).within (s.range b)
  covers : ∀ l ∈ levels, ∀ f ∈ l.2, s.takes l.1 f = true → (s.range l.1).lo ≤ f.first ∧ f.last ≤ (s.range l.1).hi

/-- the levels down to the upper one, in search order, tagged with "is an input" -/
def tagLevels (s : Selection) (levels : List (Nat × List TFile)) : Tagged Nat :=
  (levels.map (fun l => l.2.map (fun f => (s.takes l.1 f, f.vers)))).flatten

theorem shares_meets {c d : TFile} (hc : c.Wf) (hd : d.Wf) (r : Rng)
    (hcov : r.lo ≤ c.first ∧ c.last ≤ r.hi) (h : SharesKey c.vers d.vers) : r.meets d = true := by
  obtain ⟨a, ha, b, hb, hk⟩ := h
  have h1 := hc.2 a ha
  have h2 := hd.2 b hb
  unfold Rng.meets
  simp only [Bool.and_eq_true, decide_eq_true_eq]
  omega

/-- **C01** `selector_closed_partial`: a selection read off monotone covering ranges is closed -/
theorem selection_closed (s : Selection) (levels : List (Nat × List TFile))
    (hlv : levels.Pairwise (fun a b => a.1 < b.1)) (hup : ∀ l ∈ levels, l.1 ≤ s.upper)
    (hwf : ∀ l ∈ levels, ∀ f ∈ l.2, f.Wf) (hok : s.Ok levels) :
    Closed (tagLevels s levels) := by
  unfold Closed tagLevels
  rw [List.pairwise_flatten]
  constructor
  · -- two files of one level
    intro tl htl
    obtain ⟨l, hl, rfl⟩ := List.mem_map.mp htl
    rw [List.pairwise_map]
    apply List.Pairwise.imp_of_mem (R := fun _ _ => True)
    · intro c d hc hd _ hct hdf hshare
      dsimp only at hct hdf hshare
      have hcov := hok.covers l hl c hc hct
      have hm := shares_meets (hwf l hl c hc) (hwf l hl d hd) (s.range l.1) hcov hshare
      unfold Selection.takes at hct hdf
      simp only [Bool.and_eq_true, decide_eq_true_eq] at hct
      rw [hm] at hdf
      simp only [hct.1.1, hct.1.2, decide_true, Bool.and_self] at hdf
      cases hdf
    · exact List.pairwise_of_forall (fun _ _ => trivial)
  · -- a file of a shallower level against a file of a deeper one
    rw [List.pairwise_map]
    refine hlv.imp_of_mem ?_
    intro la lb hla hlb hlt x hx y hy hxt hyf hshare
    obtain ⟨c, hc, rfl⟩ := List.mem_map.mp hx
    obtain ⟨d, hd, rfl⟩ := List.mem_map.mp hy
    dsimp only at hxt hyf hshare
    have hcov := hok.covers la hla c hc hxt
    unfold Selection.takes at hxt hyf
    simp only [Bool.and_eq_true, decide_eq_true_eq] at hxt
    have hw := hok.widen la.1 lb.1 hxt.1.1 (Nat.le_of_lt hlt) (hup lb hlb)
    have hm := shares_meets (hwf la hla c hc) (hwf lb hlb d hd) (s.range lb.1)
      ⟨by have := hw.1; omega, by have := hw.2; omega⟩ hshare
    rw [hm] at hyf
    have h1 : s.lower ≤ lb.1 := by omega
    have h2 := hup lb hlb
    simp only [h1, h2, decide_true, Bool.and_self] at hyf
    cases hyf

end Blue.Spec

#print axioms Blue.Spec.selection_closed
