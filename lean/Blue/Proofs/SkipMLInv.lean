import Blue.Proofs.SkipMLBase
import Blue.Proofs.SkipIter
/-! The invariant of the multi-level skiplist and the lemmas every step uses. -/
namespace Blue.SkipML
open Blue.SkipList (Node keyOf nextOf setNextAt SChain)

/-! ### frame lemmas: one per kind of change, for every kind of obligation -/

/-- allocation leaves every obligation about existing nodes intact -/
theorem holds_append {heap : List MNode} {ins : List Nat} {ids : Nat → List Nat}
    (hlt : ∀ l, ∀ n ∈ ids l, n < heap.length) (x : MNode) (o : Obl)
    (h : Holds heap ins ids o) : Holds (heap ++ [x]) ins ids o := by
  have hst : ∀ k l y, StandOk heap ids k l y → StandOk (heap ++ [x]) ids k l y := by
    intro k l y hy
    rcases hy with h1 | ⟨h1, h2⟩
    · exact Or.inl h1
    · exact Or.inr ⟨h1, by rw [mkey_append heap x y (hlt l y h1)]; exact h2⟩
  cases o with
  | stand k l y => exact hst k l y h
  | on l y => exact h
  | prevs k lo hi prev => intro j h1 h2; exact hst _ _ _ (h j h1 h2)
  | obss k lo hi obs =>
    intro j h1 h2 n hn
    obtain ⟨h3, h4⟩ := h j h1 h2 n hn
    exact ⟨by simp; omega, by rw [mkey_append heap x n h3]; exact h4⟩
  | fresh k => exact h
  | node nd k hh =>
    obtain ⟨h1, h2, h3, h4⟩ := h
    exact ⟨h1, by simp; omega, by rw [height_append heap x nd h2]; exact h3, by rw [mkey_append heap x nd h2]; exact h4⟩
  | below nd idx => exact h
  | above nd idx => exact h
  | nextIs l nd v =>
    obtain ⟨h1, h2⟩ := h
    exact ⟨by simp; omega, by rw [mnext_append heap x l nd h1]; exact h2⟩

/-- a write to `(n0, l0)` leaves intact every obligation that is not about that pointer -/
theorem holds_store {heap : List MNode} {ins : List Nat} {ids : Nat → List Nat} (l0 n0 : Nat) (v0 : Option Nat)
    (o : Obl) (hne : ∀ l nd v, o = .nextIs l nd v → ¬ (l = l0 ∧ nd = n0))
    (h : Holds heap ins ids o) : Holds (msetNext heap l0 n0 v0) ins ids o := by
  have hk := mkey_msetNext heap l0 n0
  have hl := length_msetNext heap l0 n0 v0
  have hh := height_msetNext heap l0 n0
  cases o with
  | stand k l y => simp only [Holds, StandOk, hk] at h ⊢; exact h
  | on l y => exact h
  | prevs k lo hi prev => simp only [Holds, StandOk, hk] at h ⊢; exact h
  | obss k lo hi obs => simp only [Holds, hk, hl] at h ⊢; exact h
  | fresh k => exact h
  | node nd k h' => simp only [Holds, hk, hl, hh] at h ⊢; exact h
  | below nd idx => exact h
  | above nd idx => exact h
  | nextIs l nd v =>
    obtain ⟨h1, h2⟩ := h
    exact ⟨by rw [hl]; exact h1, by rw [mnext_msetNext_ne heap l0 n0 v0 l nd (hne l nd v rfl)]; exact h2⟩

/-- a successful CAS of another thread (its node `nd0`, its key `k0`) leaves intact every
    obligation that is not about that node or that key -/
theorem holds_widen {heap : List MNode} {ins ins' : List Nat} {ids ids' : Nat → List Nat} (nd0 k0 : Nat)
    (hsub : ∀ l x, x ∈ ids l → x ∈ ids' l) (hsup : ∀ l x, x ∈ ids' l → x = nd0 ∨ x ∈ ids l)
    (hins : ∀ k, k ∈ ins' → k = k0 ∨ k ∈ ins)
    (o : Obl) (hnode : oblNode o ≠ some nd0) (hkey : oblFresh o ≠ some k0)
    (h : Holds heap ins ids o) : Holds heap ins' ids' o := by
  have hst : ∀ k l y, StandOk heap ids k l y → StandOk heap ids' k l y := by
    intro k l y hy
    rcases hy with h1 | ⟨h1, h2⟩
    · exact Or.inl h1
    · exact Or.inr ⟨hsub l y h1, h2⟩
  cases o with
  | stand k l y => exact hst k l y h
  | on l y =>
    rcases h with h1 | h1
    · exact Or.inl h1
    · exact Or.inr (hsub l y h1)
  | prevs k lo hi prev => intro j h1 h2; exact hst _ _ _ (h j h1 h2)
  | obss k lo hi obs => exact h
  | fresh k =>
    intro hm
    rcases hins k hm with h1 | h1
    · exact hkey (by simp [oblFresh, h1])
    · exact h h1
  | node nd k h' => exact h
  | below nd idx => intro j hj; exact hsub j nd (h j hj)
  | above nd idx =>
    intro j hj hm
    rcases hsup j nd hm with h1 | h1
    · exact hnode (by simp [oblNode, h1])
    · exact h j hj h1
  | nextIs l nd v => exact h

/-! ### the thread table -/

theorem th_default (s : St) (i : Nat) (h : s.ths.length ≤ i) : th s i = {} := by
  simp [th, List.getD, List.getElem?_eq_none h]

theorem th_setTh_same (s : St) (i : Nat) (t : Th) (h : i < s.ths.length) : th (setTh s i t) i = t := by
  simp [th, setTh, List.getD, List.getElem?_set_self h]

theorem th_setTh_other (s : St) (i j : Nat) (t : Th) (h : j ≠ i) : th (setTh s i t) j = th s j := by
  simp [th, setTh, List.getD, List.getElem?_set_ne (fun e => h e.symm)]

theorem th_lt_of_pc {s : St} {i : Nat} (h : (th s i).pc ≠ .idle) : i < s.ths.length := by
  apply Nat.lt_of_not_le
  intro hle
  rw [th_default s i hle] at h
  exact h rfl

theorem th_lt_of_pos {s : St} {i : Nat} {x : Nat} (h : (th s i).pos = some x) : i < s.ths.length := by
  apply Nat.lt_of_not_le
  intro hle
  rw [th_default s i hle] at h
  cases h

/-! ### the invariant -/

structure MInv (s : St) (ids : Nat → List Nat) : Prop where
  hpos : 0 < s.H
  head : ∃ h0, s.heap[0]? = some h0 ∧ h0.nexts.length = s.H
  chains : ∀ l, l < s.H → SChain (proj l s.heap) none (mnext s.heap l 0) (ids l)
  empty : ∀ l, s.H ≤ l → ids l = []
  noHead : ∀ l, 0 ∉ ids l
  sub : ∀ l n, n ∈ ids (l + 1) → n ∈ ids l
  tall : ∀ l n, n ∈ ids l → l < height s.heap n
  keys : ∀ k, k ∈ s.inserted ↔ ∃ n ∈ ids 0, mkey s.heap n = k
  pure : ∀ i, Pure s.H (th s i).pc
  threads : ∀ i, ∀ o ∈ thObls s.H (th s i), Holds s.heap s.inserted ids o
  distinctKeys : ∀ i j, i ≠ j → ∀ k, pcKey (th s i).pc = some k → pcKey (th s j).pc ≠ some k
  distinctNodes : ∀ i j, i ≠ j → ∀ n, pcNode (th s i).pc = some n → pcNode (th s j).pc ≠ some n

theorem minv_ids_lt {s : St} {ids} (h : MInv s ids) : ∀ l, ∀ n ∈ ids l, n < s.heap.length := by
  intro l n hn
  by_cases hl : l < s.H
  · have := Blue.SkipList.schain_lt (h.chains l hl) n hn
    rwa [proj_length] at this
  · rw [h.empty l (by omega)] at hn; cases hn

theorem minv_heap_pos {s : St} {ids} (h : MInv s ids) : 0 < s.heap.length := by
  obtain ⟨h0, hh0, _⟩ := h.head
  exact (List.getElem?_eq_some_iff.mp hh0).1

theorem minv_height_head {s : St} {ids} (h : MInv s ids) : height s.heap 0 = s.H := by
  obtain ⟨h0, hh0, hl⟩ := h.head
  simp [height, hh0, hl]

/-- every level is a sub-chain of level 0 -/
theorem minv_sub0 {s : St} {ids} (h : MInv s ids) : ∀ l n, n ∈ ids l → n ∈ ids 0 := by
  intro l
  induction l with
  | zero => intro n hn; exact hn
  | succ l ih => intro n hn; exact ih n (h.sub l n hn)

/-- the node loaded at level `l` from the head or from a level-`l` node is a level-`l` node -/
theorem minv_next {s : St} {ids} (h : MInv s ids) (l x n : Nat) (hl : l < s.H)
    (hx : x = 0 ∨ x ∈ ids l) (hn : mnext s.heap l x = some n) : n ∈ ids l := by
  have hc := h.chains l hl
  rcases hx with rfl | hx
  · rw [hn] at hc
    exact Blue.SkipList.schain_head_mem hc
  · exact Blue.SkipList.schain_next_mem hc x hx n (by rw [nextOf_proj]; exact hn)

/-- the key of a linked node is a linked key -/
theorem minv_key_linked {s : St} {ids} (h : MInv s ids) (l n : Nat) (hn : n ∈ ids l) : mkey s.heap n ∈ s.inserted :=
  (h.keys _).mpr ⟨n, minv_sub0 h l n hn, rfl⟩

/-- different nodes of a sorted chain carry different keys -/
theorem schain_key_inj {heap : List Node} {lo p ids} (h : SChain heap lo p ids) :
    ∀ x ∈ ids, ∀ y ∈ ids, keyOf heap x = keyOf heap y → x = y := by
  induction h with
  | nil => intro x hx; cases hx
  | @cons _ z nd rest hp _ hrest ih =>
    intro x hx y hy hxy
    simp only [List.mem_cons] at hx hy
    have hz : keyOf heap z = nd.key := Blue.SkipList.keyOf_of_get hp
    rcases hx with rfl | hx
    · rcases hy with rfl | hy
      · rfl
      · have := Blue.SkipList.schain_keys_gt hrest y hy
        omega
    · rcases hy with rfl | hy
      · have := Blue.SkipList.schain_keys_gt hrest x hx
        omega
      · exact ih x hx y hy hxy

theorem minv_key_inj {s : St} {ids} (h : MInv s ids) (x y : Nat) (hx : x ∈ ids 0) (hy : y ∈ ids 0)
    (hk : mkey s.heap x = mkey s.heap y) : x = y := by
  have := schain_key_inj (h.chains 0 h.hpos) x hx y hy
  rw [keyOf_proj, keyOf_proj] at this
  exact this hk

theorem mem_thObls_pc {H : Nat} {t : Th} {o : Obl} (h : o ∈ obls H t.pc) : o ∈ thObls H t :=
  List.mem_append_left _ h

/-- a thread's own node: allocated, not the head -/
theorem minv_pcNode {s : St} {ids} (h : MInv s ids) (j n : Nat) (hn : pcNode (th s j).pc = some n) :
    0 < n ∧ n < s.heap.length := by
  have hT := h.threads j
  cases hpc : (th s j).pc with
  | setNext nd k idx hh prev obs =>
    rw [hpc] at hn; simp only [pcNode, Option.some.injEq] at hn
    have := hT (.node nd k hh) (mem_thObls_pc (by rw [hpc]; simp [obls, insObls]))
    rw [← hn]; exact ⟨this.1, this.2.1⟩
  | cas nd k idx hh prev obs =>
    rw [hpc] at hn; simp only [pcNode, Option.some.injEq] at hn
    have := hT (.node nd k hh) (mem_thObls_pc (by rw [hpc]; simp [obls, insObls]))
    rw [← hn]; exact ⟨this.1, this.2.1⟩
  | adv nd k idx hh prev obs =>
    rw [hpc] at hn; simp only [pcNode, Option.some.injEq] at hn
    have := hT (.node nd k hh) (mem_thObls_pc (by rw [hpc]; simp [obls, insObls]))
    rw [← hn]; exact ⟨this.1, this.2.1⟩
  | _ => rw [hpc] at hn; cases hn

theorem not_nextIs_posObls {p : Option Nat} {l nd : Nat} {v : Option Nat} : Obl.nextIs l nd v ∉ posObls p := by
  cases p <;> simp [posObls]

/-- obligations about a pointer of a node name the thread's own node, which is not linked at
    that level -/
theorem minv_nextIs {s : St} {ids} (h : MInv s ids) (j : Nat) (l nd : Nat) (v : Option Nat)
    (ho : Obl.nextIs l nd v ∈ thObls s.H (th s j)) :
    pcNode (th s j).pc = some nd ∧ 0 < nd ∧ nd ∉ ids l := by
  have hT := h.threads j
  simp only [thObls, List.mem_append] at ho
  rcases ho with ho | ho
  · cases hpc : (th s j).pc with
    | cas nd' k idx hh prev obs =>
      have hab := hT (.above nd' idx) (mem_thObls_pc (by rw [hpc]; simp [obls, insObls]))
      have hnode := hT (.node nd' k hh) (mem_thObls_pc (by rw [hpc]; simp [obls, insObls]))
      rw [hpc] at ho
      simp only [obls, insObls, List.mem_cons, List.mem_append] at ho
      rcases ho with ho | ho
      · obtain ⟨e1, e2, _⟩ := Obl.nextIs.inj ho
        rw [e1, e2]
        exact ⟨rfl, hnode.1, hab idx (Nat.le_refl _)⟩
      · exfalso
        rcases ho with (ho | ho | ho | ho | ho | ho) | ho
        all_goals (try (cases ho))
        split at ho <;> simp at ho
    | _ =>
      exfalso
      rw [hpc] at ho
      simp [obls, insObls] at ho
      all_goals (try (split at ho <;> simp at ho))
  · exact absurd ho not_nextIs_posObls

end Blue.SkipML
