import Blue.Model.Damage
import Blue.Model.Crc32c
import Blue.Proofs.SstOpen
/-! Concrete witnesses for C09, checked by kernel evaluation on the bytes of a real SST (written by
    `SstBuilder`: 20 entries, 3 data blocks, index block, 32-byte filter block, final block; file 0
    of `bin/check C09` with seed 1): the theorems of `Blue.Proofs.SstOpen` are not vacuous, and the
    unchecksummed final block does let a changed `setsum` through (D-10). -/
namespace Blue.DamageExamples
open Blue.SstOpen Blue.Damage

def crc : List Nat → Nat := Blue.Crc32c.crc32c

/-- data blocks at `[0,197) [197,416) [416,590)`, index block `[590,678)`, filter block `[678,712)`,
    final block `[712,800)` with the setsum's 32 bytes at `[743,775)` -/
def fileA : List Nat := [
   82, 194, 1, 66, 26, 8, 0, 18, 0, 24, 195, 221, 227, 246, 231, 145, 205, 206, 39, 34, 10, 178, 233, 213, 77, 12, 80, 241, 195, 238, 86, 66,
   62, 8, 0, 18, 0, 24, 206, 131, 128, 128, 16, 34, 50, 26, 169, 242, 78, 216, 154, 254, 217, 40, 73, 104, 71, 221, 254, 69, 209, 162, 14, 198,
   31, 199, 205, 60, 54, 103, 152, 75, 108, 93, 57, 57, 246, 89, 193, 187, 253, 115, 132, 16, 184, 55, 108, 113, 173, 254, 117, 23, 136, 232, 248, 66,
   25, 8, 0, 18, 2, 0, 0, 24, 254, 255, 255, 255, 255, 255, 255, 255, 255, 1, 34, 6, 2, 73, 44, 15, 147, 37, 66, 62, 8, 0, 18, 1,
   1, 24, 182, 168, 192, 210, 147, 224, 163, 231, 107, 34, 45, 33, 176, 75, 165, 112, 105, 85, 195, 104, 4, 229, 62, 247, 163, 15, 66, 71, 4, 28,
   188, 195, 232, 140, 207, 211, 136, 230, 17, 95, 70, 182, 153, 236, 253, 129, 125, 166, 55, 46, 169, 149, 75, 196, 13, 220, 82, 4, 0, 0, 0, 0,
   93, 1, 0, 0, 0, 82, 216, 1, 66, 20, 8, 0, 18, 3, 1, 1, 255, 24, 255, 255, 255, 255, 255, 255, 255, 255, 255, 1, 34, 0, 66, 15,
   8, 1, 18, 3, 254, 97, 255, 24, 224, 130, 128, 128, 16, 34, 0, 66, 12, 8, 2, 18, 2, 98, 255, 24, 3, 34, 2, 148, 194, 66, 35, 8,
   0, 18, 3, 97, 0, 98, 24, 80, 34, 24, 126, 120, 44, 84, 190, 190, 110, 111, 3, 105, 103, 29, 132, 156, 158, 65, 16, 120, 53, 138, 90, 232,
   160, 197, 66, 18, 8, 1, 18, 2, 127, 255, 24, 187, 235, 129, 233, 244, 208, 254, 181, 87, 34, 0, 66, 22, 8, 0, 18, 3, 98, 1, 0, 24,
   155, 195, 174, 152, 219, 214, 148, 216, 50, 34, 3, 237, 194, 162, 66, 21, 8, 0, 18, 4, 127, 254, 1, 1, 24, 253, 255, 255, 255, 255, 255, 255,
   255, 255, 1, 34, 0, 66, 17, 8, 0, 18, 2, 128, 1, 24, 161, 2, 34, 6, 168, 70, 252, 17, 135, 231, 66, 27, 8, 1, 18, 2, 97, 254,
   24, 248, 140, 183, 214, 145, 216, 190, 132, 33, 34, 9, 233, 129, 56, 26, 122, 170, 95, 125, 227, 82, 4, 0, 0, 0, 0, 93, 1, 0, 0, 0,
   82, 171, 1, 66, 23, 8, 0, 18, 1, 254, 24, 254, 255, 255, 255, 255, 255, 255, 255, 255, 1, 34, 5, 157, 220, 160, 30, 170, 66, 27, 8, 1,
   18, 1, 1, 24, 170, 136, 221, 238, 189, 145, 232, 228, 213, 1, 34, 9, 129, 138, 12, 197, 103, 19, 61, 247, 223, 66, 16, 8, 2, 18, 0, 24,
   200, 135, 128, 128, 16, 34, 4, 48, 7, 151, 138, 66, 8, 8, 2, 18, 0, 24, 2, 34, 0, 66, 13, 8, 0, 18, 1, 255, 24, 130, 2, 34,
   3, 83, 69, 214, 66, 51, 8, 1, 18, 1, 1, 24, 2, 34, 42, 70, 3, 188, 252, 4, 111, 44, 119, 143, 205, 222, 15, 254, 250, 64, 161, 153,
   105, 169, 238, 35, 147, 236, 185, 85, 31, 246, 51, 110, 160, 67, 128, 129, 235, 53, 244, 70, 102, 96, 45, 51, 177, 74, 8, 40, 1, 50, 1, 98,
   56, 167, 2, 82, 4, 0, 0, 0, 0, 93, 1, 0, 0, 0, 82, 86, 66, 27, 8, 0, 18, 1, 1, 24, 182, 168, 192, 210, 147, 224, 163, 231,
   107, 34, 10, 104, 0, 112, 197, 1, 125, 113, 98, 44, 114, 66, 20, 8, 0, 18, 1, 129, 24, 0, 34, 11, 104, 197, 1, 112, 160, 3, 125, 184,
   74, 185, 69, 66, 22, 8, 0, 18, 2, 255, 98, 24, 167, 2, 34, 11, 104, 160, 3, 112, 206, 4, 125, 112, 110, 151, 98, 82, 4, 0, 0, 0,
   0, 93, 1, 0, 0, 0, 106, 32, 90, 210, 144, 36, 49, 164, 224, 169, 36, 120, 29, 22, 48, 178, 201, 2, 190, 162, 37, 26, 145, 48, 132, 108,
   57, 98, 157, 1, 160, 208, 237, 88, 130, 1, 11, 104, 206, 4, 112, 166, 5, 125, 191, 205, 228, 54, 138, 1, 11, 104, 166, 5, 112, 200, 5, 125,
   115, 197, 125, 234, 154, 1, 32, 232, 46, 125, 118, 88, 58, 242, 188, 235, 190, 141, 138, 229, 103, 92, 233, 122, 68, 200, 32, 230, 21, 207, 71, 98,
   99, 186, 2, 117, 129, 65, 219, 160, 1, 2, 168, 1, 255, 255, 255, 255, 255, 255, 255, 255, 255, 1, 145, 1, 200, 2, 0, 0, 0, 0, 0, 0]

/-- one bit of the final block's `setsum` flipped -/
def fileMeta : List Nat := apply fileA (.flip 750 0)
/-- one bit inside the first data block flipped -/
def fileData : List Nat := apply fileA (.flip 10 0)

/-- D-10 on real bytes: the file with a flipped setsum bit opens, is classified `metaOnly`, walks
    exactly as the pristine file does (all 20 entries, no error) and `metadata()` hands out the
    changed setsum with everything else unchanged -/
def d10Check : Bool :=
  match openSst crc fileA, openSst crc fileMeta with
  | .ok t, .ok t' =>
    decide (classifyFinal crc t fileMeta = .metaOnly)
      && decide (t'.forward crc = t.forward crc) && decide ((t.forward crc).2 = none)
      && decide ((t.forward crc).1.length = 20)
      && (match t.metadata crc, t'.metadata crc with
          | .ok m, .ok m' => decide (m'.setsum ≠ m.setsum) && decide ({ m' with setsum := m.setsum } = m)
          | _, _ => false)
  | _, _ => false

theorem d10_witness : d10Check = true := by decide +kernel

/-- a flipped bit in a data block: the file opens to the same index entries, the forward walk fails
    at once with `crc32c-failure`, the backward walk delivers a proper prefix of the pristine
    backward walk (the entries of the two intact blocks) and then fails with `crc32c-failure` -/
def burstCheck : Bool :=
  match openSst crc fileA, openSst crc fileData with
  | .ok t, .ok t' =>
    decide (t'.entries = t.entries) && decide (t'.forward crc = ([], some .crcFailure))
      && decide ((t'.backward crc).2 = some .crcFailure)
      && decide ((t'.backward crc).1 = (t.backward crc).1.take (t'.backward crc).1.length)
      && decide (0 < (t'.backward crc).1.length ∧ (t'.backward crc).1.length < (t.backward crc).1.length)
  | _, _ => false

theorem burst_witness : burstCheck = true := by decide +kernel

end Blue.DamageExamples
