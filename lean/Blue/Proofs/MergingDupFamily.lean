import Blue.Proofs.MergingMain
/-! Families of sorted child tables whose union may hold the SAME entry in several children
    (the flush window: the immutable memtable and its file; identical files re-created by a
    compaction).  The merged list `M` of (entry, owner) pairs is only *weakly* sorted; every child
    is strictly sorted.  Which of the equal entries belongs to which child is not determined by the
    children: `Same M M'` relates two owner assignments of the same children, and `swap_same`
    exchanges the owners of two equal entries. -/
namespace Blue.Cursor

variable {E : Type} {lt : E → E → Bool} {M : List (E × Nat)} {k : Nat}

/-- weakly sorted merge of `k` strictly sorted children -/
structure FamilyW (lt : E → E → Bool) (M : List (E × Nat)) (k : Nat) : Prop where
  sorted : (M.map (·.1)).Pairwise (fun a b => lt b a = false)
  owner : ∀ x ∈ M, x.2 < k
  child : ∀ j, j < k → (childList M j).Pairwise (fun a b => lt a b = true)

/-- a family without duplicates is a family with (possibly) duplicates -/
theorem Family.toW (st : StrictTotal lt) (fam : Family lt M k) : FamilyW lt M k where
  sorted := fam.sorted.imp (fun h => st.asymm _ _ h)
  owner := fam.owner
  child := fun j _ => by
    unfold childList
    exact List.Pairwise.sublist (List.Sublist.map _ List.filter_sublist) fam.sorted

/-- two owner assignments of the same entries to the same children -/
structure Same (M M' : List (E × Nat)) : Prop where
  ents : M'.map (·.1) = M.map (·.1)
  kids : ∀ j, childList M' j = childList M j

theorem Same.refl (M : List (E × Nat)) : Same M M := ⟨rfl, fun _ => rfl⟩

theorem Same.trans {M M' M'' : List (E × Nat)} (h1 : Same M M') (h2 : Same M' M'') : Same M M'' :=
  ⟨h2.ents.trans h1.ents, fun j => (h2.kids j).trans (h1.kids j)⟩

theorem Same.length {M M' : List (E × Nat)} (h : Same M M') : M'.length = M.length := by
  have := congrArg List.length h.ents
  simpa using this

theorem FamilyW.not_lt_of_mem_drop (st : StrictTotal lt) (fam : FamilyW lt M k) (p : Nat) (e e' : E) (o o' : Nat)
    (hp : M[p]? = some (e, o)) (hm : (e', o') ∈ M.drop p) : lt e' e = false := by
  have hplt : p < M.length := by
    rcases List.getElem?_eq_some_iff.mp hp with ⟨h, _⟩; exact h
  rw [List.drop_eq_getElem_cons hplt] at hm
  have hMp : M[p] = (e, o) := by
    have := List.getElem?_eq_getElem hplt; rw [this] at hp; exact Option.some.inj hp
  rcases List.mem_cons.mp hm with h | h
  · rw [hMp] at h; cases h; exact st.irrefl _
  · have hs := fam.sorted
    rw [← List.take_append_drop (p+1) M, List.map_append] at hs
    have hs2 := (List.pairwise_append.mp hs).2.2
    have he : e ∈ (M.take (p+1)).map (·.1) := by
      rw [List.mem_map]; refine ⟨(e, o), ?_, rfl⟩
      rw [List.mem_take_iff_getElem]; exact ⟨p, by omega, hMp⟩
    have he' : e' ∈ (M.drop (p+1)).map (·.1) := by
      rw [List.mem_map]; exact ⟨(e', o'), h, rfl⟩
    exact hs2 e he e' he'

theorem FamilyW.not_lt_of_mem_take (st : StrictTotal lt) (fam : FamilyW lt M k) (q : Nat) (e e' : E) (o o' : Nat)
    (hq : M[q]? = some (e, o)) (hm : (e', o') ∈ M.take (q+1)) : lt e e' = false := by
  have hqlt : q < M.length := by
    rcases List.getElem?_eq_some_iff.mp hq with ⟨h, _⟩; exact h
  have hMq : M[q] = (e, o) := by
    have := List.getElem?_eq_getElem hqlt; rw [this] at hq; exact Option.some.inj hq
  rw [List.take_add_one, List.getElem?_eq_getElem hqlt, hMq] at hm
  simp only [Option.toList_some, List.mem_append, List.mem_singleton] at hm
  rcases hm with h | h
  · have hs := fam.sorted
    rw [← List.take_append_drop q M, List.map_append] at hs
    have hs2 := (List.pairwise_append.mp hs).2.2
    have he' : e' ∈ (M.take q).map (·.1) := by
      rw [List.mem_map]; exact ⟨(e', o'), h, rfl⟩
    have he : e ∈ (M.drop q).map (·.1) := by
      rw [List.mem_map]; refine ⟨(e, o), ?_, rfl⟩
      rw [List.drop_eq_getElem_cons hqlt, hMq]; simp
    exact hs2 e' he' e he
  · cases h; exact st.irrefl _

/-- the shape in which the owners of two equal entries are exchanged -/
def swapL (A B C : List (E × Nat)) (e : E) (o j : Nat) : List (E × Nat) :=
  A ++ ((e, o) :: (B ++ ((e, j) :: C)))

theorem swapL_map (A B C : List (E × Nat)) (e : E) (o j : Nat) :
    (swapL A B C e j o).map (·.1) = (swapL A B C e o j).map (·.1) := by
  simp [swapL]

theorem swapL_child (A B C : List (E × Nat)) (e : E) (o j : Nat)
    (hBo : ∀ b ∈ B, b.2 ≠ o) (hBj : ∀ b ∈ B, b.2 ≠ j) (i : Nat) :
    childList (swapL A B C e j o) i = childList (swapL A B C e o j) i := by
  have hfo : B.filter (fun x => x.2 == o) = [] := by
    rw [List.filter_eq_nil_iff]; intro b hb; simpa using hBo b hb
  have hfj : B.filter (fun x => x.2 == j) = [] := by
    rw [List.filter_eq_nil_iff]; intro b hb; simpa using hBj b hb
  unfold childList swapL
  simp only [List.filter_append, List.filter_cons]
  by_cases hio : i = o
  · subst hio
    by_cases hij : i = j
    · subst hij; rfl
    · have h1 : (j == i) = false := by simpa using Ne.symm hij
      simp [h1, hfo]
  · have h1 : (o == i) = false := by simpa using Ne.symm hio
    by_cases hij : i = j
    · subst hij
      simp [h1, hfj]
    · have h2 : (j == i) = false := by simpa using Ne.symm hij
      simp [h1, h2]

theorem swapL_same (A B C : List (E × Nat)) (e : E) (o j : Nat)
    (hBo : ∀ b ∈ B, b.2 ≠ o) (hBj : ∀ b ∈ B, b.2 ≠ j) :
    Same (swapL A B C e o j) (swapL A B C e j o) :=
  ⟨swapL_map A B C e o j, swapL_child A B C e o j hBo hBj⟩

theorem swapL_before_lo (A B C : List (E × Nat)) (e : E) (o j : Nat) (i : Nat) :
    before (swapL A B C e j o) i A.length = before (swapL A B C e o j) i A.length := by
  unfold before swapL
  rw [List.take_left' rfl, List.take_left' rfl]

theorem swapL_before_hi (A B C : List (E × Nat)) (e : E) (o j : Nat) (i : Nat) :
    before (swapL A B C e j o) i (A.length + B.length + 2) = before (swapL A B C e o j) i (A.length + B.length + 2) := by
  have hsplit : ∀ x y : E × Nat, A ++ (x :: (B ++ (y :: C))) = (A ++ (x :: (B ++ [y]))) ++ C := by
    intro x y; simp
  unfold before swapL
  rw [hsplit, hsplit, List.take_left' (by simp; omega), List.take_left' (by simp; omega)]
  simp only [List.filter_append, List.filter_cons, List.length_append, List.filter_nil]
  by_cases hio : (o == i) = true <;> by_cases hij : (j == i) = true <;> simp [hio, hij]

theorem swapL_length (A B C : List (E × Nat)) (e : E) (o j : Nat) :
    (swapL A B C e o j).length = A.length + B.length + C.length + 2 := by
  simp [swapL]; omega

theorem swapL_get_lo (A B C : List (E × Nat)) (e : E) (o j : Nat) :
    (swapL A B C e o j)[A.length]? = some (e, o) := by
  unfold swapL
  rw [List.getElem?_append_right (Nat.le_refl _)]
  simp

theorem swapL_get_hi (A B C : List (E × Nat)) (e : E) (o j : Nat) :
    (swapL A B C e o j)[A.length + B.length + 1]? = some (e, j) := by
  unfold swapL
  rw [List.getElem?_append_right (by omega)]
  have : A.length + B.length + 1 - A.length = B.length + 1 := by omega
  rw [this, List.getElem?_cons_succ, List.getElem?_append_right (Nat.le_refl _)]
  simp

/-- exchanging the owners of two equal entries with nothing of either owner in between keeps the
    family -/
theorem swapL_family (A B C : List (E × Nat)) (e : E) (o j : Nat)
    (hBo : ∀ b ∈ B, b.2 ≠ o) (hBj : ∀ b ∈ B, b.2 ≠ j)
    (fam : FamilyW lt (swapL A B C e o j) k) : FamilyW lt (swapL A B C e j o) k where
  sorted := by rw [swapL_map]; exact fam.sorted
  owner := by
    intro x hx
    apply fam.owner
    unfold swapL at hx ⊢
    simp only [List.mem_append, List.mem_cons] at hx ⊢
    rcases hx with h | h | h | h | h
    · exact Or.inl h
    · exact Or.inr (Or.inr (Or.inr (Or.inl h)))
    · exact Or.inr (Or.inr (Or.inl h))
    · exact Or.inr (Or.inl h)
    · exact Or.inr (Or.inr (Or.inr (Or.inr h)))
  child := by
    intro i hi
    rw [swapL_child A B C e o j hBo hBj i]
    exact fam.child i hi

end Blue.Cursor
