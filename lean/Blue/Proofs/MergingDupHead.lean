import Blue.Proofs.MergingDupFamily
/-! Re-owning: in a positioned state of the merging cursor over children with duplicates the head
    of the heap shows the merged list's current entry, but need not be the child the owner
    assignment names.  The owners of the two equal entries can be exchanged without changing any
    child or any child's position, after which the head *is* the owner. -/
namespace Blue.Cursor
open Blue.Heap

variable {E : Type} {lt : E → E → Bool} {M : List (E × Nat)} {k : Nat}

theorem swapL_mid_eq (st : StrictTotal lt) {A B C : List (E × Nat)} {e : E} {o j : Nat}
    (fam : FamilyW lt (swapL A B C e o j) k) : ∀ b ∈ B, b.1 = e := by
  intro b hb
  have hs := fam.sorted
  unfold swapL at hs
  rw [List.map_append, List.map_cons, List.map_append, List.map_cons] at hs
  have h2 := (List.pairwise_append.mp hs).2.1
  obtain ⟨h3, h4⟩ := List.pairwise_cons.mp h2
  have h5 := (List.pairwise_append.mp h4).2.2
  have hbm : b.1 ∈ B.map (·.1) := List.mem_map.mpr ⟨b, hb, rfl⟩
  have g1 : lt b.1 e = false := h3 b.1 (List.mem_append.mpr (Or.inl hbm))
  have g2 : lt e b.1 = false := h5 b.1 hbm e (List.mem_cons_self)
  exact st.eq_of_not_lt _ _ g1 g2

theorem swapL_mid_owner_lo (st : StrictTotal lt) {A B C : List (E × Nat)} {e : E} {o j : Nat}
    (fam : FamilyW lt (swapL A B C e o j) k) : ∀ b ∈ B, b.2 ≠ o := by
  intro b hb hbo
  have hbe := swapL_mid_eq st fam b hb
  have hc := fam.child o (fam.owner (e, o) (by simp [swapL]))
  unfold childList swapL at hc
  simp only [List.filter_append, List.filter_cons, beq_self_eq_true, if_true, List.map_append, List.map_cons] at hc
  have h2 := (List.pairwise_append.mp hc).2.1
  have h3 := (List.pairwise_cons.mp h2).1
  have hmem : e ∈ List.map (fun x => x.1) (List.filter (fun x => x.2 == o) B) := by
    rw [List.mem_map]
    refine ⟨b, ?_, hbe⟩
    rw [List.mem_filter]; exact ⟨hb, by simpa using hbo⟩
  have := h3 e (List.mem_append.mpr (Or.inl hmem))
  rw [st.irrefl] at this; cases this

theorem swapL_mid_owner_hi (st : StrictTotal lt) {A B C : List (E × Nat)} {e : E} {o j : Nat}
    (fam : FamilyW lt (swapL A B C e o j) k) : ∀ b ∈ B, b.2 ≠ j := by
  intro b hb hbj
  have hbe := swapL_mid_eq st fam b hb
  have hc := fam.child j (fam.owner (e, j) (by simp [swapL]))
  unfold childList swapL at hc
  have hmem : e ∈ List.map (fun x => x.1) (List.filter (fun x => x.2 == j) B) := by
    rw [List.mem_map]
    refine ⟨b, ?_, hbe⟩
    rw [List.mem_filter]; exact ⟨hb, by simpa using hbj⟩
  have hBC : List.Pairwise (fun a b => lt a b = true)
      (List.map (fun x => x.1) (List.filter (fun x => x.2 == j) B) ++
        e :: List.map (fun x => x.1) (List.filter (fun x => x.2 == j) C)) := by
    by_cases hoj : (o == j) = true
    · simp only [List.filter_append, List.filter_cons, hoj, beq_self_eq_true, if_true, List.map_append, List.map_cons] at hc
      have h2 := (List.pairwise_append.mp hc).2.1
      exact (List.pairwise_cons.mp h2).2
    · have hoj' : (o == j) = false := by simpa using hoj
      simp only [List.filter_append, List.filter_cons, hoj', beq_self_eq_true, if_true, Bool.false_eq_true,
        if_false, List.map_append, List.map_cons] at hc
      exact (List.pairwise_append.mp hc).2.1
  have := (List.pairwise_append.mp hBC).2.2 e hmem e (List.mem_cons_self)
  rw [st.irrefl] at this; cases this

theorem decomp_fwd {p : Nat} {e : E} {o j : Nat} (hp : M[p]? = some (e, o)) (hm : (e, j) ∈ M.drop p)
    (hjo : j ≠ o) : ∃ A B C, A.length = p ∧ M = swapL A B C e o j := by
  have hplt : p < M.length := by
    rcases List.getElem?_eq_some_iff.mp hp with ⟨h, _⟩; exact h
  have hMp : M[p] = (e, o) := by
    have := List.getElem?_eq_getElem hplt; rw [this] at hp; exact Option.some.inj hp
  rw [List.drop_eq_getElem_cons hplt, hMp] at hm
  rcases List.mem_cons.mp hm with h | h
  · exact absurd (congrArg Prod.snd h) hjo
  · obtain ⟨B, C, hBC⟩ := List.mem_iff_append.mp h
    refine ⟨M.take p, B, C, by simp; omega, ?_⟩
    unfold swapL
    rw [← hBC, ← hMp, ← List.drop_eq_getElem_cons hplt, List.take_append_drop]

theorem decomp_rev {q : Nat} {e : E} {o j : Nat} (hq : M[q]? = some (e, o)) (hm : (e, j) ∈ M.take (q+1))
    (hjo : j ≠ o) : ∃ A B C, A.length + B.length + 1 = q ∧ M = swapL A B C e j o := by
  have hqlt : q < M.length := by
    rcases List.getElem?_eq_some_iff.mp hq with ⟨h, _⟩; exact h
  have hMq : M[q] = (e, o) := by
    have := List.getElem?_eq_getElem hqlt; rw [this] at hq; exact Option.some.inj hq
  rw [List.take_add_one, List.getElem?_eq_getElem hqlt, hMq] at hm
  simp only [Option.toList_some, List.mem_append, List.mem_singleton] at hm
  rcases hm with h | h
  · obtain ⟨A, B, hAB⟩ := List.mem_iff_append.mp h
    have hlen : (M.take q).length = q := by simp; omega
    refine ⟨A, B, M.drop (q+1), ?_, ?_⟩
    · rw [hAB] at hlen; simp at hlen; omega
    · unfold swapL
      have : M = M.take q ++ ((e, o) :: M.drop (q+1)) := by
        rw [← hMq, ← List.drop_eq_getElem_cons hqlt, List.take_append_drop]
      conv => lhs; rw [this, hAB]
      simp
  · exact absurd (congrArg Prod.snd h) hjo

/-- Forward: all children at their first entry at or after `p`, head a comparator-minimum.  Then
    for some owner assignment of the same children the head child is the owner of the `p`-th
    merged entry, positioned on it. -/
theorem reown_fwd (st : StrictTotal lt) (fam : FamilyW lt M k) (cs : List (Ref E)) (p : Nat)
    (hall : AllF M k cs p) (hmin : HeadMin lt true cs) (e : E) (o : Nat) (hp : M[p]? = some (e, o)) :
    ∃ (M' : List (E × Nat)) (o' : Nat) (t : List (Ref E)), Same M M' ∧ FamilyW lt M' k
      ∧ (∀ i, before M' i p = before M i p) ∧ M'[p]? = some (e, o') ∧ cs = fAt M' o' p :: t := by
  have ho : o < k := fam.owner (e, o) (List.mem_of_getElem? hp)
  have hmem : fAt M o p ∈ cs := by
    rw [hall.mem_iff, List.mem_map]; exact ⟨o, by simpa using ho, rfl⟩
  cases cs with
  | nil => cases hmem
  | cons r t =>
    have h1 := hmin r (by simp) (fAt M o p) hmem
    unfold Merging.cmp at h1
    rw [kv_fAt, childList_get_owner M o p e hp] at h1
    obtain ⟨e'', hr, hle⟩ := isLess_fwd_some_false h1
    have hrm : r ∈ (List.range k).map (fun j => fAt M j p) := by
      rw [← hall.mem_iff]; simp
    rw [List.mem_map] at hrm
    obtain ⟨j, _, rfl⟩ := hrm
    rw [kv_fAt] at hr
    have hmd := childList_get_mem M j p e'' hr
    have hge := fam.not_lt_of_mem_drop st p e e'' o j hp hmd
    have : e'' = e := st.eq_of_not_lt _ _ hge hle
    subst this
    by_cases hjo : j = o
    · subst hjo
      exact ⟨M, j, t, Same.refl M, fam, fun _ => rfl, hp, rfl⟩
    · obtain ⟨A, B, C, hA, hM⟩ := decomp_fwd hp hmd hjo
      subst hM
      subst hA
      have hBo := swapL_mid_owner_lo st fam
      have hBj := swapL_mid_owner_hi st fam
      have hsame := swapL_same A B C e'' o j hBo hBj
      refine ⟨swapL A B C e'' j o, j, t, hsame, swapL_family A B C e'' o j hBo hBj fam,
        fun i => swapL_before_lo A B C e'' o j i, swapL_get_lo A B C e'' j o, ?_⟩
      unfold fAt
      rw [hsame.kids j, swapL_before_lo A B C e'' o j j]

/-- Reverse: all children at their last entry before `q+1`, head a comparator-minimum (a maximum
    of the entries). -/
theorem reown_rev (st : StrictTotal lt) (fam : FamilyW lt M k) (cs : List (Ref E)) (q : Nat)
    (hall : AllG M k cs (q+1)) (hmin : HeadMin lt false cs) (e : E) (o : Nat) (hq : M[q]? = some (e, o)) :
    ∃ (M' : List (E × Nat)) (o' : Nat) (t : List (Ref E)), Same M M' ∧ FamilyW lt M' k
      ∧ (∀ i, before M' i (q+1) = before M i (q+1)) ∧ M'[q]? = some (e, o') ∧ cs = gAt M' o' (q+1) :: t := by
  have ho : o < k := fam.owner (e, o) (List.mem_of_getElem? hq)
  have hmem : gAt M o (q+1) ∈ cs := by
    rw [hall.mem_iff, List.mem_map]; exact ⟨o, by simpa using ho, rfl⟩
  cases cs with
  | nil => cases hmem
  | cons r t =>
    have h1 := hmin r (by simp) (gAt M o (q+1)) hmem
    unfold Merging.cmp at h1
    rw [kv_gAt_succ_owner q e o hq] at h1
    obtain ⟨e'', hr, hle⟩ := isLess_rev_some_false h1
    have hrm : r ∈ (List.range k).map (fun j => gAt M j (q+1)) := by
      rw [← hall.mem_iff]; simp
    rw [List.mem_map] at hrm
    obtain ⟨j, _, rfl⟩ := hrm
    have hmd := gAt_kv_mem j (q+1) e'' hr
    have hge := fam.not_lt_of_mem_take st q e e'' o j hq hmd
    have : e'' = e := st.eq_of_not_lt _ _ hle hge
    subst this
    by_cases hjo : j = o
    · subst hjo
      exact ⟨M, j, t, Same.refl M, fam, fun _ => rfl, hq, rfl⟩
    · obtain ⟨A, B, C, hA, hM⟩ := decomp_rev hq hmd hjo
      subst hM
      subst hA
      have hBo := swapL_mid_owner_hi st fam
      have hBj := swapL_mid_owner_lo st fam
      have hsame := swapL_same A B C e'' j o hBj hBo
      have hq1 : A.length + B.length + 1 + 1 = A.length + B.length + 2 := by omega
      refine ⟨swapL A B C e'' o j, j, t, hsame, swapL_family A B C e'' j o hBj hBo fam,
        fun i => by rw [hq1]; exact swapL_before_hi A B C e'' j o i, swapL_get_hi A B C e'' o j, ?_⟩
      unfold gAt
      rw [hsame.kids j, hq1, swapL_before_hi A B C e'' j o j]

end Blue.Cursor
