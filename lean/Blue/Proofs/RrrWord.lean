import Blue.Proofs.RrrWordBits
import Blue.Proofs.RrrWordTab
import Blue.Proofs.RrrWordCodec
import Blue.Proofs.RrrWordSelect
/-! The word level of `scrunch::bit_vector::rrr` / `cf_rrr` (property C19): `wordSpec : WordSpec`,
    and its headline parts under their own names (`decode_encode`, `encode_fits`, `select1_ofBits`,
    `select0_ofBits` are proved in `RrrWordCodec` / `RrrWordSelect`, namespace `Blue.Rrr`). -/
namespace Blue.Rrr
open Blue.BitArr

theorem ofBits_lt (ch : List Bool) (h : ch.length ≤ 63) : ofBits ch < 2 ^ 63 := by
  have h1 := ofBits_lt_pow ch
  have h2 : 2 ^ ch.length ≤ 2 ^ 63 := Nat.pow_le_pow_right (by omega) h
  omega

theorem popcount_ofBits (ch : List Bool) (h : ch.length ≤ 63) : popcount (ofBits ch) = ch.count true :=
  popcount_ofBits' ch (by omega)

theorem bitAt_ofBits (ch : List Bool) (i : Nat) : bitAt (ofBits ch) i = ch.getD i false :=
  bitAt_ofBits' ch i

theorem lowPop_ofBits (ch : List Bool) (i : Nat) (h : ch.length ≤ 63) :
    lowPop (ofBits ch) i = (ch.take i).count true :=
  lowPop_ofBits' ch i (by omega)

theorem encode_class (w : Nat) : (encode w).2 = popcount w := encode_class' w

theorem popcount_le (w : Nat) (h : w < 2 ^ 63) : popcount w ≤ 63 := popcount_le_of_lt w h

theorem wordsOf_length (bits : List Bool) : (wordsOf bits).length = (bits.length + 62) / 63 :=
  wordsAux_length bits.length bits (Nat.le_refl _)

theorem wordsOf_get (bits : List Bool) (k : Nat) (h : k < (wordsOf bits).length) :
    (wordsOf bits)[k]? = some (ofBits ((bits.drop (63 * k)).take 63)) :=
  wordsAux_get bits.length bits k (Nat.le_refl _) h

/-- **C19** the word-level facts the `rrr` / `cf_rrr` block layouts rely on -/
theorem wordSpec : WordSpec where
  ofBits_lt := ofBits_lt
  popcount_ofBits := popcount_ofBits
  bitAt_ofBits := fun ch i _ => bitAt_ofBits ch i
  lowPop_ofBits := fun ch i h _ => lowPop_ofBits ch i h
  select1_ofBits := select1_ofBits
  select0_ofBits := select0_ofBits
  encode_class := fun w _ => encode_class w
  popcount_le := popcount_le
  encode_fits := encode_fits
  decode_encode := decode_encode
  wordsOf_length := wordsOf_length
  wordsOf_get := wordsOf_get

/-! ### non-vacuity on concrete words (kernel evaluation of the model, no `#eval`) -/

example : encode 0b101100 = (26, 3) ∧ encode 0b111 = (0, 3) ∧ encode (2 ^ 62) = (62, 1) := by decide +kernel
example : decode (encode 0b101100).1 (encode 0b101100).2 = some 0b101100 := by decide
example : decode 26 3 = some 0b101100 ∧ decode 62 1 = some (2 ^ 62) := by decide +kernel
example : (encode 0b101100).1 < 2 ^ (lTab.getD (popcount 0b101100) 0) := by decide
example : decode (encode (2 ^ 63 - 2)).1 (encode (2 ^ 63 - 2)).2 = some (2 ^ 63 - 2) := by decide +kernel
example : decode (encode 0x2aaaaaaaaaaaaaaa).1 (encode 0x2aaaaaaaaaaaaaaa).2 = some 0x2aaaaaaaaaaaaaaa := by
  decide +kernel
example : encode 0 = (0, 0) ∧ encode (2 ^ 63 - 1) = (0, 63) := by decide +kernel
example : select1 0b101100 2 = some 4 ∧ Blue.BitVec.select [false, false, true, true, false, true] 2 = some 4 := by
  decide
example : select1 0b101100 4 = none ∧ select1 0b101100 0 = some 0 := by decide
example : select0 0b101100 3 = some 5 ∧ select0 0b101100 60 = some 63 ∧ select0 0b101100 61 = none := by
  decide +kernel
example : wordsOf (List.replicate 64 true) = [2 ^ 63 - 1, 1] := by decide +kernel

end Blue.Rrr

#print axioms Blue.Rrr.wordSpec
#print axioms Blue.Rrr.decode_encode
#print axioms Blue.Rrr.encode_fits
#print axioms Blue.Rrr.select1_ofBits
#print axioms Blue.Rrr.select0_ofBits
