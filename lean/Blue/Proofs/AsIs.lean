import Blue.Model.AsIs
/-! The defects as theorems about the code as it stands: concrete inputs on which the unrepaired
    operations disagree with the reference cursor. -/
namespace Blue.Cursor

/-- bounds over keys 1..5 with the window `[2, 3]` (entries are their keys) -/
def cfg23 : BoundsCfg Nat where
  startUnbounded := false
  endUnbounded := false
  endIncluded := true
  geStart := fun e => decide (e ≥ 2)
  geEnd := fun e => decide (e ≥ 3)
  eqEnd := fun e => decide (e = 3)
  belowStart := fun e => decide (e < 2)
  aboveEnd := fun e => decide (e > 3)

/-- **D-19**: `seek(5)` (past the end bound) then `prev` shows key 4, which is outside `[2, 3]`;
    the reference cursor over the window `[2, 3]` shows 3 -/
theorem bounds_prevOld_counterexample :
    let b0 : Bounds Nat := Bounds.new cfg23 ⟨[1, 2, 3, 4, 5], 0⟩
    let b1 := Bounds.seek cfg23 7 (fun e => decide (e ≥ 5)) b0
    (Bounds.prevOld cfg23 b1).kv = some 4
      ∧ (Ref.prev (Ref.seek (fun e => decide (e ≥ 5)) ⟨[2, 3], 0⟩)).kv = some 3
      ∧ (Bounds.prev cfg23 7 b1).kv = some 3 := by
  decide

/-- entries `(key, isTombstone)` -/
def tombOf : Nat × Bool → Bool := fun e => e.2

/-- **D-2**: children `[a, b=⊥, c]` and `[d]`: walking forward, the unrepaired `next` leaves the
    first child at the tombstone and shows `a, d`; the reference shows `a, b, c, d` -/
theorem concat_nextOld_counterexample :
    let m0 : Concat (Nat × Bool) := Concat.new [⟨[(1, false), (2, true), (3, false)], 0⟩, ⟨[(4, false)], 0⟩]
    let m1 := Concat.nextOld tombOf m0
    let m2 := Concat.nextOld tombOf m1
    (m1.kv, m2.kv) = (some (1, false), some (4, false))
      ∧ ((Concat.next m0).kv, (Concat.next (Concat.next m0)).kv) = (some (1, false), some (2, true)) := by
  decide

/-- **D-18**: children `[10] [20] [30]`, `seek(≥ 20)`: the unrepaired search stops at the left of
    two adjacent children and positions at nothing; the repaired one finds 20 -/
theorem concat_seekOld_counterexample :
    let m0 : Concat Nat := Concat.new [⟨[10], 0⟩, ⟨[20], 0⟩, ⟨[30], 0⟩]
    (Concat.seekOld (fun e => decide (e ≥ 20)) m0).kv = none
      ∧ (Concat.seek (fun e => decide (e ≥ 20)) m0).kv = some 20 := by
  decide +kernel

end Blue.Cursor

#print axioms Blue.Cursor.bounds_prevOld_counterexample
#print axioms Blue.Cursor.concat_nextOld_counterexample
#print axioms Blue.Cursor.concat_seekOld_counterexample
