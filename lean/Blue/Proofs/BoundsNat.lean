import Blue.Model.BoundsC
import Blue.Proofs.Cur
/-! The generic bounds cursor is natural in its child (for admissible sets containing the two
    predicates it seeks with itself). -/
namespace Blue.Cursor
namespace BoundsC
variable {E : Type} {A : (E → Bool) → Prop} {C D : Cur E} (h : Hom A C D) (cfg : BoundsCfg E) (fuel : Nat)

def map (b : BoundsC C) : BoundsC D := ⟨h.f b.c, b.st⟩

theorem key_nat (b : BoundsC C) : key D (map h b) = key C b := by
  simp only [key, map, h.kv]

theorem checkStart_nat (b : BoundsC C) : checkStart D cfg (map h b) = map h (checkStart C cfg b) := by
  simp only [checkStart, key_nat]
  cases key C b with
  | none => rfl
  | some e => simp only; split <;> rfl

theorem checkEnd_nat (b : BoundsC C) : checkEnd D cfg (map h b) = map h (checkEnd C cfg b) := by
  simp only [checkEnd, key_nat]
  cases key C b with
  | none => rfl
  | some e => simp only; split <;> rfl

theorem stepBack_nat (c : C.σ) : stepBackIfSome D (h.f c) = h.f (stepBackIfSome C c) := by
  simp only [stepBackIfSome, h.kv]
  split
  · rw [h.prev]
  · rfl

theorem skipEq_nat : ∀ (n : Nat) (c : C.σ), skipEq D cfg n (h.f c) = h.f (skipEq C cfg n c) := by
  intro n
  induction n with
  | zero => intros; rfl
  | succ n ih =>
    intro c
    simp only [skipEq, h.kv]
    cases C.kv c with
    | none => rfl
    | some e =>
      simp only
      split
      · rw [← h.next, ih]
      · rfl

theorem nextLoop_nat : ∀ (n : Nat) (b : BoundsC C), nextLoop D cfg n (map h b) = map h (nextLoop C cfg n b) := by
  intro n
  induction n with
  | zero => intros; rfl
  | succ n ih =>
    intro b
    simp only [nextLoop]
    have e : (⟨D.next (map h b).c, .positioned⟩ : BoundsC D) = map h ⟨C.next b.c, .positioned⟩ := by
      simp only [map, h.next]
    rw [e, checkStart_nat, checkEnd_nat]
    have hst : (map h b).st = b.st := rfl
    rw [hst]
    split
    · rfl
    · have hst2 : ∀ x : BoundsC C, (map h x).st = x.st := fun _ => rfl
      rw [hst2]
      split
      · rfl
      · rw [ih]

theorem prevLoop_nat : ∀ (n : Nat) (b : BoundsC C), prevLoop D cfg n (map h b) = map h (prevLoop C cfg n b) := by
  intro n
  induction n with
  | zero => intros; rfl
  | succ n ih =>
    intro b
    simp only [prevLoop]
    have e : (⟨D.prev (map h b).c, .positioned⟩ : BoundsC D) = map h ⟨C.prev b.c, .positioned⟩ := by
      simp only [map, h.prev]
    rw [e, checkEnd_nat, checkStart_nat]
    have hst : (map h b).st = b.st := rfl
    rw [hst]
    split
    · rfl
    · have hst2 : ∀ x : BoundsC C, (map h x).st = x.st := fun _ => rfl
      rw [hst2]
      split
      · rfl
      · rw [ih]

theorem seekToFirst_nat (hs : A cfg.geStart) (b : BoundsC C) :
    seekToFirst D cfg (map h b) = map h (seekToFirst C cfg b) := by
  simp only [seekToFirst]
  have e : (if cfg.startUnbounded = true then D.first (map h b).c else D.seek cfg.geStart (map h b).c)
      = h.f (if cfg.startUnbounded = true then C.first b.c else C.seek cfg.geStart b.c) := by
    split
    · exact (h.first _).symm
    · exact (h.seek _ hs _).symm
  rw [e, stepBack_nat]
  exact checkEnd_nat h cfg ⟨_, .beforeStart⟩

theorem seekToLast_nat (he : A cfg.geEnd) (b : BoundsC C) :
    seekToLast D cfg fuel (map h b) = map h (seekToLast C cfg fuel b) := by
  simp only [seekToLast]
  have e : (if cfg.endUnbounded = true then D.last (map h b).c
            else if cfg.endIncluded = true then skipEq D cfg fuel (D.seek cfg.geEnd (map h b).c)
            else D.seek cfg.geEnd (map h b).c)
      = h.f (if cfg.endUnbounded = true then C.last b.c
            else if cfg.endIncluded = true then skipEq C cfg fuel (C.seek cfg.geEnd b.c)
            else C.seek cfg.geEnd b.c) := by
    split
    · exact (h.last _).symm
    · split
      · show skipEq D cfg fuel (D.seek cfg.geEnd (h.f b.c)) = _
        rw [← h.seek _ he, skipEq_nat]
      · exact (h.seek _ he _).symm
  rw [e]
  exact checkStart_nat h cfg ⟨_, .afterEnd⟩

def hom (hs : A cfg.geStart) (he : A cfg.geEnd) : Hom A (cur C cfg fuel) (cur D cfg fuel) where
  f := map h
  first := fun b => (seekToFirst_nat h cfg hs b).symm
  last := fun b => (seekToLast_nat h cfg fuel he b).symm
  next := fun b => (nextLoop_nat h cfg fuel b).symm
  prev := fun b => (prevLoop_nat h cfg fuel b).symm
  seek := fun pred hp b => by
    show map h (seek C cfg fuel pred b) = seek D cfg fuel pred (map h b)
    simp only [seek]
    have e : (⟨D.seek pred (map h b).c, .positioned⟩ : BoundsC D) = map h ⟨C.seek pred b.c, .positioned⟩ := by
      simp only [map, h.seek pred hp]
    rw [e, checkEnd_nat, checkStart_nat]
    have hst2 : ∀ x : BoundsC C, (map h x).st = x.st := fun _ => rfl
    rw [hst2]
    split
    · rw [seekToFirst_nat h cfg hs]
      exact (nextLoop_nat h cfg fuel _).symm
    · rfl
  kv := fun b => key_nat h b
  ok := fun b => h.ok b.c

end BoundsC
end Blue.Cursor
