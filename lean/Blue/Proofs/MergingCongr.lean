import Blue.Model.Cursor
/-! **C05 / C11** the merging-cursor model only ever compares entries its children hold: two orders
    that agree on those entries drive it identically (`merging_run_congr`).  Used to carry the
    theorems, which ask for a strict total order on the *whole* entry type, to the comparator the
    code has (`KeyRef::cmp`: key, then timestamp — the value is not compared), on inputs whose
    `(key, timestamp)` pairs identify the entries. -/
namespace Blue.Heap
variable {α : Type}

theorem mem_swap {l : List α} {i j : Nat} {x : α} (h : x ∈ swap l i j) : x ∈ l := by
  unfold swap at h
  split at h
  · rename_i a b ha hb
    rcases List.mem_or_eq_of_mem_set h with h | h
    · rcases List.mem_or_eq_of_mem_set h with h | h
      · exact h
      · subst h; exact List.mem_of_getElem? hb
    · subst h; exact List.mem_of_getElem? ha
  · exact h

theorem pickChild_congr (lt lt' : α → α → Bool) (l : List α) (i : Nat)
    (h : ∀ x ∈ l, ∀ y ∈ l, lt x y = lt' x y) : pickChild lt l i = pickChild lt' l i := by
  unfold pickChild
  cases h1 : l[2*i+1]? with
  | none => rfl
  | some xl =>
    cases h2 : l[2*i+2]? with
    | none => rfl
    | some xr =>
      simp only
      rw [h xl (List.mem_of_getElem? h1) xr (List.mem_of_getElem? h2)]

theorem mem_percolateDown (lt : α → α → Bool) : ∀ (fuel : Nat) (l : List α) (i : Nat) (x : α),
    x ∈ percolateDown lt l i fuel → x ∈ l
  | 0, _, _, _, h => h
  | f + 1, l, i, x, h => by
    simp only [percolateDown] at h
    split at h
    · exact h
    · split at h
      · split at h
        · exact h
        · exact mem_swap (mem_percolateDown lt f _ _ x h)
      · exact h

theorem percolateDown_congr (lt lt' : α → α → Bool) : ∀ (fuel : Nat) (l : List α) (i : Nat),
    (∀ x ∈ l, ∀ y ∈ l, lt x y = lt' x y) → percolateDown lt l i fuel = percolateDown lt' l i fuel
  | 0, _, _, _ => rfl
  | f + 1, l, i, h => by
    simp only [percolateDown]
    rw [pickChild_congr lt lt' l i h]
    cases pickChild lt' l i with
    | none => rfl
    | some c =>
      simp only
      cases h1 : l[i]? with
      | none => rfl
      | some xi =>
        cases h2 : l[c]? with
        | none => rfl
        | some xc =>
          simp only
          rw [h xi (List.mem_of_getElem? h1) xc (List.mem_of_getElem? h2)]
          split
          · rfl
          · exact percolateDown_congr lt lt' f (swap l i c) c
              (fun x hx y hy => h x (mem_swap hx) y (mem_swap hy))

theorem mem_heapifyFrom (lt : α → α → Bool) : ∀ (k : Nat) (l : List α) (x : α),
    x ∈ heapifyFrom lt l k → x ∈ l
  | 0, _, _, h => h
  | k + 1, l, x, h => by
    simp only [heapifyFrom] at h
    exact mem_percolateDown lt _ _ _ x (mem_heapifyFrom lt k _ x h)

theorem heapifyFrom_congr (lt lt' : α → α → Bool) : ∀ (k : Nat) (l : List α),
    (∀ x ∈ l, ∀ y ∈ l, lt x y = lt' x y) → heapifyFrom lt l k = heapifyFrom lt' l k
  | 0, _, _ => rfl
  | k + 1, l, h => by
    simp only [heapifyFrom]
    rw [percolateDown_congr lt lt' l.length l k h]
    exact heapifyFrom_congr lt lt' k _
      (fun x hx y hy => h x (mem_percolateDown lt' _ _ _ x hx) y (mem_percolateDown lt' _ _ _ y hy))

theorem mem_heapify (lt : α → α → Bool) (l : List α) (x : α) (h : x ∈ heapify lt l) : x ∈ l :=
  mem_heapifyFrom lt _ l x h

theorem heapify_congr (lt lt' : α → α → Bool) (l : List α)
    (h : ∀ x ∈ l, ∀ y ∈ l, lt x y = lt' x y) : heapify lt l = heapify lt' l :=
  heapifyFrom_congr lt lt' _ l h

end Blue.Heap

namespace Blue.Cursor
variable {E : Type}

/-- every entry of the child's table satisfies `S` -/
def Inside (S : E → Prop) (c : Ref E) : Prop := ∀ e ∈ c.xs, S e

/-- the two orders agree on `S` -/
def AgreeOn (S : E → Prop) (lt lt' : E → E → Bool) : Prop := ∀ x y, S x → S y → lt x y = lt' x y

theorem Ref.kv_mem {c : Ref E} {e : E} (h : c.kv = some e) : e ∈ c.xs := by
  unfold Ref.kv at h
  split at h
  · cases h
  · exact List.mem_of_getElem? h

theorem Ref.first_xs (c : Ref E) : c.first.xs = c.xs := rfl
theorem Ref.last_xs (c : Ref E) : c.last.xs = c.xs := rfl
theorem Ref.seek_xs (p : E → Bool) (c : Ref E) : (c.seek p).xs = c.xs := rfl
theorem Ref.next_xs (c : Ref E) : c.next.xs = c.xs := by unfold Ref.next; split <;> rfl
theorem Ref.prev_xs (c : Ref E) : c.prev.xs = c.xs := by unfold Ref.prev; split <;> rfl

section
variable {S : E → Prop} {lt lt' : E → E → Bool} (hag : AgreeOn S lt lt')
include hag

theorem cmp_congr (fwd : Bool) {a b : Ref E} (ha : Inside S a) (hb : Inside S b) :
    Merging.cmp lt fwd a b = Merging.cmp lt' fwd a b := by
  unfold Merging.cmp isLess
  cases hka : a.kv with
  | none => cases fwd <;> rfl
  | some x =>
    cases hkb : b.kv with
    | none => cases fwd <;> rfl
    | some y =>
      have hx := ha x (Ref.kv_mem hka)
      have hy := hb y (Ref.kv_mem hkb)
      cases fwd
      · exact hag y x hy hx
      · exact hag x y hx hy

theorem cmp_congr_list (fwd : Bool) (l : List (Ref E)) (hl : ∀ c ∈ l, Inside S c) :
    ∀ x ∈ l, ∀ y ∈ l, Merging.cmp lt fwd x y = Merging.cmp lt' fwd x y :=
  fun x hx y hy => cmp_congr hag fwd (hl x hx) (hl y hy)

end

theorem inside_map {S : E → Prop} (f : Ref E → Ref E) (hf : ∀ c, (f c).xs = c.xs) (l : List (Ref E))
    (hl : ∀ c ∈ l, Inside S c) : ∀ c ∈ l.map f, Inside S c := by
  intro c hc
  rw [List.mem_map] at hc
  obtain ⟨d, hd, rfl⟩ := hc
  intro e he
  rw [hf d] at he
  exact hl d hd e he

theorem inside_modifyHead {S : E → Prop} (f : Ref E → Ref E) (hf : ∀ c, (f c).xs = c.xs) (l : List (Ref E))
    (hl : ∀ c ∈ l, Inside S c) : ∀ c ∈ Merging.modifyHead f l, Inside S c := by
  cases l with
  | nil => intro c hc; cases hc
  | cons a t =>
    intro c hc
    simp only [Merging.modifyHead, List.mem_cons] at hc
    rcases hc with rfl | hc
    · intro e he
      rw [hf a] at he
      exact hl a List.mem_cons_self e he
    · exact hl c (List.mem_cons_of_mem _ hc)

/-- one operation of the merging cursor does the same under both orders, and keeps the children's
    tables -/
theorem merging_step_congr {S : E → Prop} {lt lt' : E → E → Bool} (hag : AgreeOn S lt lt')
    (m : Merging E) (hm : ∀ c ∈ m.cs, Inside S c) (op : Op E) :
    Merging.step lt m op = Merging.step lt' m op ∧ ∀ c ∈ (Merging.step lt' m op).cs, Inside S c := by
  cases op with
  | first =>
    have h1 := inside_map (S := S) (fun c => c.first.next) (fun c => by rw [Ref.next_xs, Ref.first_xs]) m.cs hm
    have hc := Heap.heapify_congr _ _ _ (cmp_congr_list hag true _ h1)
    have h2 : ∀ c ∈ Heap.heapify (Merging.cmp lt' true) (m.cs.map (fun c => c.first.next)), Inside S c :=
      fun c hc => h1 c (Heap.mem_heapify _ _ c hc)
    refine ⟨?_, ?_⟩
    · simp only [Merging.step, Merging.seekToFirst]; rw [hc]
    · simp only [Merging.step, Merging.seekToFirst]
      exact inside_modifyHead Ref.first Ref.first_xs _ h2
  | last =>
    have h1 := inside_map (S := S) (fun c => c.last.prev) (fun c => by rw [Ref.prev_xs, Ref.last_xs]) m.cs hm
    have hc := Heap.heapify_congr _ _ _ (cmp_congr_list hag false _ h1)
    have h2 : ∀ c ∈ Heap.heapify (Merging.cmp lt' false) (m.cs.map (fun c => c.last.prev)), Inside S c :=
      fun c hc => h1 c (Heap.mem_heapify _ _ c hc)
    refine ⟨?_, ?_⟩
    · simp only [Merging.step, Merging.seekToLast]; rw [hc]
    · simp only [Merging.step, Merging.seekToLast]
      exact inside_modifyHead Ref.last Ref.last_xs _ h2
  | seek p =>
    have h1 := inside_map (S := S) (Ref.seek p) (Ref.seek_xs p) m.cs hm
    have hc := Heap.heapify_congr _ _ _ (cmp_congr_list hag true _ h1)
    refine ⟨?_, ?_⟩
    · simp only [Merging.step, Merging.seek]; rw [hc]
    · simp only [Merging.step, Merging.seek]
      exact fun c hc => h1 c (Heap.mem_heapify _ _ c hc)
  | next =>
    simp only [Merging.step, Merging.next]
    cases m.fwd with
    | true =>
      simp only [if_true]
      have h1 := inside_modifyHead (S := S) Ref.next Ref.next_xs m.cs hm
      have hc := Heap.percolateDown_congr _ _ (Merging.modifyHead Ref.next m.cs).length _ 0
        (cmp_congr_list hag true _ h1)
      refine ⟨by rw [hc], ?_⟩
      exact fun c hc => h1 c (Heap.mem_percolateDown _ _ _ _ c hc)
    | false =>
      simp only [Bool.false_eq_true, if_false]
      have h1 := inside_map (S := S) Ref.next Ref.next_xs m.cs hm
      have hc := Heap.heapify_congr _ _ _ (cmp_congr_list hag true _ h1)
      refine ⟨by rw [hc], ?_⟩
      exact fun c hc => h1 c (Heap.mem_heapify _ _ c hc)
  | prev =>
    simp only [Merging.step, Merging.prev]
    cases m.fwd with
    | true =>
      simp only [if_true]
      have h1 := inside_map (S := S) Ref.prev Ref.prev_xs m.cs hm
      have hc := Heap.heapify_congr _ _ _ (cmp_congr_list hag false _ h1)
      refine ⟨by rw [hc], ?_⟩
      exact fun c hc => h1 c (Heap.mem_heapify _ _ c hc)
    | false =>
      simp only [Bool.false_eq_true, if_false]
      have h1 := inside_modifyHead (S := S) Ref.prev Ref.prev_xs m.cs hm
      have hc := Heap.percolateDown_congr _ _ (Merging.modifyHead Ref.prev m.cs).length _ 0
        (cmp_congr_list hag false _ h1)
      refine ⟨by rw [hc], ?_⟩
      exact fun c hc => h1 c (Heap.mem_percolateDown _ _ _ _ c hc)

/-- **every program**: two orders that agree on the children's entries give the same run -/
theorem merging_run_congr {S : E → Prop} {lt lt' : E → E → Bool} (hag : AgreeOn S lt lt') :
    ∀ (ops : List (Op E)) (m : Merging E), (∀ c ∈ m.cs, Inside S c) →
      Merging.run lt m ops = Merging.run lt' m ops
  | [], _, _ => rfl
  | op :: ops, m, hm => by
    obtain ⟨h1, h2⟩ := merging_step_congr hag m hm op
    simp only [Merging.run]
    rw [h1, merging_run_congr hag ops _ h2]

theorem merging_new_congr {S : E → Prop} {lt lt' : E → E → Bool} (hag : AgreeOn S lt lt')
    (cs : List (Ref E)) (hcs : ∀ c ∈ cs, Inside S c) :
    Merging.new lt cs = Merging.new lt' cs ∧ ∀ c ∈ (Merging.new lt' cs).cs, Inside S c :=
  merging_step_congr hag ⟨true, cs⟩ hcs .first

end Blue.Cursor

#print axioms Blue.Cursor.merging_run_congr
